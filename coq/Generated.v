(* Generated.v -- REGENERATED on every run by /verif/translator from the Rust sources (`/repo/src`).
   Do not edit: the file is overwritten whenever its content would change.  The checked-in copy is a snapshot.
   Anything the translator does not recognise is recorded as Opaque / POpaque / BOpaque / SOther / ok := false,
   so that the theorems re-proved about these definitions fail (fail closed). *)
From Verif Require Import Base.
From Coq Require Import String.
Local Open Scope string_scope.

(* ---------- vocabulary (fixed text emitted by the translator) ---------- *)

(* where the value of a field of the (re)built struct comes from *)
Inductive src :=
| Old (f : string)                    (* the value field f of the consumed object had before the call *)
| Param (i : nat) (wrapper : string)  (* the i-th non-self parameter; wrapper = "" or e.g. "Some(Box::new(_))" *)
| NoneLit                             (* the literal `None` *)
| Opaque (e : string).                (* NOT RECOGNISED: the expression text *)

(* an argument of a call, resolved against the scopes of the enclosing function *)
Inductive arg :=
| AParam (i : nat)                    (* the i-th non-self parameter of the enclosing function *)
| ABind (i : nat)                     (* the i-th variable bound by the match arm's pattern *)
| ALocal (x : string)                 (* a `let`-bound local of the enclosing function *)
| ASelf
| ASelfField (f : string)
| ARef (a : arg)
| ARefMut (a : arg)
| AOpaque (e : string).               (* NOT RECOGNISED *)

Inductive cfg := CfgFeature (f : string) | CfgOpaque (e : string).

(* binds: for each variable bound by the pattern, in binding order, the tuple index / field name *)
Inductive pat := PVariant (enum kind : string) (binds : list string) | PCatchAll | POpaque (e : string).

Inductive body :=
| BCall (field method : string) (args : list arg)         (* self.<field>.<method>(args) *)
| BSelfCall (method : string) (args : list arg)           (* self.<method>(args) *)
| BParamCall (i : nat) (args : list arg)                  (* <i-th parameter>(args) *)
| BVariant (enum kind : string) (fields : list (string * arg))
| BBail | BUnimplemented | BUnreachable | BPanic
| BOpaque (e : string).                                   (* NOT RECOGNISED *)

Record arm := mk_arm { a_cfg : list cfg; a_pat : pat; a_guard : bool; a_body : body }.

Record matchfn := mk_matchfn {
  m_name : string; m_params : list string; m_lets : list (string * body);
  m_scrutinee : arg; m_arms : list arm; m_ok : bool; m_why : string }.

Record flow := mk_flow {
  f_name : string; f_params : list string; f_shape : string;
  f_fields : list (string * src); f_ok : bool; f_why : string }.

Inductive bstmt :=
| SLetStruct (var ty : string) (fields : list (string * src)) (nested : list (string * string))
| SMethodCall (recv method : string) (args : list arg)
| SReturnVar (var : string)
| SOther (e : string).                                    (* NOT RECOGNISED *)

(* ---------- translation status ---------- *)
Definition translation_ok : bool := true.
Definition translation_problems : list string := [].
(* crate features switched on by the harness (closure of verif, staking, stargate, cosmwasm_2_2 over [features] of Cargo.toml) *)
Definition harness_features : list string := ["cosmwasm_1_1"; "cosmwasm_1_2"; "cosmwasm_1_3"; "cosmwasm_1_4"; "cosmwasm_2_0"; "cosmwasm_2_1"; "cosmwasm_2_2"; "staking"; "stargate"; "verif"].

(* ---------- AppBuilder (app_builder.rs) ---------- *)
Definition builder_struct_fields : list string := ["api"; "block"; "storage"; "bank"; "wasm"; "custom"; "staking"; "distribution"; "ibc"; "gov"; "stargate"].
Definition app_struct_fields : list string := ["router"; "api"; "storage"; "block"].
Definition router_struct_fields : list string := ["wasm"; "bank"; "custom"; "staking"; "distribution"; "ibc"; "gov"; "stargate"].

Definition builder_ctors : list flow := [
  mk_flow "new" [] "rebuild" [("api", Opaque "MockApi::default()"); ("block", Opaque "mock_env().block"); ("storage", Opaque "MockStorage::new()"); ("bank", Opaque "BankKeeper::new()"); ("wasm", Opaque "WasmKeeper::new()"); ("custom", Opaque "FailingModule::new()"); ("staking", Opaque "StakeKeeper::new()"); ("distribution", Opaque "DistributionKeeper::new()"); ("ibc", Opaque "IbcFailingModule::new()"); ("gov", Opaque "GovFailingModule::new()"); ("stargate", Opaque "StargateFailing")] true "";
  mk_flow "new_custom" [] "rebuild" [("api", Opaque "MockApi::default()"); ("block", Opaque "mock_env().block"); ("storage", Opaque "MockStorage::new()"); ("bank", Opaque "BankKeeper::new()"); ("wasm", Opaque "WasmKeeper::new()"); ("custom", Opaque "FailingModule::new()"); ("staking", Opaque "StakeKeeper::new()"); ("distribution", Opaque "DistributionKeeper::new()"); ("ibc", Opaque "IbcFailingModule::new()"); ("gov", Opaque "GovFailingModule::new()"); ("stargate", Opaque "StargateFailing")] true ""
].

Definition builder_steps : list flow := [
  mk_flow "with_wasm" ["wasm"] "rebuild" [("api", Old "api"); ("block", Old "block"); ("storage", Old "storage"); ("bank", Old "bank"); ("wasm", Param 0 ""); ("custom", Old "custom"); ("staking", Old "staking"); ("distribution", Old "distribution"); ("ibc", Old "ibc"); ("gov", Old "gov"); ("stargate", Old "stargate")] true "";
  mk_flow "with_bank" ["bank"] "rebuild" [("api", Old "api"); ("block", Old "block"); ("storage", Old "storage"); ("bank", Param 0 ""); ("wasm", Old "wasm"); ("custom", Old "custom"); ("staking", Old "staking"); ("distribution", Old "distribution"); ("ibc", Old "ibc"); ("gov", Old "gov"); ("stargate", Old "stargate")] true "";
  mk_flow "with_api" ["api"] "rebuild" [("api", Param 0 ""); ("block", Old "block"); ("storage", Old "storage"); ("bank", Old "bank"); ("wasm", Old "wasm"); ("custom", Old "custom"); ("staking", Old "staking"); ("distribution", Old "distribution"); ("ibc", Old "ibc"); ("gov", Old "gov"); ("stargate", Old "stargate")] true "";
  mk_flow "with_storage" ["storage"] "rebuild" [("api", Old "api"); ("block", Old "block"); ("storage", Param 0 ""); ("bank", Old "bank"); ("wasm", Old "wasm"); ("custom", Old "custom"); ("staking", Old "staking"); ("distribution", Old "distribution"); ("ibc", Old "ibc"); ("gov", Old "gov"); ("stargate", Old "stargate")] true "";
  mk_flow "with_custom" ["custom"] "rebuild" [("api", Old "api"); ("block", Old "block"); ("storage", Old "storage"); ("bank", Old "bank"); ("wasm", Old "wasm"); ("custom", Param 0 ""); ("staking", Old "staking"); ("distribution", Old "distribution"); ("ibc", Old "ibc"); ("gov", Old "gov"); ("stargate", Old "stargate")] true "";
  mk_flow "with_staking" ["staking"] "rebuild" [("api", Old "api"); ("block", Old "block"); ("storage", Old "storage"); ("bank", Old "bank"); ("wasm", Old "wasm"); ("custom", Old "custom"); ("staking", Param 0 ""); ("distribution", Old "distribution"); ("ibc", Old "ibc"); ("gov", Old "gov"); ("stargate", Old "stargate")] true "";
  mk_flow "with_distribution" ["distribution"] "rebuild" [("api", Old "api"); ("block", Old "block"); ("storage", Old "storage"); ("bank", Old "bank"); ("wasm", Old "wasm"); ("custom", Old "custom"); ("staking", Old "staking"); ("distribution", Param 0 ""); ("ibc", Old "ibc"); ("gov", Old "gov"); ("stargate", Old "stargate")] true "";
  mk_flow "with_ibc" ["ibc"] "rebuild" [("api", Old "api"); ("block", Old "block"); ("storage", Old "storage"); ("bank", Old "bank"); ("wasm", Old "wasm"); ("custom", Old "custom"); ("staking", Old "staking"); ("distribution", Old "distribution"); ("ibc", Param 0 ""); ("gov", Old "gov"); ("stargate", Old "stargate")] true "";
  mk_flow "with_gov" ["gov"] "rebuild" [("api", Old "api"); ("block", Old "block"); ("storage", Old "storage"); ("bank", Old "bank"); ("wasm", Old "wasm"); ("custom", Old "custom"); ("staking", Old "staking"); ("distribution", Old "distribution"); ("ibc", Old "ibc"); ("gov", Param 0 ""); ("stargate", Old "stargate")] true "";
  mk_flow "with_stargate" ["stargate"] "rebuild" [("api", Old "api"); ("block", Old "block"); ("storage", Old "storage"); ("bank", Old "bank"); ("wasm", Old "wasm"); ("custom", Old "custom"); ("staking", Old "staking"); ("distribution", Old "distribution"); ("ibc", Old "ibc"); ("gov", Old "gov"); ("stargate", Param 0 "")] true "";
  mk_flow "with_block" ["block"] "assign" [("api", Old "api"); ("block", Param 0 ""); ("storage", Old "storage"); ("bank", Old "bank"); ("wasm", Old "wasm"); ("custom", Old "custom"); ("staking", Old "staking"); ("distribution", Old "distribution"); ("ibc", Old "ibc"); ("gov", Old "gov"); ("stargate", Old "stargate")] true ""
].

(* AppBuilder::build, statement by statement *)
Definition build_params : list string := ["init_fn"].
Definition build_body : list bstmt := [
  SLetStruct "app" "App" [("router.wasm", Old "wasm"); ("router.bank", Old "bank"); ("router.custom", Old "custom"); ("router.staking", Old "staking"); ("router.distribution", Old "distribution"); ("router.ibc", Old "ibc"); ("router.gov", Old "gov"); ("router.stargate", Old "stargate"); ("api", Old "api"); ("block", Old "block"); ("storage", Old "storage")] [("router", "Router")];
  SMethodCall "app" "init_modules" [AParam 0];
  SReturnVar "app"
].
(* occurrences of the identifier of build's first parameter in build's body *)
Definition build_init_mentions : nat := 1.
(* App::init_modules (app.rs) *)
Definition init_modules_params : list string := ["init_fn"].
Definition init_modules_body : body := BParamCall 0 [ARefMut (ASelfField "router"); ARef (ASelfField "api"); ARefMut (ASelfField "storage")].
Definition init_modules_mentions : nat := 1.

(* ---------- ContractWrapper (contracts.rs) ---------- *)
Definition wrapper_struct_fields : list string := ["execute_fn"; "instantiate_fn"; "query_fn"; "sudo_fn"; "reply_fn"; "migrate_fn"; "checksum"].

Definition wrapper_ctors : list flow := [
  mk_flow "new" ["execute_fn"; "instantiate_fn"; "query_fn"] "rebuild" [("execute_fn", Param 0 "Box::new(_)"); ("instantiate_fn", Param 1 "Box::new(_)"); ("query_fn", Param 2 "Box::new(_)"); ("sudo_fn", NoneLit); ("reply_fn", NoneLit); ("migrate_fn", NoneLit); ("checksum", NoneLit)] true "";
  mk_flow "new_with_empty" ["execute_fn"; "instantiate_fn"; "query_fn"] "rebuild" [("execute_fn", Param 0 "customize_contract_fn(_)"); ("instantiate_fn", Param 1 "customize_contract_fn(_)"); ("query_fn", Param 2 "customize_query_fn(_)"); ("sudo_fn", NoneLit); ("reply_fn", NoneLit); ("migrate_fn", NoneLit); ("checksum", NoneLit)] true ""
].

Definition wrapper_steps : list flow := [
  mk_flow "with_sudo" ["sudo_fn"] "rebuild" [("execute_fn", Old "execute_fn"); ("instantiate_fn", Old "instantiate_fn"); ("query_fn", Old "query_fn"); ("sudo_fn", Param 0 "Some(Box::new(_))"); ("reply_fn", Old "reply_fn"); ("migrate_fn", Old "migrate_fn"); ("checksum", Old "checksum")] true "";
  mk_flow "with_sudo_empty" ["sudo_fn"] "rebuild" [("execute_fn", Old "execute_fn"); ("instantiate_fn", Old "instantiate_fn"); ("query_fn", Old "query_fn"); ("sudo_fn", Param 0 "Some(customize_permissioned_fn(_))"); ("reply_fn", Old "reply_fn"); ("migrate_fn", Old "migrate_fn"); ("checksum", Old "checksum")] true "";
  mk_flow "with_reply" ["reply_fn"] "rebuild" [("execute_fn", Old "execute_fn"); ("instantiate_fn", Old "instantiate_fn"); ("query_fn", Old "query_fn"); ("sudo_fn", Old "sudo_fn"); ("reply_fn", Param 0 "Some(Box::new(_))"); ("migrate_fn", Old "migrate_fn"); ("checksum", Old "checksum")] true "";
  mk_flow "with_reply_empty" ["reply_fn"] "rebuild" [("execute_fn", Old "execute_fn"); ("instantiate_fn", Old "instantiate_fn"); ("query_fn", Old "query_fn"); ("sudo_fn", Old "sudo_fn"); ("reply_fn", Param 0 "Some(customize_permissioned_fn(_))"); ("migrate_fn", Old "migrate_fn"); ("checksum", Old "checksum")] true "";
  mk_flow "with_migrate" ["migrate_fn"] "rebuild" [("execute_fn", Old "execute_fn"); ("instantiate_fn", Old "instantiate_fn"); ("query_fn", Old "query_fn"); ("sudo_fn", Old "sudo_fn"); ("reply_fn", Old "reply_fn"); ("migrate_fn", Param 0 "Some(Box::new(_))"); ("checksum", Old "checksum")] true "";
  mk_flow "with_migrate_empty" ["migrate_fn"] "rebuild" [("execute_fn", Old "execute_fn"); ("instantiate_fn", Old "instantiate_fn"); ("query_fn", Old "query_fn"); ("sudo_fn", Old "sudo_fn"); ("reply_fn", Old "reply_fn"); ("migrate_fn", Param 0 "Some(customize_permissioned_fn(_))"); ("checksum", Old "checksum")] true "";
  mk_flow "with_checksum" ["checksum"] "assign" [("execute_fn", Old "execute_fn"); ("instantiate_fn", Old "instantiate_fn"); ("query_fn", Old "query_fn"); ("sudo_fn", Old "sudo_fn"); ("reply_fn", Old "reply_fn"); ("migrate_fn", Old "migrate_fn"); ("checksum", Param 0 "Some(_)")] true ""
].

(* impl Contract for ContractWrapper: entry point -> fields of self it reads *)
Definition wrapper_dispatch : list (string * list string) := [("execute", ["execute_fn"]); ("instantiate", ["instantiate_fn"]); ("query", ["query_fn"]); ("sudo", ["sudo_fn"]); ("reply", ["reply_fn"]); ("migrate", ["migrate_fn"]); ("checksum", ["checksum"])].

(* ---------- Router (app.rs: impl CosmosRouter for Router) ---------- *)
Definition route_exec : matchfn :=
  mk_matchfn "execute" ["api"; "storage"; "block"; "sender"; "msg"] [] (AParam 4) [
    mk_arm [] (PVariant "CosmosMsg" "Wasm" ["0"]) false (BCall "wasm" "execute" [AParam 0; AParam 1; ASelf; AParam 2; AParam 3; ABind 0]);
    mk_arm [] (PVariant "CosmosMsg" "Bank" ["0"]) false (BCall "bank" "execute" [AParam 0; AParam 1; ASelf; AParam 2; AParam 3; ABind 0]);
    mk_arm [] (PVariant "CosmosMsg" "Custom" ["0"]) false (BCall "custom" "execute" [AParam 0; AParam 1; ASelf; AParam 2; AParam 3; ABind 0]);
    mk_arm [CfgFeature "staking"] (PVariant "CosmosMsg" "Staking" ["0"]) false (BCall "staking" "execute" [AParam 0; AParam 1; ASelf; AParam 2; AParam 3; ABind 0]);
    mk_arm [CfgFeature "staking"] (PVariant "CosmosMsg" "Distribution" ["0"]) false (BCall "distribution" "execute" [AParam 0; AParam 1; ASelf; AParam 2; AParam 3; ABind 0]);
    mk_arm [CfgFeature "stargate"] (PVariant "CosmosMsg" "Ibc" ["0"]) false (BCall "ibc" "execute" [AParam 0; AParam 1; ASelf; AParam 2; AParam 3; ABind 0]);
    mk_arm [CfgFeature "stargate"] (PVariant "CosmosMsg" "Gov" ["0"]) false (BCall "gov" "execute" [AParam 0; AParam 1; ASelf; AParam 2; AParam 3; ABind 0]);
    mk_arm [CfgFeature "stargate"] (PVariant "CosmosMsg" "Stargate" ["type_url"; "value"]) false (BCall "stargate" "execute_stargate" [AParam 0; AParam 1; ASelf; AParam 2; AParam 3; ABind 0; ABind 1]);
    mk_arm [CfgFeature "cosmwasm_2_0"] (PVariant "CosmosMsg" "Any" ["0"]) false (BCall "stargate" "execute_any" [AParam 0; AParam 1; ASelf; AParam 2; AParam 3; ABind 0]);
    mk_arm [] (PCatchAll) false (BBail)] true "".

Definition route_query : matchfn :=
  mk_matchfn "query" ["api"; "storage"; "block"; "request"] [("querier", BSelfCall "querier" [AParam 0; AParam 1; AParam 2])] (AParam 3) [
    mk_arm [] (PVariant "QueryRequest" "Wasm" ["0"]) false (BCall "wasm" "query" [AParam 0; AParam 1; ARef (ALocal "querier"); AParam 2; ABind 0]);
    mk_arm [] (PVariant "QueryRequest" "Bank" ["0"]) false (BCall "bank" "query" [AParam 0; AParam 1; ARef (ALocal "querier"); AParam 2; ABind 0]);
    mk_arm [] (PVariant "QueryRequest" "Custom" ["0"]) false (BCall "custom" "query" [AParam 0; AParam 1; ARef (ALocal "querier"); AParam 2; ABind 0]);
    mk_arm [CfgFeature "staking"] (PVariant "QueryRequest" "Staking" ["0"]) false (BCall "staking" "query" [AParam 0; AParam 1; ARef (ALocal "querier"); AParam 2; ABind 0]);
    mk_arm [CfgFeature "stargate"] (PVariant "QueryRequest" "Ibc" ["0"]) false (BCall "ibc" "query" [AParam 0; AParam 1; ARef (ALocal "querier"); AParam 2; ABind 0]);
    mk_arm [CfgFeature "stargate"] (PVariant "QueryRequest" "Stargate" ["path"; "data"]) false (BCall "stargate" "query_stargate" [AParam 0; AParam 1; ARef (ALocal "querier"); AParam 2; ABind 0; ABind 1]);
    mk_arm [CfgFeature "cosmwasm_2_0"] (PVariant "QueryRequest" "Grpc" ["0"]) false (BCall "stargate" "query_grpc" [AParam 0; AParam 1; ARef (ALocal "querier"); AParam 2; ABind 0]);
    mk_arm [] (PCatchAll) false (BUnimplemented)] true "".

Definition route_sudo : matchfn :=
  mk_matchfn "sudo" ["api"; "storage"; "block"; "msg"] [] (AParam 3) [
    mk_arm [] (PVariant "SudoMsg" "Wasm" ["0"]) false (BCall "wasm" "sudo" [AParam 0; AParam 1; ASelf; AParam 2; ABind 0]);
    mk_arm [] (PVariant "SudoMsg" "Bank" ["0"]) false (BCall "bank" "sudo" [AParam 0; AParam 1; ASelf; AParam 2; ABind 0]);
    mk_arm [CfgFeature "staking"] (PVariant "SudoMsg" "Staking" ["0"]) false (BCall "staking" "sudo" [AParam 0; AParam 1; ASelf; AParam 2; ABind 0]);
    mk_arm [] (PCatchAll) false (BUnimplemented)] true "".

Definition sudo_msg_variants : list string := ["Bank"; "Custom"; "Staking"; "Wasm"].

(* ---------- customize_msg / customize_response (contracts.rs) ---------- *)
Definition lift_ok : bool := true.
Definition lift_why : string := "".
Definition lift_struct : string := "SubMsg".
(* fields of the rebuilt sub-message other than the matched one: Old f = <parameter>.f *)
Definition lift_fields : list (string * src) := [("id", Old "id"); ("payload", Old "payload"); ("gas_limit", Old "gas_limit"); ("reply_on", Old "reply_on")].
Definition lift_match_field : string := "msg".
Definition lift_scrutinee : src := Old "msg".
Definition lift_arms : list arm := [
    mk_arm [] (PVariant "CosmosMsg" "Wasm" ["0"]) false (BVariant "CosmosMsg" "Wasm" [("0", ABind 0)]);
    mk_arm [] (PVariant "CosmosMsg" "Bank" ["0"]) false (BVariant "CosmosMsg" "Bank" [("0", ABind 0)]);
    mk_arm [CfgFeature "staking"] (PVariant "CosmosMsg" "Staking" ["0"]) false (BVariant "CosmosMsg" "Staking" [("0", ABind 0)]);
    mk_arm [CfgFeature "staking"] (PVariant "CosmosMsg" "Distribution" ["0"]) false (BVariant "CosmosMsg" "Distribution" [("0", ABind 0)]);
    mk_arm [] (PVariant "CosmosMsg" "Custom" []) false (BUnreachable);
    mk_arm [CfgFeature "stargate"] (PVariant "CosmosMsg" "Ibc" ["0"]) false (BVariant "CosmosMsg" "Ibc" [("0", ABind 0)]);
    mk_arm [CfgFeature "stargate"] (PVariant "CosmosMsg" "Gov" ["0"]) false (BVariant "CosmosMsg" "Gov" [("0", ABind 0)]);
    mk_arm [CfgFeature "stargate"] (PVariant "CosmosMsg" "Stargate" ["type_url"; "value"]) false (BVariant "CosmosMsg" "Stargate" [("type_url", ABind 0); ("value", ABind 1)]);
    mk_arm [CfgFeature "cosmwasm_2_0"] (PVariant "CosmosMsg" "Any" ["0"]) false (BVariant "CosmosMsg" "Any" [("0", ABind 0)]);
    mk_arm [] (PCatchAll) false (BPanic)].
Definition response_reads : list string := ["messages"; "events"; "attributes"; "data"].
Definition response_calls : list string := ["customize_msg"].

(* ---------- cosmwasm-std as pinned by Cargo.lock: the real enums / structs (C17) ---------- *)
Definition cwstd_ok : bool := true.
Definition cwstd_why : string := "".
Definition cwstd_source : string := "cosmwasm-std-2.2.2".
(* features cosmwasm-std is compiled with by the harness (closure over its own [features], `default` included) *)
Definition cwstd_features : list string := ["cosmwasm_1_1"; "cosmwasm_1_2"; "cosmwasm_1_3"; "cosmwasm_1_4"; "cosmwasm_2_0"; "cosmwasm_2_1"; "cosmwasm_2_2"; "default"; "iterator"; "staking"; "stargate"; "std"].
(* (variant, cfg gates, fields: "0","1",.. for tuple variants) in declaration order *)
Definition cosmos_msg_variants : list (string * list cfg * list string) := [("Bank", [], ["0"]); ("Custom", [], ["0"]); ("Staking", [CfgFeature "staking"], ["0"]); ("Distribution", [CfgFeature "staking"], ["0"]); ("Stargate", [CfgFeature "stargate"], ["type_url"; "value"]); ("Any", [CfgFeature "cosmwasm_2_0"], ["0"]); ("Ibc", [CfgFeature "stargate"], ["0"]); ("Wasm", [], ["0"]); ("Gov", [CfgFeature "stargate"], ["0"])].
Definition query_request_variants : list (string * list cfg * list string) := [("Bank", [], ["0"]); ("Custom", [], ["0"]); ("Staking", [CfgFeature "staking"], ["0"]); ("Distribution", [CfgFeature "cosmwasm_1_3"], ["0"]); ("Stargate", [CfgFeature "stargate"], ["path"; "data"]); ("Ibc", [CfgFeature "stargate"], ["0"]); ("Wasm", [], ["0"]); ("Grpc", [CfgFeature "cosmwasm_2_0"], ["0"])].
Definition submsg_struct_fields : list string := ["id"; "payload"; "msg"; "gas_limit"; "reply_on"].
Definition response_struct_fields : list string := ["messages"; "attributes"; "events"; "data"].
(* types of the non-self parameters of Router::execute / query / sudo, as written *)
Definition router_param_types : list (string * list string) := [("execute", ["&dyn Api"; "&mut dyn Storage"; "&BlockInfo"; "Addr"; "CosmosMsg<Self::ExecC>"]); ("query", ["&dyn Api"; "&dyn Storage"; "&BlockInfo"; "QueryRequest<Self::QueryC>"]); ("sudo", ["&dyn Api"; "&mut dyn Storage"; "&BlockInfo"; "SudoMsg"])].

(* ---------- constants ---------- *)
Definition DEFAULT_PREFIX : bytes := [99%N; 111%N; 115%N; 109%N; 119%N; 97%N; 115%N; 109%N]. (* addresses.rs str: cosmwasm *)
Definition BALANCES : bytes := [98%N; 97%N; 108%N; 97%N; 110%N; 99%N; 101%N; 115%N]. (* bank.rs storage-key: balances *)
Definition DENOM_METADATA : bytes := [109%N; 101%N; 116%N; 97%N; 100%N; 97%N; 116%N; 97%N]. (* bank.rs storage-key: metadata *)
Definition NAMESPACE_BANK : bytes := [98%N; 97%N; 110%N; 107%N]. (* bank.rs bytes: bank *)
Definition BONDED_DENOM : bytes := [84%N; 79%N; 75%N; 69%N; 78%N]. (* staking.rs str: TOKEN *)
Definition YEAR : N := 31536000%N. (* staking.rs *)
Definition STAKING_INFO : bytes := [115%N; 116%N; 97%N; 107%N; 105%N; 110%N; 103%N; 95%N; 105%N; 110%N; 102%N; 111%N]. (* staking.rs storage-key: staking_info *)
Definition STAKES : bytes := [115%N; 116%N; 97%N; 107%N; 101%N; 115%N]. (* staking.rs storage-key: stakes *)
Definition VALIDATOR_MAP : bytes := [118%N; 97%N; 108%N; 105%N; 100%N; 97%N; 116%N; 111%N; 114%N; 95%N; 109%N; 97%N; 112%N]. (* staking.rs storage-key: validator_map *)
Definition VALIDATORS : bytes := [118%N; 97%N; 108%N; 105%N; 100%N; 97%N; 116%N; 111%N; 114%N; 115%N]. (* staking.rs storage-key: validators *)
Definition VALIDATOR_INFO : bytes := [118%N; 97%N; 108%N; 105%N; 100%N; 97%N; 116%N; 111%N; 114%N; 95%N; 105%N; 110%N; 102%N; 111%N]. (* staking.rs storage-key: validator_info *)
Definition UNBONDING_QUEUE : bytes := [117%N; 110%N; 98%N; 111%N; 110%N; 100%N; 105%N; 110%N; 103%N; 95%N; 113%N; 117%N; 101%N; 117%N; 101%N]. (* staking.rs storage-key: unbonding_queue *)
Definition WITHDRAW_ADDRESS : bytes := [119%N; 105%N; 116%N; 104%N; 100%N; 114%N; 97%N; 119%N; 95%N; 97%N; 100%N; 100%N; 114%N; 101%N; 115%N; 115%N]. (* staking.rs storage-key: withdraw_address *)
Definition NAMESPACE_STAKING : bytes := [115%N; 116%N; 97%N; 107%N; 105%N; 110%N; 103%N]. (* staking.rs bytes: staking *)
Definition NAMESPACE_DISTRIBUTION : bytes := [100%N; 105%N; 115%N; 116%N; 114%N; 105%N; 98%N; 117%N; 116%N; 105%N; 111%N; 110%N]. (* staking.rs bytes: distribution *)
Definition CONTRACTS : bytes := [99%N; 111%N; 110%N; 116%N; 114%N; 97%N; 99%N; 116%N; 115%N]. (* wasm.rs storage-key: contracts *)
Definition NAMESPACE_WASM : bytes := [119%N; 97%N; 115%N; 109%N]. (* wasm.rs bytes: wasm *)
Definition CONTRACT_ATTR : bytes := [95%N; 99%N; 111%N; 110%N; 116%N; 114%N; 97%N; 99%N; 116%N; 95%N; 97%N; 100%N; 100%N; 114%N; 101%N; 115%N; 115%N]. (* wasm.rs str: _contract_address *)
Definition byte_constants : list (string * string * bytes) := [("addresses.rs", "DEFAULT_PREFIX", DEFAULT_PREFIX); ("bank.rs", "BALANCES", BALANCES); ("bank.rs", "DENOM_METADATA", DENOM_METADATA); ("bank.rs", "NAMESPACE_BANK", NAMESPACE_BANK); ("staking.rs", "BONDED_DENOM", BONDED_DENOM); ("staking.rs", "STAKING_INFO", STAKING_INFO); ("staking.rs", "STAKES", STAKES); ("staking.rs", "VALIDATOR_MAP", VALIDATOR_MAP); ("staking.rs", "VALIDATORS", VALIDATORS); ("staking.rs", "VALIDATOR_INFO", VALIDATOR_INFO); ("staking.rs", "UNBONDING_QUEUE", UNBONDING_QUEUE); ("staking.rs", "WITHDRAW_ADDRESS", WITHDRAW_ADDRESS); ("staking.rs", "NAMESPACE_STAKING", NAMESPACE_STAKING); ("staking.rs", "NAMESPACE_DISTRIBUTION", NAMESPACE_DISTRIBUTION); ("wasm.rs", "CONTRACTS", CONTRACTS); ("wasm.rs", "NAMESPACE_WASM", NAMESPACE_WASM); ("wasm.rs", "CONTRACT_ATTR", CONTRACT_ATTR)].
(* first string-literal argument of Event::new(..) *)
Definition event_type_literals : list (string * bytes) := [("wasm.rs", [101%N; 120%N; 101%N; 99%N; 117%N; 116%N; 101%N]); ("wasm.rs", [105%N; 110%N; 115%N; 116%N; 97%N; 110%N; 116%N; 105%N; 97%N; 116%N; 101%N]); ("wasm.rs", [109%N; 105%N; 103%N; 114%N; 97%N; 116%N; 101%N]); ("wasm.rs", [114%N; 101%N; 112%N; 108%N; 121%N]); ("wasm.rs", [115%N; 117%N; 100%N; 111%N]); ("wasm.rs", [119%N; 97%N; 115%N; 109%N])].
(* first string-literal argument of .add_attribute(..) / attr(..) *)
Definition attribute_key_literals : list (string * bytes) := [("wasm.rs", [99%N; 111%N; 100%N; 101%N; 95%N; 105%N; 100%N]); ("wasm.rs", [109%N; 111%N; 100%N; 101%N])].

(* ---------- storage layout (wasm.rs contract_namespace; every place a prefixed view is opened) ---------- *)
Definition contract_namespace_ok : bool := true.
Definition contract_namespace_why : string := "".
Definition contract_namespace_params : list string := ["contract"].
Definition contract_namespace_literal : bytes := [99%N; 111%N; 110%N; 116%N; 114%N; 97%N; 99%N; 116%N; 95%N; 100%N; 97%N; 116%N; 97%N; 47%N]. (* contract_data/ *)
Definition contract_namespace_appends : list string := ["contract.as_bytes()"].
(* (file, enclosing fn, constructor / accessor, namespace or address argument) in source order *)
Definition storage_sites : list (string * string * string * string) := [
  ("app.rs", "contract_storage", "contract_storage", "contract_addr");
  ("app.rs", "contract_storage_mut", "contract_storage_mut", "contract_addr");
  ("app.rs", "prefixed_storage", "prefixed_read", "namespace");
  ("app.rs", "prefixed_storage_mut", "prefixed", "namespace");
  ("app.rs", "prefixed_multilevel_storage", "prefixed_multilevel_read", "namespaces");
  ("app.rs", "prefixed_multilevel_storage_mut", "prefixed_multilevel", "namespaces");
  ("bank.rs", "init_balance", "prefixed", "NAMESPACE_BANK");
  ("bank.rs", "execute", "prefixed", "NAMESPACE_BANK");
  ("bank.rs", "query", "prefixed_read", "NAMESPACE_BANK");
  ("bank.rs", "sudo", "prefixed", "NAMESPACE_BANK");
  ("staking.rs", "setup", "prefixed", "NAMESPACE_STAKING");
  ("staking.rs", "add_validator", "prefixed", "NAMESPACE_STAKING");
  ("staking.rs", "get_rewards", "prefixed_read", "NAMESPACE_STAKING");
  ("staking.rs", "process_queue", "prefixed_read", "NAMESPACE_STAKING");
  ("staking.rs", "process_queue", "prefixed", "NAMESPACE_STAKING");
  ("staking.rs", "process_queue", "prefixed", "NAMESPACE_STAKING");
  ("staking.rs", "execute", "prefixed", "NAMESPACE_STAKING");
  ("staking.rs", "query", "prefixed_read", "NAMESPACE_STAKING");
  ("staking.rs", "sudo", "prefixed", "NAMESPACE_STAKING");
  ("staking.rs", "remove_rewards", "prefixed", "NAMESPACE_STAKING");
  ("staking.rs", "get_withdraw_address", "prefixed_read", "NAMESPACE_DISTRIBUTION");
  ("staking.rs", "set_withdraw_address", "prefixed", "NAMESPACE_DISTRIBUTION");
  ("staking.rs", "execute", "prefixed_read", "NAMESPACE_STAKING");
  ("wasm.rs", "contract_storage", "contract_namespace", "address");
  ("wasm.rs", "contract_storage", "ReadonlyPrefixedStorage::multilevel", "&[NAMESPACE_WASM,&namespace]");
  ("wasm.rs", "contract_storage_mut", "contract_namespace", "address");
  ("wasm.rs", "contract_storage_mut", "PrefixedStorage::multilevel", "&[NAMESPACE_WASM,&namespace]");
  ("wasm.rs", "contract_data", "prefixed_read", "NAMESPACE_WASM");
  ("wasm.rs", "dump_wasm_raw", "contract_storage", "address");
  ("wasm.rs", "query_raw", "contract_storage", "&address");
  ("wasm.rs", "with_storage_readonly", "contract_storage", "&address");
  ("wasm.rs", "with_storage", "contract_storage_mut", "&address");
  ("wasm.rs", "save_contract", "prefixed", "NAMESPACE_WASM");
  ("wasm.rs", "instance_count", "prefixed_read", "NAMESPACE_WASM")].

(* ---------- advisory: possible sources of nondeterminism in non-test code (file, what, line) ---------- *)
Definition nondet_sources : list (string * string * N) := [].
Definition unparsed_sources : list string := [].
