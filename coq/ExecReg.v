(* ExecReg.v — executor-level lemmas used by the C11 / C12 oracles' model_ok proofs (ChkReg.v):
   reflexivity of the boolean equalities, the sorted-registry invariant, which log entries a contract body can
   produce, and freshness of the address of EVERY instantiate call of a message tree (at any depth). *)
From Coq Require Import Sorted.
From Verif Require Import Base OMap Text Proto Bank Exec ExecFacts ExecInv ExecFacts2 ChkExec ChkX Registry.
Local Open Scope N_scope.

(* ---------- reflexivity of the boolean equalities ---------- *)
Lemma list_eqb_refl {A} (eqb : A -> A -> bool) : (forall a, eqb a a = true) -> forall l, list_eqb eqb l l = true.
Proof. intros H. induction l as [|x l IH]; cbn; [reflexivity|]. rewrite H, IH. reflexivity. Qed.
Lemma option_eqb_refl {A} (eqb : A -> A -> bool) : (forall a, eqb a a = true) -> forall o, option_eqb eqb o o = true.
Proof. intros H [x|]; cbn; auto. Qed.
Lemma teqb_refl a : teqb a a = true. Proof. apply beqb_refl. Qed.
Lemma coin_eqb_refl c : coin_eqb c c = true.
Proof. unfold coin_eqb. rewrite teqb_refl, N.eqb_refl. reflexivity. Qed.
Lemma coins_eqb_refl c : coins_eqb c c = true. Proof. apply list_eqb_refl, coin_eqb_refl. Qed.
Lemma kv_eqb_refl x : kv_eqb x x = true.
Proof. unfold kv_eqb. rewrite !beqb_refl. reflexivity. Qed.
Lemma kvs_eqb_refl l : list_eqb kv_eqb l l = true. Proof. apply list_eqb_refl, kv_eqb_refl. Qed.
Lemma cdata_eqb_refl c : cdata_eqb c c = true.
Proof.
  unfold cdata_eqb. rewrite !N.eqb_refl, !teqb_refl, (option_eqb_refl teqb teqb_refl). reflexivity.
Qed.
Lemma amap_eqb_refl {A} (eq : A -> A -> bool) : (forall a, eq a a = true) -> forall l, amap_eqb eq l l = true.
Proof. intros H l. apply list_eqb_refl. intros [k v]. cbn. rewrite teqb_refl, H. reflexivity. Qed.
Lemma chain_eqb_refl s : chain_eqb s s = true.
Proof.
  unfold chain_eqb. rewrite (amap_eqb_refl coins_eqb coins_eqb_refl), (amap_eqb_refl cdata_eqb cdata_eqb_refl),
    (amap_eqb_refl (list_eqb kv_eqb) kvs_eqb_refl). reflexivity.
Qed.
Lemma outcome_N_eqb_refl (o : outcome N) : outcome_eqb N.eqb o o = true.
Proof. destruct o; cbn; auto using N.eqb_refl. Qed.
Lemma oo_teqb_refl (x : option (option text)) : option_eqb (option_eqb teqb) x x = true.
Proof. apply option_eqb_refl, option_eqb_refl, teqb_refl. Qed.

Lemma teqb_eq a b : teqb a b = true <-> a = b. Proof. apply beqb_eq. Qed.
Lemma oo_teqb_eq (x y : option (option text)) : option_eqb (option_eqb teqb) x y = true <-> x = y.
Proof.
  destruct x as [[a|]|], y as [[b|]|]; cbn; try (split; congruence).
  rewrite teqb_eq. split; congruence.
Qed.

(* ---------- the registry stays sorted by address (it is a map) ---------- *)
Definition reg_sorted (s : chain) : Prop := sorted bcmp (reg s).

Lemma update_sorted {A} k (a : A) l : sorted bcmp l -> sorted bcmp (update k a l).
Proof. apply insert_sorted; [apply bcmp_eq|apply bcmp_anti|apply bcmp_trans]. Qed.

Lemma exec_reg_sorted e :
  (forall sender ms s rs s', outc (run_msgs e sender ms s) = Ok (rs, s') -> reg_sorted s -> reg_sorted s') /\
  (forall op s, reg_sorted s -> reg_sorted (top_state (run_top e op s))).
Proof.
  set (R := fun s s' : chain => reg_sorted s -> reg_sorted s').
  assert (Hrefl : forall s, R s s) by (intros s H; exact H).
  assert (Htrans : forall a b c, R a b -> R b c -> R a c) by (intros a b c H1 H2 H; auto).
  assert (Hb : forall s b, R s (set_bank s b)) by (intros s b H; exact H).
  assert (Hc : forall s c m, R s (cstore_set s c m)) by (intros s c m H; exact H).
  assert (Hr : forall s code_id creator admin label salt a s1,
             register_contract e s code_id creator admin label salt = Ok (a, s1) -> R s s1).
  { intros s code_id creator admin label salt a s1 H Hs. apply register_fresh in H. destruct H as [_ [_ [Hr _]]].
    unfold reg_sorted. rewrite Hr. apply update_sorted, Hs. }
  assert (Hm : forall s c cd new_code, lookup c (reg s) = Some cd ->
             R s (set_reg s (update c {| cd_code := new_code; cd_creator := cd_creator cd; cd_admin := cd_admin cd;
                                         cd_label := cd_label cd; cd_created := cd_created cd |} (reg s)))).
  { intros s c cd n _ Hs. unfold reg_sorted. cbn [reg set_reg]. apply update_sorted, Hs. }
  assert (Ha : forall s c cd sender na, lookup c (reg s) = Some cd -> cd_admin cd = Some sender ->
             R s (set_reg s (update c {| cd_code := cd_code cd; cd_creator := cd_creator cd; cd_admin := na;
                                         cd_label := cd_label cd; cd_created := cd_created cd |} (reg s)))).
  { intros s c cd sender na _ _ Hs. unfold reg_sorted. cbn [reg set_reg]. apply update_sorted, Hs. }
  split.
  - intros sender ms s rs s' H. exact (run_msgs_preserves e R Hrefl Htrans Hb Hc Hr Hm Ha sender ms s rs s' H).
  - intros op s. exact (run_top_preserves e R Hrefl Htrans Hb Hc Hr Hm Ha op s).
Qed.

Lemma sorted_in_lookup {A} (l : list (text * A)) k v : sorted bcmp l -> In (k, v) l -> lookup k l = Some v.
Proof.
  unfold lookup. induction l as [|[k' v'] l IH]; intros Hs Hin; [contradiction|].
  apply sorted_inv in Hs. destruct Hs as [Hs Hf]. cbn [assoc]. destruct Hin as [E|Hin].
  - injection E as -> ->. rewrite (proj2 (bcmp_eq k k) eq_refl). reflexivity.
  - assert (Hlt : bcmp k' k = Lt).
    { rewrite Forall_forall in Hf. apply Hf. unfold keys. apply in_map_iff. exists (k, v). auto. }
    rewrite bcmp_anti, Hlt. cbn. apply IH; assumption.
Qed.

(* ---------- what a contract body / a query can log: observations and query headers, never a call ---------- *)
Definition not_call (en : rentry) : Prop := match en with RCall _ _ _ _ _ _ _ _ => False | _ => True end.

Lemma query_no_calls e :
  (forall q s node own, Forall not_call (run_qact e s node own q)) /\
  (forall q s c tag, Forall not_call (fst (run_qprog e s c tag q))) /\
  (forall l s node own, Forall not_call (run_qacts e s node own l)).
Proof.
  apply query_mutind; intros; cbn [run_qact run_qprog run_qacts fst];
    try (repeat constructor; fail).
  - destruct (is_valid e c); [|repeat constructor].
    destruct (lookup c (reg s)) as [cd|]; [|repeat constructor].
    destruct (find_code (cd_code cd) (codes e)) as [co|]; [|repeat constructor].
    specialize (H s c (c_tag co)). destruct (run_qprog e s c (c_tag co) q) as [tr r]. cbn in H.
    apply Forall_app. split; [exact H|repeat constructor].
  - constructor; [exact I|apply H].
  - apply Forall_app. split; [apply H|apply H0].
Qed.

Lemma actions_no_calls e s node : forall acts own, Forall not_call (fst (run_actions e s node own acts)).
Proof.
  induction acts as [|a r IH]; intros own; cbn [run_actions fst]; [constructor|].
  destruct a as [k v|k|q]; try apply IH.
  specialize (IH own). destruct (run_actions e s node own r) as [tr' own']. cbn [fst] in *.
  apply Forall_app. split; [apply query_no_calls|exact IH].
Qed.

Lemma find_call_no_calls n tr : Forall not_call tr -> find_call n tr = None.
Proof.
  induction tr as [|en tr IH]; intros H; [reflexivity|]. inversion H; subst. cbn [find_call].
  destruct en; cbn in *; try contradiction; apply IH; assumption.
Qed.

(* ---------- a leaf program: the complete run ---------- *)
Lemma run_prog_leaf e entry c sender funds rep cid rok node acts attrs events data s cd co :
  lookup c (reg s) = Some cd -> find_code (cd_code cd) (codes e) = Some co -> ep_available co entry = true ->
  verify_response attrs events = None ->
  run_prog e entry c sender funds rep cid rok (Prog node acts (OResp attrs events data SNil)) s =
  (RCall node entry c sender funds (blk e) (c_tag co) rep :: fst (run_actions e s node (cstore_get s c) acts) ++ [],
   Ok ((base_events c (ep_event entry c cid rok) attrs events ++ [], data),
       cstore_set s c (snd (run_actions e s node (cstore_get s c) acts)))).
Proof.
  intros Hl Hf Ha Hv. cbn [run_prog]. rewrite Hl, Hf, Ha. cbn [negb].
  destruct (run_actions e s node (cstore_get s c) acts) as [tr_a own']. rewrite Hv. reflexivity.
Qed.


(* ---------- every instantiate call of a message tree, at any depth, is at an address that no contract had when
   the tree started (contracts are never removed within it, and each registration passes the duplicate check) ---------- *)
Definition keys_sub (s0 s : chain) : Prop := forall a, lookup a (reg s0) <> None -> lookup a (reg s) <> None.
Definition fresh_call (s0 : chain) (en : rentry) : Prop :=
  match en with RCall _ EInst a _ _ _ _ _ => lookup a (reg s0) = None | _ => True end.

Lemma keys_sub_refl s : keys_sub s s. Proof. intros a H. exact H. Qed.
Lemma keys_sub_trans a b c : keys_sub a b -> keys_sub b c -> keys_sub a c.
Proof. intros H1 H2 x Hx. apply H2, H1, Hx. Qed.
Lemma reg_ext_keys_sub s s' : reg_ext s s' -> keys_sub s s'.
Proof.
  intros H a Ha. destruct (lookup a (reg s)) as [cd|] eqn:E; [|congruence].
  destruct (H _ _ E) as [cd' [Hl _]]. rewrite Hl. discriminate.
Qed.
Lemma keys_sub_same_reg s0 s s' : reg s' = reg s -> keys_sub s0 s -> keys_sub s0 s'.
Proof. intros E H a Ha. rewrite E. apply H, Ha. Qed.
Lemma not_call_fresh s0 tr : Forall not_call tr -> Forall (fresh_call s0) tr.
Proof. apply Forall_impl. intros en H. destruct en; cbn in *; try exact I. contradiction. Qed.

Lemma inst_calls_fresh e s0 :
  (forall m sender s, keys_sub s0 s -> Forall (fresh_call s0) (trc (run_msg e sender m s))) /\
  (forall p entry c sender funds rep cid rok s, keys_sub s0 s -> (entry = EInst -> lookup c (reg s0) = None) ->
      Forall (fresh_call s0) (trc (run_prog e entry c sender funds rep cid rok p s))) /\
  (forall o : output, match o with
                      | OFail => True
                      | OResp _ _ _ sbs => forall c data s, keys_sub s0 s -> Forall (fresh_call s0) (trc (process_subs e c sbs data s))
                      end) /\
  (forall l c data s, keys_sub s0 s -> Forall (fresh_call s0) (trc (process_subs e c l data s))) /\
  (forall sb c s, keys_sub s0 s -> Forall (fresh_call s0) (trc (run_sub e c sb s))).
Proof.
  destruct (reg_ext_hyps e) as [_ [_ [Hreg [Hmig _]]]].
  apply exec_mutind; try (intros; exact I).
  - intros to amt sender s _. cbn [run_msg]. destruct (bank_send (bank s) sender to amt); constructor.
  - intros amt sender s _. cbn [run_msg]. destruct (bank_burn (bank s) sender amt); constructor.
  - (* MExec *) intros c p IH funds sender s Hk. cbn [run_msg].
    destruct (negb (is_valid e c)); [constructor|].
    destruct (move_funds s sender c funds) as [s1| |] eqn:Em; try constructor.
    assert (Hk1 : keys_sub s0 s1).
    { apply move_funds_spec in Em. destruct Em as [E _]. eapply keys_sub_same_reg; eauto. }
    specialize (IH EExec c (Some sender) funds None 0 true s1 Hk1).
    destruct (run_prog e EExec c (Some sender) funds None 0 true p s1) as [tr [[[ev d] s2]| |]]; apply IH; discriminate.
  - (* MInst *) intros code_id p IH funds label admin salt sender s Hk. cbn [run_msg].
    destruct label as [|l0 lr]; [constructor|].
    destruct (register_contract e s code_id sender admin (l0 :: lr) salt) as [[a s1]| |] eqn:Er; try constructor.
    destruct (move_funds s1 sender a funds) as [s2| |] eqn:Em; try constructor.
    assert (Hk2 : keys_sub s0 s2).
    { apply move_funds_spec in Em. destruct Em as [E _]. eapply keys_sub_same_reg; [exact E|].
      eapply keys_sub_trans; [exact Hk|]. apply reg_ext_keys_sub. eapply Hreg. exact Er. }
    assert (Hfresh : lookup a (reg s0) = None).
    { apply register_fresh in Er. destruct Er as [Hn _]. destruct (lookup a (reg s0)) eqn:E; [|reflexivity].
      exfalso. apply (Hk a); [rewrite E; discriminate|exact Hn]. }
    specialize (IH EInst a (Some sender) funds None code_id true s2 Hk2 (fun _ => Hfresh)).
    destruct (run_prog e EInst a (Some sender) funds None code_id true p s2) as [tr [[[ev d] s3]| |]]; exact IH.
  - (* MMigrate *) intros c new_code p IH sender s Hk. cbn [run_msg].
    destruct (negb (is_valid e c)); [constructor|].
    destruct (find_code new_code (codes e)); [|constructor].
    destruct (lookup c (reg s)) as [cd|] eqn:El; [|constructor].
    destruct (negb (option_eqb beqb (cd_admin cd) (Some sender))); [constructor|].
    match goal with |- context [run_prog e EMigrate c None [] None new_code true p ?s1] =>
      assert (Hk1 : keys_sub s0 s1) by (eapply keys_sub_trans; [exact Hk|]; apply reg_ext_keys_sub; apply Hmig; exact El);
      specialize (IH EMigrate c None [] None new_code true s1 Hk1);
      destruct (run_prog e EMigrate c None [] None new_code true p s1) as [tr [[[ev d] s2]| |]]; apply IH; discriminate end.
  - intros c a sender s _. cbn [run_msg].
    destruct (negb (is_valid e c)); [constructor|]. destruct (negb (is_valid e a)); [constructor|].
    destruct (lookup c (reg s)) as [cd|]; [|constructor].
    destruct (negb (option_eqb beqb (cd_admin cd) (Some sender))); constructor.
  - intros c sender s _. cbn [run_msg].
    destruct (negb (is_valid e c)); [constructor|].
    destruct (lookup c (reg s)) as [cd|]; [|constructor].
    destruct (negb (option_eqb beqb (cd_admin cd) (Some sender))); constructor.
  - intros ok tag sender s _. cbn [run_msg trc fst]. repeat constructor.
  - (* Prog *) intros node acts out IHout entry c sender funds rep cid rok s Hk Hent. cbn [run_prog].
    destruct (lookup c (reg s)) as [cd|]; [|constructor].
    destruct (find_code (cd_code cd) (codes e)) as [co|]; [|constructor].
    destruct (negb (ep_available co entry)); [constructor|].
    pose proof (actions_no_calls e s node acts (cstore_get s c)) as Ha. apply (not_call_fresh s0) in Ha.
    destruct (run_actions e s node (cstore_get s c) acts) as [tr_a own']. cbn [fst] in Ha.
    assert (Hhdr : fresh_call s0 (RCall node entry c sender funds (blk e) (c_tag co) rep)).
    { destruct entry; cbn; auto. }
    destruct out as [|attrs events data sbs].
    + cbn [trc fst]. constructor; assumption.
    + destruct (verify_response attrs events); [cbn [trc fst]; constructor; assumption|].
      assert (Hk1 : keys_sub s0 (cstore_set s c own')) by (eapply keys_sub_same_reg; [|exact Hk]; reflexivity).
      specialize (IHout c data (cstore_set s c own') Hk1).
      destruct (process_subs e c sbs data (cstore_set s c own')) as [tr_s [[[ev d] s2]| |]]; cbn [trc fst] in *;
        (constructor; [assumption|apply Forall_app; split; assumption]).
  - intros attrs events data sbs IH. exact IH.
  - intros c data s _. cbn. constructor.
  - (* SCons *) intros sb IHsb r IHr c data s Hk. rewrite process_subs_trace.
    apply Forall_app. split; [apply IHsb; exact Hk|].
    destruct (outc (run_sub e c sb s)) as [[[ev1 d1] s1]| |] eqn:E; [|constructor|constructor].
    apply IHr. eapply keys_sub_trans; [exact Hk|]. apply reg_ext_keys_sub.
    eapply (proj1 (proj2 (proj2 (exec_reg_ext e)))). exact E.
  - (* Sub *) intros id payload ro m IHm on_ok IHok on_err IHerr c s Hk. rewrite run_sub_trace.
    apply Forall_app. split; [apply IHm; exact Hk|]. unfold reply_run.
    destruct (outc (run_msg e c m s)) as [[[ev d] s1]| |] eqn:E.
    + destruct (wants_ok ro); [|constructor]. apply IHok; [|discriminate].
      eapply keys_sub_trans; [exact Hk|]. apply reg_ext_keys_sub. eapply (proj1 (exec_reg_ext e)). exact E.
    + destruct (wants_err ro); [|constructor]. apply IHerr; [exact Hk|discriminate].
    + constructor.
Qed.

Lemma run_msgs_calls_fresh e sender : forall ms s0 s, keys_sub s0 s -> Forall (fresh_call s0) (trc (run_msgs e sender ms s)).
Proof.
  induction ms as [|m ms IH]; intros s0 s Hk; cbn [run_msgs]; [constructor|].
  pose proof (proj1 (inst_calls_fresh e s0) m sender s Hk) as H1.
  pose proof (proj1 (exec_reg_ext e) m sender s) as Hx.
  destruct (run_msg e sender m s) as [tr1 [[r1 s1]| |]]; cbn [trc fst] in *; try exact H1.
  assert (Hk1 : keys_sub s0 s1).
  { eapply keys_sub_trans; [exact Hk|]. apply reg_ext_keys_sub. eapply Hx. reflexivity. }
  specialize (IH s0 s1 Hk1).
  destruct (run_msgs e sender ms s1) as [tr2 [[rss s2]| |]]; cbn [trc fst] in *; apply Forall_app; split; assumption.
Qed.

(* for every top-level entry point *)
Lemma top_calls_fresh e op s : Forall (fresh_call s) (top_trace (run_top e op s)).
Proof.
  unfold top_trace. destruct op as [sender ms|sender m|c p|to amt|sender m|sender m]; cbn [run_top].
  - pose proof (run_msgs_calls_fresh e sender ms s s (keys_sub_refl s)) as H.
    destruct (run_msgs e sender ms s) as [tr [[rs s']| |]]; exact H.
  - pose proof (run_msgs_calls_fresh e sender [m] s s (keys_sub_refl s)) as H.
    destruct (run_msgs e sender [m] s) as [tr [[rs s']| |]]; exact H.
  - pose proof (proj1 (proj2 (inst_calls_fresh e s)) p ESudo c None [] None 0 true s (keys_sub_refl s)) as H.
    destruct (run_prog e ESudo c None [] None 0 true p s) as [tr [[rs s']| |]]; apply H; discriminate.
  - destruct (negb (is_valid e to)); [constructor|]. destruct (bank_mint (bank s) to amt); constructor.
  - pose proof (run_msgs_calls_fresh e sender [m] s s (keys_sub_refl s)) as H.
    destruct (run_msgs e sender [m] s) as [tr [[rs s']| |]]; try exact H.
    destruct (helper_inst_addr (snd (first_resp rs))); exact H.
  - pose proof (run_msgs_calls_fresh e sender [m] s s (keys_sub_refl s)) as H.
    destruct (run_msgs e sender [m] s) as [tr [[rs s']| |]]; try exact H.
    destruct (helper_exec_data (snd (first_resp rs))); exact H.
Qed.
