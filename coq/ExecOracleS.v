(* ExecOracleS.v — part 7: whole scenarios.  Under the generator's well-formedness, every check of ChkX.v run on
   the model's own observations returns Agree: the oracles never flag an implementation that behaves exactly like
   the model ("no false alarm"), which is what links "agrees with the model" to "satisfies the oracle". *)
From Coq Require Import Sorted.
From Verif Require Import Base OMap Text Proto Bank Exec ExecFacts ExecInv ExecFacts2 ExecIso ChkExec ChkX Registry ExecReg
  ExecOracle ExecOracleM ExecOracleE ExecOracleP ExecOracleF ExecOracleG ExecOracleR ExecOracleQ.
Local Open Scope N_scope.

(* the invariant of the state the model threads through a scenario: [L] = the nodes of the steps already run *)
Definition scen_inv (L : list N) (rest : list step) (s : chain) : Prop :=
  st_ok s /\ bank_wf (bank s) /\
  (forall c n, has_marker s c n = true -> In (marker n) (map marker L)) /\
  Forall (fun st => wf_op (st_op st)) rest /\
  NoDup (map marker (L ++ scenario_nodes rest)).

Lemma scen_inv_start steps : wf_scenario steps -> scen_inv [] steps empty_chain.
Proof.
  intros [H1 H2]. split; [exact st_ok_empty|]. split; [exact bank_wf_empty|]. split; [|split; assumption].
  intros c n H. cbn in H. discriminate.
Qed.

Lemma bytes_eq_dec (a b : bytes) : {a = b} + {a <> b}.
Proof. apply list_eq_dec, N.eq_dec. Qed.

Lemma scen_inv_step ce L st r s : scen_inv L (st :: r) s ->
  step_pre s (st_op st) /\ bank_wf (bank s) /\ scen_inv (L ++ nodes_op (st_op st)) r (model_next ce st s).
Proof.
  intros (Hs & Hb & Hmk & Hw & Hn). inversion Hw as [|x l Hw1 Hw2]; subst.
  cbn [scenario_nodes flat_map] in Hn. fold (scenario_nodes r) in Hn.
  rewrite app_assoc in Hn. destruct (NoDup_marker_app _ _ Hn) as (Hn1 & _ & _ & _).
  destruct (NoDup_marker_app _ _ Hn1) as (_ & Hn2 & D1 & D2).
  assert (Hf : fresh s (nodes_op (st_op st))).
  { intros n Hin c. destruct (has_marker s c n) eqn:E; [|reflexivity]. exfalso. exact (D2 n Hin (Hmk c n E)). }
  split; [split; [exact Hs|]; split; [exact Hw1|]; split; assumption|]. split; [exact Hb|].
  unfold model_next. destruct (top_mframe (mk_env ce (st_blk st)) (st_op st) s Hw1 Hs) as (Hs' & A & B).
  split; [exact Hs'|]. split; [exact (proj2 (top_probe (mk_env ce (st_blk st)) (st_op st) s Hw1 Hb))|].
  split; [|split; assumption].
  intros c n Hm. rewrite map_app. apply in_or_app.
  destruct (in_dec bytes_eq_dec (marker n) (map marker (nodes_op (st_op st)))) as [Hi|Hi]; [right; exact Hi|].
  left. apply (Hmk c). rewrite <- (B c n Hi). exact Hm.
Qed.

(* not Ok => unchanged, for every block and state: holds of every entry point proper *)
Definition helper_safe (ce : case_env) (op : topop) : Prop := forall b s, atomic_at (mk_env ce b) op s.
Lemma no_helper_safe ce op : no_helper op -> helper_safe ce op.
Proof. intros H b s. apply atomic_no_helper, H. Qed.

Section Scenario.
Variable ce : case_env.

Definition sinv (safe : bool) (rest : list step) (s : chain) : Prop :=
  (exists L, scen_inv L rest s) /\ (safe = true -> Forall (fun st => helper_safe ce (st_op st)) rest).

Lemma oracle_ok (f : step -> option N) (safe : bool) :
  (forall st s, step_pre s (st_op st) -> bank_wf (bank s) ->
                (safe = true -> atomic_at (mk_env ce (st_blk st)) (st_op st) s) -> f (model_step ce st s) = None) ->
  forall steps, wf_scenario steps -> (safe = true -> Forall (fun st => helper_safe ce (st_op st)) steps) ->
  check_with f ce (model_steps ce steps empty_chain) = Agree.
Proof.
  intros Hf steps Hw Hsafe. apply check_with_model.
  apply (oracle_steps_model f ce (sinv safe)).
  - intros st r s [[L Hi] Hs]. destruct (scen_inv_step ce L st r s Hi) as (Hp & Hb & Hi').
    split.
    + apply Hf; [exact Hp|exact Hb|]. intros E. specialize (Hs E). inversion Hs as [|x l H1 H2]; subst. apply H1.
    + split; [eexists; exact Hi'|]. intros E. specialize (Hs E). inversion Hs; assumption.
  - split; [exists []; apply scen_inv_start, Hw|exact Hsafe].
Qed.

Lemma c13_model_ok steps : wf_scenario steps -> check_with p_c13 ce (model_steps ce steps empty_chain) = Agree.
Proof.
  intros Hw. apply (oracle_ok p_c13 false); [|exact Hw|discriminate]. intros st s Hp _ _. apply p_c13_model, Hp.
Qed.
Lemma c03_model_ok steps : wf_scenario steps -> check_with (p_c03 ce) ce (model_steps ce steps empty_chain) = Agree.
Proof.
  intros Hw. apply (oracle_ok (p_c03 ce) false); [|exact Hw|discriminate]. intros st s Hp _ _. apply p_c03_model, Hp.
Qed.
Lemma c04_model_ok steps : wf_scenario steps -> check_with p_c04 ce (model_steps ce steps empty_chain) = Agree.
Proof.
  intros Hw. apply (oracle_ok p_c04 false); [|exact Hw|discriminate]. intros st s Hp _ _. apply p_c04_model, Hp.
Qed.
Lemma c05_model_ok steps : wf_scenario steps -> check_with p_c05 ce (model_steps ce steps empty_chain) = Agree.
Proof.
  intros Hw. apply (oracle_ok p_c05 false); [|exact Hw|discriminate]. intros st s Hp Hb _. apply p_c05_model; assumption.
Qed.
Lemma c02_model_ok steps : wf_scenario steps -> Forall (fun st => helper_safe ce (st_op st)) steps ->
  check_with p_c02 ce (model_steps ce steps empty_chain) = Agree.
Proof.
  intros Hw Hs. apply (oracle_ok p_c02 true); [|exact Hw|intros _; exact Hs]. intros st s Hp _ Ha. apply p_c02_model; auto.
Qed.
Lemma c01_model_ok steps : wf_scenario steps -> Forall (fun st => helper_safe ce (st_op st)) steps ->
  check_with p_c01 ce (model_steps ce steps empty_chain) = Agree.
Proof.
  intros Hw Hs. apply (oracle_ok p_c01 true); [|exact Hw|intros _; exact Hs]. intros st s Hp _ Ha. apply p_c01_model; auto.
Qed.
End Scenario.

(* ---------- non-vacuity: a scenario with a caught failure, a reply on error and an uncaught failure ---------- *)
Definition ex_ce : case_env :=
  {| ce_codes := [(1, Build_code 101 [99] [] true true true)]; ce_valid := [[97]; [98]; [100]];
     ce_classic := [((1, 0), [98]); ((1, 1), [100])]; ce_salted := [] |}.
Definition ex_blk : blockinfo := Build_blockinfo 1 2 [99].
Definition ex_step (op : topop) : step :=
  {| st_blk := ex_blk; st_op := op; st_trace := []; st_outcome := Err; st_state := empty_chain; st_other := 0; st_raw_same := false |}.
Definition W (n : N) (o : output) : prog := Prog n [AWrite (marker n) [1]; AWrite [97] [n]; ARemove [98]] o.
Definition ok0 : output := OResp [] [] None SNil.
Definition ex_scenario : list step :=
  [ ex_step (TMint [97] [([117], 50)]);
    ex_step (TExecMulti [97] [MInst 1 (W 1 ok0) [] [76] None None; MInst 1 (W 2 ok0) [([117], 5)] [76] None None]);
    ex_step (TExec [97] (MExec [98] (W 3 (OResp [([107], [118])] [] (Some [7])
               (SCons (Sub 5 [9] RError (MExec [100] (W 4 OFail) []) (W 6 ok0) (W 7 ok0))
               (SCons (Sub 6 [] RSuccess (MExec [100] (W 8 ok0) [([117], 1)]) (W 9 ok0) (W 10 ok0)) SNil)))) [([117], 3)]));
    ex_step (TWasmSudo [100] (W 11 (OResp [] [] None (SCons (Sub 1 [] RNever (MExec [98] (W 12 OFail) []) (W 13 ok0) (W 14 ok0)) SNil))));
    ex_step (THelperExec [97] (MExec [98] (W 15 ok0) [])) ].

Example ex_scenario_wf : wf_scenario ex_scenario.
Proof. apply wf_scenario_b_ok. vm_compute. reflexivity. Qed.

(* what the model does on it: the second call succeeds with a reply on error (node 7) and a reply on success (node 9);
   the sudo call fails (uncaught failure of node 12) *)
Example ex_scenario_runs :
  map (fun st => (call_nodes (st_trace st), match st_outcome st with Ok _ => 1 | Err => 2 | Panic => 3 end))
      (model_steps ex_ce ex_scenario empty_chain)
  = [([], 1); ([1; 2], 1); ([3; 4; 7; 8; 9], 1); ([11; 12], 2); ([15], 1)].
Proof. vm_compute. reflexivity. Qed.

(* ---------- the other direction of the link: an Agree verdict means the oracle accepted every step of the
   IMPLEMENTATION's observations and the full correspondence with the model held at every step ---------- *)
Lemma check_with_agree_sound (f : step -> option N) ce steps : check_with f ce steps = Agree ->
  oracle_steps f steps 0 = None /\ corr ce steps empty_chain 0 = None.
Proof.
  unfold check_with, cexec. destruct (oracle_steps f steps 0); [discriminate|].
  destruct (corr ce steps empty_chain 0); [discriminate|]. auto.
Qed.
