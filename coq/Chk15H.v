(* Chk15H.v — rewards over whole histories: a ghost ledger of the ideal reward (the sum over the
   intervals between reward updates of share * apr * (1 - commission) * whole seconds) and the invariant
   "withdrawn + credited never exceed the ideal by more than the rounding of the commission: at most
   (share in tokens) atomic units per reward update".  No pinned theorems here. *)
From Verif Require Import Base OMap Bank Dec Staking StakingInv Chk14 StakingHist Chk16 Chk15.
Local Open Scope N_scope.

(* commissions are fractions *)
Definition comm_ok (su : setup) : Prop := forall v c, get_val (params_of su) v = Some c -> c <= D18.

Definition lastns (s : sstate) (v : N) : N := match get_vi v s with Some vi => vi_last vi | None => 0 end.
Definition kfac (su : setup) (v : N) : N := D18 - comm_of su v.

(* ---------- what one reward update credits (all cases) ---------- *)

Lemma rew_of_get s d v sh : get_stake d v s = Some sh -> rew_of s d v = sh_rew sh.
Proof. unfold rew_of. intros ->. reflexivity. Qed.
Lemma stake_of_get s d v sh : get_stake d v s = Some sh -> stake_of s d v = sh_stake sh.
Proof. unfold stake_of. intros ->. reflexivity. Qed.

Lemma calc_zero_stake now since apr comm r : calculate_rewards now since apr comm 0 = SOk r -> r = 0.
Proof.
  unfold calculate_rewards. destruct (now <? since / NS * NS); [discriminate|]. intros H.
  change (dec_of_uint 0) with (SOk (A:=N) 0) in H. cbn [sbind] in H.
  unfold dec_mul at 1 in H. rewrite N.mul_0_l in H. change (0 / D18) with 0 in H. change (fit 0) with (SOk (A:=N) 0) in H. cbn [sbind] in H.
  inv_bind H as tdd Ht. unfold dec_mul at 1 in H. rewrite N.mul_0_l in H. change (0 / D18) with 0 in H. change (fit 0) with (SOk (A:=N) 0) in H.
  cbn [sbind] in H. rewrite year_dec in H. cbn [sbind] in H. unfold dec_div in H. cbn in H. injection H as <-. reflexivity.
Qed.

Lemma update_rewards_credit su now s v s1 :
  comm_ok su -> stakers_ok s -> last_ok now s -> update_rewards (params_of su) now s v = SOk s1 ->
  (forall d v', v' <> v -> rew_of s1 d v' = rew_of s d v') /\
  (forall v', v' <> v -> lastns s1 v' = lastns s v') /\
  lastns s v <= lastns s1 v /\
  forall d, exists x, rew_of s1 d v = rew_of s d v + x /\
    x * YD * D18 <= stake_of s d v * su_apr su * (lastns s1 v / NS - lastns s v / NS) * kfac su v
                    + (if lastns s1 v =? lastns s v then 0 else YD * stake_of s d v).
Proof.
  intros Hc Hs Hl H. pose proof H as H'. apply update_rewards_spec in H' as (vi & comm & Gv & Gc & SB & Vo & Vv).
  destruct SB as (_ & _ & _ & So & Sm).
  split; [intros d v' Hn; unfold rew_of; rewrite (So d v' Hn); reflexivity|].
  split; [intros v' Hn; unfold lastns; rewrite (Vo v' Hn); reflexivity|].
  assert (L0 : lastns s v = vi_last vi) by (unfold lastns; rewrite Gv; reflexivity).
  assert (L1 : lastns s1 v = N.max now (vi_last vi)) by (unfold lastns; rewrite Vv; reflexivity).
  split; [rewrite L0, L1; apply N.le_max_r|]. intros d.
  assert (Ek : kfac su v = D18 - comm).
  { unfold kfac, comm_of. unfold get_val in Gc. cbn [p_vals params_of] in Gc. rewrite Gc. reflexivity. }
  pose proof (Hc v comm Gc) as Hcm.
  destruct (N.le_gt_cases now (vi_last vi)) as [Le|Lt].
  - (* early return *)
    unfold update_rewards in H. rewrite Gv, Gc in H. replace (now <=? vi_last vi) with true in H by (symmetry; apply N.leb_le, Le).
    injection H as <-. exists 0. rewrite N.add_0_r. split; [reflexivity|]. rewrite !N.mul_0_l. apply N.le_0_l.
  - assert (M : N.max now (vi_last vi) = now) by lia. rewrite L1, L0, M.
    replace (now =? vi_last vi) with false by (symmetry; apply N.eqb_neq; lia).
    destruct (get_stake d v s) as [sh|] eqn:G.
    + destruct (N.eq_dec (vi_stake vi) 0) as [Z|NZ].
      * (* zero total: nothing is credited *)
        exists 0. rewrite N.add_0_r. split; [|rewrite !N.mul_0_l; apply N.le_0_l].
        unfold update_rewards in H. rewrite Gv, Gc in H. replace (now <=? vi_last vi) with false in H by (symmetry; apply N.leb_gt, Lt).
        inv_bind H as nr Hnr. rewrite Z in Hnr. apply calc_zero_stake in Hnr. subst nr. cbn [N.eqb] in H. injection H as <-.
        unfold rew_of. rewrite get_stake_put_vi. reflexivity.
      * destruct (reward_update_bounds_lemma (params_of su) now s v s1 vi comm d sh Hs H Gv Gc Hcm Lt NZ G) as (x & Gx & Up & _).
        exists x. rewrite (rew_of_get _ _ _ _ Gx), (rew_of_get _ _ _ _ G), (stake_of_get _ _ _ _ G). cbn [sh_rew]. split; [reflexivity|].
        cbn [p_apr params_of] in Up. rewrite secs_eq in Up by lia. rewrite Ek.
        set (st := sh_stake sh) in *. set (vs := vi_stake vi) in *. set (dl := now / NS - vi_last vi / NS) in *. set (k := D18 - comm) in *.
        assert (Hv : 0 < vs) by lia.
        apply (N.mul_le_mono_pos_r _ _ vs Hv).
        assert (A1 : YD * st <= YD * st * vs) by nia. nia.
    + (* no entry: nothing to credit *)
      exists 0. rewrite N.add_0_r. split; [|rewrite !N.mul_0_l; apply N.le_0_l]. unfold rew_of. specialize (Sm d v). rewrite G in Sm.
      rewrite G. destruct (get_stake d v s1); [discriminate|reflexivity].
Qed.

(* ---------- the ghost ledger step ---------- *)

Definition credit_bound (su : setup) (s s' : sstate) (d v x : N) : Prop :=
  x * YD * D18 <= stake_of s d v * su_apr su * (lastns s' v / NS - lastns s v / NS) * kfac su v
                  + (if lastns s' v =? lastns s v then 0 else YD * stake_of s d v).

Lemma credit_bound_zero su s s' d v : credit_bound su s s' d v 0.
Proof. unfold credit_bound. rewrite !N.mul_0_l. apply N.le_0_l. Qed.

Lemma credit_bound_same_last su s s' d v x : lastns s' v = lastns s v -> credit_bound su s s' d v x -> x = 0.
Proof.
  unfold credit_bound. intros E H. rewrite E, N.sub_diag, N.mul_0_r, N.mul_0_l, N.eqb_refl in H.
  assert (P : 0 < YD * D18) by reflexivity. nia.
Qed.

(* one validator's reward update followed by changes that only lower credited rewards and keep the clocks *)
Definition vphase (su : setup) (now : N) (s s' : sstate) (v : N) : Prop :=
  (forall d' v', v' <> v -> rew_of s' d' v' <= rew_of s d' v') /\
  (forall v', v' <> v -> lastns s' v' = lastns s v') /\
  lastns s v <= lastns s' v /\
  (forall d', exists x, rew_of s' d' v <= rew_of s d' v + x /\ credit_bound su s s' d' v x).

Lemma vphase_of_update su now s s1 s' v :
  comm_ok su -> stakers_ok s -> last_ok now s -> update_rewards (params_of su) now s v = SOk s1 ->
  (forall d' v', rew_of s' d' v' <= rew_of s1 d' v') -> (forall v', lastns s' v' = lastns s1 v') ->
  vphase su now s s' v.
Proof.
  intros Hc Hs Hl Hu Hr Hn. destruct (update_rewards_credit su now s v s1 Hc Hs Hl Hu) as (U1 & U2 & U3 & U4).
  split; [intros d' v' Hv; rewrite <- (U1 d' v' Hv); apply Hr|].
  split; [intros v' Hv; rewrite Hn; apply U2, Hv|]. split; [rewrite Hn; exact U3|].
  intros d'. destruct (U4 d') as (x & E & B). exists x. split; [rewrite <- E; apply Hr|].
  unfold credit_bound. rewrite Hn. exact B.
Qed.

Lemma update_stake_rew P now s d v a sub s' : update_stake P now s d v a sub = SOk s' ->
  exists s1, update_rewards P now s v = SOk s1 /\
    (forall d' v', rew_of s' d' v' <= rew_of s1 d' v') /\ (forall v', lastns s' v' = lastns s1 v').
Proof.
  unfold update_stake. intros H. inv_bind H as s1 Hu. exists s1. split; [exact Hu|].
  pose proof Hu as Hu'. apply update_rewards_spec in Hu' as (vi & comm & Gv & Gc & SB & Vo & Vv). rewrite Vv in H.
  inv_bind H as sh Hsh. inv_bind H as ad Had. inv_bind H as pr Hpr. destruct pr as [st' vs'].
  assert (Esh : sh_rew sh = rew_of s1 d v).
  { unfold rew_of. destruct (get_stake d v s1) as [sh0|]; [injection Hsh as <-; reflexivity|].
    destruct sub; [discriminate|injection Hsh as <-; reflexivity]. }
  cbn [vi_stakers vi_stake vi_last] in H.
  destruct (st' =? 0); injection H as <-.
  - split.
    + intros d' v'. unfold rew_of. rewrite get_stake_put_vi, get_stake_del_stake. destruct (peqb (d', v') (d, v)); [apply N.le_0_l|lia].
    + intros v'. unfold lastns. rewrite get_vi_put_vi, get_vi_del_stake. destruct (v' =? v) eqn:E; [|reflexivity].
      apply N.eqb_eq in E. subst v'. rewrite Vv. reflexivity.
  - split.
    + intros d' v'. unfold rew_of at 1. rewrite get_stake_put_vi, get_stake_put_stake. destruct (peqb (d', v') (d, v)) eqn:E.
      * apply peqb_spec in E. injection E as -> ->. cbn [sh_rew]. lia.
      * fold (rew_of s1 d' v'). lia.
    + intros v'. unfold lastns. rewrite get_vi_put_vi, get_vi_put_stake. destruct (v' =? v) eqn:E; [|reflexivity].
      apply N.eqb_eq in E. subst v'. rewrite Vv. reflexivity.
Qed.

Lemma update_stake_vphase su now s d v a sub s' :
  comm_ok su -> stakers_ok s -> last_ok now s -> update_stake (params_of su) now s d v a sub = SOk s' ->
  vphase su now s s' v.
Proof.
  intros Hc Hs Hl H. apply update_stake_rew in H as (s1 & Hu & Hr & Hn). eapply vphase_of_update; eassumption.
Qed.

(* the whole-state phase of one operation: what was paid out of the credited rewards, and the credits *)
Definition phase (su : setup) (s s' : sstate) (paid : N -> N -> N) : Prop :=
  (forall v, lastns s v <= lastns s' v) /\
  forall d v, exists x, rew_of s' d v + paid d v * D18 <= rew_of s d v + x /\ credit_bound su s s' d v x.

Lemma phase_of_vphase su now s s' v : vphase su now s s' v -> phase su s s' (fun _ _ => 0).
Proof.
  intros (P1 & P2 & P3 & P4). split.
  - intros v'. destruct (N.eq_dec v' v) as [->|Hn]; [exact P3|rewrite (P2 v' Hn); lia].
  - intros d' v'. rewrite N.mul_0_l, N.add_0_r. destruct (N.eq_dec v' v) as [->|Hn]; [apply P4|].
    exists 0. split; [rewrite N.add_0_r; apply P1, Hn|apply credit_bound_zero].
Qed.

Lemma phase_refl su s : phase su s s (fun _ _ => 0).
Proof. split; [intros; lia|]. intros d v. exists 0. split; [lia|apply credit_bound_zero]. Qed.

Lemma phase_mono su s s' : (forall d v, rew_of s' d v <= rew_of s d v) -> (forall v, lastns s' v = lastns s v) ->
  phase su s s' (fun _ _ => 0).
Proof.
  intros Hr Hn. split; [intros v; rewrite Hn; lia|]. intros d v. exists 0. split; [specialize (Hr d v); lia|apply credit_bound_zero].
Qed.

Definition paid_by (o : op) (w w' : world) (d v : N) : N :=
  match o with
  | Withdraw d0 v0 => if (d0 =? d) && (v0 =? v) then q_supply (w_st w') - q_supply (w_st w) else 0
  | _ => 0
  end.

Lemma stake_of_other_val s s' v : (forall d' v', v' <> v -> get_stake d' v' s' = get_stake d' v' s) ->
  forall d' v', v' <> v -> stake_of s' d' v' = stake_of s d' v' /\ rew_of s' d' v' = rew_of s d' v'.
Proof. intros H d' v' Hn. unfold stake_of, rew_of. rewrite (H d' v' Hn). split; reflexivity. Qed.

Lemma redelegate_phase su now s d v1 v2 a s' :
  comm_ok su -> stakers_ok s -> last_ok now s ->
  exec_redelegate (params_of su) now s d v1 v2 a true = SOk s' -> phase su s s' (fun _ _ => 0).
Proof.
  intros Hc Hs Hl H. unfold exec_redelegate in H. cbn [negb] in H. inv_bind H as sm H1.
  pose proof (update_stake_stakers_ok _ _ _ _ _ _ _ _ Hs H1) as Hsm. pose proof (update_stake_last_ok _ _ _ _ _ _ _ _ Hl H1) as Hlm.
  pose proof (update_stake_vphase su now s d v1 a true sm Hc Hs Hl H1) as (A1 & A2 & A3 & A4).
  pose proof (update_stake_vphase su now sm d v2 a false s' Hc Hsm Hlm H) as (B1 & B2 & B3 & B4).
  pose proof H1 as H1'. apply update_stake_spec in H1' as (vi & comm & st' & ns & Gv & Gc & _ & _ & _ & _ & So1 & _ & Vv1 & _).
  destruct (N.eq_dec v2 v1) as [->|Hn].
  - (* same validator: the second reward update finds the clock at the block time *)
    assert (Ln : now <= lastns sm v1). { unfold lastns. rewrite Vv1. cbn [vi_last]. apply N.le_max_l. }
    assert (E2 : lastns s' v1 = lastns sm v1).
    { apply N.le_antisymm; [|exact B3].
      pose proof (update_stake_last_ok _ _ _ _ _ _ _ _ Hlm H) as Hl'. unfold lastns.
      destruct (get_vi v1 s') as [vi'|] eqn:G'; [|apply N.le_0_l]. specialize (Hl' v1 vi' G'). fold (lastns sm v1). lia. }
    split.
    + intros v'. destruct (N.eq_dec v' v1) as [->|Hv]; [rewrite E2; exact A3|rewrite (B2 v' Hv), (A2 v' Hv); lia].
    + intros d' v'. rewrite N.mul_0_l, N.add_0_r. destruct (N.eq_dec v' v1) as [->|Hv].
      * destruct (A4 d') as (x & Lx & Bx). destruct (B4 d') as (y & Ly & By).
        pose proof (credit_bound_same_last _ _ _ _ _ _ E2 By) as Y0. subst y.
        exists x. split; [lia|]. unfold credit_bound in *. rewrite E2. exact Bx.
      * exists 0. split; [specialize (A1 d' v' Hv); specialize (B1 d' v' Hv); lia|apply credit_bound_zero].
  - split.
    + intros v'. destruct (N.eq_dec v' v1) as [->|Hv1].
      * rewrite (B2 v1) by congruence. exact A3.
      * rewrite <- (A2 v' Hv1). destruct (N.eq_dec v' v2) as [->|Hv2]; [exact B3|rewrite (B2 v' Hv2); lia].
    + intros d' v'. rewrite N.mul_0_l, N.add_0_r. destruct (N.eq_dec v' v1) as [->|Hv1].
      * destruct (A4 d') as (x & Lx & Bx). exists x. assert (Hv : v1 <> v2) by congruence.
        split; [specialize (B1 d' v1 Hv); lia|]. unfold credit_bound in *. rewrite (B2 v1 Hv). exact Bx.
      * destruct (N.eq_dec v' v2) as [->|Hv2].
        -- destruct (B4 d') as (y & Ly & By). exists y. split; [specialize (A1 d' v2 Hv1); lia|].
           unfold credit_bound in *. rewrite <- (A2 v2 Hv1).
           destruct (stake_of_other_val s sm v1 So1 d' v2 Hn) as [Es _]. rewrite <- Es. exact By.
        -- exists 0. split; [specialize (A1 d' v' Hv1); specialize (B1 d' v' Hv2); lia|apply credit_bound_zero].
Qed.

Lemma pay_entry_rew s u rest s' : pay_entry s u rest = SOk s' ->
  (forall d v, rew_of s' d v <= rew_of s d v) /\ (forall v, lastns s' v = lastns s v).
Proof.
  intros H. apply pay_entry_shape in H. cbn zeta in H. destruct H as (s1 & H1 & H2).
  assert (A : (forall d v, rew_of s1 d v <= rew_of s d v) /\ (forall v, lastns s1 v = lastns s v)).
  { destruct H1 as [->|[(Hn & Hz & [(vi & Gv & ->)|(Gv & ->)])|(Hn & ->)]].
    - split; intros; lia.
    - split.
      + intros d v. unfold rew_of. rewrite get_stake_put_vi, get_stake_del_stake. destruct (peqb _ _); [apply N.le_0_l|lia].
      + intros v. unfold lastns. rewrite get_vi_put_vi, get_vi_del_stake. destruct (v =? u_val u) eqn:E; [|reflexivity].
        apply N.eqb_eq in E. subst v. rewrite Gv. reflexivity.
    - split.
      + intros d v. unfold rew_of. rewrite get_stake_del_stake. destruct (peqb _ _); [apply N.le_0_l|lia].
      + intros v. reflexivity.
    - split.
      + intros d v. unfold rew_of. rewrite get_stake_del_stake. destruct (peqb _ _); [apply N.le_0_l|lia].
      + intros v. reflexivity. }
  destruct H2 as [(_ & ->)|(_ & b & _ & ->)]; exact A.
Qed.

Lemma process_queue_from_rew now : forall q s s', process_queue_from now q s = SOk s' ->
  (forall d v, rew_of s' d v <= rew_of s d v) /\ (forall v, lastns s' v = lastns s v).
Proof.
  induction q as [|u q IH]; intros s s' H; cbn [process_queue_from] in H.
  - injection H as <-. split; intros; [apply N.le_refl|reflexivity].
  - destruct (u_at u <=? now).
    + inv_bind H as s1 H1. apply pay_entry_rew in H1 as [A1 A2]. apply IH in H as [B1 B2].
      split; [intros d v; specialize (A1 d v); specialize (B1 d v); lia|intros v; rewrite B2; apply A2].
    + injection H as <-. split; intros; [apply N.le_refl|reflexivity].
Qed.

Lemma step_phase su w o w' : comm_ok su -> winv su w -> step su w o = SOk w' ->
  phase su (w_st w) (w_st w') (paid_by o w w').
Proof.
  intros Hc I H. pose proof (inv_stakers _ _ _ I) as Hs. pose proof (inv_last _ _ _ I) as Hl.
  destruct o as [d v a b|d v a b|d v1 v2 a b|d v|d wd|v p|dt]; cbn [step] in H.
  - inv_bind H as s' X. injection H as <-. cbn [w_st]. unfold exec_delegate in X.
    destruct (a =? 0); [discriminate|]. destruct (negb b); [discriminate|]. inv_bind X as s1 U. inv_bind X as b1 B. injection X as <-.
    apply (phase_of_vphase su (w_now w) _ _ v). apply (update_stake_vphase su _ _ d v a false s1 Hc Hs Hl U).
  - inv_bind H as s' X. injection H as <-. cbn [w_st]. unfold exec_undelegate in X.
    destruct (negb b); [discriminate|]. destruct (a =? 0); [discriminate|]. inv_bind X as s1 U.
    destruct (U64 <=? _); [discriminate|]. destruct (U64 <=? _); [discriminate|]. injection X as <-.
    apply (phase_of_vphase su (w_now w) _ _ v). apply (update_stake_vphase su _ _ d v a true s1 Hc Hs Hl U).
  - inv_bind H as s' X. injection H as <-. cbn [w_st].
    destruct b; [|discriminate]. eapply redelegate_phase; eassumption.
  - inv_bind H as s' X. injection H as <-. cbn [w_st w_now].
    apply withdraw_lemma in X as (s1 & sh & Hu & G & X); [|apply (inv_bank _ _ _ I)]. cbn zeta in X.
    destruct X as (Pr & _ & So & Sv & _ & Vi & _ & _ & _ & _ & _ & _ & Su).
    destruct (update_rewards_credit su (w_now w) (w_st w) v s1 Hc Hs Hl Hu) as (U1 & U2 & U3 & U4).
    assert (Ln : forall v', lastns s' v' = lastns s1 v') by (intros v'; unfold lastns; rewrite Vi; reflexivity).
    split.
    + intros v'. rewrite Ln. destruct (N.eq_dec v' v) as [->|Hn]; [exact U3|rewrite (U2 v' Hn); lia].
    + intros d' v'. unfold paid_by. cbn [w_st]. destruct ((d =? d') && (v =? v')) eqn:E.
      * apply andb_true_iff in E as [E1 E2]. apply N.eqb_eq in E1, E2. subst d' v'.
        destruct (U4 d) as (x & Ex & Bx). exists x. split.
        -- unfold rew_of at 1. rewrite Sv. cbn [sh_rew]. rewrite Su.
           replace (q_supply (w_st w) + to_uint_floor (sh_rew sh) - q_supply (w_st w)) with (to_uint_floor (sh_rew sh)) by lia.
           rewrite <- Ex, (rew_of_get _ _ _ _ G). pose proof (floor_le (sh_rew sh)). lia.
        -- unfold credit_bound. rewrite Ln. exact Bx.
      * rewrite N.mul_0_l, N.add_0_r.
        assert (Hp : (d', v') <> (d, v)).
        { intros C. injection C as -> ->. rewrite !N.eqb_refl in E. discriminate. }
        assert (Er : rew_of s' d' v' = rew_of s1 d' v') by (unfold rew_of; rewrite (So d' v' Hp); reflexivity).
        destruct (N.eq_dec v' v) as [->|Hn].
        -- destruct (U4 d') as (x & Ex & Bx). exists x. split; [lia|]. unfold credit_bound. rewrite Ln. exact Bx.
        -- exists 0. split; [rewrite Er, (U1 d' v' Hn); lia|apply credit_bound_zero].
  - inv_bind H as s' X. injection H as <-. cbn [w_st]. unfold exec_set_withdraw in X. destruct wd as [w1|]; [|discriminate].
    destruct (d =? w1); injection X as <-; (apply phase_mono; [intros; apply N.le_refl|intros; reflexivity]).
  - inv_bind H as s' X. injection H as <-. cbn [w_st].
    apply slash_spec in X as (s1 & vi & Hu & Gv & _ & _ & X); [|exact Hs]. cbn zeta in X.
    destruct X as (_ & _ & _ & _ & Vo & So & Vv & Sv).
    apply (phase_of_vphase su (w_now w) _ _ v). eapply vphase_of_update; try eassumption.
    + intros d' v'. destruct (N.eq_dec v' v) as [->|Hn].
      * unfold rew_of at 1. rewrite Sv. destruct (_ =? 0); [apply N.le_0_l|]. unfold rew_of.
        destruct (get_stake d' v s1); cbn [option_map sh_rew]; lia.
      * apply update_rewards_spec in Hu as (_ & _ & _ & _ & (_ & _ & _ & So1 & _) & _ & _).
        unfold rew_of. rewrite (So d' v' Hn), (So1 d' v' Hn). lia.
    + intros v'. unfold lastns. destruct (N.eq_dec v' v) as [->|Hn].
      * rewrite Vv, Gv. reflexivity.
      * rewrite (Vo v' Hn). apply update_rewards_spec in Hu as (_ & _ & _ & _ & _ & Vo1 & _). rewrite (Vo1 v' Hn). reflexivity.
  - destruct (U64 <=? w_now w + dt); [discriminate|]. inv_bind H as s' X. injection H as <-. cbn [w_st].
    apply process_queue_from_rew in X as [A1 A2]. apply phase_mono; assumption.
Qed.

(* ---------- the ledger and the invariant over all histories ---------- *)

Record led3 := mkL3 { L_I : N; L_S : N; L_paid : N }.
Definition ledger := N -> N -> led3.
Definition ledger0 : ledger := fun _ _ => mkL3 0 0 0.

(* I: ideal-reward numerator, += share (atomics) * apr * (whole seconds credited) * (1 - commission);
   S: += the share (atomics) at every reward update that moved the validator's clock;
   paid: tokens withdrawn *)
Definition lstep (su : setup) (w : world) (o : op) (w' : world) (L : ledger) : ledger :=
  fun d v =>
    let s := w_st w in let s' := w_st w' in
    mkL3 (L_I (L d v) + stake_of s d v * su_apr su * (lastns s' v / NS - lastns s v / NS) * kfac su v)
         (L_S (L d v) + (if lastns s' v =? lastns s v then 0 else stake_of s d v))
         (L_paid (L d v) + paid_by o w w' d v).

(* withdrawn + credited (in atomic units), times YEAR * 10^36, never exceed the ideal numerator by more than
   S atomic-unit-shares: S / 10^18 = (sum over the reward updates of the share in tokens) atomic units *)
Definition ledger_ok (su : setup) (w : world) (L : ledger) : Prop :=
  forall d v, (L_paid (L d v) * D18 + rew_of (w_st w) d v) * YD * D18 <= L_I (L d v) + L_S (L d v) * YD.

Lemma ledger_step su w o w' L : comm_ok su -> winv su w -> step su w o = SOk w' ->
  ledger_ok su w L -> ledger_ok su w' (lstep su w o w' L).
Proof.
  intros Hc I H Ok d v. destruct (step_phase su w o w' Hc I H) as [_ P]. destruct (P d v) as (x & Lx & Bx).
  specialize (Ok d v). unfold lstep. cbn [L_I L_S L_paid]. unfold credit_bound in Bx.
  set (R := rew_of (w_st w) d v) in *. set (R' := rew_of (w_st w') d v) in *. set (pd := paid_by o w w' d v) in *.
  set (Ii := stake_of (w_st w) d v * su_apr su * (lastns (w_st w') v / NS - lastns (w_st w) v / NS) * kfac su v) in *.
  set (P0 := L_paid (L d v)) in *. set (I0 := L_I (L d v)) in *. set (S0 := L_S (L d v)) in *.
  assert (A : ((P0 + pd) * D18 + R') * YD * D18 <= (P0 * D18 + R + x) * YD * D18).
  { apply N.mul_le_mono_r, N.mul_le_mono_r. lia. }
  destruct (lastns (w_st w') v =? lastns (w_st w) v); nia.
Qed.

(* instrumented reachability *)
Inductive lreach (su : setup) : world -> ledger -> world -> ledger -> Prop :=
| lreach_refl w L : lreach su w L w L
| lreach_step w L w1 L1 w2 o : lreach su w L w1 L1 -> step su w1 o = SOk w2 ->
    lreach su w L w2 (lstep su w1 o w2 L1).

Lemma lreach_reach su w L w' L' : lreach su w L w' L' -> reach su w w'.
Proof. induction 1; [constructor|eapply reach_step; eassumption]. Qed.

Lemma ledger0_ok su w0 : init_world su = SOk w0 -> ledger_ok su w0 ledger0.
Proof.
  intros H0 d v. destruct (init_world_fresh su w0 H0) as (_ & Es & _). cbn [ledger0 L_I L_S L_paid].
  unfold rew_of, get_stake. rewrite Es. cbn. lia.
Qed.

Lemma rewards_upper_history_lemma su w0 w L : comm_ok su -> init_world su = SOk w0 ->
  lreach su w0 ledger0 w L -> ledger_ok su w L.
Proof.
  intros Hc H0 R. remember ledger0 as L0 eqn:EL. induction R as [w L|w L w1 L1 w2 o R IH S].
  - subst. apply ledger0_ok, H0.
  - eapply ledger_step; [exact Hc| |exact S|apply IH; assumption].
    apply (reach_inv su w w1); [apply init_world_inv, H0|eapply lreach_reach; eassumption].
Qed.

(* ---------- ... and what the query SHOWS on top of the credited rewards ---------- *)

Lemma virtual_credit_bound now last apr comm vs st nr x :
  calculate_rewards now last apr comm vs = SOk nr -> share_of_rewards st vs nr = SOk x -> comm <= D18 -> last <= now ->
  x * YD * D18 <= st * apr * (now / NS - last / NS) * (D18 - comm) + YD * st.
Proof.
  intros Hn Hx Hc Hl. destruct (N.eq_dec vs 0) as [Z|NZ].
  - subst vs. unfold share_of_rewards in Hx. cbn [N.eqb] in Hx. injection Hx as <-. rewrite !N.mul_0_l. apply N.le_0_l.
  - pose proof (calc_rewards_value _ _ _ _ _ _ Hn Hc) as [C1 _]. cbn zeta in C1. rewrite secs_eq in C1 by exact Hl.
    apply share_value in Hx as [S1 _]; [|exact NZ].
    set (dl := now / NS - last / NS) in *. set (k := D18 - comm) in *.
    assert (Hv : 0 < vs) by lia. apply (N.mul_le_mono_pos_r _ _ vs Hv).
    assert (A1 : x * (vs * D18) * YD <= nr * st * YD) by (apply N.mul_le_mono_r; exact S1).
    assert (A2 : nr * YD * st <= (vs * apr * dl * k + YD) * st) by (apply N.mul_le_mono_r; lia).
    assert (A3 : YD * st <= YD * st * vs) by nia. nia.
Qed.

Lemma shown_upper_lemma su w L d v r : comm_ok su -> winv su w -> ledger_ok su w L ->
  q_rewards (params_of su) (w_now w) (w_st w) d v = SOk (Some r) ->
  (L_paid (L d v) + r) * D18 * YD * D18 <=
    L_I (L d v) + stake_of (w_st w) d v * su_apr su * (w_now w / NS - lastns (w_st w) v / NS) * kfac su v
    + (L_S (L d v) + stake_of (w_st w) d v) * YD.
Proof.
  intros Hc I Ok Q. specialize (Ok d v). unfold q_rewards in Q.
  destruct (get_val (params_of su) v) as [comm|] eqn:Gc; [|discriminate].
  destruct (get_stake d v (w_st w)) as [sh|] eqn:G; [|discriminate].
  destruct (get_vi v (w_st w)) as [vi|] eqn:Gv; [|discriminate].
  inv_bind Q as r0 Hr. injection Q as <-. unfold rewards_internal in Hr.
  inv_bind Hr as nr Hn. inv_bind Hr as x Hx. inv_bind Hr as t Ht. injection Hr as <-. apply dec_add_inv in Ht. subst t.
  pose proof (virtual_credit_bound _ _ _ _ _ _ _ _ Hn Hx (Hc v comm Gc) (inv_last _ _ _ I v vi Gv)) as B.
  cbn [p_apr params_of] in B.
  assert (Ek : kfac su v = D18 - comm).
  { unfold kfac, comm_of. unfold get_val in Gc. cbn [p_vals params_of] in Gc. rewrite Gc. reflexivity. }
  rewrite (rew_of_get _ _ _ _ G) in Ok. rewrite (stake_of_get _ _ _ _ G), Ek. unfold lastns. rewrite Gv.
  pose proof (floor_le (sh_rew sh + x)) as Fl.
  set (r := to_uint_floor (sh_rew sh + x)) in *. set (R := sh_rew sh) in *. set (st := sh_stake sh) in *.
  set (P0 := L_paid (L d v)) in *. set (I0 := L_I (L d v)) in *. set (S0 := L_S (L d v)) in *.
  set (Iv := st * su_apr su * (w_now w / NS - vi_last vi / NS) * (D18 - comm)) in *.
  assert (A : (P0 + r) * D18 * YD * D18 <= (P0 * D18 + R + x) * YD * D18).
  { apply N.mul_le_mono_r, N.mul_le_mono_r. lia. }
  nia.
Qed.

(* ---------- by computation, for the examples ---------- *)
Definition comm_okb (su : setup) : bool := forallb (fun vc : N * N => snd vc <=? D18) (su_vals su).
Lemma fget_In {V} v (l : list (N * V)) c : fget N.eqb v l = Some c -> In (v, c) l.
Proof.
  induction l as [|[v' c'] l IH]; cbn [fget]; [discriminate|]. destruct (v =? v') eqn:E.
  - apply N.eqb_eq in E. subst v'. intros H. injection H as ->. left. reflexivity.
  - intros H. right. apply IH, H.
Qed.
Lemma comm_okb_ok su : comm_okb su = true -> comm_ok su.
Proof.
  intros H v c G. unfold get_val in G. cbn [p_vals params_of] in G. apply fget_In in G.
  unfold comm_okb in H. rewrite forallb_forall in H. specialize (H _ G). cbn [snd] in H. apply N.leb_le, H.
Qed.

Fixpoint lrun_all (su : setup) (w : world) (L : ledger) (ops : list op) : option (world * ledger) :=
  match ops with
  | [] => Some (w, L)
  | o :: r => match step su w o with SOk w' => lrun_all su w' (lstep su w o w' L) r | _ => None end
  end.
Lemma lrun_all_lreach su : forall ops w L w' L', lrun_all su w L ops = Some (w', L') -> lreach su w L w' L'.
Proof.
  assert (G : forall a La b Lb, lreach su a La b Lb -> forall c Lc, lreach su b Lb c Lc -> lreach su a La c Lc).
  { intros a La b Lb R1 c Lc R2. induction R2; [exact R1|]. eapply lreach_step; [apply IHR2; exact R1|eassumption]. }
  induction ops as [|o r IH]; intros w L w' L' H; cbn [lrun_all] in H.
  - injection H as <- <-. constructor.
  - destruct (step su w o) as [w1| | |] eqn:S; try discriminate.
    eapply G; [eapply lreach_step; [constructor|exact S]|apply IH, H].
Qed.
