(* Properties/C20.v — pinned statements for C20 (builders keep every configured component regardless
   of call order).  Only statements, `exact <lemma>`, Print Assumptions and non-vacuity examples.

   All statements are about the definitions that the translator REGENERATES from app_builder.rs,
   contracts.rs and app.rs on every run (Generated.builder_steps, .wrapper_steps, .wrapper_ctors,
   .wrapper_dispatch, .build_body, .init_modules_body), interpreted by Builder.v over an ABSTRACT type V
   of component values (the type-changing generics of the Rust builder are plain polymorphism here):
     state V      = field name -> V                      (a builder / a wrapper)
     apply_step   = one call `b.with_x(v)`               (the struct the regenerated function returns)
     run_steps    = a whole chain of calls, left to right
     opq, none    = arbitrary meanings of expressions the translator did not recognise / of `None`;
                    the theorems hold for every choice, i.e. no such expression feeds a field.
   builder_fields / builder_targets / wrapper_fields / wrapper_targets are the hand-written spec tables
   of Builder.v (which field each with_* is meant to set). *)
From Verif Require Import Base Generated Builder Chk20 Inst20.
From Coq Require Import String.
Local Open Scope string_scope.

(* the translator recognised every shape it relies on (otherwise nothing below is about the code) *)
Theorem c20_translation_ok : translation_ok = true.
Proof. exact translation_recognised. Qed.
Print Assumptions c20_translation_ok.

(* the regenerated table has exactly the with_* functions and exactly the struct fields the spec talks
   about (so "every other field" below really is every field of AppBuilder) *)
Theorem builder_steps_complete :
  steps_complete builder_fields builder_targets builder_struct_fields builder_steps = true.
Proof. exact builder_complete. Qed.
Print Assumptions builder_steps_complete.

(* AppBuilder::new and AppBuilder::new_custom start from the same defaults *)
Theorem builder_defaults : builder_ctors_ok builder_ctors = true.
Proof. exact builder_defaults_ok. Qed.
Print Assumptions builder_defaults.

(* with_x(v) makes field x hold v *)
Theorem with_sets (V : Type) (opq : string -> V) (none : V) name f (v : V) (s : state V) :
  In (name, f) builder_targets -> apply_step opq none builder_steps (name, v) s f = v.
Proof. exact (B_with_sets V opq none name f v s). Qed.
Print Assumptions with_sets.

(* ... and forwards EVERY other field (block and storage included) unchanged *)
Theorem with_frame (V : Type) (opq : string -> V) (none : V) name f (v : V) (s : state V) g :
  In (name, f) builder_targets -> In g builder_fields -> g <> f ->
  apply_step opq none builder_steps (name, v) s g = s g.
Proof. exact (B_with_frame V opq none name f v s g). Qed.
Print Assumptions with_frame.

Theorem with_commute (V : Type) (opq : string -> V) (none : V) n1 f1 (v1 : V) n2 f2 (v2 : V) (s : state V) g :
  In (n1, f1) builder_targets -> In (n2, f2) builder_targets -> f1 <> f2 -> In g builder_fields ->
  apply_step opq none builder_steps (n1, v1) (apply_step opq none builder_steps (n2, v2) s) g =
  apply_step opq none builder_steps (n2, v2) (apply_step opq none builder_steps (n1, v1) s) g.
Proof. exact (B_with_commute V opq none n1 f1 v1 n2 f2 v2 s g). Qed.
Print Assumptions with_commute.

Theorem with_override (V : Type) (opq : string -> V) (none : V) n1 n2 f (v1 v2 : V) (s : state V) g :
  In (n1, f) builder_targets -> In (n2, f) builder_targets -> In g builder_fields ->
  apply_step opq none builder_steps (n2, v2) (apply_step opq none builder_steps (n1, v1) s) g =
  apply_step opq none builder_steps (n2, v2) s g.
Proof. exact (B_with_override V opq none n1 n2 f v1 v2 s g). Qed.
Print Assumptions with_override.

(* for ANY list of steps -- any subset, any order, any repetition -- every field of the result is the
   last value supplied for it, or what the starting builder held (induction over the list) *)
Theorem any_order (V : Type) (opq : string -> V) (none : V) (steps : list (string * V)) (b : state V) f :
  Forall (known builder_targets) steps -> In f builder_fields ->
  run_steps opq none builder_steps steps b f =
  match last_for builder_targets f steps with Some v => v | None => b f end.
Proof. exact (B_any_order V opq none steps b f). Qed.
Print Assumptions any_order.

(* hence two chains that supply the same last value for a field (all permutations of steps for
   distinct fields do) agree on it *)
Theorem all_orders_agree (V : Type) (opq : string -> V) (none : V) (steps1 steps2 : list (string * V)) (b : state V) f :
  Forall (known builder_targets) steps1 -> Forall (known builder_targets) steps2 -> In f builder_fields ->
  last_for builder_targets f steps1 = last_for builder_targets f steps2 ->
  run_steps opq none builder_steps steps1 b f = run_steps opq none builder_steps steps2 b f.
Proof. exact (B_order_irrelevant V opq none steps1 steps2 b f). Qed.
Print Assumptions all_orders_agree.

(* build(): every field of the App / its Router is the like-named field of the builder *)
Theorem build_moves_fields :
  exists b, build_interp = Some b /\
    forall V (opq : string -> V) (none : V) (s : state V) f, In f builder_fields -> built_field opq none b s f = s f.
Proof. exact B_build_moves_fields. Qed.
Print Assumptions build_moves_fields.

(* build(): the init function is applied exactly once, to (&mut router, &api, &mut storage) of the App
   that is returned; its identifier occurs nowhere else in build / init_modules *)
Theorem init_once :
  exists b, build_interp = Some b /\ b_inits b = [init_args_spec] /\
            build_init_mentions = 1%nat /\ init_modules_mentions = 1%nat.
Proof. exact B_init_once. Qed.
Print Assumptions init_once.

(* ---------- ContractWrapper: the same statements over its seven fields, checksum included ---------- *)
Theorem wrapper_steps_complete :
  steps_complete wrapper_fields wrapper_targets wrapper_struct_fields wrapper_steps = true.
Proof. exact wrapper_complete. Qed.
Print Assumptions wrapper_steps_complete.

Theorem wrapper_with_sets (V : Type) (opq : string -> V) (none : V) name f (v : V) (s : state V) :
  In (name, f) wrapper_targets -> apply_step opq none wrapper_steps (name, v) s f = v.
Proof. exact (W_with_sets V opq none name f v s). Qed.
Print Assumptions wrapper_with_sets.

Theorem wrapper_with_frame (V : Type) (opq : string -> V) (none : V) name f (v : V) (s : state V) g :
  In (name, f) wrapper_targets -> In g wrapper_fields -> g <> f ->
  apply_step opq none wrapper_steps (name, v) s g = s g.
Proof. exact (W_with_frame V opq none name f v s g). Qed.
Print Assumptions wrapper_with_frame.

Theorem wrapper_with_commute (V : Type) (opq : string -> V) (none : V) n1 f1 (v1 : V) n2 f2 (v2 : V) (s : state V) g :
  In (n1, f1) wrapper_targets -> In (n2, f2) wrapper_targets -> f1 <> f2 -> In g wrapper_fields ->
  apply_step opq none wrapper_steps (n1, v1) (apply_step opq none wrapper_steps (n2, v2) s) g =
  apply_step opq none wrapper_steps (n2, v2) (apply_step opq none wrapper_steps (n1, v1) s) g.
Proof. exact (W_with_commute V opq none n1 f1 v1 n2 f2 v2 s g). Qed.
Print Assumptions wrapper_with_commute.

Theorem wrapper_with_override (V : Type) (opq : string -> V) (none : V) n1 n2 f (v1 v2 : V) (s : state V) g :
  In (n1, f) wrapper_targets -> In (n2, f) wrapper_targets -> In g wrapper_fields ->
  apply_step opq none wrapper_steps (n2, v2) (apply_step opq none wrapper_steps (n1, v1) s) g =
  apply_step opq none wrapper_steps (n2, v2) s g.
Proof. exact (W_with_override V opq none n1 n2 f v1 v2 s g). Qed.
Print Assumptions wrapper_with_override.

Theorem wrapper_any_order (V : Type) (opq : string -> V) (none : V) (steps : list (string * V)) (b : state V) f :
  Forall (known wrapper_targets) steps -> In f wrapper_fields ->
  run_steps opq none wrapper_steps steps b f =
  match last_for wrapper_targets f steps with Some v => v | None => b f end.
Proof. exact (W_any_order V opq none steps b f). Qed.
Print Assumptions wrapper_any_order.

(* ContractWrapper::new / ::new_with_empty: the mandatory entry points are the three arguments, in
   order; sudo, reply, migrate and the checksum start as None *)
Theorem wrapper_ctor (V : Type) (opq : string -> V) (none : V) c fl (e i q : V) (s : state V) :
  In c ["new"; "new_with_empty"] -> find_flow c wrapper_ctors = Some fl ->
  let w := apply_flow opq none fl [e; i; q] s in
  w "execute_fn" = e /\ w "instantiate_fn" = i /\ w "query_fn" = q /\
  w "sudo_fn" = none /\ w "reply_fn" = none /\ w "migrate_fn" = none /\ w "checksum" = none.
Proof. exact (W_ctor V opq none c fl e i q s). Qed.
Print Assumptions wrapper_ctor.

(* impl Contract for ContractWrapper: every entry point (and checksum()) reads exactly its own field *)
Theorem wrapper_dispatch_own_field e f :
  In (e, f) wrapper_entry_points -> assoc_s e wrapper_dispatch = Some [f].
Proof. exact (W_dispatch e f). Qed.
Print Assumptions wrapper_dispatch_own_field.

(* ---------- what the correspondence check evaluates: the oracle accepts the model's own output,
   for ALL chains of known steps ---------- *)
Theorem C20_model_ok steps :
  Forall (known builder_targets) steps -> c20_app steps (app_model steps) = Agree.
Proof. exact (C20_app_model_ok steps). Qed.
Print Assumptions C20_model_ok.

Theorem C20_wrapper_model_ok c e i q steps :
  In c ["new"; "new_with_empty"] -> Forall (known wrapper_targets) steps ->
  c20_wrap c [e; i; q] steps (wrap_model c [e; i; q] steps) = Agree.
Proof. exact (C20_wrap_model_ok c e i q steps). Qed.
Print Assumptions C20_wrapper_model_ok.

(* ---------- non-vacuity ---------- *)
(* the step tables are inhabited and the hypotheses are met by concrete chains; the chain
   with_bank(3).with_block(5).with_bank(7) over markers ends with bank = 7, block = 5, api = default 0 *)
Example steps_exist :
  In ("with_bank", "bank") builder_targets /\ In ("with_block", "block") builder_targets /\
  In ("with_checksum", "checksum") wrapper_targets /\ In ("with_reply", "reply_fn") wrapper_targets /\
  In "storage" builder_fields /\ In "checksum" wrapper_fields /\ "bank" <> "block".
Proof. repeat split; try (vm_compute; tauto). discriminate. Qed.

Example chain_exists :
  let steps := [("with_bank", 3%N); ("with_block", 5%N); ("with_bank", 7%N)] in
  Forall (known builder_targets) steps /\
  map (run_steps opqN 0%N builder_steps steps (fun _ => 0%N)) ["bank"; "block"; "api"] = [7%N; 5%N; 0%N] /\
  c20_app steps (app_model steps) = Agree /\
  (* an observation that lost the block is rejected by the oracle *)
  c20_app steps ([0; 0; 0; 7; 0; 0; 0; 0; 0; 0; 0]%N, 1%N, [0; 0; 7]%N, expected_dump 0 1) = PropFail 1.
Proof.
  cbn zeta. split; [|vm_compute; repeat split; reflexivity].
  repeat constructor; vm_compute; tauto.
Qed.

(* with_checksum(9).with_reply(4) keeps the checksum (the witness of the defect fixed in 447375e) *)
Example wrapper_chain_exists :
  let steps := [("with_checksum", 9%N); ("with_reply", 4%N)] in
  Forall (known wrapper_targets) steps /\ In "new" ["new"; "new_with_empty"] /\
  wrap_model "new" [1; 2; 3]%N steps = [Some 1; Some 2; Some 3; None; Some 4; None; Some 9]%N /\
  c20_wrap "new" [1; 2; 3]%N steps [Some 1; Some 2; Some 3; None; Some 4; None; None]%N = PropFail 6 /\
  exists fl, find_flow "new_with_empty" wrapper_ctors = Some fl.
Proof.
  cbn zeta. split; [repeat constructor; vm_compute; tauto|]. split; [left; reflexivity|].
  vm_compute. repeat split; try reflexivity. eexists; reflexivity.
Qed.
