(* Properties/C05.v — pinned statements for C05 (true caller, own address, current block, attached funds). *)
From Verif Require Import Base OMap Text Proto Bank Exec ExecFacts ExecFacts2 ExecInv ChkExec ChkX ExecOracle ExecOracleS ExecOracleH.

(* Every call either fails before the contract runs, or the contract is told — first thing — exactly:
   its own address = the address the call was routed to, the sender / funds / reply handed in by the
   dispatcher, and the environment's block.  A message has no sender field: the sender handed in is the
   top-level signer (run_msgs) or the dispatching contract (submsg_spec in C02: run_msg e c m s), so no
   program can make a message appear to come from anyone else. *)
Theorem sender_authentic e entry c sender funds rep cid rok p s :
  match serving e s c entry with
  | Some co => exists rest, trc (run_prog e entry c sender funds rep cid rok p s) =
                            RCall (node_of p) entry c sender funds (blk e) (c_tag co) rep :: rest
  | None => run_prog e entry c sender funds rep cid rok p s = ([], Err)
  end.
Proof. exact (run_prog_head e entry c sender funds rep cid rok p s). Qed.
Print Assumptions sender_authentic.

(* the block: at EVERY depth of EVERY tree, every entry point and every query handler is told the block of
   the top-level call (mutual induction over the message tree) *)
Theorem env_block e m sender s : Forall (entry_block_ok (blk e)) (trc (run_msg e sender m s)).
Proof. exact (proj1 (exec_block_ok e) m sender s). Qed.
Print Assumptions env_block.

(* funds: the transfer sender -> callee happens BEFORE the contract runs, the contract is told the funds
   verbatim, and it runs from the state in which they have arrived *)
Theorem funds_moved_first e sender c p funds s :
  run_msg e sender (MExec c p funds) s =
  if negb (is_valid e c) then ([], Err) else
  match move_funds s sender c funds with
  | Ok s1 => let (tr, r) := run_prog e EExec c (Some sender) funds None 0 true p s1 in
             (tr, match r with Ok ((ev, d), s2) => Ok ((ev, option_map encode_exec_resp d), s2) | Err => Err | Panic => Panic end)
  | Err => ([], Err) | Panic => ([], Panic)
  end.
Proof. exact (exec_runs_after_funds e sender c p funds s). Qed.
Print Assumptions funds_moved_first.

Theorem funds_transfer_is_bank_send s from to funds s1 :
  move_funds s from to funds = Ok s1 ->
  reg s1 = reg s /\ cstore s1 = cstore s /\
  match funds with [] => bank s1 = bank s | _ => bank_send (bank s) from to funds = Ok (bank s1) end.
Proof. exact (move_funds_spec s from to funds s1). Qed.
Print Assumptions funds_transfer_is_bank_send.

(* attaching more than the sender owns fails without running the contract (no log entry at all) *)
Theorem overdraft_no_call e sender c p funds s :
  funds <> [] -> is_ok (bank_send (bank s) sender c funds) = false ->
  trc (run_msg e sender (MExec c p funds) s) = [] /\ is_ok (outc (run_msg e sender (MExec c p funds) s)) = false.
Proof. exact (ExecFacts2.overdraft_no_call e sender c p funds s). Qed.
Print Assumptions overdraft_no_call.

(* ---------- non-vacuity ---------- *)
Local Open Scope N_scope.
Definition ex_env : env := {| codes := [(1, Build_code 101 [99] [] true true true)]; blk := Build_blockinfo 1 2 [99];
  valid_addrs := [[97]; [98]]; classic_book := [((1, 0), [98])]; salted_book := [] |}.
Example overdraft_example :
  let s := {| bank := [([97], [([117], 5)])]; reg := [([98], Build_cdata 1 [97] None [76] 1)]; cstore := [] |} in
  [([117], 6)] <> [] /\ is_ok (bank_send (bank s) [97] [98] [([117], 6)]) = false /\
  is_ok (outc (run_msg ex_env [97] (MExec [98] (Prog 1 [] (OResp [] [] None SNil)) [([117], 5)]) s)) = true.
Proof. vm_compute. split; [discriminate|split; reflexivity]. Qed.

(* ---------- what the correspondence check relies on ---------- *)
(* The run-time oracle p_c05 (ChkX.v, clauses 5-8: the block of the call at every depth; entry point, callee, sender and funds as the tree
   prescribes; attached funds have arrived before the callee runs; a failed first sub-message has given its funds back when
   its failure handler runs) accepts the model's own run of EVERY well-formed scenario, in every case
   environment: an implementation that behaves exactly like the model is never flagged, and "agrees with the model"
   implies "satisfies the oracle's reading of C05".
   Premise [wf_scenario] (ExecOracle.v) is what the generator guarantees (harness/exec_common/src/gen.rs): in every
   program of every call — sub-messages and reply handlers at every depth — the first action writes the marker
   "m<node>" and no other action writes or removes the marker of any node; the markers of all the nodes of the
   scenario are pairwise different.  [model_steps] builds the step records from the model's own run (only the block and
   the call of each input step are used). *)
Theorem C05_model_ok ce steps : wf_scenario steps -> c05 ce (model_steps ce steps empty_chain) = Agree.
Proof. exact (c05_model_ok ce steps). Qed.
Print Assumptions C05_model_ok.

Example C05_model_ok_applies : wf_scenario ex_scenario /\ c05 ex_ce (model_steps ex_ce ex_scenario empty_chain) = Agree.
Proof. exact (conj ex_scenario_wf (C05_model_ok ex_ce ex_scenario ex_scenario_wf)). Qed.

(* conversely, an Agree verdict of the check means: the oracle accepted every step of what the IMPLEMENTATION did, and
   trace, outcome and state agreed with the model at every step *)
Theorem C05_agree_sound ce steps : c05 ce steps = Agree ->
  oracle_steps p_c05 steps 0 = None /\ corr ce steps empty_chain 0 = None.
Proof. exact (check_with_agree_sound p_c05 ce steps). Qed.
Print Assumptions C05_agree_sound.
