(* Properties/C09.v — pinned statements for C09 (the bank ledger conserves coins and never overdraws).
   Only statements, `exact <lemma>`, Print Assumptions and non-vacuity examples live here.

   Vocabulary (Bank.v / Chk09.v):  bank_wf = accounts strictly sorted, every stored coin list strictly
   denom-sorted with positive amounts;  tot d cs = sum of the amounts of denom d in cs (repeated
   denoms included, zeros harmless);  some_positive cs = some coin of cs has a positive amount;
   no_overflow s to cs = for every d, balance of `to` + tot d cs < 2^128 (the property's quantifier).
   All statements are for ALL well-formed states and ALL coin lists. *)
From Verif Require Import Base OMap Bank Chk09.
Local Open Scope N_scope.

Notation bal := bank_balance.
Notation supply := bank_supply.

(* a transfer succeeds exactly when some amount is positive and no denomination is overdrawn
   (its TOTAL over the list counts); within the 128-bit range it never panics *)
Theorem send_ok_iff s from to cs : bank_wf s -> no_overflow s to cs ->
  ((exists s', bank_send s from to cs = Ok s') <->
   (some_positive cs /\ forall d, tot d cs <= bal s from d)) /\
  bank_send s from to cs <> Panic.
Proof. exact (P_send_ok_iff s from to cs). Qed.
Print Assumptions send_ok_iff.

(* ... and otherwise it fails (also for from = to: the debit comes first), whatever the amounts *)
Theorem send_fails_otherwise s from to cs : bank_wf s ->
  (~ some_positive cs \/ exists d, bal s from d < tot d cs) -> bank_send s from to cs = Err.
Proof. exact (P_send_fails s from to cs). Qed.
Print Assumptions send_fails_otherwise.

(* exactly the stated amount of each denomination moves; nothing else changes *)
Theorem send_exact s from to cs s' : bank_wf s -> from <> to -> bank_send s from to cs = Ok s' ->
  (forall d, tot d cs <= bal s from d) /\
  (forall d, bal s' from d = bal s from d - tot d cs) /\
  (forall d, bal s' to d = bal s to d + tot d cs) /\
  (forall a d, a <> from -> a <> to -> bal s' a d = bal s a d).
Proof. exact (P_send_exact s from to cs s'). Qed.
Print Assumptions send_exact.

(* a successful self-transfer needed sufficient funds and changes no balance and no supply *)
Theorem self_send_identity s a cs s' : bank_wf s -> bank_send s a a cs = Ok s' ->
  (forall d, tot d cs <= bal s a d) /\
  (forall x d, bal s' x d = bal s x d) /\
  (forall d, supply s' d = supply s d).
Proof. exact (P_self_send s a cs s'). Qed.
Print Assumptions self_send_identity.

Theorem send_conserves s from to cs s' d : bank_wf s -> bank_send s from to cs = Ok s' ->
  supply s' d = supply s d.
Proof. exact (P_send_conserves s from to cs s' d). Qed.
Print Assumptions send_conserves.

Theorem burn_ok_iff s from cs : bank_wf s ->
  ((exists s', bank_burn s from cs = Ok s') <->
   (some_positive cs /\ forall d, tot d cs <= bal s from d)) /\
  bank_burn s from cs <> Panic.
Proof. exact (P_burn_ok_iff s from cs). Qed.
Print Assumptions burn_ok_iff.

(* burning reduces the burner's balance and the supply by exactly the amount *)
Theorem burn_exact s from cs s' : bank_wf s -> bank_burn s from cs = Ok s' ->
  (forall d, tot d cs <= bal s from d) /\
  (forall d, bal s' from d = bal s from d - tot d cs) /\
  (forall a d, a <> from -> bal s' a d = bal s a d) /\
  (forall d, supply s' d + tot d cs = supply s d).
Proof. exact (P_burn_exact s from cs s'). Qed.
Print Assumptions burn_exact.

Theorem mint_ok_iff s to cs : bank_wf s -> no_overflow s to cs ->
  ((exists s', bank_mint s to cs = Ok s') <-> some_positive cs) /\ bank_mint s to cs <> Panic.
Proof. exact (P_mint_ok_iff s to cs). Qed.
Print Assumptions mint_ok_iff.

(* minting increases the balance and the supply by exactly the amount *)
Theorem mint_exact s to cs s' : bank_wf s -> bank_mint s to cs = Ok s' ->
  (forall d, bal s' to d = bal s to d + tot d cs) /\
  (forall a d, a <> to -> bal s' a d = bal s a d) /\
  (forall d, supply s' d = supply s d + tot d cs).
Proof. exact (P_mint_exact s to cs s'). Qed.
Print Assumptions mint_exact.

(* an op that does not succeed (Err, or a panic at the 128-bit bound) leaves the ledger as it was —
   for every op of a history, compound contract executions included *)
Theorem fail_unchanged accts s o : fst (step_res accts s o) <> ROk -> snd (step_res accts s o) = s.
Proof. exact (step_res_fail accts s o). Qed.
Print Assumptions fail_unchanged.

(* the invariant is kept by every op (init, mint, send, burn, contract execution), successful or not *)
Theorem wf_preserved accts s o : bank_wf s -> bank_wf (snd (step_res accts s o)).
Proof. exact (step_res_wf accts s o). Qed.
Print Assumptions wf_preserved.

(* the three query kinds agree: Balance = the entry of AllBalances (or 0); AllBalances is strictly
   denom-sorted without zeros; Supply d = sum over all stored accounts of Balance; and the boolean
   consistency test the oracle applies to the implementation's answers accepts the model's *)
Theorem queries_agree s : bank_wf s ->
  (forall a d, bal s a d = amount_of d (bank_all s a)) /\
  (forall a d, bal s a d = tot d (bank_all s a)) /\
  (forall a, wf_coins (bank_all s a) /\ strict_pos (bank_all s a) = true) /\
  (forall d, supply s d = sum_balances s (keys s) d) /\
  (forall accts denoms, obs_consistent accts denoms (model_obs accts denoms s) = true).
Proof. exact (P_queries_agree s). Qed.
Print Assumptions queries_agree.

(* after ANY history from ANY well-formed state: balance + everything debited by the successful ops
   = initial balance + everything credited by them; supply + burned = initial supply + minted.
   (Failed ops contribute nothing: ledger_sum only counts the ops whose result is ROk.) *)
Theorem history_ledger accts ops s : bank_wf s ->
  (forall a d, bal (state_after accts s ops) a d + ledger_sum accts (fun s o => op_debit s o a d) s ops =
               bal s a d + ledger_sum accts (fun s o => op_credit s o a d) s ops) /\
  (forall d, supply (state_after accts s ops) d + ledger_sum accts (fun s o => op_burned s o d) s ops =
             supply s d + ledger_sum accts (fun s o => op_minted s o d) s ops).
Proof. exact (history_ledger_lemma accts ops s). Qed.
Print Assumptions history_ledger.

(* within the 128-bit range (initial supply + everything ever offered to mint/init < 2^128, per
   denom) no op of the history panics *)
Theorem history_no_panic accts ops s : bank_wf s -> hist_bounded s ops ->
  Forall (fun rs : res * bank_state => fst rs <> RPanic) (run accts s ops).
Proof. exact (run_no_panic accts ops s). Qed.
Print Assumptions history_no_panic.

(* the ledger SPEC (f_send / f_burn / f_mint / f_init: the property read literally, on functions
   account -> denom -> N) is what the model does, op by op, compound contract executions included *)
Theorem model_meets_ledger_spec accts s f o : bank_wf s -> sim s f ->
  match step accts s o, spec_step accts f o with
  | Ok s', Some f' => bank_wf s' /\ sim s' f' /\ forall d, supply s' d <= supply s d + offered d o
  | Err, None => True
  | Panic, _ => exists d, U128 <= supply s d + offered d o
  | _, _ => False
  end.
Proof. exact (sim_step accts s f o). Qed.
Print Assumptions model_meets_ledger_spec.

(* the oracle that judges the implementation's observations accepts the model's own run, for ALL
   scenarios and histories within the 128-bit range: "agrees with the model" implies "satisfies the
   property oracle" *)
Theorem C09_model_ok accts denoms g ops s0 : genesis_state bank_empty g = Ok s0 -> hist_bounded s0 ops ->
  oracle accts denoms g ops (model_obs accts denoms s0) (model_trace accts denoms s0 ops) = None /\
  c09 accts denoms g ops (model_obs accts denoms s0) (model_trace accts denoms s0 ops) = Agree.
Proof. exact (model_ok accts denoms g ops s0). Qed.
Print Assumptions C09_model_ok.

(* ---------- non-vacuity: concrete non-trivial objects meet the hypotheses ---------- *)

Definition ex_alice : text := [97]. Definition ex_bob : text := [98]. Definition ex_carol : text := [99].
Definition ex_x : text := [120]. Definition ex_y : text := [121]. Definition ex_z : text := [122].
(* two accounts, three denominations *)
Definition ex_state : bank_state := [(ex_alice, [(ex_x, 5); (ex_y, 7)]); (ex_bob, [(ex_x, 1); (ex_z, 9)])].
(* a repeated denomination and a zero amount of a denomination the sender does not hold *)
Definition ex_coins : coins := [(ex_x, 2); (ex_z, 0); (ex_x, 3)].

Example ex_state_wf : bank_wf ex_state.
Proof.
  split.
  - repeat constructor.
  - repeat constructor; cbn; lia.
Qed.

Example ex_no_overflow : no_overflow ex_state ex_bob ex_coins /\ no_overflow ex_state ex_alice ex_coins.
Proof.
  assert (U : U128 = 340282366920938463463374607431768211456) by reflexivity.
  split; intros d; rewrite U; unfold bank_balance, amount_of, find_denom, ex_state, ex_coins; cbn;
    rewrite !beqb_bcmp; destruct (bcmp d ex_x), (bcmp d ex_y), (bcmp d ex_z); cbn; lia.
Qed.

Example ex_some_positive : some_positive ex_coins /\ forall d, tot d ex_coins <= bal ex_state ex_alice d.
Proof.
  split.
  - exists (ex_x, 2). split; [left; reflexivity|cbn; lia].
  - intros d. unfold bank_balance, amount_of, find_denom, ex_state, ex_coins. cbn. rewrite !beqb_bcmp.
    destruct (bcmp d ex_x), (bcmp d ex_y), (bcmp d ex_z); cbn; lia.
Qed.

(* the transfer of the example happens, removes alice's x entry (5 = 2 + 3) and merges into bob's;
   the same list is beyond bob's balance, also as a self-transfer *)
Example ex_send :
  bank_send ex_state ex_alice ex_bob ex_coins =
    Ok [(ex_alice, [(ex_y, 7)]); (ex_bob, [(ex_x, 6); (ex_z, 9)])] /\
  bank_send ex_state ex_alice ex_alice ex_coins = Ok ex_state /\
  bank_send ex_state ex_bob ex_bob ex_coins = Err /\
  bank_send ex_state ex_alice ex_carol [(ex_x, 0)] = Err /\
  bank_burn ex_state ex_bob [(ex_x, 1)] = Ok [(ex_alice, [(ex_x, 5); (ex_y, 7)]); (ex_bob, [(ex_z, 9)])] /\
  bank_mint ex_state ex_carol ex_coins = Ok (ex_state ++ [(ex_carol, [(ex_x, 5)])]).
Proof. vm_compute. repeat split; reflexivity. Qed.

(* a history with a failing op, a never-seen recipient, a contract execution and a genesis overwrite:
   the premises of history_ledger / history_no_panic / C09_model_ok hold and the ledger sums are not trivial *)
Definition ex_accts : accounts := [(ex_alice, true); (ex_bob, true); (ex_carol, false)].
Definition ex_ops : list op :=
  [OSend ex_alice ex_carol ex_coins; OSend ex_bob ex_bob ex_coins; OMint ex_carol [(ex_x, 1)];
   OContract ex_alice ex_bob [(ex_y, 2); (ex_y, 1)] [CSend ex_carol [(ex_y, 3)]; CBurn [(ex_z, 4)]];
   OInit ex_alice [(ex_z, 1); (ex_z, 1)]; OBurn ex_carol [(ex_x, 5); (ex_y, 0)]].

Example ex_history :
  map fst (run ex_accts ex_state ex_ops) = [ROk; RErr; RErr; ROk; ROk; ROk] /\
  state_after ex_accts ex_state ex_ops =
    [(ex_alice, [(ex_z, 2)]); (ex_bob, [(ex_x, 1); (ex_z, 5)]); (ex_carol, [(ex_y, 3)])] /\
  ledger_sum ex_accts (fun s o => op_credit s o ex_carol ex_y) ex_state ex_ops = 3 /\
  ledger_sum ex_accts (fun s o => op_debit s o ex_alice ex_y) ex_state ex_ops = 7 /\
  ledger_sum ex_accts (fun s o => op_burned s o ex_x) ex_state ex_ops = 5 /\
  ledger_sum ex_accts (fun s o => op_minted s o ex_z) ex_state ex_ops = 2.
Proof. vm_compute. repeat split; reflexivity. Qed.

Example ex_hist_bounded : hist_bounded ex_state ex_ops /\ genesis_state bank_empty [(ex_alice, ex_coins)] = Ok [(ex_alice, [(ex_x, 5)])].
Proof.
  assert (U : U128 = 340282366920938463463374607431768211456) by reflexivity.
  split; [|vm_compute; reflexivity].
  intros d. rewrite U. unfold ex_state, ex_ops, ex_coins. cbn. rewrite !beqb_bcmp.
  destruct (bcmp d ex_x), (bcmp d ex_y), (bcmp d ex_z); cbn; lia.
Qed.

Example ex_sim : sim ex_state (fb ex_state).
Proof. exact (sim_fb ex_state ex_state_wf). Qed.
