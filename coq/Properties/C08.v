(* Properties/C08.v — pinned statements for C08 (each contract's storage is private to it and is all it can
   touch).  Only statements, `exact <lemma>`, Print Assumptions and non-vacuity examples live here.
   L2 (byte windows): Layout.v over Prefix.v, re-proved from the constants and the storage-site table the
   translator regenerates from /repo/src on every run (Generated.v).
   L4 (executor model): ExecIso.v — mutual induction over the message tree.
   Check: ChkIso.v (oracle on the implementation's raw store and read-backs, then correspondence).
   The glue between L2 and L4 ("contracts and modules reach storage only through the views they are handed")
   is a Rust typing fact; it is exercised on every run: the harness partitions the RAW root store by window
   with its own re-implementation of the key layout and the result must equal the model's typed state. *)
From Verif Require Import Base OMap Tx Prefix Generated Layout Text Proto Bank Exec ExecFacts ExecFacts2 ExecIso ChkExec ChkX ChkIso.
From Coq Require Import String.

(* ---------- L2: what the translator found in the source ---------- *)

(* contract_namespace is b"<literal>" ++ contract.as_bytes() and nothing else; every prefixed view opened by
   bank.rs / staking.rs / wasm.rs is under the module's own namespace; contract data is opened ONLY by the
   two accessors, as [NAMESPACE_WASM; contract_namespace address]; the contract's own read path, the raw
   query and the dump all go through these accessors with the address they serve *)
Theorem storage_layout_recognised :
  (contract_namespace_ok = true /\ contract_namespace_params = ["contract"%string] /\
   contract_namespace_appends = ["contract.as_bytes()"%string]) /\
  forallb site_ok storage_sites = true /\
  forallb goes_through_accessor ["with_storage"%string; "with_storage_readonly"%string; "query_raw"%string; "dump_wasm_raw"%string] = true.
Proof. exact (conj contract_namespace_shape storage_sites_ok). Qed.
Print Assumptions storage_layout_recognised.

(* ---------- L2: the windows do not overlap ---------- *)

(* two different contracts (same code or not; one address a prefix of the other; addresses containing
   '/', NUL or bytes spelling a length prefix): no raw key lies in both windows, and anything that leaves
   the complement of a's window alone — every write through a's view does, C07 — leaves b's window unchanged *)
Theorem contract_windows_disjoint {V} a b na nb :
  a <> b -> enc_path (p_contract a) = Some na -> enc_path (p_contract b) = Some nb ->
  (forall r, is_prefix na r = true -> is_prefix nb r = true -> False) /\
  (forall m m' : list (bytes * V), outside na m' = outside na m -> window nb m' = window nb m).
Proof. exact (contract_windows_disjoint_l a b na nb). Qed.
Print Assumptions contract_windows_disjoint.

Theorem contract_vs_registry {V} a na nr :
  enc_path (p_contract a) = Some na -> enc_path p_registry = Some nr ->
  ((forall r, is_prefix na r = true -> is_prefix nr r = true -> False) /\
   (forall m m' : list (bytes * V), outside na m' = outside na m -> window nr m' = window nr m)) /\
  ((forall r, is_prefix nr r = true -> is_prefix na r = true -> False) /\
   (forall m m' : list (bytes * V), outside nr m' = outside nr m -> window na m' = window na m)).
Proof. exact (contract_vs_registry_l a na nr). Qed.
Print Assumptions contract_vs_registry.

(* the WHOLE bank module window (balances, metadata, anything else it may ever store) *)
Theorem contract_vs_bank {V} a na nb :
  enc_path (p_contract a) = Some na -> enc_path p_bank = Some nb ->
  ((forall r, is_prefix na r = true -> is_prefix nb r = true -> False) /\
   (forall m m' : list (bytes * V), outside na m' = outside na m -> window nb m' = window nb m)) /\
  ((forall r, is_prefix nb r = true -> is_prefix na r = true -> False) /\
   (forall m m' : list (bytes * V), outside nb m' = outside nb m -> window na m' = window na m)).
Proof. exact (contract_vs_bank_l a na nb). Qed.
Print Assumptions contract_vs_bank.

Theorem contract_vs_staking {V} a na ns :
  enc_path (p_contract a) = Some na -> enc_path p_staking = Some ns ->
  ((forall r, is_prefix na r = true -> is_prefix ns r = true -> False) /\
   (forall m m' : list (bytes * V), outside na m' = outside na m -> window ns m' = window ns m)) /\
  ((forall r, is_prefix ns r = true -> is_prefix na r = true -> False) /\
   (forall m m' : list (bytes * V), outside ns m' = outside ns m -> window na m' = window na m)).
Proof. exact (contract_vs_staking_l a na ns). Qed.
Print Assumptions contract_vs_staking.

Theorem contract_vs_distribution {V} a na nd :
  enc_path (p_contract a) = Some na -> enc_path p_distribution = Some nd ->
  ((forall r, is_prefix na r = true -> is_prefix nd r = true -> False) /\
   (forall m m' : list (bytes * V), outside na m' = outside na m -> window nd m' = window nd m)) /\
  ((forall r, is_prefix nd r = true -> is_prefix na r = true -> False) /\
   (forall m m' : list (bytes * V), outside nd m' = outside nd m -> window na m' = window na m)).
Proof. exact (contract_vs_distribution_l a na nd). Qed.
Print Assumptions contract_vs_distribution.

(* FOR ALL key bytes k: the raw key the view of contract a writes is [na ++ k]; it reads back as k and lies
   in no other contract's window, not in the registry's, the bank's, staking's or distribution's —
   whatever k spells *)
Theorem crafted_key_harmless {V} a na (k : bytes) :
  enc_path (p_contract a) = Some na ->
  (forall (m : list (bytes * V)) v, v_set na m k v = insert bcmp (na ++ k) v m) /\
  is_prefix na (na ++ k) = true /\ strip na (na ++ k) = Some k /\
  (forall b nb, b <> a -> enc_path (p_contract b) = Some nb -> is_prefix nb (na ++ k) = false) /\
  (forall nr, enc_path p_registry = Some nr -> is_prefix nr (na ++ k) = false) /\
  (forall nb, enc_path p_bank = Some nb -> is_prefix nb (na ++ k) = false) /\
  (forall ns, enc_path p_staking = Some ns -> is_prefix ns (na ++ k) = false) /\
  (forall nd, enc_path p_distribution = Some nd -> is_prefix nd (na ++ k) = false).
Proof. exact (crafted_key_harmless_l a na k). Qed.
Print Assumptions crafted_key_harmless.

(* EVERY client program over the Storage API (gets, ranges with any bounds and order, sets, removes, nested
   transactional blocks) run through the view of contract a on a root store m: it behaves exactly as the
   same program on the plain map [window na m] — all it can read is its own window — and the window n2 of
   any other contract or module (disjoint from na by the theorems above) is afterwards exactly what it was *)
Theorem contract_program_isolated {V} E A (p : Tx.prog (K := bytes) (V := V) E A) na n2 outer (m : list (bytes * V)) :
  (forall r, is_prefix na r = true -> is_prefix n2 r = true -> False) ->
  sorted bcmp m -> Forall (sorted bcmp) outer ->
  match run_flat bcmp (lift_view na p) outer m, run_flat bcmp p (map (window na) outer) (window na m) with
  | Done x m', Done x' w' => x = x' /\ window na m' = w' /\ window n2 m' = window n2 m /\ outside na m' = outside na m
  | Failed e, Failed e' => e = e'
  | _, _ => False
  end.
Proof. exact (contract_program_isolated_l E A p na n2 outer m). Qed.
Print Assumptions contract_program_isolated.

(* the accessors at the level of raw bytes: own get, WasmQuery::Raw (absent = empty bytes), dump / range —
   all denote the one map [window na m] *)
Theorem accessors_agree_bytes (na : bytes) (m : list (bytes * bytes)) (k : bytes) :
  raw_own_get na m k = assoc bcmp k (window na m) /\
  raw_query_raw na m k = match assoc bcmp k (window na m) with Some v => v | None => [] end /\
  raw_dump na m = Ok (window na m).
Proof. exact (accessors_agree_raw na m k). Qed.
Print Assumptions accessors_agree_bytes.

(* ---------- L4: the executor model ---------- *)

(* one body: only the callee's own store changes, by exactly its own writes *)
Theorem actions_frame e s node c acts : sorted_cstore s ->
  let s' := cstore_set s c (snd (run_actions e s node (cstore_get s c) acts)) in
  bank s' = bank s /\ reg s' = reg s /\
  (forall c', c' <> c -> cstore_get s' c' = cstore_get s c') /\
  cstore_get s' c =
    fold_left (fun o a => match a with AWrite k v => insert bcmp k v o | ARemove k => delete bcmp k o | AQ _ => o end)
              acts (cstore_get s c).
Proof. exact (actions_frame_l e s node c acts). Qed.
Print Assumptions actions_frame.

(* WHOLE CALL TREES (mutual induction over the message tree; any depth, any mix of committed, failed and
   caught sub-messages, replies, instantiations, migrations): if the message succeeds, then
   - the storage of a contract that was not invoked anywhere in the tree (its address is not the callee of
     any entry-point call in the log) is what it was,
   - the bank is what it was unless the tree contains a bank message or attached funds,
   - the registry is what it was unless the tree contains an instantiate / migrate / admin message.
   (If it fails no state is handed on at all: C01 / C02.) *)
Theorem call_tree_frame e m sender s r s' :
  outc (run_msg e sender m s) = Ok (r, s') -> sorted_cstore s ->
  sorted_cstore s' /\
  (forall c, ~ In c (ran (trc (run_msg e sender m s))) -> cstore_get s' c = cstore_get s c) /\
  (tb_msg m = false -> bank s' = bank s) /\
  (tg_msg m = false -> reg s' = reg s).
Proof. exact (proj1 (exec_frame e) m sender s r s'). Qed.
Print Assumptions call_tree_frame.

(* ... and every top-level entry point (execute, execute_multi, wasm_sudo, mint, the Executor helpers),
   whatever its outcome *)
Theorem top_call_frame e op s : sorted_cstore s ->
  sorted_cstore (top_state (run_top e op s)) /\
  (forall c, ~ In c (ran (top_trace (run_top e op s))) -> cstore_get (top_state (run_top e op s)) c = cstore_get s c) /\
  (tb_op op = false -> bank (top_state (run_top e op s)) = bank s) /\
  (tg_op op = false -> reg (top_state (run_top e op s)) = reg s).
Proof. exact (top_frame e op s). Qed.
Print Assumptions top_call_frame.

(* what a body logs: its gets / ranges are a function of its OWN store (entry store + own writes so far) and
   of nothing else; every other query is a function of the enclosing state and not of its own store *)
Theorem body_reads_own_store_only e s node acts own :
  fst (run_actions e s node own acts) = body_trace e s node own acts.
Proof. exact (run_actions_body_trace e s node acts own). Qed.
Print Assumptions body_reads_own_store_only.

(* non-interference: a body that only touches its own storage logs the same and ends with the same store in
   ANY two environments and chain states: nothing others wrote appears in its reads or iterations *)
Theorem own_reads_noninterference e1 e2 s1 s2 node acts own : forallb own_only acts = true ->
  run_actions e1 s1 node own acts = run_actions e2 s2 node own acts.
Proof. exact (ExecIso.own_reads_noninterference e1 e2 s1 s2 node acts own). Qed.
Print Assumptions own_reads_noninterference.

(* the body of a call at c starts from cstore_get s c *)
Theorem call_reads_callee_store e entry c sender funds rep cid rok node acts out s co :
  serving e s c entry = Some co ->
  exists rest, trc (run_prog e entry c sender funds rep cid rok (Prog node acts out) s) =
               RCall node entry c sender funds (blk e) (c_tag co) rep :: body_trace e s node (cstore_get s c) acts ++ rest.
Proof. exact (call_body_view e entry c sender funds rep cid rok node acts out s co). Qed.
Print Assumptions call_reads_callee_store.

(* accessors in the model: own read, dump, WasmQuery::Raw (absent key = empty bytes), the store a smart
   query's handler runs on — all denote cstore_get s a *)
Theorem accessors_agree e s node a k : is_valid e a = true ->
  let d := cstore_get s a in
  run_qact e s node d (QRead k) = [RObs node (VBytes (assoc bcmp k d))] /\
  run_qact e s node d QDump = [RObs node (VDump d)] /\
  (forall own, run_qact e s node own (QRaw a k) =
               [RObs node (VRaw (Some (match assoc bcmp k d with Some v => v | None => [] end)))]) /\
  (forall tag n acts ans, run_qprog e s a tag (QProg n acts ans) = (RQuery n a (blk e) tag :: run_qacts e s n d acts, ans)).
Proof. exact (accessors_agree_l e s node a k). Qed.
Print Assumptions accessors_agree.

(* ---------- what the correspondence check relies on ---------- *)

(* the property oracle accepts the model's own output for ALL environments, calls, probe keys and states *)
Theorem C08_model_ok ce b op keys s : sorted_cstore s -> p_c08 (model_istep ce b op keys s) = None.
Proof. exact (p_c08_model ce b op keys s). Qed.
Print Assumptions C08_model_ok.

Theorem C08_agree_sound ce steps : c08 ce steps = Agree ->
  oracle_isteps steps 0 = None /\ corr ce (map i_step steps) empty_chain 0 = None.
Proof. exact (c08_agree_sound ce steps). Qed.
Print Assumptions C08_agree_sound.

(* clause 12 of the check (ChkIso.p_c08x: ANY contract whose code ran exactly once in a successful call without
   error replies has window-after = window-before + that body's writes; the program is found by node number, so
   it is claimed for the harness's scenarios and is NOT part of C08_model_ok, whose clause 11 is the same
   statement for the root contract).  An Agree verdict implies it held: *)
Theorem C08_agree_sound_x ce steps : c08 ce steps = Agree -> oracle_isteps_x steps 0 = None.
Proof. exact (c08_agree_sound_x ce steps). Qed.
Print Assumptions C08_agree_sound_x.

(* clause 11 on the model, for all inputs: the root contract, if its code ran exactly once in a successful call,
   ends with its old window plus exactly its own writes and removes — nothing else in the tree touched it,
   nothing it wrote was lost *)
Theorem root_writes_kept e op s : sorted_cstore s ->
  root_writes_ok s (top_state (run_top e op s)) op (top_trace (run_top e op s)) (is_ok (top_outcome (run_top e op s))) = true.
Proof. exact (root_writes_model e op s). Qed.
Print Assumptions root_writes_kept.

(* ---------- non-vacuity ---------- *)
Local Open Scope N_scope.

(* concrete windows: contracts "a" and "ab" (one address a prefix of the other), the registry, the bank *)
Example windows_exist :
  enc_path (p_contract [97]) = Some [0; 4; 119; 97; 115; 109; 0; 15; 99; 111; 110; 116; 114; 97; 99; 116; 95; 100; 97; 116; 97; 47; 97] /\
  enc_path (p_contract [97; 98]) = Some [0; 4; 119; 97; 115; 109; 0; 16; 99; 111; 110; 116; 114; 97; 99; 116; 95; 100; 97; 116; 97; 47; 97; 98] /\
  [97] <> [97; 98] /\
  enc_path p_registry = Some [0; 4; 119; 97; 115; 109; 0; 9; 99; 111; 110; 116; 114; 97; 99; 116; 115] /\
  enc_path p_bank = Some [0; 4; 98; 97; 110; 107] /\
  enc_path p_staking = Some [0; 7; 115; 116; 97; 107; 105; 110; 103] /\
  enc_path p_distribution = Some [0; 12; 100; 105; 115; 116; 114; 105; 98; 117; 116; 105; 111; 110].
Proof. repeat split; try (vm_compute; reflexivity). discriminate. Qed.

(* a root store in which contract "a" wrote keys spelling the bank's balances prefix, contract "ab"'s full raw
   prefix and the empty key: every one of them is in a's window only, and reading it back gives the key *)
Definition ex_na : bytes := [0; 4; 119; 97; 115; 109; 0; 15; 99; 111; 110; 116; 114; 97; 99; 116; 95; 100; 97; 116; 97; 47; 97].
Definition ex_nab : bytes := [0; 4; 119; 97; 115; 109; 0; 16; 99; 111; 110; 116; 114; 97; 99; 116; 95; 100; 97; 116; 97; 47; 97; 98].
Definition ex_bank_key : bytes := [0; 4; 98; 97; 110; 107; 0; 8; 98; 97; 108; 97; 110; 99; 101; 115; 120].
Example crafted_keys_example :
  let m0 : list (bytes * bytes) := [([0; 4; 98; 97; 110; 107; 0; 8; 98; 97; 108; 97; 110; 99; 101; 115; 120], [1])] in
  let m1 := v_set ex_na (v_set ex_na (v_set ex_na m0 ex_bank_key [66]) (ex_nab ++ [107]) [67]) [] [68] in
  window ex_na m1 = [([], [68]); (ex_bank_key, [66]); (ex_nab ++ [107], [67])] /\
  window ex_nab m1 = [] /\ window [0; 4; 98; 97; 110; 107] m1 = [([0; 8; 98; 97; 108; 97; 110; 99; 101; 115; 120], [1])] /\
  sorted bcmp m0.
Proof. cbn zeta. split; [vm_compute; reflexivity|]. split; [vm_compute; reflexivity|]. split; [vm_compute; reflexivity|].
  repeat constructor. Qed.

(* a call tree in which contract "b" runs, calls "c" as a sub-message that fails and is caught: b's store
   changes, c ran (and left nothing), contract "d" did not run and the theorem applies to it non-trivially
   (d has data); no bank / registry change although the theorem's premises are about the syntax only *)
Definition ex_env : env := {| codes := [(1, Build_code 101 [99] [] true true true)]; blk := Build_blockinfo 1 2 [99];
  valid_addrs := [[97]; [98]; [99]; [100]]; classic_book := []; salted_book := [] |}.
Definition ex_state : chain :=
  {| bank := [([97], [([117], 5)])];
     reg := [([98], Build_cdata 1 [97] None [76] 1); ([99], Build_cdata 1 [97] None [76] 1); ([100], Build_cdata 1 [97] None [76] 1)];
     cstore := [([98], [([1], [1])]); ([100], [([0; 4; 98; 97; 110; 107], [9])])] |}.
Definition ex_msg : msg :=
  MExec [98] (Prog 1 [AWrite [0; 4; 98; 97; 110; 107] [7]; AQ QDump]
                (OResp [] [] None (SCons (Sub 5 [] RError (MExec [99] (Prog 2 [AWrite [] [3]] OFail) [])
                                               (Prog 3 [] OFail) (Prog 4 [AWrite [4] [4]; AQ (QRaw [100] [0; 4; 98; 97; 110; 107])] (OResp [] [] None SNil))) SNil))) [].
Example call_tree_example :
  sorted_cstore ex_state /\ tb_msg ex_msg = false /\ tg_msg ex_msg = false /\
  exists r s', outc (run_msg ex_env [97] ex_msg ex_state) = Ok (r, s') /\
    ran (trc (run_msg ex_env [97] ex_msg ex_state)) = [[98]; [99]; [98]] /\
    cstore s' = [([98], [([0; 4; 98; 97; 110; 107], [7]); ([1], [1]); ([4], [4])]); ([100], [([0; 4; 98; 97; 110; 107], [9])])] /\
    ~ In [100] (ran (trc (run_msg ex_env [97] ex_msg ex_state))).
Proof.
  split; [repeat constructor|]. split; [reflexivity|]. split; [reflexivity|].
  eexists. eexists. split; [vm_compute; reflexivity|]. split; [vm_compute; reflexivity|]. split; [vm_compute; reflexivity|].
  vm_compute. intros [H|[H|[H|[]]]]; discriminate.
Qed.

(* the hypotheses of the body-level theorems are met: an own-only script, a served call *)
Example body_hypotheses_met :
  forallb own_only [AWrite [1] [2]; AQ (QRead [1]); ARemove [1]; AQ QDump] = true /\
  (exists co, serving ex_env ex_state [98] EExec = Some co) /\ is_valid ex_env [100] = true /\
  sorted_cstore empty_chain.
Proof. split; [reflexivity|]. split; [eexists; vm_compute; reflexivity|]. split; [reflexivity|constructor]. Qed.

(* the check on a small script: the model's own output passes; a forged observation in which a contract
   that did not run has a changed window, and one in which a raw query shows another contract's data, are
   property failures *)
Definition ex_ce : case_env := {| ce_codes := codes ex_env; ce_valid := valid_addrs ex_env; ce_classic := []; ce_salted := [] |}.
Example check_runs :
  let x := model_istep ex_ce (blk ex_env) (TExec [97] ex_msg) [[1]; []] ex_state in
  p_c08 x = None /\
  p_c08 {| i_step := i_step x;
           i_before := {| bank := bank ex_state; reg := reg ex_state; cstore := [([98], [([1], [1])]); ([100], [([5], [5])])] |};
           i_rb := i_rb x |} = Some 6 /\
  p_c08 {| i_step := i_step x; i_before := i_before x;
           i_rb := map (fun r => {| rb_addr := rb_addr r; rb_own := rb_own r; rb_dump := rb_dump r; rb_sto := rb_sto r; rb_sto_mut := rb_sto_mut r;
                                    rb_keys := map (fun k => {| kr_key := kr_key k; kr_own := kr_own k; kr_raw := Some [9]; kr_get := kr_get k;
                                                                kr_get_mut := kr_get_mut k |}) (rb_keys r) |}) (i_rb x) |} = Some 9.
Proof. vm_compute. auto. Qed.

(* clauses 11 / 12 on the model's own step and on a forged one in which the root contract b — which ran once and
   created nothing at its own address — has lost the record it held before the call *)
Example single_run_clauses :
  let x := model_istep ex_ce (blk ex_env) (TExec [97] ex_msg) [] ex_state in
  let lost := {| bank := bank (st_state (i_step x)); reg := reg (st_state (i_step x));
                 cstore := [([98], [([0; 4; 98; 97; 110; 107], [7]); ([4], [4])]); ([100], [([0; 4; 98; 97; 110; 107], [9])])] |} in
  let y := {| i_step := {| st_blk := st_blk (i_step x); st_op := st_op (i_step x);
                           st_trace := [RCall 1 EExec [98] (Some [97]) [] (blk ex_env) 101 None; RObs 1 (VDump [([0; 4; 98; 97; 110; 107], [7]); ([1], [1])])];
                           st_outcome := Ok [([], None)]; st_state := lost; st_other := 0; st_raw_same := false |};
              i_before := ex_state; i_rb := map (model_rback lost []) (map fst (reg lost)) |} in
  p_c08 x = None /\ p_c08x x = None /\ p_c08 y = Some 11 /\ p_c08x y = Some 12 /\ sorted_cstore ex_state.
Proof. cbn zeta. repeat (split; [vm_compute; reflexivity|]). repeat constructor. Qed.
