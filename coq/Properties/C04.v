(* Properties/C04.v — pinned statements for C04 (events and response data composed per wasmd rules). *)
From Verif Require Import Base OMap Text Proto Bank Exec ExecFacts ExecFacts2 ChkExec ChkX ExecOracle ExecOracleS ExecOracleH.

(* a successful contract call returns: the entry-point event, the `wasm` event iff attributes were set, each
   custom event renamed `wasm-<type>` with the contract address first — then the events of its sub-messages in
   order; the data is the fold below; the response was well-formed *)
Theorem events_spec e entry c sender funds rep cid rok node acts attrs events data sbs s ev d s' :
  outc (run_prog e entry c sender funds rep cid rok (Prog node acts (OResp attrs events data sbs)) s) = Ok ((ev, d), s') ->
  verify_response attrs events = None /\
  exists ev_s, ev = base_events c (ep_event entry c cid rok) attrs events ++ ev_s /\
               subs_ok_spec e c sbs data (cstore_set s c (snd (run_actions e s node (cstore_get s c) acts))) ev_s d s'.
Proof. exact (run_prog_ok_shape e entry c sender funds rep cid rok node acts attrs events data sbs s ev d s'). Qed.
Print Assumptions events_spec.

Theorem custom_event_shape c custom attrs events :
  base_events c custom attrs events =
  custom :: (match attrs with [] => [] | _ => [(t_wasm, (contract_attr, c) :: attrs)] end)
         ++ map (fun ev => (t_wasm_dash ++ fst ev, (contract_attr, c) :: snd ev)) events.
Proof. exact (base_events_spec c custom attrs events). Qed.
Print Assumptions custom_event_shape.

(* fold over the sub-messages: events concatenate in order, data = the last Some among
   (own data :: contributions), threaded through [or_data] *)
Theorem data_spec e c l data s ev d s' :
  outc (process_subs e c l data s) = Ok ((ev, d), s') -> subs_ok_spec e c l data s ev d s'.
Proof. exact (process_subs_ok_spec e c l data s ev d s'). Qed.
Print Assumptions data_spec.

(* contribution of ONE sub-message: events of the sub-message followed by those of its reply; data = the
   reply's data if a reply was invoked (possibly None), and None if no reply was invoked; a failed and
   caught sub-message contributes the reply's events only (its own are dropped) *)
Theorem sub_contribution e c id payload ro m on_ok on_err s ev d s' :
  outc (run_sub e c (Sub id payload ro m on_ok on_err) s) = Ok ((ev, d), s') ->
  match outc (run_msg e c m s) with
  | Ok ((ev1, d1), s1) =>
      if wants_ok ro
      then exists ev2, outc (reply_run e c id payload (RROk ev1 d1) on_ok s1) = Ok ((ev2, d), s') /\ ev = ev1 ++ ev2
      else d = None /\ ev = ev1 /\ s' = s1
  | Err => wants_err ro = true /\ outc (reply_run e c id payload RRErr on_err s) = Ok ((ev, d), s')
  | Panic => False
  end.
Proof. exact (run_sub_data e c id payload ro m on_ok on_err s ev d s'). Qed.
Print Assumptions sub_contribution.

(* execute wraps the data in the execute-response encoding only when present *)
Theorem wrap_spec_execute e sender c p funds s :
  run_msg e sender (MExec c p funds) s =
  if negb (is_valid e c) then ([], Err) else
  match move_funds s sender c funds with
  | Ok s1 => let (tr, r) := run_prog e EExec c (Some sender) funds None 0 true p s1 in
             (tr, match r with Ok ((ev, d), s2) => Ok ((ev, option_map encode_exec_resp d), s2) | Err => Err | Panic => Panic end)
  | Err => ([], Err) | Panic => ([], Panic)
  end.
Proof. exact (exec_runs_after_funds e sender c p funds s). Qed.
Print Assumptions wrap_spec_execute.

(* ---------- non-vacuity: nested replies overriding data ---------- *)
Local Open Scope N_scope.
Definition ex_env : env := {| codes := [(1, Build_code 101 [99] [] true true true)]; blk := Build_blockinfo 1 2 [99];
  valid_addrs := [[97]; [98]]; classic_book := [((1, 0), [98])]; salted_book := [] |}.
Example data_override_example :
  let m := MExec [98] (Prog 3 [] (OResp [([107], [118])] [([120; 121], [])] (Some [1])
              (SCons (Sub 5 [] RSuccess (MCustom true 1) (Prog 6 [] (OResp [] [] (Some [2]) SNil)) (Prog 7 [] OFail))
              (SCons (Sub 6 [] RNever (MCustom true 2) (Prog 8 [] OFail) (Prog 9 [] OFail)) SNil)))) [] in
  match run_msgs ex_env [97] [MInst 1 (Prog 1 [] (OResp [] [] None SNil)) [] [76] None None; m] empty_chain with
  | (_, Ok ([_; (ev, d)], _)) => d = Some [10; 1; 2] /\ length ev = 4%nat
  | _ => False
  end.
Proof. vm_compute. split; reflexivity. Qed.

(* ---------- what the correspondence check relies on ---------- *)
(* The run-time oracle p_c04 (ChkX.v, clauses 5-10: events of the root program first and verbatim, leaf responses exactly, the instantiate
   response, Ok replies carry the response of the leaf sub-message they answer, no reply => own data, the data returned is
   the last one set among own data and the leaf reply handlers that ran) accepts the model's own run of EVERY well-formed scenario, in every case
   environment: an implementation that behaves exactly like the model is never flagged, and "agrees with the model"
   implies "satisfies the oracle's reading of C04".
   Premise [wf_scenario] (ExecOracle.v) is what the generator guarantees (harness/exec_common/src/gen.rs): in every
   program of every call — sub-messages and reply handlers at every depth — the first action writes the marker
   "m<node>" and no other action writes or removes the marker of any node; the markers of all the nodes of the
   scenario are pairwise different.  [model_steps] builds the step records from the model's own run (only the block and
   the call of each input step are used). *)
Theorem C04_model_ok ce steps : wf_scenario steps -> c04 ce (model_steps ce steps empty_chain) = Agree.
Proof. exact (c04_model_ok ce steps). Qed.
Print Assumptions C04_model_ok.

Example C04_model_ok_applies : wf_scenario ex_scenario /\ c04 ex_ce (model_steps ex_ce ex_scenario empty_chain) = Agree.
Proof. exact (conj ex_scenario_wf (C04_model_ok ex_ce ex_scenario ex_scenario_wf)). Qed.

(* conversely, an Agree verdict of the check means: the oracle accepted every step of what the IMPLEMENTATION did, and
   trace, outcome and state agreed with the model at every step *)
Theorem C04_agree_sound ce steps : c04 ce steps = Agree ->
  oracle_steps p_c04 steps 0 = None /\ corr ce steps empty_chain 0 = None.
Proof. exact (check_with_agree_sound p_c04 ce steps). Qed.
Print Assumptions C04_agree_sound.
