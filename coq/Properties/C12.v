(* Properties/C12.v — pinned statements for C12 (only the current admin can migrate or re-assign admin;
   migration keeps state).  Model: Exec.v (MMigrate / MUpdateAdmin / MClearAdmin), lemmas in Registry.v. *)
From Verif Require Import Base OMap Text Proto Bank Exec ExecFacts ExecFacts2 ChkExec ChkX Registry ExecReg ChkReg.
Local Open Scope N_scope.

(* Ok => the sender is the admin recorded at that moment (so never for a contract without admin), at every depth
   of a message tree: for a sub-message the sender is the dispatching contract *)
Theorem admin_ops_authorised e sender m c s r s' :
  admin_op_on m c -> outc (run_msg e sender m s) = Ok (r, s') ->
  exists cd, lookup c (reg s) = Some cd /\ cd_admin cd = Some sender.
Proof. exact (admin_ops_need_admin e sender m c s r s'). Qed.
Print Assumptions admin_ops_authorised.

(* anybody else — creator, former admin, stranger, another contract, anybody when there is no admin or no such
   contract — is refused before anything is written and before any contract code runs *)
Theorem unauthorised_refused e sender m c s :
  admin_op_on m c ->
  (forall cd, lookup c (reg s) = Some cd -> cd_admin cd <> Some sender) ->
  run_msg e sender m s = ([], Err).
Proof. exact (admin_ops_refused e sender m c s). Qed.
Print Assumptions unauthorised_refused.

(* the state handed on is the old one: as a top-level message (whatever made it fail: also a migrate entry point
   failing AFTER the handler saved the new code id) ... *)
Theorem unauthorised_unchanged e sender m s :
  is_ok (top_outcome (run_top e (TExec sender m) s)) = false -> top_state (run_top e (TExec sender m) s) = s.
Proof. exact (failed_top_unchanged e sender m s). Qed.
Print Assumptions unauthorised_unchanged.

(* ... and as a sub-message: the dispatcher continues, if at all, from the state in which it dispatched *)
Theorem unauthorised_unchanged_sub e d id payload ro m on_ok on_err s :
  outc (run_msg e d m s) = Err ->
  outc (run_sub e d (Sub id payload ro m on_ok on_err) s) =
  if wants_err ro then outc (reply_run e d id payload RRErr on_err s) else Err.
Proof. exact (failed_sub_unchanged e d id payload ro m on_ok on_err s). Qed.
Print Assumptions unauthorised_unchanged_sub.

Theorem migrate_effect e sender c new_code p s r s' :
  outc (run_msg e sender (MMigrate c new_code p) s) = Ok (r, s') ->
  exists cd co node acts attrs events data sbs,
    p = Prog node acts (OResp attrs events data sbs) /\
    lookup c (reg s) = Some cd /\ cd_admin cd = Some sender /\
    find_code new_code (codes e) = Some co /\ has_migrate co = true /\
    let s1 := set_reg s (update c (migrated cd new_code) (reg s)) in
    let body := run_actions e s1 node (cstore_get s c) acts in
    lookup c (reg s1) = Some (migrated cd new_code) /\ code_at e s1 c = Some co /\
    trc (run_msg e sender (MMigrate c new_code p) s) =
      RCall node EMigrate c None [] (blk e) (c_tag co) None :: fst body ++
      trc (process_subs e c sbs data (cstore_set s1 c (snd body))) /\
    (exists ev d, outc (process_subs e c sbs data (cstore_set s1 c (snd body))) = Ok ((ev, d), s') /\
                  r = (base_events c (ep_event EMigrate c new_code true) attrs events ++ ev, option_map encode_exec_resp d)) /\
    (sbs = SNil -> s' = cstore_set s1 c (snd body) /\ code_at e s' c = Some co).
Proof. exact (Registry.migrate_effect e sender c new_code p s r s'). Qed.
Print Assumptions migrate_effect.

(* afterwards: execute, sudo, reply, migrate and smart queries at c are all dispatched to the code the registry
   names for c — after a migration, the new one *)
Theorem served_by_recorded_code e s c co : code_at e s c = Some co ->
  (forall entry, serving e s c entry = if ep_available co entry then Some co else None) /\
  (forall entry sender funds rep cid rok p, ep_available co entry = true ->
     exists rest, trc (run_prog e entry c sender funds rep cid rok p s) =
                  RCall (node_of p) entry c sender funds (blk e) (c_tag co) rep :: rest) /\
  (forall node own q, is_valid e c = true ->
     run_qact e s node own (QSmart c q) =
     let (tr, r) := run_qprog e s c (c_tag co) q in tr ++ [RObs node (VSmart r)]).
Proof. exact (served_by_code_at e s c co). Qed.
Print Assumptions served_by_recorded_code.

Theorem admin_change_immediate e sender c a s r s' :
  outc (run_msg e sender (MUpdateAdmin c a) s) = Ok (r, s') ->
  exists cd, lookup c (reg s) = Some cd /\ cd_admin cd = Some sender /\
    lookup c (reg s') = Some (with_admin cd (Some a)) /\
    (forall x m, x <> a -> admin_op_on m c -> run_msg e x m s' = ([], Err)) /\
    (forall a2, is_valid e a2 = true -> is_ok (outc (run_msg e a (MUpdateAdmin c a2) s')) = true) /\
    is_ok (outc (run_msg e a (MClearAdmin c) s')) = true /\
    (forall n p, In n (ids (codes e)) ->
       is_ok (outc (run_msg e a (MMigrate c n p) s')) =
       is_ok (outc (run_prog e EMigrate c None [] None n true p
                      (set_reg s' (update c (migrated (with_admin cd (Some a)) n) (reg s')))))).
Proof. exact (Registry.admin_change_immediate e sender c a s r s'). Qed.
Print Assumptions admin_change_immediate.

(* final: in every state that can follow (any messages, transactions, code-table operations: contracts_persist)
   every admin operation on c, by anybody, under any code table, is refused *)
Theorem clear_admin_final e sender c s r s' :
  outc (run_msg e sender (MClearAdmin c) s) = Ok (r, s') ->
  exists cd, lookup c (reg s) = Some cd /\ cd_admin cd = Some sender /\ lookup c (reg s') = Some (with_admin cd None) /\
    forall e' s'' x m, reg_ext s' s'' -> admin_op_on m c -> run_msg e' x m s'' = ([], Err).
Proof. exact (Registry.clear_admin_final e sender c s r s'). Qed.
Print Assumptions clear_admin_final.

Theorem no_admin_is_final e' s s'' c cd x m :
  lookup c (reg s) = Some cd -> cd_admin cd = None -> reg_ext s s'' -> admin_op_on m c -> run_msg e' x m s'' = ([], Err).
Proof. exact (no_admin_final e' s s'' c cd x m). Qed.
Print Assumptions no_admin_is_final.

(* the relation "can follow" used above holds along every history *)
Theorem history_extends re hs t s : tinv t -> reg_ext s (snd (snd (run_hist re hs (t, s)))).
Proof. exact (hist_contracts_persist re hs t s). Qed.
Print Assumptions history_extends.

(* the property oracle p_c12 (ChkReg.v) accepts the model's own output for ALL histories and books *)
Theorem C12_model_ok rc hs :
  oracle_hist p_c12_step rc (model_steps (mk_renv rc) hs ([], empty_chain)) ost0 0 = None.
Proof. exact (c12_oracle_model_ok rc hs). Qed.
Print Assumptions C12_model_ok.

(* ---------- non-vacuity ---------- *)
Definition ex_re : renv := {| re_valid := [[97]; [98]; [99]; [100]]; re_classic := [((1, 0), [100])]; re_salted := []; re_dck := fun _ _ => [7] |}.
Definition ex_src (tag : N) : source := {| s_tag := tag; s_checksum := None; s_sudo := true; s_reply := true; s_migrate := true |}.
Definition ex_b : blockinfo := Build_blockinfo 3 4 [99].
Definition okp (n : N) : prog := Prog n [AWrite [109; n] [1]] (OResp [] [] None SNil).
Definition ex_t : ctable := [(1, mk_code (fun _ _ => [7]) 1 [97] (ex_src 31)); (10, mk_code (fun _ _ => [7]) 10 [97] (ex_src 32))].
Definition ex_e : env := henv ex_re ex_t ex_b.
Definition ex_s0 : chain :=
  match run_msg ex_e [97] (MInst 1 (okp 1) [] [76] (Some [98]) None) empty_chain with (_, Ok (_, s)) => s | _ => empty_chain end.
(* creator [97] is refused, admin [98] migrates to the non-contiguous id 10 keeping the storage, hands over to [99],
   is refused from then on; [99] clears; nobody is accepted afterwards *)
Example lifecycle_exists :
  outc (run_msg ex_e [97] (MMigrate [100] 10 (okp 2)) ex_s0) = Err /\
  match run_msg ex_e [98] (MMigrate [100] 10 (okp 2)) ex_s0 with
  | (RCall 2 EMigrate [100] None [] _ 32 None :: _, Ok (_, s1)) =>
      cstore_get s1 [100] = [([109; 1], [1]); ([109; 2], [1])] /\ code_at ex_e s1 [100] = Some (mk_code (fun _ _ => [7]) 10 [97] (ex_src 32)) /\
      match run_msg ex_e [98] (MUpdateAdmin [100] [99]) s1 with
      | (_, Ok (_, s2)) =>
          outc (run_msg ex_e [98] (MClearAdmin [100]) s2) = Err /\
          match run_msg ex_e [99] (MClearAdmin [100]) s2 with
          | (_, Ok (_, s3)) => outc (run_msg ex_e [99] (MUpdateAdmin [100] [99]) s3) = Err
          | _ => False end
      | _ => False end
  | _ => False end.
Proof. vm_compute. repeat split; reflexivity. Qed.
Example failing_top_exists :
  is_ok (top_outcome (run_top ex_e (TExec [98] (MMigrate [100] 10 (Prog 5 [] OFail))) ex_s0)) = false /\ ex_s0 <> empty_chain.
Proof. vm_compute. split; [reflexivity|discriminate]. Qed.
