(* Properties/C13.v — pinned statements for C13 (malformed responses are rejected before any effect is kept). *)
From Verif Require Import Base OMap Text Proto Bank Exec ExecFacts ExecFacts2 ChkExec ChkX ExecOracle ExecOracleS ExecOracleH.

(* Rust's str::trim: the result is a contiguous middle part, the removed ends are all whitespace, and
   neither end of the result is whitespace *)
Theorem trim_spec s : exists l r, s = l ++ trim s ++ r /\ forallb is_ws l = true /\ forallb is_ws r = true /\
  match trim s with [] => True | c :: _ => is_ws c = false end /\
  match rev (trim s) with [] => True | c :: _ => is_ws c = false end.
Proof. exact (Text.trim_spec s). Qed.
Print Assumptions trim_spec.

(* a response is accepted exactly when every attribute key (of the response and of every event), trimmed, is
   non-empty and does not start with '_', and every event type, trimmed, has at least two bytes *)
Theorem valid_resp_spec attrs events :
  verify_response attrs events = None <->
  (forall k v, In (k, v) attrs -> bad_key k = None) /\
  (forall ty at', In (ty, at') events -> (forall k v, In (k, v) at' -> bad_key k = None) /\ bad_type ty = false).
Proof. exact (verify_response_ok_iff attrs events). Qed.
Print Assumptions valid_resp_spec.

(* a malformed response makes the call fail — at EVERY entry point (instantiate, execute, reply, sudo, migrate:
   [entry] is universally quantified), at every depth, whatever else the response holds; Err hands on no
   state, so the callee's writes (already flushed by its inner cache) die with the enclosing cache *)
Theorem malformed_rejected e entry c sender funds rep cid rok node acts attrs events data sbs s r :
  verify_response attrs events = Some r ->
  outc (run_prog e entry c sender funds rep cid rok (Prog node acts (OResp attrs events data sbs)) s) = Err.
Proof. exact (ExecFacts2.malformed_rejected e entry c sender funds rep cid rok node acts attrs events data sbs s r). Qed.
Print Assumptions malformed_rejected.

(* ... before any of its sub-messages is dispatched *)
Theorem malformed_no_dispatch e entry c sender funds rep cid rok node acts attrs events data sbs s r :
  verify_response attrs events = Some r ->
  trc (run_prog e entry c sender funds rep cid rok (Prog node acts (OResp attrs events data sbs)) s) =
  trc (run_prog e entry c sender funds rep cid rok (Prog node acts (OResp attrs events data SNil)) s).
Proof. exact (ExecFacts2.malformed_no_dispatch e entry c sender funds rep cid rok node acts attrs events data sbs s r). Qed.
Print Assumptions malformed_no_dispatch.

(* every other key, value (empty ones included) and event type is accepted and surfaces unchanged *)
Theorem valid_surfaces_unchanged e entry c sender funds rep cid rok node acts attrs events data sbs s ev d s' :
  outc (run_prog e entry c sender funds rep cid rok (Prog node acts (OResp attrs events data sbs)) s) = Ok ((ev, d), s') ->
  verify_response attrs events = None /\
  exists ev_s, ev = base_events c (ep_event entry c cid rok) attrs events ++ ev_s /\
               subs_ok_spec e c sbs data (cstore_set s c (snd (run_actions e s node (cstore_get s c) acts))) ev_s d s'.
Proof. exact (run_prog_ok_shape e entry c sender funds rep cid rok node acts attrs events data sbs s ev d s'). Qed.
Print Assumptions valid_surfaces_unchanged.

(* ---------- non-vacuity: boundary strings ---------- *)
Local Open Scope N_scope.
Example boundary_strings :
  bad_key [] = Some VEmptyKey /\ bad_key [32; 9] = Some VEmptyKey /\ bad_key [32; 95; 120] = Some VReservedKey /\
  bad_key [120; 95] = None /\ bad_key [8203] = None (* U+200B is not whitespace *) /\ bad_key [12288] = Some VEmptyKey /\
  bad_type [32; 97; 32] = true /\ bad_type [233] = false (* one 2-byte character *) /\ bad_type [97; 98] = false /\
  verify_response [([107], [])] [([97; 98], [([107], [])])] = None.
Proof. vm_compute. repeat split; reflexivity. Qed.

(* ---------- what the correspondence check relies on ---------- *)
(* The run-time oracle p_c13 (ChkX.v, clauses 5-9: a malformed response fails the call, keeps no write, dispatches nothing; a well-formed one
   surfaces verbatim and, for a leaf program whose body ran, makes the call succeed) accepts the model's own run of EVERY well-formed scenario, in every case
   environment: an implementation that behaves exactly like the model is never flagged, and "agrees with the model"
   implies "satisfies the oracle's reading of C13".
   Premise [wf_scenario] (ExecOracle.v) is what the generator guarantees (harness/exec_common/src/gen.rs): in every
   program of every call — sub-messages and reply handlers at every depth — the first action writes the marker
   "m<node>" and no other action writes or removes the marker of any node; the markers of all the nodes of the
   scenario are pairwise different.  [model_steps] builds the step records from the model's own run (only the block and
   the call of each input step are used). *)
Theorem C13_model_ok ce steps : wf_scenario steps -> c13 ce (model_steps ce steps empty_chain) = Agree.
Proof. exact (c13_model_ok ce steps). Qed.
Print Assumptions C13_model_ok.

Example C13_model_ok_applies : wf_scenario ex_scenario /\ c13 ex_ce (model_steps ex_ce ex_scenario empty_chain) = Agree.
Proof. exact (conj ex_scenario_wf (C13_model_ok ex_ce ex_scenario ex_scenario_wf)). Qed.

(* conversely, an Agree verdict of the check means: the oracle accepted every step of what the IMPLEMENTATION did, and
   trace, outcome and state agreed with the model at every step *)
Theorem C13_agree_sound ce steps : c13 ce steps = Agree ->
  oracle_steps p_c13 steps 0 = None /\ corr ce steps empty_chain 0 = None.
Proof. exact (check_with_agree_sound p_c13 ce steps). Qed.
Print Assumptions C13_agree_sound.
