(* Properties/C13.v — pinned statements for C13 (malformed responses are rejected before any effect is kept). *)
From Verif Require Import Base OMap Text Proto Bank Exec ExecFacts ExecFacts2 ChkExec.

(* Rust's str::trim: the result is a contiguous middle part, the removed ends are all whitespace, and
   neither end of the result is whitespace *)
Theorem trim_spec s : exists l r, s = l ++ trim s ++ r /\ forallb is_ws l = true /\ forallb is_ws r = true /\
  match trim s with [] => True | c :: _ => is_ws c = false end /\
  match rev (trim s) with [] => True | c :: _ => is_ws c = false end.
Proof. exact (Text.trim_spec s). Qed.
Print Assumptions trim_spec.

(* a response is accepted exactly when every attribute key (of the response and of every event), trimmed, is
   non-empty and does not start with '_', and every event type, trimmed, has at least two bytes *)
Theorem valid_resp_spec attrs events :
  verify_response attrs events = None <->
  (forall k v, In (k, v) attrs -> bad_key k = None) /\
  (forall ty at', In (ty, at') events -> (forall k v, In (k, v) at' -> bad_key k = None) /\ bad_type ty = false).
Proof. exact (verify_response_ok_iff attrs events). Qed.
Print Assumptions valid_resp_spec.

(* a malformed response makes the call fail — at EVERY entry point (instantiate, execute, reply, sudo, migrate:
   [entry] is universally quantified), at every depth, whatever else the response holds; Err hands on no
   state, so the callee's writes (already flushed by its inner cache) die with the enclosing cache *)
Theorem malformed_rejected e entry c sender funds rep cid rok node acts attrs events data sbs s r :
  verify_response attrs events = Some r ->
  outc (run_prog e entry c sender funds rep cid rok (Prog node acts (OResp attrs events data sbs)) s) = Err.
Proof. exact (ExecFacts2.malformed_rejected e entry c sender funds rep cid rok node acts attrs events data sbs s r). Qed.
Print Assumptions malformed_rejected.

(* ... before any of its sub-messages is dispatched *)
Theorem malformed_no_dispatch e entry c sender funds rep cid rok node acts attrs events data sbs s r :
  verify_response attrs events = Some r ->
  trc (run_prog e entry c sender funds rep cid rok (Prog node acts (OResp attrs events data sbs)) s) =
  trc (run_prog e entry c sender funds rep cid rok (Prog node acts (OResp attrs events data SNil)) s).
Proof. exact (ExecFacts2.malformed_no_dispatch e entry c sender funds rep cid rok node acts attrs events data sbs s r). Qed.
Print Assumptions malformed_no_dispatch.

(* every other key, value (empty ones included) and event type is accepted and surfaces unchanged *)
Theorem valid_surfaces_unchanged e entry c sender funds rep cid rok node acts attrs events data sbs s ev d s' :
  outc (run_prog e entry c sender funds rep cid rok (Prog node acts (OResp attrs events data sbs)) s) = Ok ((ev, d), s') ->
  verify_response attrs events = None /\
  exists ev_s, ev = base_events c (ep_event entry c cid rok) attrs events ++ ev_s /\
               subs_ok_spec e c sbs data (cstore_set s c (snd (run_actions e s node (cstore_get s c) acts))) ev_s d s'.
Proof. exact (run_prog_ok_shape e entry c sender funds rep cid rok node acts attrs events data sbs s ev d s'). Qed.
Print Assumptions valid_surfaces_unchanged.

(* ---------- non-vacuity: boundary strings ---------- *)
Local Open Scope N_scope.
Example boundary_strings :
  bad_key [] = Some VEmptyKey /\ bad_key [32; 9] = Some VEmptyKey /\ bad_key [32; 95; 120] = Some VReservedKey /\
  bad_key [120; 95] = None /\ bad_key [8203] = None (* U+200B is not whitespace *) /\ bad_key [12288] = Some VEmptyKey /\
  bad_type [32; 97; 32] = true /\ bad_type [233] = false (* one 2-byte character *) /\ bad_type [97; 98] = false /\
  verify_response [([107], [])] [([97; 98], [([107], [])])] = None.
Proof. vm_compute. repeat split; reflexivity. Qed.
