(* Properties/C11.v — pinned statements for C11 (code ids and contract addresses are unique, stable and usable).
   Model: Registry.v (the code table as a value that changes over a history) on top of Exec.v.  All statements
   are for every table / state / history; nothing is computed over samples. *)
From Verif Require Import Base OMap Text Proto Bank Exec ExecFacts ExecFacts2 ChkExec ChkX Registry ExecReg ChkReg.
Local Open Scope N_scope.

(* ---------- identifiers ---------- *)

(* store_code: the new id is one more than the LARGEST id in use (not the number of codes), it was not in use,
   the code is stored under it and no other entry changes; the call panics exactly when the largest id is 2^64-1 *)
Theorem auto_id_is_max_plus_one dck t creator src : tsorted t ->
  match store_code dck t creator src with
  | Ok (id, t') => id = tmax t + 1 /\ tmax t < u64_max /\ ~ In id (ids t) /\
                   find_code id t' = Some (mk_code dck id creator src) /\
                   (forall j, j <> id -> find_code j t' = find_code j t)
  | Panic => u64_max <= tmax t
  | Err => False
  end.
Proof. exact (store_code_spec dck t creator src). Qed.
Print Assumptions auto_id_is_max_plus_one.

(* tmax is the largest id in use *)
Theorem largest_id_spec t : (forall i, In i (ids t) -> i <= tmax t) /\ (t <> [] -> In (tmax t) (ids t)) /\ (t = [] -> tmax t = 0).
Proof. exact (tmax_spec t). Qed.
Print Assumptions largest_id_spec.

Theorem explicit_id_honoured dck t creator id src :
  id <> 0 -> ~ In id (ids t) ->
  exists t', store_code_with_id dck t creator id src = Ok (id, t') /\
             find_code id t' = Some (mk_code dck id creator src) /\
             (forall j, j <> id -> find_code j t' = find_code j t).
Proof. exact (store_with_id_ok dck t creator id src). Qed.
Print Assumptions explicit_id_honoured.

(* no table is returned: the history keeps the old one (run_hop_frame below) *)
Theorem zero_and_duplicate_rejected dck t creator id src :
  id = 0 \/ In id (ids t) -> store_code_with_id dck t creator id src = Err.
Proof. exact (store_with_id_rejected dck t creator id src). Qed.
Print Assumptions zero_and_duplicate_rejected.

(* duplicate_code: a NEW id (largest + 1) naming the SAME code record: creator, checksum, behaviour *)
Theorem duplicate_shares_source t id : tsorted t ->
  match duplicate_code t id with
  | Ok (n, t') => exists c, id <> 0 /\ find_code id t = Some c /\ n = tmax t + 1 /\ tmax t < u64_max /\ ~ In n (ids t) /\
                            find_code n t' = Some c /\ (forall j, j <> n -> find_code j t' = find_code j t)
  | Err => id = 0 \/ ~ In id (ids t) \/ u64_max <= tmax t
  | Panic => False
  end.
Proof. exact (duplicate_spec t id). Qed.
Print Assumptions duplicate_shares_source.

(* over ANY history of store / store-with-id / duplicate calls, top-level calls and queries, from any
   well-formed table: ids in the table pairwise distinct and non-zero; ids RETURNED pairwise distinct, non-zero,
   not in use before and in the table afterwards *)
Theorem ids_distinct re hs t s : tinv t ->
  let rs := fst (run_hist re hs (t, s)) in
  let t' := fst (snd (run_hist re hs (t, s))) in
  NoDup (ids t') /\ ~ In 0 (ids t') /\ NoDup (returned_ids rs) /\
  (forall i, In i (returned_ids rs) -> 0 < i /\ ~ In i (ids t) /\ In i (ids t')).
Proof. exact (hist_ids_distinct re hs t s). Qed.
Print Assumptions ids_distinct.

(* a refused table operation, a query, a top-level call: what each leaves untouched *)
Theorem table_ops_frame re h t s :
  match h with
  | HTop _ _ => fst (snd (run_hop re h (t, s))) = t
  | HStore _ _ | HStoreWithId _ _ _ | HDuplicate _ =>
      snd (snd (run_hop re h (t, s))) = s /\
      match fst (run_hop re h (t, s)) with RId (Ok _) => True | _ => fst (snd (run_hop re h (t, s))) = t end
  | _ => snd (run_hop re h (t, s)) = (t, s)
  end.
Proof. exact (run_hop_frame re h t s). Qed.
Print Assumptions table_ops_frame.

(* ---------- usable ---------- *)

(* THE statement the F2 defect violated.  For every id in the table, whatever the other ids are:
   instantiate's check accepts it (the outcome depends on the derived address only), migrate's check accepts it
   (an admin's migration reaches the migrate entry point of that code), CodeInfo and code_data return it,
   and a contract recorded with it is served by it *)
Theorem stored_code_usable e id : In id (ids (codes e)) -> 0 < id ->
  exists co, find_code id (codes e) = Some co /\
    (forall s creator admin label salt,
       register_contract e s id creator admin label salt =
       if negb (salt_ok salt) then Err else
       match new_address e s id creator salt with
       | None => Panic
       | Some a => match lookup a (reg s) with
                   | Some _ => Err
                   | None => Ok (a, set_reg s (update a {| cd_code := id; cd_creator := creator; cd_admin := admin;
                                                          cd_label := label; cd_created := b_height (blk e) |} (reg s)))
                   end
       end) /\
    (forall s c cd sender p, is_valid e c = true -> lookup c (reg s) = Some cd -> cd_admin cd = Some sender ->
       trc (run_msg e sender (MMigrate c id p) s) =
       trc (run_prog e EMigrate c None [] None id true p
              (set_reg s (update c {| cd_code := id; cd_creator := cd_creator cd; cd_admin := cd_admin cd;
                                      cd_label := cd_label cd; cd_created := cd_created cd |} (reg s)))) /\
       is_ok (outc (run_msg e sender (MMigrate c id p) s)) =
       is_ok (outc (run_prog e EMigrate c None [] None id true p
              (set_reg s (update c {| cd_code := id; cd_creator := cd_creator cd; cd_admin := cd_admin cd;
                                      cd_label := cd_label cd; cd_created := cd_created cd |} (reg s)))))) /\
    (forall s node own, run_qact e s node own (QCodeInfo id) = [RObs node (VCodeInfo (Some (id, c_creator co, c_checksum co)))]) /\
    code_data (codes e) id = Some co /\
    (forall s c cd entry, lookup c (reg s) = Some cd -> cd_code cd = id ->
       serving e s c entry = if ep_available co entry then Some co else None).
Proof. exact (code_checks_accept e id). Qed.
Print Assumptions stored_code_usable.

(* ... and an id that is not in the table is refused by all of them *)
Theorem unknown_code_refused e id : ~ In id (ids (codes e)) ->
  (forall s creator admin label salt, register_contract e s id creator admin label salt = Err) /\
  (forall s c sender p, run_msg e sender (MMigrate c id p) s = ([], Err)) /\
  (forall s node own, run_qact e s node own (QCodeInfo id) = [RObs node (VCodeInfo None)]) /\
  code_data (codes e) id = None.
Proof. exact (code_checks_refuse e id). Qed.
Print Assumptions unknown_code_refused.

(* stable: every id that was in the table, and every id returned on the way, is in the table at the end of
   ANY history, non-zero (so stored_code_usable applies to it), with the code it had *)
Theorem stored_code_stays_usable re hs t s id : tinv t ->
  let rs := fst (run_hist re hs (t, s)) in
  let t' := fst (snd (run_hist re hs (t, s))) in
  In id (ids t) \/ In id (returned_ids rs) ->
  In id (ids t') /\ 0 < id /\ (forall c, find_code id t = Some c -> find_code id t' = Some c).
Proof. exact (hist_stored_usable re hs t s id). Qed.
Print Assumptions stored_code_stays_usable.

(* ---------- addresses ---------- *)

(* unconditional: it is the duplicate check, not the hash, that guarantees freshness.  Together: the recorded
   data are exactly what was supplied (cdata_recorded), every other entry is untouched, the count moves by one *)
Theorem fresh_address e s code_id creator admin label salt a s1 :
  register_contract e s code_id creator admin label salt = Ok (a, s1) ->
  lookup a (reg s) = None /\
  lookup a (reg s1) = Some {| cd_code := code_id; cd_creator := creator; cd_admin := admin; cd_label := label;
                              cd_created := b_height (blk e) |} /\
  (forall x, x <> a -> lookup x (reg s1) = lookup x (reg s)) /\
  length (reg s1) = S (length (reg s)) /\
  new_address e s code_id creator salt = Some a /\ In code_id (ids (codes e)) /\
  bank s1 = bank s /\ cstore s1 = cstore s /\ salt_ok salt = true.
Proof. exact (register_records e s code_id creator admin label salt a s1). Qed.
Print Assumptions fresh_address.

(* with a salt: the address is the book entry of (checksum, creator, salt): not the code id, not the number of
   contracts, not the state, label, admin, funds or block *)
Theorem salted_address_function e s code_id creator salt co :
  find_code code_id (codes e) = Some co ->
  new_address e s code_id creator (Some salt) = find_salted (c_checksum co) creator salt (salted_book e).
Proof. exact (salted_address_is e s code_id creator salt co). Qed.
Print Assumptions salted_address_function.

(* after a salted instantiation succeeded, EVERY later instantiation with the same checksum, creator and salt —
   same or another code id, any label / admin / funds / program, any state that follows (reg_ext), even under a
   later code table — is rejected before funds move or code runs; no state is handed on (C01/C02) *)
Theorem salted_repeat_rejected e sender code_id p funds label admin salt s r s' :
  outc (run_msg e sender (MInst code_id p funds label admin (Some salt)) s) = Ok (r, s') ->
  forall e' s'' code_id' co co' p' funds' label' admin',
    reg_ext s' s'' -> salted_book e' = salted_book e ->
    find_code code_id (codes e) = Some co -> find_code code_id' (codes e') = Some co' -> c_checksum co' = c_checksum co ->
    run_msg e' sender (MInst code_id' p' funds' label' admin' (Some salt)) s'' = ([], Err).
Proof. exact (Registry.salted_repeat_rejected e sender code_id p funds label admin salt s r s'). Qed.
Print Assumptions salted_repeat_rejected.

(* an Instantiate2 with an EMPTY salt or a salt longer than 64 bytes is refused (it never falls back to the classic,
   history-dependent address): registration fails for every creator, the message fails with an empty log (no funds
   moved, no code run), and as a top-level call it leaves the chain state as it was *)
Theorem salt_length_enforced e sender code_id p funds label admin salt s :
  salt_ok (Some salt) = false ->
  (forall creator, register_contract e s code_id creator admin label (Some salt) = Err) /\
  run_msg e sender (MInst code_id p funds label admin (Some salt)) s = ([], Err).
Proof. exact (bad_salt_rejected e sender code_id p funds label admin salt s). Qed.
Print Assumptions salt_length_enforced.

Theorem salt_length_enforced_top e sender code_id p funds label admin salt s :
  salt_ok (Some salt) = false ->
  run_top e (TExec sender (MInst code_id p funds label admin (Some salt))) s = ([], Err, s).
Proof. exact (bad_salt_rejected_top e sender code_id p funds label admin salt s). Qed.
Print Assumptions salt_length_enforced_top.

Theorem classic_counts_committed_only e d id payload ro m on_ok on_err s :
  outc (run_msg e d m s) = Err ->
  outc (run_sub e d (Sub id payload ro m on_ok on_err) s) =
    (if wants_err ro then outc (reply_run e d id payload RRErr on_err s) else Err) /\
  (forall code_id creator,
     new_address e s code_id creator None = find_classic (code_id, N.of_nat (length (reg s))) (classic_book e)) /\
  (forall code_id creator admin label salt a s1,
     register_contract e s code_id creator admin label salt = Ok (a, s1) -> length (reg s1) = S (length (reg s))).
Proof. exact (classic_counts_committed e d id payload ro m on_ok on_err s). Qed.
Print Assumptions classic_counts_committed_only.

(* a successful instantiate message: registered as supplied, and creator / label / height are still those when
   the whole message tree has run *)
Theorem cdata_recorded e sender code_id p funds label admin salt s r s' :
  outc (run_msg e sender (MInst code_id p funds label admin salt) s) = Ok (r, s') ->
  label <> [] /\
  exists a s1, register_contract e s code_id sender admin label salt = Ok (a, s1) /\ reg_ext s1 s' /\
    (exists cd', lookup a (reg s') = Some cd' /\ cd_creator cd' = sender /\ cd_label cd' = label /\
                 cd_created cd' = b_height (blk e)) /\
    exists d, snd r = Some (encode_inst_resp a d).
Proof. exact (inst_ok_spec e sender code_id p funds label admin salt s r s'). Qed.
Print Assumptions cdata_recorded.

Theorem label_required e sender code_id p funds admin salt s :
  run_msg e sender (MInst code_id p funds [] admin salt) s = ([], Err).
Proof. exact (label_is_required e sender code_id p funds admin salt s). Qed.
Print Assumptions label_required.

(* stable addresses: over ANY history no contract is ever removed, and creator, label and creation height of a
   contract never change; a contract without admin never gets one *)
Theorem contracts_persist re hs t s : tinv t -> reg_ext s (snd (snd (run_hist re hs (t, s)))).
Proof. exact (hist_contracts_persist re hs t s). Qed.
Print Assumptions contracts_persist.

(* ---------- the oracle of the correspondence check ---------- *)

(* every instantiate call of a message tree, AT ANY DEPTH, is at an address no contract had when the top-level
   call started (clause 16 of the oracle; the root-level clauses 10/11 compare with the independent derivation) *)
Theorem fresh_at_every_depth e op s : Forall (fresh_call s) (top_trace (run_top e op s)).
Proof. exact (top_calls_fresh e op s). Qed.
Print Assumptions fresh_at_every_depth.

(* the property oracle p_c11 (ChkReg.v) accepts the model's own output for ALL histories, tables, states and
   address / checksum books: "agrees with the model" implies "satisfies the property as the oracle states it".
   Premise: no instantiate HELPER among the top-level calls (their return value is parsed back out of the protobuf
   response; the oracle's clause about it is checked on the implementation only). *)
Theorem C11_model_ok rc hs : Forall no_helper_inst hs ->
  oracle_hist p_c11_step rc (model_steps (mk_renv rc) hs ([], empty_chain)) ost0 0 = None.
Proof. exact (c11_oracle_model_ok rc hs). Qed.
Print Assumptions C11_model_ok.

(* ---------- non-vacuity ---------- *)
Definition ex_re : renv := {| re_valid := [[97]; [98]; [100]; [101]]; re_classic := [((10, 0), [100]); ((10, 1), [101]); ((11, 1), [101])];
  re_salted := [(([7], [97], [1]), [101])]; re_dck := fun _ _ => [7] |}.
Definition ex_src : source := {| s_tag := 5; s_checksum := None; s_sudo := true; s_reply := true; s_migrate := true |}.
Definition ex_b : blockinfo := Build_blockinfo 3 4 [99].
Definition okp (n : N) : prog := Prog n [AWrite [109] [n]] (OResp [] [] None SNil).
(* the F2 witness: id 10 stored as the only code is instantiated; the automatic id after it is 11; the duplicate is 12;
   a salted repetition is refused; the migration to 11 succeeds *)
Definition ex_hist : list hop :=
  [HStoreWithId [97] 10 ex_src; HStore [98] ex_src; HDuplicate 10; HStoreWithId [97] 0 ex_src; HStoreWithId [97] 11 ex_src;
   HTop ex_b (TExec [97] (MInst 10 (okp 1) [] [76] (Some [97]) None));
   HTop ex_b (TExec [97] (MInst 11 (okp 2) [] [76] None (Some [1])));
   HTop ex_b (TExec [97] (MInst 12 (okp 3) [] [76] None (Some [1])));
   HTop ex_b (TExec [97] (MMigrate [100] 11 (okp 4)));
   HQueryCodeInfo 12; HQueryInfo [100]].
Example history_exists :
  let x := run_hist ex_re ex_hist ([], empty_chain) in
  returned_ids (fst x) = [10; 11; 12] /\
  map (fun r => match r with RTop _ (Ok _) => 1 | RTop _ _ => 2 | RId Err => 3 | _ => 0 end) (fst x) = [0; 0; 0; 3; 3; 1; 1; 2; 1; 0; 0] /\
  nth 9 (fst x) (RId Err) = RCodeInfo (Some (12, [97], [7])) /\
  nth 10 (fst x) (RId Err) = RInfo (Some (11, [97], Some [97])).
Proof. vm_compute. repeat split; reflexivity. Qed.
Example tinv_nil_holds : tinv []. Proof. exact tinv_nil. Qed.
Example failed_submsg_exists :
  let e := henv ex_re [(10, mk_code (fun _ _ => [7]) 10 [97] ex_src)] ex_b in
  outc (run_msg e [100] (MInst 10 (Prog 9 [] OFail) [] [76] None None) empty_chain) = Err.
Proof. vm_compute. reflexivity. Qed.
Example no_helper_history_exists : Forall no_helper_inst ex_hist /\ ex_hist <> [].
Proof. split; [repeat constructor|discriminate]. Qed.
Example bad_salts_exist : salt_ok (Some []) = false /\ salt_ok (Some (rep 7 65)) = false /\
  salt_ok (Some [1]) = true /\ salt_ok (Some (rep 7 64)) = true /\ salt_ok None = true.
Proof. vm_compute. repeat split; reflexivity. Qed.
Example empty_salt_refused :
  let e := henv ex_re [(10, mk_code (fun _ _ => [7]) 10 [97] ex_src)] ex_b in
  run_top e (TExec [97] (MInst 10 (okp 1) [] [76] None (Some []))) empty_chain = ([], Err, empty_chain) /\
  is_ok (top_outcome (run_top e (TExec [97] (MInst 10 (okp 1) [] [76] None None)) empty_chain)) = true.
Proof. vm_compute. split; reflexivity. Qed.
