(* Properties/C10.v — pinned statements for C10 (queries are pure and observe exactly the transaction's
   current state).  Model and lemmas: Exec.v (run_qact / run_qprog / run_qacts, run_actions), ExecIso.v,
   ExecQuery.v; check: ChkQ.v.

   PURITY is by construction in the model: [run_qact : env -> chain -> N -> omapb -> qact -> trace] returns
   NO state and the query language [qact] has no write action, exactly as a Rust query handler receives
   `&dyn Storage` / `Deps` (read-only by type, app.rs:683-708).  What is proved here is WHAT IS SEEN; that the
   implementation's queries really leave every byte of the root store alone is checked on every run
   (SHA-256 of the complete raw store around every query batch, oracle clause 5).

   PARTIAL (stated, not hidden): "chain state" here is the root store.  Hidden NON-STORAGE state mutated by a
   query handler (a recording custom module or a contract logging out of band — the harness's own scripted
   contracts do exactly that by design; interior mutability inside a user-supplied module) is outside
   "chain state" and outside the model.  Staking and custom queries are not modelled at this level: for them
   only "storage unchanged" and "same answer twice / after a failed call" are checked, on the implementation. *)
From Verif Require Import Base OMap Text Proto Bank Exec ExecFacts ExecFacts2 ExecIso ExecQuery ChkExec ChkX ChkIso ChkQ.

(* ---------- a query is a function of the state and the block ---------- *)

(* same code table, block and valid addresses; same bank, registry and contract stores  =>  same answer and
   same log, for every query kind and every nesting of smart queries.  The answer depends on nothing else:
   not on the address books, not on earlier queries, not on the representation of the state *)
Theorem query_function e1 e2 s1 s2 :
  (codes e1 = codes e2 /\ blk e1 = blk e2 /\ valid_addrs e1 = valid_addrs e2) ->
  (bank s1 = bank s2 /\ reg s1 = reg s2 /\ forall c, cstore_get s1 c = cstore_get s2 c) ->
  (forall q node own, run_qact e1 s1 node own q = run_qact e2 s2 node own q) /\
  (forall q c tag, run_qprog e1 s1 c tag q = run_qprog e2 s2 c tag q) /\
  (forall l node own, run_qacts e1 s1 node own l = run_qacts e2 s2 node own l).
Proof. exact (query_function_l e1 e2 s1 s2). Qed.
Print Assumptions query_function.

(* a body consisting of queries only writes nothing *)
Theorem query_only_body_pure e s node acts own :
  forallb is_query acts = true -> snd (run_actions e s node own acts) = own.
Proof. exact (ExecQuery.query_only_body_pure e s node acts own). Qed.
Print Assumptions query_only_body_pure.

(* ---------- mid_tx_view: what a query issued inside a call sees ---------- *)

(* (1) EVERY call (execute, instantiate, reply, sudo, migrate) at EVERY depth: after the header, the body's
   log is [body_trace e s node (cstore_get s c) acts] where s is the state the call was entered with.  By
   the definition of body_trace (ExecIso.v): a get / range over the callee's own storage sees its store at
   entry PLUS its own pending writes; every other query (bank, raw — also a raw query on ITSELF —, smart,
   contract-info, code-info) is evaluated against s and an EMPTY own store, i.e. it sees the enclosing
   state at call entry and NOT the caller's pending writes (with_storage, wasm.rs:1212-1223: the querier is
   built over read_store, the contract's writes sit in the write cache) *)
Theorem body_queries_see_entry_state e entry c sender funds rep cid rok node acts out s co :
  serving e s c entry = Some co ->
  exists rest, trc (run_prog e entry c sender funds rep cid rok (Prog node acts out) s) =
               RCall node entry c sender funds (blk e) (c_tag co) rep :: body_trace e s node (cstore_get s c) acts ++ rest.
Proof. exact (call_body_view e entry c sender funds rep cid rok node acts out s co). Qed.
Print Assumptions body_queries_see_entry_state.

Theorem body_trace_is_the_log e s node acts own :
  fst (run_actions e s node own acts) = body_trace e s node own acts.
Proof. exact (run_actions_body_trace e s node acts own). Qed.
Print Assumptions body_trace_is_the_log.

(* (2) execute: the state at entry already contains the attached funds *)
Theorem exec_queries_see_funds e sender c node acts out funds s s1 co :
  is_valid e c = true -> move_funds s sender c funds = Ok s1 -> serving e s1 c EExec = Some co ->
  exists rest, trc (run_msg e sender (MExec c (Prog node acts out) funds) s) =
               RCall node EExec c (Some sender) funds (blk e) (c_tag co) None
               :: body_trace e s1 node (cstore_get s1 c) acts ++ rest.
Proof. exact (ExecQuery.exec_queries_see_funds e sender c node acts out funds s s1 co). Qed.
Print Assumptions exec_queries_see_funds.

(* ... concretely: asked first for its own balance, the callee is told the balance after the transfer *)
Theorem funds_visible_to_callee e sender c node acts out f fr d s en tm :
  first_query acts = Some (QBalance c d) ->
  trc (run_msg e sender (MExec c (Prog node acts out) (f :: fr)) s) = en :: tm ->
  exists b' rest, bank_send (bank s) sender c (f :: fr) = Ok b' /\
                  tm = RObs node (VAmount (Some (bank_balance b' c d))) :: rest.
Proof. exact (exec_sees_funds e sender c node acts out f fr d s en tm). Qed.
Print Assumptions funds_visible_to_callee.

(* (3) a call's sub-messages start from the state in which the caller's own writes ARE flushed *)
Theorem subs_see_callers_writes e entry c sender funds rep cid rok node acts attrs events data sbs s ev d s' :
  outc (run_prog e entry c sender funds rep cid rok (Prog node acts (OResp attrs events data sbs)) s) = Ok ((ev, d), s') ->
  verify_response attrs events = None /\
  exists ev_s, ev = base_events c (ep_event entry c cid rok) attrs events ++ ev_s /\
               subs_ok_spec e c sbs data (cstore_set s c (snd (run_actions e s node (cstore_get s c) acts))) ev_s d s'.
Proof. exact (run_prog_ok_shape e entry c sender funds rep cid rok node acts attrs events data sbs s ev d s'). Qed.
Print Assumptions subs_see_callers_writes.

(* (4) siblings: a later sub-message starts from exactly the state the earlier one left *)
Theorem later_sibling_sees_earlier e c sb r data s :
  process_subs e c (SCons sb r) data s =
  let (tr1, r1) := run_sub e c sb s in
  match r1 with
  | Ok ((ev1, d1), s1) =>
      let (tr2, r2) := process_subs e c r (or_data d1 data) s1 in
      (tr1 ++ tr2, match r2 with Ok ((ev2, d2), s2) => Ok ((ev1 ++ ev2, d2), s2) | Err => Err | Panic => Panic end)
  | Err => (tr1, Err) | Panic => (tr1, Panic)
  end.
Proof. exact (process_subs_cons e c sb r data s). Qed.
Print Assumptions later_sibling_sees_earlier.

(* (5) no effect of a rolled-back node: after a failed sub-message the reply — and through the state it
   returns every later node — runs from s ITSELF *)
Theorem failed_sub_invisible e c id payload ro m on_ok on_err s :
  outc (run_msg e c m s) = Err ->
  run_sub e c (Sub id payload ro m on_ok on_err) s =
  if wants_err ro
  then (trc (run_msg e c m s) ++ trc (reply_run e c id payload RRErr on_err s), outc (reply_run e c id payload RRErr on_err s))
  else (trc (run_msg e c m s), Err).
Proof. exact (failed_sub_view e c id payload ro m on_ok on_err s). Qed.
Print Assumptions failed_sub_invisible.

(* ... so whatever the failed node was or did, everything after it logs and returns the same *)
Theorem failed_sub_same_view e c id payload ro m m' on_ok on_err s :
  outc (run_msg e c m s) = Err -> outc (run_msg e c m' s) = Err ->
  outc (run_sub e c (Sub id payload ro m on_ok on_err) s) = outc (run_sub e c (Sub id payload ro m' on_ok on_err) s) /\
  exists tail, trc (run_sub e c (Sub id payload ro m on_ok on_err) s) = trc (run_msg e c m s) ++ tail /\
               trc (run_sub e c (Sub id payload ro m' on_ok on_err) s) = trc (run_msg e c m' s) ++ tail.
Proof. exact (ExecQuery.failed_sub_same_view e c id payload ro m m' on_ok on_err s). Qed.
Print Assumptions failed_sub_same_view.

(* ---------- app_query_committed: a query through App sees exactly the committed state ---------- *)

(* nothing of a failed transaction *)
Theorem app_query_after_failure e op s l :
  is_ok (outc (inner e op s)) = false -> app_queries e (top_state (run_top e op s)) l = app_queries e s l.
Proof. exact (ExecQuery.app_query_after_failure e op s l). Qed.
Print Assumptions app_query_after_failure.

(* everything of a successful one *)
Theorem app_query_after_success e op s rs s' l :
  match op with THelperInst _ _ | THelperExec _ _ => False | _ => True end ->
  outc (inner e op s) = Ok (rs, s') -> app_queries e (top_state (run_top e op s)) l = app_queries e s' l.
Proof. exact (ExecQuery.app_query_after_success e op s rs s' l). Qed.
Print Assumptions app_query_after_success.

(* ---------- what the correspondence check relies on ---------- *)

(* the property oracle accepts the model's own run, for ALL environments, query batches and histories *)
Theorem C10_model_ok ce batch inputs : oracle_q None (model_qrun ce batch inputs empty_chain) 0 = None.
Proof. exact (oracle_q_model ce batch inputs empty_chain None 0 eq_refl). Qed.
Print Assumptions C10_model_ok.

Theorem C10_agree_sound ce batch steps : c10 ce batch steps = Agree ->
  oracle_q None steps 0 = None /\ corrq ce batch steps empty_chain 0 = None.
Proof. exact (c10_agree_sound ce batch steps). Qed.
Print Assumptions C10_agree_sound.

(* ---------- the further oracle clauses 9-12 (effects completed earlier in the same transaction are seen) ----------
   The check evaluates them after clauses 5-8 (ChkQ.oracle_qx); an Agree verdict implies they hold of the
   implementation's observations: *)
Theorem C10_agree_sound_x ce batch steps : c10 ce batch steps = Agree -> oracle_qx None steps 0 = None.
Proof. exact (c10_agree_sound_x ce batch steps). Qed.
Print Assumptions C10_agree_sound_x.

(* clauses 13 and 14 (ChkQ.p_c10y; model-independent; outside C10_model_ok):
   13: within one body / one App-level batch all foreign queries see one state, so a smart query to c is served by
       the code (log entry RQuery .. tag) that ContractInfo names for c, and no handler runs for an address
       ContractInfo does not know — in particular after a failed call and after a caught failure (the code of a
       rolled-back migration / instantiation must not answer);
   14: Supply / Balance answers of the App-level batch equal the ledger decoded from the raw store after the call
       (Bank.bank_supply / bank_balance, C09), a Supply answer in the root body of the next call equals the ledger
       before it — state kept OUTSIDE storage must not survive a rollback.
   An Agree verdict implies they held of the implementation's observations: *)
Theorem C10_agree_sound_y ce batch steps : c10 ce batch steps = Agree -> oracle_qy ce batch None steps 0 = None.
Proof. exact (c10_agree_sound_y ce batch steps). Qed.
Print Assumptions C10_agree_sound_y.

(* C10_model_ok above covers clauses 5-8.  Of the further clauses, these two are proved of the model for ALL
   inputs.  Clause 10 (the same walk for every program of the tree, found in the log by its node number),
   clause 11 (a later node's raw / smart query on c sees what the last completed body of c left: parent body ->
   its first sub-message, adjacent root messages of one execute_multi) and clause 12 (clause 7 for instantiate)
   identify runs by node number / rely on the new address being a valid one, so they are claimed for the
   harness's inputs (unique node numbers, bech32 addresses) and are NOT part of C10_model_ok; what they say of
   the model is exactly body_queries_see_entry_state + subs_see_callers_writes + later_sibling_sees_earlier. *)

(* clause 9: what the root body of a top-level call reads from its own storage is its window before the call
   plus its own writes *)
Theorem root_reads_seen e op s : root_reads_ok s op (top_trace (run_top e op s)) = true.
Proof. exact (root_reads_model e op s). Qed.
Print Assumptions root_reads_seen.

(* the core of clause 10, read-your-writes, follows from run_actions: for EVERY script, every own store and
   every knowledge [known] consistent with it, the walk accepts the model's log of the body — after AWrite k v a
   get of k gives Some v, after ARemove k it gives None, whatever lies below the write cache *)
Theorem read_your_writes e s node acts known own rest :
  sorted bcmp own -> (forall k x, kget k known = Some x -> assoc bcmp k own = x) ->
  ryw node known acts (fst (run_actions e s node own acts) ++ rest) = true.
Proof. exact (ryw_model e s node acts known own rest). Qed.
Print Assumptions read_your_writes.

(* ---------- non-vacuity ---------- *)
Local Open Scope N_scope.
Definition ex_env : env := {| codes := [(1, Build_code 101 [99] [] true true true)]; blk := Build_blockinfo 1 2 [99];
  valid_addrs := [[97]; [98]; [99]]; classic_book := []; salted_book := [] |}.
Definition ex_state : chain :=
  {| bank := [([97], [([117], 50)]); ([98], [([117], 5)])];
     reg := [([98], Build_cdata 1 [97] None [76] 1); ([99], Build_cdata 1 [97] None [76] 1)];
     cstore := [([98], [([1], [1])])] |}.

(* the callee is sent 7u: it sees 12u at once; its pending write [2]->[2] is seen by its own read, NOT by a raw
   query on itself nor by a smart query to itself; the failed child's write to c is seen by nobody afterwards;
   the bank send that completed earlier in the same transaction IS seen *)
Definition ex_msg : msg :=
  MExec [98] (Prog 1 [AQ (QBalance [98] [117]); AWrite [2] [2]; AQ (QRead [2]); AQ (QRaw [98] [2]);
                      AQ (QSmart [98] (QProg 9 (QACons (QRead [2]) QANil) (Some [0])))]
                (OResp [] [] None
                   (SCons (Sub 1 [] RNever (MBankSend [97] [([117], 2)]) (Prog 2 [] OFail) (Prog 3 [] OFail))
                   (SCons (Sub 2 [] RError (MExec [99] (Prog 4 [AWrite [7] [7]] OFail) [])
                               (Prog 5 [] OFail)
                               (Prog 6 [AQ (QRaw [99] [7]); AQ (QRaw [98] [2]); AQ (QBalance [98] [117]); AQ (QBalance [97] [117])] (OResp [] [] None SNil)))
                    SNil)))) [([117], 7)].
Example mid_tx_example :
  trc (run_msg ex_env [97] ex_msg ex_state) =
  [RCall 1 EExec [98] (Some [97]) [([117], 7)] (blk ex_env) 101 None;
   RObs 1 (VAmount (Some 12)); RObs 1 (VBytes (Some [2])); RObs 1 (VRaw (Some []));
   RQuery 9 [98] (blk ex_env) 101; RObs 9 (VBytes None); RObs 1 (VSmart (Some [0]));
   RCall 4 EExec [99] (Some [98]) [] (blk ex_env) 101 None;
   RCall 6 EReply [98] None [] (blk ex_env) 101 (Some (2, [], RRErr));
   RObs 6 (VRaw (Some [])); RObs 6 (VRaw (Some [2])); RObs 6 (VAmount (Some 10)); RObs 6 (VAmount (Some 45))] /\
  is_ok (outc (run_msg ex_env [97] ex_msg ex_state)) = true.
Proof. vm_compute. auto. Qed.

(* hypotheses of the theorems above are met by this run *)
Example hypotheses_met :
  is_valid ex_env [98] = true /\
  (exists s1 co, move_funds ex_state [97] [98] [([117], 7)] = Ok s1 /\ serving ex_env s1 [98] EExec = Some co) /\
  first_query [AWrite [3] [3]; AQ (QBalance [98] [117])] = Some (QBalance [98] [117]) /\
  outc (run_msg ex_env [98] (MExec [99] (Prog 4 [AWrite [7] [7]] OFail) []) ex_state) = Err /\
  outc (run_msg ex_env [98] (MCustom false 1) ex_state) = Err /\
  forallb is_query [AQ QDump; AQ (QSupply [117])] = true /\
  is_ok (outc (inner ex_env (TExec [97] (MCustom false 1)) ex_state)) = false /\
  (exists rs s', outc (inner ex_env (TExec [97] ex_msg) ex_state) = Ok (rs, s') /\ s' <> ex_state).
Proof.
  split; [reflexivity|]. split; [eexists; eexists; vm_compute; split; reflexivity|].
  repeat (split; [reflexivity|]). eexists. eexists. split; [vm_compute; reflexivity|]. discriminate.
Qed.

(* two states that differ in representation only (an empty entry) answer every query alike: the hypothesis of
   query_function is weaker than equality *)
Example query_function_hypotheses_met :
  let s2 := {| bank := bank ex_state; reg := reg ex_state; cstore := [([98], [([1], [1])]); ([99], [])] |} in
  s2 <> ex_state /\ (forall c, cstore_get ex_state c = cstore_get s2 c).
Proof.
  cbn zeta. split; [discriminate|]. intros c. unfold cstore_get, lookup, ex_state. cbn [cstore assoc].
  destruct (bcmp c [98]); try reflexivity; destruct (bcmp c [99]); reflexivity.
Qed.

(* the check on the model's own run, and on forged observations: a batch that changed the store, a second
   round with a different answer, a callee told its balance WITHOUT the funds, answers that moved after a
   failed call — each is a property failure *)
Definition ex_ce : case_env := {| ce_codes := codes ex_env; ce_valid := valid_addrs ex_env; ce_classic := []; ce_salted := [] |}.
Definition ex_batch : qacts := QACons (QBalance [98] [117]) (QACons (QSmart [98] (QProg 8 (QACons QDump QANil) (Some [1]))) QANil).
Definition with_tr1 (x : qstep) (t : trace) : qstep :=
  {| q_step := q_step x; q_tr1 := t; q_tr2 := q_tr2 x; q_same1 := q_same1 x; q_same2 := q_same2 x; q_ext1 := q_ext1 x; q_ext2 := q_ext2 x |}.
Example check_runs :
  let x0 := model_qstep ex_ce ex_batch (blk ex_env) (TMint [98] [([117], 5)]) empty_chain in
  let x1 := model_qstep ex_ce ex_batch (blk ex_env) (TExec [97] (MCustom false 1)) (st_state (q_step x0)) in
  q_tr1 x0 = [RObs 0 (VAmount (Some 5)); RObs 0 (VSmart None)] /\
  p_c10 None x0 = None /\ p_c10 (Some x0) x1 = None /\
  p_c10 None {| q_step := q_step x0; q_tr1 := q_tr1 x0; q_tr2 := q_tr2 x0; q_same1 := false; q_same2 := true; q_ext1 := []; q_ext2 := [] |} = Some 5 /\
  p_c10 None (with_tr1 x0 [RObs 0 (VAmount (Some 6)); RObs 0 (VSmart None)]) = Some 6 /\
  p_c10 (Some x0) (with_tr1 (with_tr1 x1 []) []) = Some 6 /\
  p_c10 (Some x0) {| q_step := q_step x1; q_tr1 := []; q_tr2 := []; q_same1 := true; q_same2 := true; q_ext1 := []; q_ext2 := [] |} = Some 8.
Proof. vm_compute. auto 10. Qed.

Example funds_oracle_runs :
  let m := MExec [98] (Prog 1 [AQ (QBalance [98] [117])] (OResp [] [] None SNil)) [([117], 7)] in
  let x := model_qstep ex_ce QANil (blk ex_env) (TExec [97] m) ex_state in
  let prev := {| q_step := {| st_blk := blk ex_env; st_op := TMint [97] []; st_trace := []; st_outcome := Err; st_state := ex_state;
                              st_other := 0; st_raw_same := true |};
                 q_tr1 := []; q_tr2 := []; q_same1 := true; q_same2 := true; q_ext1 := []; q_ext2 := [] |} in
  st_trace (q_step x) = [RCall 1 EExec [98] (Some [97]) [([117], 7)] (blk ex_env) 101 None; RObs 1 (VAmount (Some 12))] /\
  p_c10 (Some prev) x = None /\
  (* the callee told the balance without the funds just sent: clause 7 *)
  p_c10 (Some prev)
    {| q_step := {| st_blk := blk ex_env; st_op := TExec [97] m;
                    st_trace := [RCall 1 EExec [98] (Some [97]) [([117], 7)] (blk ex_env) 101 None; RObs 1 (VAmount (Some 5))];
                    st_outcome := st_outcome (q_step x); st_state := st_state (q_step x); st_other := 0; st_raw_same := false |};
       q_tr1 := []; q_tr2 := []; q_same1 := true; q_same2 := true; q_ext1 := []; q_ext2 := [] |} = Some 7.
Proof. vm_compute. auto. Qed.

(* the further clauses on a forged log: contract b has [1]->[1] committed; its body overwrites and removes the key and
   is told the OLD value by its own read (clauses 9 and 10); a sub-message's raw query on the parent is told the old
   value (clause 11); read_your_writes' hypotheses are met by the empty knowledge *)
Example further_clauses_run :
  let body := Prog 1 [AWrite [1] [5]; ARemove [1]; AQ (QRead [1])] in
  let hdr n c := RCall n EExec c (Some [97]) [] (blk ex_env) 101 None in
  let mk op tr := {| q_step := {| st_blk := blk ex_env; st_op := op; st_trace := tr; st_outcome := Ok [([], None)]; st_state := ex_state;
                                  st_other := 0; st_raw_same := false |};
                     q_tr1 := []; q_tr2 := []; q_same1 := true; q_same2 := true; q_ext1 := []; q_ext2 := [] |} in
  let prev := mk (TMint [97] []) [] in
  let op1 := TExec [97] (MExec [98] (body (OResp [] [] None SNil)) []) in
  let sub := Sub 1 [] RNever (MExec [99] (Prog 2 [AQ (QRaw [98] [1])] (OResp [] [] None SNil)) []) (Prog 3 [] OFail) (Prog 4 [] OFail) in
  let op2 := TExec [97] (MExec [98] (Prog 1 [AWrite [1] [5]; ARemove [1]] (OResp [] [] None (SCons sub SNil))) []) in
  p_c10x (Some prev) (mk op1 [hdr 1 [98]; RObs 1 (VBytes None)]) = None /\
  p_c10x (Some prev) (mk op1 [hdr 1 [98]; RObs 1 (VBytes (Some [1]))]) = Some 9 /\
  ryw_all (flat_op op1) [hdr 1 [98]; RObs 1 (VBytes (Some [1]))] = false /\
  p_c10x (Some prev) (mk op2 [hdr 1 [98]; RCall 2 EExec [99] (Some [98]) [] (blk ex_env) 101 None; RObs 2 (VRaw (Some []))]) = None /\
  p_c10x (Some prev) (mk op2 [hdr 1 [98]; RCall 2 EExec [99] (Some [98]) [] (blk ex_env) 101 None; RObs 2 (VRaw (Some [1]))]) = Some 11 /\
  sorted bcmp (cstore_get ex_state [98]) /\ (forall k x, kget k [] = Some x -> assoc bcmp k (cstore_get ex_state [98]) = x).
Proof.
  cbn zeta. repeat (split; [vm_compute; reflexivity|]). split; [repeat constructor|]. intros k x H. discriminate.
Qed.

(* clauses 13 / 14 on forged App-level batches: contract b is registered with code 1 (tag 101) but a handler with tag
   107 answers; contract-info does not know d but a handler answers for it; the supply answer differs from the
   ledger in the raw store *)
Example rollback_clauses_run :
  let batch := QACons (QInfo [98]) (QACons (QSmart [98] (QProg 8 QANil (Some [1]))) (QACons (QSupply [117]) QANil)) in
  let mk tr := {| q_step := {| st_blk := blk ex_env; st_op := TMint [97] []; st_trace := []; st_outcome := Err; st_state := ex_state;
                               st_other := 0; st_raw_same := true |};
                  q_tr1 := tr; q_tr2 := tr; q_same1 := true; q_same2 := true; q_ext1 := []; q_ext2 := [] |} in
  let info := RObs 0 (VInfo (Some (1, [97], None))) in
  p_c10y ex_ce batch None (mk (app_queries ex_env ex_state batch)) = None /\
  p_c10y ex_ce batch None (mk [info; RQuery 8 [98] (blk ex_env) 107; RObs 0 (VSmart (Some [1])); RObs 0 (VAmount (Some 55))]) = Some 13 /\
  p_c10y ex_ce batch None (mk [RObs 0 (VInfo None); RQuery 8 [98] (blk ex_env) 101; RObs 0 (VSmart (Some [1])); RObs 0 (VAmount (Some 55))]) = Some 13 /\
  p_c10y ex_ce batch None (mk [info; RQuery 8 [98] (blk ex_env) 101; RObs 0 (VSmart (Some [1])); RObs 0 (VAmount (Some 48))]) = Some 14.
Proof. vm_compute. auto. Qed.
