(* Properties/C03.v — pinned statements for C03 (reply invoked exactly when, and with exactly what, the sub-message dictates). *)
From Verif Require Import Base OMap Text Proto Bank Exec ExecFacts ExecFacts2 ChkExec ChkX ExecOracle ExecOracleS ExecOracleH.

(* log of one sub-message = its own log, followed by the log of the reply entry point EXACTLY when
   (it succeeded and the mode is Success/Always) or (it failed and the mode is Error/Always); nothing is
   logged in between and the next sibling starts only afterwards (reply_position) *)
Theorem reply_iff e c id payload ro m on_ok on_err s :
  trc (run_sub e c (Sub id payload ro m on_ok on_err) s) =
  trc (run_msg e c m s) ++
  match outc (run_msg e c m s) with
  | Ok ((ev, d), s1) => if wants_ok ro then trc (reply_run e c id payload (RROk ev d) on_ok s1) else []
  | Err => if wants_err ro then trc (reply_run e c id payload RRErr on_err s) else []
  | Panic => []
  end.
Proof. exact (run_sub_trace e c id payload ro m on_ok on_err s). Qed.
Print Assumptions reply_iff.

(* the reply run is ONE invocation of the reply entry point: on the dispatching contract c, with id and payload
   unchanged and the result handed in — Ok with exactly the events and data the sub-message produced, or Err —
   (or it fails before the contract runs when c has no reply entry point) *)
Theorem reply_content e c id payload res p s :
  match can_reply e c s with
  | Some tag => exists rest, trc (reply_run e c id payload res p s) = reply_header e c id payload res p tag :: rest
  | None => reply_run e c id payload res p s = ([], Err)
  end.
Proof. exact (reply_trace_head e c id payload res p s). Qed.
Print Assumptions reply_content.

(* depth first, in listed order: the log of a list of sub-messages is the concatenation of the members'
   logs, up to and including the first member that makes the parent fail *)
Theorem dfs_order e c sb r data s :
  trc (process_subs e c (SCons sb r) data s) =
  trc (run_sub e c sb s) ++
  match outc (run_sub e c sb s) with
  | Ok ((ev1, d1), s1) => trc (process_subs e c r (or_data d1 data) s1)
  | _ => []
  end.
Proof. exact (process_subs_trace e c sb r data s). Qed.
Print Assumptions dfs_order.

(* every call logs its header first: position of a call entry = position of the call *)
Theorem call_logged_first e entry c sender funds rep cid rok p s :
  match serving e s c entry with
  | Some co => exists rest, trc (run_prog e entry c sender funds rep cid rok p s) =
                            RCall (node_of p) entry c sender funds (blk e) (c_tag co) rep :: rest
  | None => run_prog e entry c sender funds rep cid rok p s = ([], Err)
  end.
Proof. exact (run_prog_head e entry c sender funds rep cid rok p s). Qed.
Print Assumptions call_logged_first.

(* ---------- non-vacuity ---------- *)
Local Open Scope N_scope.
Definition ex_env : env := {| codes := [(1, Build_code 101 [99] [] true true true)]; blk := Build_blockinfo 1 2 [99];
  valid_addrs := [[97]; [98]]; classic_book := [((1, 0), [98])]; salted_book := [] |}.
Definition ok0 := OResp [] [] None SNil.
Example reply_trace_example :
  let m := MExec [98] (Prog 3 [] (OResp [] [] None
              (SCons (Sub 5 [9] RAlways (MCustom true 1) (Prog 6 [] ok0) (Prog 7 [] ok0))
              (SCons (Sub 5 [] RAlways (MCustom false 2) (Prog 8 [] ok0) (Prog 9 [] ok0)) SNil)))) [] in
  match run_msgs ex_env [97] [MInst 1 (Prog 1 [] ok0) [] [76] None None; m] empty_chain with
  | (tr, Ok _) => map (fun en => match en with RCall n _ _ _ _ _ _ _ => n | RMod _ t => 100 + t | _ => 0 end) tr = [1; 3; 101; 6; 102; 9]
  | _ => False
  end.
Proof. vm_compute. reflexivity. Qed.

(* ---------- what the correspondence check relies on ---------- *)
(* The run-time oracle p_c03 (ChkX.v, clauses 5-9: the programs called are a duplicate-free subsequence of the pre-order of the tree; every reply
   entry has the id, payload, result kind, mode, contract and dispatcher the tree prescribes; of the two reply handlers of a
   sub-message at most one is entered; a reply that is due for a leaf execute was entered — judged when the call contains no migration) accepts the model's own run of EVERY well-formed scenario, in every case
   environment: an implementation that behaves exactly like the model is never flagged, and "agrees with the model"
   implies "satisfies the oracle's reading of C03".
   Premise [wf_scenario] (ExecOracle.v) is what the generator guarantees (harness/exec_common/src/gen.rs): in every
   program of every call — sub-messages and reply handlers at every depth — the first action writes the marker
   "m<node>" and no other action writes or removes the marker of any node; the markers of all the nodes of the
   scenario are pairwise different.  [model_steps] builds the step records from the model's own run (only the block and
   the call of each input step are used). *)
Theorem C03_model_ok ce steps : wf_scenario steps -> c03 ce (model_steps ce steps empty_chain) = Agree.
Proof. exact (c03_model_ok ce steps). Qed.
Print Assumptions C03_model_ok.

Example C03_model_ok_applies : wf_scenario ex_scenario /\ c03 ex_ce (model_steps ex_ce ex_scenario empty_chain) = Agree.
Proof. exact (conj ex_scenario_wf (C03_model_ok ex_ce ex_scenario ex_scenario_wf)). Qed.

(* conversely, an Agree verdict of the check means: the oracle accepted every step of what the IMPLEMENTATION did, and
   trace, outcome and state agreed with the model at every step *)
Theorem C03_agree_sound ce steps : c03 ce steps = Agree ->
  oracle_steps (p_c03 ce) steps 0 = None /\ corr ce steps empty_chain 0 = None.
Proof. exact (check_with_agree_sound (p_c03 ce) ce steps). Qed.
Print Assumptions C03_agree_sound.
