(* Properties/C02.v — pinned statements for C02 (a failed sub-message leaves no trace; caught only if reply_on says so). *)
From Verif Require Import Base OMap Text Proto Bank Exec ExecFacts ExecFacts2 ChkExec ChkX ExecOracle ExecOracleS ExecOracleH.

(* Complete characterisation of the handling of one sub-message, for every tree, state and mode.  In the
   failure branch the reply handler (and with it everything that runs later) starts from [s] ITSELF — the
   state in which the sub-message was dispatched, which already holds the dispatching contract's own writes
   and the effects of the previously completed siblings: every change made by the sub-message and by
   everything it triggered, to any depth, is discarded. *)
Theorem submsg_spec e c id payload ro m on_ok on_err s :
  run_sub e c (Sub id payload ro m on_ok on_err) s =
  let (tr, r) := run_msg e c m s in
  match r with
  | Ok ((ev, d), s1) =>
      if wants_ok ro then
        let (tr2, r2) := reply_run e c id payload (RROk ev d) on_ok s1 in
        (tr ++ tr2, match r2 with Ok ((ev2, d2), s2) => Ok ((ev ++ ev2, d2), s2) | Err => Err | Panic => Panic end)
      else (tr, Ok ((ev, None), s1))
  | Err =>
      if wants_err ro then
        let (tr2, r2) := reply_run e c id payload RRErr on_err s in (tr ++ tr2, r2)
      else (tr, Err)
  | Panic => (tr, Panic)
  end.
Proof. exact (run_sub_spec e c id payload ro m on_ok on_err s). Qed.
Print Assumptions submsg_spec.

(* the parent continues past a sub-message exactly when: it succeeded and (no reply is due or the reply
   succeeds), or it failed, the mode is Error/Always and the reply handler succeeds; otherwise the
   failure propagates *)
Theorem submsg_caught_iff e c id payload ro m on_ok on_err s :
  is_ok (outc (run_sub e c (Sub id payload ro m on_ok on_err) s)) = true <->
  match outc (run_msg e c m s) with
  | Ok ((ev, d), s1) => wants_ok ro = false \/ is_ok (outc (reply_run e c id payload (RROk ev d) on_ok s1)) = true
  | Err => wants_err ro = true /\ is_ok (outc (reply_run e c id payload RRErr on_err s)) = true
  | Panic => False
  end.
Proof. exact (sub_continues_iff e c id payload ro m on_ok on_err s). Qed.
Print Assumptions submsg_caught_iff.

(* erasure: the outcome AND the state handed on do not depend on what a failed sub-message was or did:
   any two sub-messages that fail from s are interchangeable *)
Theorem erase_failed_submsg e c id payload ro m m' on_ok on_err s :
  outc (run_msg e c m s) = Err -> outc (run_msg e c m' s) = Err ->
  outc (run_sub e c (Sub id payload ro m on_ok on_err) s) = outc (run_sub e c (Sub id payload ro m' on_ok on_err) s).
Proof. exact (failed_sub_erased e c id payload ro m m' on_ok on_err s). Qed.
Print Assumptions erase_failed_submsg.

(* the rest of the transaction sees a sub-message only through its outcome (response and state) *)
Theorem submsg_congruence e c id payload ro m m' on_ok on_err s :
  outc (run_msg e c m s) = outc (run_msg e c m' s) ->
  outc (run_sub e c (Sub id payload ro m on_ok on_err) s) = outc (run_sub e c (Sub id payload ro m' on_ok on_err) s).
Proof. exact (run_sub_cong e c id payload ro m m' on_ok on_err s). Qed.
Print Assumptions submsg_congruence.

(* siblings: listed order; each starts from the state its predecessors left (a successful sub-message's
   changes are visible to everything after it); the first uncaught failure stops the list *)
Theorem siblings_fold e c sb r data s :
  process_subs e c (SCons sb r) data s =
  let (tr1, r1) := run_sub e c sb s in
  match r1 with
  | Ok ((ev1, d1), s1) =>
      let (tr2, r2) := process_subs e c r (or_data d1 data) s1 in
      (tr1 ++ tr2, match r2 with Ok ((ev2, d2), s2) => Ok ((ev1 ++ ev2, d2), s2) | Err => Err | Panic => Panic end)
  | Err => (tr1, Err) | Panic => (tr1, Panic)
  end.
Proof. exact (process_subs_cons e c sb r data s). Qed.
Print Assumptions siblings_fold.

(* a contract body that fails hands on no state at all *)
Theorem body_failure_discards e entry c sender funds rep cid rok node acts s :
  outc (run_prog e entry c sender funds rep cid rok (Prog node acts OFail) s) = Err.
Proof. exact (body_failure_fails e entry c sender funds rep cid rok node acts s). Qed.
Print Assumptions body_failure_discards.

(* ---------- non-vacuity: a caught failure whose writes vanish while the parent's stay ---------- *)
Local Open Scope N_scope.
Definition ex_env : env := {| codes := [(1, Build_code 101 [99] [] true true true)]; blk := Build_blockinfo 1 2 [99];
  valid_addrs := [[97]; [98]; [100]]; classic_book := [((1, 0), [98]); ((1, 1), [100])]; salted_book := [] |}.
Definition W (n : N) (o : output) : prog := Prog n [AWrite [109; n] [1]] o.
Definition ok0 := OResp [] [] None SNil.
Example caught_failure_exists :
  let setup := [MInst 1 (W 1 ok0) [] [76] None None; MInst 1 (W 2 ok0) [] [76] None None] in
  let inner_fail := MExec [100] (W 4 OFail) [] in
  let m := MExec [98] (W 3 (OResp [] [] None (SCons (Sub 5 [9] RError inner_fail (W 6 ok0) (W 7 ok0)) SNil))) [] in
  match run_msgs ex_env [97] (setup ++ [m]) empty_chain with
  | (_, Ok (_, s')) => cstore_get s' [98] = [([109; 1], [1]); ([109; 3], [1]); ([109; 7], [1])] /\ cstore_get s' [100] = [([109; 2], [1])]
  | _ => False
  end.
Proof. vm_compute. split; reflexivity. Qed.

(* ---------- what the correspondence check relies on ---------- *)
(* The run-time oracle p_c02 (ChkX.v, clauses 5-7: whatever ran inside a sub-message answered with an Err reply, whatever
   a failed top-level call ran, and every program that failed by itself has left no marker) accepts the model's own
   run of EVERY well-formed scenario: no false alarm, and "agrees with the model" implies "satisfies the oracle".
   Premise [wf_scenario] (ExecOracle.v) is what the generator guarantees (harness/exec_common/src/gen.rs): in every
   program of every call — sub-messages and reply handlers at every depth — the first action writes the marker
   "m<node>" and no other action writes or removes the marker of any node; the markers of all the nodes of the
   scenario are pairwise different.  [model_steps] builds the step records from the model's own run (only the block and
   the call of each input step are used).
   Premise [helpers_ok] (ExecOracleH.v): the response parse of the two Executor helpers, which happens after the commit,
   cannot fail (see Properties/C01.v); needed by clause 6 only. *)
Theorem C02_model_ok ce steps : wf_scenario steps -> helpers_ok ce steps ->
  c02 ce (model_steps ce steps empty_chain) = Agree.
Proof. exact (c02_model_ok_h ce steps). Qed.
Print Assumptions C02_model_ok.

Example C02_model_ok_applies :
  wf_scenario ex_scenario /\ helpers_ok ex_ce ex_scenario /\ c02 ex_ce (model_steps ex_ce ex_scenario empty_chain) = Agree.
Proof. exact (conj ex_scenario_wf (conj ex_scenario_helpers_ok (proj2 ex_scenario_checks_agree))). Qed.

(* conversely, an Agree verdict of the check means: the oracle accepted every step of what the IMPLEMENTATION did, and
   trace, outcome and state agreed with the model at every step *)
Theorem C02_agree_sound ce steps : c02 ce steps = Agree ->
  oracle_steps p_c02 steps 0 = None /\ corr ce steps empty_chain 0 = None.
Proof. exact (check_with_agree_sound p_c02 ce steps). Qed.
Print Assumptions C02_agree_sound.
