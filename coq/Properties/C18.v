(* Properties/C18.v — pinned statements for C18 (address codecs: MockApiBech32 / MockApiBech32m with any
   prefix, and cosmwasm_std's MockApi behind IntoAddr).
   Only statements, `exact <lemma>`, Print Assumptions and non-vacuity examples live here.
   Model and proofs: Bech32.v; per-case check and oracle: Chk18.v.
   Conventions: text = list of code points; bytes = list N with wf_bytes = "every element < 256";
   c : variant is Bech32 | Bech32m; p is the prefix the Api instance was built with (ANY text:
   where a statement needs a valid HRP it says hrp_ok p, which is Hrp::parse succeeding; upper-case
   prefixes are valid).  SHA-256 is outside the model: addr_make takes the digest. *)
From Verif Require Import Base Bech32 Chk18.
Local Open Scope N_scope.

(* ---------- 1. regrouping 8 -> 5 -> 8 bits is the identity on byte strings of every length ---------- *)
Theorem convert_roundtrip b : wf_bytes b = true -> fes_to_bytes (bytes_to_fes b) = b.
Proof. exact (convert_roundtrip_l b). Qed.
Print Assumptions convert_roundtrip.

(* ---------- 2. the checksum engine (u32 residue, shifts, generator xors) is linear over GF(2) ---------- *)
Theorem polymod_linear a b l1 l2 : length l1 = length l2 ->
  Forall (fun e => e < 32) l1 -> Forall (fun e => e < 32) l2 ->
  engine (N.lxor a b) (zipx l1 l2) = N.lxor (engine a l1) (engine b l2).
Proof. exact (engine_linear_l a b l1 l2). Qed.
Print Assumptions polymod_linear.

(* ---------- 3. the mathematical core: what encode appends always verifies ----------
   for ALL hrp texts and ALL data symbol lists (no well-formedness needed), both variants *)
Theorem checksum_verifies c h d : polymod (hrp_expand h ++ d ++ create_checksum c h d) = target c.
Proof. exact (checksum_verifies_l c h d). Qed.
Print Assumptions checksum_verifies.

(* ---------- 4. syndrome: from ANY engine state, two symbol streams of equal length that differ in
   at most one symbol and leave the same residue are equal (step-with-0 has a trivial kernel on
   30-bit states, shown from the low 5 bits of the generators) ---------- *)
Theorem single_symbol_error_detected r l1 l2 : length l1 = length l2 ->
  Forall (fun e => e < 32) l1 -> Forall (fun e => e < 32) l2 ->
  (hamming l1 l2 <= 1)%nat -> engine r l1 = engine r l2 -> l1 = l2.
Proof. exact (syndrome r l1 l2). Qed.
Print Assumptions single_symbol_error_detected.

(* ---------- 5. bytes -> address -> bytes; the address is valid and returned unchanged ----------
   whenever addr_humanize succeeds (any prefix, any length) *)
Theorem humanize_canonicalize c p b s : wf_bytes b = true -> humanize c p b = Ok s ->
  canonicalize c p s = Ok b /\ validate c p s = Ok s.
Proof. exact (fun W H => conj (humanize_canonicalize_l c p b s W H) (humanize_validate_l c p b s W H)). Qed.
Print Assumptions humanize_canonicalize.

(* exactly when addr_humanize succeeds: the prefix parses and the 1023-character code length is not
   exceeded (|p| + 1 + ceil(8|b|/5) + 6 <= 1023) *)
Theorem humanize_succeeds_iff c p b :
  (exists s, humanize c p b = Ok s) <-> hrp_ok p = true /\ nlen p + 7 + (8 * nlen b + 4) / 5 <= 1023.
Proof. exact (humanize_ok_iff_l c p b). Qed.
Print Assumptions humanize_succeeds_iff.

(* in particular every byte string of up to 583 bytes (so: 1..64) under every valid prefix; 583 is the
   exact bound for an 83-character prefix (see the Example below: 584 fails) *)
Theorem humanize_total c p b : hrp_ok p = true -> nlen b <= 583 -> exists s, humanize c p b = Ok s.
Proof. exact (humanize_total_l c p b). Qed.
Print Assumptions humanize_total.

(* ---------- 6. validation ---------- *)
Theorem validate_unchanged c p s s' : validate c p s = Ok s' -> s' = s.
Proof. exact (fun V => proj1 (validate_shape c p s s' V)). Qed.
Print Assumptions validate_unchanged.

Theorem validate_accepts_iff c p s s' :
  validate c p s = Ok s' <-> s' = s /\ exists b, canonicalize c p s = Ok b /\ humanize c p b = Ok s.
Proof. exact (validate_accepts_iff_l c p s s'). Qed.
Print Assumptions validate_accepts_iff.

(* accepted strings are exactly the encodings of byte strings under this variant and prefix *)
Theorem validate_iff_encoding c p s : validate c p s = Ok s <-> exists b, wf_bytes b = true /\ humanize c p b = Ok s.
Proof. exact (validate_iff_encoding_l c p s). Qed.
Print Assumptions validate_iff_encoding.

(* total: the three Api functions never panic *)
Theorem api_total c p : (forall s, validate c p s <> Panic) /\ (forall s, canonicalize c p s <> Panic) /\
  (forall b, humanize c p b <> Panic).
Proof. exact (conj (validate_not_panic c p) (conj (canonicalize_not_panic c p) (humanize_not_panic c p))). Qed.
Print Assumptions api_total.

(* ---------- 7. foreign input ---------- *)
Theorem other_prefix_rejected c p p2 b s : humanize c p2 b = Ok s -> hrp_eqb p p2 = false ->
  canonicalize c p s = Err /\ validate c p s = Err.
Proof. exact (other_prefix_l c p p2 b s). Qed.
Print Assumptions other_prefix_rejected.

Theorem other_variant_rejected c c' p b s : c <> c' -> humanize c' p b = Ok s ->
  canonicalize c p s = Err /\ validate c p s = Err.
Proof. exact (other_variant_l c c' p b s). Qed.
Print Assumptions other_variant_rejected.

(* no string at all decodes under both variants *)
Theorem no_string_in_both_variants c c' s x y : decode_checked c s = Some x -> decode_checked c' s = Some y -> c = c'.
Proof. exact (decode_variant c c' s x y). Qed.
Print Assumptions no_string_in_both_variants.

Theorem mixed_case_rejected c p s : mixed_case s = true -> canonicalize c p s = Err /\ validate c p s = Err.
Proof. exact (mixed_case_l c p s). Qed.
Print Assumptions mixed_case_rejected.

(* ---------- 8. every single-character corruption of a valid address is rejected ----------
   every position (prefix, separator, data, checksum) and EVERY replacement character (other
   symbols, non-charset, the other case, '1', non-ASCII) *)
Theorem substitution_rejected c p s s' i x : validate c p s = Ok s' -> (i < length s)%nat -> nth i s 0 <> x ->
  validate c p (set_nth i x s) = Err.
Proof. exact (substitution_rejected_l c p s s' i x). Qed.
Print Assumptions substitution_rejected.

(* addr_canonicalize by itself (no normalisation check involved) rejects every substitution that is
   not a mere change of case of the same character, in any string it accepts *)
Theorem canonicalize_substitution_rejected c p s b i x : canonicalize c p s = Ok b -> (i < length s)%nat ->
  lower x <> lower (nth i s 0) -> canonicalize c p (set_nth i x s) = Err.
Proof. exact (canonicalize_substitution_l c p s b i x). Qed.
Print Assumptions canonicalize_substitution_rejected.

(* ---------- 9. addresses made from names (d = the SHA-256 digest of the name) ---------- *)
Theorem addr_make_valid c p d : hrp_ok p = true -> wf_bytes d = true -> nlen d <= 583 ->
  exists s, addr_make c p d = Ok s /\ validate c p s = Ok s /\ canonicalize c p s = Ok d.
Proof. exact (addr_make_valid_l c p d). Qed.
Print Assumptions addr_make_valid.

(* equal addresses => same prefix up to case and same digest (so: different digests or prefixes
   that differ beyond case give different addresses); determinism holds because addr_make is a function *)
Theorem addr_make_injective c p1 p2 d1 d2 s : wf_bytes d1 = true -> wf_bytes d2 = true ->
  addr_make c p1 d1 = Ok s -> addr_make c p2 d2 = Ok s -> hrp_eqb p1 p2 = true /\ d1 = d2.
Proof. exact (addr_make_injective_l c p1 p2 d1 d2 s). Qed.
Print Assumptions addr_make_injective.

(* the literal reading "different prefixes give different addresses" is false for prefixes that
   differ only in case ("A" / "a"): an HRP is case-insensitive and encode lower-cases it *)
Theorem addr_make_prefix_literal_refuted :
  exists p1 p2 d s, p1 <> p2 /\ addr_make Bech32 p1 d = Ok s /\ addr_make Bech32 p2 d = Ok s.
Proof. exact addr_make_prefix_case_l. Qed.
Print Assumptions addr_make_prefix_literal_refuted.

(* ---------- 10. the default codec: cosmwasm_std MockApi (bech32, canonical length 1..255) ---------- *)
Theorem std_humanize_canonicalize p b s : wf_bytes b = true -> std_humanize p b = Ok s ->
  std_canonicalize p s = Ok b /\ std_validate p s = Ok s.
Proof. exact (fun W H => conj (std_humanize_canonicalize_l p b s W H) (std_humanize_validate_l p b s W H)). Qed.
Print Assumptions std_humanize_canonicalize.

Theorem std_humanize_total p b : hrp_ok p = true -> len_ok b = true -> exists s, std_humanize p b = Ok s.
Proof. exact (std_humanize_total_l p b). Qed.
Print Assumptions std_humanize_total.

Theorem std_validate_unchanged p s s' : std_validate p s = Ok s' ->
  s' = s /\ exists b, wf_bytes b = true /\ std_canonicalize p s = Ok b /\ std_humanize p b = Ok s.
Proof. exact (std_validate_shape p s s'). Qed.
Print Assumptions std_validate_unchanged.

(* any string at Hamming distance 1 from an address the default codec accepts is rejected *)
Theorem std_substitution_rejected p s s2 : std_validate p s = Ok s -> length s2 = length s ->
  (hamming s s2 <= 1)%nat -> s2 <> s -> std_validate p s2 = Err.
Proof. exact (std_near_valid_rejected p s s2). Qed.
Print Assumptions std_substitution_rejected.

Theorem std_foreign_rejected p :
  (forall p2 b s, humanize Bech32 p2 b = Ok s -> hrp_eqb p p2 = false -> std_canonicalize p s = Err /\ std_validate p s = Err) /\
  (forall b s, humanize Bech32m p b = Ok s -> std_canonicalize p s = Err /\ std_validate p s = Err) /\
  (forall s, mixed_case s = true -> std_canonicalize p s = Err /\ std_validate p s = Err).
Proof. exact (conj (fun p2 b s => std_other_prefix_l p p2 b s) (conj (std_other_variant_l p) (std_mixed_case_l p))). Qed.
Print Assumptions std_foreign_rejected.

(* ---------- 11. what the correspondence check relies on: the property oracle of Chk18 accepts the
   model's own answers, for every codec, every prefix and every probe (all inputs) ---------- *)
Theorem C18_model_ok cd p pr : probe_wf pr = true -> oracle cd p (model_probe cd p pr) = true.
Proof. exact (model_ok cd p pr). Qed.
Print Assumptions C18_model_ok.

(* ---------- non-vacuity: the hypotheses are met by concrete non-trivial objects ---------- *)
Definition ex_addr : text := [99;111;115;109;119;97;115;109;49;52;118;112;48;115;120;120;109].  (* cosmwasm14vp0sxxm *)
Definition ex_pad : text := [99;111;115;109;119;97;115;109;49;52;48;48;117;57;115;103;121].      (* cosmwasm1400u9sgy *)
Definition p83 : text := rep 97 83.

(* a valid prefix, a byte string, its address; validation accepts it unchanged; and the same
   bytes with non-zero padding bits (correct checksum) decode but are NOT accepted *)
Example humanize_example :
  hrp_ok cosmwasm = true /\ wf_bytes [171] = true /\
  humanize Bech32 cosmwasm [171] = Ok ex_addr /\ validate Bech32 cosmwasm ex_addr = Ok ex_addr /\
  canonicalize Bech32 cosmwasm ex_pad = Ok [171] /\ validate Bech32 cosmwasm ex_pad = Err.
Proof. vm_compute. repeat split; reflexivity. Qed.

(* the checksum of a concrete word, both variants; two wf streams at distance 1 *)
Example checksum_example :
  create_checksum Bech32 cosmwasm [21; 12] = [1; 15; 16; 6; 6; 27] /\
  create_checksum Bech32m cosmwasm [21; 12] <> create_checksum Bech32 cosmwasm [21; 12] /\
  hamming [1; 2; 3] [1; 7; 3] = 1%nat /\ engine 1 [1; 2; 3] <> engine 1 [1; 7; 3].
Proof. vm_compute. repeat split; try reflexivity; discriminate. Qed.

(* linearity on a concrete pair *)
Example linear_example :
  engine (N.lxor 5 0x2bc830a3) (zipx [1; 31; 7] [30; 2; 9]) = N.lxor (engine 5 [1; 31; 7]) (engine 0x2bc830a3 [30; 2; 9]).
Proof. vm_compute. reflexivity. Qed.

(* the length bound is exact: under an 83-character prefix 583 bytes encode (1023 characters), 584 do not *)
Example length_bound_example :
  hrp_ok p83 = true /\
  (exists s, humanize Bech32 p83 (rep 0 583) = Ok s /\ nlen s = 1023) /\ humanize Bech32 p83 (rep 0 584) = Err.
Proof. split; [vm_compute; reflexivity|]. split; [eexists; split; vm_compute; reflexivity|vm_compute; reflexivity]. Qed.

(* foreign input: another prefix, the other variant, mixed case *)
Example foreign_example :
  (exists s, humanize Bech32 [106;117;110;111] [171] = Ok s /\ hrp_eqb cosmwasm [106;117;110;111] = false /\
             validate Bech32 cosmwasm s = Err) /\
  (exists s, humanize Bech32m cosmwasm [171] = Ok s /\ validate Bech32 cosmwasm s = Err /\ validate Bech32m cosmwasm s = Ok s) /\
  mixed_case (set_nth 0 67 ex_addr) = true.
Proof. repeat split; try (eexists; repeat split); vm_compute; reflexivity. Qed.

(* substitutions of the valid address above: a charset symbol in the data part, a non-charset
   character, the separator, a prefix character, an upper-case letter; all rejected — and an all
   upper-case string shows why canonicalize needs the "not a mere case change" premise *)
Example substitution_example :
  validate Bech32 cosmwasm (set_nth 10 113 ex_addr) = Err /\ canonicalize Bech32 cosmwasm (set_nth 10 113 ex_addr) = Err /\
  validate Bech32 cosmwasm (set_nth 12 98 ex_addr) = Err /\ validate Bech32 cosmwasm (set_nth 8 113 ex_addr) = Err /\
  validate Bech32 cosmwasm (set_nth 0 100 ex_addr) = Err /\ validate Bech32 cosmwasm (set_nth 9 86 ex_addr) = Err /\
  canonicalize Bech32 [51] [51;49;88;53;53;52;57;53;56;51] = Ok [53] /\                     (* 31X5549583 *)
  canonicalize Bech32 [51] (set_nth 2 120 [51;49;88;53;53;52;57;53;56;51]) = Ok [53] /\      (* 31x5549583 *)
  validate Bech32 [51] [51;49;88;53;53;52;57;53;56;51] = Err.
Proof. vm_compute. repeat split; reflexivity. Qed.

(* addr_make on a 32-byte digest under an UPPER-CASE prefix is valid under its own codec; another
   digest gives another address *)
Example addr_make_example :
  let P := [67;79;83;77;87;65;83;77] in
  let d1 := rep 7 32 in let d2 := rep 8 32 in
  hrp_ok P = true /\ wf_bytes d1 = true /\ nlen d1 = 32 /\
  (exists s, addr_make Bech32m P d1 = Ok s /\ validate Bech32m P s = Ok s /\ addr_make Bech32m P d2 <> Ok s /\
             addr_make Bech32m cosmwasm d1 = Ok s).
Proof. cbn zeta. repeat split; try (eexists; repeat split); vm_compute; try reflexivity; discriminate. Qed.

(* the default codec: length limits 1..255 *)
Example std_example :
  std_humanize cosmwasm [171] = Ok ex_addr /\ std_validate cosmwasm ex_addr = Ok ex_addr /\ std_validate cosmwasm ex_pad = Err /\
  std_humanize cosmwasm [] = Err /\ len_ok (rep 1 255) = true /\ len_ok (rep 1 256) = false /\ std_humanize cosmwasm (rep 1 256) = Err.
Proof. vm_compute. repeat split; reflexivity. Qed.

(* a probe of every kind that is well-formed, and what the check says about the model's own answers *)
Example probes_example :
  let prs := [PRound [171] Err Err Err; PString ex_pad Err Err Err; PSweep ex_addr Err [113; 49; 66] [] [];
              PForeign FVariant [1; 2] Err Err Err; PForeign (FPrefix [106]) [1; 2] Err Err Err;
              PMake (rep 7 32) Err Err [Err] Err Err; PDistinct (rep 7 32) (rep 8 32) cosmwasm Err Err] in
  forallb probe_wf prs = true /\
  c18 (CBech Bech32) cosmwasm (map (model_probe (CBech Bech32) cosmwasm) prs) = Agree /\
  c18 CStd cosmwasm (map (model_probe CStd cosmwasm) prs) = Agree /\
  c18 (CBech Bech32) cosmwasm [PString ex_pad (Ok ex_addr) (Ok [171]) (Ok ex_addr)] = PropFail 0.
Proof. vm_compute. repeat split; reflexivity. Qed.
