(* Properties/C14.v — pinned statements for C14 (delegations, unbonding and payouts account for every
   staked token).  Only statements, `exact <lemma>`, Print Assumptions and non-vacuity examples.

   Vocabulary (Staking.v / StakingInv.v / StakingHist.v / Chk14.v):
     exec_delegate / exec_undelegate / exec_redelegate / exec_slash / process_queue : the transliterated
       handlers of src/staking.rs; results SOk s' | SErr | SPanic (an expect/unwrap: a LOGIC panic) |
       SOvf (an arithmetic panic at the 64/128-bit bound: the property's "no overflow" quantifier).
     stake_of s d v = the share of delegator d at validator v in Decimal atomics (10^-18 token), 0 if none;
     disp s d v     = floor(stake_of / 10^18), the delegation StakingQuery::Delegation displays;
     vstake s v     = the validator's total (whole tokens); q_balance / q_pool / q_supply = bank (TOKEN);
     s_queue        = the unbonding queue, entries mkUnb delegator validator amount payout_at(ns);
     due now q / not_due now q = the entries with payout_at <= now / > now;  sum_for a q, sum_all q = amounts;
     scale_q v rem q = every entry of validator v scaled to floor(amount * rem / 10^18);
     step su w o    = one App call on the world w = (block time, state); reach su w0 w = w is reachable
       from w0 by successful calls (a failed call keeps nothing: C01);
     winv su w      = THE INVARIANT: validators fixed; every staker set duplicate-free and equal to the
       set of delegators with a STAKES entry; no reward clock ahead of the block time; the queue sorted
       by payout time and bounded by now + unbonding time; bank well-formed; POOL SOLVENT:
       sum of validator totals + sum of queued amounts <= pool balance. *)
From Verif Require Import Base OMap Bank Dec Staking StakingInv Chk14 StakingHist Chk16 Chk15 Chk14M.
Local Open Scope N_scope.

(* delegating moves exactly the amount from the delegator to the pool and raises that delegation
   (share and displayed value) by it; nothing else changes; and it succeeds only for a positive bonded
   amount within the balance, to a known validator *)
Theorem delegate_exact P now s d v a bonded s' :
  bank_wf (s_bank s) -> exec_delegate P now s d v a bonded = SOk s' ->
  0 < a /\ bonded = true /\ get_val P v <> None /\ a <= q_balance s d /\
  stake_of s' d v = stake_of s d v + a * D18 /\ disp s' d v = disp s d v + a /\
  (forall d' v', (d', v') <> (d, v) -> stake_of s' d' v' = stake_of s d' v') /\
  q_balance s' d = q_balance s d - a /\ q_pool s' = q_pool s + a /\
  (forall x, x <> d -> q_balance s' x = q_balance s x) /\ q_supply s' = q_supply s /\
  vstake s' v = vstake s v + a /\ (forall v', v' <> v -> vstake s' v' = vstake s v') /\
  s_queue s' = s_queue s /\ s_waddr s' = s_waddr s /\ bank_wf (s_bank s').
Proof. exact (delegate_exact_lemma P now s d v a bonded s'). Qed.
Print Assumptions delegate_exact.

(* zero amounts, the foreign denomination, unknown validators: Err; more than the balance / more than is
   delegated: never Ok (Err, or the arithmetic bound); a slash fraction above one or of an unknown validator: Err.
   (A call that is not Ok keeps nothing: Chk14.model_run / C01.) *)
Theorem invalid_ops_fail su w : winv su w ->
  let P := params_of su in let now := w_now w in let s := w_st w in
  (forall d v a b, a = 0 \/ b = false \/ get_val P v = None -> exec_delegate P now s d v a b = SErr) /\
  (forall d v a b, q_balance s d < a -> not_ok (exec_delegate P now s d v a b)) /\
  (forall d v a b, a = 0 \/ b = false \/ get_val P v = None -> exec_undelegate P now s d v a b = SErr) /\
  (forall d v a b, disp s d v < a -> not_ok (exec_undelegate P now s d v a b)) /\
  (forall d v1 v2 a b, b = false \/ get_val P v1 = None \/ get_val P v2 = None \/ disp s d v1 < a ->
                       not_ok (exec_redelegate P now s d v1 v2 a b)) /\
  (forall v p, D18 < p \/ get_val P v = None -> exec_slash P now s v p = SErr).
Proof. exact (invalid_ops_fail_lemma su w). Qed.
Print Assumptions invalid_ops_fail.

(* the undelegated amount leaves the delegation at once and a queue entry (amount, now + unbonding time)
   is appended; nothing is paid yet *)
Theorem undelegate_at_once P now s d v a bonded s' : exec_undelegate P now s d v a bonded = SOk s' ->
  0 < a /\ bonded = true /\ get_val P v <> None /\
  a * D18 <= stake_of s d v /\ a <= disp s d v /\ a <= vstake s v /\
  stake_of s' d v = stake_of s d v - a * D18 /\ disp s' d v = disp s d v - a /\
  (forall d' v', (d', v') <> (d, v) -> stake_of s' d' v' = stake_of s d' v') /\
  s_queue s' = s_queue s ++ [mkUnb d v a (now + p_unbond P * NS)] /\
  s_bank s' = s_bank s /\ s_waddr s' = s_waddr s /\
  vstake s' v = vstake s v - a /\ (forall v', v' <> v -> vstake s' v' = vstake s v').
Proof. exact (undelegate_lemma P now s d v a bonded s'). Qed.
Print Assumptions undelegate_at_once.

(* when an undelegation succeeds (so that the exactness clause is not vacuous): the LAST conjunct
   (amount within the validator's integer total) is what a drifted validator total can refuse although
   the amount is within the displayed delegation — root cause of finding F9 *)
Theorem undelegate_ok_iff P now s d v a b :
  (forall v, get_vi v s <> None <-> get_val P v <> None) ->
  exec_undelegate P now s d v a b <> SOvf -> exec_undelegate P now s d v a b <> SPanic ->
  ((exists s', exec_undelegate P now s d v a b = SOk s') <->
   b = true /\ 0 < a /\ get_val P v <> None /\ a * D18 <= stake_of s d v /\ a <= vstake s v).
Proof. exact (undelegate_ok_iff_lemma P now s d v a b). Qed.
Print Assumptions undelegate_ok_iff.

(* redelegation moves exactly the amount between the two delegations of the same delegator (additive
   form, also right for src = dst), touches no balance and no queue entry *)
Theorem redelegate_exact P now s d v1 v2 a bonded s' : exec_redelegate P now s d v1 v2 a bonded = SOk s' ->
  bonded = true /\ get_val P v1 <> None /\ get_val P v2 <> None /\
  a * D18 <= stake_of s d v1 /\ a <= disp s d v1 /\
  (forall d' v', stake_of s' d' v' + (if peqb (d', v') (d, v1) then a * D18 else 0) =
                 stake_of s d' v' + (if peqb (d', v') (d, v2) then a * D18 else 0)) /\
  (forall v', vstake s' v' + (if v' =? v1 then a else 0) = vstake s v' + (if v' =? v2 then a else 0)) /\
  s_queue s' = s_queue s /\ s_bank s' = s_bank s /\ s_waddr s' = s_waddr s.
Proof. exact (redelegate_lemma P now s d v1 v2 a bonded s'). Qed.
Print Assumptions redelegate_exact.

(* the invariant (sorted queue, solvent pool, exact staker sets, ...) holds after setup ... *)
Theorem invariant_initially su w0 : init_world su = SOk w0 -> winv su w0.
Proof. exact (init_world_inv su w0). Qed.
Print Assumptions invariant_initially.

(* ... is kept by EVERY successful operation: delegate, undelegate, redelegate, reward withdrawal,
   withdraw-address change, slash (any fraction), block advance with queue processing ... *)
Theorem invariant_preserved su w o w' : winv su w -> step su w o = SOk w' -> winv su w'.
Proof. exact (step_inv su w o w'). Qed.
Print Assumptions invariant_preserved.

(* ... hence holds in every world of every history *)
Theorem invariant_all_histories su w0 w : init_world su = SOk w0 -> reach su w0 w -> winv su w.
Proof. exact (fun H R => reach_inv su w0 w (init_world_inv su w0 H) R). Qed.
Print Assumptions invariant_all_histories.

(* payout: the block update to time now' pays EXACTLY the entries with payout_at <= now' — each in
   full to its delegator from the pool — and keeps exactly the others (none is paid before its time);
   delegations, validator totals, the supply and the withdraw addresses are untouched.  Since the
   queue is sorted (invariant) the front-first loop of process_queue misses no matured entry. *)
Theorem payout_exact_and_timely su w dt w' : winv su w -> step su w (Advance dt) = SOk w' ->
  let now' := w_now w + dt in let q := s_queue (w_st w) in
  w_now w' = now' /\
  s_queue (w_st w') = not_due now' q /\
  (forall a, q_balance (w_st w') a = q_balance (w_st w) a + sum_for a (due now' q)) /\
  q_pool (w_st w') + sum_all (due now' q) = q_pool (w_st w) /\
  q_supply (w_st w') = q_supply (w_st w) /\
  (forall d v, disp (w_st w') d v = disp (w_st w) d v) /\
  (forall v, vstake (w_st w') v = vstake (w_st w) v) /\
  s_waddr (w_st w') = s_waddr (w_st w).
Proof. exact (advance_pays_due su w dt w'). Qed.
Print Assumptions payout_exact_and_timely.

(* between its creation and its payout an entry changes only by the floors of the slashes of ITS
   validator: the queue after each kind of operation *)
Theorem queue_entries_tracked su w o w' : winv su w -> step su w o = SOk w' ->
  s_queue (w_st w') =
    match o with
    | Undelegate d v a _ => s_queue (w_st w) ++ [mkUnb d v a (w_now w + su_unbond su * NS)]
    | Slash v p => scale_q v (D18 - p) (s_queue (w_st w))
    | Advance dt => not_due (w_now w + dt) (s_queue (w_st w))
    | _ => s_queue (w_st w)
    end.
Proof. exact (queue_after su w o w'). Qed.
Print Assumptions queue_entries_tracked.

(* no history makes an operation or a query panic on an expect / unwrap / zero division / clock
   underflow; the only panics left are arithmetic overflows (SOvf), excluded by the property's quantifier *)
Theorem no_panic su w0 w o : init_world su = SOk w0 -> reach su w0 w ->
  step su w o <> SPanic /\ model_snap su w <> SPanic.
Proof. exact (history_no_panic su w0 w o). Qed.
Print Assumptions no_panic.

(* no block update of any history fails: the pool always covers the matured payouts *)
Theorem block_update_never_fails su w0 w dt : init_world su = SOk w0 -> reach su w0 w ->
  step su w (Advance dt) <> SErr.
Proof. exact (history_block_update_never_fails su w0 w dt). Qed.
Print Assumptions block_update_never_fails.

(* the oracle that judges the implementation's observations (Chk14.oracle restricted to the C14 clauses:
   no panic / no failed block update, failed calls change nothing, invalid calls fail, valid delegations
   succeed, exact deltas of delegate / undelegate / redelegate, payout time and amount against the oracle's
   OWN queue bookkeeping (entries scaled by the floors of the slashes of their validator), frames of the
   other operations, mutual consistency of the queries, genesis) accepts the model's own run, for ALL
   scenarios and ALL histories that stay within the arithmetic bounds (clean = every observation of the
   model's run is Ok or Err; by no_panic / block_update_never_fails anything else is an overflow):
   "agrees with the model" implies "satisfies the property oracle", and c14 answers Agree *)
Theorem C14_model_ok su ops w0 m0 :
  setup_ok su -> NoDup (acct_ids su) -> Forall (scoped su) ops ->
  init_world su = SOk w0 -> model_snap su w0 = SOk m0 -> clean (model_run su w0 m0 ops) ->
  filter (in_set C14_clauses) (oracle su ops m0 (map fst (model_run su w0 m0 ops))) = [] /\
  c14 su ops m0 (map fst (model_run su w0 m0 ops)) = Agree.
Proof. exact (model_ok_lemma su ops w0 m0). Qed.
Print Assumptions C14_model_ok.

(* ---------- non-vacuity ---------- *)

Definition ex_su : setup :=
  mkSetup 60 100000000000000000 [(1, 100000000000000000); (2, 0)] [(1, 1000); (2, 1000); (3, 0)] [1; 2] 1571797419879305533 USTAKE XDEN.
(* two delegators on two validators, a partial undelegation, a fractional slash, an advance short of
   maturity, a second undelegation, a redelegation *)
Definition ex_ops : list op :=
  [Delegate 1 1 10 true; Delegate 2 1 7 true; Delegate 2 2 5 true; Undelegate 1 1 4 true;
   Slash 1 333333333333333333; Advance 59000000000; Undelegate 2 1 2 true; Redelegate 2 2 1 3 true].
Definition ex_w0 : world := match init_world ex_su with SOk w => w | _ => mkW 0 (mkSt [] [] [] [] []) end.
Definition ex_w : world := match run_all ex_su ex_w0 ex_ops with Some w => w | None => ex_w0 end.

Example ex_init : init_world ex_su = SOk ex_w0. Proof. vm_compute. reflexivity. Qed.
Example ex_reach : reach ex_su ex_w0 ex_w.
Proof. apply (run_all_reach ex_su ex_ops). vm_compute. reflexivity. Qed.
Example ex_winv : winv ex_su ex_w.
Proof. exact (invariant_all_histories ex_su ex_w0 ex_w ex_init ex_reach). Qed.
(* the reached world is not trivial: two pending unbondings (one slashed to floor(4 * 0.666..) = 2), fractional shares *)
Example ex_world :
  map (fun u => (u_del u, u_val u, u_amt u, u_at u)) (s_queue (w_st ex_w)) =
    [(1, 1, 2, 1571797479879305533); (2, 1, 2, 1571797538879305533)] /\
  stake_of (w_st ex_w) 1 1 = 4000000000000000002 /\ disp (w_st ex_w) 1 1 = 4 /\
  stake_of (w_st ex_w) 2 1 = 5666666666666666669 /\ vstake (w_st ex_w) 1 = 9 /\
  q_pool (w_st ex_w) = 22 /\ q_balance (w_st ex_w) 1 = 990.
Proof. vm_compute. repeat split; reflexivity. Qed.
(* the hypotheses of the operation theorems are met by successful calls in that world, and the block
   update that matures the first entry pays it *)
Example ex_calls :
  (exists s', exec_delegate (params_of ex_su) (w_now ex_w) (w_st ex_w) 1 2 3 true = SOk s') /\
  (exists s', exec_undelegate (params_of ex_su) (w_now ex_w) (w_st ex_w) 2 1 5 true = SOk s') /\
  (exists s', exec_redelegate (params_of ex_su) (w_now ex_w) (w_st ex_w) 1 1 2 4 true = SOk s') /\
  (exists w', step ex_su ex_w (Advance 1000000000) = SOk w' /\ q_balance (w_st w') 1 = 992 /\
              map u_del (s_queue (w_st w')) = [2]) /\
  bank_wf (s_bank (w_st ex_w)) /\
  exec_undelegate (params_of ex_su) (w_now ex_w) (w_st ex_w) 2 1 5 true <> SOvf /\
  exec_undelegate (params_of ex_su) (w_now ex_w) (w_st ex_w) 2 1 5 true <> SPanic.
Proof.
  split; [eexists; vm_compute; reflexivity|]. split; [eexists; vm_compute; reflexivity|].
  split; [eexists; vm_compute; reflexivity|].
  split; [eexists; split; [vm_compute; reflexivity|split; vm_compute; reflexivity]|].
  split; [apply (inv_bank _ _ _ ex_winv)|]. split; vm_compute; discriminate.
Qed.

(* the hypotheses of C14_model_ok hold for the example scenario and a history with failing operations,
   a payout, a paying withdrawal and a total slash *)
Definition ex_ops2 : list op :=
  ex_ops ++ [Undelegate 1 1 50 true; Delegate 1 9 1 true; Delegate 2 2 500 true; Advance 1000000000; Advance 31536000000000000;
             Withdraw 2 2; SetWithdraw 2 (Some 3); Slash 1 D18; Withdraw 2 2].
Definition ex_m0 : snap := Eval vm_compute in match model_snap ex_su ex_w0 with SOk m => m | _ => mkSnap [] [] [] [] 0 0 [] [] end.
Definition ex_run2 : list (oc * snap * world) := Eval vm_compute in model_run ex_su ex_w0 ex_m0 ex_ops2.
Example ex_run2_eq : model_run ex_su ex_w0 ex_m0 ex_ops2 = ex_run2. Proof. vm_compute. reflexivity. Qed.
Example ex_model_ok_hyps :
  setup_ok ex_su /\ NoDup (acct_ids ex_su) /\ Forall (scoped ex_su) ex_ops2 /\
  model_snap ex_su ex_w0 = SOk ex_m0 /\ clean (model_run ex_su ex_w0 ex_m0 ex_ops2) /\
  map (fun x : oc * snap * world => fst (fst x)) ex_run2 =
    [OOk; OOk; OOk; OOk; OOk; OOk; OOk; OOk; OErr; OErr; OOk; OOk; OOk; OOk; OOk; OOk; OErr].
Proof.
  split; [apply setup_okb; vm_compute; reflexivity|]. split; [apply nodupb_ok; vm_compute; reflexivity|].
  split; [apply scopedb_ok; vm_compute; reflexivity|]. split; [vm_compute; reflexivity|].
  split; [|vm_compute; reflexivity].
  rewrite ex_run2_eq. apply cleanb_ok. vm_compute. reflexivity.
Qed.
