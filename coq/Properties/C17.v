(* Properties/C17.v — pinned statements for C17 (every message and query reaches exactly the module
   configured for it).  Only statements, `exact <lemma>`, Print Assumptions and non-vacuity examples.

   PART A is about the definitions that the translator REGENERATES on every run (coq/Generated.v):
     route_exec / route_query / route_sudo  = the match arms of Router::execute / query / sudo (src/app.rs)
     lift_arms, lift_fields, ...            = customize_msg / customize_response (src/contracts.rs)
     cosmos_msg_variants, query_request_variants, submsg_struct_fields, response_struct_fields
                                            = the enums / structs of the cosmwasm-std pinned by Cargo.lock
   read through Routing.v:
     exec_route k : routed   what the FIRST arm compiled in (harness feature set) that matches kind k does:
                             Call {field; method; args} | Bail | Unimpl | Unknown (anything not recognised)
     args : list role        every argument resolved to a ROLE: RApi / RStorage / RBlock / RSender / RMsg are
                             the router function's parameters identified by their TYPES, RRouter = self,
                             RQuerier = &querier with `let querier = self.querier(api, storage, block)`,
                             RPayload f = the variable the arm's pattern binds to field f of the variant,
                             RBad = anything else (rebuilt, literal, opaque)
     exec_call_spec k        the hand-written spec: field = slot_field (mslot k), trait method, and
                             (api, storage, self, block, sender, <all fields of the variant, in order>)
   mkind / qkind / skind are finite inductives; `forall k` is decided by case analysis + computation on the
   regenerated table, and the kind sets are proved to be exactly the variants of the real enums.

   PART B is the L4 model of Routing.v: a router over scripted / recording modules (one behaviour per slot),
   top-level transactions, contracts that make inline queries and emit sub-messages with or without reply from
   any of their entry points (instantiate, execute, migrate, sudo, reply), wasm messages with funds,
   run over the SPEC routing (spec_case) and over the regenerated tables (model_case). *)
From Verif Require Import Base Generated Builder Routing Chk17 Inst17.
From Coq Require Import String.
Local Open Scope string_scope.

(* ===================================== PART A ============================================ *)
(* the translator recognised every shape it relies on and found the pinned cosmwasm-std source
   (otherwise nothing below is about the code) *)
Theorem c17_translation_ok : translation_ok = true /\ cwstd_ok = true.
Proof. exact translation_recognised_17. Qed.
Print Assumptions c17_translation_ok.

(* the nine message kinds are exactly the variants of cosmwasm_std::CosmosMsg that exist under the features
   the crate is compiled with, and mfields k are exactly the fields of the variant *)
Theorem msg_kinds_complete :
  forall s fs, In (s, fs) (active_variants cosmos_msg_variants) <-> exists k : mkind, s = mkind_name k /\ fs = mfields k.
Proof. exact mkinds_are_cosmos_msg. Qed.
Print Assumptions msg_kinds_complete.

(* the eight query kinds (Distribution and Grpc included) are exactly the variants of QueryRequest *)
Theorem query_kinds_complete :
  forall s fs, In (s, fs) (active_variants query_request_variants) <-> exists k : qkind, s = qkind_name k /\ fs = qfields k.
Proof. exact qkinds_are_query_request. Qed.
Print Assumptions query_kinds_complete.

Theorem sudo_kinds_complete : forall s, In s sudo_msg_variants <-> exists k : skind, s = skind_name k.
Proof. exact skinds_are_sudo_msg. Qed.
Print Assumptions sudo_kinds_complete.

(* the parameters of the three router functions, identified by type *)
Theorem router_argument_roles :
  param_roles "execute" = [RApi; RStorage; RBlock; RSender; RMsg] /\
  param_roles "query" = [RApi; RStorage; RBlock; RMsg] /\
  param_roles "sudo" = [RApi; RStorage; RBlock; RMsg].
Proof. exact router_params. Qed.
Print Assumptions router_argument_roles.

(* Router::execute: for EVERY message kind the arm calls the module in the like-named field with
   (api, storage, self, block, sender, payload) -- sender is the function's Addr parameter, payload the
   variables bound by the pattern to all fields of the variant; nothing rebuilt, nothing swapped *)
Theorem route_exec_table : forall k : mkind, exec_route k = Call (exec_call_spec k).
Proof. exact T_route_exec_table. Qed.
Print Assumptions route_exec_table.

(* ... and the catch-all arm (an ordinary error) is reached only by names outside the kind set *)
Theorem route_exec_catch_all :
  forall s, ~ In s (map mkind_name all_mkinds) -> route_of route_exec "CosmosMsg" s = Bail.
Proof. exact T_route_exec_catch_all. Qed.
Print Assumptions route_exec_catch_all.

(* Router::query: the same for every query kind EXCEPT Distribution:
   (api, storage, &self.querier(api, storage, block), block, payload) *)
Theorem route_query_table : forall k : qkind, k <> QDistribution -> query_route k = Call (query_call_spec k).
Proof. exact T_route_query_table. Qed.
Print Assumptions route_query_table.

(* known finding F11: QueryRequest::Distribution has no arm; it falls through to unimplemented!() *)
Theorem route_query_distribution_unrouted : query_route QDistribution = Unimpl.
Proof. exact T_route_query_distribution_unrouted. Qed.
Print Assumptions route_query_distribution_unrouted.

(* the full statement over all eight query kinds, kept visible with its refutation *)
Theorem route_query_table_all_refuted : ~ (forall k : qkind, query_route k = Call (query_call_spec k)).
Proof. exact T_route_query_table_all_refuted. Qed.
Print Assumptions route_query_table_all_refuted.

Theorem route_query_catch_all :
  forall s, ~ In s (map qkind_name all_qkinds) -> route_of route_query "QueryRequest" s = Unimpl.
Proof. exact T_route_query_catch_all. Qed.
Print Assumptions route_query_catch_all.

(* Router::sudo: (api, storage, self, block, payload) to the like-named module; SudoMsg::Custom has no arm *)
Theorem route_sudo_table : forall k : skind, k <> SCustom -> sudo_route k = Call (sudo_call_spec k).
Proof. exact T_route_sudo_table. Qed.
Print Assumptions route_sudo_table.

Theorem route_sudo_custom_unrouted : sudo_route SCustom = Unimpl.
Proof. exact T_route_sudo_custom_unrouted. Qed.
Print Assumptions route_sudo_custom_unrouted.

(* customize_msg: every non-custom kind emitted by an Empty-typed contract is rebuilt as the SAME kind from
   the SAME bound variables, field by field *)
Theorem lift_total_identity : forall k : mkind, k <> MCustom -> lift_of (mkind_name k) = lift_spec k.
Proof. exact T_lift_total_identity. Qed.
Print Assumptions lift_total_identity.

(* CosmosMsg::<Empty>::Custom cannot be translated into the chain's message type: unreachable!() *)
Theorem lift_custom_unreachable : lift_of (mkind_name MCustom) = LUnreachable.
Proof. exact T_lift_custom_unreachable. Qed.
Print Assumptions lift_custom_unreachable.

(* the catch-all arm of customize_msg (a panic) is reached only by names outside the kind set *)
Theorem lift_catch_all : forall s, ~ In s (map mkind_name all_mkinds) -> lift_of s = LPanic.
Proof. exact T_lift_catch_all. Qed.
Print Assumptions lift_catch_all.

(* ... and the envelope is kept: every field of SubMsg other than msg (id, payload, gas_limit, reply_on) is
   copied from the argument; the match is on the argument's msg *)
Theorem lift_keeps_envelope :
  lift_ok = true /\ lift_struct = "SubMsg" /\ lift_match_field = "msg" /\ lift_scrutinee = Old "msg" /\
  In "msg" submsg_struct_fields /\
  forall f, In f submsg_struct_fields -> f <> "msg" -> assoc_s f lift_fields = Some (Old f).
Proof. exact T_lift_keeps_envelope. Qed.
Print Assumptions lift_keeps_envelope.

(* customize_response hands over every field of Response and maps the messages through customize_msg *)
Theorem response_lifted_whole :
  (forall f, In f response_struct_fields <-> In f response_reads) /\ response_calls = ["customize_msg"].
Proof. exact T_response_lifted_whole. Qed.
Print Assumptions response_lifted_whole.

(* ===================================== PART B ============================================ *)
(* other_modules_untouched: for every configuration and every program, the module log is exactly one record
   per probe that was reached and whose CONFIGURED module records: that slot, with the probe's sender,
   payload and block height, in program order -- no other module, nothing altered *)
Theorem other_modules_untouched :
  forall inp, o_log (spec_case inp) = log_of inp (reached inp (i_probes inp)).
Proof. exact L4_other_modules_untouched. Qed.
Print Assumptions other_modules_untouched.

(* the sender clause, for EVERY origin: each record a reached probe leaves carries p_sender = i_sender for a
   message (the user at top level; the EMITTING contract for a contract origin, whichever entry point --
   instantiate, execute, migrate, sudo or reply -- returned the message; the harness sets i_sender to that
   address) and the block height of the call; a query carries no sender *)
Theorem sender_is_emitter :
  forall inp p e, In e (entries_of inp p) -> e_sender e = p_sender inp p /\ e_height e = i_height inp.
Proof. exact L4_sender_is_emitter. Qed.
Print Assumptions sender_is_emitter.

(* funds attached to a WasmMsg::Execute / Instantiate: nothing reaches the bank for an empty vector; for a
   NON-EMPTY vector (zero-amount coins included) the configured bank module is asked exactly once, with
   sender = the payer and the coins verbatim (send_payload), BEFORE the callee runs; the callee runs iff the
   bank agreed, and the bank's refusal is the message's failure *)
Theorem funds_go_through_the_bank :
  forall inp ins fc sp cp m h,
  let p := PFunded ins fc sp cp m h in
  let send := mk_entry (slot_id SlBank) (i_sender inp) sp (i_height inp) in
  let callee := mk_entry callee_slot (i_sender inp) cp (i_height inp) in
  (f_nonempty fc = false -> mod_entries_of inp p = [callee] /\ answer inp p = ROk None) /\
  (f_nonempty fc = true -> records (bank_beh inp) = true ->
     mod_entries_of inp p = send :: (if is_ok (bank_result (bank_beh inp) fc sp) then [callee] else []) /\
     answer inp p = (if is_ok (bank_result (bank_beh inp) fc sp) then ROk None else RErr)).
Proof. exact L4_funds_go_through_the_bank. Qed.
Print Assumptions funds_go_through_the_bank.

(* the reply table of a sub-message (src/wasm.rs execute_submsg), for all four reply_on modes: the contract's
   reply entry point is invoked iff (module ok /\ mode in {Success, Always}) \/ (module err /\ mode in {Error,
   Always}); a module error ends the transaction unless a reply is due for it AND the handler returns Ok (so
   never under Never / Success); a module success ends it only if a due reply handler fails.  entries_of p =
   mod_entries_of p ++ [the reply's own record iff replied], so other_modules_untouched pins the invocations. *)
Theorem reply_table :
  forall inp p, p_is_msg p = true -> is_top (i_origin inp) = false ->
  let ok := is_ok (answer inp p) in
  replied inp p = match p_mode p with RNever => false | RSuccess => ok | RError => negb ok | RAlways => true end /\
  stops inp p = (if ok then replied inp p && negb (p_hok p) else negb (replied inp p && p_hok p)).
Proof. exact L4_reply_table. Qed.
Print Assumptions reply_table.

(* failing_module_aborts: if the module configured for some probe fails and the failure is not caught by a
   reply / by the querying contract, the whole call fails like any other error and keeps nothing: not the
   earlier write, not what the contract recorded, not any module's marker *)
Theorem failing_module_aborts :
  forall inp, lift_abort spec_routes inp = false ->
  (exists p, In p (i_probes inp) /\ stops inp p = true) ->
  let o := spec_case inp in o_tx o = RErr /\ o_seen o = [] /\ o_pre o = false /\ o_keys o = [].
Proof. exact L4_failing_module_aborts. Qed.
Print Assumptions failing_module_aborts.

Theorem unsuccessful_keeps_nothing :
  forall inp, o_tx (spec_case inp) <> ROk None ->
  o_seen (spec_case inp) = [] /\ o_pre (spec_case inp) = false /\ o_keys (spec_case inp) = [].
Proof. exact L4_unsuccessful_keeps_nothing. Qed.
Print Assumptions unsuccessful_keeps_nothing.

(* module_result_is_callers: if no failure goes uncaught the call succeeds, the earlier write is kept, and the
   caller of probe number i (the top-level caller; the contract's reply entry point; the querying contract)
   is shown exactly `answer inp p_i`, the answer of the module configured for the probe's kind *)
Theorem module_result_is_callers :
  forall inp, lift_abort spec_routes inp = false ->
  (forall p, In p (i_probes inp) -> stops inp p = false) ->
  let o := spec_case inp in
  o_tx o = ROk None /\ o_pre o = i_pre inp /\ o_seen o = seen_list inp 0 (i_probes inp).
Proof. exact L4_module_result_is_callers. Qed.
Print Assumptions module_result_is_callers.

Theorem module_answer :
  forall inp p, answer inp p =
    match p with
    | PFunded _ fc sp _ _ _ => if f_nonempty fc && negb (is_ok (bank_result (bank_beh inp) fc sp)) then RErr else ROk None
    | _ => match beh inp p with Accepting => ROk None | RecOk => ROk (Some (p_payload p)) | Failing | RecErr | Keeper => RErr end
    end.
Proof. exact answer_spec. Qed.
Print Assumptions module_answer.

(* the router run over the REGENERATED tables behaves as the spec router on every program without a
   Distribution query (the tie between PART A and PART B) *)
Theorem model_is_spec : forall inp, has_distribution_query inp = false -> model_case inp = spec_case inp.
Proof. exact T_model_is_spec. Qed.
Print Assumptions model_is_spec.

(* what the correspondence check evaluates: for ALL inputs the oracle accepts the model's own output, or --
   only when the program contains a Distribution query -- files it under the known-finding class 1 *)
Theorem C17_model_ok :
  forall inp, c17 inp (model_case inp) = Agree \/
              (has_distribution_query inp = true /\ exists k, c17 inp (model_case inp) = KnownFail 1 k).
Proof. exact T_C17_model_ok. Qed.
Print Assumptions C17_model_ok.

(* the known-finding verdict is given only for class 1, only to programs with a Distribution query, and only
   when the observation is exactly the spec run in which that query panics instead of being routed *)
Theorem C17_known_class_exact :
  forall inp o c k, c17 inp o = KnownFail c k ->
  c = 1%N /\ has_distribution_query inp = true /\ obs_diff false (run f11_routes inp) o = None.
Proof. exact c17_known_only_distribution. Qed.
Print Assumptions C17_known_class_exact.

(* ===================================== non-vacuity ======================================= *)
Example kinds_exist :
  ~ In "Foo" (map mkind_name all_mkinds) /\ ~ In "Foo" (map qkind_name all_qkinds) /\
  QGrpc <> QDistribution /\ SBank <> SCustom /\ MGov <> MCustom /\
  In ("Gov", ["0"]) (active_variants cosmos_msg_variants) /\
  In ("Distribution", ["0"]) (active_variants query_request_variants) /\
  In "gas_limit" submsg_struct_fields /\ "gas_limit" <> "msg".
Proof. repeat split; try discriminate; vm_compute; intuition discriminate. Qed.

(* a governance vote emitted with a reply from the MIGRATE entry point of an Empty-typed contract after an earlier write, then an IBC
   message whose module fails uncaught: the gov module (slot 6) and the ibc module (slot 5) are reached with
   the contract as sender, the call fails, nothing is kept *)
Definition ex_cfg : list behaviour := [RecOk; RecOk; RecOk; RecOk; RecOk; RecErr; RecOk; RecOk].
Definition ex_abort : input := mk_input ex_cfg (SubEmpty EMigrate) true 77 1005 [PMsg MGov 61 RAlways true; PMsg MIbc 62 RSuccess true].
Example failing_module_aborts_applies :
  lift_abort spec_routes ex_abort = false /\
  (exists p, In p (i_probes ex_abort) /\ stops ex_abort p = true) /\
  (* the vote succeeds under Always: its reply is invoked (slot 9, payload 2*61+1); the IBC module fails under
     reply_on = Success: NO reply, the call fails *)
  spec_case ex_abort = mk_obs [mk_entry 6 77 61 1005; mk_entry 9 77 123 1005; mk_entry 5 77 62 1005] RErr [] false [] /\
  c17 ex_abort (model_case ex_abort) = Agree /\
  (* had the vote been handed to the ibc module instead, the oracle would object at log entry 0 *)
  c17 ex_abort (mk_obs [mk_entry 5 77 61 1005; mk_entry 9 77 123 1005; mk_entry 5 77 62 1005] RErr [] false []) = PropFail 0 /\
  (* ... or with another sender (e.g. the admin who sent the Migrate instead of the migrated contract) *)
  c17 ex_abort (mk_obs [mk_entry 6 78 61 1005; mk_entry 9 77 123 1005; mk_entry 5 77 62 1005] RErr [] false []) = PropFail 0 /\
  (* ... a reply invoked for the module's error under reply_on = Success is rejected, whatever happens next *)
  c17 ex_abort (mk_obs [mk_entry 6 77 61 1005; mk_entry 9 77 123 1005; mk_entry 5 77 62 1005; mk_entry 9 77 124 1005] RErr [] false []) = PropFail 3 /\
  (* ... as is a transaction that survives the uncaught failure *)
  c17 ex_abort (mk_obs [mk_entry 6 77 61 1005; mk_entry 9 77 123 1005; mk_entry 5 77 62 1005] (ROk None) [(0, ROk (Some 61))]%N true [(6, 61)]%N) = PropFail 100 /\
  (* ... and a call that kept the earlier write although the ibc module failed *)
  c17 ex_abort (mk_obs [mk_entry 6 77 61 1005; mk_entry 9 77 123 1005; mk_entry 5 77 62 1005] RErr [] true []) = PropFail 300.
Proof.
  split; [vm_compute; reflexivity|]. split; [exists (PMsg MIbc 62 RSuccess true); vm_compute; auto|].
  vm_compute. repeat split; reflexivity.
Qed.

(* the same program with the failure caught by a reply (reply_on = Error, handler returns Ok): the call succeeds, the contract is shown Ok(data) for
   the vote and the error for the IBC message, the earlier write and the gov module's marker are kept *)
Definition ex_ok : input := mk_input ex_cfg (SubCustom EReply) true 77 1005 [PQuery QBank 60 false; PMsg MGov 61 RAlways true; PMsg MIbc 62 RError true].
Example module_result_is_callers_applies :
  lift_abort spec_routes ex_ok = false /\
  (forall p, In p (i_probes ex_ok) -> stops ex_ok p = false) /\
  spec_case ex_ok = mk_obs [mk_entry 1 0 60 1005; mk_entry 6 77 61 1005; mk_entry 9 77 123 1005; mk_entry 5 77 62 1005; mk_entry 9 77 124 1005] (ROk None)
                           [(0, ROk (Some 60)); (1, ROk (Some 61)); (2, RErr)]%N true [(6, 61)]%N /\
  has_distribution_query ex_ok = false /\ c17 ex_ok (model_case ex_ok) = Agree.
Proof.
  split; [vm_compute; reflexivity|]. split.
  - intros p [<-|[<-|[<-|[]]]]; vm_compute; reflexivity.
  - vm_compute. repeat split; reflexivity.
Qed.

(* the witness of the known finding: a Distribution query from top level; the spec wants the distribution
   module (slot 4) to be reached, the regenerated table panics; an observation that deviates in any OTHER way
   is still a property failure *)
Definition ex_f11 : input := mk_input ex_cfg TopQuery false 0 1005 [PQuery QDistribution 63 false].
Example distribution_query_class_witness :
  has_distribution_query ex_f11 = true /\
  spec_case ex_f11 = mk_obs [mk_entry 4 0 63 1005] (ROk None) [(0, ROk (Some 63))]%N false [] /\
  model_case ex_f11 = mk_obs [] RPanic [] false [] /\
  c17 ex_f11 (model_case ex_f11) = KnownFail 1 0 /\
  c17 ex_f11 (mk_obs [mk_entry 1 0 63 1005] (ROk None) [(0, ROk (Some 63))]%N false []) = PropFail 0.
Proof. vm_compute. repeat split; reflexivity. Qed.

(* a contract executes a callee with funds [0 x] (non-empty, zero amounts only) and a recording bank that
   refuses: the bank's Send record, no callee record, the call fails.  An observation in which the bank was
   never asked and the callee ran (the guard `any non-zero coin` instead of `non-empty`) is rejected. *)
Definition ex_funds : input :=
  mk_input [RecOk; RecErr; RecOk; RecOk; RecOk; RecOk; RecOk; RecOk] (SubCustom EExecute) false 77 1005 [PFunded false FZero1 71 72 RNever true].
Example funds_go_through_the_bank_applies :
  f_nonempty FZero1 = true /\ records (bank_beh ex_funds) = true /\
  spec_case ex_funds = mk_obs [mk_entry 1 77 71 1005] RErr [] false [] /\
  c17 ex_funds (model_case ex_funds) = Agree /\
  c17 ex_funds (mk_obs [mk_entry 8 77 72 1005] (ROk None) [] false [(8, 72)]%N) = PropFail 0 /\
  (* with the crate's own BankKeeper: [0 x; 3 y] is accepted, [0 x; 0 y] refused *)
  answer (mk_input [RecOk; Keeper] Top false 77 1005 []) (PFunded true FZeroPos 71 72 RNever true) = ROk None /\
  answer (mk_input [RecOk; Keeper] Top false 77 1005 []) (PFunded true FZero2 71 72 RNever true) = RErr.
Proof. vm_compute. repeat split; reflexivity. Qed.
