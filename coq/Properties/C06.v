(* Properties/C06.v — pinned statements for C06 (transactional KV overlay = ordered map).
   Only statements, `exact <lemma>`, Print Assumptions and non-vacuity examples live here. *)
From Verif Require Import Base OMap Tx Chk06.
From Coq Require Import Sorted.

Notation B_sorted := (sorted bcmp).
Notation L := (layer (K := bytes) (V := bytes)).
Notation S := (store (K := bytes) (V := bytes)).

(* The merge iterator (MergeOverlay) over inputs strictly sorted in the iteration direction's order
   lists exactly "right overlaid by left": strictly ordered, every key once, deleted keys absent,
   overwritten keys carrying the overlay value.  One statement, both directions. *)
Theorem merge_spec (o : order) (l : list (bytes * delta bytes)) (r : list (bytes * bytes)) :
  sorted (dcmp bcmp o) l -> sorted (dcmp bcmp o) r ->
  sorted (dcmp bcmp o) (merge (dcmp bcmp o) l r) /\
  forall k, assoc bcmp k (merge (dcmp bcmp o) l r) =
            match assoc bcmp k l with Some (DSet v) => Some v | Some DDel => None | None => assoc bcmp k r end.
Proof. exact (B_merge_spec o l r). Qed.
Print Assumptions merge_spec.

(* get and range on a cache stack of ANY depth = lookup / range of the ordered map it denotes,
   for all bounds (absent, equal, inverted) and both orders *)
Theorem st_get_view (st : S) k : store_wf bcmp st -> st_get bcmp st k = assoc bcmp k (view bcmp st).
Proof. exact (B_get_view st k). Qed.
Print Assumptions st_get_view.

Theorem st_range_view (st : S) s e o : store_wf bcmp st ->
  st_range bcmp st s e o = spec_range bcmp (view bcmp st) s e o.
Proof. exact (B_range_view st s e o). Qed.
Print Assumptions st_range_view.

(* the answer of a range query: strictly ordered in the direction asked, and holding exactly the
   in-bounds entries of the denoted map (so: each key at most once) *)
Theorem st_range_strict (st : S) s e o : store_wf bcmp st ->
  sorted (dcmp bcmp o) (st_range bcmp st s e o) /\
  forall k, assoc bcmp k (st_range bcmp st s e o) =
            if in_bounds bcmp s e k then assoc bcmp k (view bcmp st) else None.
Proof. exact (B_range_strict st s e o). Qed.
Print Assumptions st_range_strict.

(* set/remove: the denoted map changes by insert/delete; every store below the written cache is
   the very same term ("the base is never modified while the cache is alive") *)
Theorem st_write_view (st : S) w : store_wf bcmp st ->
  view bcmp (st_write bcmp st w) = map_write bcmp (view bcmp st) w /\ store_wf bcmp (st_write bcmp st w).
Proof. exact (B_write_view st w). Qed.
Print Assumptions st_write_view.

Theorem st_write_frame (l : L) ls (b : list (bytes * bytes)) w :
  below (st_write bcmp (l :: ls, b) w) = (ls, b).
Proof. reflexivity. Qed.
Print Assumptions st_write_frame.

(* discarding a cache is popping it: the store below is untouched by construction;
   committing makes the store below denote the ordered map the cache denoted *)
Theorem commit_makes_base_the_view (l : L) ls b : layer_wf bcmp l -> store_wf bcmp (ls, b) ->
  view bcmp (commit bcmp l (ls, b)) = view bcmp (l :: ls, b).
Proof. exact (B_commit_view l ls b). Qed.
Print Assumptions commit_makes_base_the_view.

(* ANY client program, ANY nesting of transactional blocks, started at ANY depth: the cache
   mechanism is indistinguishable from the plain ordered-map semantics; only the innermost cache is
   ever written ([below st' = (ls, b)]); a failed nested block continues from the identical store *)
Theorem run_layered_refines_flat E A (p : prog (K := bytes) (V := bytes) E A) (l : L) ls b :
  store_wf bcmp (l :: ls, b) -> below_ok (Datatypes.S (length ls)) p ->
  agrees bcmp (run_layered bcmp p (l :: ls, b))
         (run_flat bcmp p (outer_views bcmp (l :: ls) b) (view bcmp (l :: ls, b)))
         (ls, b).
Proof. exact (B_refines E A p l ls b). Qed.
Print Assumptions run_layered_refines_flat.

(* what the correspondence check evaluates: on every well-formed script the mechanism model and
   the ordered-map spec produce the same observations and the same final base *)
Theorem c06_model_meets_spec base body : script_ok 1 body = true ->
  run_case_layered base body = run_case_flat base body.
Proof. exact (case_layered_eq_flat base body). Qed.
Print Assumptions c06_model_meets_spec.

(* ---------- non-vacuity: the hypotheses are met by concrete non-trivial objects ---------- *)
Example wf_store_exists :
  let l : L := layer_write bcmp (layer_write bcmp empty_layer (OSet [1%N] [7%N])) (ODel [2%N]) in
  store_wf bcmp (l :: [empty_layer], [([2%N], [9%N])]) /\
  st_range bcmp (l :: [empty_layer], [([2%N], [9%N])]) None None Desc = [([1%N], [7%N])].
Proof.
  cbn zeta. split; [|vm_compute; reflexivity]. split; cbn [fst snd].
  - constructor; [|constructor; [apply empty_layer_wf|constructor]].
    apply B_layer_write_wf, B_layer_write_wf, empty_layer_wf.
  - repeat constructor.
Qed.

Example script_exists :
  let body := SSet [1%N] [7%N] (SNest (SDel [1%N] (SGet [1%N] SFail)) (SGet [1%N] (SRangeBelow 1 None None Asc SNil))) in
  script_ok 1 body = true /\
  run_case_flat [([2%N], [9%N])] body =
    ([OGet None; ONest false; OGet (Some [7%N]); ORange [([2%N], [9%N])]; ONest true],
     [([1%N], [7%N]); ([2%N], [9%N])]).
Proof. vm_compute. split; reflexivity. Qed.
