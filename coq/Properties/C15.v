(* Properties/C15.v — pinned statements for C15 (rewards accrue linearly, are never over-paid beyond
   fixed-point rounding, and a withdrawal pays what is shown).  Only statements, `exact <lemma>`,
   Print Assumptions and non-vacuity examples.

   Vocabulary: see Properties/C14.v and C16.v.  In addition
     q_rewards P now s d v = StakeKeeper::get_rewards: SOk (Some r) the pending reward shown (whole tokens),
                             SOk None if there is no delegation; q_delegation = StakingQuery::Delegation;
     rew_of s d v          = the reward credited to the pair and not yet withdrawn (Decimal atomics);
     withdraw_addr s d     = DistributionKeeper::get_withdraw_address (the address set last, or d itself);
     update_rewards        = the reward update that precedes every stake change, slash and withdrawal;
     YD = YEAR * 10^18; TOK36 = YEAR * 10^36 = one token, ATOM = YEAR * 10^18 = one atomic unit (10^-18 token)
     in the unit of the ideal-reward numerators  stake * apr * (1 - commission) * seconds.
   "Stake" is the internal share; time is the clock in whole seconds: secs = floor(now) - floor(last).

   What is proved for ALL states / histories: shown = paid, reset, mints only that, others unaffected,
   the withdraw address, "a reward update changes nothing that is shown", the arithmetic of ONE reward
   update (the credited amount is within (1 + kappa) atomic units of the ideal in both directions,
   kappa = share / validator total, at most 1 without drift), and — over EVERY history, with a ghost ledger of
   the ideal — the UPPER bound "withdrawn + credited (+ shown) <= ideal + rounding", rounding = at most
   (share in tokens) atomic units per reward update (rewards_upper_history_partial, rewards_shown_upper_partial).
   The EXACT "never exceed" is false of the faithful model (finding F7, commission rounded down): kept visible
   and refuted below, with its one-atomic-unit version proved for every scenario of the witness's shape.
   The LOWER bound over histories is proved too, per PERIOD of positive displayed delegation, with a second ghost
   ledger (rewards_lower_history_partial, rewards_shown_lower_partial, rewards_lower_history_nodrift): shortfall
   < (W + 1) tokens + a fixed number of atomic units per reward update, OUTSIDE the class DriftZeroTotal (a reward
   update, or the query, finds the validator's total at zero under a positive share), where it is refuted
   (rewards_lower_unguarded_refuted).  The oracle's clauses 30-33 and 35 are shown to accept the model's own run
   up to that class (C15_model_ok, C15_model_ok_with_lower); clause 34 (the exact upper bound) is refuted by F7. *)
From Verif Require Import Base OMap Bank Dec Staking StakingInv Chk14 StakingHist Chk16 Chk15 Chk14M Chk16M Chk15H Chk15L Chk15M.
Local Open Scope N_scope.

(* a successful withdrawal pays exactly the pending reward shown immediately before, to the current
   withdraw address; mints exactly that; moves no other balance, no stake, no queue entry; and resets the
   credited reward of the pair to zero *)
Theorem withdraw_pays_shown P now s d v s' :
  stakers_ok s -> last_ok now s -> bank_wf (s_bank s) -> exec_withdraw P now s d v = SOk s' ->
  forall x, q_rewards P now s d v = SOk x ->
  exists r, x = Some r /\ 0 < r /\
    let w := withdraw_addr s d in
    q_balance s' w = q_balance s w + r /\ (forall a, a <> w -> q_balance s' a = q_balance s a) /\
    q_pool s' = q_pool s /\ q_supply s' = q_supply s + r /\
    (forall d' v', stake_of s' d' v' = stake_of s d' v') /\ s_queue s' = s_queue s /\ s_waddr s' = s_waddr s /\
    rew_of s' d v = 0.
Proof. exact (withdraw_pays_shown_lemma P now s d v s'). Qed.
Print Assumptions withdraw_pays_shown.

(* ... and it mints in the BONDED denomination only (Staking.TOKEN is the model's name of the configured bonded
   denom): no balance and no supply of any other denomination changes — in particular nothing is minted in the
   default denom "TOKEN" when another bonded denom is configured *)
Theorem withdraw_touches_no_other_denomination P now s d v s' :
  bank_wf (s_bank s) -> exec_withdraw P now s d v = SOk s' ->
  forall dn, dn <> TOKEN ->
    (forall x, bank_balance (s_bank s') x dn = bank_balance (s_bank s) x dn) /\
    bank_supply (s_bank s') dn = bank_supply (s_bank s) dn.
Proof. exact (withdraw_others P now s d v s'). Qed.
Print Assumptions withdraw_touches_no_other_denomination.

(* ... after which the pending reward shown for the pair is zero *)
Theorem withdraw_resets P now s d v s' :
  stakers_ok s -> last_ok now s -> bank_wf (s_bank s) -> exec_withdraw P now s d v = SOk s' ->
  forall x, q_rewards P now s' d v = SOk x -> x = Some 0.
Proof. exact (withdraw_resets_lemma P now s d v s'). Qed.
Print Assumptions withdraw_resets.

(* ... and every other pair's pending reward and Delegation answer are identical before and after *)
Theorem others_unaffected P now s d v s' :
  stakers_ok s -> bank_wf (s_bank s) -> exec_withdraw P now s d v = SOk s' ->
  forall d' v', (d', v') <> (d, v) ->
    q_rewards P now s' d' v' = q_rewards P now s d' v' /\ q_delegation P now s' d' v' = q_delegation P now s d' v'.
Proof. exact (others_unaffected_lemma P now s d v s'). Qed.
Print Assumptions others_unaffected.

(* the withdraw address is the one set last (setting one's own address clears it), an address that does
   not validate is refused, and no other operation of any history touches the map *)
Theorem withdraw_address_spec s d w s' : exec_set_withdraw s d (Some w) = SOk s' ->
  withdraw_addr s' d = w /\ (forall d', d' <> d -> withdraw_addr s' d' = withdraw_addr s d') /\
  s_stakes s' = s_stakes s /\ s_vi s' = s_vi s /\ s_queue s' = s_queue s /\ s_bank s' = s_bank s.
Proof. exact (set_withdraw_lemma s d w s'). Qed.
Print Assumptions withdraw_address_spec.

Theorem withdraw_address_frame su w o w' : winv su w -> step su w o = SOk w' ->
  match o with SetWithdraw _ _ => True | _ => s_waddr (w_st w') = s_waddr (w_st w) end.
Proof. exact (waddr_frame su w o w'). Qed.
Print Assumptions withdraw_address_frame.

(* a reward update (the first step of every delegate / undelegate / redelegate / slash / withdrawal) changes
   no answer of get_rewards or Delegation at that block time: what is shown does not depend on whether, or
   how often, rewards were materialised in between *)
Theorem reward_update_changes_nothing_shown P now s v s1 : stakers_ok s -> update_rewards P now s v = SOk s1 ->
  forall d v', q_rewards P now s1 d v' = q_rewards P now s d v' /\ q_delegation P now s1 d v' = q_delegation P now s d v'.
Proof. exact (update_rewards_shown P now s v s1). Qed.
Print Assumptions reward_update_changes_nothing_shown.

(* calculate_rewards (the validator's net reward for secs whole seconds) is within ONE atomic unit of
   total * apr * secs * (1 - commission) / YEAR in both directions; V = that ideal * YEAR * 10^18.
   The upward unit is the commission rounded down (F7). *)
Theorem calculate_rewards_within_one_unit now since apr comm st nr :
  calculate_rewards now since apr comm st = SOk nr -> comm <= D18 ->
  let secs := (now - since / NS * NS) / NS in
  let V := st * apr * secs * (D18 - comm) in
  nr * YD < V + YD /\ V < nr * YD + YD.
Proof. exact (calc_rewards_value now since apr comm st nr). Qed.
Print Assumptions calculate_rewards_within_one_unit.

(* ONE reward update credits every delegator x atomic units with  x <= ideal + kappa  and  ideal < x + 1 + kappa
   (ideal = share * apr * secs * (1 - commission) / YEAR in atomic units, kappa = share / (total * 10^18)),
   stated division-free: both sides multiplied by total * 10^18 * YEAR * 10^18 *)
Theorem reward_update_bounds P now s v s1 vi comm d sh :
  stakers_ok s -> update_rewards P now s v = SOk s1 ->
  get_vi v s = Some vi -> get_val P v = Some comm -> comm <= D18 -> vi_last vi < now -> vi_stake vi <> 0 ->
  get_stake d v s = Some sh ->
  let secs := (now - vi_last vi / NS * NS) / NS in
  let V := vi_stake vi * p_apr P * secs * (D18 - comm) in
  exists x, get_stake d v s1 = Some (mkSh (sh_stake sh) (sh_rew sh + x)) /\
    x * (vi_stake vi * D18) * YD <= (V + YD) * sh_stake sh /\
    V * sh_stake sh < ((x + 1) * (vi_stake vi * D18) + sh_stake sh) * YD.
Proof. exact (reward_update_bounds_lemma P now s v s1 vi comm d sh). Qed.
Print Assumptions reward_update_bounds.

(* F7 — the exact "never over-paid", already in its simplest instance (fresh chain, one delegator, one
   interval, one withdrawal), is FALSE of the faithful model *)
Theorem rewards_upper_refuted : ~ rewards_upper_single.
Proof. exact rewards_upper_single_refuted_lemma. Qed.
Print Assumptions rewards_upper_refuted.

(* ... while the relaxed bound — at most ONE atomic unit (10^-18 token) above the ideal — holds for EVERY
   scenario of that shape (any parameters, any amount, any time span within the arithmetic bounds) *)
Theorem rewards_upper_single_partial su w0 d v a dt w1 w2 w3 :
  init_world su = SOk w0 -> step su w0 (Delegate d v a true) = SOk w1 -> step su w1 (Advance dt) = SOk w2 ->
  step su w2 (Withdraw d v) = SOk w3 -> comm_of su v <= D18 ->
  (q_balance (w_st w3) d - q_balance (w_st w2) d) * TOK36 <=
    a * rate su v * secs_between (w_now w1) (w_now w2) + ATOM.
Proof. exact (rewards_upper_single_partial_lemma su w0 d v a dt w1 w2 w3). Qed.
Print Assumptions rewards_upper_single_partial.

(* ALL HISTORIES — "never over-paid" up to the rounding of the commission.  A ghost ledger is run along the
   history (Chk15H.lstep): for every pair, I = the ideal-reward numerator = sum over the reward updates of
   share(atomics) * apr * (whole seconds since the validator's previous update) * (1 - commission) — the share
   is constant over that interval because every stake change is preceded by a reward update —,
   S = sum over the reward updates that moved the validator's clock of the share (atomics), paid = tokens
   withdrawn.  ledger_ok: (paid * 10^18 + credited) * YEAR * 10^36 <= I + S * YEAR * 10^18, i.e.
      withdrawn + credited  <=  ideal  +  (S / 10^18) atomic units
   = at most (the share in tokens) * 10^-18 token per reward update above the ideal (the commission is rounded
   DOWN once per update: F7; without drift the excess per update is below ONE atomic unit,
   reward_update_bounds).  Proved for every instrumented history from genesis, every scenario with
   commissions <= 1. *)
Theorem rewards_upper_history_partial su w0 w L : comm_ok su -> init_world su = SOk w0 ->
  lreach su w0 ledger0 w L -> ledger_ok su w L.
Proof. exact (rewards_upper_history_lemma su w0 w L). Qed.
Print Assumptions rewards_upper_history_partial.

(* ... and the pending reward SHOWN by the query (credited + not yet credited) obeys the same bound with the
   current interval and one more potential rounding added: withdrawn + shown <= ideal + rounding *)
Theorem rewards_shown_upper_partial su w L d v r : comm_ok su -> winv su w -> ledger_ok su w L ->
  q_rewards (params_of su) (w_now w) (w_st w) d v = SOk (Some r) ->
  (L_paid (L d v) + r) * D18 * YD * D18 <=
    L_I (L d v) + stake_of (w_st w) d v * su_apr su * (w_now w / NS - lastns (w_st w) v / NS) * kfac su v
    + (L_S (L d v) + stake_of (w_st w) d v) * YD.
Proof. exact (shown_upper_lemma su w L d v r). Qed.
Print Assumptions rewards_shown_upper_partial.

(* ALL HISTORIES — the LOWER bound.  A second ghost ledger (Chk15L.lstepP) runs over the current PERIOD of every
   pair: the period ends (all counters reset) when nothing is displayed after an operation, or when the operation
   redelegates the whole displayed delegation away (the entry and its credited rewards are deleted on the way,
   also when the destination is the same validator).  Within the period: I = ideal numerator (share * apr * whole
   seconds * (1 - commission), summed over the reward updates), N = reward updates that moved the validator's
   clock, S = sum of kslack over them (kslack = 10^18, i.e. one atomic unit, while the share is within the
   validator's total, else the share), paid / W = tokens withdrawn / withdrawals, bad = updates that found the
   validator's total at ZERO while the pair held a share (class DriftZeroTotal), dr = updates with share > total.
   ledgerP_ok: for every pair with bad = 0
        ideal  <=  withdrawn + credited + W tokens + N atomic units + S * 10^-18 atomic units
   (a withdrawal floors the payout: < 1 token lost each; a reward update floors three times).  Proved for every
   instrumented history from genesis, every scenario with commissions <= 1. *)
Theorem rewards_lower_history_partial su w0 w L : comm_ok su -> init_world su = SOk w0 ->
  preach su w0 ledgerP0 w L -> ledgerP_ok su w L.
Proof. exact (rewards_lower_history_lemma su w0 w L). Qed.
Print Assumptions rewards_lower_history_partial.

(* ... with the pending reward SHOWN (the running interval included, its floor at the display: < 1 token):
   ideal of the period  -  (withdrawn + shown)  <  (W + 1) tokens + (N + 1) atomic units + (S + kslack) * 10^-18
   atomic units, whenever no reward update of the period — and not the query now — met the class DriftZeroTotal *)
Theorem rewards_shown_lower_partial su w L d v r : comm_ok su -> winv su w -> ledgerP_ok su w L ->
  P_bad (L d v) = 0 -> zts (w_st w) d v = false ->
  q_rewards (params_of su) (w_now w) (w_st w) d v = SOk (Some r) ->
  P_I (L d v) + stake_of (w_st w) d v * su_apr su * (w_now w / NS - lastns (w_st w) v / NS) * kfac su v
  < (P_paid (L d v) + r + P_W (L d v) + 1) * D18 * YD * D18
    + (P_N (L d v) + 1) * YD * D18 + (P_S (L d v) + kslack (w_st w) d v) * YD.
Proof. exact (shown_lower_lemma su w L d v r). Qed.
Print Assumptions rewards_shown_lower_partial.

(* the drift-free reading (the share never above the validator's total at the reward updates of the period,
   nor now — implied by "validator total = sum of the shares"): the property's bound with a FIXED allowance,
   shortfall < (W + 1) tokens + 2 atomic units per reward update + 2 atomic units *)
Theorem rewards_lower_history_nodrift su w0 w L d v r : comm_ok su -> init_world su = SOk w0 ->
  preach su w0 ledgerP0 w L ->
  P_dr (L d v) = 0 -> stake_of (w_st w) d v <= vstake (w_st w) v * D18 ->
  q_rewards (params_of su) (w_now w) (w_st w) d v = SOk (Some r) ->
  P_I (L d v) + stake_of (w_st w) d v * su_apr su * (w_now w / NS - lastns (w_st w) v / NS) * kfac su v
  < (P_paid (L d v) + r + P_W (L d v) + 1) * D18 * YD * D18 + (2 * P_N (L d v) + 2) * YD * D18.
Proof. exact (shown_lower_nodrift_lemma su w0 w L d v r). Qed.
Print Assumptions rewards_lower_history_nodrift.

(* without the guard the bound is FALSE of the faithful model (class DriftZeroTotal, a consequence of F9's drift):
   a validator total of 0 under a share of 2 tokens earns nothing in ten years, 1.8 tokens short *)
Theorem rewards_lower_unguarded_refuted : ~ rewards_lower_unguarded.
Proof. exact rewards_lower_unguarded_refuted_lemma. Qed.
Print Assumptions rewards_lower_unguarded_refuted.

(* the oracle clauses "shown = paid to the current withdraw address" (30), "reset" (31), "mints only
   that, moves nothing else" (32), "every other pair's pending reward identical" (33), together with
   no-panic (1), failed-calls-change-nothing (2) and genesis (0), accept the model's own run for ALL
   scenarios and histories within the arithmetic bounds.  (The summed reward bounds, clauses 34 / 35, are
   evaluated on the implementation only.) *)
Theorem C15_model_ok su ops w0 m0 :
  setup_ok su -> NoDup (acct_ids su) -> Forall (scoped su) ops ->
  init_world su = SOk w0 -> model_snap su w0 = SOk m0 -> clean (model_run su w0 m0 ops) ->
  filter (in_set C15m) (oracle su ops m0 (map fst (model_run su w0 m0 ops))) = [].
Proof. exact (model_ok_15_lemma su ops w0 m0). Qed.
Print Assumptions C15_model_ok.

(* ... extended to the LOWER-BOUND clause 35 of the oracle (evaluated from the observations alone: displayed
   stakes, whole seconds of the block advances, payments seen, one reset per period): on the model's own run,
   for ALL scenarios with commissions <= 1 and ALL histories within the arithmetic bounds, the clauses 0, 1, 2,
   30-33 never fail and clause 35 fails ONLY for a pair that met the class DriftZeroTotal (validator total zero
   under a positive share) in some reachable world — the class predicate the check evaluates.  The oracle's
   per-pair ledger is simulated by the ghost period ledger of rewards_lower_history_partial. *)
Theorem C15_model_ok_with_lower su ops w0 m0 :
  comm_ok su -> setup_ok su -> NoDup (acct_ids su) -> Forall (scoped su) ops ->
  init_world su = SOk w0 -> model_snap su w0 = SOk m0 -> clean (model_run su w0 m0 ops) ->
  Forall (fun kf : N * fail => fst (fst (snd kf)) = 35 /\ known35 su w0 (snd kf))
         (filter (in_set C15m35) (oracle su ops m0 (map fst (model_run su w0 m0 ops)))).
Proof. exact (model_ok_15_35_lemma su ops w0 m0). Qed.
Print Assumptions C15_model_ok_with_lower.

(* ---------- non-vacuity ---------- *)

(* two delegators on one validator (commission 10 %), one more on a second validator, half a year later:
   rewards pending everywhere; delegator 1 has set account 3 as its withdraw address *)
Definition ex15_su : setup :=
  mkSetup 60 100000000000000000 [(1, 100000000000000000); (2, 250000000000000000)] [(1, 5000); (2, 5000); (3, 0)] [1; 2] 1571797419879305533 USTAKE XDEN.
Definition ex15_ops : list op :=
  [Delegate 1 1 700 true; Delegate 2 1 300 true; Delegate 2 2 1000 true; SetWithdraw 1 (Some 3); Advance 15768000500000000].
Definition ex15_w0 : world := Eval vm_compute in ok_or_dummy (init_world ex15_su).
Definition ex15_w : world := Eval vm_compute in world_of ex15_su ex15_ops.
Definition ex15_s' : sstate :=
  Eval vm_compute in match exec_withdraw (params_of ex15_su) (w_now ex15_w) (w_st ex15_w) 1 1 with SOk s => s | _ => w_st ex15_w end.

Example ex15_reach : init_world ex15_su = SOk ex15_w0 /\ reach ex15_su ex15_w0 ex15_w.
Proof. split; [vm_compute; reflexivity|]. apply (run_all_reach ex15_su ex15_ops). vm_compute. reflexivity. Qed.
Example ex15_hyps : stakers_ok (w_st ex15_w) /\ last_ok (w_now ex15_w) (w_st ex15_w) /\ bank_wf (s_bank (w_st ex15_w)).
Proof.
  destruct ex15_reach as [H0 R]. pose proof (reach_inv ex15_su ex15_w0 ex15_w (init_world_inv _ _ H0) R) as I.
  split; [apply (inv_stakers _ _ _ I)|]. split; [apply (inv_last _ _ _ I)|apply (inv_bank _ _ _ I)].
Qed.
Example ex15_withdraw :
  exec_withdraw (params_of ex15_su) (w_now ex15_w) (w_st ex15_w) 1 1 = SOk ex15_s' /\
  q_rewards (params_of ex15_su) (w_now ex15_w) (w_st ex15_w) 1 1 = SOk (Some 31) /\
  withdraw_addr (w_st ex15_w) 1 = 3 /\ q_balance ex15_s' 3 = 31 /\ q_balance ex15_s' 1 = 4300 /\
  q_rewards (params_of ex15_su) (w_now ex15_w) ex15_s' 1 1 = SOk (Some 0) /\
  q_rewards (params_of ex15_su) (w_now ex15_w) ex15_s' 2 1 = SOk (Some 13) /\
  q_rewards (params_of ex15_su) (w_now ex15_w) ex15_s' 2 2 = SOk (Some 37) /\
  rew_of ex15_s' 2 1 = 13500000856164383561.
Proof. repeat split; vm_compute; reflexivity. Qed.
(* the hypotheses of reward_update_bounds hold for validator 1 in that world (last update half a year ago) *)
Example ex15_update :
  exists s1 vi sh, update_rewards (params_of ex15_su) (w_now ex15_w) (w_st ex15_w) 1 = SOk s1 /\
    get_vi 1 (w_st ex15_w) = Some vi /\ get_val (params_of ex15_su) 1 = Some 100000000000000000 /\
    vi_last vi < w_now ex15_w /\ vi_stake vi = 1000 /\ get_stake 2 1 (w_st ex15_w) = Some sh /\ sh_stake sh = 300 * D18 /\
    calculate_rewards (w_now ex15_w) (vi_last vi) (su_apr ex15_su) 100000000000000000 1000 = SOk 45000002853881278539.
Proof.
  eexists. eexists. eexists. split; [vm_compute; reflexivity|]. split; [vm_compute; reflexivity|].
  split; [reflexivity|]. split; [vm_compute; reflexivity|]. split; [reflexivity|]. split; [vm_compute; reflexivity|].
  split; vm_compute; reflexivity.
Qed.
(* F7's witness: see Chk15.f7_witness (pays 1 token where the ideal is 1 - 10^-36; within one atomic unit) *)
Example ex15_f7 : q_balance (w_st f7_w3) 1 - q_balance (w_st f7_w2) 1 = 1 /\
  31536000 * rate f7_su 1 * secs_between (w_now f7_w1) (w_now f7_w2) = TOK36 - 31536000.
Proof. split; [apply f7_witness|apply f7_witness]. Qed.
Example ex15_set_withdraw : exists s', exec_set_withdraw (w_st ex15_w) 2 (Some 3) = SOk s'.
Proof. eexists. vm_compute. reflexivity. Qed.

(* the hypotheses of C15_model_ok / rewards_upper_single_partial: the example scenario with paying withdrawals *)
Definition ex15_ops2 : list op := ex15_ops ++ [Withdraw 1 1; Withdraw 2 2; Withdraw 1 1; Advance 1000000000; Withdraw 2 1].
Definition ex15_m0 : snap := Eval vm_compute in match model_snap ex15_su ex15_w0 with SOk m => m | _ => mkSnap [] [] [] [] 0 0 [] [] end.
Definition ex15_run2 : list (oc * snap * world) := Eval vm_compute in model_run ex15_su ex15_w0 ex15_m0 ex15_ops2.
Example ex15_run2_eq : model_run ex15_su ex15_w0 ex15_m0 ex15_ops2 = ex15_run2. Proof. vm_compute. reflexivity. Qed.
Example ex15_model_ok_hyps :
  setup_ok ex15_su /\ NoDup (acct_ids ex15_su) /\ Forall (scoped ex15_su) ex15_ops2 /\
  model_snap ex15_su ex15_w0 = SOk ex15_m0 /\ clean (model_run ex15_su ex15_w0 ex15_m0 ex15_ops2) /\
  map (fun x : oc * snap * world => fst (fst x)) ex15_run2 = [OOk; OOk; OOk; OOk; OOk; OOk; OOk; OErr; OOk; OOk].
Proof.
  split; [apply setup_okb; vm_compute; reflexivity|]. split; [apply nodupb_ok; vm_compute; reflexivity|].
  split; [apply scopedb_ok; vm_compute; reflexivity|]. split; [vm_compute; reflexivity|].
  split; [|vm_compute; reflexivity].
  rewrite ex15_run2_eq. apply cleanb_ok. vm_compute. reflexivity.
Qed.
Example ex15_single : comm_of f7_su 1 <= D18 /\ comm_of ex15_su 2 <= D18.
Proof. split; vm_compute; discriminate. Qed.

(* the ledger along the example history (two withdrawals, two reward updates of validator 1): ideal numerator,
   rounding allowance and payments of pair (2, 1); the hypotheses of the two history theorems *)
Definition ex15_ops3 : list op := ex15_ops ++ [Withdraw 1 1; Withdraw 2 2; Advance 1000000000; Withdraw 2 1].
Definition ex15_led : option (world * ledger) := lrun_all ex15_su ex15_w0 ledger0 ex15_ops3.
Definition ex15_lw : world := match ex15_led with Some (w, _) => w | None => ex15_w0 end.
Definition ex15_L : ledger := match ex15_led with Some (_, L) => L | None => ledger0 end.
Example ex15_ledger :
  comm_ok ex15_su /\ lreach ex15_su ex15_w0 ledger0 ex15_lw ex15_L /\
  L_paid (ex15_L 2 1) = 13 /\ L_paid (ex15_L 1 1) = 31 /\ L_S (ex15_L 2 1) = 600 * D18 /\
  L_I (ex15_L 2 1) = 300 * D18 * su_apr ex15_su * 15768002 * (D18 - 100000000000000000) /\
  q_rewards (params_of ex15_su) (w_now ex15_lw) (w_st ex15_lw) 2 2 = SOk (Some 0).
Proof.
  split; [apply comm_okb_ok; vm_compute; reflexivity|].
  split.
  - apply (lrun_all_lreach ex15_su ex15_ops3). unfold ex15_lw, ex15_L. fold ex15_led.
    assert (N : match ex15_led with Some _ => true | None => false end = true) by (vm_compute; reflexivity).
    destruct ex15_led as [[w L]|]; [reflexivity|discriminate N].
  - repeat split; vm_compute; reflexivity.
Qed.

(* the period ledger along a history with a fractional slash (drift-free: the share stays within the total), two
   paying withdrawals of pair (2,1) and a partial undelegation: the premises of the lower-bound theorems hold
   and the counters are not trivial; the DriftZeroTotal witness (Chk15L.dz_facts) meets bad = 0 but not the guard now *)
Definition ex15_ops4 : list op :=
  ex15_ops ++ [Withdraw 2 1; Slash 1 250000000000000000; Advance 15768000000000000; Undelegate 2 1 100 true;
               Advance 1000000000; Withdraw 2 1; Advance 31536000000000000].
Definition ex15_pled : option (world * ledgerP) := prun_all ex15_su ex15_w0 ledgerP0 ex15_ops4.
Definition ex15_pw : world := match ex15_pled with Some (w, _) => w | None => ex15_w0 end.
Definition ex15_P : ledgerP := match ex15_pled with Some (_, L) => L | None => ledgerP0 end.
Example ex15_period_ledger :
  preach ex15_su ex15_w0 ledgerP0 ex15_pw ex15_P /\
  P_bad (ex15_P 2 1) = 0 /\ P_dr (ex15_P 2 1) = 0 /\ zts (w_st ex15_pw) 2 1 = false /\
  stake_of (w_st ex15_pw) 2 1 = 125 * D18 /\ vstake (w_st ex15_pw) 1 = 650 /\
  P_N (ex15_P 2 1) = 3 /\ P_S (ex15_P 2 1) = 3 * D18 /\ P_W (ex15_P 2 1) = 2 /\ P_paid (ex15_P 2 1) = 23 /\
  q_rewards (params_of ex15_su) (w_now ex15_pw) (w_st ex15_pw) 2 1 = SOk (Some 11) /\
  P_bad (dz_L 1 1) = 0 /\ zts (w_st dz_w) 1 1 = true.
Proof.
  split.
  - pose proof (prun_all_preach' ex15_su ex15_ops4 ex15_w0 ledgerP0 ex15_pled eq_refl) as P.
    assert (N : match ex15_pled with Some _ => true | None => false end = true) by (vm_compute; reflexivity).
    unfold ex15_pw, ex15_P. destruct ex15_pled as [[w L]|]; [exact P|discriminate N].
  - repeat (split; [vm_compute; reflexivity|]). vm_compute. reflexivity.
Qed.

(* C15_model_ok_with_lower: its hypotheses hold for the example run (ex15_model_ok_hyps + comm_ok), where no clause
   of C15m35 fails; and on the DriftZeroTotal history the model's own run fails clause 35 for pair (1,1) — in the class *)
Definition dz_m0 : snap := Eval vm_compute in match model_snap dz_su dz_w0 with SOk m => m | _ => mkSnap [] [] [] [] 0 0 [] [] end.
Definition dz_run : list (oc * snap * world) := Eval vm_compute in model_run dz_su dz_w0 dz_m0 dz_ops.
Example ex15_lower_clause :
  comm_ok ex15_su /\
  filter (in_set C15m35) (oracle ex15_su ex15_ops2 ex15_m0 (map fst ex15_run2)) = [] /\
  model_run dz_su dz_w0 dz_m0 dz_ops = dz_run /\ cleanb dz_run = true /\
  filter (in_set C15m35) (oracle dz_su dz_ops dz_m0 (map fst dz_run)) = [(10, (35, 1, 1))] /\
  zero_total_with_share dz_w 1 1 = true.
Proof.
  split; [apply comm_okb_ok; vm_compute; reflexivity|]. repeat split; vm_compute; reflexivity.
Qed.
