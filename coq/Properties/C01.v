(* Properties/C01.v — pinned statements for C01 (top-level transactions are atomic, ordered). *)
From Verif Require Import Base OMap Text Proto Bank Exec ExecFacts ExecFacts2 ChkExec ChkX ExecOracle ExecOracleS ExecOracleH.

(* ALL-OR-NOTHING, failure half: for every environment, state, entry point (execute, execute_multi, sudo,
   wasm_sudo, the Executor helpers), every message tree and every point at which an error is raised:
   if the wrapped computation does not succeed, the chain state after the call IS the state before it
   (the whole typed state: balances, registry, every contract's storage) and the call reports failure. *)
Theorem app_tx_atomic e op s :
  is_ok (outc (inner e op s)) = false ->
  top_state (run_top e op s) = s /\ is_ok (top_outcome (run_top e op s)) = false.
Proof. exact (top_fail_unchanged e op s). Qed.
Print Assumptions app_tx_atomic.

(* success half: the state after the call is exactly the state in which the message tree ended *)
Theorem app_tx_commits e op s rs s' :
  match op with THelperInst _ _ | THelperExec _ _ => False | _ => True end ->
  outc (inner e op s) = Ok (rs, s') ->
  top_state (run_top e op s) = s' /\ is_ok (top_outcome (run_top e op s)) = true.
Proof. exact (top_ok_commits e op s rs s'). Qed.
Print Assumptions app_tx_commits.

(* execute_multi: given order, each message from the state its predecessors left, one response per message
   in that order, log = concatenation of the per-message logs *)
Theorem multi_order e sender ms s tr rs s' :
  run_msgs e sender ms s = (tr, Ok (rs, s')) -> multi_spec e sender ms s rs s' tr /\ length rs = length ms.
Proof. exact (run_msgs_ok_spec e sender ms s tr rs s'). Qed.
Print Assumptions multi_order.

(* ... and on failure: a first message fails from the state left by its (successful, in-order) predecessors,
   and no later message runs *)
Theorem multi_stops_at_first_failure e sender ms s :
  is_ok (outc (run_msgs e sender ms s)) = false -> multi_fail_spec e sender ms s (trc (run_msgs e sender ms s)).
Proof. exact (run_msgs_fail_spec e sender ms s). Qed.
Print Assumptions multi_stops_at_first_failure.

(* Executor::execute is the singleton execute_multi *)
Theorem execute_is_singleton_multi e sender m s :
  top_state (run_top e (TExec sender m) s) = top_state (run_top e (TExecMulti sender [m]) s) /\
  top_trace (run_top e (TExec sender m) s) = top_trace (run_top e (TExecMulti sender [m]) s) /\
  is_ok (top_outcome (run_top e (TExec sender m) s)) = is_ok (top_outcome (run_top e (TExecMulti sender [m]) s)).
Proof. cbn [run_top]. destruct (run_msgs e sender [m] s) as [tr [[rs s']| |]]; auto. Qed.
Print Assumptions execute_is_singleton_multi.

(* ---------- non-vacuity ---------- *)
Local Open Scope N_scope.
Definition ex_env : env := {| codes := [(1, Build_code 101 [99] [] true true true)]; blk := Build_blockinfo 1 2 [99];
  valid_addrs := [[97]; [98]]; classic_book := [((1, 0), [98])]; salted_book := [] |}.
Definition ex_prog (n : N) (o : output) : prog := Prog n [AWrite [109] [1]] o.
Example failing_tree_exists :
  let op := TExecMulti [97] [MInst 1 (ex_prog 1 (OResp [] [] None SNil)) [] [76] None None;
                             MExec [98] (ex_prog 2 (OResp [] [] None (SCons (Sub 0 [] RNever (MCustom false 7) (ex_prog 3 OFail) (ex_prog 4 OFail)) SNil))) []] in
  is_ok (outc (inner ex_env op empty_chain)) = false /\ top_trace (run_top ex_env op empty_chain) <> [].
Proof. vm_compute. split; [reflexivity|discriminate]. Qed.
Example succeeding_multi_exists :
  exists tr rs s', run_msgs ex_env [97] [MInst 1 (ex_prog 1 (OResp [] [] None SNil)) [] [76] None None;
                                         MExec [98] (ex_prog 2 (OResp [] [] (Some [5]) SNil)) []] empty_chain = (tr, Ok (rs, s'))
                   /\ length rs = 2%nat /\ s' <> empty_chain.
Proof. eexists. eexists. eexists. vm_compute. split; [reflexivity|]. split; [reflexivity|discriminate]. Qed.

(* ---------- what the correspondence check relies on ---------- *)
(* The run-time oracle p_c01 (ChkX.v, clauses 5-9) accepts the model's own run of EVERY well-formed scenario, in every
   case environment: an implementation that behaves exactly like the model is never flagged, and "agrees with the
   model" implies "satisfies the oracle's reading of C01".
   Premise [wf_scenario] (ExecOracle.v) is what the generator guarantees (harness/exec_common/src/gen.rs): in every
   program of every call — sub-messages and reply handlers at every depth — the first action writes the marker
   "m<node>" and no other action writes or removes the marker of any node; the markers of all the nodes of the
   scenario are pairwise different.  [model_steps] builds the step records from the model's own run (only the block and
   the call of each input step are used).
   Premise [helpers_ok] (ExecOracleH.v) concerns the two Executor helpers only, which parse the protobuf response AFTER
   the transaction is committed (executor.rs:82-101, 141-159): they are used with the message kind their Rust signature
   builds, the addresses of the case's address book are non-empty, and lengths are below 2^70 — so that this parse
   cannot fail (otherwise the model itself returns an error with the state committed, which clause 5 rejects). *)
Theorem C01_model_ok ce steps : wf_scenario steps -> helpers_ok ce steps ->
  c01 ce (model_steps ce steps empty_chain) = Agree.
Proof. exact (c01_model_ok_h ce steps). Qed.
Print Assumptions C01_model_ok.

Example C01_model_ok_applies :
  wf_scenario ex_scenario /\ helpers_ok ex_ce ex_scenario /\ c01 ex_ce (model_steps ex_ce ex_scenario empty_chain) = Agree.
Proof. exact (conj ex_scenario_wf (conj ex_scenario_helpers_ok (proj1 ex_scenario_checks_agree))). Qed.

(* conversely, an Agree verdict of the check means: the oracle accepted every step of what the IMPLEMENTATION did, and
   trace, outcome and state agreed with the model at every step *)
Theorem C01_agree_sound ce steps : c01 ce steps = Agree ->
  oracle_steps p_c01 steps 0 = None /\ corr ce steps empty_chain 0 = None.
Proof. exact (check_with_agree_sound p_c01 ce steps). Qed.
Print Assumptions C01_agree_sound.
