(* Properties/C16.v — pinned statements for C16 (slashing scales the slashed validator's stake and
   nothing else).  Only statements, `exact <lemma>`, Print Assumptions and non-vacuity examples.

   Vocabulary: see Properties/C14.v.  In addition
     new_total s v p = floor(vstake s v * (1 - p)), the validator's integer total after the slash (staking.rs:493);
     stakers_ok s    = every staker set is duplicate-free and equals the set of delegators with a STAKES
                       entry (part of the invariant winv of ALL histories, Properties/C14.v);
     q_rewards       = StakeKeeper::get_rewards, the pending reward shown (whole tokens);
     scale_q v rem q = the queue with every entry of validator v replaced by floor(amount * rem / 10^18).
   The property's clauses that the faithful model FALSIFIES are kept visible as Definitions
   (slash_rewards_kept_always, slash_scaled_value_kept) with their refutations (findings F8, F9) and are
   proved under the negation of the class predicate the check evaluates (slash_floors_total_to_zero). *)
From Verif Require Import Base OMap Bank Dec Staking StakingInv Chk14 StakingHist Chk16 Chk15 Chk14M Chk16M Chk15H Chk15L Chk16W.
Local Open Scope N_scope.

(* a fraction above one or an unknown validator is rejected (and a rejected call keeps nothing: C01) *)
Theorem slash_invalid_rejected P now s v p : D18 < p \/ get_val P v = None -> exec_slash P now s v p = SErr.
Proof. exact (slash_invalid_rejected_lemma P now s v p). Qed.
Print Assumptions slash_invalid_rejected.

(* no share, no displayed delegation, no validator total and no queued amount grows; every queue entry
   keeps its delegator, validator and payout time *)
Theorem slash_never_increases P now s v p s' : stakers_ok s -> exec_slash P now s v p = SOk s' ->
  (forall d' v', stake_of s' d' v' <= stake_of s d' v' /\ disp s' d' v' <= disp s d' v') /\
  (forall v', vstake s' v' <= vstake s v') /\
  Forall2 (fun u' u => u_del u' = u_del u /\ u_val u' = u_val u /\ u_at u' = u_at u /\
                       u_amt u' = (if u_val u =? v then u_amt u * (D18 - p) / D18 else u_amt u) /\ u_amt u' <= u_amt u)
          (s_queue s') (s_queue s).
Proof. exact (slash_never_increases_lemma P now s v p s'). Qed.
Print Assumptions slash_never_increases.

(* every pending unbonding from the slashed validator becomes floor((1 - p) * amount), the others are untouched *)
Theorem slash_unbonding_exact P now s v p s' : stakers_ok s -> exec_slash P now s v p = SOk s' ->
  s_queue s' = scale_q v (D18 - p) (s_queue s).
Proof. exact (slash_unbonding_exact_lemma P now s v p s'). Qed.
Print Assumptions slash_unbonding_exact.

(* delegations to other validators (shares AND accrued rewards), their totals and reward clocks, every
   bank balance and the withdraw addresses are unchanged *)
Theorem slash_frame P now s v p s' : stakers_ok s -> exec_slash P now s v p = SOk s' ->
  s_bank s' = s_bank s /\ s_waddr s' = s_waddr s /\
  (forall v', v' <> v -> get_vi v' s' = get_vi v' s) /\
  (forall d' v', v' <> v -> get_stake d' v' s' = get_stake d' v' s).
Proof. exact (slash_frame_lemma P now s v p s'). Qed.
Print Assumptions slash_frame.

(* while the new total is positive: every share becomes floor_18((1 - p) * share), no delegation appears or disappears *)
Theorem slash_share_exact P now s v p s' : stakers_ok s -> exec_slash P now s v p = SOk s' ->
  new_total s v p <> 0 ->
  vstake s' v = new_total s v p /\
  (forall d, stake_of s' d v = stake_of s d v * (D18 - p) / D18) /\
  (forall d, get_stake d v s' = None <-> get_stake d v s = None).
Proof. exact (slash_share_exact_lemma P now s v p s'). Qed.
Print Assumptions slash_share_exact.

(* whole shares (all histories whose slashes keep the values whole): exactly (1 - p) * displayed, displayed' = its floor *)
Theorem slash_whole_exact P now s v p s' : stakers_ok s -> exec_slash P now s v p = SOk s' ->
  new_total s v p <> 0 ->
  forall d k, stake_of s d v = k * D18 ->
    stake_of s' d v = k * (D18 - p) /\ disp s d v = k /\ disp s' d v = k * (D18 - p) / D18.
Proof. exact (slash_whole_exact_lemma P now s v p s'). Qed.
Print Assumptions slash_whole_exact.

(* a slash flooring the validator's total to zero — in particular p = 1 — removes every delegation to it *)
Theorem slash_total_removes P now s v p s' : stakers_ok s -> exec_slash P now s v p = SOk s' ->
  new_total s v p = 0 ->
  vstake s' v = 0 /\ forall d, get_stake d v s' = None /\ disp s' d v = 0.
Proof. exact (slash_total_removes_lemma P now s v p s'). Qed.
Print Assumptions slash_total_removes.

Theorem full_slash_floors_total s v : new_total s v D18 = 0.
Proof. exact (full_slash_total s v). Qed.
Print Assumptions full_slash_floors_total.

(* the class predicate evaluated by the check on the model's state IS "the new total is zero" *)
Theorem slash_class_is_zero_total su w v p w' : winv su w -> step su w (Slash v p) = SOk w' ->
  slash_floors_total_to_zero su w (Some (Slash v p)) = (new_total (w_st w) v p =? 0).
Proof. exact (class_is_zero_total su w v p w'). Qed.
Print Assumptions slash_class_is_zero_total.

(* F9 — the full clause "at least the scaled value rounded down to whole tokens" is FALSE of the faithful model ... *)
Theorem slash_scaled_value_kept_refuted : ~ slash_scaled_value_kept.
Proof. exact slash_scaled_value_kept_refuted_lemma. Qed.
Print Assumptions slash_scaled_value_kept_refuted.

(* ... and holds in every history outside the class DriftWipe (together with the matching upper bound) *)
Theorem slash_scaled_value_kept_partial su w0 w v p w' :
  init_world su = SOk w0 -> reach su w0 w -> step su w (Slash v p) = SOk w' ->
  slash_floors_total_to_zero su w (Some (Slash v p)) = false ->
  forall d, disp (w_st w) d v * (D18 - p) / D18 <= disp (w_st w') d v /\
            disp (w_st w') d v <= (disp (w_st w) d v + 1) * (D18 - p) / D18.
Proof. exact (slash_scaled_value_kept_guarded_lemma su w0 w v p w'). Qed.
Print Assumptions slash_scaled_value_kept_partial.

(* F8 — the full clause "already accrued rewards are unchanged" is FALSE of the faithful model ... *)
Theorem slash_rewards_kept_always_refuted : ~ slash_rewards_kept_always.
Proof. exact slash_rewards_kept_always_refuted_lemma. Qed.
Print Assumptions slash_rewards_kept_always_refuted.

(* ... and holds in every history outside the class TotalSlashWithRewards: the pending reward shown for
   every delegator of the slashed validator is what it was *)
Theorem slash_rewards_kept_partial su w0 w v p w' :
  init_world su = SOk w0 -> reach su w0 w -> step su w (Slash v p) = SOk w' ->
  slash_floors_total_to_zero su w (Some (Slash v p)) = false ->
  forall d x, q_rewards (params_of su) (w_now w) (w_st w) d v = SOk x ->
              q_rewards (params_of su) (w_now w') (w_st w') d v = SOk x.
Proof. exact (slash_rewards_kept_guarded_lemma su w0 w v p w'). Qed.
Print Assumptions slash_rewards_kept_partial.

(* "whole and drift-free" (whole_ok s v: every share of validator v is a whole number of tokens AND the
   validator's total equals the sum of the shares) is kept by a slash of ANY validator provided the scaled values
   (1 - p) * displayed of the slashed validator are whole — and by every other operation (Chk16W.wh_step); it is
   what justifies the oracle's bookkeeping of "validators whose shares are still whole" (o_frac) *)
Theorem slash_keeps_whole_and_driftfree P now s v p s' v' :
  stakers_ok s -> exec_slash P now s v p = SOk s' -> whole_ok s v' ->
  (v' = v -> forall d, (disp s d v * (D18 - p)) mod D18 = 0) -> whole_ok s' v'.
Proof. exact (slash_whole P now s v p s' v'). Qed.
Print Assumptions slash_keeps_whole_and_driftfree.

(* the oracle on the model's own run, for ALL scenarios and histories within the arithmetic bounds, ALL TWELVE
   clauses the check c16 evaluates (C16_clauses): no panic (1), failed calls change nothing (2), payouts of scaled
   queue entries (8), invalid slash rejected (20), valid slash succeeds (28), never increases (21), frame (22),
   lower bound (23), upper bound / exactness while the shares are whole (24), accrued rewards kept (25), p = 1
   removes (26), genesis (0): the ONLY failures are clause-23 / clause-25 failures at a slash that floors the
   validator's total to zero in a reachable world — exactly the two known classes DriftWipe (F9) and
   TotalSlashWithRewards (F8).  Clause 24 never fails: along every history, every validator the oracle has not
   marked fractional is whole and drift-free. *)
Theorem C16_model_ok su ops w0 m0 :
  setup_ok su -> NoDup (acct_ids su) -> Forall (scoped su) ops ->
  init_world su = SOk w0 -> model_snap su w0 = SOk m0 -> clean (model_run su w0 m0 ops) ->
  Forall (known16_somewhere su w0 ops) (filter (in_set C16_clauses) (oracle su ops m0 (map fst (model_run su w0 m0 ops)))).
Proof. exact (model_ok_16_full_lemma su ops w0 m0). Qed.
Print Assumptions C16_model_ok.

(* ---------- non-vacuity ---------- *)

(* a reachable world with three delegations on two validators, accrued rewards and two pending unbondings *)
Definition ex16_su : setup :=
  mkSetup 100 100000000000000000 [(1, 100000000000000000); (2, 200000000000000000)] [(1, 1000); (2, 1000)] [1; 2] 1571797419879305533 USTAKE XDEN.
Definition ex16_ops : list op :=
  [Delegate 1 1 150 true; Delegate 1 2 15 true; Delegate 2 1 70 true; Advance 31536000000000000;
   Undelegate 1 1 5 true; Undelegate 1 2 5 true].
Definition ex16_w0 : world := Eval vm_compute in ok_or_dummy (init_world ex16_su).
Definition ex16_w : world := Eval vm_compute in world_of ex16_su ex16_ops.
Definition ex16_p : N := 333333333333333333.
Definition ex16_w' : world := Eval vm_compute in ok_or_dummy (step ex16_su ex16_w (Slash 1 ex16_p)).

Example ex16_init : init_world ex16_su = SOk ex16_w0. Proof. vm_compute. reflexivity. Qed.
Example ex16_reach : reach ex16_su ex16_w0 ex16_w.
Proof. apply (run_all_reach ex16_su ex16_ops). vm_compute. reflexivity. Qed.
Example ex16_stakers_ok : stakers_ok (w_st ex16_w) /\ last_ok (w_now ex16_w) (w_st ex16_w).
Proof.
  pose proof (reach_inv ex16_su ex16_w0 ex16_w (init_world_inv _ _ ex16_init) ex16_reach) as I.
  split; [apply (inv_stakers _ _ _ I)|apply (inv_last _ _ _ I)].
Qed.
Example ex16_slash :
  exec_slash (params_of ex16_su) (w_now ex16_w) (w_st ex16_w) 1 ex16_p = SOk (w_st ex16_w') /\
  step ex16_su ex16_w (Slash 1 ex16_p) = SOk ex16_w' /\
  new_total (w_st ex16_w) 1 ex16_p = 143 /\
  slash_floors_total_to_zero ex16_su ex16_w (Some (Slash 1 ex16_p)) = false /\
  (* a fractional share, a whole one (k = 70 is not whole after scaling), rewards kept, queue entry of validator 1 scaled *)
  stake_of (w_st ex16_w) 1 1 = 145 * D18 /\ stake_of (w_st ex16_w') 1 1 = 96666666666666666715 /\
  disp (w_st ex16_w') 1 1 = 96 /\ disp (w_st ex16_w') 2 1 = 46 /\ disp (w_st ex16_w') 1 2 = 10 /\
  q_rewards (params_of ex16_su) (w_now ex16_w) (w_st ex16_w) 1 1 = SOk (Some 13) /\
  q_rewards (params_of ex16_su) (w_now ex16_w') (w_st ex16_w') 1 1 = SOk (Some 13) /\
  map u_amt (s_queue (w_st ex16_w)) = [5; 5] /\ map u_amt (s_queue (w_st ex16_w')) = [3; 5].
Proof. repeat split; vm_compute; reflexivity. Qed.
(* the total-removal case and the two refuted clauses have the witnesses f8_witness / f9_witness (Chk16.v) *)
Example ex16_total :
  new_total (w_st f8_w) 1 D18 = 0 /\ step f8_su f8_w (Slash 1 D18) = SOk f8_w' /\ get_stake 1 1 (w_st f8_w') = None /\
  slash_floors_total_to_zero f8_su f8_w (Some (Slash 1 D18)) = true /\
  slash_floors_total_to_zero f9_su f9_w (Some (Slash 1 500000000000000000)) = true.
Proof. repeat split; vm_compute; reflexivity. Qed.
Example ex16_invalid :
  exec_slash (params_of ex16_su) (w_now ex16_w) (w_st ex16_w) 1 (D18 + 1) = SErr /\
  exec_slash (params_of ex16_su) (w_now ex16_w) (w_st ex16_w) 9 ex16_p = SErr.
Proof. split; vm_compute; reflexivity. Qed.

(* the hypotheses of C16_model_ok: the example scenario with a fractional slash, payouts, a total slash *)
Definition ex16_ops2 : list op :=
  ex16_ops ++ [Slash 1 ex16_p; Slash 2 0; Slash 1 (D18 + 1); Advance 100000000000; Slash 2 D18; Withdraw 1 1].
Definition ex16_m0 : snap := Eval vm_compute in match model_snap ex16_su ex16_w0 with SOk m => m | _ => mkSnap [] [] [] [] 0 0 [] [] end.
Definition ex16_run2 : list (oc * snap * world) := Eval vm_compute in model_run ex16_su ex16_w0 ex16_m0 ex16_ops2.
Example ex16_run2_eq : model_run ex16_su ex16_w0 ex16_m0 ex16_ops2 = ex16_run2. Proof. vm_compute. reflexivity. Qed.
Example ex16_model_ok_hyps :
  setup_ok ex16_su /\ NoDup (acct_ids ex16_su) /\ Forall (scoped ex16_su) ex16_ops2 /\
  model_snap ex16_su ex16_w0 = SOk ex16_m0 /\ clean (model_run ex16_su ex16_w0 ex16_m0 ex16_ops2) /\
  map (fun x : oc * snap * world => fst (fst x)) ex16_run2 = [OOk; OOk; OOk; OOk; OOk; OOk; OOk; OOk; OErr; OOk; OOk; OOk] /\
  (* the total slash of validator 2 loses delegator 1's accrued reward there: one known-class failure *)
  map (fun kf : N * fail => (fst kf, fst (fst (snd kf)))) (filter (in_set C16_clauses) (oracle ex16_su ex16_ops2 ex16_m0 (map fst ex16_run2))) = [(11, 25)] /\
  (* the world before the fractional slash is whole and drift-free for validator 1, and 145 * (1 - p) is not whole *)
  whole_ok (w_st ex16_w) 1 /\ (disp (w_st ex16_w) 1 1 * (D18 - ex16_p)) mod D18 <> 0.
Proof.
  split; [apply setup_okb; vm_compute; reflexivity|]. split; [apply nodupb_ok; vm_compute; reflexivity|].
  split; [apply scopedb_ok; vm_compute; reflexivity|]. split; [vm_compute; reflexivity|].
  split; [rewrite ex16_run2_eq; apply cleanb_ok; vm_compute; reflexivity|].
  split; [vm_compute; reflexivity|]. split; [vm_compute; reflexivity|]. split.
  - apply whole_okb_ok. vm_compute. reflexivity.
  - vm_compute. discriminate.
Qed.
