(* Properties/C07.v — pinned statements for C07 (namespaced / prefixed storage views are exact,
   disjoint windows onto the base store).  Only statements, `exact <lemma>`, Print Assumptions and
   non-vacuity examples live here.  Model and lemmas: Prefix.v; check: Chk07.v. *)
From Verif Require Import Base OMap Tx Prefix Chk07.
From Coq Require Import Sorted.

Notation B_sorted := (sorted bcmp).

(* ---------- the length-prefixed encoding ---------- *)

(* the two constructors of the code (`to_length_prefixed`, the loop of `to_length_prefixed_nested`)
   compute the recursive [enc_path] used in every statement below *)
Theorem encodings_agree s p :
  to_length_prefixed s = enc_path [s] /\ to_length_prefixed_nested p = enc_path p.
Proof. exact (conj (single_eq s) (nested_eq p)). Qed.
Print Assumptions encodings_agree.

(* encoding a path panics (None) exactly when some segment is longer than 65535 bytes *)
Theorem enc_path_defined p : wf_path p <-> exists ns, enc_path p = Some ns.
Proof. exact (enc_path_wf p). Qed.
Print Assumptions enc_path_defined.

Theorem enc_path_app p q : enc_path (p ++ q) = oapp (enc_path p) (enc_path q).
Proof. exact (enc_path_app_lemma p q). Qed.
Print Assumptions enc_path_app.

(* prefix-freeness: raw keys under two encodable paths coincide only if one path extends the
   other — whatever bytes the segments and the keys contain *)
Theorem enc_path_prefix_free p1 p2 n1 n2 k1 k2 :
  enc_path p1 = Some n1 -> enc_path p2 = Some n2 -> n1 ++ k1 = n2 ++ k2 ->
  seg_prefix p1 p2 \/ seg_prefix p2 p1.
Proof. exact (prefix_free p1 p2 n1 n2 k1 k2). Qed.
Print Assumptions enc_path_prefix_free.

(* ---------- which raw keys belong to a namespace, as an interval ---------- *)

(* for every ns that is not all-0xFF (nor empty): starts_with ns = the interval [ns, tight_upper ns) *)
Theorem prefix_interval_tight ns r u : tight_upper ns = Some u -> wf_bytes r = true ->
  (is_prefix ns r = true <-> bcmp ns r <> Gt /\ bcmp r u = Lt).
Proof. exact (interval_tight ns r u). Qed.
Print Assumptions prefix_interval_tight.

(* for an empty or all-0xFF ns there is no upper bound: starts_with ns = [ns, oo) *)
Theorem prefix_interval_all_ff ns r : all_ff ns = true -> wf_bytes r = true ->
  (is_prefix ns r = true <-> bcmp ns r <> Gt).
Proof. exact (interval_all_ff ns r). Qed.
Print Assumptions prefix_interval_all_ff.

(* what the code does for `end = None` — base range [ns, namespace_upper_bound ns), or [ns, oo) when
   all bytes are 255, THEN the starts_with filter — selects exactly the tight interval, which is
   exactly the namespace.  (Without the filter it does not: see [loose_interval_needs_filter].) *)
Theorem code_interval_filter ns r : wf_bytes r = true ->
  in_bounds bcmp (Some ns) (range_end ns None) r && is_prefix ns r = in_bounds bcmp (Some ns) (tight_upper ns) r /\
  in_bounds bcmp (Some ns) (tight_upper ns) r = is_prefix ns r.
Proof. exact (fun W => conj (code_interval ns r W) (is_prefix_tight_bounds ns r W)). Qed.
Print Assumptions code_interval_filter.

(* every key of the namespace is below the code's upper bound (so the base range loses nothing) *)
Theorem upper_bound_covers ns r : all_ff ns = false -> bcmp (ns ++ r) (upper_bound ns) = Lt.
Proof. exact (below_upper_bound ns r). Qed.
Print Assumptions upper_bound_covers.

(* an explicit end bound keeps the base range inside the namespace, for any ns *)
Theorem bounded_end_stays_inside ns s e r :
  bcmp (ns ++ s) r <> Gt -> bcmp r (ns ++ e) = Lt -> is_prefix ns r = true.
Proof. exact (bounded_inside ns s e r). Qed.
Print Assumptions bounded_end_stays_inside.

(* ---------- single operations: mechanism = ordered-map operation on the window ---------- *)

Theorem view_get_spec {V} ns (m : list (bytes * V)) k : v_get ns m k = assoc bcmp k (window ns m).
Proof. exact (v_get_spec ns m k). Qed.
Print Assumptions view_get_spec.

(* set: the window changes by insert, the complement of the window is the same list *)
Theorem view_set_spec {V} ns (m : list (bytes * V)) k v : B_sorted m ->
  B_sorted (v_set ns m k v) /\
  window ns (v_set ns m k v) = insert bcmp k v (window ns m) /\
  outside ns (v_set ns m k v) = outside ns m.
Proof. exact (v_set_spec ns m k v). Qed.
Print Assumptions view_set_spec.

Theorem view_remove_spec {V} ns (m : list (bytes * V)) k : B_sorted m ->
  B_sorted (v_remove ns m k) /\
  window ns (v_remove ns m k) = delete bcmp k (window ns m) /\
  outside ns (v_remove ns m k) = outside ns m.
Proof. exact (v_remove_spec ns m k). Qed.
Print Assumptions view_remove_spec.

(* range: FULL statement, no side condition — every namespace (empty, all-0xFF, ending in 0xFF),
   every base content (raw keys shorter than ns, proper prefixes of the upper bound, ...), every
   bound pair (absent, equal, inverted), both orders; and the slice index in `trim` never panics *)
Theorem view_range_spec {V} ns (m : list (bytes * V)) s e o :
  v_range ns m s e o = Ok (spec_range bcmp (window ns m) s e o).
Proof. exact (v_range_spec ns m s e o). Qed.
Print Assumptions view_range_spec.

(* ---------- every client program ---------- *)

(* ANY program over the Storage API (reads, ranges, writes, nested transactional blocks, reads of
   the stores below them) run through the view [ns] on base [m] behaves exactly as the same program
   run on the plain ordered map [window ns m]: same result or same failure; afterwards the window
   is what the program made of it, the complement of the window is the very same list, i.e. the
   base is [m] with its window replaced *)
Theorem view_lens {V} E A (p : prog (K := bytes) (V := V) E A) ns outer (m : list (bytes * V)) :
  B_sorted m -> Forall B_sorted outer ->
  match run_flat bcmp (lift_view ns p) outer m, run_flat bcmp p (map (window ns) outer) (window ns m) with
  | Done a m', Done a' w' =>
      a = a' /\ B_sorted m' /\ window ns m' = w' /\ outside ns m' = outside ns m /\ m' = replace_window ns w' m
  | Failed e, Failed e' => e = e'
  | _, _ => False
  end.
Proof. exact (lens E A p ns outer m). Qed.
Print Assumptions view_lens.

(* [replace_window] means what its name says *)
Theorem replace_window_spec {V} ns (w m : list (bytes * V)) r : B_sorted m ->
  B_sorted (replace_window ns w m) /\
  assoc bcmp r (replace_window ns w m) =
    match strip ns r with Some k => assoc bcmp k w | None => assoc bcmp r m end.
Proof. exact (fun H => conj (replace_window_sorted ns w m H) (assoc_replace_window ns w m r H)). Qed.
Print Assumptions replace_window_spec.

(* ---------- different paths ---------- *)

(* non-comparable paths: no raw key lies in both windows, and anything that leaves the complement
   of one window alone (every write through that view does) leaves the other window unchanged *)
Theorem views_disjoint {V} p1 p2 n1 n2 :
  enc_path p1 = Some n1 -> enc_path p2 = Some n2 -> ~ seg_prefix p1 p2 -> ~ seg_prefix p2 p1 ->
  (forall r, is_prefix n1 r = true -> is_prefix n2 r = true -> False) /\
  (forall m m' : list (bytes * V), outside n1 m' = outside n1 m -> window n2 m' = window n2 m).
Proof.
  exact (fun E1 E2 N1 N2 =>
    conj (fun r => no_common_key p1 p2 n1 n2 r E1 E2 N1 N2)
         (fun m m' => disjoint_frame n1 n2 m m' (fun r => no_common_key p1 p2 n1 n2 r E1 E2 N1 N2))).
Qed.
Print Assumptions views_disjoint.

(* ... in particular every client program through the first view leaves the second view's window
   exactly as it was *)
Theorem views_disjoint_programs {V} E A (p : prog (K := bytes) (V := V) E A) p1 p2 n1 n2 outer (m : list (bytes * V)) :
  enc_path p1 = Some n1 -> enc_path p2 = Some n2 -> ~ seg_prefix p1 p2 -> ~ seg_prefix p2 p1 ->
  B_sorted m -> Forall B_sorted outer ->
  match run_flat bcmp (lift_view n1 p) outer m with
  | Done _ m' => window n2 m' = window n2 m
  | Failed _ => True
  end.
Proof.
  exact (fun E1 E2 N1 N2 =>
    disjoint_program p n1 n2 outer m (fun r => no_common_key p1 p2 n1 n2 r E1 E2 N1 N2)).
Qed.
Print Assumptions views_disjoint_programs.

(* an extension path is precisely a sub-window of the shorter one *)
Theorem views_nested {V} p q np nq (m : list (bytes * V)) :
  enc_path p = Some np -> enc_path q = Some nq ->
  enc_path (p ++ q) = Some (np ++ nq) /\ window (np ++ nq) m = window nq (window np m).
Proof.
  exact (fun Ep Eq =>
    conj (eq_trans (enc_path_app_lemma p q) (f_equal2 oapp Ep Eq)) (window_app np nq m)).
Qed.
Print Assumptions views_nested.

(* read-only views reject writes: a panic, and the raw store is the same value *)
Theorem readonly_rejects raw v k x : (exists ns, vprefix v = Some ns) ->
  m_step raw (VSet v false k x) = (APanic, raw) /\ m_step raw (VDel v false k) = (APanic, raw).
Proof. exact (readonly_step raw v k x). Qed.
Print Assumptions readonly_rejects.

(* ---------- what the correspondence check relies on ---------- *)

(* the property oracle accepts the mechanism model's own output on ALL inputs *)
Theorem C07_model_ok ops : oracle [] ops (run_model [] ops) 0 = None.
Proof. exact (model_ok ops). Qed.
Print Assumptions C07_model_ok.

(* hence a case the check calls Agree is one where the implementation's observations equal the
   model's and satisfy the property oracle *)
Theorem C07_agree_sound ops observed : c07 ops observed = Agree ->
  observed = run_model [] ops /\ oracle [] ops observed 0 = None.
Proof. exact (agree_sound ops observed). Qed.
Print Assumptions C07_agree_sound.

(* ---------- long-lived view objects (second pass of the harness) ---------- *)

(* the long-lived oracle — [ok_step] where the raw dump is shown, the answer and the raw store the
   property demands where it is withheld — accepts EVERY well-shaped partial view of the mechanism
   model's own output: whatever the script, whichever dumps are withheld between operations on one view *)
Theorem C07_model_ok_ll ops obs : ll_shape ops obs = true ->
  first_diff_ll (run_model [] ops) obs 0 = None -> oracle_ll [] ops obs 0 = None.
Proof. exact (model_ok_ll ops obs). Qed.
Print Assumptions C07_model_ok_ll.

(* ... in particular, for ALL scripts, the model's output with the dumps withheld the way the harness
   withholds them (maximal runs of consecutive operations on one view share one object) *)
Theorem C07_model_ok_runs ops : oracle_ll [] ops (hide_runs ops (run_model [] ops)) 0 = None.
Proof. exact (model_ok_ll_runs ops). Qed.
Print Assumptions C07_model_ok_runs.

(* a case with both passes that the check calls Agree: both passes equal the model's output (the
   second wherever it shows something) and both satisfy the property oracle *)
Theorem C07_agree_sound_ll ops observed observed_ll : c07l ops observed observed_ll = Agree ->
  observed = run_model [] ops /\ oracle [] ops observed 0 = None /\
  ll_shape ops observed_ll = true /\ first_diff_ll (run_model [] ops) observed_ll 0 = None /\
  oracle_ll [] ops observed_ll 0 = None.
Proof. exact (agree_sound_ll ops observed observed_ll). Qed.
Print Assumptions C07_agree_sound_ll.

(* ---------- non-vacuity: the hypotheses are met by concrete non-trivial objects ---------- *)
Local Open Scope N_scope.

(* a base holding: a raw key shorter than the namespace that sorts inside [ns, upper_bound ns) (the F12
   key), two keys of the namespace "f\xff\xff", one of a sibling, one of the extension path *)
Definition ex_ns : bytes := [0; 3; 102; 255; 255].
Definition ex_base : list (bytes * bytes) :=
  [([0; 3; 102; 255; 68; 1], [5]); ([0; 3; 102; 255; 255; 0; 1; 9; 7], [8]); ([0; 3; 102; 255; 255; 98], [1]);
   ([0; 3; 103], [2])].

Example ex_base_sorted : B_sorted ex_base /\ enc_path [[102; 255; 255]] = Some ex_ns /\
  window ex_ns ex_base = [([0; 1; 9; 7], [8]); ([98], [1])] /\
  v_range ex_ns ex_base None None Desc = Ok [([98], [1]); ([0; 1; 9; 7], [8])].
Proof.
  split; [|vm_compute; auto].
  unfold ex_base, sorted; cbn [keys map fst].
  repeat (constructor; [|repeat (constructor; [reflexivity|]); constructor]). constructor.
Qed.

(* the filter is necessary: the F12 key lies in the code's base interval without having the prefix *)
Example loose_interval_needs_filter :
  in_bounds bcmp (Some ex_ns) (range_end ex_ns None) [0; 3; 103] = true /\ is_prefix ex_ns [0; 3; 103] = false /\
  tight_upper ex_ns = Some [0; 3; 103] /\ upper_bound ex_ns = [0; 3; 103; 0; 0].
Proof. vm_compute. auto. Qed.

(* both interval theorems have instances: a namespace with a tight bound, an all-0xFF one, the empty one *)
Example interval_hypotheses_met :
  tight_upper ex_ns = Some [0; 3; 103] /\ wf_bytes [0; 3; 102; 255; 255; 98] = true /\
  all_ff [255; 255] = true /\ all_ff [] = true /\ all_ff ex_ns = false.
Proof. vm_compute. auto 6. Qed.

Example bounded_end_hypotheses_met :
  bcmp (ex_ns ++ [97]) [0; 3; 102; 255; 255; 98] <> Gt /\ bcmp [0; 3; 102; 255; 255; 98] (ex_ns ++ [99]) = Lt.
Proof. vm_compute. split; [discriminate|reflexivity]. Qed.

(* prefix-freeness / disjointness / nesting: encodable, non-comparable and comparable paths exist,
   including a segment that spells the encoding of another path and segments that are prefixes of
   each other *)
Example paths_exist :
  enc_path [[102; 111]; []] = Some [0; 2; 102; 111; 0; 0] /\
  enc_path [[102; 111; 111]] = Some [0; 3; 102; 111; 111] /\
  ~ seg_prefix [[102; 111]; []] [[102; 111; 111]] /\ ~ seg_prefix [[102; 111; 111]] [[102; 111]; []] /\
  enc_path [[0; 1; 97]] = Some [0; 3; 0; 1; 97] /\ enc_path [[97]] = Some [0; 1; 97] /\
  seg_prefix [[102; 111]] [[102; 111]; []] /\
  wf_path [[102; 111]; []].
Proof.
  split; [vm_compute; reflexivity|]. split; [vm_compute; reflexivity|].
  split; [intros [r H]; discriminate|]. split; [intros [r H]; discriminate|].
  split; [vm_compute; reflexivity|]. split; [vm_compute; reflexivity|].
  split; [exists [[]]; reflexivity|].
  repeat constructor; vm_compute; discriminate.
Qed.

(* a segment of 65536 bytes cannot be encoded (the Rust code panics); 65535 bytes can *)
Example too_long_segment :
  enc_path [rle [(7, 65536)]] = None /\ ~ wf_path [rle [(7, 65536)]] /\
  option_map blen (enc_path [rle [(255, 65535)]]) = Some 65537.
Proof.
  assert (E : enc_path [rle [(7, 65536)]] = None) by (vm_compute; reflexivity).
  split; [exact E|]. split; [|vm_compute; reflexivity].
  intros H. apply enc_path_wf in H as [ns H]. rewrite E in H. discriminate.
Qed.

(* a client program: a write, a nested block that deletes and then fails (rolled back), a nested
   block that commits and reads the two stores below it, a range without end bound on a namespace
   ending in 0xFF — run through the view on the base, and on the window alone *)
Definition ex_prog : prog (K := bytes) (V := bytes) N (list (bytes * bytes)) :=
  Write (OSet [122] [3])
    (Nested (Write (ODel [98]) (Range None None Asc (fun _ => Fail 7)))
       (fun _ => Nested (Write (OSet [0] [4])
                           (GetBelow 2 [98] (fun x => RangeBelow 1 (Some [99]) None Asc (fun l =>
                              Ret (match x with Some v => ([], v) :: l | None => [] end)))))
          (fun r => Range None None Desc (fun l => Ret (match r with inr a => a ++ l | inl _ => [] end))))).

Example ex_prog_runs :
  let answer := [([], [1]); ([122], [3]); ([122], [3]); ([98], [1]); ([0; 1; 9; 7], [8]); ([0], [4])] in
  let w' := [([0], [4]); ([0; 1; 9; 7], [8]); ([98], [1]); ([122], [3])] in
  B_sorted ex_base /\ Forall B_sorted [ex_base] /\
  run_flat bcmp (lift_view ex_ns ex_prog) [ex_base] ex_base = Done answer (replace_window ex_ns w' ex_base) /\
  run_flat bcmp ex_prog (map (window ex_ns) [ex_base]) (window ex_ns ex_base) = Done answer w' /\
  replace_window ex_ns w' ex_base =
    [([0; 3; 102; 255; 68; 1], [5]); ([0; 3; 102; 255; 255; 0], [4]); ([0; 3; 102; 255; 255; 0; 1; 9; 7], [8]);
     ([0; 3; 102; 255; 255; 98], [1]); ([0; 3; 102; 255; 255; 122], [3]); ([0; 3; 103], [2])].
Proof.
  cbn zeta. split; [apply ex_base_sorted|]. split; [constructor; [apply ex_base_sorted|constructor]|].
  vm_compute. auto.
Qed.

(* two different (comparable) paths whose windows share a raw key: the hypothesis of prefix-freeness
   has non-trivial instances, and its conclusion is then the extension relation *)
Example prefix_free_hypotheses_met :
  enc_path [[102; 111]] = Some [0; 2; 102; 111] /\ enc_path [[102; 111]; []] = Some [0; 2; 102; 111; 0; 0] /\
  [0; 2; 102; 111] ++ [0; 0; 120] = [0; 2; 102; 111; 0; 0] ++ [120].
Proof. vm_compute. auto. Qed.

(* read-only rejection and the check itself on a small script *)
Example readonly_hypothesis_met : exists ns, vprefix (VMulti [[102; 255; 255]]) = Some ns.
Proof. eexists. vm_compute. reflexivity. Qed.

Example check_runs :
  let ops := [RawSet [0; 3; 103] [2]; VSet (VSingle [102; 255; 255]) true [98] [1];
              VRange (VMulti [[102; 255; 255]]) false None None Asc; VSet (VSingle [102; 255; 255]) false [99] [1];
              VRange (VMulti []) false None None Desc] in
  run_model [] ops =
    [(AUnit, [([0; 3; 103], [2])]);
     (AUnit, [([0; 3; 102; 255; 255; 98], [1]); ([0; 3; 103], [2])]);
     (ARange [([98], [1])], [([0; 3; 102; 255; 255; 98], [1]); ([0; 3; 103], [2])]);
     (APanic, [([0; 3; 102; 255; 255; 98], [1]); ([0; 3; 103], [2])]);
     (ARange [([0; 3; 103], [2]); ([0; 3; 102; 255; 255; 98], [1])], [([0; 3; 102; 255; 255; 98], [1]); ([0; 3; 103], [2])])] /\
  c07 ops (run_model [] ops) = Agree /\
  (* the two repaired defects, as the implementation used to answer, are property failures *)
  c07 [RawSet [7] [1]; VRange (VMulti []) false None None Asc] [(AUnit, [([7], [1])]); (ARange [], [([7], [1])])] = PropFail 1 /\
  c07 [RawSet [0; 3; 103] [2]; VRange (VSingle [102; 255; 255]) false None None Asc]
      [(AUnit, [([0; 3; 103], [2])]); (APanic, [([0; 3; 103], [2])])] = PropFail 1.
Proof. vm_compute. auto. Qed.

(* long-lived views: a run remove(absent key) - set - get - remove(present key) through ONE mutable view
   of "foo" (dump shown only after the last of them), then a run of two reads through one read-only view *)
Definition ex_ll_ops : list op7 :=
  [RawSet [0; 3; 102; 111; 111; 97] [1];
   VDel (VSingle [102; 111; 111]) true [122; 122]; VSet (VSingle [102; 111; 111]) true [98] [2];
   VGet (VSingle [102; 111; 111]) true [98]; VDel (VSingle [102; 111; 111]) true [97];
   VRange (VSingle [102; 111; 111]) false None None Asc; VGet (VSingle [102; 111; 111]) false [97]].
Definition ex_ll_obs : list obs7l :=
  [(AUnit, Some [([0; 3; 102; 111; 111; 97], [1])]);
   (AUnit, None); (AUnit, None); (AGet (Some [2]), None); (AUnit, Some [([0; 3; 102; 111; 111; 98], [2])]);
   (ARange [([98], [2])], None); (AGet None, Some [([0; 3; 102; 111; 111; 98], [2])])].

Example ll_hypotheses_met :
  ll_shape ex_ll_ops ex_ll_obs = true /\ first_diff_ll (run_model [] ex_ll_ops) ex_ll_obs 0 = None /\
  hide_runs ex_ll_ops (run_model [] ex_ll_ops) = ex_ll_obs /\
  c07l ex_ll_ops (run_model [] ex_ll_ops) ex_ll_obs = Agree.
Proof. vm_compute. auto. Qed.

(* what a view object that keeps the key of a remove(absent key) in a scratch buffer shows: the next
   set through the SAME object lands at prefix ++ "zz" ++ "b".  Every answer of the first pass and of
   the long-lived pass up to there is the right one; the dump at the end of the run is a property
   failure (observation 2 + 4 = the fifth of the second pass), and so is a wrong answer inside a run *)
Example ll_check_runs :
  let bad := [([0; 3; 102; 111; 111; 122; 122; 98], [2])] in
  c07l ex_ll_ops (run_model [] ex_ll_ops)
    [(AUnit, Some [([0; 3; 102; 111; 111; 97], [1])]);
     (AUnit, None); (AUnit, None); (AGet None, None); (AUnit, Some bad);
     (ARange [([122; 122; 98], [2])], None); (AGet None, Some bad)] = PropFail (7 + 3) /\
  c07l ex_ll_ops (run_model [] ex_ll_ops)
    [(AUnit, Some [([0; 3; 102; 111; 111; 97], [1])]);
     (AUnit, None); (AUnit, None); (AGet (Some [2]), None); (AUnit, Some bad);
     (ARange [([122; 122; 98], [2])], None); (AGet None, Some bad)] = PropFail (7 + 4) /\
  (* a dump withheld between operations on different views is not an observation of this kind *)
  c07l ex_ll_ops (run_model [] ex_ll_ops)
    [(AUnit, None); (AUnit, None); (AUnit, None); (AGet (Some [2]), None); (AUnit, Some [([0; 3; 102; 111; 111; 98], [2])]);
     (ARange [([98], [2])], None); (AGet None, Some [([0; 3; 102; 111; 111; 98], [2])])] = Disagree (7 + 7).
Proof. vm_compute. auto. Qed.
