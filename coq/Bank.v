(* Bank.v — model of the bank ledger of cw-multi-test (src/bank.rs, non-test part) and of
   cw-utils 2.0.0 NativeBalance (cw-utils-2.0.0/src/balance.rs).  Model + lemmas only; the pinned
   statements of C09 are in Properties/C09.v.

   The model transliterates the code that exists: same order of effects (send = burn THEN mint,
   bank.rs:123-132), same early returns, find-first lookups, explicit Err where the code returns an
   error (checked_sub, missing denom, "Cannot transfer empty coins amount") and explicit Panic where
   it would panic (Uint128 `+` / `+=` is strict_add: cosmwasm-std-2.2.2 math/uint128.rs:274-279,
   371-377, 476-480).  Amounts are unbounded N; the bound is U128 = 2^128. *)
From Verif Require Import Base OMap.
From Coq Require Import Sorted.
Local Open Scope N_scope.

(* `text` (list of Unicode scalar values) is defined in Base.v.  Rust compares Strings by their
   UTF-8 bytes; UTF-8 preserves the order of scalar values, so `bcmp` on texts is String::cmp. *)
Definition coin := (text * N)%type.
Definition coins := list coin.

(* account |-> NativeBalance as stored: the BALANCES map (`Map<&Addr, NativeBalance>`, namespace
   "balances", bank.rs:20) inside the "bank" window (bank.rs:26).  A BTreeMap-backed store iterates
   in key order = byte order of the address, so: a strictly bcmp-sorted association list. *)
Definition bank_state := list (text * coins).
Definition bank_empty : bank_state := [].

Definition U128 : N := 2 ^ 128.

(* ---------- coin lists ---------- *)

(* sum of the amounts of denom d in cs, repeated denoms included *)
Fixpoint tot (d : text) (cs : coins) : N :=
  match cs with
  | [] => 0
  | (d', a) :: r => (if beqb d d' then a else 0) + tot d r
  end.

(* `iter().find(|c| c.denom == denom)`: the FIRST coin of that denom (balance.rs:55-57, bank.rs:240-242).
   OMap.assoc is exactly find-first-equal. *)
Definition find_denom (d : text) (l : coins) : option N := assoc bcmp d l.

Definition amount_of (d : text) (l : coins) : N :=
  match find_denom d l with Some x => x | None => 0 end.

(* balance.rs:28-29  `self.0.retain(|c| c.amount.u128() != 0)`;
   bank.rs:160       `filter(|x| !x.amount.is_zero())` *)
Definition drop_zeros (cs : coins) : coins := filter (fun c => negb (snd c =? 0)) cs.

(* balance.rs:31 `sort_unstable_by(|a, b| a.denom.cmp(&b.denom))`.  The order among coins of EQUAL
   denom is unspecified in Rust; the next step adds them up, so neither the resulting list nor the
   overflow condition (partial sums of non-negative numbers are monotone) depends on it.
   Modelled by a stable insertion sort. *)
Fixpoint ins_coin (c : coin) (l : coins) : coins :=
  match l with
  | [] => [c]
  | c' :: r => match bcmp (fst c) (fst c') with Gt => c' :: ins_coin c r | _ => c :: l end
  end.
Fixpoint sort_coins (cs : coins) : coins :=
  match cs with [] => [] | c :: r => ins_coin c (sort_coins r) end.

(* balance.rs:33-52: every index whose denom equals its predecessor's, processed from the LAST one
   backwards: `self.0[dup - 1].amount += add; self.0.remove(dup)` — a right-to-left accumulation
   with the panicking `+=`. *)
Fixpoint merge_adj (l : coins) : outcome coins :=
  match l with
  | [] => Ok []
  | (d, a) :: r =>
      match merge_adj r with
      | Ok [] => Ok [(d, a)]
      | Ok ((d', a') :: r') =>
          if beqb d d' then (if a + a' <? U128 then Ok ((d, a + a') :: r') else Panic)
          else Ok ((d, a) :: (d', a') :: r')
      | Err => Err
      | Panic => Panic
      end
  end.

(* NativeBalance::normalize, balance.rs:26-53 *)
Definition normalize (cs : coins) : outcome coins := merge_adj (sort_coins (drop_zeros cs)).

(* ops::AddAssign<Coin>, balance.rs:102-115: find-first; found => `c.amount + other.amount`
   (panics on overflow); not found => insert before the first coin with denom >= other.denom
   (insert_pos, balance.rs:62-64), or push *)
Fixpoint add_found (d : text) (a : N) (l : coins) : outcome coins :=
  match l with
  | [] => Ok []                                           (* unreachable: called only when found *)
  | (d', x) :: r =>
      if beqb d d' then (if x + a <? U128 then Ok ((d', x + a) :: r) else Panic)
      else match add_found d a r with Ok r' => Ok ((d', x) :: r') | Err => Err | Panic => Panic end
  end.
Fixpoint insert_at (d : text) (a : N) (l : coins) : coins :=
  match l with
  | [] => [(d, a)]
  | (d', x) :: r => match bcmp d' d with Lt => (d', x) :: insert_at d a r | _ => (d, a) :: l end
  end.
Definition nb_add_coin (l : coins) (c : coin) : outcome coins :=
  match find_denom (fst c) l with
  | Some _ => add_found (fst c) (snd c) l
  | None => Ok (insert_at (fst c) (snd c) l)
  end.

(* ops::AddAssign<NativeBalance> / ops::Add<NativeBalance>, balance.rs:126-141: coin by coin, in order *)
Fixpoint nb_add (l : coins) (other : coins) : outcome coins :=
  match other with
  | [] => Ok l
  | c :: r => match nb_add_coin l c with Ok l' => nb_add l' r | Err => Err | Panic => Panic end
  end.

(* ops::Sub<Coin>, balance.rs:143-164: find-first; checked_sub (Err on underflow); the entry is
   removed when the remainder is zero; Err when the denom is missing *)
Fixpoint set_found (d : text) (v : N) (l : coins) : coins :=
  match l with
  | [] => []
  | (d', x) :: r => if beqb d d' then (d', v) :: r else (d', x) :: set_found d v r
  end.
Fixpoint remove_found (d : text) (l : coins) : coins :=
  match l with
  | [] => []
  | (d', x) :: r => if beqb d d' then r else (d', x) :: remove_found d r
  end.
Definition nb_sub_coin (l : coins) (c : coin) : outcome coins :=
  match find_denom (fst c) l with
  | Some x =>
      if x <? snd c then Err
      else if x - snd c =? 0 then Ok (remove_found (fst c) l)
      else Ok (set_found (fst c) (x - snd c) l)
  | None => Err
  end.

(* ops::Sub<Vec<Coin>>, balance.rs:166-176: coin by coin, first failure aborts *)
Fixpoint nb_sub (l : coins) (amount : coins) : outcome coins :=
  match amount with
  | [] => Ok l
  | c :: r => match nb_sub_coin l c with Ok l' => nb_sub l' r | Err => Err | Panic => Panic end
  end.

(* BankKeeper::normalize_amount, bank.rs:159-166: drop zero coins; Err if nothing is left *)
Definition normalize_amount (amount : coins) : outcome coins :=
  match drop_zeros amount with [] => Err | res => Ok res end.

(* ---------- the keeper ---------- *)

(* get_balance, bank.rs:99-102: may_load(..).unwrap_or_default() *)
Definition get_balance (s : bank_state) (a : text) : coins :=
  match assoc bcmp a s with Some l => l | None => [] end.

(* set_balance, bank.rs:73-84: normalize, then save — ALSO when the normalized list is empty
   (an account that burnt everything stays in the map with the value `[]`) *)
Definition set_balance (s : bank_state) (a : text) (amount : coins) : outcome bank_state :=
  match normalize amount with
  | Ok b => Ok (insert bcmp a b s)
  | Err => Err
  | Panic => Panic
  end.

(* init_balance, bank.rs:62-70: overwrites the account's balance with the normalized list *)
Definition bank_init (s : bank_state) (a : text) (amount : coins) : outcome bank_state :=
  set_balance s a amount.

(* mint, bank.rs:134-144 *)
Definition bank_mint (s : bank_state) (to : text) (amount : coins) : outcome bank_state :=
  match normalize_amount amount with
  | Ok am =>
      match nb_add (get_balance s to) am with
      | Ok b => set_balance s to b
      | Err => Err
      | Panic => Panic
      end
  | Err => Err
  | Panic => Panic
  end.

(* burn, bank.rs:146-156 *)
Definition bank_burn (s : bank_state) (from : text) (amount : coins) : outcome bank_state :=
  match normalize_amount amount with
  | Ok am =>
      match nb_sub (get_balance s from) am with
      | Ok b => set_balance s from b
      | Err => Err
      | Panic => Panic
      end
  | Err => Err
  | Panic => Panic
  end.

(* send, bank.rs:123-132: the debit comes first; `?` returns its error before any credit *)
Definition bank_send (s : bank_state) (from to : text) (amount : coins) : outcome bank_state :=
  match bank_burn s from amount with
  | Ok s1 => bank_mint s1 to amount
  | Err => Err
  | Panic => Panic
  end.

(* ---------- queries (bank.rs:220-270; the addr_validate of the query arms is API-level and is
   handled by the caller of these functions) ---------- *)

(* BankQuery::AllBalances, bank.rs:231-236: the stored vector as it is *)
Definition bank_all (s : bank_state) (a : text) : coins := get_balance s a.

(* BankQuery::Balance, bank.rs:237-246: find-first, else coin(0, denom) *)
Definition bank_balance (s : bank_state) (a : text) (d : text) : N := amount_of d (get_balance s a).

(* BankQuery::Supply / get_supply, bank.rs:104-121: over ALL entries of the map, the subtotal of
   the coins whose denom matches, added up.  (`subtotal += ..` and `accum + subtotal` panic at 2^128;
   the function below is the unbounded sum, [bank_supply_o] the outcome with the bound.) *)
Fixpoint bank_supply (s : bank_state) (d : text) : N :=
  match s with
  | [] => 0
  | (_, l) :: r => tot d l + bank_supply r d
  end.
Definition bank_supply_o (s : bank_state) (d : text) : outcome N :=
  if bank_supply s d <? U128 then Ok (bank_supply s d) else Panic.

(* ---------- the invariant ---------- *)

Definition wf_coins (l : coins) : Prop := sorted bcmp l /\ Forall (fun c => 0 < snd c) l.

(* sorted accounts; every stored coin list strictly denom-sorted with positive amounts.
   Empty lists ARE allowed as values (set_balance saves them, see above). *)
Definition bank_wf (s : bank_state) : Prop := sorted bcmp s /\ Forall (fun e => wf_coins (snd e)) s.

(* ====================================================================================== *)
(* LEMMAS *)

(* ---------- instances of the OMap lemmas at bcmp ---------- *)

Lemma bcmp_refl a : bcmp a a = Eq. Proof. apply bcmp_eq. reflexivity. Qed.
Lemma beqb_refl a : beqb a a = true. Proof. apply beqb_eq. reflexivity. Qed.
Lemma beqb_sym a b : beqb a b = beqb b a.
Proof.
  destruct (beqb a b) eqn:E; symmetry.
  - apply beqb_eq in E. subst. apply beqb_refl.
  - destruct (beqb b a) eqn:E2; [|reflexivity]. apply beqb_eq in E2. subst. rewrite beqb_refl in E. discriminate.
Qed.
Lemma beqb_false_ne a b : beqb a b = false -> a <> b.
Proof. intros H E. subst. rewrite beqb_refl in H. discriminate. Qed.
Lemma beqb_bcmp a b : beqb a b = match bcmp a b with Eq => true | _ => false end.
Proof. reflexivity. Qed.

Lemma b_insert_sorted {A} k (a : A) l : sorted bcmp l -> sorted bcmp (insert bcmp k a l).
Proof. apply insert_sorted; [apply bcmp_eq|apply bcmp_anti|apply bcmp_trans]. Qed.
Lemma b_assoc_insert {A} k (a : A) l x : sorted bcmp l ->
  assoc bcmp x (insert bcmp k a l) = if beqb x k then Some a else assoc bcmp x l.
Proof. intros H. rewrite assoc_insert by (try apply bcmp_eq; exact H). rewrite beqb_bcmp. destruct (bcmp x k); reflexivity. Qed.
Lemma b_assoc_delete {A} k (l : list (bytes * A)) x : sorted bcmp l ->
  assoc bcmp x (delete bcmp k l) = if beqb x k then None else assoc bcmp x l.
Proof.
  intros H. rewrite assoc_delete by (try apply bcmp_eq; try apply bcmp_trans; exact H).
  rewrite beqb_bcmp. destruct (bcmp x k); reflexivity.
Qed.

Lemma assoc_in {A} k (l : list (bytes * A)) v : assoc bcmp k l = Some v -> In (k, v) l.
Proof.
  induction l as [|[k' v'] l IH]; cbn; [discriminate|].
  destruct (bcmp k k') eqn:E; intros H; try (right; apply IH, H).
  apply bcmp_eq in E. subst. injection H as ->. left. reflexivity.
Qed.

Lemma Forall_insert {A} (P : bytes * A -> Prop) k v l : Forall P l -> P (k, v) -> Forall P (insert bcmp k v l).
Proof.
  intros Hl Hp. induction l as [|[k' v'] l IH]; cbn; [constructor; [exact Hp|constructor]|].
  inversion Hl as [|? ? H1 H2]; subst. destruct (bcmp k k'); constructor; auto.
Qed.
Lemma Forall_delete {A} (P : bytes * A -> Prop) k l : Forall P l -> Forall P (delete bcmp k l).
Proof.
  intros Hl. induction l as [|[k' v'] l IH]; cbn; [constructor|].
  inversion Hl as [|? ? H1 H2]; subst. destruct (bcmp k k'); auto.
Qed.

(* ---------- tot ---------- *)

Definition pos_coins (cs : coins) : Prop := Forall (fun c : coin => 0 < snd c) cs.

Lemma tot_app d l1 l2 : tot d (l1 ++ l2) = tot d l1 + tot d l2.
Proof. induction l1 as [|[d' a] l1 IH]; cbn [app tot]; [reflexivity|]. rewrite IH. lia. Qed.

Lemma tot_drop_zeros d cs : tot d (drop_zeros cs) = tot d cs.
Proof.
  induction cs as [|[d' a] cs IH]; cbn [drop_zeros filter tot snd]; [reflexivity|].
  fold (drop_zeros cs). destruct (a =? 0) eqn:E; cbn [negb tot].
  - apply N.eqb_eq in E. subst a. rewrite IH. destruct (beqb d d'); reflexivity.
  - rewrite IH. reflexivity.
Qed.

Lemma drop_zeros_pos cs : pos_coins (drop_zeros cs).
Proof.
  unfold pos_coins, drop_zeros. apply Forall_forall. intros c Hc. apply filter_In in Hc as [_ Hc].
  apply negb_true_iff, N.eqb_neq in Hc. lia.
Qed.

Lemma drop_zeros_id cs : pos_coins cs -> drop_zeros cs = cs.
Proof.
  unfold pos_coins, drop_zeros. induction cs as [|c cs IH]; cbn; intros H; [reflexivity|].
  inversion H as [|? ? H1 H2]; subst. replace (snd c =? 0) with false by (symmetry; apply N.eqb_neq; lia).
  cbn. rewrite IH by exact H2. reflexivity.
Qed.

(* some amount is positive *)
Definition has_pos (cs : coins) : bool := existsb (fun c : coin => 0 <? snd c) cs.

Lemma has_pos_iff cs : has_pos cs = true <-> exists c, In c cs /\ 0 < snd c.
Proof.
  unfold has_pos. rewrite existsb_exists. split; intros [c [H1 H2]]; exists c; split; auto.
  - apply N.ltb_lt, H2.
  - apply N.ltb_lt, H2.
Qed.

Lemma has_pos_drop cs : has_pos cs = match drop_zeros cs with [] => false | _ => true end.
Proof.
  induction cs as [|[d a] cs IH]; cbn [has_pos existsb drop_zeros filter snd]; [reflexivity|].
  fold (has_pos cs). fold (drop_zeros cs). destruct (a =? 0) eqn:E; cbn [negb].
  - apply N.eqb_eq in E. subst a. cbn. exact IH.
  - apply N.eqb_neq in E. replace (0 <? a) with true by (symmetry; apply N.ltb_lt; lia). reflexivity.
Qed.

Lemma normalize_amount_spec cs :
  normalize_amount cs = if has_pos cs then Ok (drop_zeros cs) else Err.
Proof. unfold normalize_amount. rewrite has_pos_drop. destruct (drop_zeros cs); reflexivity. Qed.

Lemma tot_not_in d cs : ~ In d (map fst cs) -> tot d cs = 0.
Proof.
  induction cs as [|[d' a] cs IH]; cbn [map fst tot In]; intros H; [reflexivity|].
  rewrite IH by tauto. destruct (beqb d d') eqn:E; [|reflexivity].
  apply beqb_eq in E. subst. tauto.
Qed.

(* no denomination is taken below zero: for every denom mentioned, its TOTAL fits *)
Definition covers (held : text -> N) (cs : coins) : bool :=
  forallb (fun c : coin => tot (fst c) cs <=? held (fst c)) cs.

Lemma covers_iff held cs : covers held cs = true <-> forall d, tot d cs <= held d.
Proof.
  unfold covers. rewrite forallb_forall. split.
  - intros H d. destruct (in_dec (list_eq_dec N.eq_dec) d (map fst cs)) as [Hi|Hn].
    + apply in_map_iff in Hi as [c [<- Hc]]. apply N.leb_le, H, Hc.
    + rewrite tot_not_in by exact Hn. lia.
  - intros H c _. apply N.leb_le, H.
Qed.

Lemma covers_false held cs : covers held cs = false -> exists d, held d < tot d cs.
Proof.
  unfold covers. intros H.
  assert (G : forall l, forallb (fun c : coin => tot (fst c) cs <=? held (fst c)) l = false ->
                        exists d, held d < tot d cs).
  { induction l as [|c l IH]; cbn; [discriminate|]. intros E. apply andb_false_iff in E as [E|E].
    - exists (fst c). apply N.leb_gt, E.
    - apply IH, E. }
  exact (G cs H).
Qed.

(* ---------- well-formed coin lists: tot = find-first ---------- *)

Lemma wf_coins_nil : wf_coins []. Proof. split; constructor. Qed.

Lemma wf_coins_inv d a l : wf_coins ((d, a) :: l) -> wf_coins l /\ Forall (lt bcmp d) (keys l) /\ 0 < a.
Proof.
  intros [Hs Hp]. apply sorted_inv in Hs as [Hs Hb]. inversion Hp as [|? ? H1 H2]; subst.
  repeat split; assumption.
Qed.

Lemma amount_of_cons d d' a l :
  amount_of d ((d', a) :: l) = if beqb d d' then a else amount_of d l.
Proof. unfold amount_of, find_denom. cbn [assoc]. rewrite beqb_bcmp. destruct (bcmp d d'); reflexivity. Qed.

Lemma amount_of_none_lt d l : Forall (lt bcmp d) (keys l) -> amount_of d l = 0.
Proof. intros H. unfold amount_of, find_denom. rewrite assoc_none_lt by exact H. reflexivity. Qed.

Lemma tot_amount_of d l : sorted bcmp l -> tot d l = amount_of d l.
Proof.
  induction l as [|[d' a] l IH]; intros H; [reflexivity|].
  apply sorted_inv in H as [Hs Hb]. cbn [tot]. rewrite amount_of_cons, IH by exact Hs.
  destruct (beqb d d') eqn:E; [|lia]. apply beqb_eq in E. subst d'.
  rewrite amount_of_none_lt by exact Hb. lia.
Qed.

Lemma amount_of_insert d v l x : sorted bcmp l ->
  amount_of x (insert bcmp d v l) = if beqb x d then v else amount_of x l.
Proof. intros H. unfold amount_of, find_denom. rewrite b_assoc_insert by exact H. destruct (beqb x d); reflexivity. Qed.

Lemma amount_of_delete d l x : sorted bcmp l ->
  amount_of x (delete bcmp d l) = if beqb x d then 0 else amount_of x l.
Proof. intros H. unfold amount_of, find_denom. rewrite b_assoc_delete by exact H. destruct (beqb x d); reflexivity. Qed.

Lemma wf_coins_insert d v l : wf_coins l -> 0 < v -> wf_coins (insert bcmp d v l).
Proof. intros [Hs Hp] Hv. split; [apply b_insert_sorted, Hs|apply Forall_insert; assumption]. Qed.

Lemma wf_coins_delete d l : wf_coins l -> wf_coins (delete bcmp d l).
Proof. intros [Hs Hp]. split; [apply delete_sorted, Hs|apply Forall_delete, Hp]. Qed.

(* ---------- the find-first editing functions are the ordered-map operations on sorted lists ---------- *)

Lemma find_lt_none d d' (l : coins) : bcmp d d' = Lt -> Forall (lt bcmp d') (keys l) -> assoc bcmp d l = None.
Proof.
  intros H Hb. apply assoc_none_lt. eapply Forall_lt_trans; [apply bcmp_trans|exact H|exact Hb].
Qed.

Lemma add_found_insert d a l x : sorted bcmp l -> find_denom d l = Some x ->
  add_found d a l = if x + a <? U128 then Ok (insert bcmp d (x + a) l) else Panic.
Proof.
  induction l as [|[d' y] l IH]; intros Hs Hf; [discriminate|].
  apply sorted_inv in Hs as [Hs Hb]. unfold find_denom in Hf. cbn [assoc] in Hf.
  cbn [add_found insert]. rewrite beqb_bcmp. destruct (bcmp d d') eqn:E.
  - injection Hf as ->. apply bcmp_eq in E. subst d'. reflexivity.
  - rewrite (find_lt_none d d' l E Hb) in Hf. discriminate.
  - rewrite (IH Hs Hf). destruct (x + a <? U128); reflexivity.
Qed.

Lemma insert_at_insert d a l : sorted bcmp l -> find_denom d l = None -> insert_at d a l = insert bcmp d a l.
Proof.
  induction l as [|[d' y] l IH]; intros Hs Hf; [reflexivity|].
  apply sorted_inv in Hs as [Hs Hb]. unfold find_denom in Hf. cbn [assoc] in Hf.
  cbn [insert_at insert]. rewrite (bcmp_anti d d'). destruct (bcmp d d') eqn:E; cbn [CompOpp].
  - discriminate.
  - reflexivity.
  - rewrite (IH Hs Hf). reflexivity.
Qed.

Lemma set_found_insert d v l x : sorted bcmp l -> find_denom d l = Some x ->
  set_found d v l = insert bcmp d v l.
Proof.
  induction l as [|[d' y] l IH]; intros Hs Hf; [discriminate|].
  apply sorted_inv in Hs as [Hs Hb]. unfold find_denom in Hf. cbn [assoc] in Hf.
  cbn [set_found insert]. rewrite beqb_bcmp. destruct (bcmp d d') eqn:E.
  - apply bcmp_eq in E. subst d'. reflexivity.
  - rewrite (find_lt_none d d' l E Hb) in Hf. discriminate.
  - rewrite (IH Hs Hf). reflexivity.
Qed.

Lemma remove_found_delete d l x : sorted bcmp l -> find_denom d l = Some x ->
  remove_found d l = delete bcmp d l.
Proof.
  induction l as [|[d' y] l IH]; intros Hs Hf; [discriminate|].
  apply sorted_inv in Hs as [Hs Hb]. unfold find_denom in Hf. cbn [assoc] in Hf.
  cbn [remove_found delete]. rewrite beqb_bcmp. destruct (bcmp d d') eqn:E.
  - reflexivity.
  - rewrite (find_lt_none d d' l E Hb) in Hf. discriminate.
  - rewrite (IH Hs Hf). reflexivity.
Qed.

(* ---------- `+ Coin`, `+ NativeBalance` ---------- *)

Lemma nb_add_coin_spec l d a : sorted bcmp l ->
  match nb_add_coin l (d, a) with
  | Ok l' => l' = insert bcmp d (amount_of d l + a) l
  | Err => False
  | Panic => U128 <= amount_of d l + a
  end.
Proof.
  intros Hs. unfold nb_add_coin, amount_of. cbn [fst snd].
  destruct (find_denom d l) as [x|] eqn:F.
  - rewrite (add_found_insert d a l x Hs F). destruct (x + a <? U128) eqn:E; [reflexivity|apply N.ltb_ge, E].
  - rewrite insert_at_insert by assumption. reflexivity.
Qed.

Lemma nb_add_spec : forall cs l, wf_coins l -> pos_coins cs ->
  match nb_add l cs with
  | Ok l' => wf_coins l' /\ forall d, amount_of d l' = amount_of d l + tot d cs
  | Err => False
  | Panic => exists d, U128 <= amount_of d l + tot d cs
  end.
Proof.
  induction cs as [|[d a] cs IH]; intros l Hw Hp.
  - cbn. split; [exact Hw|]. intros d. lia.
  - inversion Hp as [|? ? Ha Hp']; subst. cbn [snd] in Ha. cbn [nb_add].
    pose proof (nb_add_coin_spec l d a (proj1 Hw)) as S1.
    destruct (nb_add_coin l (d, a)) as [l1| |]; [|exact S1|].
    + subst l1. set (l1 := insert bcmp d (amount_of d l + a) l).
      assert (Hw1 : wf_coins l1) by (apply wf_coins_insert; [exact Hw|lia]).
      assert (Hl1 : forall x, amount_of x l1 + tot x cs = amount_of x l + tot x ((d, a) :: cs)).
      { intros x. unfold l1. rewrite amount_of_insert by apply Hw. cbn [tot].
        destruct (beqb x d) eqn:Ex; [apply beqb_eq in Ex; subst x|]; lia. }
      specialize (IH l1 Hw1 Hp'). destruct (nb_add l1 cs) as [l2| |]; [|exact IH|].
      * destruct IH as [Hw2 Hl2]. split; [exact Hw2|]. intros x. rewrite Hl2. apply Hl1.
      * destruct IH as [x Hx]. exists x. rewrite <- Hl1. exact Hx.
    + exists d. cbn [tot]. rewrite beqb_refl. lia.
Qed.

(* ---------- `- Coin`, `- Vec<Coin>` ---------- *)

Lemma nb_sub_coin_spec l d a : wf_coins l -> 0 < a ->
  match nb_sub_coin l (d, a) with
  | Ok l' => wf_coins l' /\ a <= amount_of d l /\
             forall x, amount_of x l' = amount_of x l - (if beqb x d then a else 0)
  | Err => amount_of d l < a
  | Panic => False
  end.
Proof.
  intros Hw Ha. unfold nb_sub_coin. cbn [fst snd].
  destruct (find_denom d l) as [x|] eqn:F; [|unfold amount_of; rewrite F; exact Ha].
  assert (Hx : amount_of d l = x) by (unfold amount_of; rewrite F; reflexivity).
  destruct (x <? a) eqn:E1; [rewrite Hx; apply N.ltb_lt, E1|]. apply N.ltb_ge in E1.
  destruct (x - a =? 0) eqn:E2.
  - apply N.eqb_eq in E2. rewrite (remove_found_delete d l x) by (try apply Hw; exact F).
    split; [apply wf_coins_delete, Hw|]. split; [lia|]. intros y.
    rewrite amount_of_delete by apply Hw. destruct (beqb y d) eqn:Ey; [|lia].
    apply beqb_eq in Ey. subst y. lia.
  - apply N.eqb_neq in E2. rewrite (set_found_insert d (x - a) l x) by (try apply Hw; exact F).
    split; [apply wf_coins_insert; [exact Hw|lia]|]. split; [lia|]. intros y.
    rewrite amount_of_insert by apply Hw. destruct (beqb y d) eqn:Ey; [|lia].
    apply beqb_eq in Ey. subst y. lia.
Qed.

Lemma nb_sub_spec : forall cs l, wf_coins l -> pos_coins cs ->
  match nb_sub l cs with
  | Ok l' => wf_coins l' /\ (forall d, tot d cs <= amount_of d l) /\
             forall d, amount_of d l' = amount_of d l - tot d cs
  | Err => exists d, amount_of d l < tot d cs
  | Panic => False
  end.
Proof.
  induction cs as [|[d a] cs IH]; intros l Hw Hp.
  - cbn. split; [exact Hw|]. split; intros; lia.
  - inversion Hp as [|? ? Ha Hp']; subst. cbn [snd] in Ha. cbn [nb_sub].
    pose proof (nb_sub_coin_spec l d a Hw Ha) as S1.
    destruct (nb_sub_coin l (d, a)) as [l1| |].
    + destruct S1 as (Hw1 & Hle & Hl1). specialize (IH l1 Hw1 Hp').
      destruct (nb_sub l1 cs) as [l2| |].
      * destruct IH as (Hw2 & Hc & Hl2). split; [exact Hw2|]. split.
        -- intros x. specialize (Hc x). rewrite Hl1 in Hc. cbn [tot].
           destruct (beqb x d) eqn:Ex; [apply beqb_eq in Ex; subst x|]; lia.
        -- intros x. rewrite Hl2, Hl1. cbn [tot]. destruct (beqb x d); lia.
      * destruct IH as [x Hx]. exists x. rewrite Hl1 in Hx. cbn [tot]. destruct (beqb x d); lia.
      * exact IH.
    + exists d. cbn [tot]. rewrite beqb_refl. lia.
    + exact S1.
Qed.

(* ---------- normalize ---------- *)

Lemma sort_coins_id l : sorted bcmp l -> sort_coins l = l.
Proof.
  induction l as [|[d a] l IH]; intros H; [reflexivity|].
  apply sorted_inv in H as [Hs Hb]. cbn [sort_coins]. rewrite IH by exact Hs.
  destruct l as [|[d' a'] l]; [reflexivity|]. cbn [ins_coin fst].
  inversion Hb as [|? ? H1 H2]; subst. unfold lt in H1. rewrite H1. reflexivity.
Qed.

Lemma merge_adj_id l : sorted bcmp l -> merge_adj l = Ok l.
Proof.
  induction l as [|[d a] l IH]; intros H; [reflexivity|].
  apply sorted_inv in H as [Hs Hb]. cbn [merge_adj]. rewrite IH by exact Hs.
  destruct l as [|[d' a'] l]; [reflexivity|].
  inversion Hb as [|? ? H1 H2]; subst. unfold lt in H1. rewrite beqb_bcmp, H1. reflexivity.
Qed.

Lemma normalize_wf l : wf_coins l -> normalize l = Ok l.
Proof.
  intros [Hs Hp]. unfold normalize. rewrite drop_zeros_id by exact Hp.
  rewrite sort_coins_id by exact Hs. apply merge_adj_id, Hs.
Qed.

(* the general case (needed for init_balance, whose argument is arbitrary) *)
Definition dle (x y : coin) : Prop := bcmp (fst x) (fst y) <> Gt.
Definition lsorted (l : coins) : Prop := StronglySorted dle l.

Lemma bcmp_le_trans a b c : bcmp a b <> Gt -> bcmp b c <> Gt -> bcmp a c <> Gt.
Proof.
  intros H1 H2. destruct (bcmp a b) eqn:E1; try congruence.
  - apply bcmp_eq in E1. subst. exact H2.
  - destruct (bcmp b c) eqn:E2; try congruence.
    + apply bcmp_eq in E2. subst. rewrite E1. discriminate.
    + rewrite (bcmp_trans a b c E1 E2). discriminate.
Qed.

Lemma tot_ins d c l : tot d (ins_coin c l) = tot d (c :: l).
Proof.
  induction l as [|c' l IH]; [reflexivity|]. cbn [ins_coin].
  destruct (bcmp (fst c) (fst c')); try reflexivity.
  destruct c as [dc ac], c' as [dc' ac']. cbn [tot] in *. rewrite IH. lia.
Qed.

Lemma tot_sort d l : tot d (sort_coins l) = tot d l.
Proof.
  induction l as [|[d' a] l IH]; [reflexivity|]. cbn [sort_coins]. rewrite tot_ins. cbn [tot]. rewrite IH. reflexivity.
Qed.

Lemma ins_coin_Forall (P : coin -> Prop) c l : P c -> Forall P l -> Forall P (ins_coin c l).
Proof.
  intros Hc. induction l as [|c' l IH]; intros Hl; cbn [ins_coin]; [constructor; [exact Hc|constructor]|].
  inversion Hl; subst. destruct (bcmp (fst c) (fst c')); constructor; auto.
Qed.

Lemma sort_coins_Forall (P : coin -> Prop) l : Forall P l -> Forall P (sort_coins l).
Proof.
  induction l as [|c l IH]; intros H; [constructor|]. inversion H; subst.
  cbn [sort_coins]. apply ins_coin_Forall; auto.
Qed.

Lemma ins_coin_lsorted c l : lsorted l -> lsorted (ins_coin c l).
Proof.
  unfold lsorted. induction l as [|c' l IH]; intros H; cbn [ins_coin].
  - constructor; constructor.
  - apply StronglySorted_inv in H as [Hs Hb]. destruct (bcmp (fst c) (fst c')) eqn:E.
    + constructor; [constructor; assumption|]. constructor; [unfold dle; rewrite E; discriminate|].
      eapply Forall_impl; [|exact Hb]. intros y Hy. unfold dle in *.
      eapply bcmp_le_trans; [|exact Hy]. rewrite E. discriminate.
    + constructor; [constructor; assumption|]. constructor; [unfold dle; rewrite E; discriminate|].
      eapply Forall_impl; [|exact Hb]. intros y Hy. unfold dle in *.
      eapply bcmp_le_trans; [|exact Hy]. rewrite E. discriminate.
    + constructor; [apply IH, Hs|]. apply ins_coin_Forall; [|exact Hb].
      unfold dle. rewrite (bcmp_anti (fst c) (fst c')), E. discriminate.
Qed.

Lemma sort_coins_lsorted l : lsorted (sort_coins l).
Proof. induction l as [|c l IH]; [constructor|]. cbn [sort_coins]. apply ins_coin_lsorted, IH. Qed.

Definition head_key (l : coins) : option text := match l with [] => None | c :: _ => Some (fst c) end.

Lemma merge_adj_spec : forall l, lsorted l -> pos_coins l ->
  match merge_adj l with
  | Ok l' => wf_coins l' /\ head_key l' = head_key l /\ forall d, tot d l' = tot d l
  | Err => False
  | Panic => exists d, U128 <= tot d l
  end.
Proof.
  induction l as [|[d a] l IH]; intros Hs Hp.
  - cbn. split; [apply wf_coins_nil|]. split; reflexivity.
  - apply StronglySorted_inv in Hs as [Hs Hle]. inversion Hp as [|? ? Ha Hp']; subst. cbn [snd] in Ha.
    specialize (IH Hs Hp'). cbn [merge_adj]. destruct (merge_adj l) as [l1| |]; [|exact IH|].
    + destruct IH as (Hw1 & Hh & Ht). destruct l1 as [|[d' a'] r'].
      * split; [split; [apply sorted_cons; constructor|constructor; [exact Ha|constructor]]|].
        split; [reflexivity|]. intros x. cbn [tot]. rewrite <- Ht. reflexivity.
      * assert (Hle0 : bcmp d d' <> Gt).
        { destruct l as [|c0 l0]; [discriminate|]. cbn [head_key fst] in Hh. injection Hh as Hh.
          pose proof (Forall_inv Hle) as Hle0. unfold dle in Hle0. cbn [fst] in Hle0. rewrite <- Hh in Hle0. exact Hle0. }
        destruct (wf_coins_inv _ _ _ Hw1) as (Hwr & Hbr & Ha').
        destruct (beqb d d') eqn:Ed.
        -- apply beqb_eq in Ed. subst d'. destruct (a + a' <? U128) eqn:Hsum.
           ++ split; [split; [apply sorted_cons; [apply Hwr|exact Hbr]|constructor; [cbn; lia|apply Hwr]]|].
              split; [reflexivity|]. intros x. cbn [tot]. rewrite <- Ht. cbn [tot]. destruct (beqb x d); lia.
           ++ apply N.ltb_ge in Hsum. exists d. cbn [tot]. rewrite <- Ht. cbn [tot]. rewrite beqb_refl. lia.
        -- assert (Hlt : bcmp d d' = Lt).
           { destruct (bcmp d d') eqn:C; try congruence.
             apply bcmp_eq in C. subst. rewrite beqb_refl in Ed. discriminate. }
           split.
           ++ split.
              ** apply sorted_cons; [apply Hw1|]. cbn. constructor; [exact Hlt|].
                 eapply Forall_lt_trans; [apply bcmp_trans|exact Hlt|exact Hbr].
              ** constructor; [exact Ha|apply Hw1].
           ++ split; [reflexivity|]. intros x. cbn [tot]. rewrite <- Ht. cbn [tot]. reflexivity.
    + destruct IH as [x Hx]. exists x. cbn [tot]. lia.
Qed.

Lemma normalize_spec cs :
  match normalize cs with
  | Ok l => wf_coins l /\ forall d, amount_of d l = tot d cs
  | Err => False
  | Panic => exists d, U128 <= tot d cs
  end.
Proof.
  unfold normalize.
  pose proof (merge_adj_spec (sort_coins (drop_zeros cs)) (sort_coins_lsorted _)
                (sort_coins_Forall _ _ (drop_zeros_pos cs))) as S.
  destruct (merge_adj (sort_coins (drop_zeros cs))) as [l| |]; [|exact S|].
  - destruct S as (Hw & _ & Ht). split; [exact Hw|]. intros d.
    rewrite <- tot_amount_of by apply Hw. rewrite Ht, tot_sort, tot_drop_zeros. reflexivity.
  - destruct S as [d Hd]. exists d. rewrite tot_sort, tot_drop_zeros in Hd. exact Hd.
Qed.

(* ---------- the keeper ---------- *)

Lemma get_balance_wf s a : bank_wf s -> wf_coins (get_balance s a).
Proof.
  intros [_ Hf]. unfold get_balance. destruct (assoc bcmp a s) eqn:E; [|apply wf_coins_nil].
  apply assoc_in in E. rewrite Forall_forall in Hf. apply (Hf _ E).
Qed.

Lemma get_balance_insert s a b x : sorted bcmp s ->
  get_balance (insert bcmp a b s) x = if beqb x a then b else get_balance s x.
Proof. intros H. unfold get_balance. rewrite b_assoc_insert by exact H. destruct (beqb x a); reflexivity. Qed.

Lemma bank_wf_empty : bank_wf bank_empty. Proof. split; constructor. Qed.

Lemma bank_wf_insert s a b : bank_wf s -> wf_coins b -> bank_wf (insert bcmp a b s).
Proof. intros [Hs Hf] Hb. split; [apply b_insert_sorted, Hs|apply Forall_insert; assumption]. Qed.

Lemma set_balance_wf s a b : wf_coins b -> set_balance s a b = Ok (insert bcmp a b s).
Proof. intros H. unfold set_balance. rewrite normalize_wf by exact H. reflexivity. Qed.

Lemma bank_balance_insert s a b x d : sorted bcmp s ->
  bank_balance (insert bcmp a b s) x d = if beqb x a then amount_of d b else bank_balance s x d.
Proof. intros H. unfold bank_balance. rewrite get_balance_insert by exact H. destruct (beqb x a); reflexivity. Qed.

(* Balance = what AllBalances lists for that denom (summed: on a well-formed list there is at most one) *)
Lemma bank_balance_tot s a d : bank_wf s -> bank_balance s a d = tot d (bank_all s a).
Proof. intros H. unfold bank_balance, bank_all. symmetry. apply tot_amount_of, (get_balance_wf s a H). Qed.

Lemma supply_insert s a b d : sorted bcmp s ->
  bank_supply (insert bcmp a b s) d + tot d (get_balance s a) = bank_supply s d + tot d b.
Proof.
  induction s as [|[k l] s IH]; intros H.
  - cbn. lia.
  - apply sorted_inv in H as [Hs Hb]. cbn [insert]. unfold get_balance. cbn [assoc]. destruct (bcmp a k) eqn:E.
    + cbn [bank_supply]. lia.
    + cbn [bank_supply]. rewrite assoc_none_lt; [cbn; lia|].
      eapply Forall_lt_trans; [apply bcmp_trans|exact E|exact Hb].
    + cbn [bank_supply]. fold (get_balance s a). specialize (IH Hs). lia.
Qed.

Lemma holding_le_supply s a d : tot d (get_balance s a) <= bank_supply s d.
Proof.
  induction s as [|[k l] s IH]; [cbn; lia|]. unfold get_balance in *. cbn [assoc bank_supply].
  destruct (bcmp a k); lia.
Qed.

Lemma balance_le_supply s a d : bank_wf s -> bank_balance s a d <= bank_supply s d.
Proof. intros H. rewrite bank_balance_tot by exact H. apply holding_le_supply. Qed.

(* the property's quantifier: no balance exceeds the 128-bit range *)
Definition no_overflow (s : bank_state) (to : text) (cs : coins) : Prop :=
  forall d, bank_balance s to d + tot d cs < U128.

(* burn: the complete case analysis *)
Lemma bank_burn_spec s from cs : bank_wf s ->
  match bank_burn s from cs with
  | Ok s' => bank_wf s' /\ has_pos cs = true /\ (forall d, tot d cs <= bank_balance s from d) /\
             (forall a d, bank_balance s' a d =
                          if beqb a from then bank_balance s a d - tot d cs else bank_balance s a d) /\
             (forall d, bank_supply s' d + tot d cs = bank_supply s d)
  | Err => has_pos cs = false \/ exists d, bank_balance s from d < tot d cs
  | Panic => False
  end.
Proof.
  intros Hw. unfold bank_burn. rewrite normalize_amount_spec.
  destruct (has_pos cs) eqn:P; [|left; reflexivity].
  pose proof (get_balance_wf s from Hw) as Hg.
  pose proof (nb_sub_spec (drop_zeros cs) (get_balance s from) Hg (drop_zeros_pos cs)) as S.
  destruct (nb_sub (get_balance s from) (drop_zeros cs)) as [b| |]; [|right|exact S].
  - destruct S as (Hb & Hc & Hl). rewrite set_balance_wf by exact Hb.
    split; [apply bank_wf_insert; assumption|]. split; [reflexivity|]. split.
    + intros d. specialize (Hc d). rewrite tot_drop_zeros in Hc. exact Hc.
    + split.
      * intros a d. rewrite bank_balance_insert by apply Hw. destruct (beqb a from) eqn:E; [|reflexivity].
        apply beqb_eq in E. subst a. rewrite Hl, tot_drop_zeros. reflexivity.
      * intros d. pose proof (supply_insert s from b d (proj1 Hw)) as Hs.
        rewrite (tot_amount_of d b) in Hs by apply Hb. rewrite (tot_amount_of d (get_balance s from)) in Hs by apply Hg.
        rewrite Hl in Hs. specialize (Hc d). rewrite tot_drop_zeros in *. lia.
  - destruct S as [d Hd]. exists d. rewrite tot_drop_zeros in Hd. exact Hd.
Qed.

(* mint: the complete case analysis (Panic only at the 128-bit bound) *)
Lemma bank_mint_spec s to cs : bank_wf s ->
  match bank_mint s to cs with
  | Ok s' => bank_wf s' /\ has_pos cs = true /\
             (forall a d, bank_balance s' a d =
                          if beqb a to then bank_balance s a d + tot d cs else bank_balance s a d) /\
             (forall d, bank_supply s' d = bank_supply s d + tot d cs)
  | Err => has_pos cs = false
  | Panic => exists d, U128 <= bank_balance s to d + tot d cs
  end.
Proof.
  intros Hw. unfold bank_mint. rewrite normalize_amount_spec.
  destruct (has_pos cs) eqn:P; [|reflexivity].
  pose proof (get_balance_wf s to Hw) as Hg.
  pose proof (nb_add_spec (drop_zeros cs) (get_balance s to) Hg (drop_zeros_pos cs)) as S.
  destruct (nb_add (get_balance s to) (drop_zeros cs)) as [b| |]; [|destruct S|].
  - destruct S as (Hb & Hl). rewrite set_balance_wf by exact Hb.
    split; [apply bank_wf_insert; assumption|]. split; [reflexivity|]. split.
    + intros a d. rewrite bank_balance_insert by apply Hw. destruct (beqb a to) eqn:E; [|reflexivity].
      apply beqb_eq in E. subst a. rewrite Hl, tot_drop_zeros. reflexivity.
    + intros d. pose proof (supply_insert s to b d (proj1 Hw)) as Hs.
      rewrite (tot_amount_of d b) in Hs by apply Hb. rewrite (tot_amount_of d (get_balance s to)) in Hs by apply Hg.
      rewrite Hl, tot_drop_zeros in Hs. lia.
  - destruct S as [d Hd]. exists d. rewrite tot_drop_zeros in Hd. exact Hd.
Qed.

(* send = burn then mint *)
Lemma bank_send_spec s from to cs : bank_wf s ->
  match bank_send s from to cs with
  | Ok s' => bank_wf s' /\ has_pos cs = true /\ (forall d, tot d cs <= bank_balance s from d) /\
             (forall a d, bank_balance s' a d =
                          (if beqb a to then tot d cs else 0) +
                          (if beqb a from then bank_balance s a d - tot d cs else bank_balance s a d)) /\
             (forall d, bank_supply s' d = bank_supply s d)
  | Err => has_pos cs = false \/ exists d, bank_balance s from d < tot d cs
  | Panic => exists d, U128 <= bank_balance s to d + tot d cs /\ U128 <= bank_supply s d
  end.
Proof.
  intros Hw. unfold bank_send. pose proof (bank_burn_spec s from cs Hw) as B.
  destruct (bank_burn s from cs) as [s1| |]; [|exact B|destruct B].
  destruct B as (Hw1 & P & Hc & Hb1 & Hs1).
  pose proof (bank_mint_spec s1 to cs Hw1) as M.
  destruct (bank_mint s1 to cs) as [s2| |].
  - destruct M as (Hw2 & _ & Hb2 & Hs2). split; [exact Hw2|]. split; [exact P|]. split; [exact Hc|]. split.
    + intros a d. rewrite Hb2, Hb1. destruct (beqb a to); lia.
    + intros d. rewrite Hs2. specialize (Hs1 d). lia.
  - rewrite P in M. discriminate.
  - destruct M as [d Hd]. exists d. pose proof (balance_le_supply s1 to d Hw1) as Hle.
    specialize (Hs1 d). rewrite Hb1 in Hd. split; [destruct (beqb to from); lia|]. rewrite Hb1 in Hle.
    destruct (beqb to from); lia.
Qed.

(* init_balance: overwrite *)
Lemma bank_init_spec s a cs : bank_wf s ->
  match bank_init s a cs with
  | Ok s' => bank_wf s' /\
             (forall x d, bank_balance s' x d = if beqb x a then tot d cs else bank_balance s x d) /\
             (forall d, bank_supply s' d + bank_balance s a d = bank_supply s d + tot d cs)
  | Err => False
  | Panic => exists d, U128 <= tot d cs
  end.
Proof.
  intros Hw. unfold bank_init, set_balance. pose proof (normalize_spec cs) as S.
  destruct (normalize cs) as [b| |]; [|exact S|exact S].
  destruct S as [Hb Hl]. split; [apply bank_wf_insert; assumption|]. split.
  - intros x d. rewrite bank_balance_insert by apply Hw. rewrite Hl. reflexivity.
  - intros d. pose proof (supply_insert s a b d (proj1 Hw)) as Hs.
    rewrite (tot_amount_of d b) in Hs by apply Hb. rewrite Hl in Hs.
    rewrite bank_balance_tot by exact Hw. exact Hs.
Qed.

(* the invariant is kept by every successful operation (no premise on the amounts) *)
Lemma bank_burn_wf s from cs s' : bank_wf s -> bank_burn s from cs = Ok s' -> bank_wf s'.
Proof. intros Hw E. pose proof (bank_burn_spec s from cs Hw) as S. rewrite E in S. apply S. Qed.
Lemma bank_mint_wf s to cs s' : bank_wf s -> bank_mint s to cs = Ok s' -> bank_wf s'.
Proof. intros Hw E. pose proof (bank_mint_spec s to cs Hw) as S. rewrite E in S. apply S. Qed.
Lemma bank_send_wf s from to cs s' : bank_wf s -> bank_send s from to cs = Ok s' -> bank_wf s'.
Proof. intros Hw E. pose proof (bank_send_spec s from to cs Hw) as S. rewrite E in S. apply S. Qed.
Lemma bank_init_wf s a cs s' : bank_wf s -> bank_init s a cs = Ok s' -> bank_wf s'.
Proof. intros Hw E. pose proof (bank_init_spec s a cs Hw) as S. rewrite E in S. apply S. Qed.

(* queries *)
Lemma bank_all_wf s a : bank_wf s -> wf_coins (bank_all s a).
Proof. apply get_balance_wf. Qed.

(* Supply d = sum over the stored accounts of Balance *)
Fixpoint sum_balances (s : bank_state) (accts : list text) (d : text) : N :=
  match accts with [] => 0 | a :: r => bank_balance s a d + sum_balances s r d end.

Lemma get_balance_cons_other k l s a : bcmp a k <> Eq -> get_balance ((k, l) :: s) a = get_balance s a.
Proof. unfold get_balance. cbn [assoc]. destruct (bcmp a k); congruence. Qed.

Lemma sum_balances_skip k l s ks d : Forall (lt bcmp k) ks ->
  sum_balances ((k, l) :: s) ks d = sum_balances s ks d.
Proof.
  induction ks as [|a ks IH]; intros H; [reflexivity|]. inversion H as [|? ? H1 H2]; subst.
  cbn [sum_balances]. rewrite IH by exact H2. unfold bank_balance. rewrite get_balance_cons_other; [reflexivity|].
  rewrite (bcmp_anti k a). unfold lt in H1. rewrite H1. discriminate.
Qed.

Lemma supply_is_sum s d : bank_wf s -> bank_supply s d = sum_balances s (keys s) d.
Proof.
  induction s as [|[k l] s IH]; intros Hw; [reflexivity|].
  destruct Hw as [Hs Hf]. apply sorted_inv in Hs as [Hs Hb]. inversion Hf as [|? ? Hl Hf']; subst. cbn [snd] in Hl.
  change (keys ((k, l) :: s)) with (k :: keys s). cbn [bank_supply sum_balances]. rewrite sum_balances_skip by exact Hb.
  rewrite <- IH by (split; assumption). f_equal.
  unfold bank_balance, get_balance. cbn [assoc]. rewrite bcmp_refl. apply tot_amount_of, Hl.
Qed.
