(* StakingInv.v — lemmas about the Staking.v model: what each operation does to the state, the
   invariant of all histories, and the statements pinned in Properties/C14.v.  No pinned theorems here. *)
From Verif Require Import Base OMap Bank Dec Staking.
From Coq Require Import Sorted.
Local Open Scope N_scope.

Tactic Notation "inv_bind" hyp(H) "as" ident(a) ident(Ha) := apply sbind_ok in H as [a [Ha H]].

(* ---------- views of the state ---------- *)

Definition stake_of (s : sstate) (d v : N) : N :=
  match get_stake d v s with Some sh => sh_stake sh | None => 0 end.
Definition rew_of (s : sstate) (d v : N) : N :=
  match get_stake d v s with Some sh => sh_rew sh | None => 0 end.
(* the displayed delegation: floor of the share *)
Definition disp (s : sstate) (d v : N) : N := to_uint_floor (stake_of s d v).
Definition vstake (s : sstate) (v : N) : N := match get_vi v s with Some vi => vi_stake vi | None => 0 end.

(* ---------- projections ---------- *)

Lemma get_stake_put_stake d v sh s d' v' :
  get_stake d' v' (put_stake d v sh s) = if peqb (d', v') (d, v) then Some sh else get_stake d' v' s.
Proof. unfold get_stake, put_stake. cbn. apply (fget_fset peqb peqb_spec). Qed.
Lemma get_stake_del_stake d v s d' v' :
  get_stake d' v' (del_stake d v s) = if peqb (d', v') (d, v) then None else get_stake d' v' s.
Proof. unfold get_stake, del_stake. cbn. apply (fget_fdel peqb peqb_spec). Qed.
Lemma get_stake_put_vi v vi s d' v' : get_stake d' v' (put_vi v vi s) = get_stake d' v' s.
Proof. reflexivity. Qed.
Lemma get_vi_put_vi v vi s v' : get_vi v' (put_vi v vi s) = if v' =? v then Some vi else get_vi v' s.
Proof. unfold get_vi, put_vi. cbn. apply (fget_fset N.eqb Neqb_spec). Qed.
Lemma get_vi_put_stake d v sh s v' : get_vi v' (put_stake d v sh s) = get_vi v' s.
Proof. reflexivity. Qed.
Lemma get_vi_del_stake d v s v' : get_vi v' (del_stake d v s) = get_vi v' s.
Proof. reflexivity. Qed.

Lemma peqb_refl k : peqb k k = true. Proof. apply peqb_spec. reflexivity. Qed.
Lemma peqb_neq_v d v d' v' : v' <> v -> peqb (d', v') (d, v) = false.
Proof.
  intros H. destruct (peqb (d', v') (d, v)) eqn:E; [|reflexivity].
  apply peqb_spec in E. injection E as _ E. contradiction.
Qed.
Lemma peqb_false k k' : k <> k' -> peqb k k' = false.
Proof. intros H. destruct (peqb k k') eqn:E; [|reflexivity]. apply peqb_spec in E. contradiction. Qed.

(* ---------- update_rewards ---------- *)

(* what update_rewards / credit_stakers never touch, and what they keep of STAKES *)
Definition same_but_rewards (v : N) (s s' : sstate) : Prop :=
  s_queue s' = s_queue s /\ s_waddr s' = s_waddr s /\ s_bank s' = s_bank s /\
  (forall d' v', v' <> v -> get_stake d' v' s' = get_stake d' v' s) /\
  (forall d' v', option_map sh_stake (get_stake d' v' s') = option_map sh_stake (get_stake d' v' s)).

Lemma same_but_rewards_refl v s : same_but_rewards v s s.
Proof. repeat split; reflexivity. Qed.

Lemma same_but_rewards_trans v s1 s2 s3 :
  same_but_rewards v s1 s2 -> same_but_rewards v s2 s3 -> same_but_rewards v s1 s3.
Proof.
  intros (A1 & A2 & A3 & A4 & A5) (B1 & B2 & B3 & B4 & B5).
  split; [congruence|]. split; [congruence|]. split; [congruence|]. split.
  - intros d' v' H. rewrite B4, A4 by exact H. reflexivity.
  - intros d' v'. rewrite B5, A5. reflexivity.
Qed.

Lemma credit_stakers_spec v vs nr : forall l s s', credit_stakers v vs nr l s = SOk s' ->
  s_vi s' = s_vi s /\ same_but_rewards v s s'.
Proof.
  induction l as [|d l IH]; intros s s' H; cbn [credit_stakers] in H.
  - injection H as <-. split; [reflexivity|apply same_but_rewards_refl].
  - destruct (get_stake d v s) as [sh|] eqn:G; [|discriminate].
    inv_bind H as x Hx. inv_bind H as r' Hr. apply IH in H as [H1 H2]. split; [exact H1|].
    eapply same_but_rewards_trans; [|exact H2]. repeat split; try reflexivity.
    + intros d' v' Hv. rewrite get_stake_put_stake, peqb_neq_v by exact Hv. reflexivity.
    + intros d' v'. rewrite get_stake_put_stake. destruct (peqb (d', v') (d, v)) eqn:E; [|reflexivity].
      apply peqb_spec in E. injection E as -> ->. rewrite G. reflexivity.
Qed.

Lemma update_rewards_spec P now s v s1 : update_rewards P now s v = SOk s1 ->
  exists vi comm, get_vi v s = Some vi /\ get_val P v = Some comm /\
    same_but_rewards v s s1 /\
    (forall v', v' <> v -> get_vi v' s1 = get_vi v' s) /\
    get_vi v s1 = Some (mkVi (vi_stakers vi) (vi_stake vi) (N.max now (vi_last vi))).
Proof.
  unfold update_rewards. intros H.
  destruct (get_vi v s) as [vi|] eqn:Gv; [|discriminate].
  destruct (get_val P v) as [comm|] eqn:Gc; [|discriminate].
  exists vi, comm. split; [reflexivity|]. split; [reflexivity|].
  destruct (now <=? vi_last vi) eqn:El.
  - injection H as <-. apply N.leb_le in El. split; [apply same_but_rewards_refl|]. split; [reflexivity|].
    rewrite Gv. destruct vi as [a b c]. cbn in *. f_equal. f_equal. lia.
  - apply N.leb_gt in El. inv_bind H as x Hx.
    assert (M : N.max now (vi_last vi) = now) by lia. rewrite M.
    set (s0 := put_vi v (mkVi (vi_stakers vi) (vi_stake vi) now) s) in *.
    assert (B0 : same_but_rewards v s s0) by (repeat split; reflexivity).
    assert (V0 : forall v', v' <> v -> get_vi v' s0 = get_vi v' s).
    { intros v' Hv. unfold s0. rewrite get_vi_put_vi. apply N.eqb_neq in Hv. rewrite Hv. reflexivity. }
    assert (V1 : get_vi v s0 = Some (mkVi (vi_stakers vi) (vi_stake vi) now)).
    { unfold s0. rewrite get_vi_put_vi, N.eqb_refl. reflexivity. }
    destruct (x =? 0).
    + injection H as <-. auto.
    + apply credit_stakers_spec in H as [H1 H2]. split; [eapply same_but_rewards_trans; eassumption|].
      unfold get_vi in *. rewrite H1. auto.
Qed.

Lemma same_but_rewards_stake_of v s s' : same_but_rewards v s s' -> forall d' v', stake_of s' d' v' = stake_of s d' v'.
Proof.
  intros (_ & _ & _ & _ & H) d' v'. unfold stake_of. specialize (H d' v').
  destruct (get_stake d' v' s'), (get_stake d' v' s); cbn in H; congruence.
Qed.

Lemma same_but_rewards_dom v s s' : same_but_rewards v s s' ->
  forall d' v', get_stake d' v' s' = None <-> get_stake d' v' s = None.
Proof.
  intros (_ & _ & _ & _ & H) d' v'. specialize (H d' v').
  destruct (get_stake d' v' s'), (get_stake d' v' s); cbn in H; split; congruence.
Qed.

(* ---------- the staker set ---------- *)

Lemma mem_In d l : mem d l = true <-> In d l.
Proof.
  unfold mem. rewrite existsb_exists. split.
  - intros [x [H1 H2]]. apply N.eqb_eq in H2. subst. exact H1.
  - intros H. exists d. split; [exact H|apply N.eqb_refl].
Qed.
Lemma stakers_insert_In d l x : In x (stakers_insert d l) <-> x = d \/ In x l.
Proof.
  unfold stakers_insert. destruct (mem d l) eqn:E.
  - apply mem_In in E. split; [auto|]. intros [->|H]; assumption.
  - cbn. split; intros [H|H]; auto.
Qed.
Lemma stakers_remove_In d l x : In x (stakers_remove d l) <-> x <> d /\ In x l.
Proof.
  unfold stakers_remove. rewrite filter_In. rewrite negb_true_iff, N.eqb_neq. tauto.
Qed.
Lemma stakers_insert_NoDup d l : NoDup l -> NoDup (stakers_insert d l).
Proof.
  intros H. unfold stakers_insert. destruct (mem d l) eqn:E; [exact H|].
  constructor; [|exact H]. intros Hi. apply mem_In in Hi. congruence.
Qed.
Lemma stakers_remove_NoDup d l : NoDup l -> NoDup (stakers_remove d l).
Proof. intros H. unfold stakers_remove. apply NoDup_filter, H. Qed.

(* ---------- update_stake ---------- *)

Lemma update_stake_spec P now s d v a sub s' : update_stake P now s d v a sub = SOk s' ->
  exists vi comm st' ns,
    get_vi v s = Some vi /\ get_val P v = Some comm /\
    s_queue s' = s_queue s /\ s_waddr s' = s_waddr s /\ s_bank s' = s_bank s /\
    (forall d' v', (d', v') <> (d, v) ->
       option_map sh_stake (get_stake d' v' s') = option_map sh_stake (get_stake d' v' s)) /\
    (forall d' v', v' <> v -> get_stake d' v' s' = get_stake d' v' s) /\
    (forall v', v' <> v -> get_vi v' s' = get_vi v' s) /\
    get_vi v s' = Some (mkVi st' (if sub then vi_stake vi - a else vi_stake vi + a) (N.max now (vi_last vi))) /\
    (forall x, In x st' <-> (x <> d /\ In x (vi_stakers vi)) \/ (x = d /\ get_stake d v s' <> None)) /\
    (NoDup (vi_stakers vi) -> NoDup st') /\
    ns = (if sub then stake_of s d v - a * D18 else stake_of s d v + a * D18) /\
    (if sub then a * D18 <= stake_of s d v /\ a <= vi_stake vi /\ get_stake d v s <> None
     else vi_stake vi + a < U128) /\
    (if ns =? 0 then get_stake d v s' = None
     else exists r, get_stake d v s' = Some (mkSh ns r)) /\
    (get_stake d v s = None -> ns <> 0 -> get_stake d v s' = Some (mkSh ns 0)).
Proof.
  unfold update_stake. intros H. inv_bind H as s1 Hu.
  apply update_rewards_spec in Hu as (vi & comm & Gv & Gc & SB & Vo & Vv).
  rewrite Vv in H. exists vi, comm.
  pose proof (same_but_rewards_stake_of _ _ _ SB d v) as St.
  pose proof (same_but_rewards_dom _ _ _ SB d v) as Dm.
  destruct SB as (Q & W & B & So & Sm).
  inv_bind H as sh Hsh. inv_bind H as ad Had. apply dec_of_uint_inv in Had. subst ad.
  inv_bind H as pr Hpr. destruct pr as [st' vs'].
  (* the new share and validator total *)
  assert (E : st' = (if sub then stake_of s d v - a * D18 else stake_of s d v + a * D18) /\
              vs' = (if sub then vi_stake vi - a else vi_stake vi + a) /\
              (if sub then a * D18 <= stake_of s d v /\ a <= vi_stake vi /\ get_stake d v s <> None
               else vi_stake vi + a < U128) /\
              (get_stake d v s = None -> sh_rew sh = 0)).
  { cbn [vi_stake] in Hpr. rewrite <- St. unfold stake_of.
    destruct (get_stake d v s1) as [sh0|] eqn:G.
    - injection Hsh as <-. destruct sub.
      + destruct (sh_stake sh0 <? a * D18) eqn:E1; [discriminate|].
        destruct (vi_stake vi <? a) eqn:E2; [discriminate|]. injection Hpr as <- <-.
        apply N.ltb_ge in E1, E2. split; [reflexivity|]. split; [reflexivity|]. split.
        * split; [exact E1|]. split; [exact E2|]. intros C. apply Dm in C. congruence.
        * intros C. apply Dm in C. congruence.
      + inv_bind Hpr as y Hy. apply dec_add_inv in Hy. subst y.
        destruct (U128 <=? vi_stake vi + a) eqn:E2; [discriminate|]. injection Hpr as <- <-.
        apply N.leb_gt in E2. split; [reflexivity|]. split; [reflexivity|]. split; [exact E2|].
        intros C. apply Dm in C. congruence.
    - destruct sub; [discriminate|]. injection Hsh as <-. cbn [sh_stake sh_rew] in *.
      inv_bind Hpr as y Hy. apply dec_add_inv in Hy. subst y.
      destruct (U128 <=? vi_stake vi + a) eqn:E2; [discriminate|]. injection Hpr as <- <-.
      apply N.leb_gt in E2. split; [reflexivity|]. split; [reflexivity|]. split; [exact E2|]. reflexivity. }
  destruct E as (E1 & E2 & E3 & E4). subst vs'.
  cbn [vi_stakers vi_stake vi_last] in H.
  destruct (st' =? 0) eqn:Z; injection H as <-.
  - exists (stakers_remove d (vi_stakers vi)), st'.
    repeat split; try assumption; try reflexivity.
    + intros d' v' Hn. rewrite get_stake_put_vi, get_stake_del_stake, peqb_false by congruence. apply Sm.
    + intros d' v' Hn. rewrite get_stake_put_vi, get_stake_del_stake, peqb_neq_v by exact Hn. apply So, Hn.
    + intros v' Hn. rewrite get_vi_put_vi. apply N.eqb_neq in Hn. rewrite Hn. rewrite get_vi_del_stake. apply Vo. apply N.eqb_neq, Hn.
    + rewrite get_vi_put_vi, N.eqb_refl. reflexivity.
    + intros H. apply stakers_remove_In in H. left. exact H.
    + intros [H|[_ H]]; [apply stakers_remove_In, H|].
      rewrite get_stake_put_vi, get_stake_del_stake, peqb_refl in H. congruence.
    + apply stakers_remove_NoDup.
    + rewrite Z. rewrite get_stake_put_vi, get_stake_del_stake, peqb_refl. reflexivity.
    + intros _ C. apply N.eqb_eq in Z. contradiction.
  - exists (stakers_insert d (vi_stakers vi)), st'.
    repeat split; try assumption; try reflexivity.
    + intros d' v' Hn. rewrite get_stake_put_vi, get_stake_put_stake, peqb_false by congruence. apply Sm.
    + intros d' v' Hn. rewrite get_stake_put_vi, get_stake_put_stake, peqb_neq_v by exact Hn. apply So, Hn.
    + intros v' Hn. rewrite get_vi_put_vi. apply N.eqb_neq in Hn. rewrite Hn. rewrite get_vi_put_stake. apply Vo. apply N.eqb_neq, Hn.
    + rewrite get_vi_put_vi, N.eqb_refl. reflexivity.
    + intros H. apply stakers_insert_In in H. destruct (N.eq_dec x d) as [->|Hn].
      * right. split; [reflexivity|]. rewrite get_stake_put_vi, get_stake_put_stake, peqb_refl. discriminate.
      * left. destruct H; [contradiction|auto].
    + intros [[_ H]|[-> _]]; apply stakers_insert_In; auto.
    + apply stakers_insert_NoDup.
    + rewrite Z. eexists. rewrite get_stake_put_vi, get_stake_put_stake, peqb_refl. reflexivity.
    + intros C _. rewrite get_stake_put_vi, get_stake_put_stake, peqb_refl, (E4 C). reflexivity.
Qed.

(* ---------- the bank part ---------- *)

Lemma acct_not_pool a : acct a <> pool. Proof. discriminate. Qed.
Lemma acct_inj a b : acct a = acct b -> a = b. Proof. intros H. injection H. auto. Qed.
Lemma tot_tok a : tot TOKEN (tok a) = a.
Proof. unfold tok. cbn [tot]. rewrite beqb_refl. lia. Qed.
Lemma has_pos_tok a : has_pos (tok a) = (0 <? a). Proof. unfold tok, has_pos. cbn. apply orb_false_r. Qed.

Lemma send_tok b from to a b' : bank_wf b -> from <> to -> bank_send b from to (tok a) = Ok b' ->
  bank_wf b' /\ 0 < a /\ a <= bank_balance b from TOKEN /\
  bank_balance b' from TOKEN = bank_balance b from TOKEN - a /\
  bank_balance b' to TOKEN = bank_balance b to TOKEN + a /\
  (forall x, x <> from -> x <> to -> bank_balance b' x TOKEN = bank_balance b x TOKEN) /\
  bank_supply b' TOKEN = bank_supply b TOKEN.
Proof.
  intros Hw Hn H. pose proof (bank_send_spec b from to (tok a) Hw) as S. rewrite H in S.
  destruct S as (Hw' & Hp & Hc & Hb & Hs). rewrite has_pos_tok in Hp. apply N.ltb_lt in Hp.
  specialize (Hc TOKEN). rewrite tot_tok in Hc.
  assert (F1 : beqb from to = false) by (destruct (beqb from to) eqn:E; [apply beqb_eq in E; contradiction|reflexivity]).
  assert (F2 : beqb to from = false) by (rewrite beqb_sym; exact F1).
  split; [exact Hw'|]. split; [exact Hp|]. split; [exact Hc|]. split; [|split; [|split]].
  - rewrite Hb, tot_tok, F1, beqb_refl. lia.
  - rewrite Hb, tot_tok, F2, beqb_refl. lia.
  - intros x H1 H2. rewrite Hb.
    replace (beqb x to) with false by (symmetry; destruct (beqb x to) eqn:E; [apply beqb_eq in E; contradiction|reflexivity]).
    replace (beqb x from) with false by (symmetry; destruct (beqb x from) eqn:E; [apply beqb_eq in E; contradiction|reflexivity]).
    lia.
  - apply Hs.
Qed.

Lemma mint_tok b to a b' : bank_wf b -> bank_mint b to (tok a) = Ok b' ->
  bank_wf b' /\ 0 < a /\
  bank_balance b' to TOKEN = bank_balance b to TOKEN + a /\
  (forall x, x <> to -> bank_balance b' x TOKEN = bank_balance b x TOKEN) /\
  bank_supply b' TOKEN = bank_supply b TOKEN + a.
Proof.
  intros Hw H. pose proof (bank_mint_spec b to (tok a) Hw) as S. rewrite H in S.
  destruct S as (Hw' & Hp & Hb & Hs). rewrite has_pos_tok in Hp. apply N.ltb_lt in Hp.
  split; [exact Hw'|]. split; [exact Hp|]. split; [|split].
  - rewrite Hb, tot_tok, beqb_refl. reflexivity.
  - intros x H1. rewrite Hb.
    replace (beqb x to) with false by (symmetry; destruct (beqb x to) eqn:E; [apply beqb_eq in E; contradiction|reflexivity]).
    reflexivity.
  - rewrite Hs, tot_tok. reflexivity.
Qed.

Lemma of_bank_ok {A} (o : outcome A) x : of_bank o = SOk x -> o = Ok x.
Proof. destruct o; cbn; congruence. Qed.

(* ---------- Delegate / Undelegate / Redelegate: exact effects ---------- *)

Lemma stake_of_other s s' d v :
  (forall d' v', (d', v') <> (d, v) ->
     option_map sh_stake (get_stake d' v' s') = option_map sh_stake (get_stake d' v' s)) ->
  forall d' v', (d', v') <> (d, v) -> stake_of s' d' v' = stake_of s d' v'.
Proof.
  intros H d' v' Hn. specialize (H d' v' Hn). unfold stake_of.
  destruct (get_stake d' v' s'), (get_stake d' v' s); cbn in H; congruence.
Qed.

Lemma new_stake_of s' d v ns :
  (if ns =? 0 then get_stake d v s' = None else exists r, get_stake d v s' = Some (mkSh ns r)) ->
  stake_of s' d v = ns.
Proof.
  unfold stake_of. destruct (ns =? 0) eqn:Z.
  - intros ->. apply N.eqb_eq in Z. auto.
  - intros [r ->]. reflexivity.
Qed.

Lemma vstake_of_get s v vi : get_vi v s = Some vi -> vstake s v = vi_stake vi.
Proof. unfold vstake. intros ->. reflexivity. Qed.
Lemma vstake_other s s' v : (forall v', v' <> v -> get_vi v' s' = get_vi v' s) ->
  forall v', v' <> v -> vstake s' v' = vstake s v'.
Proof. intros H v' Hn. unfold vstake. rewrite H by exact Hn. reflexivity. Qed.

Definition balance (s : sstate) (a : N) : N := q_balance s a.

Lemma get_stake_set_queue s q d v : get_stake d v (set_queue s q) = get_stake d v s. Proof. reflexivity. Qed.
Lemma get_vi_set_queue s q v : get_vi v (set_queue s q) = get_vi v s. Proof. reflexivity. Qed.
Lemma get_stake_set_bank s b d v : get_stake d v (set_bank s b) = get_stake d v s. Proof. reflexivity. Qed.
Lemma get_vi_set_bank s b v : get_vi v (set_bank s b) = get_vi v s. Proof. reflexivity. Qed.
Lemma stake_of_set_bank s b d v : stake_of (set_bank s b) d v = stake_of s d v. Proof. reflexivity. Qed.
Lemma disp_set_bank s b d v : disp (set_bank s b) d v = disp s d v. Proof. reflexivity. Qed.
Lemma vstake_set_bank s b v : vstake (set_bank s b) v = vstake s v. Proof. reflexivity. Qed.
Lemma stake_of_set_queue s q d v : stake_of (set_queue s q) d v = stake_of s d v. Proof. reflexivity. Qed.
Lemma disp_set_queue s q d v : disp (set_queue s q) d v = disp s d v. Proof. reflexivity. Qed.
Lemma vstake_set_queue s q v : vstake (set_queue s q) v = vstake s v. Proof. reflexivity. Qed.

Lemma delegate_exact_lemma P now s d v a bonded s' :
  bank_wf (s_bank s) -> exec_delegate P now s d v a bonded = SOk s' ->
  0 < a /\ bonded = true /\ get_val P v <> None /\ a <= q_balance s d /\
  stake_of s' d v = stake_of s d v + a * D18 /\ disp s' d v = disp s d v + a /\
  (forall d' v', (d', v') <> (d, v) -> stake_of s' d' v' = stake_of s d' v') /\
  q_balance s' d = q_balance s d - a /\ q_pool s' = q_pool s + a /\
  (forall x, x <> d -> q_balance s' x = q_balance s x) /\ q_supply s' = q_supply s /\
  vstake s' v = vstake s v + a /\ (forall v', v' <> v -> vstake s' v' = vstake s v') /\
  s_queue s' = s_queue s /\ s_waddr s' = s_waddr s /\ bank_wf (s_bank s').
Proof.
  intros Hw H. unfold exec_delegate in H.
  destruct (a =? 0) eqn:Za; [discriminate|]. apply N.eqb_neq in Za.
  destruct bonded; [|discriminate]. cbn [negb] in H.
  inv_bind H as s1 Hu. inv_bind H as b Hb. injection H as <-.
  apply update_stake_spec in Hu as (vi & comm & st' & ns & Gv & Gc & Q & W & B & Sm & So & Vo & Vv & _ & _ & Ens & Hov & Hns & _).
  apply of_bank_ok in Hb. rewrite B in Hb.
  apply send_tok in Hb as (Hw' & Pa & Le & Bf & Bt & Bo & Su); [|exact Hw|apply acct_not_pool].
  apply new_stake_of in Hns. subst ns.
  assert (Hst : stake_of s1 d v = stake_of s d v + a * D18) by exact Hns.
  split; [lia|]. split; [reflexivity|]. split; [congruence|]. split; [exact Le|].
  split; [exact Hst|]. split; [rewrite disp_set_bank; unfold disp; rewrite Hst; apply floor_add_whole|].
  split; [apply (stake_of_other s s1 d v Sm)|].
  split; [exact Bf|]. split; [exact Bt|].
  split; [intros x Hx; apply Bo; [|apply acct_not_pool]; intros E; apply acct_inj in E; contradiction|].
  split; [exact Su|].
  split; [rewrite vstake_set_bank; unfold vstake; rewrite Vv, Gv; reflexivity|].
  split; [apply (vstake_other s s1 v Vo)|].
  split; [exact Q|]. split; [exact W|]. exact Hw'.
Qed.

(* update_stake in additive form (total over all pairs / validators) *)
Lemma update_stake_views P now s d v a sub s' : update_stake P now s d v a sub = SOk s' ->
  get_val P v <> None /\ get_vi v s <> None /\
  s_queue s' = s_queue s /\ s_waddr s' = s_waddr s /\ s_bank s' = s_bank s /\
  (sub = true -> a * D18 <= stake_of s d v /\ a <= vstake s v /\ get_stake d v s <> None) /\
  (forall d' v', stake_of s' d' v' + (if sub && peqb (d', v') (d, v) then a * D18 else 0) =
                 stake_of s d' v' + (if negb sub && peqb (d', v') (d, v) then a * D18 else 0)) /\
  (forall v', vstake s' v' + (if sub && (v' =? v) then a else 0) =
              vstake s v' + (if negb sub && (v' =? v) then a else 0)).
Proof.
  intros H.
  apply update_stake_spec in H as (vi & comm & st' & ns & Gv & Gc & Q & W & B & Sm & So & Vo & Vv & _ & _ & Ens & Hov & Hns & _).
  apply new_stake_of in Hns.
  split; [congruence|]. split; [congruence|]. split; [exact Q|]. split; [exact W|]. split; [exact B|].
  split; [intros ->; rewrite (vstake_of_get s v vi Gv); exact Hov|]. split.
  - intros d' v'. destruct (peqb (d', v') (d, v)) eqn:E.
    + apply peqb_spec in E. injection E as -> ->. rewrite Hns, Ens. destruct sub; cbn [andb negb]; [|lia].
      destruct Hov as (Hov & _). lia.
    + rewrite !andb_false_r. rewrite (stake_of_other s s' d v Sm); [reflexivity|].
      intros C. rewrite C, peqb_refl in E. discriminate.
  - intros v'. destruct (v' =? v) eqn:E.
    + apply N.eqb_eq in E. subst v'. unfold vstake. rewrite Vv, Gv. cbn [vi_stake].
      destruct sub; cbn [andb negb]; [|lia]. destruct Hov as (_ & Hov & _). lia.
    + rewrite !andb_false_r. apply N.eqb_neq in E. rewrite (vstake_other s s' v Vo v' E). reflexivity.
Qed.

Lemma le_floor a x : a * D18 <= x -> a <= to_uint_floor x.
Proof. intros H. unfold to_uint_floor. apply N.div_le_lower_bound; [apply D18_neq|]. lia. Qed.

Lemma undelegate_lemma P now s d v a bonded s' : exec_undelegate P now s d v a bonded = SOk s' ->
  0 < a /\ bonded = true /\ get_val P v <> None /\
  a * D18 <= stake_of s d v /\ a <= disp s d v /\ a <= vstake s v /\
  stake_of s' d v = stake_of s d v - a * D18 /\ disp s' d v = disp s d v - a /\
  (forall d' v', (d', v') <> (d, v) -> stake_of s' d' v' = stake_of s d' v') /\
  s_queue s' = s_queue s ++ [mkUnb d v a (now + p_unbond P * NS)] /\
  s_bank s' = s_bank s /\ s_waddr s' = s_waddr s /\
  vstake s' v = vstake s v - a /\ (forall v', v' <> v -> vstake s' v' = vstake s v').
Proof.
  unfold exec_undelegate. intros H. destruct bonded; [|discriminate]. cbn [negb] in H.
  destruct (a =? 0) eqn:Za; [discriminate|]. apply N.eqb_neq in Za.
  inv_bind H as s1 Hu.
  destruct (U64 <=? p_unbond P * NS); [discriminate|]. destruct (U64 <=? now + p_unbond P * NS); [discriminate|].
  injection H as <-.
  apply update_stake_views in Hu as (Kv & _ & Q & W & B & Hs & St & Vs).
  destruct (Hs eq_refl) as (L1 & L2 & _).
  assert (E1 : stake_of s1 d v = stake_of s d v - a * D18).
  { specialize (St d v). rewrite peqb_refl in St. cbn [andb negb] in St. lia. }
  split; [lia|]. split; [reflexivity|]. split; [exact Kv|]. split; [exact L1|].
  split; [apply le_floor, L1|]. split; [exact L2|]. split; [exact E1|].
  split; [rewrite disp_set_queue; unfold disp; rewrite E1; apply floor_sub_whole, L1|].
  split.
  { intros d' v' Hn. specialize (St d' v'). rewrite stake_of_set_queue. rewrite peqb_false in St by exact Hn.
    rewrite !andb_false_r in St. lia. }
  split; [cbn; rewrite Q; reflexivity|]. split; [exact B|]. split; [exact W|].
  split.
  { specialize (Vs v). rewrite N.eqb_refl in Vs. cbn [andb negb] in Vs. rewrite vstake_set_queue. lia. }
  intros v' Hn. specialize (Vs v'). apply N.eqb_neq in Hn. rewrite Hn, !andb_false_r in Vs. rewrite vstake_set_queue. lia.
Qed.

Lemma redelegate_lemma P now s d v1 v2 a bonded s' : exec_redelegate P now s d v1 v2 a bonded = SOk s' ->
  bonded = true /\ get_val P v1 <> None /\ get_val P v2 <> None /\
  a * D18 <= stake_of s d v1 /\ a <= disp s d v1 /\
  (forall d' v', stake_of s' d' v' + (if peqb (d', v') (d, v1) then a * D18 else 0) =
                 stake_of s d' v' + (if peqb (d', v') (d, v2) then a * D18 else 0)) /\
  (forall v', vstake s' v' + (if v' =? v1 then a else 0) = vstake s v' + (if v' =? v2 then a else 0)) /\
  s_queue s' = s_queue s /\ s_bank s' = s_bank s /\ s_waddr s' = s_waddr s.
Proof.
  unfold exec_redelegate. intros H. destruct bonded; [|discriminate]. cbn [negb] in H.
  inv_bind H as s1 Hu.
  apply update_stake_views in Hu as (Kv1 & _ & Q1 & W1 & B1 & Hs1 & St1 & Vs1).
  apply update_stake_views in H as (Kv2 & _ & Q2 & W2 & B2 & _ & St2 & Vs2).
  destruct (Hs1 eq_refl) as (L1 & L2 & _).
  split; [reflexivity|]. split; [exact Kv1|]. split; [exact Kv2|]. split; [exact L1|].
  split; [apply le_floor, L1|]. split; [|split; [|split; [congruence|split; congruence]]].
  - intros d' v'. specialize (St1 d' v'). specialize (St2 d' v'). cbn [andb negb] in St1, St2. lia.
  - intros v'. specialize (Vs1 v'). specialize (Vs2 v'). cbn [andb negb] in Vs1, Vs2. lia.
Qed.

(* ---------- no logic panic: the arithmetic ---------- *)

Lemma dec_mul_np a b : dec_mul a b <> SPanic. Proof. apply fit_not_panic. Qed.
Lemma dec_add_np a b : dec_add a b <> SPanic. Proof. apply fit_not_panic. Qed.
Lemma dec_of_uint_np a : dec_of_uint a <> SPanic. Proof. apply fit_not_panic. Qed.
Lemma mul_floor_np a b : mul_floor a b <> SPanic. Proof. apply fit_not_panic. Qed.
Lemma dec_sub_np a b : dec_sub a b <> SPanic. Proof. unfold dec_sub. destruct (b <=? a); discriminate. Qed.
Lemma dec_mul_ne a b : dec_mul a b <> SErr. Proof. apply fit_not_err. Qed.
Lemma dec_add_ne a b : dec_add a b <> SErr. Proof. apply fit_not_err. Qed.
Lemma dec_of_uint_ne a : dec_of_uint a <> SErr. Proof. apply fit_not_err. Qed.
Lemma mul_floor_ne a b : mul_floor a b <> SErr. Proof. apply fit_not_err. Qed.
Lemma dec_sub_ne a b : dec_sub a b <> SErr. Proof. unfold dec_sub. destruct (b <=? a); discriminate. Qed.

Lemma share_of_rewards_np st vs nr : share_of_rewards st vs nr <> SPanic.
Proof.
  unfold share_of_rewards. destruct (vs =? 0) eqn:E; [discriminate|].
  apply sbind_not_panic; [apply dec_mul_np|]. intros x _. unfold dec_div_uint. rewrite E. discriminate.
Qed.
Lemma share_of_rewards_ne st vs nr : share_of_rewards st vs nr <> SErr.
Proof.
  unfold share_of_rewards. destruct (vs =? 0) eqn:E; [discriminate|].
  apply sbind_not_err; [apply dec_mul_ne|]. intros x _. unfold dec_div_uint. rewrite E. discriminate.
Qed.

Lemma year_dec : dec_of_uint YEAR = SOk (YEAR * D18). Proof. reflexivity. Qed.

Lemma calculate_rewards_np now since apr comm stake : since <= now -> calculate_rewards now since apr comm stake <> SPanic.
Proof.
  intros H. unfold calculate_rewards.
  assert (L : since / NS * NS <= since) by (rewrite N.mul_comm; apply N.mul_div_le; discriminate).
  replace (now <? since / NS * NS) with false by (symmetry; apply N.ltb_ge; lia).
  apply sbind_not_panic; [apply dec_of_uint_np|]. intros sd _.
  apply sbind_not_panic; [apply dec_mul_np|]. intros x1 _.
  apply sbind_not_panic; [apply dec_of_uint_np|]. intros tdd _.
  apply sbind_not_panic; [apply dec_mul_np|]. intros x2 _.
  rewrite year_dec. cbn [sbind].
  apply sbind_not_panic; [unfold dec_div; cbn; apply fit_not_panic|]. intros rw _.
  apply sbind_not_panic; [apply dec_mul_np|]. intros c _. apply dec_sub_np.
Qed.
Lemma calculate_rewards_ne now since apr comm stake : calculate_rewards now since apr comm stake <> SErr.
Proof.
  unfold calculate_rewards. destruct (now <? since / NS * NS); [discriminate|].
  apply sbind_not_err; [apply dec_of_uint_ne|]. intros sd _.
  apply sbind_not_err; [apply dec_mul_ne|]. intros x1 _.
  apply sbind_not_err; [apply dec_of_uint_ne|]. intros tdd _.
  apply sbind_not_err; [apply dec_mul_ne|]. intros x2 _.
  rewrite year_dec. cbn [sbind].
  apply sbind_not_err; [unfold dec_div; cbn; apply fit_not_err|]. intros rw _.
  apply sbind_not_err; [apply dec_mul_ne|]. intros c _. apply dec_sub_ne.
Qed.

(* ---------- the staker sets are exact ---------- *)

(* every validator's staker set is duplicate-free and lists exactly the delegators with a STAKES entry *)
Definition stakers_ok (s : sstate) : Prop :=
  forall v vi, get_vi v s = Some vi ->
    NoDup (vi_stakers vi) /\ forall d, In d (vi_stakers vi) <-> get_stake d v s <> None.
(* no validator's reward clock is ahead of the block time *)
Definition last_ok (now : N) (s : sstate) : Prop := forall v vi, get_vi v s = Some vi -> vi_last vi <= now.

Lemma credit_stakers_np v vs nr : forall l s, (forall d, In d l -> get_stake d v s <> None) ->
  credit_stakers v vs nr l s <> SPanic.
Proof.
  induction l as [|d l IH]; intros s H; cbn [credit_stakers]; [discriminate|].
  destruct (get_stake d v s) as [sh|] eqn:G; [|exfalso; apply (H d); [left; reflexivity|exact G]].
  apply sbind_not_panic; [apply share_of_rewards_np|]. intros x _.
  apply sbind_not_panic; [apply dec_add_np|]. intros r' _. apply IH.
  intros d' Hd. rewrite get_stake_put_stake. destruct (peqb (d', v) (d, v)); [discriminate|].
  apply H. right. exact Hd.
Qed.
Lemma credit_stakers_ne v vs nr : forall l s, credit_stakers v vs nr l s <> SErr.
Proof.
  induction l as [|d l IH]; intros s; cbn [credit_stakers]; [discriminate|].
  destruct (get_stake d v s) as [sh|] eqn:G; [|discriminate].
  apply sbind_not_err; [apply share_of_rewards_ne|]. intros x _.
  apply sbind_not_err; [apply dec_add_ne|]. intros r' _. apply IH.
Qed.

Lemma update_rewards_np P now s v : stakers_ok s -> last_ok now s -> update_rewards P now s v <> SPanic.
Proof.
  intros Hs Hl. unfold update_rewards.
  destruct (get_vi v s) as [vi|] eqn:Gv; [|discriminate].
  destruct (get_val P v) as [comm|]; [|discriminate].
  destruct (now <=? vi_last vi); [discriminate|].
  apply sbind_not_panic; [apply calculate_rewards_np, (Hl v vi Gv)|]. intros nr _.
  destruct (nr =? 0); [discriminate|].
  apply credit_stakers_np. intros d Hd. rewrite get_stake_put_vi. apply (Hs v vi Gv), Hd.
Qed.

(* update_rewards fails only for an unknown validator *)
Lemma update_rewards_err P now s v : update_rewards P now s v = SErr -> get_vi v s = None \/ get_val P v = None.
Proof.
  unfold update_rewards. destruct (get_vi v s) as [vi|]; [|auto]. destruct (get_val P v) as [comm|]; [|auto].
  destruct (now <=? vi_last vi); [discriminate|]. intros H. exfalso. revert H.
  apply sbind_not_err; [apply calculate_rewards_ne|]. intros nr _. destruct (nr =? 0); [discriminate|].
  apply credit_stakers_ne.
Qed.

Lemma update_rewards_stakers_ok P now s v s1 : stakers_ok s -> update_rewards P now s v = SOk s1 -> stakers_ok s1.
Proof.
  intros Hs H. apply update_rewards_spec in H as (vi & comm & Gv & _ & SB & Vo & Vv).
  intros v' vi' G'. destruct (N.eq_dec v' v) as [->|Hn].
  - rewrite Vv in G'. injection G' as <-. cbn [vi_stakers]. destruct (Hs v vi Gv) as [N1 N2]. split; [exact N1|].
    intros d. rewrite N2. pose proof (same_but_rewards_dom _ _ _ SB d v) as D. tauto.
  - rewrite (Vo v' Hn) in G'. destruct (Hs v' vi' G') as [N1 N2]. split; [exact N1|].
    intros d. rewrite N2. pose proof (same_but_rewards_dom _ _ _ SB d v') as D. tauto.
Qed.

Lemma update_rewards_last_ok P now s v s1 : last_ok now s -> update_rewards P now s v = SOk s1 -> last_ok now s1.
Proof.
  intros Hl H. apply update_rewards_spec in H as (vi & comm & Gv & _ & SB & Vo & Vv).
  intros v' vi' G'. destruct (N.eq_dec v' v) as [->|Hn].
  - rewrite Vv in G'. injection G' as <-. cbn [vi_last]. pose proof (Hl v vi Gv). lia.
  - rewrite (Vo v' Hn) in G'. apply (Hl v' vi' G').
Qed.

Lemma update_stake_stakers_ok P now s d v a sub s' : stakers_ok s -> update_stake P now s d v a sub = SOk s' -> stakers_ok s'.
Proof.
  intros Hs H.
  apply update_stake_spec in H as (vi & comm & st' & ns & Gv & Gc & Q & W & B & Sm & So & Vo & Vv & Hin & Hnd & _).
  intros v' vi' G'. destruct (N.eq_dec v' v) as [->|Hn].
  - rewrite Vv in G'. injection G' as <-. cbn [vi_stakers]. destruct (Hs v vi Gv) as [N1 N2]. split; [apply Hnd, N1|].
    intros x. rewrite Hin. destruct (N.eq_dec x d) as [->|Hx]; [tauto|].
    assert (D : get_stake x v s' = None <-> get_stake x v s = None).
    { assert (Hp : (x, v) <> (d, v)) by congruence. specialize (Sm x v Hp).
      destruct (get_stake x v s'), (get_stake x v s); cbn in Sm; split; congruence. }
    rewrite N2. tauto.
  - rewrite (Vo v' Hn) in G'. destruct (Hs v' vi' G') as [N1 N2]. split; [exact N1|].
    intros x. rewrite N2, (So x v' Hn). tauto.
Qed.

Lemma update_stake_last_ok P now s d v a sub s' : last_ok now s -> update_stake P now s d v a sub = SOk s' -> last_ok now s'.
Proof.
  intros Hl H.
  apply update_stake_spec in H as (vi & comm & st' & ns & Gv & Gc & Q & W & B & Sm & So & Vo & Vv & _).
  intros v' vi' G'. destruct (N.eq_dec v' v) as [->|Hn].
  - rewrite Vv in G'. injection G' as <-. cbn [vi_last]. pose proof (Hl v vi Gv). lia.
  - rewrite (Vo v' Hn) in G'. apply (Hl v' vi' G').
Qed.

Lemma update_stake_np P now s d v a sub : stakers_ok s -> last_ok now s -> update_stake P now s d v a sub <> SPanic.
Proof.
  intros Hs Hl. unfold update_stake.
  apply sbind_not_panic; [apply update_rewards_np; assumption|]. intros s1 _.
  apply sbind_not_panic; [destruct (get_stake d v s1); [discriminate|destruct sub; discriminate]|]. intros sh _.
  apply sbind_not_panic; [apply dec_of_uint_np|]. intros ad _.
  apply sbind_not_panic.
  - destruct sub.
    + destruct (sh_stake sh <? ad); [discriminate|]. destruct (_ <? a); discriminate.
    + apply sbind_not_panic; [apply dec_add_np|]. intros y _. destruct (U128 <=? _); discriminate.
  - intros [st' vs'] _. destruct (st' =? 0); discriminate.
Qed.

(* ---------- slash ---------- *)

Lemma scale_queue_inv v rem : forall q q', scale_queue v rem q = SOk q' -> q' = scale_q v rem q.
Proof.
  induction q as [|u q IH]; intros q' H; cbn [scale_queue] in H.
  - injection H as <-. reflexivity.
  - inv_bind H as u' Hu. inv_bind H as r' Hr. injection H as <-. cbn [scale_q map]. f_equal.
    + destruct (u_val u =? v); [|injection Hu as <-; reflexivity].
      inv_bind Hu as a' Ha. apply mul_floor_inv in Ha. subst a'. injection Hu as <-. reflexivity.
    + apply IH, Hr.
Qed.
Lemma scale_queue_np v rem : forall q, scale_queue v rem q <> SPanic.
Proof.
  induction q as [|u q IH]; cbn [scale_queue]; [discriminate|].
  apply sbind_not_panic.
  - destruct (u_val u =? v); [|discriminate]. apply sbind_not_panic; [apply mul_floor_np|]. discriminate.
  - intros u' _. apply sbind_not_panic; [exact IH|]. discriminate.
Qed.

Lemma remove_stakers_spec v : forall l s,
  let s' := remove_stakers v l s in
  s_vi s' = s_vi s /\ s_queue s' = s_queue s /\ s_waddr s' = s_waddr s /\ s_bank s' = s_bank s /\
  forall d' v', get_stake d' v' s' = if (v' =? v) && mem d' l then None else get_stake d' v' s.
Proof.
  induction l as [|d l IH]; intros s; cbn [remove_stakers].
  - repeat split. intros d' v'. rewrite andb_false_r. reflexivity.
  - destruct (IH (del_stake d v s)) as (A1 & A2 & A3 & A4 & A5). cbn zeta in *.
    split; [exact A1|]. split; [exact A2|]. split; [exact A3|]. split; [exact A4|].
    intros d' v'. rewrite A5, get_stake_del_stake. unfold mem. cbn [existsb]. fold (mem d' l).
    destruct (v' =? v) eqn:Ev; cbn [andb]; [|rewrite peqb_neq_v by (apply N.eqb_neq, Ev); reflexivity].
    apply N.eqb_eq in Ev. subst v'. destruct (mem d' l); [rewrite orb_true_r; reflexivity|].
    rewrite orb_false_r. unfold peqb. cbn [fst snd]. rewrite N.eqb_refl, andb_true_r. destruct (d' =? d); reflexivity.
Qed.

Lemma scale_stakers_spec v rem : forall l s s', NoDup l -> scale_stakers v rem l s = SOk s' ->
  s_vi s' = s_vi s /\ s_queue s' = s_queue s /\ s_waddr s' = s_waddr s /\ s_bank s' = s_bank s /\
  (forall d, In d l -> get_stake d v s <> None) /\
  forall d' v', get_stake d' v' s' =
    if (v' =? v) && mem d' l
    then option_map (fun sh => mkSh (sh_stake sh * rem / D18) (sh_rew sh)) (get_stake d' v' s)
    else get_stake d' v' s.
Proof.
  induction l as [|d l IH]; intros s s' Hnd H; cbn [scale_stakers] in H.
  - injection H as <-. repeat split; try reflexivity; [intros d []|]. intros d' v'. rewrite andb_false_r. reflexivity.
  - destruct (get_stake d v s) as [sh|] eqn:G; [|discriminate].
    inv_bind H as st' Hst. apply dec_mul_inv in Hst. subst st'.
    inversion Hnd as [|? ? Hni Hnd']; subst.
    apply IH in H as (A1 & A2 & A3 & A4 & A5 & A6); [|exact Hnd'].
    split; [exact A1|]. split; [exact A2|]. split; [exact A3|]. split; [exact A4|]. split.
    + intros x [<-|Hx]; [congruence|]. specialize (A5 x Hx). rewrite get_stake_put_stake in A5.
      destruct (peqb (x, v) (d, v)) eqn:E; [|exact A5]. apply peqb_spec in E. injection E as ->. congruence.
    + intros d' v'. rewrite A6, get_stake_put_stake. unfold mem at 2. cbn [existsb]. fold (mem d' l).
      destruct (v' =? v) eqn:Ev; cbn [andb]; [|rewrite peqb_neq_v by (apply N.eqb_neq, Ev); reflexivity].
      apply N.eqb_eq in Ev. subst v'. destruct (d' =? d) eqn:Ed; cbn [orb].
      * apply N.eqb_eq in Ed. subst d'. rewrite peqb_refl.
        replace (mem d l) with false by (symmetry; destruct (mem d l) eqn:M; [apply mem_In in M; contradiction|reflexivity]).
        rewrite G. reflexivity.
      * rewrite peqb_false; [reflexivity|]. intros C. injection C as ->. rewrite N.eqb_refl in Ed. discriminate.
Qed.

Lemma scale_stakers_np v rem : forall l s, (forall d, In d l -> get_stake d v s <> None) -> scale_stakers v rem l s <> SPanic.
Proof.
  induction l as [|d l IH]; intros s H; cbn [scale_stakers]; [discriminate|].
  destruct (get_stake d v s) as [sh|] eqn:G; [|exfalso; apply (H d); [left; reflexivity|exact G]].
  apply sbind_not_panic; [apply dec_mul_np|]. intros st' _. apply IH.
  intros d' Hd. rewrite get_stake_put_stake. destruct (peqb (d', v) (d, v)); [discriminate|]. apply H. right. exact Hd.
Qed.

(* the complete effect of a successful slash (given exact staker sets) *)
Lemma slash_spec P now s v p s' : stakers_ok s -> exec_slash P now s v p = SOk s' ->
  exists s1 vi,
    update_rewards P now s v = SOk s1 /\ get_vi v s1 = Some vi /\ p <= D18 /\ get_val P v <> None /\
    let rem := D18 - p in let nv := vi_stake vi * rem / D18 in
    vi_stake vi = vstake s v /\
    s_bank s' = s_bank s /\ s_waddr s' = s_waddr s /\ s_queue s' = scale_q v rem (s_queue s) /\
    (forall v', v' <> v -> get_vi v' s' = get_vi v' s) /\
    (forall d' v', v' <> v -> get_stake d' v' s' = get_stake d' v' s) /\
    get_vi v s' = Some (mkVi (if nv =? 0 then [] else vi_stakers vi) nv (vi_last vi)) /\
    (forall d, get_stake d v s' =
       if nv =? 0 then None
       else option_map (fun sh => mkSh (sh_stake sh * rem / D18) (sh_rew sh)) (get_stake d v s1)).
Proof.
  intros Hs H. unfold exec_slash in H. destruct (D18 <? p) eqn:Ep; [discriminate|]. apply N.ltb_ge in Ep.
  inv_bind H as s1 Hu. pose proof (update_rewards_stakers_ok _ _ _ _ _ Hs Hu) as Hs1.
  pose proof Hu as Hu'. apply update_rewards_spec in Hu' as (vi0 & comm & Gv & Gc & SB & Vo & Vv).
  rewrite Vv in H. set (vi := mkVi (vi_stakers vi0) (vi_stake vi0) (N.max now (vi_last vi0))) in *.
  exists s1, vi. split; [exact Hu|]. split; [exact Vv|]. split; [exact Ep|]. split; [congruence|].
  inv_bind H as nv Hnv. apply mul_floor_inv in Hnv. inv_bind H as s2 H2. inv_bind H as q' Hq.
  apply scale_queue_inv in Hq. injection H as <-. cbn zeta. unfold vi in *. clear vi. cbn [vi_stake vi_stakers vi_last] in *.
  destruct SB as (Q & W & B & So & Sm). destruct (Hs1 v _ Vv) as [Hnd Hin]. cbn [vi_stakers] in Hnd, Hin.
  split; [symmetry; apply vstake_of_get, Gv|].
  rewrite <- Hnv.
  destruct (nv =? 0) eqn:Z.
  - injection H2 as <-. destruct (remove_stakers_spec v (vi_stakers vi0) s1) as (A1 & A2 & A3 & A4 & A5). cbn zeta in *.
    split; [cbn [s_bank put_vi set_vis set_queue]; congruence|]. split; [cbn [s_waddr put_vi set_vis set_queue]; congruence|].
    split; [cbn [s_queue put_vi set_vis set_queue]; rewrite Hq, A2, Q; reflexivity|].
    split; [|split; [|split]].
    + intros v' Hn. rewrite get_vi_put_vi. apply N.eqb_neq in Hn. rewrite Hn. rewrite get_vi_set_queue. unfold get_vi. rewrite A1.
      apply Vo. apply N.eqb_neq, Hn.
    + intros d' v' Hn. rewrite get_stake_put_vi, get_stake_set_queue.
      rewrite A5. apply N.eqb_neq in Hn. rewrite Hn. cbn [andb]. apply So. apply N.eqb_neq, Hn.
    + rewrite get_vi_put_vi, N.eqb_refl. reflexivity.
    + intros d. rewrite get_stake_put_vi, get_stake_set_queue.
      rewrite A5, N.eqb_refl. cbn [andb]. destruct (mem d (vi_stakers vi0)) eqn:M; [reflexivity|].
      destruct (get_stake d v s1) eqn:G; [|reflexivity]. exfalso.
      assert (Hi : In d (vi_stakers vi0)) by (apply Hin; congruence). apply mem_In in Hi. congruence.
  - apply scale_stakers_spec in H2 as (A1 & A2 & A3 & A4 & _ & A6); [|exact Hnd].
    split; [cbn [s_bank put_vi set_vis set_queue]; congruence|]. split; [cbn [s_waddr put_vi set_vis set_queue]; congruence|].
    split; [cbn [s_queue put_vi set_vis set_queue]; rewrite Hq, A2, Q; reflexivity|].
    split; [|split; [|split]].
    + intros v' Hn. rewrite get_vi_put_vi. apply N.eqb_neq in Hn. rewrite Hn. rewrite get_vi_set_queue. unfold get_vi. rewrite A1.
      apply Vo. apply N.eqb_neq, Hn.
    + intros d' v' Hn. rewrite get_stake_put_vi, get_stake_set_queue.
      rewrite A6. apply N.eqb_neq in Hn. rewrite Hn. cbn [andb]. apply So. apply N.eqb_neq, Hn.
    + rewrite get_vi_put_vi, N.eqb_refl. reflexivity.
    + intros d. rewrite get_stake_put_vi, get_stake_set_queue.
      rewrite A6, N.eqb_refl. cbn [andb]. destruct (mem d (vi_stakers vi0)) eqn:M; [reflexivity|].
      destruct (get_stake d v s1) eqn:G; [|reflexivity]. exfalso.
      assert (Hi : In d (vi_stakers vi0)) by (apply Hin; congruence). apply mem_In in Hi. congruence.
Qed.

(* ---------- process_queue ---------- *)

Lemma pay_entry_shape s u rest s' : pay_entry s u rest = SOk s' ->
  let d := u_del u in let v := u_val u in
  exists s1,
    (s1 = s \/
     (get_stake d v s <> None /\ disp s d v = 0 /\
      ((exists vi, get_vi v s = Some vi /\
                   s1 = put_vi v (mkVi (stakers_remove d (vi_stakers vi)) (vi_stake vi) (vi_last vi)) (del_stake d v s)) \/
       (get_vi v s = None /\ s1 = del_stake d v s))) \/
     (get_stake d v s = None /\ s1 = del_stake d v s)) /\
    ((u_amt u = 0 /\ s' = s1) \/
     (u_amt u <> 0 /\ exists b, bank_send (s_bank s1) pool (acct d) (tok (u_amt u)) = Ok b /\ s' = set_bank s1 b)).
Proof.
  unfold pay_entry. intros H. cbn zeta. inv_bind H as s1 H1. exists s1. split.
  - destruct (get_stake (u_del u) (u_val u) s) as [sh|] eqn:G.
    + inv_bind H1 as t Ht. apply fit_inv in Ht as [-> _].
      destruct (_ =? 0) eqn:Z.
      * right. left. split; [discriminate|]. apply N.eqb_eq in Z.
        split; [unfold disp, stake_of; rewrite G; lia|].
        rewrite get_vi_del_stake in H1. destruct (get_vi (u_val u) s) as [vi|] eqn:Gv; injection H1 as <-.
        -- left. exists vi. split; reflexivity.
        -- right. split; reflexivity.
      * left. injection H1 as <-. reflexivity.
    + right. right. injection H1 as <-. split; reflexivity.
  - destruct (u_amt u =? 0) eqn:Z.
    + left. apply N.eqb_eq in Z. injection H as <-. split; [exact Z|reflexivity].
    + right. apply N.eqb_neq in Z. split; [exact Z|]. inv_bind H as b Hb. apply of_bank_ok in Hb.
      injection H as <-. exists b. split; [exact Hb|reflexivity].
Qed.

Lemma disp_del_zero s d v d' v' : disp s d v = 0 -> disp (del_stake d v s) d' v' = disp s d' v'.
Proof.
  intros H. unfold disp, stake_of. rewrite get_stake_del_stake. destruct (peqb (d', v') (d, v)) eqn:E; [|reflexivity].
  apply peqb_spec in E. injection E as -> ->. unfold disp, stake_of in H. rewrite H. reflexivity.
Qed.
Lemma disp_del_none s d v d' v' : get_stake d v s = None -> disp (del_stake d v s) d' v' = disp s d' v'.
Proof.
  intros H. unfold disp, stake_of. rewrite get_stake_del_stake. destruct (peqb (d', v') (d, v)) eqn:E; [|reflexivity].
  apply peqb_spec in E. injection E as -> ->. rewrite H. reflexivity.
Qed.

Lemma pay_entry_spec s u rest s' : bank_wf (s_bank s) -> pay_entry s u rest = SOk s' ->
  s_queue s' = s_queue s /\ s_waddr s' = s_waddr s /\
  (forall d v, disp s' d v = disp s d v) /\
  (forall v, vstake s' v = vstake s v) /\
  bank_wf (s_bank s') /\
  (forall a, q_balance s' a = q_balance s a + (if u_del u =? a then u_amt u else 0)) /\
  q_pool s' + u_amt u = q_pool s /\ q_supply s' = q_supply s.
Proof.
  intros Hw H. apply pay_entry_shape in H. cbn zeta in H. destruct H as (s1 & H1 & H2).
  assert (A : s_queue s1 = s_queue s /\ s_waddr s1 = s_waddr s /\ s_bank s1 = s_bank s /\
              (forall d v, disp s1 d v = disp s d v) /\ (forall v, vstake s1 v = vstake s v)).
  { destruct H1 as [->|[(Hn & Hz & [(vi & Gv & ->)|(Gv & ->)])|(Hn & ->)]].
    - repeat split; reflexivity.
    - split; [reflexivity|]. split; [reflexivity|]. split; [reflexivity|]. split.
      + intros d v. apply (disp_del_zero s _ _ d v Hz).
      + intros v. unfold vstake. rewrite get_vi_put_vi, get_vi_del_stake. destruct (v =? u_val u) eqn:E; [|reflexivity].
        apply N.eqb_eq in E. subst v. rewrite Gv. reflexivity.
    - split; [reflexivity|]. split; [reflexivity|]. split; [reflexivity|]. split.
      + intros d v. apply (disp_del_zero s _ _ d v Hz).
      + reflexivity.
    - split; [reflexivity|]. split; [reflexivity|]. split; [reflexivity|]. split.
      + intros d v. apply (disp_del_none s _ _ d v Hn).
      + reflexivity. }
  destruct A as (Q & W & B & Dp & Vs).
  destruct H2 as [(Z & ->)|(Z & b & Hb & ->)].
  - split; [exact Q|]. split; [exact W|]. split; [exact Dp|]. split; [exact Vs|]. split; [rewrite B; exact Hw|].
    unfold q_balance, q_pool, q_supply. rewrite B, Z. split; [|split; [lia|reflexivity]].
    intros a. destruct (u_del u =? a); lia.
  - rewrite B in Hb. apply send_tok in Hb as (Hw' & Pa & Le & Bf & Bt & Bo & Su); [|exact Hw|intros C; symmetry in C; revert C; apply acct_not_pool].
    split; [exact Q|]. split; [exact W|]. split; [exact Dp|]. split; [exact Vs|]. split; [exact Hw'|].
    unfold q_balance, q_pool, q_supply. cbn [s_bank set_bank]. split; [|split; [lia|exact Su]].
    intros a. destruct (u_del u =? a) eqn:E.
    + apply N.eqb_eq in E. subst a. exact Bt.
    + rewrite Bo; [lia|apply acct_not_pool|]. intros C. apply acct_inj in C. subst a. rewrite N.eqb_refl in E. discriminate.
Qed.

(* the loop pays the maximal matured prefix *)
Fixpoint matured (now : N) (q : list unb) : list unb :=
  match q with [] => [] | u :: r => if u_at u <=? now then u :: matured now r else [] end.
Fixpoint unmatured (now : N) (q : list unb) : list unb :=
  match q with [] => [] | u :: r => if u_at u <=? now then unmatured now r else q end.

Lemma process_queue_from_spec now : forall q s s', bank_wf (s_bank s) -> process_queue_from now q s = SOk s' ->
  s_queue s' = unmatured now q /\ s_waddr s' = s_waddr s /\
  (forall d v, disp s' d v = disp s d v) /\
  (forall v, vstake s' v = vstake s v) /\
  bank_wf (s_bank s') /\
  (forall a, q_balance s' a = q_balance s a + sum_for a (matured now q)) /\
  q_pool s' + sum_all (matured now q) = q_pool s /\ q_supply s' = q_supply s.
Proof.
  induction q as [|u q IH]; intros s s' Hw H; cbn [process_queue_from matured unmatured] in *.
  - injection H as <-. cbn [sum_for sum_all]. split; [reflexivity|]. split; [reflexivity|]. split; [reflexivity|]. split; [reflexivity|]. split; [exact Hw|].
    split; [intros; symmetry; apply N.add_0_r|]. split; [apply N.add_0_r|reflexivity].
  - destruct (u_at u <=? now).
    + inv_bind H as s1 H1. apply pay_entry_spec in H1 as (Q1 & W1 & D1 & V1 & Hw1 & B1 & P1 & S1); [|exact Hw].
      apply IH in H as (Q2 & W2 & D2 & V2 & Hw2 & B2 & P2 & S2); [|exact Hw1].
      split; [exact Q2|]. split; [congruence|]. split; [intros; rewrite D2; apply D1|].
      split; [intros; rewrite V2; apply V1|]. split; [exact Hw2|]. cbn [sum_for sum_all].
      split; [intros a; rewrite B2, B1; lia|]. split; [lia|congruence].
    + injection H as <-. cbn [sum_for sum_all]. split; [reflexivity|]. split; [reflexivity|]. split; [reflexivity|]. split; [reflexivity|]. split; [exact Hw|].
    split; [intros; symmetry; apply N.add_0_r|]. split; [apply N.add_0_r|reflexivity].
Qed.

(* with the queue sorted by payout time the matured prefix is ALL matured entries *)
Definition sorted_q (q : list unb) : Prop := StronglySorted (fun a b => u_at a <= u_at b) q.

Lemma filter_all_false {A} (f : A -> bool) l : (forall x, In x l -> f x = false) -> filter f l = [].
Proof.
  induction l as [|y l IH]; intros H; [reflexivity|]. cbn [filter]. rewrite (H y) by (left; reflexivity).
  apply IH. intros x Hx. apply H. right. exact Hx.
Qed.
Lemma filter_all_true {A} (f : A -> bool) l : (forall x, In x l -> f x = true) -> filter f l = l.
Proof.
  induction l as [|y l IH]; intros H; [reflexivity|]. cbn [filter]. rewrite (H y) by (left; reflexivity).
  f_equal. apply IH. intros x Hx. apply H. right. exact Hx.
Qed.

Lemma sorted_matured now : forall q, sorted_q q -> matured now q = due now q /\ unmatured now q = not_due now q.
Proof.
  induction q as [|u q IH]; intros H; [split; reflexivity|].
  apply StronglySorted_inv in H as [Hs Hf]. destruct (IH Hs) as [I1 I2].
  cbn [matured unmatured due not_due filter]. destruct (u_at u <=? now) eqn:E; cbn [negb].
  - fold (due now q). fold (not_due now q). rewrite I1, I2. split; reflexivity.
  - apply N.leb_gt in E.
    assert (F : forall x, In x q -> (u_at x <=? now) = false).
    { intros x Hx. apply N.leb_gt. rewrite Forall_forall in Hf. specialize (Hf x Hx). cbn in Hf. lia. }
    split.
    + symmetry. apply filter_all_false. exact F.
    + f_equal. symmetry. apply filter_all_true. intros x Hx. rewrite (F x Hx). reflexivity.
Qed.

(* ---------- withdraw ---------- *)

Lemma withdraw_lemma P now s d v s' : bank_wf (s_bank s) -> exec_withdraw P now s d v = SOk s' ->
  exists s1 sh,
    update_rewards P now s v = SOk s1 /\ get_stake d v s1 = Some sh /\
    let r := to_uint_floor (sh_rew sh) in let w := withdraw_addr s d in
    0 < r /\ get_val P v <> None /\
    (forall d' v', (d', v') <> (d, v) -> get_stake d' v' s' = get_stake d' v' s1) /\
    get_stake d v s' = Some (mkSh (sh_stake sh) 0) /\
    (forall d' v', stake_of s' d' v' = stake_of s d' v') /\
    (forall v', get_vi v' s' = get_vi v' s1) /\
    s_queue s' = s_queue s /\ s_waddr s' = s_waddr s /\ bank_wf (s_bank s') /\
    q_balance s' w = q_balance s w + r /\ (forall a, a <> w -> q_balance s' a = q_balance s a) /\
    q_pool s' = q_pool s /\ q_supply s' = q_supply s + r.
Proof.
  intros Hw H. unfold exec_withdraw in H. inv_bind H as s1 Hu. destruct (get_stake d v s1) as [sh|] eqn:G; [|discriminate].
  inv_bind H as b Hb. apply of_bank_ok in Hb. injection H as <-. exists s1, sh.
  split; [exact Hu|]. split; [exact G|]. cbn zeta.
  pose proof Hu as Hu'. apply update_rewards_spec in Hu' as (vi & comm & Gv & Gc & SB & Vo & Vv).
  pose proof (same_but_rewards_stake_of _ _ _ SB) as St. destruct SB as (Q & W & B & So & Sm).
  assert (Ew : withdraw_addr (put_stake d v (mkSh (sh_stake sh) 0) s1) d = withdraw_addr s d).
  { unfold withdraw_addr. cbn [s_waddr put_stake set_stakes]. rewrite W. reflexivity. }
  rewrite Ew in Hb. cbn [s_bank put_stake set_stakes] in Hb. rewrite B in Hb.
  apply mint_tok in Hb as (Hw' & Pr & Bt & Bo & Su); [|exact Hw].
  split; [exact Pr|]. split; [congruence|]. split.
  { intros d' v' Hn. rewrite get_stake_set_bank, get_stake_put_stake, peqb_false by exact Hn. reflexivity. }
  split; [rewrite get_stake_set_bank, get_stake_put_stake, peqb_refl; reflexivity|]. split.
  { intros d' v'. rewrite <- St. unfold stake_of. rewrite get_stake_set_bank, get_stake_put_stake.
    destruct (peqb (d', v') (d, v)) eqn:E; [|reflexivity]. apply peqb_spec in E. injection E as -> ->. rewrite G. reflexivity. }
  split; [intros; reflexivity|]. split; [exact Q|]. split; [exact W|]. split; [exact Hw'|].
  split; [exact Bt|]. split.
  { intros a Ha. apply Bo. intros C. apply acct_inj in C. contradiction. }
  split; [apply Bo; intros C; symmetry in C; revert C; apply acct_not_pool|exact Su].
Qed.

(* ---------- the invariant of all histories ---------- *)

Fixpoint sum_vstake (s : sstate) (vals : list (N * N)) : N :=
  match vals with [] => 0 | vc :: r => vstake s (fst vc) + sum_vstake s r end.
Fixpoint sum_f (f : N -> N) (vals : list (N * N)) : N :=
  match vals with [] => 0 | vc :: r => f (fst vc) + sum_f f r end.

Record inv (P : params) (now : N) (s : sstate) : Prop := mkInv {
  inv_vals : NoDup (map fst (p_vals P));
  inv_known : forall v, get_vi v s <> None <-> get_val P v <> None;
  inv_stakers : stakers_ok s;
  inv_last : last_ok now s;
  inv_sorted : sorted_q (s_queue s);
  inv_bound : Forall (fun u => u_at u <= now + p_unbond P * NS) (s_queue s);
  inv_bank : bank_wf (s_bank s);
  (* the pool covers every validator's total and every pending unbonding *)
  inv_solvent : sum_vstake s (p_vals P) + sum_all (s_queue s) <= q_pool s
}.

Lemma sum_vstake_delta s s' f1 f2 : (forall v, vstake s' v + f1 v = vstake s v + f2 v) ->
  forall vals, sum_vstake s' vals + sum_f f1 vals = sum_vstake s vals + sum_f f2 vals.
Proof. intros H. induction vals as [|vc r IH]; cbn [sum_vstake sum_f]; [reflexivity|]. specialize (H (fst vc)). lia. Qed.

Lemma sum_vstake_le s s' : (forall v, vstake s' v <= vstake s v) -> forall vals, sum_vstake s' vals <= sum_vstake s vals.
Proof. intros H. induction vals as [|vc r IH]; cbn [sum_vstake]; [lia|]. specialize (H (fst vc)). lia. Qed.

Lemma get_val_In P v : get_val P v <> None <-> In v (map fst (p_vals P)).
Proof.
  unfold get_val. induction (p_vals P) as [|[v' c] l IH]; cbn [fget map fst In]; [tauto|].
  destruct (v =? v') eqn:E.
  - apply N.eqb_eq in E. subst. split; [auto|discriminate].
  - apply N.eqb_neq in E. rewrite IH. split; [auto|]. intros [C|C]; [congruence|exact C].
Qed.

Lemma sum_f_ind v a : forall vals, NoDup (map fst vals) ->
  sum_f (fun v' => if v' =? v then a else 0) vals = if mem v (map fst vals) then a else 0.
Proof.
  induction vals as [|[v' c] r IH]; intros H; cbn [sum_f map fst]; [reflexivity|].
  inversion H as [|? ? Hni Hnd]; subst. rewrite (IH Hnd). unfold mem. cbn [existsb]. fold (mem v (map fst r)).
  rewrite (N.eqb_sym v v'). destruct (v' =? v) eqn:E; cbn [orb]; [|reflexivity].
  apply N.eqb_eq in E. subst v'.
  replace (mem v (map fst r)) with false by (symmetry; destruct (mem v (map fst r)) eqn:M; [apply mem_In in M; contradiction|reflexivity]).
  lia.
Qed.
Lemma sum_f_ind_known P v a : NoDup (map fst (p_vals P)) -> get_val P v <> None ->
  sum_f (fun v' => if v' =? v then a else 0) (p_vals P) = a.
Proof.
  intros H K. rewrite sum_f_ind by exact H. apply get_val_In in K. apply mem_In in K. rewrite K. reflexivity.
Qed.
Lemma sum_f_zero vals : sum_f (fun _ => 0) vals = 0.
Proof. induction vals as [|vc r IH]; cbn [sum_f]; [reflexivity|]. rewrite IH. reflexivity. Qed.

Lemma sum_all_app q1 q2 : sum_all (q1 ++ q2) = sum_all q1 + sum_all q2.
Proof. induction q1 as [|u q IH]; cbn [app sum_all]; [reflexivity|]. rewrite IH. lia. Qed.
Lemma sum_all_scale v rem q : rem <= D18 -> sum_all (scale_q v rem q) <= sum_all q.
Proof.
  intros H. induction q as [|u q IH]; cbn [scale_q map sum_all]; [lia|]. fold (scale_q v rem q).
  destruct (u_val u =? v); cbn [u_amt]; [pose proof (scale_le (u_amt u) rem H)|]; lia.
Qed.
Lemma sum_all_matured now q : sum_all q = sum_all (matured now q) + sum_all (unmatured now q).
Proof.
  induction q as [|u q IH]; cbn [matured unmatured sum_all]; [reflexivity|].
  destruct (u_at u <=? now); cbn [sum_all]; lia.
Qed.

Lemma update_stake_known P now s d v a sub s' : update_stake P now s d v a sub = SOk s' ->
  forall v', get_vi v' s' = None <-> get_vi v' s = None.
Proof.
  intros H. apply update_stake_spec in H as (vi & comm & st' & ns & Gv & Gc & Q & W & B & Sm & So & Vo & Vv & _).
  intros v'. destruct (N.eq_dec v' v) as [->|Hn]; [rewrite Vv, Gv; split; discriminate|rewrite (Vo v' Hn); tauto].
Qed.
Lemma update_rewards_known P now s v s1 : update_rewards P now s v = SOk s1 ->
  forall v', get_vi v' s1 = None <-> get_vi v' s = None.
Proof.
  intros H. apply update_rewards_spec in H as (vi & comm & Gv & Gc & SB & Vo & Vv).
  intros v'. destruct (N.eq_dec v' v) as [->|Hn]; [rewrite Vv, Gv; split; discriminate|rewrite (Vo v' Hn); tauto].
Qed.
Lemma update_rewards_vstake P now s v s1 : update_rewards P now s v = SOk s1 -> forall v', vstake s1 v' = vstake s v'.
Proof.
  intros H. apply update_rewards_spec in H as (vi & comm & Gv & Gc & SB & Vo & Vv).
  intros v'. unfold vstake. destruct (N.eq_dec v' v) as [->|Hn]; [rewrite Vv, Gv; reflexivity|rewrite (Vo v' Hn); reflexivity].
Qed.

Lemma known_iff s s' P : (forall v, get_vi v s' = None <-> get_vi v s = None) ->
  (forall v, get_vi v s <> None <-> get_val P v <> None) -> forall v, get_vi v s' <> None <-> get_val P v <> None.
Proof. intros H K v. rewrite <- K. specialize (H v). tauto. Qed.

Lemma sorted_q_app q u : sorted_q q -> Forall (fun x => u_at x <= u_at u) q -> sorted_q (q ++ [u]).
Proof.
  unfold sorted_q. induction q as [|y q IH]; intros Hs Hb; cbn [app].
  - constructor; constructor.
  - apply StronglySorted_inv in Hs as [Hs Hf]. inversion Hb as [|? ? Hy Hb']; subst.
    constructor; [apply IH; assumption|]. apply Forall_app. split; [exact Hf|]. constructor; [exact Hy|constructor].
Qed.

Lemma inv_delegate P now s d v a bonded s' : inv P now s -> exec_delegate P now s d v a bonded = SOk s' -> inv P now s'.
Proof.
  intros I H. pose proof (delegate_exact_lemma _ _ _ _ _ _ _ _ (inv_bank _ _ _ I) H) as L.
  destruct L as (Pa & -> & Kv & Le & _ & _ & _ & Bd & Bp & _ & _ & V1 & V2 & Q & W & Hw').
  unfold exec_delegate in H. replace (a =? 0) with false in H by (symmetry; apply N.eqb_neq; lia). cbn [negb] in H.
  inv_bind H as s1 Hu. inv_bind H as b Hb. injection H as <-. destruct I.
  constructor; try assumption.
  - apply (known_iff s). { intros v'. rewrite get_vi_set_bank. apply (update_stake_known _ _ _ _ _ _ _ _ Hu). } assumption.
  - intros v' vi'. rewrite get_vi_set_bank. intros G. destruct (update_stake_stakers_ok _ _ _ _ _ _ _ _ inv_stakers0 Hu v' vi' G) as [N1 N2].
    split; [exact N1|]. intros x. rewrite get_stake_set_bank. apply N2.
  - intros v' vi'. rewrite get_vi_set_bank. apply (update_stake_last_ok _ _ _ _ _ _ _ _ inv_last0 Hu).
  - rewrite Q. assumption.
  - rewrite Q. assumption.
  - rewrite Q, Bp.
    assert (E : sum_vstake (set_bank s1 b) (p_vals P) + sum_f (fun _ => 0) (p_vals P) =
                sum_vstake s (p_vals P) + sum_f (fun v' => if v' =? v then a else 0) (p_vals P)).
    { apply sum_vstake_delta. intros v'. destruct (v' =? v) eqn:E.
      - apply N.eqb_eq in E. subst v'. lia.
      - apply N.eqb_neq in E. rewrite (V2 v' E). lia. }
    rewrite sum_f_zero, sum_f_ind_known in E by assumption. lia.
Qed.

Lemma inv_undelegate P now s d v a bonded s' : inv P now s -> exec_undelegate P now s d v a bonded = SOk s' -> inv P now s'.
Proof.
  intros I H. pose proof (undelegate_lemma _ _ _ _ _ _ _ _ H) as L.
  destruct L as (Pa & -> & Kv & _ & _ & Lv & _ & _ & _ & Q & B & W & V1 & V2).
  unfold exec_undelegate in H. cbn [negb] in H. replace (a =? 0) with false in H by (symmetry; apply N.eqb_neq; lia).
  inv_bind H as s1 Hu.
  destruct (U64 <=? p_unbond P * NS); [discriminate|]. destruct (U64 <=? now + p_unbond P * NS); [discriminate|].
  injection H as <-. destruct I.
  constructor.
  - assumption.
  - apply (known_iff s). { intros v'. rewrite get_vi_set_queue. apply (update_stake_known _ _ _ _ _ _ _ _ Hu). } assumption.
  - intros v' vi'. rewrite get_vi_set_queue. intros G. destruct (update_stake_stakers_ok _ _ _ _ _ _ _ _ inv_stakers0 Hu v' vi' G) as [N1 N2].
    split; [exact N1|]. intros x. rewrite get_stake_set_queue. apply N2.
  - intros v' vi'. rewrite get_vi_set_queue. apply (update_stake_last_ok _ _ _ _ _ _ _ _ inv_last0 Hu).
  - rewrite Q. apply sorted_q_app; [assumption|]. cbn [u_at]. exact inv_bound0.
  - rewrite Q. apply Forall_app. split; [assumption|]. constructor; [cbn [u_at]; lia|constructor].
  - rewrite B. assumption.
  - rewrite Q, sum_all_app. cbn [sum_all u_amt]. unfold q_pool in *. rewrite B.
    assert (E : sum_vstake (set_queue s1 (s_queue s1 ++ [mkUnb d v a (now + p_unbond P * NS)])) (p_vals P) +
                sum_f (fun v' => if v' =? v then a else 0) (p_vals P) =
                sum_vstake s (p_vals P) + sum_f (fun _ => 0) (p_vals P)).
    { apply sum_vstake_delta. intros v'. destruct (v' =? v) eqn:E.
      - apply N.eqb_eq in E. subst v'. lia.
      - apply N.eqb_neq in E. rewrite (V2 v' E). lia. }
    rewrite sum_f_zero, sum_f_ind_known in E by assumption. lia.
Qed.

Lemma inv_redelegate P now s d v1 v2 a bonded s' : inv P now s -> exec_redelegate P now s d v1 v2 a bonded = SOk s' -> inv P now s'.
Proof.
  intros I H. pose proof (redelegate_lemma _ _ _ _ _ _ _ _ _ H) as L.
  destruct L as (-> & K1 & K2 & _ & _ & _ & Vs & Q & B & W).
  unfold exec_redelegate in H. cbn [negb] in H. inv_bind H as s1 Hu. destruct I.
  pose proof (update_stake_stakers_ok _ _ _ _ _ _ _ _ inv_stakers0 Hu) as S1.
  pose proof (update_stake_last_ok _ _ _ _ _ _ _ _ inv_last0 Hu) as L1.
  constructor.
  - assumption.
  - apply (known_iff s1); [apply (update_stake_known _ _ _ _ _ _ _ _ H)|].
    apply (known_iff s); [apply (update_stake_known _ _ _ _ _ _ _ _ Hu)|]. assumption.
  - apply (update_stake_stakers_ok _ _ _ _ _ _ _ _ S1 H).
  - apply (update_stake_last_ok _ _ _ _ _ _ _ _ L1 H).
  - rewrite Q. assumption.
  - rewrite Q. assumption.
  - rewrite B. assumption.
  - rewrite Q. unfold q_pool in *. rewrite B.
    pose proof (sum_vstake_delta s s' _ _ Vs (p_vals P)) as E.
    rewrite !sum_f_ind_known in E by assumption. lia.
Qed.

Lemma inv_withdraw P now s d v s' : inv P now s -> exec_withdraw P now s d v = SOk s' -> inv P now s'.
Proof.
  intros I H. destruct I.
  apply withdraw_lemma in H as (s1 & sh & Hu & G & H); [|assumption]. cbn zeta in H.
  destruct H as (Pr & Kv & So & Sv & St & Vi & Q & W & Hw' & Bw & Bo & Bp & Su).
  pose proof (update_rewards_stakers_ok _ _ _ _ _ inv_stakers0 Hu) as S1.
  pose proof (update_rewards_last_ok _ _ _ _ _ inv_last0 Hu) as L1.
  constructor.
  - assumption.
  - apply (known_iff s); [|assumption]. intros v'. rewrite Vi. apply (update_rewards_known _ _ _ _ _ Hu).
  - intros v' vi'. rewrite Vi. intros Gv. destruct (S1 v' vi' Gv) as [N1 N2]. split; [exact N1|].
    intros x. rewrite N2. destruct (peqb (x, v') (d, v)) eqn:E.
    + apply peqb_spec in E. injection E as -> ->. rewrite Sv, G. split; discriminate.
    + rewrite So; [tauto|]. intros C. rewrite C, peqb_refl in E. discriminate.
  - intros v' vi'. rewrite Vi. apply L1.
  - rewrite Q. assumption.
  - rewrite Q. assumption.
  - assumption.
  - rewrite Q, Bp.
    pose proof (sum_vstake_delta s s' (fun _ => 0) (fun _ => 0)) as E.
    assert (E' : sum_vstake s' (p_vals P) + sum_f (fun _ => 0) (p_vals P) = sum_vstake s (p_vals P) + sum_f (fun _ => 0) (p_vals P)).
    { apply E. intros v'. unfold vstake. rewrite Vi. fold (vstake s1 v'). rewrite (update_rewards_vstake _ _ _ _ _ Hu). reflexivity. }
    rewrite sum_f_zero in E'. lia.
Qed.

Lemma sum_vstake_ext s s' : (forall v, vstake s' v = vstake s v) -> forall vals, sum_vstake s' vals = sum_vstake s vals.
Proof. intros H. induction vals as [|vc r IH]; cbn [sum_vstake]; [reflexivity|]. rewrite H, IH. reflexivity. Qed.

Lemma inv_set_withdraw P now s d w s' : inv P now s -> exec_set_withdraw s d w = SOk s' -> inv P now s'.
Proof.
  intros I H. unfold exec_set_withdraw in H. destruct w as [w|]; [|discriminate].
  destruct I as [I1 I2 I3 I4 I5 I6 I7 I8].
  destruct (d =? w); injection H as <-;
    (constructor; [exact I1|exact I2|exact I3|exact I4|exact I5|exact I6|exact I7|
                   rewrite (sum_vstake_ext s) by (intros; reflexivity); exact I8]).
Qed.

Lemma sorted_q_map f q : (forall u, u_at (f u) = u_at u) -> sorted_q q -> sorted_q (map f q).
Proof.
  intros Hf. unfold sorted_q. induction q as [|u q IH]; intros H; cbn [map]; [constructor|].
  apply StronglySorted_inv in H as [Hs Hb]. constructor; [apply IH, Hs|].
  apply Forall_map. eapply Forall_impl; [|exact Hb]. intros x Hx. cbn. rewrite !Hf. exact Hx.
Qed.
Lemma scale_q_at v rem u :
  u_at (if u_val u =? v then mkUnb (u_del u) (u_val u) (u_amt u * rem / D18) (u_at u) else u) = u_at u.
Proof. destruct (u_val u =? v); reflexivity. Qed.

Lemma inv_slash P now s v p s' : inv P now s -> exec_slash P now s v p = SOk s' -> inv P now s'.
Proof.
  intros I H. destruct I.
  apply slash_spec in H as (s1 & vi & Hu & Gv & Lp & Kv & H); [|assumption]. cbn zeta in H.
  destruct H as (Ev & B & W & Q & Vo & So & Vv & Sv).
  pose proof (update_rewards_stakers_ok _ _ _ _ _ inv_stakers0 Hu) as S1.
  pose proof (update_rewards_last_ok _ _ _ _ _ inv_last0 Hu) as L1.
  pose proof Hu as Hu'. apply update_rewards_spec in Hu' as (vi0 & comm & Gv0 & Gc & SB & Vo1 & Vv1).
  constructor.
  - assumption.
  - intros v'. rewrite <- inv_known0. destruct (N.eq_dec v' v) as [->|Hn].
    + rewrite Vv, Gv0. split; discriminate.
    + rewrite (Vo v' Hn). tauto.
  - intros v' vi' G. destruct (N.eq_dec v' v) as [->|Hn].
    + rewrite Vv in G. injection G as <-. cbn [vi_stakers]. destruct (S1 v vi Gv) as [N1 N2].
      destruct (_ =? 0).
      * split; [constructor|]. intros x. rewrite Sv. split; [intros []|congruence].
      * split; [exact N1|]. intros x. rewrite Sv, N2. destruct (get_stake x v s1); cbn; split; congruence.
    + rewrite (Vo v' Hn) in G. destruct (inv_stakers0 v' vi' G) as [N1 N2]. split; [exact N1|].
      intros x. rewrite (So x v' Hn). apply N2.
  - intros v' vi' G. destruct (N.eq_dec v' v) as [->|Hn].
    + rewrite Vv in G. injection G as <-. cbn [vi_last]. apply (L1 v vi Gv).
    + rewrite (Vo v' Hn) in G. apply (inv_last0 v' vi' G).
  - rewrite Q. apply sorted_q_map; [apply scale_q_at|assumption].
  - rewrite Q. apply Forall_map. eapply Forall_impl; [|exact inv_bound0]. intros u Hu0. cbn beta. rewrite scale_q_at. exact Hu0.
  - rewrite B. assumption.
  - unfold q_pool in *. rewrite B, Q.
    assert (Lq : sum_all (scale_q v (D18 - p) (s_queue s)) <= sum_all (s_queue s)) by (apply sum_all_scale; lia).
    assert (Lv : sum_vstake s' (p_vals P) <= sum_vstake s (p_vals P)).
    { apply sum_vstake_le. intros v'. unfold vstake at 1. destruct (N.eq_dec v' v) as [->|Hn].
      - rewrite Vv. cbn [vi_stake]. rewrite Ev. apply scale_le. lia.
      - rewrite (Vo v' Hn). fold (vstake s v'). lia. }
    lia.
Qed.

(* pay_entry / process_queue keep the staker sets exact *)
Lemma pay_entry_keeps s u rest s' : pay_entry s u rest = SOk s' ->
  (forall v, get_vi v s' = None <-> get_vi v s = None) /\
  (stakers_ok s -> stakers_ok s') /\ (forall now, last_ok now s -> last_ok now s').
Proof.
  intros H. apply pay_entry_shape in H. cbn zeta in H. destruct H as (s1 & H1 & H2).
  assert (A : (forall v, get_vi v s1 = None <-> get_vi v s = None) /\
              (stakers_ok s -> stakers_ok s1) /\ (forall now, last_ok now s -> last_ok now s1)).
  { destruct H1 as [->|[(Hn & Hz & [(vi & Gv & ->)|(Gv & ->)])|(Hn & ->)]].
    - split; [intros v; tauto|split; [auto|auto]].
    - split; [|split].
      + intros v. rewrite get_vi_put_vi, get_vi_del_stake. destruct (v =? u_val u) eqn:E; [|tauto].
        apply N.eqb_eq in E. subst v. rewrite Gv. split; discriminate.
      + intros Hs v vi' G. rewrite get_vi_put_vi, get_vi_del_stake in G. destruct (v =? u_val u) eqn:E.
        * apply N.eqb_eq in E. subst v. injection G as <-. cbn [vi_stakers]. destruct (Hs _ _ Gv) as [N1 N2].
          split; [apply stakers_remove_NoDup, N1|]. intros x. rewrite stakers_remove_In, get_stake_put_vi, get_stake_del_stake, N2.
          destruct (peqb (x, u_val u) (u_del u, u_val u)) eqn:E.
          -- apply peqb_spec in E. injection E as ->. split; [intros [C _]; congruence|congruence].
          -- split; [tauto|]. intros Hx. split; [|exact Hx]. intros C. subst x. rewrite peqb_refl in E. discriminate.
        * destruct (Hs _ _ G) as [N1 N2]. split; [exact N1|]. intros x. rewrite get_stake_put_vi, get_stake_del_stake.
          rewrite peqb_neq_v by (apply N.eqb_neq, E). apply N2.
      + intros now Hl v vi' G. rewrite get_vi_put_vi, get_vi_del_stake in G. destruct (v =? u_val u) eqn:E.
        * injection G as <-. cbn [vi_last]. apply (Hl _ _ Gv).
        * apply (Hl _ _ G).
    - split; [|split].
      + intros v. rewrite get_vi_del_stake. tauto.
      + intros Hs v vi' G. rewrite get_vi_del_stake in G. destruct (Hs _ _ G) as [N1 N2]. split; [exact N1|].
        intros x. rewrite get_stake_del_stake. destruct (peqb (x, v) (u_del u, u_val u)) eqn:E.
        * apply peqb_spec in E. injection E as -> ->. congruence.
        * apply N2.
      + intros now Hl v vi' G. rewrite get_vi_del_stake in G. apply (Hl _ _ G).
    - split; [|split].
      + intros v. rewrite get_vi_del_stake. tauto.
      + intros Hs v vi' G. rewrite get_vi_del_stake in G. destruct (Hs _ _ G) as [N1 N2]. split; [exact N1|].
        intros x. rewrite get_stake_del_stake. destruct (peqb (x, v) (u_del u, u_val u)) eqn:E.
        * apply peqb_spec in E. injection E as -> ->. rewrite N2, Hn. tauto.
        * apply N2.
      + intros now Hl v vi' G. rewrite get_vi_del_stake in G. apply (Hl _ _ G). }
  destruct H2 as [(_ & ->)|(_ & b & _ & ->)]; [exact A|].
  destruct A as (A1 & A2 & A3). split; [exact A1|]. split; [exact A2|exact A3].
Qed.

Lemma process_queue_from_keeps now : forall q s s', process_queue_from now q s = SOk s' ->
  (forall v, get_vi v s' = None <-> get_vi v s = None) /\
  (stakers_ok s -> stakers_ok s') /\ (forall t, last_ok t s -> last_ok t s').
Proof.
  induction q as [|u q IH]; intros s s' H; cbn [process_queue_from] in H.
  - injection H as <-. split; [intros v; tauto|split; [auto|auto]].
  - destruct (u_at u <=? now).
    + inv_bind H as s1 H1. apply pay_entry_keeps in H1 as (A1 & A2 & A3). apply IH in H as (B1 & B2 & B3).
      split; [intros v; rewrite B1; apply A1|]. split; [tauto|]. intros t Ht. apply B3, A3, Ht.
    + injection H as <-. split; [intros v; tauto|split; [auto|auto]].
Qed.

Lemma sorted_unmatured now : forall q, sorted_q q -> sorted_q (unmatured now q).
Proof.
  induction q as [|u q IH]; intros H; cbn [unmatured]; [exact H|].
  destruct (u_at u <=? now); [|exact H]. apply StronglySorted_inv in H as [Hs _]. apply IH, Hs.
Qed.
Lemma Forall_unmatured (Pp : unb -> Prop) now : forall q, Forall Pp q -> Forall Pp (unmatured now q).
Proof.
  induction q as [|u q IH]; intros H; cbn [unmatured]; [exact H|].
  destruct (u_at u <=? now); [|exact H]. inversion H; subst. apply IH. assumption.
Qed.

(* a block update: the clock moves forward (or stays), then the queue is processed *)
Lemma inv_process_queue P now now' s s' : inv P now s -> now <= now' -> process_queue now' s = SOk s' -> inv P now' s'.
Proof.
  intros I Hle H. destruct I. unfold process_queue in H.
  pose proof (process_queue_from_keeps _ _ _ _ H) as (K1 & K2 & K3).
  apply process_queue_from_spec in H as (Q & W & Dp & Vs & Hw' & Bl & Pl & Su); [|assumption].
  constructor.
  - assumption.
  - apply (known_iff s); assumption.
  - apply K2. assumption.
  - apply K3. intros v vi G. specialize (inv_last0 v vi G). lia.
  - rewrite Q. apply sorted_unmatured. assumption.
  - rewrite Q. apply Forall_unmatured. eapply Forall_impl; [|exact inv_bound0]. intros u Hu. cbn beta in *. lia.
  - assumption.
  - rewrite Q. pose proof (sum_all_matured now' (s_queue s)) as E.
    assert (E' : sum_vstake s' (p_vals P) + sum_f (fun _ => 0) (p_vals P) = sum_vstake s (p_vals P) + sum_f (fun _ => 0) (p_vals P)).
    { apply sum_vstake_delta. intros v. rewrite Vs. reflexivity. }
    rewrite sum_f_zero in E'. lia.
Qed.

(* ---------- no logic panic, and the block update never fails ---------- *)

Lemma of_bank_np {A} (o : outcome A) : of_bank o <> SPanic. Proof. destruct o; discriminate. Qed.

Lemma exec_delegate_np P now s d v a b : stakers_ok s -> last_ok now s -> exec_delegate P now s d v a b <> SPanic.
Proof.
  intros Hs Hl. unfold exec_delegate. destruct (a =? 0); [discriminate|]. destruct (negb b); [discriminate|].
  apply sbind_not_panic; [apply update_stake_np; assumption|]. intros s1 _.
  apply sbind_not_panic; [apply of_bank_np|]. discriminate.
Qed.
Lemma exec_undelegate_np P now s d v a b : stakers_ok s -> last_ok now s -> exec_undelegate P now s d v a b <> SPanic.
Proof.
  intros Hs Hl. unfold exec_undelegate. destruct (negb b); [discriminate|]. destruct (a =? 0); [discriminate|].
  apply sbind_not_panic; [apply update_stake_np; assumption|]. intros s1 _.
  destruct (U64 <=? _); [discriminate|]. destruct (U64 <=? _); discriminate.
Qed.
Lemma exec_redelegate_np P now s d v1 v2 a b : stakers_ok s -> last_ok now s -> exec_redelegate P now s d v1 v2 a b <> SPanic.
Proof.
  intros Hs Hl. unfold exec_redelegate. destruct (negb b); [discriminate|].
  apply sbind_not_panic; [apply update_stake_np; assumption|]. intros s1 H1.
  apply update_stake_np; [apply (update_stake_stakers_ok _ _ _ _ _ _ _ _ Hs H1)|apply (update_stake_last_ok _ _ _ _ _ _ _ _ Hl H1)].
Qed.
Lemma exec_withdraw_np P now s d v : stakers_ok s -> last_ok now s -> exec_withdraw P now s d v <> SPanic.
Proof.
  intros Hs Hl. unfold exec_withdraw. apply sbind_not_panic; [apply update_rewards_np; assumption|]. intros s1 _.
  destruct (get_stake d v s1); [|discriminate]. apply sbind_not_panic; [apply of_bank_np|]. discriminate.
Qed.
Lemma exec_set_withdraw_np s d w : exec_set_withdraw s d w <> SPanic.
Proof. unfold exec_set_withdraw. destruct w as [w|]; [|discriminate]. destruct (d =? w); discriminate. Qed.
Lemma exec_slash_np P now s v p : stakers_ok s -> last_ok now s -> exec_slash P now s v p <> SPanic.
Proof.
  intros Hs Hl. unfold exec_slash. destruct (D18 <? p); [discriminate|].
  apply sbind_not_panic; [apply update_rewards_np; assumption|]. intros s1 H1.
  pose proof (update_rewards_stakers_ok _ _ _ _ _ Hs H1) as Hs1.
  apply update_rewards_spec in H1 as (vi & comm & _ & _ & _ & _ & Vv). rewrite Vv.
  apply sbind_not_panic; [apply mul_floor_np|]. intros nv _.
  apply sbind_not_panic.
  - destruct (nv =? 0); [discriminate|]. apply scale_stakers_np. intros x Hx. apply (Hs1 v _ Vv). exact Hx.
  - intros s2 _. apply sbind_not_panic; [apply scale_queue_np|]. discriminate.
Qed.

Lemma pay_entry_np s u rest : pay_entry s u rest <> SPanic.
Proof.
  unfold pay_entry. apply sbind_not_panic.
  - destruct (get_stake _ _ s); [|discriminate]. apply sbind_not_panic; [apply fit_not_panic|]. intros t _.
    destruct (t =? 0); [|discriminate]. destruct (get_vi _ _); discriminate.
  - intros s1 _. destruct (u_amt u =? 0); [discriminate|]. apply sbind_not_panic; [apply of_bank_np|]. discriminate.
Qed.
Lemma process_queue_np now s : process_queue now s <> SPanic.
Proof.
  unfold process_queue. generalize (s_queue s) as q. intros q. revert s.
  induction q as [|u q IH]; intros s; cbn [process_queue_from]; [discriminate|].
  destruct (u_at u <=? now); [|discriminate]. apply sbind_not_panic; [apply pay_entry_np|]. intros s1 _. apply IH.
Qed.

Lemma send_tok_not_err b from to a : bank_wf b -> 0 < a -> a <= bank_balance b from TOKEN -> bank_send b from to (tok a) <> Err.
Proof.
  intros Hw Pa Le H. pose proof (bank_send_spec b from to (tok a) Hw) as S. rewrite H in S.
  destruct S as [S|[d S]].
  - rewrite has_pos_tok in S. apply N.ltb_ge in S. lia.
  - unfold tok in S. cbn [tot] in S. destruct (beqb d TOKEN) eqn:E; [apply beqb_eq in E; subst d|]; lia.
Qed.

Lemma pay_entry_ne s u rest : bank_wf (s_bank s) -> u_amt u <= q_pool s -> pay_entry s u rest <> SErr.
Proof.
  intros Hw Le. unfold pay_entry. apply sbind_not_err.
  - destruct (get_stake _ _ s); [|discriminate]. apply sbind_not_err; [apply fit_not_err|]. intros t _.
    destruct (t =? 0); [|discriminate]. destruct (get_vi _ _); discriminate.
  - intros s1 H1. destruct (u_amt u =? 0) eqn:Z; [discriminate|]. apply N.eqb_neq in Z.
    assert (B : s_bank s1 = s_bank s).
    { destruct (get_stake (u_del u) (u_val u) s); [|injection H1 as <-; reflexivity].
      inv_bind H1 as t Ht. destruct (t =? 0); [|injection H1 as <-; reflexivity].
      destruct (get_vi _ _); injection H1 as <-; reflexivity. }
    apply sbind_not_err; [|discriminate]. rewrite B.
    pose proof (send_tok_not_err (s_bank s) pool (acct (u_del u)) (u_amt u) Hw) as S.
    destruct (bank_send _ _ _ _); cbn; try discriminate. exfalso. apply S; [lia|exact Le|reflexivity].
Qed.

(* the pool covers the queue => every payout goes through *)
Lemma process_queue_from_ne now : forall q s, bank_wf (s_bank s) -> sum_all q <= q_pool s -> process_queue_from now q s <> SErr.
Proof.
  induction q as [|u q IH]; intros s Hw Le; cbn [process_queue_from]; [discriminate|]. cbn [sum_all] in Le.
  destruct (u_at u <=? now); [|discriminate].
  apply sbind_not_err; [apply pay_entry_ne; [exact Hw|lia]|]. intros s1 H1.
  apply pay_entry_spec in H1 as (_ & _ & _ & _ & Hw1 & _ & P1 & _); [|exact Hw]. apply IH; [exact Hw1|lia].
Qed.

Lemma process_queue_never_fails P now now' s : inv P now s -> process_queue now' s <> SErr.
Proof.
  intros I. unfold process_queue. apply process_queue_from_ne; [apply (inv_bank _ _ _ I)|].
  pose proof (inv_solvent _ _ _ I). lia.
Qed.

(* ---------- the initial state ---------- *)

Lemma init_bank_wf : forall accts b b', bank_wf b -> init_bank accts b = SOk b' ->
  bank_wf b' /\ bank_balance b' pool TOKEN = bank_balance b pool TOKEN.
Proof.
  induction accts as [|[a bal] r IH]; intros b b' Hw H; cbn [init_bank] in H.
  - injection H as <-. split; [exact Hw|reflexivity].
  - inv_bind H as b1 H1. apply of_bank_ok in H1. pose proof (bank_init_spec b (acct a) ((OTHER, 1000000) :: (if bal =? 0 then [] else tok bal)) Hw) as S. rewrite H1 in S.
    destruct S as (Hw1 & Hb & _). apply IH in H as [Hw2 E]; [|exact Hw1]. split; [exact Hw2|].
    rewrite E, Hb. destruct (beqb pool (acct a)) eqn:C; [apply beqb_eq in C; discriminate|reflexivity].
Qed.

Lemma init_vis_spec t0 : forall vals seen vis, init_vis t0 vals seen = SOk vis ->
  NoDup (map fst vals) /\ (forall v, In v seen -> ~ In v (map fst vals)) /\
  (forall v, fget N.eqb v vis = if mem v (map fst vals) then Some (mkVi [] 0 t0) else None).
Proof.
  induction vals as [|[v c] r IH]; intros seen vis H; cbn [init_vis] in H.
  - injection H as <-. split; [constructor|]. split; [intros v _ []|]. intros v. reflexivity.
  - destruct (mem v seen) eqn:M; [discriminate|]. inv_bind H as r' Hr. injection H as <-.
    apply IH in Hr as (N1 & N2 & N3). cbn [map fst]. split; [|split].
    + constructor; [|exact N1]. apply N2. left. reflexivity.
    + intros x Hx [C|C].
      * subst x. apply mem_In in Hx. congruence.
      * apply (N2 x); [right; exact Hx|exact C].
    + intros x. cbn [fget]. unfold mem. cbn [existsb]. fold (mem x (map fst r)). rewrite N3.
      destruct (x =? v); reflexivity.
Qed.

Lemma mem_get_val P v : mem v (map fst (p_vals P)) = match get_val P v with Some _ => true | None => false end.
Proof.
  unfold get_val. induction (p_vals P) as [|[v' c] l IH]; cbn [fget map fst]; [reflexivity|].
  unfold mem. cbn [existsb]. fold (mem v (map fst l)). rewrite IH. destruct (v =? v'); reflexivity.
Qed.

Lemma sum_vstake_zero s vals : (forall v, vstake s v = 0) -> sum_vstake s vals = 0.
Proof. intros H. induction vals as [|vc r IH]; cbn [sum_vstake]; [reflexivity|]. rewrite H, IH. reflexivity. Qed.

Lemma init_state_inv unbond apr t0 vals accts s :
  init_state t0 vals accts = SOk s -> inv (mkParams unbond apr vals) t0 s.
Proof.
  unfold init_state. intros H. inv_bind H as b Hb. inv_bind H as vis Hv. injection H as <-.
  apply init_bank_wf in Hb as [Hw Ep]; [|apply bank_wf_empty].
  apply init_vis_spec in Hv as (N1 & _ & N3).
  assert (G : forall v, get_vi v (mkSt [] vis [] [] b) = if mem v (map fst vals) then Some (mkVi [] 0 t0) else None) by exact N3.
  constructor; cbn [p_vals p_unbond s_queue s_bank].
  - exact N1.
  - intros v. rewrite G. pose proof (mem_get_val (mkParams unbond apr vals) v) as M. cbn [p_vals] in M. rewrite M.
    destruct (get_val _ v); split; congruence.
  - intros v vi Gv. rewrite G in Gv. destruct (mem v (map fst vals)); [|discriminate]. injection Gv as <-.
    split; [constructor|]. intros d. cbn. split; [intros []|congruence].
  - intros v vi Gv. rewrite G in Gv. destruct (mem v (map fst vals)); [|discriminate]. injection Gv as <-. cbn. lia.
  - constructor.
  - constructor.
  - exact Hw.
  - rewrite sum_vstake_zero; [cbn; lia|]. intros v. unfold vstake. rewrite G. destruct (mem v (map fst vals)); reflexivity.
Qed.

(* ---------- invalid operations fail; when an undelegation succeeds ---------- *)

Definition not_ok {A} (r : sres A) : Prop := forall x, r <> SOk x.

Lemma delegate_invalid_fails P now s d v a b : bank_wf (s_bank s) ->
  a = 0 \/ b = false \/ get_val P v = None \/ q_balance s d < a -> not_ok (exec_delegate P now s d v a b).
Proof.
  intros Hw H s' E. apply delegate_exact_lemma in E as (Pa & Hb & Kv & Le & _); [|exact Hw].
  destruct H as [H|[H|[H|H]]]; try congruence; lia.
Qed.
Lemma delegate_zero_or_foreign_err P now s d v a b : a = 0 \/ b = false -> exec_delegate P now s d v a b = SErr.
Proof.
  intros H. unfold exec_delegate. destruct (a =? 0) eqn:Z; [reflexivity|]. apply N.eqb_neq in Z.
  destruct H as [H|H]; [contradiction|]. subst b. reflexivity.
Qed.
Lemma update_stake_unknown_err P now s d v a sub : get_vi v s = None \/ get_val P v = None -> update_stake P now s d v a sub = SErr.
Proof.
  intros H. unfold update_stake, update_rewards. destruct (get_vi v s); [|reflexivity].
  destruct H as [H|H]; [discriminate|]. rewrite H. reflexivity.
Qed.
Lemma delegate_unknown_err P now s d v a b : get_val P v = None -> exec_delegate P now s d v a b = SErr.
Proof.
  intros H. unfold exec_delegate. destruct (a =? 0); [reflexivity|]. destruct (negb b); [reflexivity|].
  rewrite update_stake_unknown_err by (right; exact H). reflexivity.
Qed.

Lemma undelegate_invalid_fails P now s d v a b :
  a = 0 \/ b = false \/ get_val P v = None \/ disp s d v < a -> not_ok (exec_undelegate P now s d v a b).
Proof.
  intros H s' E. apply undelegate_lemma in E as (Pa & Hb & Kv & _ & Le & _).
  destruct H as [H|[H|[H|H]]]; try congruence; lia.
Qed.
Lemma undelegate_simple_err P now s d v a b : a = 0 \/ b = false \/ get_val P v = None -> exec_undelegate P now s d v a b = SErr.
Proof.
  intros H. unfold exec_undelegate. destruct b; cbn [negb]; [|reflexivity]. destruct (a =? 0) eqn:Z; [reflexivity|].
  apply N.eqb_neq in Z. destruct H as [H|[H|H]]; [contradiction|discriminate|].
  rewrite update_stake_unknown_err by (right; exact H). reflexivity.
Qed.

Lemma redelegate_invalid_fails P now s d v1 v2 a b :
  b = false \/ get_val P v1 = None \/ get_val P v2 = None \/ disp s d v1 < a -> not_ok (exec_redelegate P now s d v1 v2 a b).
Proof.
  intros H s' E. apply redelegate_lemma in E as (Hb & K1 & K2 & _ & Le & _).
  destruct H as [H|[H|[H|H]]]; try congruence; lia.
Qed.

Lemma slash_invalid_err P now s v p : D18 < p \/ get_val P v = None -> exec_slash P now s v p = SErr.
Proof.
  intros H. unfold exec_slash. destruct (D18 <? p) eqn:E; [reflexivity|]. apply N.ltb_ge in E.
  destruct H as [H|H]; [lia|]. unfold update_rewards. destruct (get_vi v s); [|reflexivity]. rewrite H. reflexivity.
Qed.

Lemma sres_cases {A} (r : sres A) : r <> SErr -> r <> SPanic -> r <> SOvf -> exists x, r = SOk x.
Proof. destruct r; try congruence. eauto. Qed.

Lemma sbind_ovf {A B} (x : sres A) (f : A -> sres B) : x = SOvf -> sbind x f = SOvf. Proof. intros ->. reflexivity. Qed.
Lemma sbind_panic {A B} (x : sres A) (f : A -> sres B) : x = SPanic -> sbind x f = SPanic. Proof. intros ->. reflexivity. Qed.

(* success conditions of an undelegation, in states where it neither overflows nor panics:
   right denom, positive amount, known validator, the amount within the share AND within the validator's total *)
Lemma undelegate_ok_iff_lemma P now s d v a b :
  (forall v, get_vi v s <> None <-> get_val P v <> None) ->
  exec_undelegate P now s d v a b <> SOvf -> exec_undelegate P now s d v a b <> SPanic ->
  ((exists s', exec_undelegate P now s d v a b = SOk s') <->
   b = true /\ 0 < a /\ get_val P v <> None /\ a * D18 <= stake_of s d v /\ a <= vstake s v).
Proof.
  intros K Ho Hp. split.
  - intros [s' E]. apply undelegate_lemma in E. tauto.
  - intros (Hb & Pa & Kv & Ls & Lv). apply sres_cases; [|exact Hp|exact Ho]. clear Hp.
    unfold exec_undelegate in *. subst b. cbn [negb] in *. replace (a =? 0) with false in * by (symmetry; apply N.eqb_neq; lia).
    destruct (update_stake P now s d v a true) as [s1| | |] eqn:U; cbn [sbind] in *; try congruence.
    { destruct (U64 <=? _); [discriminate|]. destruct (U64 <=? _); discriminate. }
    exfalso. unfold update_stake in U.
    destruct (update_rewards P now s v) as [s1| | |] eqn:R; cbn [sbind] in U; try discriminate.
    2:{ apply update_rewards_err in R. pose proof (proj2 (K v) Kv) as Kv'. destruct R; congruence. }
    pose proof R as R'. apply update_rewards_spec in R' as (vi & comm & Gv & Gc & SB & Vo & Vv).
    pose proof (same_but_rewards_stake_of _ _ _ SB d v) as St. rewrite Vv in U.
    assert (Hpos : 0 < stake_of s1 d v) by (rewrite St; unfold D18 in *; lia).
    unfold stake_of at 1 in Hpos. unfold stake_of at 1 in St. destruct (get_stake d v s1) as [sh|] eqn:G; [|lia]. cbn [sbind] in U.
    destruct (dec_of_uint a) as [ad| | |] eqn:Da; cbn [sbind] in U; try discriminate;
      [|exfalso; revert Da; apply dec_of_uint_ne].
    apply dec_of_uint_inv in Da. subst ad. cbn [vi_stake] in U.
    replace (sh_stake sh <? a * D18) with false in U by (symmetry; apply N.ltb_ge; lia).
    rewrite (vstake_of_get s v vi Gv) in Lv.
    replace (vi_stake vi <? a) with false in U by (symmetry; apply N.ltb_ge; lia).
    cbn [sbind] in U. destruct (_ =? 0); discriminate.
Qed.

(* ---------- rewards: what a reward update credits, and that it does not change what is shown ---------- *)

Lemma calc_ok_bounds now since apr comm st r : calculate_rewards now since apr comm st = SOk r ->
  st * D18 < U128 /\ st * D18 * apr / D18 < U128.
Proof.
  unfold calculate_rewards. destruct (now <? since / NS * NS); [discriminate|]. intros H.
  inv_bind H as sd Hsd. apply fit_inv in Hsd as [-> B1]. inv_bind H as x1 Hx1. apply fit_inv in Hx1 as [-> B2].
  split; assumption.
Qed.

Lemma calc_zero_td now since apr comm st : since <= now -> now / NS = since / NS ->
  st * D18 < U128 -> st * D18 * apr / D18 < U128 -> calculate_rewards now since apr comm st = SOk 0.
Proof.
  intros Hle Hs B1 B2. unfold calculate_rewards.
  assert (L : since / NS * NS <= since) by (rewrite N.mul_comm; apply N.mul_div_le; discriminate).
  replace (now <? since / NS * NS) with false by (symmetry; apply N.ltb_ge; lia).
  assert (T : (now - since / NS * NS) / NS = 0).
  { rewrite <- Hs. pose proof (N.div_mod now NS) as E. specialize (E ltac:(discriminate)).
    replace (now - now / NS * NS) with (now mod NS) by lia. apply N.div_small. apply N.mod_lt. discriminate. }
  rewrite T. unfold dec_of_uint at 1. rewrite (fit_ok _ B1). cbn [sbind].
  unfold dec_mul at 1. rewrite (fit_ok _ B2). cbn [sbind].
  change (dec_of_uint 0) with (SOk (A:=N) 0). cbn [sbind].
  unfold dec_mul at 1. rewrite N.mul_0_r. change (0 / D18) with 0. change (fit 0) with (SOk (A:=N) 0). cbn [sbind].
  rewrite year_dec. cbn [sbind]. reflexivity.
Qed.

Lemma share_of_zero st vs : share_of_rewards st vs 0 = SOk 0.
Proof.
  unfold share_of_rewards. destruct (vs =? 0) eqn:E; [reflexivity|]. unfold dec_mul. rewrite N.mul_0_l.
  change (0 / D18) with 0. change (fit 0) with (SOk (A:=N) 0). cbn [sbind]. unfold dec_div_uint. rewrite E.
  rewrite N.div_0_l by (apply N.eqb_neq, E). reflexivity.
Qed.

Lemma share_of_stake_zero vs nr : share_of_rewards 0 vs nr = SOk 0.
Proof.
  unfold share_of_rewards. destruct (vs =? 0) eqn:E; [reflexivity|]. unfold dec_mul. rewrite N.mul_0_r.
  change (0 / D18) with 0. change (fit 0) with (SOk (A:=N) 0). cbn [sbind]. unfold dec_div_uint. rewrite E.
  rewrite N.div_0_l by (apply N.eqb_neq, E). reflexivity.
Qed.

Lemma credit_stakers_rew v vs nr : forall l s s', NoDup l -> credit_stakers v vs nr l s = SOk s' ->
  forall d sh, get_stake d v s = Some sh ->
    if mem d l
    then exists x, share_of_rewards (sh_stake sh) vs nr = SOk x /\ sh_rew sh + x < U128 /\
                   get_stake d v s' = Some (mkSh (sh_stake sh) (sh_rew sh + x))
    else get_stake d v s' = Some sh.
Proof.
  induction l as [|d0 l IH]; intros s s' Hnd H d sh G; cbn [credit_stakers] in H.
  - injection H as <-. exact G.
  - inversion Hnd as [|? ? Hni Hnd']; subst.
    destruct (get_stake d0 v s) as [sh0|] eqn:G0; [|discriminate].
    inv_bind H as x Hx. inv_bind H as r' Hr. apply fit_inv in Hr as [-> Br].
    pose proof (IH _ _ Hnd' H d) as I. rewrite get_stake_put_stake in I. unfold mem. cbn [existsb]. fold (mem d l).
    destruct (d =? d0) eqn:E.
    + apply N.eqb_eq in E. subst d0. rewrite peqb_refl in I. cbn [orb]. rewrite G in G0. injection G0 as <-.
      specialize (I _ eq_refl).
      replace (mem d l) with false in I by (symmetry; destruct (mem d l) eqn:M; [apply mem_In in M; contradiction|reflexivity]).
      exists x. cbn [sh_stake sh_rew] in *. auto.
    + rewrite peqb_false in I; [|intros C; injection C as ->; rewrite N.eqb_refl in E; discriminate].
      cbn [orb]. apply I, G.
Qed.

(* a reward update changes no answer of get_rewards / Delegation at the same block time *)
Lemma update_rewards_shown P now s v s1 : stakers_ok s -> update_rewards P now s v = SOk s1 ->
  forall d v', q_rewards P now s1 d v' = q_rewards P now s d v' /\ q_delegation P now s1 d v' = q_delegation P now s d v'.
Proof.
  intros Hs H d v'. pose proof H as H'. apply update_rewards_spec in H' as (vi & comm & Gv & Gc & SB & Vo & Vv).
  destruct (N.eq_dec v' v) as [->|Hn].
  2:{ destruct SB as (_ & _ & _ & So & _). unfold q_rewards, q_delegation. rewrite (So d v' Hn), (Vo v' Hn). split; reflexivity. }
  unfold update_rewards in H. rewrite Gv, Gc in H. destruct (now <=? vi_last vi) eqn:El.
  { injection H as <-. split; reflexivity. }
  apply N.leb_gt in El. inv_bind H as nr Hnr.
  pose proof (calc_ok_bounds _ _ _ _ _ _ Hnr) as [B1 B2].
  assert (C0 : calculate_rewards now now (p_apr P) comm (vi_stake vi) = SOk 0) by (apply calc_zero_td; [lia|reflexivity|exact B1|exact B2]).
  assert (M : N.max now (vi_last vi) = now) by lia. rewrite M in Vv.
  unfold q_rewards, q_delegation. rewrite Gc, Vv, Gv. unfold rewards_internal. cbn [vi_last vi_stake]. rewrite C0, Hnr. cbn [sbind].
  destruct (nr =? 0) eqn:Z.
  - injection H as <-. apply N.eqb_eq in Z. subst nr. rewrite !get_stake_put_vi. split; reflexivity.
  - destruct (Hs v vi Gv) as [Hnd Hin].
    destruct (get_stake d v s) as [sh|] eqn:G.
    + pose proof (credit_stakers_rew _ _ _ _ _ _ Hnd H d sh) as Cr. rewrite get_stake_put_vi in Cr. specialize (Cr G).
      assert (Md : mem d (vi_stakers vi) = true) by (apply mem_In, Hin; congruence). rewrite Md in Cr.
      destruct Cr as (x & Hx & Bx & ->). cbn [sh_stake sh_rew]. rewrite share_of_zero, Hx. cbn [sbind].
      unfold dec_add. rewrite N.add_0_r. split; reflexivity.
    + destruct SB as (_ & _ & _ & _ & Sm). specialize (Sm d v). rewrite G in Sm.
      destruct (get_stake d v s1); [discriminate|]. cbn [sh_stake sh_rew]. rewrite !share_of_stake_zero. split; reflexivity.
Qed.
