(* Tx.v — model of /repo/src/transactions.rs: a stack of StorageTransaction write caches over a
   MemoryStorage, `transactional`, commit by replay of the rep_log; and the client-program
   semantics used to state "any program, any nesting depth".  Lemmas only; the pinned property
   theorems are in Properties/C06.v. *)
From Verif Require Import Base OMap.
From Coq Require Import Sorted.

Section Tx.
Context {K V : Type} (cmp : K -> K -> comparison).
Hypothesis cmp_eq : forall a b, cmp a b = Eq <-> a = b.
Hypothesis cmp_anti : forall a b, cmp b a = CompOpp (cmp a b).
Hypothesis cmp_trans : forall a b c, cmp a b = Lt -> cmp b c = Lt -> cmp a c = Lt.

(* transactions.rs: enum Op / enum Delta / Op::to_delta *)
Inductive op := OSet (k : K) (v : V) | ODel (k : K).
Definition op_key (o : op) : K := match o with OSet k _ => k | ODel k => k end.
Definition op_delta (o : op) : delta V := match o with OSet _ v => DSet v | ODel _ => DDel end.

(* struct StorageTransaction { storage: &dyn Storage (= the rest of the stack), local_state, rep_log } *)
Record layer := { local : list (K * delta V); replog : list op }.
Definition empty_layer : layer := {| local := []; replog := [] |}.
Definition omap := list (K * V).
(* head of the list = innermost cache; snd = the MemoryStorage at the bottom *)
Definition store := (list layer * omap)%type.

Definition dcmp (o : order) : K -> K -> comparison :=
  match o with Asc => cmp | Desc => flip_cmp cmp end.

(* StorageTransaction::get *)
Fixpoint get_l (ls : list layer) (b : omap) (k : K) : option V :=
  match ls with
  | [] => assoc cmp k b
  | l :: ls' =>
      match assoc cmp k (local l) with
      | Some (DSet v) => Some v
      | Some DDel => None
      | None => get_l ls' b k
      end
  end.
Definition st_get (st : store) (k : K) := get_l (fst st) (snd st) k.

(* StorageTransaction::range : local BTreeMap range (with the inverted-bounds short-circuit)
   merged with the range of the store below, in the direction's order *)
Fixpoint range_l (ls : list layer) (b : omap) (s e : option K) (o : order) : list (K * V) :=
  match ls with
  | [] => map_range cmp b s e o
  | l :: ls' => merge (dcmp o) (map_range cmp (local l) s e o) (range_l ls' b s e o)
  end.
Definition st_range (st : store) s e o := range_l (fst st) (snd st) s e o.

(* StorageTransaction::set / remove: insert into local_state and append to rep_log;
   on the bare MemoryStorage: BTreeMap insert/remove *)
Definition layer_write (l : layer) (o : op) : layer :=
  {| local := insert cmp (op_key o) (op_delta o) (local l); replog := replog l ++ [o] |}.
Definition map_write (m : omap) (o : op) : omap :=
  match o with OSet k v => insert cmp k v m | ODel k => delete cmp k m end.
Definition st_write (st : store) (o : op) : store :=
  match st with
  | (l :: ls, b) => (layer_write l o :: ls, b)
  | ([], b) => ([], map_write b o)
  end.

Definition push (st : store) : store := (empty_layer :: fst st, snd st).
Definition below (st : store) : store := (tl (fst st), snd st).
Definition below_n (n : nat) (st : store) : store := (skipn n (fst st), snd st).
Definition depth (st : store) : nat := length (fst st).
(* RepLog::commit: replay the ops in order through set/remove of the store below *)
Definition commit (l : layer) (st : store) : store := fold_left st_write (replog l) st.

(* ---------- the abstraction: the ordered map a store denotes ---------- *)
Definition apply_delta (m : omap) (kd : K * delta V) : omap :=
  match snd kd with DSet v => insert cmp (fst kd) v m | DDel => delete cmp (fst kd) m end.
Definition apply_local (d : list (K * delta V)) (m : omap) : omap := fold_left apply_delta d m.
Fixpoint view_l (ls : list layer) (b : omap) : omap :=
  match ls with [] => b | l :: ls' => apply_local (local l) (view_l ls' b) end.
Definition view (st : store) : omap := view_l (fst st) (snd st).

Fixpoint last_write_from (acc : option (delta V)) (k : K) (log : list op) : option (delta V) :=
  match log with
  | [] => acc
  | o :: log' => last_write_from (match cmp k (op_key o) with Eq => Some (op_delta o) | _ => acc end) k log'
  end.
Definition last_write := last_write_from None.

Definition layer_wf (l : layer) : Prop :=
  sorted cmp (local l) /\ forall k, assoc cmp k (local l) = last_write k (replog l).
Definition store_wf (st : store) : Prop := Forall layer_wf (fst st) /\ sorted cmp (snd st).

Notation srt := (sorted cmp).

(* ---------- lemmas ---------- *)

Lemma apply_delta_sorted m kd : srt m -> srt (apply_delta m kd).
Proof. destruct kd as [k [v|]]; unfold apply_delta; cbn; intros; [apply insert_sorted|apply delete_sorted]; auto. Qed.

Lemma apply_local_sorted d m : srt m -> srt (apply_local d m).
Proof. revert m; induction d as [|kd d IH]; cbn; intros m H; [exact H|]. apply IH, apply_delta_sorted, H. Qed.

Lemma assoc_apply_delta m k0 d0 k : srt m ->
  assoc cmp k (apply_delta m (k0, d0)) =
  match cmp k k0 with Eq => match d0 with DSet v => Some v | DDel => None end | _ => assoc cmp k m end.
Proof.
  intros H. destruct d0 as [v|]; unfold apply_delta; cbn.
  - rewrite assoc_insert by assumption. reflexivity.
  - rewrite assoc_delete by assumption. reflexivity.
Qed.

Lemma assoc_apply_local d m k : srt d -> srt m ->
  assoc cmp k (apply_local d m) = overlay cmp d m k.
Proof.
  unfold overlay. revert m. induction d as [|[k0 d0] d IH]; intros m Hd Hm; cbn [apply_local fold_left assoc].
  - reflexivity.
  - destruct (sorted_inv cmp _ _ _ Hd) as [Hd' Hb].
    change (fold_left apply_delta d (apply_delta m (k0, d0))) with (apply_local d (apply_delta m (k0, d0))).
    rewrite IH by (auto using apply_delta_sorted). rewrite assoc_apply_delta by assumption.
    destruct (cmp k k0) eqn:C; try reflexivity.
    apply cmp_eq in C; subst k0. rewrite (assoc_none_lt cmp) by assumption. destruct d0; reflexivity.
Qed.

Lemma view_l_sorted ls b : Forall layer_wf ls -> srt b -> srt (view_l ls b).
Proof.
  induction ls as [|l ls IH]; cbn; intros Hl Hb; [exact Hb|].
  inversion Hl; subst. apply apply_local_sorted, IH; assumption.
Qed.

Lemma view_sorted st : store_wf st -> srt (view st).
Proof. destruct st as [ls b]. intros [H1 H2]. apply view_l_sorted; assumption. Qed.

(* get = lookup in the view *)
Lemma get_view st k : store_wf st -> st_get st k = assoc cmp k (view st).
Proof.
  destruct st as [ls b]. unfold st_get, view, store_wf; cbn [fst snd]. intros [Hl Hb].
  induction ls as [|l ls IH]; cbn; [reflexivity|].
  inversion Hl as [|? ? [Hs _] Hl']; subst.
  rewrite assoc_apply_local by (auto using view_l_sorted). unfold overlay.
  destruct (assoc cmp k (local l)) as [[v|]|]; try reflexivity. apply IH, Hl'.
Qed.

(* direction-generic facts about map_range *)
Lemma dcmp_eq o a b : dcmp o a b = Eq <-> a = b.
Proof. destruct o; cbn; [apply cmp_eq|apply flip_eq, cmp_eq]. Qed.
Lemma dcmp_anti o a b : dcmp o b a = CompOpp (dcmp o a b).
Proof. destruct o; cbn; [apply cmp_anti|apply flip_anti, cmp_anti]. Qed.
Lemma dcmp_trans o a b c : dcmp o a b = Lt -> dcmp o b c = Lt -> dcmp o a c = Lt.
Proof. destruct o; cbn; [apply cmp_trans|apply flip_trans, cmp_trans]. Qed.

Lemma assoc_dcmp {A} o k (l : list (K * A)) : assoc (dcmp o) k l = assoc cmp k l.
Proof. destruct o; cbn; [reflexivity|apply assoc_flip, cmp_anti]. Qed.

Lemma spec_range_sorted {A} (m : list (K * A)) s e o : srt m -> sorted (dcmp o) (spec_range cmp m s e o).
Proof.
  intros H. destruct o; cbn.
  - apply frange_sorted; assumption.
  - apply sorted_rev, frange_sorted; assumption.
Qed.

Lemma assoc_spec_range {A} (m : list (K * A)) s e o k : srt m ->
  assoc cmp k (spec_range cmp m s e o) = if in_bounds cmp s e k then assoc cmp k m else None.
Proof.
  intros H. destruct o; cbn.
  - apply assoc_frange; assumption.
  - rewrite assoc_rev by (auto using frange_sorted). apply assoc_frange; assumption.
Qed.

(* range = spec range of the view *)
Lemma range_view st s e o : store_wf st -> st_range st s e o = spec_range cmp (view st) s e o.
Proof.
  destruct st as [ls b]. unfold st_range, view, store_wf; cbn [fst snd]. intros [Hl Hb].
  induction ls as [|l ls IH]; cbn [range_l view_l].
  - apply map_range_spec; assumption.
  - inversion Hl as [|? ? [Hs _] Hl']; subst. rewrite IH by exact Hl'.
    rewrite map_range_spec by assumption.
    pose proof (view_l_sorted ls b Hl' Hb) as Hv.
    apply (sorted_ext (dcmp o) (dcmp_eq o) (dcmp_anti o) (dcmp_trans o)).
    + apply merge_sorted; [apply dcmp_eq|apply dcmp_anti|apply dcmp_trans| |]; apply spec_range_sorted; assumption.
    + apply spec_range_sorted, apply_local_sorted, Hv.
    + intros k. rewrite merge_assoc; [|apply dcmp_eq|apply dcmp_anti|apply dcmp_trans
        |apply spec_range_sorted; assumption|apply spec_range_sorted; assumption].
      unfold overlay. rewrite !assoc_dcmp.
      rewrite !assoc_spec_range by (auto using apply_local_sorted).
      rewrite assoc_apply_local by assumption. unfold overlay.
      destruct (in_bounds cmp s e k); reflexivity.
Qed.

(* writes *)
Lemma last_write_from_app acc k log o :
  last_write_from acc k (log ++ [o]) =
  match cmp k (op_key o) with Eq => Some (op_delta o) | _ => last_write_from acc k log end.
Proof. revert acc; induction log as [|o' log IH]; intros acc; cbn; [reflexivity|apply IH]. Qed.

Lemma layer_write_wf l o : layer_wf l -> layer_wf (layer_write l o).
Proof.
  intros [Hs Hl]. split; cbn.
  - apply insert_sorted; assumption.
  - intros k. rewrite assoc_insert by assumption. unfold last_write. rewrite last_write_from_app.
    destruct (cmp k (op_key o)); auto; apply Hl.
Qed.

Lemma map_write_sorted m o : srt m -> srt (map_write m o).
Proof. destruct o; cbn; intros; [apply insert_sorted|apply delete_sorted]; auto. Qed.

Lemma write_wf st o : store_wf st -> store_wf (st_write st o).
Proof.
  destruct st as [[|l ls] b]; intros [Hl Hb]; split; cbn in *; auto using map_write_sorted.
  inversion Hl; subst. constructor; auto using layer_write_wf.
Qed.

Lemma assoc_map_write m o k : srt m ->
  assoc cmp k (map_write m o) =
  match cmp k (op_key o) with
  | Eq => match op_delta o with DSet v => Some v | DDel => None end
  | _ => assoc cmp k m end.
Proof. intros H. destruct o; cbn; [apply assoc_insert|apply assoc_delete]; assumption. Qed.

(* a write changes the view exactly as insert/delete on the plain map *)
Lemma write_view st o : store_wf st -> view (st_write st o) = map_write (view st) o.
Proof.
  destruct st as [[|l ls] b]; intros [Hl Hb]; cbn in *; [reflexivity|].
  inversion Hl as [|? ? [Hs Hlw] Hl']; subst. unfold view; cbn [fst snd view_l layer_write local].
  pose proof (view_l_sorted ls b Hl' Hb) as Hv.
  apply (sorted_ext cmp cmp_eq cmp_anti cmp_trans).
  - apply apply_local_sorted, Hv.
  - apply map_write_sorted, apply_local_sorted, Hv.
  - intros k. rewrite assoc_map_write by (apply apply_local_sorted, Hv).
    rewrite !assoc_apply_local by (auto using insert_sorted). unfold overlay.
    rewrite assoc_insert by assumption. destruct (cmp k (op_key o)); reflexivity.
Qed.

(* ... and leaves everything below the written cache syntactically unchanged *)
Lemma write_frame l ls b o : st_write (l :: ls, b) o = (layer_write l o :: ls, b).
Proof. reflexivity. Qed.

Lemma push_view st : view (push st) = view st.
Proof. destruct st; reflexivity. Qed.
Lemma empty_layer_wf : layer_wf empty_layer.
Proof. split; cbn; [constructor|reflexivity]. Qed.
Lemma push_wf st : store_wf st -> store_wf (push st).
Proof. destruct st as [ls b]. intros [H1 H2]. split; cbn; auto using empty_layer_wf. Qed.

(* commit = replay *)
Lemma replay_wf log st : store_wf st -> store_wf (fold_left st_write log st).
Proof. revert st; induction log as [|o log IH]; cbn; intros st H; [exact H|]. apply IH, write_wf, H. Qed.

Lemma replay_view log st : store_wf st ->
  view (fold_left st_write log st) = fold_left map_write log (view st).
Proof.
  revert st; induction log as [|o log IH]; cbn; intros st H; [reflexivity|].
  rewrite IH by (apply write_wf, H). rewrite write_view by exact H. reflexivity.
Qed.

Lemma replay_frame log l0 ls b : exists l0', fold_left st_write log (l0 :: ls, b) = (l0' :: ls, b).
Proof.
  revert l0; induction log as [|o log IH]; cbn; intros l0; [eauto|]. apply IH.
Qed.

Lemma fold_map_write_sorted log m : srt m -> srt (fold_left map_write log m).
Proof. revert m; induction log as [|o log IH]; cbn; intros m H; [exact H|]. apply IH, map_write_sorted, H. Qed.

Lemma assoc_fold_map_write log m k : srt m ->
  assoc cmp k (fold_left map_write log m) =
  match last_write_from (match assoc cmp k m with Some v => Some (DSet v) | None => Some DDel end) k log with
  | Some (DSet v) => Some v | _ => None end.
Proof.
  revert m; induction log as [|o log IH]; cbn; intros m H.
  - destruct (assoc cmp k m); reflexivity.
  - rewrite IH by (apply map_write_sorted, H). rewrite assoc_map_write by exact H.
    destruct (cmp k (op_key o)); try reflexivity. destruct (op_delta o); reflexivity.
Qed.

Lemma last_write_from_none acc k log :
  last_write_from acc k log = match last_write k log with Some d => Some d | None => acc end.
Proof.
  unfold last_write. revert acc. induction log as [|o log IH]; intros acc; cbn; [reflexivity|].
  rewrite IH. rewrite (IH (match cmp k (op_key o) with Eq => Some (op_delta o) | _ => None end)).
  destruct (last_write_from None k log); [reflexivity|]. destruct (cmp k (op_key o)); reflexivity.
Qed.

Lemma commit_view l ls b : layer_wf l -> store_wf (ls, b) ->
  view (commit l (ls, b)) = view (l :: ls, b).
Proof.
  intros [Hs Hl] Hw. unfold commit. rewrite replay_view by exact Hw.
  pose proof (view_sorted _ Hw) as Hv.
  change (view (l :: ls, b)) with (apply_local (local l) (view (ls, b))).
  apply (sorted_ext cmp cmp_eq cmp_anti cmp_trans).
  - apply fold_map_write_sorted, Hv.
  - apply apply_local_sorted, Hv.
  - intros k. rewrite assoc_fold_map_write by exact Hv. rewrite assoc_apply_local by assumption.
    unfold overlay. rewrite Hl. rewrite last_write_from_none.
    destruct (last_write k (replog l)) as [[v|]|]; try reflexivity.
    destruct (assoc cmp k (view (ls, b))); reflexivity.
Qed.

Lemma commit_wf l st : store_wf st -> store_wf (commit l st).
Proof. apply replay_wf. Qed.

Lemma commit_frame l l0 ls b : exists l0', commit l (l0 :: ls, b) = (l0' :: ls, b).
Proof. apply replay_frame. Qed.

Lemma below_n_wf n st : store_wf st -> store_wf (below_n n st).
Proof.
  destruct st as [ls b]. intros [Hl Hb]. split; cbn [fst snd below_n] in *; [|exact Hb].
  clear Hb. revert ls Hl. induction n as [|n IH]; intros ls Hl; cbn; [exact Hl|].
  destruct ls; [constructor|]. inversion Hl; subst. apply IH; assumption.
Qed.

(* ---------- client programs: everything code can do with `&mut dyn Storage` plus nested
   `transactional` blocks whose body may also read any store below its own cache ---------- *)

Inductive prog (E A : Type) : Type :=
| Ret (a : A)
| Fail (e : E)
| Get (k : K) (f : option V -> prog E A)
| Range (s e : option K) (o : order) (f : list (K * V) -> prog E A)
| Write (w : op) (p : prog E A)
| GetBelow (n : nat) (k : K) (f : option V -> prog E A)          (* n-th store below the current cache, n >= 1 *)
| RangeBelow (n : nat) (s e : option K) (o : order) (f : list (K * V) -> prog E A)
| Nested (q : prog E A) (f : E + A -> prog E A).
Arguments Ret {E A}. Arguments Fail {E A}. Arguments Get {E A}. Arguments Range {E A}.
Arguments Write {E A}. Arguments GetBelow {E A}. Arguments RangeBelow {E A}. Arguments Nested {E A}.

Inductive res (E A S : Type) := Done (a : A) (s : S) | Failed (e : E).
Arguments Done {E A S}. Arguments Failed {E A S}.

(* SPEC semantics: a plain ordered map; Nested = run on a copy, keep it on success, forget it on
   failure.  [outer] = the maps of the enclosing blocks at the time this block was entered. *)
Fixpoint run_flat {E A} (p : prog E A) (outer : list omap) (m : omap) : res E A omap :=
  match p with
  | Ret a => Done a m
  | Fail e => Failed e
  | Get k f => run_flat (f (assoc cmp k m)) outer m
  | Range s e o f => run_flat (f (spec_range cmp m s e o)) outer m
  | Write w p => run_flat p outer (map_write m w)
  | GetBelow n k f => run_flat (f (assoc cmp k (nth (pred n) outer []))) outer m
  | RangeBelow n s e o f => run_flat (f (spec_range cmp (nth (pred n) outer []) s e o)) outer m
  | Nested q f =>
      match run_flat q (m :: outer) m with
      | Done b m' => run_flat (f (inr b)) outer m'
      | Failed e => run_flat (f (inl e)) outer m
      end
  end.

(* MECHANISM semantics: the stack of caches; Nested = transactions.rs::transactional *)
Fixpoint run_layered {E A} (p : prog E A) (st : store) : res E A store :=
  match p with
  | Ret a => Done a st
  | Fail e => Failed e
  | Get k f => run_layered (f (st_get st k)) st
  | Range s e o f => run_layered (f (st_range st s e o)) st
  | Write w p => run_layered p (st_write st w)
  | GetBelow n k f => run_layered (f (st_get (below_n n st) k)) st
  | RangeBelow n s e o f => run_layered (f (st_range (below_n n st) s e o)) st
  | Nested q f =>
      match run_layered q (push st) with                  (* let mut cache = StorageTransaction::new(base) *)
      | Done b (l :: ls, base) => run_layered (f (inr b)) (commit l (ls, base))   (* cache.prepare().commit(base) *)
      | Done b ([], base) => run_layered (f (inr b)) ([], base)                   (* unreachable, see refinement *)
      | Failed e => run_layered (f (inl e)) st             (* `?`: the cache is dropped, base is the same value *)
      end
  end.

(* views of the stores below a given store, innermost first *)
Fixpoint outer_views (ls : list layer) (b : omap) : list omap :=
  match ls with [] => [] | l :: ls' => view (ls', b) :: outer_views ls' b end.

Lemma nth_outer_views n ls b : (1 <= n <= length ls)%nat ->
  nth (pred n) (outer_views ls b) [] = view (below_n n (ls, b)).
Proof.
  revert ls. induction n as [|n IH]; intros ls H; [lia|].
  destruct ls as [|l ls]; cbn in H; [lia|]. cbn [pred].
  destruct n as [|n]; [reflexivity|].
  cbn [outer_views nth]. specialize (IH ls). cbn [pred] in IH. rewrite IH by (cbn; lia). reflexivity.
Qed.

(* all GetBelow/RangeBelow in p stay inside the stack when p runs at depth d *)
Fixpoint below_ok {E A} (d : nat) (p : prog E A) : Prop :=
  match p with
  | Ret _ | Fail _ => True
  | Get _ f => forall x, below_ok d (f x)
  | Range _ _ _ f => forall x, below_ok d (f x)
  | Write _ p => below_ok d p
  | GetBelow n _ f => (1 <= n <= d)%nat /\ forall x, below_ok d (f x)
  | RangeBelow n _ _ _ f => (1 <= n <= d)%nat /\ forall x, below_ok d (f x)
  | Nested q f => below_ok (S d) q /\ forall x, below_ok d (f x)
  end.

Definition agrees {E A} (x : res E A store) (y : res E A omap) (bel : store) : Prop :=
  match x, y with
  | Done a st', Done a' m' => a = a' /\ view st' = m' /\ below st' = bel /\ (depth st' = S (depth bel)) /\ store_wf st'
  | Failed e, Failed e' => e = e'
  | _, _ => False
  end.

Lemma refines E A (p : prog E A) : forall l ls b,
  store_wf (l :: ls, b) -> below_ok (S (length ls)) p ->
  agrees (run_layered p (l :: ls, b))
         (run_flat p (outer_views (l :: ls) b) (view (l :: ls, b)))
         (ls, b).
Proof.
  induction p as [a|e|k f IH|s e o f IH|w p IH|n k f IH|n s e o f IH|q IHq f IHf];
    intros l ls b Hw Hok; cbn [run_layered run_flat].
  - cbn. auto.
  - cbn. auto.
  - rewrite get_view by exact Hw. apply IH; [exact Hw|apply Hok].
  - rewrite range_view by exact Hw. apply IH; [exact Hw|apply Hok].
  - rewrite <- write_view by exact Hw. rewrite write_frame.
    apply (IH (layer_write l w) ls b); [|exact Hok].
    change (store_wf (st_write (l :: ls, b) w)). apply write_wf, Hw.
  - destruct Hok as [Hn Hok]. rewrite get_view by (apply below_n_wf, Hw).
    rewrite nth_outer_views by (cbn; lia). apply IH; [exact Hw|apply Hok].
  - destruct Hok as [Hn Hok]. rewrite range_view by (apply below_n_wf, Hw).
    rewrite nth_outer_views by (cbn; lia). apply IH; [exact Hw|apply Hok].
  - destruct Hok as [Hq Hf]. unfold push. cbn [fst snd].
    specialize (IHq empty_layer (l :: ls) b (push_wf _ Hw) Hq).
    change (view (empty_layer :: l :: ls, b)) with (view (push (l :: ls, b))) in IHq.
    rewrite push_view in IHq.
    change (outer_views (empty_layer :: l :: ls) b) with (view (l :: ls, b) :: outer_views (l :: ls) b) in IHq.
    destruct (run_layered q (empty_layer :: l :: ls, b)) as [bres [st1 b1]|e1];
      destruct (run_flat q (view (l :: ls, b) :: outer_views (l :: ls) b) (view (l :: ls, b))) as [bres' m1|e1'];
      cbn in IHq; try contradiction.
    + destruct IHq as (-> & Hv & Hb & Hd & Hw1).
      destruct st1 as [|l1 ls1]; [discriminate|].
      unfold below in Hb; cbn in Hb. injection Hb as -> ->.
      destruct (commit_frame l1 l ls b) as [l' Ec].
      destruct Hw1 as [Hl1 Hb1]. cbn in Hl1. inversion Hl1 as [|xx yy Hl1a Hl1b]; subst xx yy.
      assert (Hw2 : store_wf (l :: ls, b)) by (split; assumption).
      pose proof (commit_wf l1 _ Hw2) as Hw3. rewrite Ec in Hw3.
      specialize (IHf (inr bres') l' ls b Hw3 (Hf _)).
      assert (Hvv : view (l' :: ls, b) = m1).
      { rewrite <- Ec, commit_view by assumption. exact Hv. }
      rewrite Hvv in IHf. rewrite Ec. exact IHf.
    + subst e1'. apply IHf; [exact Hw|apply Hf].
Qed.

End Tx.

Arguments Ret {K V E A}. Arguments Fail {K V E A}. Arguments Get {K V E A}. Arguments Range {K V E A}.
Arguments Write {K V E A}. Arguments GetBelow {K V E A}. Arguments RangeBelow {K V E A}. Arguments Nested {K V E A}.
Arguments Done {E A S}. Arguments Failed {E A S}.
Arguments OSet {K V}. Arguments ODel {K V}.
