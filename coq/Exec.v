(* Exec.v — model of the wasm executor of cw-multi-test (wasm.rs: execute_wasm, process_wasm_msg_instantiate,
   execute_submsg, reply, build_app_response, process_response, register_contract, call_*, with_storage,
   update_admin, the WasmQuery handlers) over an abstract typed chain state, plus the scripted-contract
   language shared with the harness.  The behaviour of a callee travels IN the message, so a message tree
   is a finite term and the executor is a structurally recursive mutual Fixpoint (no fuel).

   `transactional` (transactions.rs:14-22) appears here as: run the inner computation from state s; on Ok
   continue with the state it returns; on failure continue with s itself.  That this is what the real
   cache-and-replay mechanism does, for every inner computation and nesting depth, is C06
   (Properties/C06.v: run_layered_refines_flat). *)
From Verif Require Import Base OMap Text Proto Bank.
Local Open Scope N_scope.

(* ---------- state ---------- *)
Definition omapb := list (bytes * bytes).

Record cdata := { cd_code : N; cd_creator : text; cd_admin : option text; cd_label : text; cd_created : N }.

Record chain := {
  bank : bank_state;                       (* namespace "bank" *)
  reg : list (text * cdata);               (* namespace "wasm" / "contracts": sorted by address *)
  cstore : list (text * omapb)             (* namespace "wasm" / "contract_data/<addr>": sorted by address *)
}.

Definition lookup {A} (k : text) (m : list (text * A)) : option A := assoc bcmp k m.
Definition update {A} (k : text) (a : A) (m : list (text * A)) := insert bcmp k a m.

Definition cstore_get (s : chain) (c : text) : omapb :=
  match lookup c (cstore s) with Some m => m | None => [] end.
(* an empty window has no raw keys: keep the typed state canonical *)
Definition cstore_set (s : chain) (c : text) (m : omapb) : chain :=
  {| bank := bank s; reg := reg s;
     cstore := match m with [] => delete bcmp c (cstore s) | _ => update c m (cstore s) end |}.
Definition set_bank (s : chain) (b : bank_state) : chain := {| bank := b; reg := reg s; cstore := cstore s |}.
Definition set_reg (s : chain) (r : list (text * cdata)) : chain := {| bank := bank s; reg := r; cstore := cstore s |}.

Record blockinfo := { b_height : N; b_time : N; b_chain : text }.

(* the in-memory code table (WasmKeeper::code_data + code_base); constant during a transaction *)
Record code := { c_tag : N; c_creator : text; c_checksum : bytes; has_sudo : bool; has_reply : bool; has_migrate : bool }.

Record env := {
  codes : list (N * code);
  blk : blockinfo;
  valid_addrs : list text;                               (* strings api.addr_validate accepts *)
  classic_book : list ((N * N) * text);                  (* (code id, instance id) |-> address (SimpleAddressGenerator) *)
  salted_book : list ((bytes * text * bytes) * text)     (* (checksum, creator, salt) |-> address (instantiate2) *)
}.

Fixpoint find_code (id : N) (l : list (N * code)) : option code :=
  match l with [] => None | (i, c) :: l' => if i =? id then Some c else find_code id l' end.
Definition is_valid (e : env) (a : text) : bool := existsb (beqb a) (valid_addrs e).

Fixpoint find_classic (k : N * N) (l : list ((N * N) * text)) : option text :=
  match l with [] => None | ((a, b), t) :: l' => if (a =? fst k) && (b =? snd k) then Some t else find_classic k l' end.
Fixpoint find_salted (cs : bytes) (cr : text) (sa : bytes) (l : list ((bytes * text * bytes) * text)) : option text :=
  match l with
  | [] => None
  | ((a, b, c), t) :: l' => if beqb a cs && beqb b cr && beqb c sa then Some t else find_salted cs cr sa l'
  end.

(* ---------- the scripted-contract language ---------- *)
Inductive reply_on := RSuccess | RError | RAlways | RNever.
Inductive ep := EInst | EExec | EReply | ESudo | EMigrate.

(* read-only actions (allowed in bodies and in query programs) *)
Inductive qact :=
| QRead (k : bytes)
| QDump
| QBalance (a d : text)
| QAllBal (a : text)
| QSupply (d : text)
| QRaw (c : text) (k : bytes)
| QInfo (c : text)
| QCodeInfo (id : N)
| QSmart (c : text) (q : qprog)
with qprog := QProg (node : N) (acts : qacts) (ans : option bytes)      (* ans = None: the query handler fails *)
with qacts := QANil | QACons (a : qact) (r : qacts).

Inductive action := AWrite (k v : bytes) | ARemove (k : bytes) | AQ (q : qact).

Inductive msg :=
| MBankSend (to : text) (amt : coins)
| MBankBurn (amt : coins)
| MExec (c : text) (p : prog) (funds : coins)
| MInst (code_id : N) (p : prog) (funds : coins) (label : text) (admin : option text) (salt : option bytes)
| MMigrate (c : text) (new_code : N) (p : prog)
| MUpdateAdmin (c : text) (a : text)
| MClearAdmin (c : text)
| MCustom (ok : bool) (tag : N)                 (* custom module: recording, succeeds iff ok *)
with prog := Prog (node : N) (acts : list action) (out : output)
with output :=
| OFail                                          (* the entry point returns Err *)
| OResp (attrs : list attr) (events : list event) (data : option bytes) (subs : subs)
with subs := SNil | SCons (s : sub) (r : subs)
with sub := Sub (id : N) (payload : bytes) (ro : reply_on) (m : msg) (on_ok on_err : prog).

(* ---------- the out-of-band execution record (what scripted contracts and the recording module log) ---------- *)
Inductive rres := RROk (events : list event) (data : option bytes) | RRErr.

Inductive obsval :=
| VBytes (v : option bytes)
| VDump (l : list (bytes * bytes))
| VAmount (r : option N)
| VCoins (r : option coins)
| VRaw (r : option bytes)
| VInfo (r : option (N * text * option text))
| VCodeInfo (r : option (N * text * bytes))
| VSmart (r : option bytes).

Inductive rentry :=
| RCall (node : N) (e : ep) (callee : text) (sender : option text) (funds : coins) (b : blockinfo)
        (tag : N) (rep : option (N * bytes * rres))
| RQuery (node : N) (callee : text) (b : blockinfo) (tag : N)
| RObs (node : N) (o : obsval)
| RMod (sender : text) (tag : N).

Definition trace := list rentry.
(* every computation returns the log it produced (never rolled back) and an outcome *)
Definition T (A : Type) := (trace * outcome A)%type.
Definition resp := (list event * option bytes)%type.

(* ---------- queries (pure: they return no state) ---------- *)
Definition opt_of {A} (o : outcome A) : option A := match o with Ok a => Some a | _ => None end.

Fixpoint run_qact (e : env) (s : chain) (node : N) (own : omapb) (q : qact) {struct q} : trace :=
  match q with
  | QRead k => [RObs node (VBytes (assoc bcmp k own))]
  | QDump => [RObs node (VDump own)]
  | QBalance a d => [RObs node (VAmount (if is_valid e a then Some (bank_balance (bank s) a d) else None))]
  | QAllBal a => [RObs node (VCoins (if is_valid e a then Some (bank_all (bank s) a) else None))]
  | QSupply d => [RObs node (VAmount (Some (bank_supply (bank s) d)))]
  | QRaw c k =>
      [RObs node (VRaw (if is_valid e c
                        then Some (match assoc bcmp k (cstore_get s c) with Some v => v | None => [] end)
                        else None))]
  | QInfo c =>
      [RObs node (VInfo (if is_valid e c
                         then match lookup c (reg s) with
                              | Some cd => Some (cd_code cd, cd_creator cd, cd_admin cd)
                              | None => None end
                         else None))]
  | QCodeInfo id =>
      [RObs node (VCodeInfo (match find_code id (codes e) with
                             | Some c => Some (id, c_creator c, c_checksum c)
                             | None => None end))]
  | QSmart c q =>
      if is_valid e c then
        match lookup c (reg s) with
        | Some cd =>
            match find_code (cd_code cd) (codes e) with
            | Some co => let (tr, r) := run_qprog e s c (c_tag co) q in tr ++ [RObs node (VSmart r)]
            | None => [RObs node (VSmart None)]
            end
        | None => [RObs node (VSmart None)]
        end
      else [RObs node (VSmart None)]
  end
with run_qprog (e : env) (s : chain) (c : text) (tag : N) (q : qprog) {struct q} : trace * option bytes :=
  match q with
  | QProg node acts ans => (RQuery node c (blk e) tag :: run_qacts e s node (cstore_get s c) acts, ans)
  end
with run_qacts (e : env) (s : chain) (node : N) (own : omapb) (l : qacts) {struct l} : trace :=
  match l with
  | QANil => []
  | QACons a r => run_qact e s node own a ++ run_qacts e s node own r
  end.

(* ---------- contract bodies ---------- *)
(* with_storage (wasm.rs:1192-1224): the body writes into a private cache over its own key space
   ([own]); its querier reads the ENCLOSING store as it was at entry ([s]) *)
Fixpoint run_actions (e : env) (s : chain) (node : N) (own : omapb) (acts : list action) : trace * omapb :=
  match acts with
  | [] => ([], own)
  | AWrite k v :: r => run_actions e s node (insert bcmp k v own) r
  | ARemove k :: r => run_actions e s node (delete bcmp k own) r
  | AQ q :: r => let tr := run_qact e s node own q in
                 let (tr', own') := run_actions e s node own r in (tr ++ tr', own')
  end.

Definition contract_attr : text := [95;99;111;110;116;114;97;99;116;95;97;100;100;114;101;115;115].  (* "_contract_address" *)
Definition t_wasm : text := [119;97;115;109].
Definition t_wasm_dash : text := [119;97;115;109;45].
Definition t_execute : text := [101;120;101;99;117;116;101].
Definition t_instantiate : text := [105;110;115;116;97;110;116;105;97;116;101].
Definition t_migrate : text := [109;105;103;114;97;116;101].
Definition t_sudo : text := [115;117;100;111].
Definition t_reply : text := [114;101;112;108;121].
Definition t_code_id : text := [99;111;100;101;95;105;100].
Definition t_mode : text := [109;111;100;101].
Definition t_handle_success : text := [104;97;110;100;108;101;95;115;117;99;99;101;115;115].
Definition t_handle_failure : text := [104;97;110;100;108;101;95;102;97;105;108;117;114;101].
Definition t_transfer : text := [116;114;97;110;115;102;101;114].
Definition t_recipient : text := [114;101;99;105;112;105;101;110;116].
Definition t_sender : text := [115;101;110;100;101;114].
Definition t_amount : text := [97;109;111;117;110;116].

(* bank.rs:170-175 coins_to_string *)
Fixpoint coins_to_string (cs : coins) : text :=
  match cs with
  | [] => []
  | [c] => dec (snd c) ++ fst c
  | c :: r => dec (snd c) ++ fst c ++ [44] ++ coins_to_string r
  end.

(* build_app_response (wasm.rs:914-958) *)
Definition rename_event (c : text) (ev : event) : event :=
  (t_wasm_dash ++ fst ev, (contract_attr, c) :: snd ev).
Definition base_events (c : text) (custom : event) (attrs : list attr) (events : list event) : list event :=
  custom :: (match attrs with [] => [] | _ => [(t_wasm, (contract_attr, c) :: attrs)] end)
         ++ map (rename_event c) events.

Definition ep_event (e : ep) (c : text) (code_id : N) (reply_ok : bool) : event :=
  match e with
  | EExec => (t_execute, [(contract_attr, c)])
  | EInst => (t_instantiate, [(contract_attr, c); (t_code_id, dec code_id)])
  | EMigrate => (t_migrate, [(contract_attr, c); (t_code_id, dec code_id)])
  | ESudo => (t_sudo, [(contract_attr, c)])
  | EReply => (t_reply, [(contract_attr, c); (t_mode, if reply_ok then t_handle_success else t_handle_failure)])
  end.

Definition ep_available (co : code) (e : ep) : bool :=
  match e with ESudo => has_sudo co | EReply => has_reply co | EMigrate => has_migrate co | _ => true end.

Definition wants_ok (r : reply_on) : bool := match r with RSuccess | RAlways => true | _ => false end.
Definition wants_err (r : reply_on) : bool := match r with RError | RAlways => true | _ => false end.

Definition or_data (a b : option bytes) : option bytes := match a with Some x => Some x | None => b end.

(* WasmKeeper::send (wasm.rs:548-572): nothing happens for an empty funds list; the bank's response is dropped *)
Definition move_funds (s : chain) (from to : text) (funds : coins) : outcome chain :=
  match funds with
  | [] => Ok s
  | _ => match bank_send (bank s) from to funds with
         | Ok b => Ok (set_bank s b)
         | Err => Err
         | Panic => Panic
         end
  end.

(* register_contract (wasm.rs:1001-1053) *)
Definition new_address (e : env) (s : chain) (code_id : N) (creator : text) (salt : option bytes) : option text :=
  let instance_id := N.of_nat (length (reg s)) in
  match salt with
  | Some sa => match find_code code_id (codes e) with
               | Some co => find_salted (c_checksum co) creator sa (salted_book e)
               | None => None end
  | None => find_classic (code_id, instance_id) (classic_book e)
  end.

(* cosmwasm_std::instantiate2_address (reached through predictable_contract_address, wasm.rs:1020-1032) rejects a
   salt that is empty or longer than 64 bytes: an Instantiate2 with such a salt fails; it never falls back to the
   classic address *)
Definition salt_ok (salt : option bytes) : bool :=
  match salt with
  | Some sa => Nat.leb 1 (length sa) && Nat.leb (length sa) 64
  | None => true
  end.

Definition register_contract (e : env) (s : chain) (code_id : N) (creator : text) (admin : option text)
           (label : text) (salt : option bytes) : outcome (text * chain) :=
  match find_code code_id (codes e) with
  | None => Err
  | Some _ =>
      if negb (salt_ok salt) then Err else
      match new_address e s code_id creator salt with
      | None => Panic        (* the address book of the case does not cover this instantiation: harness error *)
      | Some a =>
          match lookup a (reg s) with
          | Some _ => Err    (* duplicated contract address *)
          | None =>
              Ok (a, set_reg s (update a {| cd_code := code_id; cd_creator := creator; cd_admin := admin;
                                            cd_label := label; cd_created := b_height (blk e) |} (reg s)))
          end
      end
  end.

(* ---------- the executor ---------- *)
Fixpoint run_msg (e : env) (sender : text) (m : msg) (s : chain) {struct m} : T (resp * chain) :=
  match m with
  | MBankSend to amt =>                                                  (* bank.rs:194-209 *)
      match bank_send (bank s) sender to amt with
      | Ok b => ([], Ok (([(t_transfer, [(t_recipient, to); (t_sender, sender); (t_amount, coins_to_string amt)])], None),
                         set_bank s b))
      | Err => ([], Err) | Panic => ([], Panic)
      end
  | MBankBurn amt =>
      match bank_burn (bank s) sender amt with
      | Ok b => ([], Ok (([], None), set_bank s b))
      | Err => ([], Err) | Panic => ([], Panic)
      end
  | MExec c p funds =>                                                   (* wasm.rs:622-666 *)
      if negb (is_valid e c) then ([], Err) else
      match move_funds s sender c funds with
      | Ok s1 =>
          let (tr, r) := run_prog e EExec c (Some sender) funds None 0 true p s1 in
          match r with
          | Ok ((ev, d), s2) => (tr, Ok ((ev, option_map encode_exec_resp d), s2))
          | Err => (tr, Err) | Panic => (tr, Panic)
          end
      | Err => ([], Err) | Panic => ([], Panic)
      end
  | MInst code_id p funds label admin salt =>                            (* wasm.rs:743-806 *)
      match label with [] => ([], Err) | _ =>
      match register_contract e s code_id sender admin label salt with
      | Ok (a, s1) =>
          match move_funds s1 sender a funds with
          | Ok s2 =>
              let (tr, r) := run_prog e EInst a (Some sender) funds None code_id true p s2 in
              match r with
              | Ok ((ev, d), s3) =>
                  (tr, Ok ((ev, Some (encode_inst_resp a (match d with Some x => x | None => [] end))), s3))
              | Err => (tr, Err) | Panic => (tr, Panic)
              end
          | Err => ([], Err) | Panic => ([], Panic)
          end
      | Err => ([], Err) | Panic => ([], Panic)
      end end
  | MMigrate c new_code p =>                                             (* wasm.rs:690-727 *)
      if negb (is_valid e c) then ([], Err) else
      match find_code new_code (codes e) with
      | None => ([], Err)
      | Some _ =>
          match lookup c (reg s) with
          | None => ([], Err)
          | Some cd =>
              if negb (option_eqb beqb (cd_admin cd) (Some sender)) then ([], Err) else
              let cd' := {| cd_code := new_code; cd_creator := cd_creator cd; cd_admin := cd_admin cd;
                            cd_label := cd_label cd; cd_created := cd_created cd |} in
              let s1 := set_reg s (update c cd' (reg s)) in
              let (tr, r) := run_prog e EMigrate c None [] None new_code true p s1 in
              match r with
              | Ok ((ev, d), s2) => (tr, Ok ((ev, option_map encode_exec_resp d), s2))
              | Err => (tr, Err) | Panic => (tr, Panic)
              end
          end
      end
  | MUpdateAdmin c a =>                                                  (* wasm.rs:575-600 *)
      if negb (is_valid e c) then ([], Err) else
      if negb (is_valid e a) then ([], Err) else
      match lookup c (reg s) with
      | None => ([], Err)
      | Some cd =>
          if negb (option_eqb beqb (cd_admin cd) (Some sender)) then ([], Err) else
          ([], Ok (([], None), set_reg s (update c {| cd_code := cd_code cd; cd_creator := cd_creator cd; cd_admin := Some a;
                                                      cd_label := cd_label cd; cd_created := cd_created cd |} (reg s))))
      end
  | MClearAdmin c =>
      if negb (is_valid e c) then ([], Err) else
      match lookup c (reg s) with
      | None => ([], Err)
      | Some cd =>
          if negb (option_eqb beqb (cd_admin cd) (Some sender)) then ([], Err) else
          ([], Ok (([], None), set_reg s (update c {| cd_code := cd_code cd; cd_creator := cd_creator cd; cd_admin := None;
                                                      cd_label := cd_label cd; cd_created := cd_created cd |} (reg s))))
      end
  | MCustom ok tag => ([RMod sender tag], if ok then Ok (([], None), s) else Err)
  end

(* call_<ep> = verify_response (with_storage (..)) followed by build_app_response and process_response
   (wasm.rs:1055-1160, 914-994); [rep] is the Reply handed to a reply entry point *)
with run_prog (e : env) (entry : ep) (c : text) (sender : option text) (funds : coins)
              (rep : option (N * bytes * rres)) (code_id_attr : N) (reply_ok : bool)
              (p : prog) (s : chain) {struct p} : T (resp * chain) :=
  match p with
  | Prog node acts out =>
      match lookup c (reg s) with
      | None => ([], Err)                                   (* contract_data: not found *)
      | Some cd =>
          match find_code (cd_code cd) (codes e) with
          | None => ([], Err)                               (* contract_code: unregistered code id *)
          | Some co =>
              if negb (ep_available co entry) then ([], Err) else
              let hdr := RCall node entry c sender funds (blk e) (c_tag co) rep in
              let (tr_a, own') := run_actions e s node (cstore_get s c) acts in
              match out with
              | OFail => (hdr :: tr_a, Err)                 (* the private cache is dropped *)
              | OResp attrs events data sbs =>
                  let s1 := cstore_set s c own' in          (* cache flushed into the enclosing store *)
                  match verify_response attrs events with
                  | Some _ => (hdr :: tr_a, Err)
                  | None =>
                      let ev0 := base_events c (ep_event entry c code_id_attr reply_ok) attrs events in
                      let (tr_s, r) := process_subs e c sbs data s1 in
                      match r with
                      | Ok ((ev, d), s2) => (hdr :: tr_a ++ tr_s, Ok ((ev0 ++ ev, d), s2))
                      | Err => (hdr :: tr_a ++ tr_s, Err)
                      | Panic => (hdr :: tr_a ++ tr_s, Panic)
                      end
                  end
              end
          end
      end
  end

(* process_response's try_fold (wasm.rs:960-994): events appended in order; data = last Some *)
with process_subs (e : env) (c : text) (l : subs) (data : option bytes) (s : chain) {struct l} : T (resp * chain) :=
  match l with
  | SNil => ([], Ok (([], data), s))
  | SCons sb r =>
      let (tr1, r1) := run_sub e c sb s in
      match r1 with
      | Ok ((ev1, d1), s1) =>
          let (tr2, r2) := process_subs e c r (or_data d1 data) s1 in
          match r2 with
          | Ok ((ev2, d2), s2) => (tr1 ++ tr2, Ok ((ev1 ++ ev2, d2), s2))
          | Err => (tr1 ++ tr2, Err) | Panic => (tr1 ++ tr2, Panic)
          end
      | Err => (tr1, Err) | Panic => (tr1, Panic)
      end
  end

(* execute_submsg (wasm.rs:817-886) *)
with run_sub (e : env) (c : text) (sb : sub) (s : chain) {struct sb} : T (resp * chain) :=
  match sb with
  | Sub id payload ro m on_ok on_err =>
      let (tr, r) := run_msg e c m s in              (* transactional(storage, router.execute(.., contract, msg)) *)
      match r with
      | Ok ((ev, d), s1) =>
          if wants_ok ro then
            let (tr2, r2) := run_prog e EReply c None [] (Some (id, payload, RROk ev d)) 0 true on_ok s1 in
            match r2 with
            | Ok ((ev2, d2), s2) => (tr ++ tr2, Ok ((ev ++ ev2, d2), s2))     (* data overridden, events appended *)
            | Err => (tr ++ tr2, Err) | Panic => (tr ++ tr2, Panic)
            end
          else (tr, Ok ((ev, None), s1))                                    (* reply not called: no data *)
      | Err =>
          if wants_err ro then
            let (tr2, r2) := run_prog e EReply c None [] (Some (id, payload, RRErr)) 0 false on_err s in   (* s itself *)
            (tr ++ tr2, r2)
          else (tr, Err)
      | Panic => (tr, Panic)
      end
  end.

(* ---------- App entry points (app.rs:439-504) ---------- *)
(* Router::execute for each message in order inside ONE transactional; collect() stops at the first error *)
Fixpoint run_msgs (e : env) (sender : text) (ms : list msg) (s : chain) : T (list resp * chain) :=
  match ms with
  | [] => ([], Ok ([], s))
  | m :: r =>
      let (tr1, r1) := run_msg e sender m s in
      match r1 with
      | Ok (rs, s1) =>
          let (tr2, r2) := run_msgs e sender r s1 in
          match r2 with
          | Ok (rss, s2) => (tr1 ++ tr2, Ok (rs :: rss, s2))
          | Err => (tr1 ++ tr2, Err) | Panic => (tr1 ++ tr2, Panic)
          end
      | Err => (tr1, Err) | Panic => (tr1, Panic)
      end
  end.

Inductive topop :=
| TExecMulti (sender : text) (ms : list msg)
| TExec (sender : text) (m : msg)                  (* Executor::execute = singleton execute_multi, one response *)
| TWasmSudo (c : text) (p : prog)
| TMint (to : text) (amt : coins)                  (* SudoMsg::Bank(BankSudo::Mint) *)
| THelperInst (sender : text) (m : msg)            (* instantiate_contract / instantiate2_contract: returns the address *)
| THelperExec (sender : text) (m : msg).           (* execute_contract: data unwrapped again *)

Definition first_resp (rs : list resp) : resp := match rs with r :: _ => r | [] => ([], None) end.

(* state after a top-level call: the new state on Ok, the OLD state otherwise *)
Definition run_top (e : env) (op : topop) (s : chain) : trace * outcome (list resp) * chain :=
  match op with
  | TExecMulti sender ms =>
      let (tr, r) := run_msgs e sender ms s in
      match r with
      | Ok (rs, s') => (tr, Ok rs, s')
      | Err => (tr, Err, s) | Panic => (tr, Panic, s)
      end
  | TExec sender m =>                                (* app.rs Executor::execute: execute_multi(vec![msg]).pop() *)
      let (tr, r) := run_msgs e sender [m] s in
      match r with
      | Ok (rs, s') => (tr, Ok [first_resp rs], s')
      | Err => (tr, Err, s) | Panic => (tr, Panic, s)
      end
  | TWasmSudo c p =>
      let (tr, r) := run_prog e ESudo c None [] None 0 true p s in
      match r with
      | Ok (rs, s') => (tr, Ok [rs], s')
      | Err => (tr, Err, s) | Panic => (tr, Panic, s)
      end
  | TMint to amt =>                                  (* bank.rs:272-288: the recipient is validated here *)
      if negb (is_valid e to) then ([], Err, s) else
      match bank_mint (bank s) to amt with
      | Ok b => ([], Ok [([], None)], set_bank s b)
      | Err => ([], Err, s) | Panic => ([], Panic, s)
      end
  | THelperInst sender m =>                          (* executor.rs:82-101: the transaction stays committed even if parsing fails *)
      let (tr, r) := run_msgs e sender [m] s in
      match r with
      | Ok (rs, s') =>
          match helper_inst_addr (snd (first_resp rs)) with
          | Ok a => (tr, Ok [([], Some a)], s')
          | Err => (tr, Err, s') | Panic => (tr, Panic, s')
          end
      | Err => (tr, Err, s) | Panic => (tr, Panic, s)
      end
  | THelperExec sender m =>                          (* executor.rs:141-159 *)
      let (tr, r) := run_msgs e sender [m] s in
      match r with
      | Ok (rs, s') =>
          match helper_exec_data (snd (first_resp rs)) with
          | Ok d => (tr, Ok [(fst (first_resp rs), d)], s')
          | Err => (tr, Err, s') | Panic => (tr, Panic, s')
          end
      | Err => (tr, Err, s) | Panic => (tr, Panic, s)
      end
  end.
