(* ChkQ.v — check for C10 (queries are pure and observe exactly the transaction's current state).
   FIRST the property oracle [p_c10] on the IMPLEMENTATION's observations (raw-store digests around the
   App-level query batches, the two rounds of answers, the in-contract balance seen right after attached
   funds, the answers after a failed call) -> PropFail; THEN the correspondence: the executor model's log
   (which contains every answer a contract got mid-transaction, ChkExec) and the model's answers to the
   App-level batch on the state after the call -> Disagree.
   PropFail code = step_index * 16 + clause; Disagree code = step_index * 8 + j (j = 5: App-level batch). *)
From Verif Require Import Base OMap Text Proto Bank Exec ExecFacts ExecFacts2 ExecIso ExecQuery ChkExec ChkX ChkIso.
Local Open Scope N_scope.

Record qstep := {
  q_step : step;
  q_tr1 : trace;                 (* log of the App-level batch asked after the call (answers = its RObs 0 entries) *)
  q_tr2 : trace;                 (* the same batch asked again *)
  q_same1 : bool;                (* SHA-256 of the complete raw store: before batch 1 = after batch 1 *)
  q_same2 : bool;                (* after batch 1 = after batch 2 *)
  q_ext1 : list (option bytes);  (* staking / custom queries (not modelled at this level): raw answers *)
  q_ext2 : list (option bytes)
}.

(* the first thing a script logs, if only writes precede it *)
Fixpoint first_query (acts : list action) : option qact :=
  match acts with
  | [] => None
  | AWrite _ _ :: r | ARemove _ :: r => first_query r
  | AQ q :: _ => Some q
  end.

Definition root_exec (op : topop) : option (text * text * prog * coins) :=
  match top_sender op, top_msgs op with
  | Some sender, MExec c p funds :: _ => Some (sender, c, p, funds)
  | _, _ => None
  end.

(* clause 7: a top-level execute with funds whose callee first asks for its own balance: if the callee ran,
   the amount it was told is its balance AFTER the transfer of the attached funds (Bank.bank_send, C09)
   applied to the ledger as decoded from the raw store before the call *)
Definition funds_seen_ok (before : chain) (op : topop) (tr : trace) : bool :=
  match root_exec op with
  | Some (sender, c, Prog node acts _, funds) =>
      match first_query acts, funds, tr with
      | Some (QBalance a d), _ :: _, RCall n _ c' _ _ _ _ _ :: tr' =>
          negb ((n =? node) && teqb c c' && teqb a c) ||
          match bank_send (bank before) sender c funds, tr' with
          | Ok b', RObs n' (VAmount (Some x)) :: _ => (n' =? node) && (x =? bank_balance b' c d)
          | _, _ => false
          end
      | _, _, _ => true
      end
  | None => true
  end.

Definition non_helper (op : topop) : bool := match op with THelperInst _ _ | THelperExec _ _ => false | _ => true end.

Definition before_of (prev : option qstep) : chain :=
  match prev with Some p => st_state (q_step p) | None => empty_chain end.

Definition p_c10 (prev : option qstep) (x : qstep) : option N :=
  let st := q_step x in
  first_fail [
    (* 5: no query of the two batches changed a single byte of the raw root store *)
    (5, q_same1 x && q_same2 x);
    (* 6: asking again gives the same answers (and the same nested logs) *)
    (6, trace_eqb (q_tr1 x) (q_tr2 x) && list_eqb obytes_eqb (q_ext1 x) (q_ext2 x));
    (* 7: funds just sent are seen by the callee *)
    (7, funds_seen_ok (before_of prev) (st_op st) (st_trace st));
    (* 8: after a failed top-level call (same block) every answer is what it was before the call *)
    (8, match st_outcome st, prev with
        | Ok _, _ | _, None => true
        | _, Some p =>
            negb (non_helper (st_op st)) || negb (blk_eqb (st_blk (q_step p)) (st_blk st))
            || (trace_eqb (q_tr1 x) (q_tr1 p) && list_eqb obytes_eqb (q_ext1 x) (q_ext1 p))
        end)
  ].

Fixpoint oracle_q (prev : option qstep) (steps : list qstep) (k : N) : option N :=
  match steps with
  | [] => None
  | x :: r => match p_c10 prev x with Some c => Some (k * 16 + c) | None => oracle_q (Some x) r (k + 1) end
  end.

Fixpoint corrq (ce : case_env) (batch : qacts) (steps : list qstep) (s : chain) (k : N) : option N :=
  match steps with
  | [] => None
  | x :: r =>
      let st := q_step x in
      let e := mk_env ce (st_blk st) in
      let '(tr, o, s') := run_top e (st_op st) s in
      if negb (trace_eqb tr (st_trace st)) then Some (k * 8 + 1)
      else if negb (out_eqb o (st_outcome st)) then Some (k * 8 + 2)
      else if negb (chain_eqb s' (st_state st)) then Some (k * 8 + 3)
      else if negb (st_other st =? 0) then Some (k * 8 + 4)
      else if negb (trace_eqb (app_queries e s' batch) (q_tr1 x)) then Some (k * 8 + 5)
      else corrq ce batch r s' (k + 1)
  end.

(* ---------- further clauses (9-12): effects that completed earlier in the SAME transaction are seen ---------- *)
(* All of them are model-independent: they use the input trees, the implementation's log and, for 9 and 12,
   the raw store decoded before the call.  They are evaluated after clauses 5-8 ([oracle_qx]); the pinned
   C10_model_ok covers clauses 5-8; for 9 and for the body-level core of 10 see [root_reads_model] /
   [ryw_model] below; 10 (all depths), 11 and 12 identify a program's log by its node number and are
   claimed for the harness's inputs (node numbers unique per scenario), not for arbitrary scripts. *)

(* what a body knows about its own keys from its own script so far: newest first; None = removed *)
Definition kmap := list (bytes * option bytes).
Definition kget (k : bytes) (m : kmap) : option (option bytes) :=
  match find (fun p => beqb (fst p) k) m with Some p => Some (snd p) | None => None end.

(* clause 10, read-your-writes: after `AWrite k v` (and no later write / remove of k) a get of k in the same
   body observes Some v, after `ARemove k` it observes None — also when k exists with another value BELOW
   the body's write cache.  Keys the body has not touched are not judged.  Other queries log one entry each;
   the walk stops at the first smart query *)
Fixpoint ryw (node : N) (known : kmap) (acts : list action) (tr : trace) : bool :=
  match acts with
  | [] => true
  | AWrite k v :: r => ryw node ((k, Some v) :: known) r tr
  | ARemove k :: r => ryw node ((k, None) :: known) r tr
  | AQ (QSmart _ _) :: _ => true
  | AQ (QRead k) :: r =>
      match tr with
      | RObs n (VBytes x) :: tr' =>
          (n =? node) && match kget k known with Some v => obytes_eqb x v | None => true end && ryw node known r tr'
      | _ => false
      end
  | AQ _ :: r => match tr with _ :: tr' => ryw node known r tr' | [] => false end
  end.

(* the log after the header of the call of program [n] *)
Fixpoint after_call (n : N) (tr : trace) : option trace :=
  match tr with
  | [] => None
  | en :: r => match call_node en with
               | Some n' => if n' =? n then Some r else after_call n r
               | None => after_call n r end
  end.

Definition ryw_all (infos : list pinfo) (tr : trace) : bool :=
  forallb (fun pi => match pi_prog pi with
                     | Prog n acts _ => match after_call n tr with Some rest => ryw n [] acts rest | None => true end
                     end) infos.

Fixpoint last_writes (acts : list action) (known : kmap) : kmap :=
  match acts with
  | [] => known
  | AWrite k v :: r => last_writes r ((k, Some v) :: known)
  | ARemove k :: r => last_writes r ((k, None) :: known)
  | AQ _ :: r => last_writes r known
  end.

(* clause 11: a LATER node's view of contract c.  [known] = what the last completed body of c left for the keys
   it touched.  A raw query on c for such a key returns that value (removed = absent = empty bytes); a smart
   query to c whose handler first reads such a key reads that value.  The walk stops after the first smart query *)
Fixpoint raw_sees (c : text) (known : kmap) (acts : list action) (tr : trace) : bool :=
  match acts with
  | [] => true
  | AWrite _ _ :: r | ARemove _ :: r => raw_sees c known r tr
  | AQ (QSmart c' (QProg _ qa _)) :: _ =>
      negb (teqb c' c) ||
      match qa with
      | QACons (QRead k) _ =>
          match kget k known, tr with
          | None, _ => true
          | Some v, RQuery _ c'' _ _ :: RObs _ (VBytes x) :: _ => teqb c'' c && obytes_eqb x v
          | Some _, _ => false
          end
      | _ => true
      end
  | AQ (QRaw c' k) :: r =>
      match tr with
      | RObs _ (VRaw x) :: tr' =>
          (negb (teqb c' c) ||
           match kget k known with
           | Some v => obytes_eqb x (Some (match v with Some b => b | None => [] end))
           | None => true end)
          && raw_sees c known r tr'
      | _ => false
      end
  | AQ _ :: r => match tr with _ :: tr' => raw_sees c known r tr' | [] => false end
  end.

Definition msg_prog (m : msg) : option prog :=
  match m with MExec _ p _ | MInst _ p _ _ _ _ | MMigrate _ _ p => Some p | _ => None end.

Definition later_sees (tr : trace) (c : text) (writer_acts : list action) (m : msg) : bool :=
  match msg_prog m with
  | Some (Prog n2 acts2 _) =>
      match after_call n2 tr with
      | Some rest => raw_sees c (last_writes writer_acts []) acts2 rest
      | None => true            (* the later node did not run: nothing is claimed *)
      end
  | None => true
  end.

(* shape (a): a body and the FIRST sub-message it dispatches.  If that sub-message's program is in the log, the
   parent's body finished, its response was accepted and its writes were flushed; nothing but the transfer of
   attached funds happens in between *)
Fixpoint lr_msg (tr : trace) (m : msg) : bool :=
  match m with
  | MExec _ p _ | MInst _ p _ _ _ _ | MMigrate _ _ p => lr_prog tr p
  | _ => true
  end
with lr_prog (tr : trace) (p : prog) : bool :=
  match p with
  | Prog node acts out =>
      match out with
      | OFail => true
      | OResp _ _ _ sbs =>
          (match sbs with
           | SCons (Sub _ _ _ m _ _) _ =>
               match find_call node tr with
               | Some en => later_sees tr (callee_of en) acts m
               | None => true
               end
           | SNil => true
           end) && lr_subs tr sbs
      end
  end
with lr_subs (tr : trace) (l : subs) : bool :=
  match l with SNil => true | SCons sb r => lr_sub tr sb && lr_subs tr r end
with lr_sub (tr : trace) (sb : sub) : bool :=
  match sb with Sub _ _ _ m on_ok on_err => lr_msg tr m && lr_prog tr on_ok && lr_prog tr on_err end.

(* shape (b): two ADJACENT root messages of one execute_multi, the first a leaf execute at c.  If the second
   one's program is in the log, the first returned Ok (collect() stops at the first error), i.e. its body ran
   at c and was flushed *)
Fixpoint lr_multi (tr : trace) (ms : list msg) : bool :=
  match ms with
  | [] => true
  | m1 :: r =>
      (match m1, r with
       | MExec c (Prog _ acts (OResp _ _ _ SNil)) _, m2 :: _ => later_sees tr c acts m2
       | _, _ => true
       end) && lr_multi tr r
  end.

Definition later_reads_ok (op : topop) (tr : trace) : bool :=
  match op with
  | TWasmSudo _ p => lr_prog tr p
  | _ => forallb (lr_msg tr) (top_msgs op) && lr_multi tr (top_msgs op)
  end.

(* clause 12: clause 7 for instantiate.  The new contract's address is the one it was told (its log header);
   registering it does not touch the bank *)
Definition inst_funds_ok (before : chain) (op : topop) (tr : trace) : bool :=
  match top_sender op, top_msgs op with
  | Some sender, MInst _ (Prog node acts _) funds _ _ _ :: _ =>
      match first_query acts, funds, tr with
      | Some (QBalance a d), _ :: _, RCall n EInst c' _ _ _ _ _ :: tr' =>
          negb ((n =? node) && teqb a c') ||
          match bank_send (bank before) sender c' funds, tr' with
          | Ok b', RObs n' (VAmount (Some x)) :: _ => (n' =? node) && (x =? bank_balance b' c' d)
          | _, _ => false
          end
      | _, _, _ => true
      end
  | _, _ => true
  end.

Definition p_c10x (prev : option qstep) (x : qstep) : option N :=
  let st := q_step x in
  first_fail [
    (* 9: what the root body read from its own storage = its window before the call + its own writes (ChkIso) *)
    (9, root_reads_ok (before_of prev) (st_op st) (st_trace st));
    (* 10: read-your-writes in every body that ran, at every depth *)
    (10, ryw_all (flat_op (st_op st)) (st_trace st));
    (* 11: a later node's raw / smart query on c sees what the last completed body of c left *)
    (11, later_reads_ok (st_op st) (st_trace st));
    (* 12: funds attached to an instantiate are seen by the new contract *)
    (12, inst_funds_ok (before_of prev) (st_op st) (st_trace st))
  ].

Fixpoint oracle_qx (prev : option qstep) (steps : list qstep) (k : N) : option N :=
  match steps with
  | [] => None
  | x :: r => match p_c10x prev x with Some c => Some (k * 16 + c) | None => oracle_qx (Some x) r (k + 1) end
  end.

(* ---------- clause 13: a smart query is served by the code the registry names ---------- *)
(* All foreign queries of ONE body (and all queries of one App-level batch) see the same state.  So if, in the
   same body / batch, ContractInfo says that c runs code id, the handler that serves a smart query to c is that
   code's (its log entry RQuery carries the code tag); and if ContractInfo does not know c, no handler is
   invoked for c.  In particular this holds after a failed top-level call and after a caught failure: the code
   of a rolled-back migration / instantiation must not answer.  Model-independent (input script, log, the
   case's code table); claimed for the harness's inputs (node numbers unique); outside C10_model_ok. *)
Fixpoint qacts_list (l : qacts) : list qact := match l with QANil => [] | QACons a r => a :: qacts_list r end.
Definition body_queries (acts : list action) : list qact :=
  flat_map (fun a => match a with AQ q => [q] | _ => [] end) acts.

(* the log after the answer of the smart query issued at [node] *)
Fixpoint skip_smart (node : N) (tr : trace) : option trace :=
  match tr with
  | [] => None
  | RObs n (VSmart _) :: r => if n =? node then Some r else skip_smart node r
  | _ :: r => skip_smart node r
  end.

(* pass 1: the ContractInfo answers of this body / batch *)
Fixpoint collect_infos (node : N) (qs : list qact) (tr : trace) : list (text * option N) :=
  match qs with
  | [] => []
  | QInfo c :: r =>
      match tr with
      | RObs _ (VInfo x) :: tr' => (c, option_map (fun t => fst (fst t)) x) :: collect_infos node r tr'
      | _ :: tr' => collect_infos node r tr'
      | [] => []
      end
  | QSmart _ _ :: r => match skip_smart node tr with Some tr' => collect_infos node r tr' | None => [] end
  | _ :: r => match tr with _ :: tr' => collect_infos node r tr' | [] => [] end
  end.

Definition tag_of (codes : list (N * code)) (cid : N) : option N := option_map c_tag (find_code cid codes).

(* pass 2: every smart query whose target has a ContractInfo answer in the same body / batch *)
Fixpoint smart_served (codes : list (N * code)) (node : N) (infos : list (text * option N)) (qs : list qact) (tr : trace) : bool :=
  match qs with
  | [] => true
  | QSmart c (QProg qn _ _) :: r =>
      (match find (fun p => teqb (fst p) c) infos with
       | Some (_, Some cid) =>
           match tr with
           | RQuery qn' c' _ tag :: _ => (qn' =? qn) && teqb c' c && option_eqb N.eqb (tag_of codes cid) (Some tag)
           | _ => false                               (* the registered contract's handler was not invoked *)
           end
       | Some (_, None) =>
           match tr with
           | RQuery qn' c' _ _ :: _ => negb ((qn' =? qn) && teqb c' c)    (* a handler ran for an unknown contract *)
           | _ => true
           end
       | None => true
       end)
      && match skip_smart node tr with Some tr' => smart_served codes node infos r tr' | None => true end
  | _ :: r => match tr with _ :: tr' => smart_served codes node infos r tr' | [] => true end
  end.

Definition info_smart_ok (codes : list (N * code)) (node : N) (qs : list qact) (tr : trace) : bool :=
  smart_served codes node (collect_infos node qs tr) qs tr.

(* ---------- clause 14: bank answers agree with the ledger in the raw store ---------- *)
(* A Supply d answer is the sum over ALL accounts of the ledger (Bank.bank_supply, C09) decoded from the raw
   root store; a Balance answer is that account's entry.  For the App-level batch the ledger is the one after
   the call (whatever failed or was rolled back inside it); for a Supply query in the root body of the next
   call it is the ledger before that call (attached funds move coins, they do not change the supply).
   [bal] = also judge Balance answers. *)
Fixpoint bank_answers_ok (b : bank_state) (bal : bool) (node : N) (qs : list qact) (tr : trace) : bool :=
  match qs with
  | [] => true
  | QSmart _ _ :: _ => if bal then match skip_smart node tr with
                                   | Some tr' => match qs with _ :: r => bank_answers_ok b bal node r tr' | [] => true end
                                   | None => true end
                       else true
  | QSupply d :: r =>
      match tr with
      | RObs _ (VAmount x) :: tr' => option_eqb N.eqb x (Some (bank_supply b d)) && bank_answers_ok b bal node r tr'
      | _ :: tr' => bank_answers_ok b bal node r tr'
      | [] => true
      end
  | QBalance a d :: r =>
      match tr with
      | RObs _ (VAmount (Some x)) :: tr' => (negb bal || (x =? bank_balance b a d)) && bank_answers_ok b bal node r tr'
      | _ :: tr' => bank_answers_ok b bal node r tr'
      | [] => true
      end
  | _ :: r => match tr with _ :: tr' => bank_answers_ok b bal node r tr' | [] => true end
  end.

Definition root_supply_ok (before : chain) (op : topop) (tr : trace) : bool :=
  match root_call op, tr with
  | Some (c, Prog node acts _), RCall n _ c' _ _ _ _ _ :: tr' =>
      negb ((n =? node) && teqb c c') || bank_answers_ok (bank before) false node (body_queries acts) tr'
  | _, _ => true
  end.

Definition p_c10y (ce : case_env) (batch : qacts) (prev : option qstep) (x : qstep) : option N :=
  let st := q_step x in
  first_fail [
    (13, info_smart_ok (ce_codes ce) 0 (qacts_list batch) (q_tr1 x)
         && forallb (fun pi => match pi_prog pi with
                               | Prog n acts _ =>
                                   match after_call n (st_trace st) with
                                   | Some rest => info_smart_ok (ce_codes ce) n (body_queries acts) rest
                                   | None => true end
                               end) (flat_op (st_op st)));
    (14, bank_answers_ok (bank (st_state st)) true 0 (qacts_list batch) (q_tr1 x)
         && root_supply_ok (before_of prev) (st_op st) (st_trace st))
  ].
Fixpoint oracle_qy (ce : case_env) (batch : qacts) (prev : option qstep) (steps : list qstep) (k : N) : option N :=
  match steps with
  | [] => None
  | x :: r => match p_c10y ce batch prev x with Some c => Some (k * 16 + c) | None => oracle_qy ce batch (Some x) r (k + 1) end
  end.

Definition c10 (ce : case_env) (batch : qacts) (steps : list qstep) : verdict :=
  match oracle_q None steps 0 with
  | Some c => PropFail c
  | None =>
      match oracle_qx None steps 0 with
      | Some c => PropFail c
      | None =>
          match oracle_qy ce batch None steps 0 with
          | Some c => PropFail c
          | None => match corrq ce batch steps empty_chain 0 with Some k => Disagree k | None => Agree end
          end
      end
  end.

(* ---------- the oracle accepts the model's own output, for ALL inputs ---------- *)
(* unmodelled (staking / custom) answers: the model has none *)
Definition model_qstep (ce : case_env) (batch : qacts) (b : blockinfo) (op : topop) (s : chain) : qstep :=
  let e := mk_env ce b in
  let '(tr, o, s') := run_top e op s in
  {| q_step := {| st_blk := b; st_op := op; st_trace := tr; st_outcome := o; st_state := s'; st_other := 0;
                  st_raw_same := match o with Ok _ => false | _ => true end |};
     q_tr1 := app_queries e s' batch; q_tr2 := app_queries e s' batch;
     q_same1 := true; q_same2 := true; q_ext1 := []; q_ext2 := [] |}.

Fixpoint model_qrun (ce : case_env) (batch : qacts) (inputs : list (blockinfo * topop)) (s : chain) : list qstep :=
  match inputs with
  | [] => []
  | (b, op) :: r => let x := model_qstep ce batch b op s in x :: model_qrun ce batch r (st_state (q_step x))
  end.

Lemma beqb_refl a : beqb a a = true. Proof. apply beqb_eq. reflexivity. Qed.
Lemma list_eqb_refl {A} (eqb : A -> A -> bool) : (forall a, eqb a a = true) -> forall l, list_eqb eqb l l = true.
Proof. intros H. induction l as [|x l IH]; cbn; [reflexivity|]. rewrite H, IH. reflexivity. Qed.
Lemma obytes_eqb_refl o : obytes_eqb o o = true.
Proof. destruct o; cbn; [apply beqb_refl|reflexivity]. Qed.
Lemma coins_eqb_refl l : coins_eqb l l = true.
Proof. apply list_eqb_refl. intros [d a]. unfold coin_eqb, teqb. cbn. rewrite beqb_refl, N.eqb_refl. reflexivity. Qed.
Lemma otext_eqb_refl (o : option text) : option_eqb teqb o o = true.
Proof. destruct o; cbn; [apply beqb_refl|reflexivity]. Qed.
Lemma attr_eqb_refl a : attr_eqb a a = true.
Proof. unfold attr_eqb, teqb. rewrite !beqb_refl. reflexivity. Qed.
Lemma event_eqb_refl a : event_eqb a a = true.
Proof. unfold event_eqb, teqb. rewrite beqb_refl. cbn. apply list_eqb_refl, attr_eqb_refl. Qed.
Lemma events_eqb_refl l : events_eqb l l = true.
Proof. apply list_eqb_refl, event_eqb_refl. Qed.
Lemma blk_eqb_refl b : blk_eqb b b = true.
Proof. unfold blk_eqb, teqb. rewrite !N.eqb_refl, beqb_refl. reflexivity. Qed.
Lemma kv_eqb_refl p : kv_eqb p p = true.
Proof. unfold kv_eqb. rewrite !beqb_refl. reflexivity. Qed.
Lemma ep_eqb_refl e : ep_eqb e e = true. Proof. destruct e; reflexivity. Qed.
Lemma rres_eqb_refl r : rres_eqb r r = true.
Proof. destruct r; cbn; [rewrite events_eqb_refl, obytes_eqb_refl|]; reflexivity. Qed.

Lemma obsval_eqb_refl o : obsval_eqb o o = true.
Proof.
  destruct o as [v|l|r|r|r|r|r|r]; cbn [obsval_eqb].
  - apply obytes_eqb_refl.
  - apply list_eqb_refl, kv_eqb_refl.
  - destruct r; cbn; [apply N.eqb_refl|reflexivity].
  - destruct r; cbn; [apply coins_eqb_refl|reflexivity].
  - apply obytes_eqb_refl.
  - destruct r as [[[a b] c]|]; cbn; [|reflexivity]. unfold teqb. rewrite N.eqb_refl, beqb_refl. cbn. apply otext_eqb_refl.
  - destruct r as [[[a b] c]|]; cbn; [|reflexivity]. unfold teqb. rewrite N.eqb_refl, !beqb_refl. reflexivity.
  - apply obytes_eqb_refl.
Qed.

Lemma teqb_refl a : teqb a a = true. Proof. apply beqb_refl. Qed.
Lemma rentry_eqb_refl en : rentry_eqb en en = true.
Proof.
  destruct en as [n e c sd f b t r|n c b t|n o|sd t]; cbn [rentry_eqb].
  - rewrite !N.eqb_refl, ep_eqb_refl, teqb_refl, coins_eqb_refl, blk_eqb_refl, otext_eqb_refl. cbn [andb].
    destruct r as [[[i p] rr]|]; cbn; [|reflexivity].
    unfold rep_eqb. cbn. rewrite N.eqb_refl, beqb_refl, rres_eqb_refl. reflexivity.
  - rewrite !N.eqb_refl, teqb_refl, blk_eqb_refl. reflexivity.
  - rewrite N.eqb_refl, obsval_eqb_refl. reflexivity.
  - rewrite N.eqb_refl, teqb_refl. reflexivity.
Qed.
Lemma trace_eqb_refl tr : trace_eqb tr tr = true.
Proof. apply list_eqb_refl, rentry_eqb_refl. Qed.

Lemma first_query_body e s node : forall acts own q, first_query acts = Some q -> foreign_query q = true ->
  exists rest, body_trace e s node own acts = run_qact e s node [] q ++ rest.
Proof.
  induction acts as [|a r IH]; intros own q; cbn [first_query body_trace]; [discriminate|].
  destruct a as [k v|k|q0]; try apply IH.
  intros H F. injection H as ->. rewrite F. eexists. reflexivity.
Qed.

Lemma exec_ok_trace_nonempty e sender c p funds s tr r : run_msg e sender (MExec c p funds) s = (tr, Ok r) -> tr <> [].
Proof.
  rewrite exec_runs_after_funds. destruct (negb (is_valid e c)); [discriminate|].
  destruct (move_funds s sender c funds) as [s1| |]; try discriminate.
  pose proof (run_prog_head e EExec c (Some sender) funds None 0 true p s1) as H.
  destruct (serving e s1 c EExec).
  - destruct H as [rest H]. destruct (run_prog e EExec c (Some sender) funds None 0 true p s1) as [tr1 r1]. cbn [trc fst] in H.
    subst tr1. intros E. injection E as <- _. discriminate.
  - rewrite H. discriminate.
Qed.

Lemma run_msgs_head_exec e sender c p f ms s en tr' :
  trc (run_msgs e sender (MExec c p f :: ms) s) = en :: tr' ->
  exists tm rest, trc (run_msg e sender (MExec c p f) s) = en :: tm /\ tr' = tm ++ rest.
Proof.
  cbn [run_msgs]. destruct (run_msg e sender (MExec c p f) s) as [tr1 [[r1 s1]| |]] eqn:E1; cbn [trc fst].
  - pose proof (exec_ok_trace_nonempty _ _ _ _ _ _ _ _ E1) as N.
    destruct tr1 as [|en1 tm]; [contradiction|].
    destruct (run_msgs e sender ms s1) as [tr2 [[rss s2]| |]]; cbn [trc fst app]; intros H; injection H as -> <-;
      exists tm, tr2; auto.
  - intros ->. exists tr', []. rewrite app_nil_r. auto.
  - intros ->. exists tr', []. rewrite app_nil_r. auto.
Qed.

Lemma top_trace_is_msgs e op s sender :
  top_sender op = Some sender -> top_trace (run_top e op s) = trc (run_msgs e sender (top_msgs op) s).
Proof.
  destruct op as [sd ms|sd m|c0 p|to amt|sd m|sd m]; cbn [top_sender top_msgs run_top]; intros H; try discriminate;
    injection H as ->.
  - destruct (run_msgs e sender ms s) as [tr [[rs s']| |]]; reflexivity.
  - destruct (run_msgs e sender [m] s) as [tr [[rs s']| |]]; reflexivity.
  - destruct (run_msgs e sender [m] s) as [tr [[rs s']| |]]; try reflexivity.
    destruct (helper_inst_addr (snd (first_resp rs))); reflexivity.
  - destruct (run_msgs e sender [m] s) as [tr [[rs s']| |]]; try reflexivity.
    destruct (helper_exec_data (snd (first_resp rs))); reflexivity.
Qed.

(* the callee of an execute with funds, asking first for its own balance, is told the balance after the transfer *)
Lemma exec_sees_funds e sender c node acts out f fr d s en tm :
  first_query acts = Some (QBalance c d) ->
  trc (run_msg e sender (MExec c (Prog node acts out) (f :: fr)) s) = en :: tm ->
  exists b' rest, bank_send (bank s) sender c (f :: fr) = Ok b' /\
                  tm = RObs node (VAmount (Some (bank_balance b' c d))) :: rest.
Proof.
  intros Q. rewrite exec_runs_after_funds. destruct (is_valid e c) eqn:V; cbn [negb]; [|discriminate].
  destruct (move_funds s sender c (f :: fr)) as [s1| |] eqn:M; try discriminate.
  destruct (move_funds_spec _ _ _ _ _ M) as (_ & _ & B).
  pose proof (run_prog_head e EExec c (Some sender) (f :: fr) None 0 true (Prog node acts out) s1) as Hh.
  destruct (serving e s1 c EExec) as [co|] eqn:S.
  - destruct (call_body_view e EExec c (Some sender) (f :: fr) None 0 true node acts out s1 co S) as [rest H].
    destruct (run_prog e EExec c (Some sender) (f :: fr) None 0 true (Prog node acts out) s1) as [tr r]. cbn [trc fst] in *.
    intros E. rewrite H in E. injection E as _ <-.
    destruct (first_query_body e s1 node acts (cstore_get s1 c) _ Q eq_refl) as [rest2 Hb]. rewrite Hb.
    cbn [run_qact]. rewrite V. exists (bank s1). eexists. split; [exact B|]. cbn [app]. reflexivity.
  - rewrite Hh. discriminate.
Qed.

Lemma funds_seen_model e op s : funds_seen_ok s op (top_trace (run_top e op s)) = true.
Proof.
  unfold funds_seen_ok, root_exec. destruct (top_sender op) as [sender|] eqn:S; [|reflexivity].
  destruct (top_msgs op) as [|m ms] eqn:Ms; [reflexivity|]. destruct m as [| |c p funds| | | | |]; try reflexivity.
  destruct p as [node acts out]. destruct (first_query acts) as [q|] eqn:Q; [|reflexivity].
  destruct q as [|  |a d| | | | | |]; try reflexivity. destruct funds as [|f fr]; [reflexivity|].
  rewrite (top_trace_is_msgs e op s sender S), Ms.
  destruct (trc (run_msgs e sender (MExec c (Prog node acts out) (f :: fr) :: ms) s)) as [|en tr'] eqn:T; [reflexivity|].
  destruct en as [n e' c' sd f0 b t r| | |]; try reflexivity.
  destruct ((n =? node) && teqb c c' && teqb a c) eqn:C; [|reflexivity]. cbn [negb orb].
  apply andb_true_iff in C as [C Ca]. apply beqb_eq in Ca. subst a.
  destruct (run_msgs_head_exec _ _ _ _ _ _ _ _ _ T) as (tm & rest & Em & ->).
  destruct (exec_sees_funds _ _ _ _ _ _ _ _ _ _ _ _ Q Em) as (b' & rest2 & Hb & ->).
  rewrite Hb. cbn [app]. rewrite !N.eqb_refl. reflexivity.
Qed.

Lemma top_not_ok_unchanged e op s :
  non_helper op = true -> is_ok (top_outcome (run_top e op s)) = false -> top_state (run_top e op s) = s.
Proof.
  destruct op as [sender ms|sender m|c p|to amt|sender m|sender m]; cbn [non_helper run_top]; intros Hh; try discriminate.
  - destruct (run_msgs e sender ms s) as [tr [[rs s']| |]]; cbn; intros H; try discriminate; reflexivity.
  - destruct (run_msgs e sender [m] s) as [tr [[rs s']| |]]; cbn; intros H; try discriminate; reflexivity.
  - destruct (run_prog e ESudo c None [] None 0 true p s) as [tr [[rs s']| |]]; cbn; intros H; try discriminate; reflexivity.
  - destruct (negb (is_valid e to)); cbn; [reflexivity|].
    destruct (bank_mint (bank s) to amt); cbn; intros H; try discriminate; reflexivity.
Qed.

Lemma first_fail_all_true l : forallb (fun x : N * bool => snd x) l = true -> first_fail l = None.
Proof.
  unfold first_fail. induction l as [|[c b] l IH]; cbn [forallb filter snd]; [reflexivity|].
  intros H. apply andb_true_iff in H as [-> H]. cbn [negb]. apply IH, H.
Qed.

(* [prev] is the model's own previous step, ending in state [s] *)
Definition prev_matches (ce : case_env) (batch : qacts) (s : chain) (prev : option qstep) : Prop :=
  match prev with
  | None => s = empty_chain
  | Some p => st_state (q_step p) = s /\ q_ext1 p = [] /\
              q_tr1 p = app_queries (mk_env ce (st_blk (q_step p))) s batch
  end.

Lemma blk_eqb_eq a b : blk_eqb a b = true -> a = b.
Proof.
  unfold blk_eqb, teqb. intros H. apply andb_true_iff in H as [H H3]. apply andb_true_iff in H as [H1 H2].
  apply N.eqb_eq in H1, H2. apply beqb_eq in H3. destruct a, b. cbn in *. subst. reflexivity.
Qed.

Lemma p_c10_model ce batch b op s prev : prev_matches ce batch s prev ->
  p_c10 prev (model_qstep ce batch b op s) = None /\
  prev_matches ce batch (st_state (q_step (model_qstep ce batch b op s))) (Some (model_qstep ce batch b op s)).
Proof.
  intros P. unfold model_qstep.
  pose proof (funds_seen_model (mk_env ce b) op s) as Fs.
  pose proof (top_not_ok_unchanged (mk_env ce b) op s) as Un.
  destruct (run_top (mk_env ce b) op s) as [[tr o] s'] eqn:E. cbn [top_trace top_state top_outcome fst snd] in Fs, Un.
  split; [|cbn; auto].
  unfold p_c10. apply first_fail_all_true.
  cbn [q_step q_tr1 q_tr2 q_same1 q_same2 q_ext1 q_ext2 st_state st_op st_trace st_outcome st_blk forallb snd andb].
  rewrite trace_eqb_refl. cbn [andb list_eqb].
  assert (Hb : before_of prev = s).
  { destruct prev as [p|]; cbn in *; [apply P|symmetry; exact P]. }
  rewrite Hb, Fs. cbn [andb].
  destruct o as [rs| |]; [reflexivity| |]; (destruct prev as [p|]; [|reflexivity]);
    destruct P as (P1 & P2 & P3); (destruct (non_helper op) eqn:Nh; [|reflexivity]);
    (destruct (blk_eqb (st_blk (q_step p)) b) eqn:Bq; [|reflexivity]); cbn [negb orb];
    apply blk_eqb_eq in Bq; rewrite (Un eq_refl eq_refl), P2, P3, Bq, trace_eqb_refl; reflexivity.
Qed.

(* the whole run of the model passes the oracle *)
Lemma oracle_q_model ce batch : forall inputs s prev k, prev_matches ce batch s prev ->
  oracle_q prev (model_qrun ce batch inputs s) k = None.
Proof.
  induction inputs as [|[b op] r IH]; intros s prev k P; cbn [model_qrun oracle_q]; [reflexivity|].
  destruct (p_c10_model ce batch b op s prev P) as [H1 H2]. rewrite H1. apply IH. exact H2.
Qed.

Lemma c10_agree_sound ce batch steps : c10 ce batch steps = Agree ->
  oracle_q None steps 0 = None /\ corrq ce batch steps empty_chain 0 = None.
Proof.
  unfold c10. destruct (oracle_q None steps 0); [discriminate|]. destruct (oracle_qx None steps 0); [discriminate|].
  destruct (oracle_qy ce batch None steps 0); [discriminate|].
  destruct (corrq ce batch steps empty_chain 0); [discriminate|]. auto.
Qed.

Lemma c10_agree_sound_x ce batch steps : c10 ce batch steps = Agree -> oracle_qx None steps 0 = None.
Proof.
  unfold c10. destruct (oracle_q None steps 0); [discriminate|]. destruct (oracle_qx None steps 0); [discriminate|]. reflexivity.
Qed.

Lemma c10_agree_sound_y ce batch steps : c10 ce batch steps = Agree -> oracle_qy ce batch None steps 0 = None.
Proof.
  unfold c10. destruct (oracle_q None steps 0); [discriminate|]. destruct (oracle_qx None steps 0); [discriminate|].
  destruct (oracle_qy ce batch None steps 0); [discriminate|]. reflexivity.
Qed.

(* ---------- the further clauses on the model ---------- *)
(* read-your-writes follows from run_actions: for EVERY script, own store and knowledge consistent with it,
   the body-level checker accepts the model's log of that body (whatever follows it) *)
Definition known_ok (known : kmap) (own : omapb) : Prop := forall k x, kget k known = Some x -> assoc bcmp k own = x.

Lemma known_ok_update k x known own own' :
  known_ok known own -> assoc bcmp k own' = x -> (forall k', bcmp k' k <> Eq -> assoc bcmp k' own' = assoc bcmp k' own) ->
  known_ok ((k, x) :: known) own'.
Proof.
  intros H Hk Ho k' y. unfold kget. cbn [find fst snd]. destruct (beqb k k') eqn:B.
  - apply beqb_eq in B. subst k'. intros E. injection E as <-. exact Hk.
  - intros E. rewrite Ho; [apply H; exact E|]. intros C. apply bcmp_eq in C. subst k'.
    rewrite beqb_refl in B. discriminate.
Qed.

Lemma ryw_model e s node : forall acts known own rest, sorted bcmp own -> known_ok known own ->
  ryw node known acts (fst (run_actions e s node own acts) ++ rest) = true.
Proof.
  induction acts as [|a r IH]; intros known own rest Hs Hk; cbn [ryw run_actions]; [reflexivity|].
  destruct a as [k v|k|q].
  - apply IH; [apply b_insert_sorted; exact Hs|]. apply (known_ok_update k (Some v) known own); [exact Hk| |].
    + rewrite B_assoc_insert by exact Hs. rewrite (proj2 (bcmp_eq k k) eq_refl). reflexivity.
    + intros k' N. rewrite B_assoc_insert by exact Hs. destruct (bcmp k' k); [contradiction|reflexivity|reflexivity].
  - apply IH; [apply B_delete_sorted; exact Hs|]. apply (known_ok_update k None known own); [exact Hk| |].
    + rewrite B_assoc_delete by exact Hs. rewrite (proj2 (bcmp_eq k k) eq_refl). reflexivity.
    + intros k' N. rewrite B_assoc_delete by exact Hs. destruct (bcmp k' k); [contradiction|reflexivity|reflexivity].
  - specialize (IH known own rest Hs Hk). destruct (run_actions e s node own r) as [tr' own']. cbn [fst] in *.
    destruct q; cbn [run_qact app ryw]; try exact IH; try reflexivity.
    rewrite N.eqb_refl, IH. cbn [andb]. destruct (kget k known) as [x|] eqn:G; [|reflexivity].
    rewrite (Hk k x G). rewrite obytes_eqb_refl. reflexivity.
Qed.
