(* Chk14.v — C14 / C15 / C16: the histories and observations shared with harness/staking_common, the
   run of the Staking.v model, the PROPERTY ORACLE evaluated on the implementation's own answers, and
   the per-case checks c14 / c15 / c16 : first the oracle (PropFail k / KnownFail c k), then the
   correspondence with the model (Disagree k).
   k = 0 is the initial observation, k = i + 1 the observation after op i. *)
From Verif Require Import Base OMap Bank Dec Staking.
Local Open Scope N_scope.

(* ---------- scenario, operations, observations (printed by staking_common::emit) ---------- *)

Record setup := mkSetup {
  su_unbond : N;                 (* StakingInfo::unbonding_time, seconds *)
  su_apr : N;                    (* StakingInfo::apr, Decimal atomics *)
  su_vals : list (N * N);        (* validators (id, commission atomics), in add_validator order *)
  su_accts : list (N * N);       (* accounts (id, initial TOKEN balance) *)
  su_dels : list N;              (* the accounts observed as delegators *)
  su_t0 : N;                     (* initial block time, ns *)
  su_denom : text;               (* StakingInfo::bonded_denom as configured (the model calls it Staking.TOKEN) *)
  su_xdenoms : list text         (* the other denominations whose supply is observed: the default "TOKEN" unless bonded, "OTHER" *)
}.

Inductive op :=
| Delegate (d v a : N) (bonded : bool)
| Undelegate (d v a : N) (bonded : bool)
| Redelegate (d src dst a : N) (bonded : bool)
| Withdraw (d v : N)
| SetWithdraw (d : N) (w : option N)
| Slash (v p : N)
| Advance (dt : N).

Inductive oc := OOk | OErr | OPanic | OBlockErr.

Record snap := mkSnap {
  sn_del : list (option (N * N));     (* StakingQuery::Delegation per (delegator, validator), delegator-major: (amount, accumulated rewards) *)
  sn_all : list (list (N * N));       (* StakingQuery::AllDelegations per delegator: (validator, amount) *)
  sn_rew : list (option N);           (* StakeKeeper::get_rewards per pair *)
  sn_bal : list N;                    (* balance in the bonded denom per account *)
  sn_pool : N;                        (* bonded-denom balance of "staking_module" *)
  sn_sup : N;                         (* BankQuery::Supply of the bonded denom *)
  sn_xall : list coins;               (* BankQuery::AllBalances per account without the bonded denom *)
  sn_xsup : list N                    (* BankQuery::Supply per other watched denomination (su_xdenoms) *)
}.

(* the usual scenario denominations: bonded "ustake"; watched others: the default "TOKEN" and the foreign "OTHER" *)
Definition USTAKE : text := [117; 115; 116; 97; 107; 101].
Definition XDEN : list text := [[84; 79; 75; 69; 78]; OTHER].

Definition params_of (su : setup) : params := mkParams (su_unbond su) (su_apr su) (su_vals su).
Definition pairs (su : setup) : list (N * N) :=
  flat_map (fun d => map (fun vc : N * N => (d, fst vc)) (su_vals su)) (su_dels su).
Definition acct_ids (su : setup) : list N := map fst (su_accts su).

(* ---------- the model's run ---------- *)

Record world := mkW { w_now : N; w_st : sstate }.

Fixpoint smap {A B} (f : A -> sres B) (l : list A) : sres (list B) :=
  match l with
  | [] => SOk []
  | x :: r => y <- f x ;; r' <- smap f r ;; SOk (y :: r')
  end.

Definition model_snap (su : setup) (w : world) : sres snap :=
  let P := params_of su in let s := w_st w in let now := w_now w in
  del <- smap (fun k : N * N => q_delegation P now s (fst k) (snd k)) (pairs su) ;;
  rew <- smap (fun k : N * N => q_rewards P now s (fst k) (snd k)) (pairs su) ;;
  SOk (mkSnap del (map (q_all_delegations P s) (su_dels su)) rew
              (map (q_balance s) (acct_ids su)) (q_pool s) (q_supply s)
              (map (fun a => other_coins (s_bank s) (acct a)) (acct_ids su))
              (map (other_supply (s_bank s)) (su_xdenoms su))).

(* App::execute / App::sudo run in a transaction: a failed call keeps nothing.
   App::update_block: the closure of the harness (`b.time = b.time.plus_nanos(dt)`), then process_queue *)
Definition step (su : setup) (w : world) (o : op) : sres world :=
  let P := params_of su in let s := w_st w in let now := w_now w in
  match o with
  | Delegate d v a b => s' <- exec_delegate P now s d v a b ;; SOk (mkW now s')
  | Undelegate d v a b => s' <- exec_undelegate P now s d v a b ;; SOk (mkW now s')
  | Redelegate d v1 v2 a b => s' <- exec_redelegate P now s d v1 v2 a b ;; SOk (mkW now s')
  | Withdraw d v => s' <- exec_withdraw P now s d v ;; SOk (mkW now s')
  | SetWithdraw d w' => s' <- exec_set_withdraw s d w' ;; SOk (mkW now s')
  | Slash v p => s' <- exec_slash P now s v p ;; SOk (mkW now s')
  | Advance dt =>
      if U64 <=? now + dt then SOvf else
      s' <- process_queue (now + dt) s ;; SOk (mkW (now + dt) s')
  end.

Definition is_advance (o : op) : bool := match o with Advance _ => true | _ => false end.

(* the observations the harness would record for the model: (outcome, snapshot) per executed op; the
   run stops at the first panic / failed block update (harness: run_ops), repeating the last snapshot *)
Fixpoint model_run (su : setup) (w : world) (last : snap) (ops : list op) : list (oc * snap * world) :=
  match ops with
  | [] => []
  | o :: r =>
      match step su w o with
      | SOk w' =>
          match model_snap su w' with
          | SOk sn => (OOk, sn, w') :: model_run su w' sn r
          | _ => [(OPanic, last, w)]
          end
      | SErr => if is_advance o then [(OBlockErr, last, w)] else (OErr, last, w) :: model_run su w last r
      | _ => [(OPanic, last, w)]
      end
  end.

Definition init_world (su : setup) : sres world :=
  s <- init_state (su_t0 su) (su_vals su) (su_accts su) ;; SOk (mkW (su_t0 su) s).

(* ---------- equality of observations ---------- *)

Definition pN_eqb (a b : N * N) : bool := (fst a =? fst b) && (snd a =? snd b).
Definition coin_eqb (x y : coin) : bool := beqb (fst x) (fst y) && (snd x =? snd y).
Definition snap_eqb (a b : snap) : bool :=
  list_eqb (option_eqb pN_eqb) (sn_del a) (sn_del b) &&
  list_eqb (list_eqb pN_eqb) (sn_all a) (sn_all b) &&
  list_eqb (option_eqb N.eqb) (sn_rew a) (sn_rew b) &&
  list_eqb N.eqb (sn_bal a) (sn_bal b) &&
  (sn_pool a =? sn_pool b) && (sn_sup a =? sn_sup b) &&
  list_eqb (list_eqb coin_eqb) (sn_xall a) (sn_xall b) && list_eqb N.eqb (sn_xsup a) (sn_xsup b).
Definition oc_eqb (a b : oc) : bool :=
  match a, b with OOk, OOk | OErr, OErr | OPanic, OPanic | OBlockErr, OBlockErr => true | _, _ => false end.
Definition ob_eqb (a b : oc * snap) : bool := oc_eqb (fst a) (fst b) && snap_eqb (snd a) (snd b).

(* ---------- reading a snapshot ---------- *)

Fixpoint zlook {K A} (eqb : K -> K -> bool) (ks : list K) (vs : list A) (k : K) : option A :=
  match ks, vs with
  | k' :: ks', x :: vs' => if eqb k k' then Some x else zlook eqb ks' vs' k
  | _, _ => None
  end.

Definition sn_amt (su : setup) (sn : snap) (d v : N) : N :=
  match zlook peqb (pairs su) (sn_del sn) (d, v) with Some (Some (a, _)) => a | _ => 0 end.
Definition sn_shown (su : setup) (sn : snap) (d v : N) : N :=
  match zlook peqb (pairs su) (sn_del sn) (d, v) with Some (Some (_, r)) => r | _ => 0 end.
Definition sn_rw (su : setup) (sn : snap) (d v : N) : option N :=
  match zlook peqb (pairs su) (sn_rew sn) (d, v) with Some x => x | None => None end.
Definition sn_balance (su : setup) (sn : snap) (a : N) : N :=
  match zlook N.eqb (acct_ids su) (sn_bal sn) a with Some x => x | None => 0 end.
Definition rw0 (x : option N) : N := match x with Some r => r | None => 0 end.

Definition known_val (su : setup) (v : N) : bool :=
  match fget N.eqb v (su_vals su) with Some _ => true | None => false end.
Definition comm_of (su : setup) (v : N) : N :=
  match fget N.eqb v (su_vals su) with Some c => c | None => 0 end.

Definition all_pairs (su : setup) (f : N -> N -> bool) : bool := forallb (fun k : N * N => f (fst k) (snd k)) (pairs su).
Definition all_accts (su : setup) (f : N -> bool) : bool := forallb f (acct_ids su).

Definition shape_ok (su : setup) (sn : snap) : bool :=
  (N.of_nat (length (sn_del sn)) =? N.of_nat (length (pairs su))) &&
  (N.of_nat (length (sn_rew sn)) =? N.of_nat (length (pairs su))) &&
  (N.of_nat (length (sn_all sn)) =? N.of_nat (length (su_dels su))) &&
  (N.of_nat (length (sn_bal sn)) =? N.of_nat (length (su_accts su))).

(* ---------- the oracle ---------- *)

(* per-pair reward ledger (C15), all in the unit  token * atomics^2 * seconds:
   ideal reward in tokens = numerator / (YEAR * 10^36) *)
Record led := mkLed {
  l_hi : N;      (* sum over the whole history of  stake_hi * apr * (1 - commission) * seconds *)
  l_kap : N;     (* sum over the reward updates so far of stake_hi: the commission is rounded once per update *)
  l_paid : N;    (* tokens withdrawn over the whole history *)
  l_lo : N;      (* the same sum with the displayed stake, over the current period of positive delegation *)
  l_kapl : N;    (* floors per update in the current period (atomic units) *)
  l_paidp : N;   (* tokens withdrawn in the current period *)
  l_wp : N       (* withdrawals made in the current period *)
}.
Definition led0 : led := mkLed 0 0 0 0 0 0 0.

Record ost := mkO {
  o_now : N;                     (* block time *)
  o_q : list unb;                (* the pending unbondings the property prescribes *)
  o_w : list (N * N);            (* withdraw addresses set so far *)
  o_frac : list N;               (* validators whose shares may have a sub-token part (after a slash with a non-whole result) *)
  o_led : list ((N * N) * led)
}.

Definition ost0 (su : setup) : ost := mkO (su_t0 su) [] [] [] [].
Definition get_led (os : ost) (d v : N) : led := match fget peqb (d, v) (o_led os) with Some l => l | None => led0 end.
Definition o_waddr (os : ost) (d : N) : N := match fget N.eqb d (o_w os) with Some w => w | None => d end.

(* a failed clause: (clause id, delegator, validator) — the pair is (0,0) when the clause is not about a pair *)
Definition fail := (N * N * N)%type.

Definition chk (c : N) (b : bool) : list fail := if b then [] else [(c, 0, 0)].
Definition chk_pairs (su : setup) (c : N) (f : N -> N -> bool) : list fail :=
  flat_map (fun k : N * N => if f (fst k) (snd k) then [] else [(c, fst k, snd k)]) (pairs su).

Section Clauses.
  Variable su : setup.
  Variables B A : snap.

  Definition amtB := sn_amt su B. Definition amtA := sn_amt su A.
  Definition balB := sn_balance su B. Definition balA := sn_balance su A.

  Definition amts_same_except (ex : N -> N -> bool) : bool :=
    all_pairs su (fun d v => ex d v || (amtA d v =? amtB d v)).
  Definition amts_same : bool := amts_same_except (fun _ _ => false).
  Definition bals_same_except (ex : N -> bool) : bool := all_accts su (fun a => ex a || (balA a =? balB a)).
  Definition bals_same : bool := bals_same_except (fun _ => false).
  Definition bank_same : bool := bals_same && (sn_pool A =? sn_pool B) && (sn_sup A =? sn_sup B).
  Definition is_pair (d v d' v' : N) : bool := (d' =? d) && (v' =? v).

  (* C14 clause 5: delegating moves exactly the amount from the delegator to the pool and raises that delegation by it *)
  Definition delegate_exact_ok (d v a : N) (bonded : bool) : bool :=
    (0 <? a) && bonded && known_val su v && (a <=? balB d) &&
    (amtA d v =? amtB d v + a) && amts_same_except (is_pair d v) &&
    (balA d + a =? balB d) && bals_same_except (N.eqb d) &&
    (sn_pool A =? sn_pool B + a) && (sn_sup A =? sn_sup B).

  (* clause 6: the undelegated amount leaves the delegation at once; nothing is paid yet *)
  Definition undelegate_exact_ok (d v a : N) (bonded : bool) : bool :=
    (0 <? a) && bonded && known_val su v && (a <=? amtB d v) &&
    (amtA d v + a =? amtB d v) && amts_same_except (is_pair d v) && bank_same.

  (* clause 7 *)
  Definition redelegate_exact_ok (d v1 v2 a : N) (bonded : bool) : bool :=
    bonded && known_val su v1 && known_val su v2 && (a <=? amtB d v1) &&
    (if v1 =? v2 then amts_same
     else (amtA d v1 + a =? amtB d v1) && (amtA d v2 =? amtB d v2 + a) &&
          amts_same_except (fun d' v' => is_pair d v1 d' v' || is_pair d v2 d' v')) &&
    bank_same.

  (* clause 3: what must fail *)
  Definition must_fail (o : op) : bool :=
    match o with
    | Delegate d v a b => (a =? 0) || negb b || negb (known_val su v) || (balB d <? a)
    | Undelegate d v a b => (a =? 0) || negb b || negb (known_val su v) || (amtB d v <? a)
    | Redelegate d v1 v2 a b => negb b || negb (known_val su v1) || negb (known_val su v2) || (amtB d v1 <? a)
    | _ => false
    end.
  (* clause 4: a delegation within the balance, of a positive bonded amount to a known validator, is valid
     (below the 128-bit bound: `validator_info.stake.checked_add(amount)?` returns an error there) *)
  Definition must_succeed (o : op) : bool :=
    match o with
    | Delegate d v a b => (0 <? a) && b && known_val su v && (a <=? balB d) && (sn_pool B + a <? U128)
    | _ => false
    end.
End Clauses.

(* clause 8: every matured entry is paid by this block update — in full, reduced only by the floors of
   the slashes of its validator since — from the pool to the delegator; nothing else moves *)
Definition payout_ok (su : setup) (B A : snap) (os : ost) (now' : N) : bool :=
  let dq := due now' (o_q os) in
  all_accts su (fun a => sn_balance su A a =? sn_balance su B a + sum_for a dq) &&
  (sn_pool A + sum_all dq =? sn_pool B) && (sn_sup A =? sn_sup B) && amts_same su B A.

(* clause 10: the queries agree with each other *)
Definition all_row (su : setup) (sn : snap) (d : N) : list (N * N) :=
  flat_map (fun vc : N * N => if 0 <? sn_amt su sn d (fst vc) then [(fst vc, sn_amt su sn d (fst vc))] else []) (su_vals su).
Definition pos_row (row : list (N * N)) : list (N * N) := filter (fun x : N * N => 0 <? snd x) row.
Fixpoint rows_ok (su : setup) (sn : snap) (ds : list N) (rows : list (list (N * N))) : bool :=
  match ds, rows with
  | [], [] => true
  | d :: ds', row :: rows' => list_eqb pN_eqb (pos_row row) (all_row su sn d) && rows_ok su sn ds' rows'
  | _, _ => false
  end.
Definition queries_consistent (su : setup) (sn : snap) : bool :=
  shape_ok su sn && rows_ok su sn (su_dels su) (sn_all sn) &&
  all_pairs su (fun d v => match zlook peqb (pairs su) (sn_del sn) (d, v) with
                           | Some (Some (_, r)) => option_eqb N.eqb (sn_rw su sn d v) (Some r)
                           | _ => true
                           end).

(* ----- C16: one successful slash of validator v by fraction p ----- *)
Section SlashClauses.
  Variable su : setup.
  Variables B A : snap.
  Variable os : ost.
  Variables v p : N.
  Let rem := D18 - p.
  Definition of_v (v' : N) : bool := v' =? v.

  (* 21 *) Definition slash_never_increases : list fail :=
    chk_pairs su 21 (fun d v' => sn_amt su A d v' <=? sn_amt su B d v').
  (* 22 *) Definition slash_frame : list fail :=
    chk_pairs su 22 (fun d v' => of_v v' ||
       ((sn_amt su A d v' =? sn_amt su B d v') && (sn_shown su A d v' =? sn_shown su B d v') &&
        option_eqb N.eqb (sn_rw su A d v') (sn_rw su B d v'))) ++
    chk 22 (bank_same su B A).
  (* 23: at least the scaled value rounded down to whole tokens *)
  Definition slash_lower : list fail :=
    chk_pairs su 23 (fun d v' => negb (of_v v') || (sn_amt su B d v' * rem / D18 <=? sn_amt su A d v')).
  (* 24: at most the scaled value; exactly floor((1-p) * value) while the validator's shares are whole *)
  Definition slash_upper : list fail :=
    chk_pairs su 24 (fun d v' => negb (of_v v') ||
       (if mem v (o_frac os) then sn_amt su A d v' <=? (sn_amt su B d v' + 1) * rem / D18
        else sn_amt su A d v' =? sn_amt su B d v' * rem / D18)).
  (* 25: already accrued rewards unchanged *)
  Definition slash_rewards_kept : list fail :=
    chk_pairs su 25 (fun d v' => negb (of_v v') ||
       match sn_rw su B d v' with
       | Some r => (r =? 0) || option_eqb N.eqb (sn_rw su A d v') (Some r)
       | None => true
       end).
  (* 26: p = 1 removes the delegations entirely *)
  Definition slash_total_removes : list fail :=
    chk_pairs su 26 (fun d v' => negb (of_v v') || negb (p =? D18) || (sn_amt su A d v' =? 0)).

  Definition slash_clauses : list fail :=
    slash_never_increases ++ slash_frame ++ slash_lower ++ slash_upper ++ slash_rewards_kept ++ slash_total_removes.

  (* the validator's shares stay whole iff every scaled value is whole *)
  Definition stays_whole : bool :=
    all_pairs su (fun d v' => negb (of_v v') || (sn_amt su B d v' * rem mod D18 =? 0)).
End SlashClauses.

(* ----- C15: the reward ledger ----- *)
Definition stake_hi (su : setup) (os : ost) (sn : snap) (d v : N) : N :=
  sn_amt su sn d v + (if mem v (o_frac os) then 1 else 0).
Definition rate (su : setup) (v : N) : N := su_apr su * (D18 - N.min (comm_of su v) D18).
Definition TOK36 : N := YEAR * D18 * D18.     (* one token in ledger units *)
Definition ATOM : N := YEAR * D18.            (* one atomic unit (10^-18 token) in ledger units *)

(* ledger of pair (d,v) after an op: B/A = snapshots before/after, secs = whole seconds credited by the op,
   paid = tokens withdrawn by the op for this pair, ended = the delegation ended (or was re-created) in the op *)
Definition led_step (su : setup) (os : ost) (B A : snap) (secs : N) (d v : N) (paid : N) (ended : bool) (l : led) : led :=
  let hiB := stake_hi su os B d v in
  let hi' := l_hi l + hiB * rate su v * secs in
  let kap' := l_kap l + hiB in
  let paid' := l_paid l + paid in
  if ended || (sn_amt su A d v =? 0) then mkLed hi' kap' paid' 0 0 0 0
  else mkLed hi' kap' paid' (l_lo l + sn_amt su B d v * rate su v * secs) (l_kapl l + hiB + 2)
             (l_paidp l + paid) (l_wp l + (if 0 <? paid then 1 else 0)).

Definition leds_step (su : setup) (os : ost) (B A : snap) (secs : N) (paid : N -> N -> N) (ended : N -> N -> bool)
  : list ((N * N) * led) :=
  map (fun k : N * N => (k, led_step su os B A secs (fst k) (snd k) (paid (fst k) (snd k)) (ended (fst k) (snd k))
                                      (get_led os (fst k) (snd k)))) (pairs su).

(* 34: withdrawn + pending never exceed the ideal (exact form) *)
Definition upper_exact_ok (su : setup) (os : ost) (A : snap) (d v : N) : bool :=
  let l := get_led os d v in
  (l_paid l + rw0 (sn_rw su A d v)) * TOK36 <=? l_hi l.
(* the relaxed form: up to one atomic unit of the validator's reward per reward update (commission rounded down) *)
Definition upper_relaxed_ok (su : setup) (os : ost) (A : snap) (d v : N) : bool :=
  let l := get_led os d v in
  (l_paid l + rw0 (sn_rw su A d v)) * TOK36 <=? l_hi l + (l_kap l + stake_hi su os A d v) * ATOM.
(* 35: ... and fall short of it by less than one token per withdrawal made plus one (up to the floors
   of the fixed-point arithmetic: a few atomic units per reward update) *)
Definition lower_ok (su : setup) (os : ost) (A : snap) (d v : N) : bool :=
  let l := get_led os d v in
  (sn_amt su A d v =? 0) ||
  (l_lo l <? (l_paidp l + rw0 (sn_rw su A d v) + l_wp l + 1) * TOK36 + (l_kapl l + stake_hi su os A d v + 2) * ATOM).

Definition reward_bounds (su : setup) (os : ost) (A : snap) : list fail :=
  chk_pairs su 34 (upper_exact_ok su os A) ++ chk_pairs su 35 (lower_ok su os A).

(* nothing in any OTHER denomination: per account, every denomination named by either AllBalances answer holds the
   same amount before and after; the supply of every other watched denomination is unchanged *)
Fixpoint xall_same (xb xa : list coins) : bool :=
  match xb, xa with
  | [], [] => true
  | b :: xb', a :: xa' =>
      forallb (fun d => amount_of d a =? amount_of d b) (map fst a ++ map fst b) && xall_same xb' xa'
  | _, _ => false
  end.
Definition others_same (B A : snap) : bool :=
  xall_same (sn_xall B) (sn_xall A) && list_eqb N.eqb (sn_xsup A) (sn_xsup B).

(* 30-33: a successful withdrawal of (d, v) *)
Definition withdraw_clauses (su : setup) (os : ost) (B A : snap) (d v : N) : list fail :=
  let w := o_waddr os d in
  let r := rw0 (sn_rw su B d v) in
  chk 30 ((0 <? r) && (sn_balance su A w =? sn_balance su B w + r)) ++
  chk 31 (option_eqb N.eqb (sn_rw su A d v) (Some 0) && (sn_shown su A d v =? 0)) ++
  chk 32 ((sn_sup A =? sn_sup B + r) && (sn_pool A =? sn_pool B) && bals_same_except su B A (N.eqb w) && amts_same su B A &&
          others_same B A) ++
  chk_pairs su 33 (fun d' v' => is_pair d v d' v' ||
                                (option_eqb N.eqb (sn_rw su A d' v') (sn_rw su B d' v') &&
                                 (sn_shown su A d' v' =? sn_shown su B d' v'))).

(* ----- one observation ----- *)

Definition secs_between (t t' : N) : N := t' / NS - t / NS.

Definition no_paid (d v : N) : N := 0.
Definition no_end (d v : N) : bool := false.

(* returns the failed clauses of this observation and the oracle state after it.
   Clause ids: 1 no panic / block update never fails; 2 a failed op changes nothing; 3 invalid op must fail;
   4 valid delegation succeeds; 5 delegate exact; 6 undelegate at once; 7 redelegate exact; 8 payout exact
   and timely; 9 withdraw / set-withdraw-address / slash move no staked token; 10 queries agree;
   20 invalid slash rejected; 21-26 see SlashClauses; 28 valid slash succeeds; 30-35 see above *)
Definition ostep (su : setup) (os : ost) (B : snap) (o : op) (r : oc) (A : snap) : list fail * ost :=
  match r with
  | OPanic | OBlockErr => ([(1, 0, 0)], os)
  | OErr =>
      (chk 2 (snap_eqb A B) ++ chk 4 (negb (must_succeed su B o)) ++
       chk 1 (negb (is_advance o)) ++
       (match o with Slash v p => chk 28 ((D18 <? p) || negb (known_val su v)) | _ => [] end), os)
  | OOk =>
      let same_time_leds paid ended := leds_step su os B A 0 paid ended in
      let common := chk 3 (negb (must_fail su B o)) ++ chk 10 (queries_consistent su A) in
      match o with
      | Delegate d v a b =>
          let os' := mkO (o_now os) (o_q os) (o_w os) (o_frac os) (same_time_leds no_paid no_end) in
          (common ++ chk 5 (delegate_exact_ok su B A d v a b) ++ reward_bounds su os' A, os')
      | Undelegate d v a b =>
          let os' := mkO (o_now os) (o_q os ++ [mkUnb d v a (o_now os + su_unbond su * NS)]) (o_w os) (o_frac os)
                         (same_time_leds no_paid no_end) in
          (common ++ chk 6 (undelegate_exact_ok su B A d v a b) ++ reward_bounds su os' A, os')
      | Redelegate d v1 v2 a b =>
          (* moving the whole delegation away (also onto itself) ends it: accrued rewards go with the entry *)
          let ended d' v' := is_pair d v1 d' v' && (sn_amt su B d v1 <=? a) in
          let os' := mkO (o_now os) (o_q os) (o_w os) (o_frac os) (same_time_leds no_paid ended) in
          (common ++ chk 7 (redelegate_exact_ok su B A d v1 v2 a b) ++ reward_bounds su os' A, os')
      | Withdraw d v =>
          let w := o_waddr os d in
          let paid d' v' := if is_pair d v d' v' then rw0 (sn_rw su B d v) else 0 in
          let os' := mkO (o_now os) (o_q os) (o_w os) (o_frac os) (same_time_leds paid no_end) in
          (common ++
           chk 9 (amts_same su B A && (sn_pool A =? sn_pool B) && bals_same_except su B A (N.eqb w) &&
                  (sn_sup B <=? sn_sup A) && (sn_balance su A w =? sn_balance su B w + (sn_sup A - sn_sup B))) ++
           withdraw_clauses su os B A d v ++ reward_bounds su os' A, os')
      | SetWithdraw d w =>
          let ow := match w with
                    | Some w' => if d =? w' then fdel N.eqb d (o_w os) else fset N.eqb d w' (o_w os)
                    | None => o_w os
                    end in
          let os' := mkO (o_now os) (o_q os) ow (o_frac os) (same_time_leds no_paid no_end) in
          (common ++ chk 9 (amts_same su B A && bank_same su B A) ++ reward_bounds su os' A, os')
      | Slash v p =>
          let rem := D18 - p in
          let fr := if stays_whole su B v p then o_frac os else if mem v (o_frac os) then o_frac os else v :: o_frac os in
          let os' := mkO (o_now os) (scale_q v rem (o_q os)) (o_w os) fr (same_time_leds no_paid no_end) in
          (common ++ chk 20 ((p <=? D18) && known_val su v) ++
           chk 9 (bank_same su B A && amts_same_except su B A (fun _ v' => v' =? v)) ++
           slash_clauses su B A os v p ++ reward_bounds su os' A, os')
      | Advance dt =>
          let now' := o_now os + dt in
          let os' := mkO now' (not_due now' (o_q os)) (o_w os) (o_frac os)
                         (leds_step su os B A (secs_between (o_now os) now') no_paid no_end) in
          (chk 10 (queries_consistent su A) ++ chk 8 (payout_ok su B A os now') ++ reward_bounds su os' A, os')
      end
  end.

Fixpoint oracle_from (su : setup) (os : ost) (B : snap) (ops : list op) (obs : list (oc * snap)) (k : N)
  : list (N * fail) :=
  match ops, obs with
  | o :: ops', (r, A) :: obs' =>
      let '(fs, os') := ostep su os B o r A in
      map (fun f => (k, f)) fs ++ oracle_from su os' A ops' obs' (N.succ k)
  | [], [] => []
  | _, _ => [(k, (0, 0, 0))]                  (* malformed case: lengths differ *)
  end.

(* genesis: nothing delegated, nothing pending, balances as configured, supply = their sum *)
Definition genesis_ok (su : setup) (s0 : snap) : bool :=
  queries_consistent su s0 &&
  all_pairs su (fun d v => (sn_amt su s0 d v =? 0) && option_eqb N.eqb (sn_rw su s0 d v) None) &&
  list_eqb N.eqb (sn_bal s0) (map snd (su_accts su)) && (sn_pool s0 =? 0) &&
  (sn_sup s0 =? fold_right N.add 0 (map snd (su_accts su))).

Definition oracle (su : setup) (ops : list op) (s0 : snap) (obs : list (oc * snap)) : list (N * fail) :=
  (if genesis_ok su s0 then [] else [(0, (0, 0, 0))]) ++ oracle_from su (ost0 su) s0 ops obs 1.

(* ---------- known-finding classes, evaluated on the model's state at the failing observation ---------- *)

Definition nth_world (l : list (oc * snap * world)) (w0 : world) (k : N) : world :=
  (* the model's world BEFORE op k-1 (k >= 1) *)
  match k with
  | 0 | 1 => w0
  | _ => match nth_error l (N.to_nat (k - 2)) with Some (_, _, w) => w | None => w0 end
  end.

Definition op_at (ops : list op) (k : N) : option op :=
  match k with 0 => None | _ => nth_error ops (N.to_nat (k - 1)) end.

(* the slash floors the validator's total to zero (staking.rs:493-501): every STAKES entry of the validator is deleted *)
Definition slash_floors_total_to_zero (su : setup) (w : world) (o : option op) : bool :=
  match o with
  | Some (Slash v p) =>
      match update_rewards (params_of su) (w_now w) (w_st w) v with
      | SOk s1 => match get_vi v s1 with
                  | Some vi => (p <=? D18) && (vi_stake vi * (D18 - p) / D18 =? 0)
                  | None => false
                  end
      | _ => false
      end
  | _ => false
  end.

(* the validator's total is zero while the pair holds a positive share: share_of_rewards returns 0 (staking.rs:55-57) *)
Definition zero_total_with_share (w : world) (d v : N) : bool :=
  match get_vi v (w_st w), get_stake d v (w_st w) with
  | Some vi, Some sh => (vi_stake vi =? 0) && (0 <? sh_stake sh)
  | _, _ => false
  end.
Definition starved (ws : list world) (d v : N) : bool := existsb (fun w => zero_total_with_share w d v) ws.

(* class ids = the F-numbers of DESIGN.md section 6 *)
Definition CommissionRounding : N := 7.
Definition TotalSlashWithRewards : N := 8.
Definition DriftWipe : N := 9.
Definition DriftZeroTotal : N := 10.

(* ---------- the checks ---------- *)

Definition clause_set := list N.
Definition C14_clauses : clause_set := [0; 1; 2; 3; 4; 5; 6; 7; 8; 9; 10].
Definition C15_clauses : clause_set := [0; 1; 2; 30; 31; 32; 33; 34; 35].
Definition C16_clauses : clause_set := [0; 1; 2; 8; 20; 21; 22; 23; 24; 25; 26; 28].

Definition in_set (cs : clause_set) (f : N * fail) : bool := mem (fst (fst (snd f))) cs.

Definition first_disagreement (obs : list (oc * snap)) (mobs : list (oc * snap)) : option N :=
  first_diff ob_eqb obs mobs 1.

(* the ledger state needed by the class predicate of clause 34 is recomputed: the oracle state before observation k *)
Fixpoint ost_before (su : setup) (os : ost) (B : snap) (ops : list op) (obs : list (oc * snap)) (k : nat) : ost * snap :=
  match k, ops, obs with
  | S k', o :: ops', (r, A) :: obs' => ost_before su (snd (ostep su os B o r A)) A ops' obs' k'
  | _, _, _ => (os, B)
  end.

Definition classify (su : setup) (ops : list op) (s0 : snap) (obs : list (oc * snap))
           (w0 : world) (mrun : list (oc * snap * world)) (agree_upto : option N) (f : N * fail) : option N :=
  let k := fst f in let c := fst (fst (snd f)) in let d := snd (fst (snd f)) in let v := snd (snd f) in
  (* the model's state can be consulted only where the model and the implementation have agreed so far *)
  let model_valid := match agree_upto with None => true | Some j => k <? j end in
  if negb model_valid then None else
  let wB := nth_world mrun w0 k in
  if (c =? 25) && slash_floors_total_to_zero su wB (op_at ops k) then Some TotalSlashWithRewards
  else if (c =? 23) && slash_floors_total_to_zero su wB (op_at ops k) then Some DriftWipe
  else if (c =? 34) then
    let '(osk, _) := ost_before su (ost0 su) s0 ops obs (N.to_nat k) in
    match nth_error obs (N.to_nat (k - 1)) with
    | Some (_, A) => if upper_relaxed_ok su osk A d v then Some CommissionRounding else None
    | None => None
    end
  else if (c =? 35) && starved (w0 :: map snd (firstn (N.to_nat k) mrun)) d v then Some DriftZeroTotal
  else None.

Fixpoint first_unknown (cl : (N * fail) -> option N) (fs : list (N * fail)) : option N :=
  match fs with
  | [] => None
  | f :: r => match cl f with None => Some (fst f) | Some _ => first_unknown cl r end
  end.
Fixpoint first_known (cl : (N * fail) -> option N) (fs : list (N * fail)) : option (N * N) :=
  match fs with
  | [] => None
  | f :: r => match cl f with Some c => Some (c, fst f) | None => first_known cl r end
  end.

Definition check (cs : clause_set) (su : setup) (ops : list op) (s0 : snap) (obs : list (oc * snap)) : verdict :=
  match init_world su with
  | SOk w0 =>
      match model_snap su w0 with
      | SOk m0 =>
          let mrun := model_run su w0 m0 ops in
          let mobs := map fst mrun in
          let dis := if snap_eqb s0 m0 then first_disagreement obs mobs else Some 0 in
          let fs := filter (in_set cs) (oracle su ops s0 obs) in
          let cl := classify su ops s0 obs w0 mrun dis in
          match first_unknown cl fs with
          | Some k => PropFail k
          | None =>
              match first_known cl fs with
              | Some (c, k) => KnownFail c k
              | None => match dis with Some k => Disagree k | None => Agree end
              end
          end
      | _ => Disagree 0
      end
  | _ => Disagree 0
  end.

Definition c14 := check C14_clauses.
Definition c15 := check C15_clauses.
Definition c16 := check C16_clauses.
