(* Chk16M.v — the oracle clauses of C16 and C15 on the model's own run, for all setups and histories:
   C16: the only failures are of the two known classes (clause 23 / 25 at a slash that floors the
   validator's total to zero); C15: shown = paid, reset, mints only that, others unaffected never fail.
   (Clause 24 — exactness while shares are whole — and the reward bounds 34 / 35 are not covered.)
   No pinned theorems here. *)
From Verif Require Import Base OMap Bank Dec Staking StakingInv Chk14 StakingHist Chk16 Chk15 Chk14M.
Local Open Scope N_scope.

Definition cf (cs : clause_set) (fs : list fail) : list fail := filter (fun f : fail => mem (fst (fst f)) cs) fs.
Lemma cf_app cs a b : cf cs (a ++ b) = cf cs a ++ cf cs b. Proof. apply filter_app. Qed.
Lemma cf_chk cs c b : b = true -> cf cs (chk c b) = []. Proof. intros ->. reflexivity. Qed.
Lemma cf_chk_out cs c b : mem c cs = false -> cf cs (chk c b) = [].
Proof. intros H. unfold chk. destruct b; [reflexivity|]. cbn [cf filter fst]. rewrite H. reflexivity. Qed.
Lemma cf_chk_pairs_out cs su c f : mem c cs = false -> cf cs (chk_pairs su c f) = [].
Proof.
  intros H. unfold chk_pairs. induction (pairs su) as [|k l IH]; cbn [flat_map]; [reflexivity|].
  rewrite cf_app, IH, app_nil_r. destruct (f (fst k) (snd k)); [reflexivity|]. cbn [cf filter fst]. rewrite H. reflexivity.
Qed.
Lemma cf_chk_pairs_true cs su c f : (forall d v, In (d, v) (pairs su) -> f d v = true) -> cf cs (chk_pairs su c f) = [].
Proof.
  intros H. unfold chk_pairs. induction (pairs su) as [|[d v] l IH]; cbn [flat_map]; [reflexivity|].
  rewrite cf_app, IH by (intros d' v' Hi; apply H; right; exact Hi). cbn [fst snd]. rewrite (H d v) by (left; reflexivity). reflexivity.
Qed.
Lemma cf_reward_bounds cs su os A : mem 34 cs = false -> mem 35 cs = false -> cf cs (reward_bounds su os A) = [].
Proof. intros H1 H2. unfold reward_bounds. rewrite cf_app, !cf_chk_pairs_out by assumption. reflexivity. Qed.
Lemma filter_in_set_cf cs fs k : filter (in_set cs) (map (fun f : fail => (k, f)) fs) = map (fun f => (k, f)) (cf cs fs).
Proof.
  induction fs as [|f fs IH]; cbn [map filter cf]; [reflexivity|]. unfold in_set at 1. cbn [fst snd].
  destruct (mem (fst (fst f)) cs); cbn [map]; rewrite IH; reflexivity.
Qed.

(* failures of a chk_pairs clause are about pairs where the test is false *)
Lemma in_cf_chk_pairs cs su c g f : In f (cf cs (chk_pairs su c g)) ->
  fst (fst f) = c /\ In (snd (fst f), snd f) (pairs su) /\ g (snd (fst f)) (snd f) = false.
Proof.
  unfold cf. rewrite filter_In. intros [H _]. unfold chk_pairs in H. apply in_flat_map in H as ([d v] & Hi & H).
  cbn [fst snd] in H. destruct (g d v) eqn:E; [destruct H|]. destruct H as [<-|[]]. cbn [fst snd]. auto.
Qed.

(* views: the reward columns *)
Lemma view_rw su w S d v x : views su w S -> In (d, v) (pairs su) ->
  q_rewards (params_of su) (w_now w) (w_st w) d v = SOk x -> sn_rw su S d v = x.
Proof. intros V Hi Q. destruct (v_rew _ _ _ V d v Hi) as (y & Qy & Z). unfold sn_rw. rewrite Z. congruence. Qed.
Lemma view_rw_ex su w S d v : views su w S -> In (d, v) (pairs su) ->
  q_rewards (params_of su) (w_now w) (w_st w) d v = SOk (sn_rw su S d v).
Proof. intros V Hi. destruct (v_rew _ _ _ V d v Hi) as (y & Qy & Z). unfold sn_rw. rewrite Z. exact Qy. Qed.
Lemma view_del_eq su w w' S S' d v : views su w S -> views su w' S' -> In (d, v) (pairs su) ->
  q_delegation (params_of su) (w_now w') (w_st w') d v = q_delegation (params_of su) (w_now w) (w_st w) d v ->
  sn_amt su S' d v = sn_amt su S d v /\ sn_shown su S' d v = sn_shown su S d v.
Proof.
  intros V V' Hi E. destruct (v_del _ _ _ V d v Hi) as (x & Q & Z). destruct (v_del _ _ _ V' d v Hi) as (x' & Q' & Z').
  unfold sn_amt, sn_shown. rewrite Z, Z'. assert (x' = x) by congruence. subst. split; reflexivity.
Qed.
Lemma view_rw_eq su w w' S S' d v : views su w S -> views su w' S' -> In (d, v) (pairs su) ->
  q_rewards (params_of su) (w_now w') (w_st w') d v = q_rewards (params_of su) (w_now w) (w_st w) d v ->
  sn_rw su S' d v = sn_rw su S d v.
Proof.
  intros V V' Hi E. destruct (v_rew _ _ _ V d v Hi) as (x & Q & Z). destruct (v_rew _ _ _ V' d v Hi) as (x' & Q' & Z').
  unfold sn_rw. rewrite Z, Z'. congruence.
Qed.

Lemma payout_ok_model su os w B dt w' A :
  winv su w -> osim su os w -> views su w B -> step su w (Advance dt) = SOk w' -> views su w' A ->
  payout_ok su B A os (o_now os + dt) = true.
Proof.
  intros I Sim VB H VA. apply advance_pays_due in H; [|exact I]. cbn zeta in H.
  destruct H as (En & Q & Bl & Pl & Su & Dp & _ & W). destruct Sim as [S1 S2 S3 S4].
  unfold payout_ok. rewrite S1, S2.
  rewrite (amts_same_model su w w' B A VB VA) by exact Dp.
  rewrite (v_pool _ _ _ VA), (v_pool _ _ _ VB), (v_sup _ _ _ VA), (v_sup _ _ _ VB), Pl, Su, !N.eqb_refl.
  rewrite !andb_true_r. apply all_accts_spec. intros a Ha.
  rewrite (v_bal _ _ _ VA a Ha), (v_bal _ _ _ VB a Ha), Bl. apply N.eqb_refl.
Qed.

(* ---------- C16 ---------- *)

Definition C16m : clause_set := [0; 1; 2; 8; 20; 21; 22; 23; 25; 26; 28].

Definition known16 (su : setup) (w : world) (o : op) (f : fail) : Prop :=
  (fst (fst f) = 23 \/ fst (fst f) = 25) /\ slash_floors_total_to_zero su w (Some o) = true.

Lemma slash_valid_not_err P now s v p : inv P now s -> p <= D18 -> get_val P v <> None -> exec_slash P now s v p <> SErr.
Proof.
  intros I Lp Kv. unfold exec_slash. replace (D18 <? p) with false by (symmetry; apply N.ltb_ge, Lp).
  apply sbind_not_err.
  - intros E. apply update_rewards_err in E. pose proof (proj2 (inv_known _ _ _ I v) Kv). destruct E; contradiction.
  - intros s1 H1. pose proof (update_rewards_stakers_ok _ _ _ _ _ (inv_stakers _ _ _ I) H1) as Hs1.
    apply update_rewards_spec in H1 as (vi & comm & _ & _ & _ & _ & Vv). rewrite Vv.
    apply sbind_not_err; [apply mul_floor_ne|]. intros nv _.
    apply sbind_not_err.
    + destruct (nv =? 0); [discriminate|].
      assert (G : forall l s0, scale_stakers v (D18 - p) l s0 <> SErr).
      { induction l as [|d l IH]; intros s0; cbn [scale_stakers]; [discriminate|].
        destruct (get_stake d v s0); [|discriminate]. apply sbind_not_err; [apply dec_mul_ne|]. intros y _. apply IH. }
      apply G.
    + intros s2 _. apply sbind_not_err; [|discriminate].
      generalize (s_queue s2). induction l as [|u q IH]; cbn [scale_queue]; [discriminate|].
      apply sbind_not_err.
      * destruct (u_val u =? v); [|discriminate]. apply sbind_not_err; [apply mul_floor_ne|]. discriminate.
      * intros u' _. apply sbind_not_err; [exact IH|]. discriminate.
Qed.

Lemma slash_ok_16 su os w B v p w' A :
  winv su w -> views su w B -> step su w (Slash v p) = SOk w' -> views su w' A ->
  Forall (known16 su w (Slash v p)) (cf C16m (fst (ostep su os B (Slash v p) OOk A))).
Proof.
  intros I VB H VA. pose proof (class_is_zero_total su w v p w' I H) as Cls.
  pose proof H as H'. cbn [step] in H'. inv_bind H' as s' Hs. injection H' as <-.
  pose proof (inv_stakers _ _ _ I) as Hso. pose proof (inv_last _ _ _ I) as Hlo.
  pose proof (slash_facts _ _ _ _ _ _ Hso Hs) as (Lp & Kv & Bk & W & Q & Vo & So & Vv & Sv & Dm).
  pose proof (slash_never_increases_lemma _ _ _ _ _ _ Hso Hs) as (NI & _ & _).
  assert (Kv' : known_val su v = true) by (apply known_val_get, Kv).
  cbn [ostep fst]. rewrite !cf_app.
  rewrite (cf_chk_out C16m 3), (cf_chk_out C16m 10), (cf_chk_out C16m 9) by reflexivity.
  rewrite (cf_chk C16m 20) by (rewrite Kv'; replace (p <=? D18) with true by (symmetry; apply N.leb_le, Lp); reflexivity).
  rewrite cf_reward_bounds by reflexivity. cbn [app]. rewrite app_nil_r.
  unfold slash_clauses. rewrite !cf_app.
  (* 21 *)
  unfold slash_never_increases. rewrite cf_chk_pairs_true.
  2:{ intros d' v' Hi. rewrite (view_amt _ _ _ _ _ VA Hi), (view_amt _ _ _ _ _ VB Hi). apply N.leb_le, NI. }
  (* 22 *)
  unfold slash_frame. rewrite cf_app, cf_chk_pairs_true.
  2:{ intros d' v' Hi. unfold of_v. destruct (v' =? v) eqn:E; [reflexivity|]. apply N.eqb_neq in E. cbn [orb].
      assert (Ed : q_delegation (params_of su) (w_now w) s' d' v' = q_delegation (params_of su) (w_now w) (w_st w) d' v').
      { unfold q_delegation. rewrite (So d' v' E), (Vo v' E). reflexivity. }
      assert (Er : q_rewards (params_of su) (w_now w) s' d' v' = q_rewards (params_of su) (w_now w) (w_st w) d' v').
      { unfold q_rewards. rewrite (So d' v' E), (Vo v' E). reflexivity. }
      destruct (view_del_eq su w (mkW (w_now w) s') B A d' v' VB VA Hi Ed) as [E1 E2].
      rewrite E1, E2, (view_rw_eq su w (mkW (w_now w) s') B A d' v' VB VA Hi Er), !N.eqb_refl.
      rewrite (option_eqb_refl' _ N.eqb_refl). reflexivity. }
  rewrite (cf_chk C16m 22).
  2:{ apply (bank_same_model su w (mkW (w_now w) s') B A VB VA); cbn [w_st]; unfold q_balance, q_pool, q_supply; rewrite ?Bk; reflexivity. }
  (* 24 is outside C16m; 26 *)
  unfold slash_upper. rewrite (cf_chk_pairs_out C16m su 24) by reflexivity.
  unfold slash_total_removes. rewrite cf_chk_pairs_true.
  2:{ intros d' v' Hi. unfold of_v. destruct (v' =? v) eqn:E; [|reflexivity]. apply N.eqb_eq in E. subst v'. cbn [negb orb].
      destruct (p =? D18) eqn:Ep; [|reflexivity]. apply N.eqb_eq in Ep. subst p. cbn [negb orb].
      rewrite (view_amt _ _ _ _ _ VA Hi). cbn [w_st].
      destruct (slash_total_removes_lemma _ _ _ _ _ _ Hso Hs (full_slash_total _ _)) as (_ & R). destruct (R d') as [_ ->]. reflexivity. }
  cbn [app]. rewrite !app_nil_r.
  (* 23 and 25: failures only in the class *)
  apply Forall_forall. intros f Hf. apply in_app_or in Hf as [Hf|Hf].
  - apply in_cf_chk_pairs in Hf as (Ec & Hi & Ef). split; [left; exact Ec|].
    rewrite Cls. apply N.eqb_eq. destruct (N.eq_dec (new_total (w_st w) v p) 0) as [Z|Z]; [exact Z|exfalso].
    set (d' := snd (fst f)) in *. set (v' := snd f) in *. unfold of_v in Ef. destruct (v' =? v) eqn:E; [|discriminate].
    apply N.eqb_eq in E. cbn [negb orb] in Ef. apply N.leb_gt in Ef.
    rewrite (view_amt _ _ _ _ _ VA Hi), (view_amt _ _ _ _ _ VB Hi) in Ef. cbn [w_st] in Ef. rewrite E in Ef.
    pose proof (slash_display_bounds_lemma _ _ _ _ _ _ Hso Hs Z d') as [L _]. lia.
  - apply in_cf_chk_pairs in Hf as (Ec & Hi & Ef). split; [right; exact Ec|].
    rewrite Cls. apply N.eqb_eq. destruct (N.eq_dec (new_total (w_st w) v p) 0) as [Z|Z]; [exact Z|exfalso].
    set (d' := snd (fst f)) in *. set (v' := snd f) in *. unfold of_v in Ef. destruct (v' =? v) eqn:E; [|discriminate].
    apply N.eqb_eq in E. cbn [negb orb] in Ef.
    pose proof (view_rw_ex su w B d' v' VB Hi) as QB. rewrite E in *.
    pose proof (slash_rewards_kept_lemma _ _ _ _ _ _ Hso Hlo Hs Z d' _ QB) as QA.
    rewrite (view_rw su (mkW (w_now w) s') A d' v _ VA Hi QA) in Ef.
    destruct (sn_rw su B d' v) as [r|]; [|discriminate]. rewrite (option_eqb_refl' _ N.eqb_refl), orb_true_r in Ef. discriminate.
Qed.

Lemma nonslash_ok_16 su os w B o w' A :
  (forall v p, o <> Slash v p) -> winv su w -> osim su os w -> views su w B -> step su w o = SOk w' -> views su w' A ->
  cf C16m (fst (ostep su os B o OOk A)) = [].
Proof.
  intros Hn I Sim VB H VA. destruct o as [d v a b|d v a b|d v1 v2 a b|d v|d wd|v p|dt]; cbn [ostep fst].
  - rewrite !cf_app, cf_reward_bounds by reflexivity. rewrite !cf_chk_out by reflexivity. reflexivity.
  - rewrite !cf_app, cf_reward_bounds by reflexivity. rewrite !cf_chk_out by reflexivity. reflexivity.
  - rewrite !cf_app, cf_reward_bounds by reflexivity. rewrite !cf_chk_out by reflexivity. reflexivity.
  - unfold withdraw_clauses. rewrite !cf_app, cf_reward_bounds by reflexivity.
    rewrite cf_chk_pairs_out by reflexivity. rewrite !cf_chk_out by reflexivity. reflexivity.
  - rewrite !cf_app, cf_reward_bounds by reflexivity. rewrite !cf_chk_out by reflexivity. reflexivity.
  - exfalso. apply (Hn v p). reflexivity.
  - rewrite !cf_app, cf_reward_bounds by reflexivity. rewrite (cf_chk_out C16m 10) by reflexivity.
    rewrite (cf_chk C16m 8) by (eapply payout_ok_model; eassumption). reflexivity.
Qed.

Lemma err_16 su os w B o : winv su w -> step su w o = SErr ->
  is_advance o = false /\ cf C16m (fst (ostep su os B o OErr B)) = [] /\ snd (ostep su os B o OErr B) = os.
Proof.
  intros I H.
  assert (Ha : is_advance o = false).
  { destruct o; try reflexivity. exfalso. revert H. apply advance_ne, I. }
  split; [exact Ha|]. split; [|reflexivity]. cbn [ostep fst].
  rewrite !cf_app. rewrite (cf_chk C16m 2) by apply snap_eqb_refl. rewrite (cf_chk C16m 1) by (rewrite Ha; reflexivity).
  rewrite (cf_chk_out C16m 4) by reflexivity. cbn [app].
  destruct o as [| | | | |v p|]; try reflexivity. apply cf_chk.
  destruct (D18 <? p) eqn:E1; [reflexivity|]. destruct (known_val su v) eqn:E2; [|reflexivity]. exfalso.
  apply N.ltb_ge in E1. apply known_val_get in E2. cbn [step] in H.
  destruct (exec_slash (params_of su) (w_now w) (w_st w) v p) eqn:X; try discriminate.
  revert X. apply slash_valid_not_err; assumption.
Qed.

(* every failure of the C16 clauses on the model's run is a clause-23 / clause-25 failure at a slash, in a
   reachable world, that floors the validator's total to zero: the two known classes *)
Definition known16_somewhere (su : setup) (w0 : world) (ops : list op) (kf : N * fail) : Prop :=
  exists w v p, reach su w0 w /\ In (Slash v p) ops /\ known16 su w (Slash v p) (snd kf).

Lemma oracle_from_16 su w0 : forall ops os w B k all_ops,
  setup_ok su -> Forall (scoped su) ops -> winv su w -> osim su os w -> views su w B -> reach su w0 w ->
  incl ops all_ops -> clean (model_run su w B ops) ->
  Forall (known16_somewhere su w0 all_ops) (filter (in_set C16m) (oracle_from su os B ops (map fst (model_run su w B ops)) k)).
Proof.
  induction ops as [|o ops IH]; intros os w B k all_ops Hsu Hsc I Sim VB R Hin Hc; [constructor|].
  inversion Hsc as [|? ? Ho Hsc']; subst. cbn [model_run] in *.
  assert (Hin' : incl ops all_ops) by (intros x Hx; apply Hin; right; exact Hx).
  destruct (step su w o) as [w'| | |] eqn:S.
  - destruct (model_snap su w') as [A| | |] eqn:MA;
      try (inversion Hc as [|? ? Hx _]; subst; cbn in Hx; destruct Hx; discriminate).
    inversion Hc as [|? ? _ Hc']; subst. cbn [map fst oracle_from].
    pose proof (model_snap_views _ _ _ MA) as VA.
    destruct (step_ok_model su os w B o w' A Hsu Ho I Sim VB S VA) as [_ Sim'].
    assert (K : Forall (known16 su w o) (cf C16m (fst (ostep su os B o OOk A)))).
    { destruct o as [d v a b|d v a b|d v1 v2 a b|d v|d wd|v p|dt];
        try (rewrite (nonslash_ok_16 su os w B _ w' A) by (try discriminate; assumption); constructor).
      eapply slash_ok_16; eassumption. }
    destruct (ostep su os B o OOk A) as [fs os'] eqn:E. cbn [fst snd] in K, Sim'.
    rewrite filter_app, filter_in_set_cf. apply Forall_app. split.
    + apply Forall_forall. intros kf Hkf. apply in_map_iff in Hkf as (f & <- & Hf).
      rewrite Forall_forall in K. specialize (K f Hf). cbn [snd].
      destruct o as [d v a b|d v a b|d v1 v2 a b|d v|d wd|v p|dt];
        try (destruct K as [_ K]; cbn in K; discriminate).
      exists w, v, p. split; [exact R|]. split; [apply Hin; left; reflexivity|exact K].
    + apply IH; try assumption; [eapply step_inv; eassumption|eapply reach_step; eassumption].
  - destruct (err_16 su os w B o I S) as (Ha & F & Eo). rewrite Ha in *.
    inversion Hc as [|? ? _ Hc']; subst. cbn [map fst oracle_from].
    destruct (ostep su os B o OErr B) as [fs os'] eqn:E. cbn [fst snd] in F, Eo. subst os'.
    rewrite filter_app, filter_in_set_cf, F. cbn [map app]. apply IH; assumption.
  - inversion Hc as [|? ? Hx _]; subst. cbn in Hx. destruct Hx; discriminate.
  - inversion Hc as [|? ? Hx _]; subst. cbn in Hx. destruct Hx; discriminate.
Qed.

Lemma model_ok_16_lemma su ops w0 m0 :
  setup_ok su -> NoDup (acct_ids su) -> Forall (scoped su) ops ->
  init_world su = SOk w0 -> model_snap su w0 = SOk m0 -> clean (model_run su w0 m0 ops) ->
  Forall (known16_somewhere su w0 ops) (filter (in_set C16m) (oracle su ops m0 (map fst (model_run su w0 m0 ops)))).
Proof.
  intros Hsu Hnd Hsc H0 HM Hc. unfold oracle. rewrite (genesis_model su w0 m0 Hnd H0 HM). cbn [app].
  apply oracle_from_16; try assumption.
  - apply init_world_inv, H0.
  - apply osim0; assumption.
  - apply model_snap_views, HM.
  - constructor.
  - apply incl_refl.
Qed.

(* ---------- C15: shown = paid, reset, mints only that, others unaffected ---------- *)

Definition C15m : clause_set := [0; 1; 2; 30; 31; 32; 33].

Lemma q_delegation_rewards P now s d v a r : q_delegation P now s d v = SOk (Some (a, r)) -> q_rewards P now s d v = SOk (Some r).
Proof.
  intros Q. pose proof (q_delegation_amount _ _ _ _ _ _ Q) as [Ea Pa].
  unfold q_delegation in Q. unfold q_rewards. destruct (get_val P v) as [comm|]; [|discriminate].
  unfold disp, stake_of in Ea. destruct (get_stake d v s) as [sh|]; [|subst a; cbn in Pa; lia].
  destruct (get_vi v s) as [vi|]; [|discriminate].
  inv_bind Q as r' Hr'. rewrite Hr'. cbn [sbind]. destruct (_ =? 0); [discriminate|]. injection Q as _ <-. reflexivity.
Qed.

Lemma view_shown su w S d v : views su w S -> In (d, v) (pairs su) ->
  sn_shown su S d v = 0 \/ sn_rw su S d v = Some (sn_shown su S d v).
Proof.
  intros V Hi. destruct (v_del _ _ _ V d v Hi) as (x & Q & Z). unfold sn_shown. rewrite Z.
  destruct x as [[a r]|]; [|left; reflexivity]. right. apply q_delegation_rewards in Q. apply (view_rw su w S d v _ V Hi Q).
Qed.

(* a withdrawal touches no other denomination *)
Lemma withdraw_others P now s d v s' : bank_wf (s_bank s) -> exec_withdraw P now s d v = SOk s' ->
  forall dn, dn <> TOKEN ->
    (forall x, bank_balance (s_bank s') x dn = bank_balance (s_bank s) x dn) /\
    bank_supply (s_bank s') dn = bank_supply (s_bank s) dn.
Proof.
  intros Hw H dn Hn. unfold exec_withdraw in H. inv_bind H as s1 Hu.
  destruct (get_stake d v s1) as [sh|]; [|discriminate]. inv_bind H as b Hb. apply of_bank_ok in Hb. injection H as <-.
  apply update_rewards_spec in Hu as (vi & comm & _ & _ & (_ & _ & Bk & _) & _).
  cbn [s_bank put_stake set_stakes set_bank] in *. rewrite Bk in Hb.
  match type of Hb with bank_mint _ ?to ?cs = _ => pose proof (bank_mint_spec (s_bank s) to cs Hw) as S end.
  rewrite Hb in S. destruct S as (_ & _ & Hbal & Hsup).
  assert (T0 : tot dn (tok (to_uint_floor (sh_rew sh))) = 0).
  { unfold tok. cbn [tot]. destruct (beqb dn TOKEN) eqn:E; [apply beqb_eq in E; contradiction|reflexivity]. }
  split; [intros x; rewrite Hbal, T0; destruct (beqb x _); lia|rewrite Hsup, T0; lia].
Qed.

Lemma amount_of_filter (p : coin -> bool) dn : forall l, (forall c, fst c = dn -> p c = true) ->
  amount_of dn (filter p l) = amount_of dn l.
Proof.
  induction l as [|[d' x] l IH]; intros H; [reflexivity|]. cbn [filter]. destruct (p (d', x)) eqn:E.
  - rewrite !amount_of_cons, IH by exact H. reflexivity.
  - rewrite amount_of_cons, IH by exact H. destruct (beqb dn d') eqn:E2; [|reflexivity].
    apply beqb_eq in E2. subst d'. rewrite (H (dn, x) eq_refl) in E. discriminate.
Qed.
Lemma amount_of_other b a dn : dn <> TOKEN -> amount_of dn (other_coins b a) = bank_balance b a dn.
Proof.
  intros Hn. unfold other_coins, bank_balance, bank_all. apply amount_of_filter. intros c <-.
  destruct (beqb (fst c) TOKEN) eqn:E; [apply beqb_eq in E; contradiction|reflexivity].
Qed.
Lemma other_coins_denoms b a dn : In dn (map fst (other_coins b a)) -> dn <> TOKEN.
Proof.
  intros H C. subst dn. apply in_map_iff in H as (c & Ec & Hc). unfold other_coins in Hc. apply filter_In in Hc as [_ Hc].
  rewrite Ec, beqb_refl in Hc. discriminate.
Qed.
Lemma others_same_model su w w' B A : views su w B -> views su w' A ->
  (forall dn, dn <> TOKEN -> (forall x, bank_balance (s_bank (w_st w')) x dn = bank_balance (s_bank (w_st w)) x dn) /\
                            bank_supply (s_bank (w_st w')) dn = bank_supply (s_bank (w_st w)) dn) ->
  others_same B A = true.
Proof.
  intros VB VA H. unfold others_same. rewrite (v_xall _ _ _ VB), (v_xall _ _ _ VA), (v_xsup _ _ _ VB), (v_xsup _ _ _ VA).
  apply andb_true_iff. split.
  - induction (acct_ids su) as [|a l IH]; [reflexivity|]. cbn [map xall_same]. rewrite IH, andb_true_r.
    apply forallb_forall. intros dn Hd. apply N.eqb_eq.
    assert (Hn : dn <> TOKEN) by (apply in_app_or in Hd as [Hd|Hd]; eapply other_coins_denoms; exact Hd).
    rewrite !amount_of_other by exact Hn. apply (H dn Hn).
  - assert (E : map (other_supply (s_bank (w_st w'))) (su_xdenoms su) = map (other_supply (s_bank (w_st w))) (su_xdenoms su)).
    { apply map_ext. intros dn. unfold other_supply. destruct (beqb dn TOKEN) eqn:E; [reflexivity|].
      apply (H dn). intros C. subst. rewrite beqb_refl in E. discriminate. }
    rewrite E. apply list_eqb_refl', N.eqb_refl.
Qed.

Lemma withdraw_ok_15 su os w B d v w' A :
  setup_ok su -> In d (su_dels su) -> winv su w -> osim su os w -> views su w B ->
  step su w (Withdraw d v) = SOk w' -> views su w' A ->
  cf C15m (fst (ostep su os B (Withdraw d v) OOk A)) = [].
Proof.
  intros Hsu Hd I Sim VB H VA. cbn [step] in H. inv_bind H as s' Hs. injection H as <-.
  pose proof (inv_stakers _ _ _ I) as Hso. pose proof (inv_last _ _ _ I) as Hlo. pose proof (inv_bank _ _ _ I) as Hbo.
  assert (Kv : get_val (params_of su) v <> None).
  { pose proof Hs as Hs'. apply withdraw_lemma in Hs' as (s1 & sh & _ & _ & Hs'); [|exact Hbo]. apply Hs'. }
  assert (Hp : In (d, v) (pairs su)) by (apply in_pairs; split; [exact Hd|apply known_val_In, known_val_get, Kv]).
  pose proof (view_rw_ex su w B d v VB Hp) as QB.
  destruct (withdraw_pays_shown_lemma _ _ _ _ _ _ Hso Hlo Hbo Hs _ QB) as (r & Er & Pr & Hw). cbn zeta in Hw.
  destruct Hw as (Bw & Bo & Bp & Su & St & Q & W & _).
  assert (Ew : o_waddr os d = withdraw_addr (w_st w) d) by apply (os_w _ _ _ Sim).
  assert (Hwa : In (withdraw_addr (w_st w) d) (acct_ids su)) by apply (os_win _ _ _ Sim d Hd).
  pose proof (view_rw_ex su (mkW (w_now w) s') A d v VA Hp) as QA. cbn [w_now w_st] in QA.
  pose proof (withdraw_resets_lemma _ _ _ _ _ _ Hso Hlo Hbo Hs _ QA) as E0.
  cbn [ostep fst]. rewrite !cf_app, cf_reward_bounds by reflexivity.
  rewrite (cf_chk_out C15m 3), (cf_chk_out C15m 10), (cf_chk_out C15m 9) by reflexivity. cbn [app]. rewrite app_nil_r.
  unfold withdraw_clauses. rewrite !cf_app. rewrite Ew, Er. cbn [rw0].
  rewrite (cf_chk C15m 30).
  2:{ replace (0 <? r) with true by (symmetry; apply N.ltb_lt, Pr).
      rewrite (v_bal _ _ _ VA _ Hwa), (v_bal _ _ _ VB _ Hwa). cbn [w_st]. rewrite Bw, N.eqb_refl. reflexivity. }
  rewrite (cf_chk C15m 31).
  2:{ rewrite E0. cbn. destruct (view_shown su _ A d v VA Hp) as [->|E]; [reflexivity|]. rewrite E0 in E. injection E as <-. reflexivity. }
  rewrite (cf_chk C15m 32).
  2:{ rewrite (v_pool _ _ _ VA), (v_pool _ _ _ VB), (v_sup _ _ _ VA), (v_sup _ _ _ VB). cbn [w_st]. rewrite Bp, Su, !N.eqb_refl. cbn [andb].
      rewrite (bals_same_except_model su w (mkW (w_now w) s') B A VB VA).
      2:{ intros x _. destruct (withdraw_addr (w_st w) d =? x) eqn:E; [left; reflexivity|right]. apply Bo.
          intros C. subst x. rewrite N.eqb_refl in E. discriminate. }
      rewrite (others_same_model su w (mkW (w_now w) s') B A VB VA (withdraw_others _ _ _ _ _ _ Hbo Hs)), andb_true_r.
      apply (amts_same_model su w (mkW (w_now w) s') B A VB VA). intros d' v'. apply disp_of_stake, St. }
  rewrite cf_chk_pairs_true; [reflexivity|].
  intros d' v' Hi. destruct (is_pair d v d' v') eqn:E; [reflexivity|]. cbn [orb]. apply is_pair_neq in E.
  destruct (others_unaffected_lemma _ _ _ _ _ _ Hso Hbo Hs d' v' E) as [E1 E2].
  destruct (view_del_eq su w (mkW (w_now w) s') B A d' v' VB VA Hi E2) as [_ E4].
  rewrite (view_rw_eq su w (mkW (w_now w) s') B A d' v' VB VA Hi E1), E4, N.eqb_refl, (option_eqb_refl' _ N.eqb_refl). reflexivity.
Qed.

Lemma nonwithdraw_ok_15 su os B o A : (forall d v, o <> Withdraw d v) -> cf C15m (fst (ostep su os B o OOk A)) = [].
Proof.
  intros Hn. destruct o as [d v a b|d v a b|d v1 v2 a b|d v|d wd|v p|dt]; cbn [ostep fst].
  - rewrite !cf_app, cf_reward_bounds by reflexivity. rewrite !cf_chk_out by reflexivity. reflexivity.
  - rewrite !cf_app, cf_reward_bounds by reflexivity. rewrite !cf_chk_out by reflexivity. reflexivity.
  - rewrite !cf_app, cf_reward_bounds by reflexivity. rewrite !cf_chk_out by reflexivity. reflexivity.
  - exfalso. apply (Hn d v). reflexivity.
  - rewrite !cf_app, cf_reward_bounds by reflexivity. rewrite !cf_chk_out by reflexivity. reflexivity.
  - unfold slash_clauses, slash_never_increases, slash_frame, slash_lower, slash_upper, slash_rewards_kept, slash_total_removes.
    rewrite !cf_app, cf_reward_bounds by reflexivity. rewrite !cf_chk_pairs_out by reflexivity.
    rewrite !cf_chk_out by reflexivity. reflexivity.
  - rewrite !cf_app, cf_reward_bounds by reflexivity. rewrite !cf_chk_out by reflexivity. reflexivity.
Qed.

Lemma err_15 su os w B o : winv su w -> step su w o = SErr ->
  is_advance o = false /\ cf C15m (fst (ostep su os B o OErr B)) = [] /\ snd (ostep su os B o OErr B) = os.
Proof.
  intros I H.
  assert (Ha : is_advance o = false).
  { destruct o; try reflexivity. exfalso. revert H. apply advance_ne, I. }
  split; [exact Ha|]. split; [|reflexivity]. cbn [ostep fst].
  rewrite !cf_app. rewrite (cf_chk C15m 2) by apply snap_eqb_refl. rewrite (cf_chk C15m 1) by (rewrite Ha; reflexivity).
  rewrite (cf_chk_out C15m 4) by reflexivity. cbn [app].
  destruct o; try reflexivity. apply cf_chk_out. reflexivity.
Qed.

Lemma oracle_from_15 su : forall ops os w B k,
  setup_ok su -> Forall (scoped su) ops -> winv su w -> osim su os w -> views su w B ->
  clean (model_run su w B ops) ->
  filter (in_set C15m) (oracle_from su os B ops (map fst (model_run su w B ops)) k) = [].
Proof.
  induction ops as [|o ops IH]; intros os w B k Hsu Hsc I Sim VB Hc; [reflexivity|].
  inversion Hsc as [|? ? Ho Hsc']; subst. cbn [model_run] in *.
  destruct (step su w o) as [w'| | |] eqn:S.
  - destruct (model_snap su w') as [A| | |] eqn:MA;
      try (inversion Hc as [|? ? Hx _]; subst; cbn in Hx; destruct Hx; discriminate).
    inversion Hc as [|? ? _ Hc']; subst. cbn [map fst oracle_from].
    pose proof (model_snap_views _ _ _ MA) as VA.
    destruct (step_ok_model su os w B o w' A Hsu Ho I Sim VB S VA) as [_ Sim'].
    assert (F : cf C15m (fst (ostep su os B o OOk A)) = []).
    { destruct o as [d v a b|d v a b|d v1 v2 a b|d v|d wd|v p|dt]; try (apply nonwithdraw_ok_15; discriminate).
      eapply withdraw_ok_15; eassumption. }
    destruct (ostep su os B o OOk A) as [fs os'] eqn:E. cbn [fst snd] in F, Sim'.
    rewrite filter_app, filter_in_set_cf, F. cbn [map app].
    apply IH; try assumption. eapply step_inv; eassumption.
  - destruct (err_15 su os w B o I S) as (Ha & F & Eo). rewrite Ha in *.
    inversion Hc as [|? ? _ Hc']; subst. cbn [map fst oracle_from].
    destruct (ostep su os B o OErr B) as [fs os'] eqn:E. cbn [fst snd] in F, Eo. subst os'.
    rewrite filter_app, filter_in_set_cf, F. cbn [map app]. apply IH; assumption.
  - inversion Hc as [|? ? Hx _]; subst. cbn in Hx. destruct Hx; discriminate.
  - inversion Hc as [|? ? Hx _]; subst. cbn in Hx. destruct Hx; discriminate.
Qed.

Lemma model_ok_15_lemma su ops w0 m0 :
  setup_ok su -> NoDup (acct_ids su) -> Forall (scoped su) ops ->
  init_world su = SOk w0 -> model_snap su w0 = SOk m0 -> clean (model_run su w0 m0 ops) ->
  filter (in_set C15m) (oracle su ops m0 (map fst (model_run su w0 m0 ops))) = [].
Proof.
  intros Hsu Hnd Hsc H0 HM Hc. unfold oracle. rewrite (genesis_model su w0 m0 Hnd H0 HM). cbn [app].
  apply oracle_from_15; try assumption.
  - apply init_world_inv, H0.
  - apply osim0; assumption.
  - apply model_snap_views, HM.
Qed.
