(* Chk07.v — C07: the operation language shared with the harness (operations through prefixed
   views obtained from App and raw access to App's storage), the mechanism model, the property
   oracle, and the per-case check. *)
From Verif Require Import Base OMap Tx Prefix.

From Coq Require Import Sorted.

Notation kv := (bytes * bytes)%type.

(* which constructor made the view: App::prefixed_storage(_mut)(seg) or
   App::prefixed_multilevel_storage(_mut)(path)  (app.rs:364-388) *)
Inductive vref := VSingle (seg : bytes) | VMulti (p : list bytes).

(* the namespace path a view stands for (SPEC side) *)
Definition vpath (v : vref) : list bytes := match v with VSingle s => [s] | VMulti p => p end.

(* the prefix the view is built with (MECHANISM side): PrefixedStorage::new / ::multilevel and the
   Readonly twins, mod.rs:46-61 and 97-112.  None = the constructor panics (segment > 65535 bytes). *)
Definition vprefix (v : vref) : option bytes :=
  match v with VSingle s => to_length_prefixed s | VMulti p => to_length_prefixed_nested p end.

(* [mu] = true: the view came from the `_mut` accessor (PrefixedStorage); false: read-only accessor
   (ReadonlyPrefixedStorage).  Every operation builds its view afresh from the App. *)
Inductive op7 :=
| RawSet (k x : bytes)                                    (* app.storage_mut().set *)
| RawDel (k : bytes)                                      (* app.storage_mut().remove *)
| RawGet (k : bytes)                                      (* app.storage().get *)
| RawRange (s e : option bytes) (o : order)               (* app.storage().range *)
| VGet (v : vref) (mu : bool) (k : bytes)
| VRange (v : vref) (mu : bool) (s e : option bytes) (o : order)
| VSet (v : vref) (mu : bool) (k x : bytes)
| VDel (v : vref) (mu : bool) (k : bytes).

Inductive ans := AUnit | AGet (x : option bytes) | ARange (l : list kv) | APanic.

(* one observation = the answer of the operation and the full raw dump of App's storage after it *)
Definition obs7 := (ans * list kv)%type.

(* ---------- MECHANISM: what the code does, step by step ---------- *)
Definition m_step (raw : list kv) (o : op7) : obs7 :=
  match o with
  | RawSet k x => (AUnit, insert bcmp k x raw)
  | RawDel k => (AUnit, delete bcmp k raw)
  | RawGet k => (AGet (assoc bcmp k raw), raw)
  | RawRange s e o => (ARange (map_range bcmp raw s e o), raw)
  | VGet v _ k =>
      match vprefix v with
      | None => (APanic, raw)
      | Some ns => (AGet (v_get ns raw k), raw)
      end
  | VRange v _ s e o =>
      match vprefix v with
      | None => (APanic, raw)
      | Some ns => match v_range ns raw s e o with Ok l => (ARange l, raw) | _ => (APanic, raw) end
      end
  | VSet v mu k x =>
      match vprefix v with
      | None => (APanic, raw)
      | Some ns => if mu then (AUnit, v_set ns raw k x)
                   else (APanic, raw)                      (* ReadonlyPrefixedStorage::set = unimplemented!(), mod.rs:130-132 *)
      end
  | VDel v mu k =>
      match vprefix v with
      | None => (APanic, raw)
      | Some ns => if mu then (AUnit, v_remove ns raw k)
                   else (APanic, raw)                      (* ReadonlyPrefixedStorage::remove = unimplemented!(), mod.rs:134-136 *)
      end
  end.

Fixpoint run_model (raw : list kv) (ops : list op7) : list obs7 :=
  match ops with
  | [] => []
  | o :: ops' => let r := m_step raw o in r :: run_model (snd r) ops'
  end.

(* ---------- equality tests ---------- *)
Definition kv_eqb : kv -> kv -> bool := pair_eqb beqb beqb.
Definition kvs_eqb : list kv -> list kv -> bool := list_eqb kv_eqb.
Definition ans_eqb (a b : ans) : bool :=
  match a, b with
  | AUnit, AUnit => true
  | AGet x, AGet y => option_eqb beqb x y
  | ARange x, ARange y => kvs_eqb x y
  | APanic, APanic => true
  | _, _ => false
  end.
Definition obs_eqb : obs7 -> obs7 -> bool := pair_eqb ans_eqb kvs_eqb.

Lemma beqb_refl a : beqb a a = true. Proof. apply beqb_eq. reflexivity. Qed.
Lemma kv_eqb_refl a : kv_eqb a a = true.
Proof. unfold kv_eqb, pair_eqb. rewrite !beqb_refl. reflexivity. Qed.
Lemma kvs_eqb_refl l : kvs_eqb l l = true.
Proof. induction l as [|x l IH]; cbn; [reflexivity|]. rewrite kv_eqb_refl. exact IH. Qed.
Lemma ans_eqb_refl a : ans_eqb a a = true.
Proof. destruct a as [|[x|]|l|]; cbn; auto using beqb_refl, kvs_eqb_refl. Qed.

(* ---------- PROPERTY ORACLE on one observed step ----------
   [raw] = the raw store before the operation (as observed), [a] = the implementation's answer,
   [raw'] = the raw store after it (as observed).  Paths outside the property's quantifier (a
   segment above 65535 bytes) and direct access to the base are not constrained by C07. *)
Definition ok_step (raw : list kv) (o : op7) (a : ans) (raw' : list kv) : bool :=
  match o with
  | RawSet _ _ | RawDel _ | RawGet _ | RawRange _ _ _ => true
  | VGet v _ k =>
      match enc_path (vpath v) with
      | None => true
      | Some ns => ans_eqb a (AGet (assoc bcmp k (window ns raw))) && kvs_eqb raw' raw
      end
  | VRange v _ s e o =>
      match enc_path (vpath v) with
      | None => true
      | Some ns => ans_eqb a (ARange (spec_range bcmp (window ns raw) s e o)) && kvs_eqb raw' raw
      end
  | VSet v mu k x =>
      match enc_path (vpath v) with
      | None => true
      | Some ns =>
          if mu then ans_eqb a AUnit && kvs_eqb (window ns raw') (insert bcmp k x (window ns raw))
                     && kvs_eqb (outside ns raw') (outside ns raw)
          else ans_eqb a APanic && kvs_eqb raw' raw
      end
  | VDel v mu k =>
      match enc_path (vpath v) with
      | None => true
      | Some ns =>
          if mu then ans_eqb a AUnit && kvs_eqb (window ns raw') (delete bcmp k (window ns raw))
                     && kvs_eqb (outside ns raw') (outside ns raw)
          else ans_eqb a APanic && kvs_eqb raw' raw
      end
  end.

(* the oracle walks the IMPLEMENTATION's observations: each step is judged against the raw store
   the implementation itself showed before it *)
Fixpoint oracle (raw : list kv) (ops : list op7) (obs : list obs7) (i : N) : option N :=
  match ops, obs with
  | [], [] => None
  | o :: ops', (a, raw') :: obs' => if ok_step raw o a raw' then oracle raw' ops' obs' (N.succ i) else Some i
  | _, _ => Some i
  end.

(* The App's storage starts empty (the harness clears it).  First the property oracle on what the
   implementation did, then the correspondence with the mechanism model. *)
Definition c07 (ops : list op7) (observed : list obs7) : verdict :=
  match oracle [] ops observed 0 with
  | Some i => PropFail i
  | None =>
      match first_diff obs_eqb (run_model [] ops) observed 0 with
      | Some i => Disagree i
      | None => Agree
      end
  end.

(* ---------- the oracle accepts the model's own output, for all inputs ---------- *)
Lemma vprefix_enc v : vprefix v = enc_path (vpath v).
Proof. destruct v as [s|p]; cbn [vprefix vpath]; [apply single_eq|apply nested_eq]. Qed.

Lemma m_step_sorted raw o : srt raw -> srt (snd (m_step raw o)).
Proof.
  intros H. destruct o as [k x|k|k|s e o|v mu k|v mu s e o|v mu k x|v mu k]; cbn [m_step snd]; auto.
  - apply b_insert_sorted, H.
  - apply b_delete_sorted, H.
  - destruct (vprefix v); exact H.
  - destruct (vprefix v) as [ns|]; [|exact H]. destruct (v_range ns raw s e o); exact H.
  - destruct (vprefix v) as [ns|]; [|exact H]. destruct mu; [|exact H]. apply v_set_spec, H.
  - destruct (vprefix v) as [ns|]; [|exact H]. destruct mu; [|exact H]. apply v_remove_spec, H.
Qed.

Lemma m_step_ok raw o : srt raw -> ok_step raw o (fst (m_step raw o)) (snd (m_step raw o)) = true.
Proof.
  intros H. destruct o as [k x|k|k|s e o|v mu k|v mu s e o|v mu k x|v mu k]; cbn [m_step ok_step]; auto;
    rewrite <- vprefix_enc; destruct (vprefix v) as [ns|]; try reflexivity.
  - cbn [fst snd]. rewrite v_get_spec, ans_eqb_refl, kvs_eqb_refl. reflexivity.
  - rewrite v_range_spec. cbn [fst snd]. rewrite ans_eqb_refl, kvs_eqb_refl. reflexivity.
  - destruct mu; cbn [fst snd].
    + destruct (v_set_spec ns raw k x H) as (_ & -> & ->). rewrite !kvs_eqb_refl. reflexivity.
    + rewrite kvs_eqb_refl. reflexivity.
  - destruct mu; cbn [fst snd].
    + destruct (v_remove_spec ns raw k H) as (_ & -> & ->). rewrite !kvs_eqb_refl. reflexivity.
    + rewrite kvs_eqb_refl. reflexivity.
Qed.

Lemma model_ok_from raw ops i : srt raw -> oracle raw ops (run_model raw ops) i = None.
Proof.
  revert raw i. induction ops as [|o ops IH]; intros raw i H; cbn [run_model oracle]; [reflexivity|].
  destruct (m_step raw o) as [a raw'] eqn:E. cbn [snd].
  pose proof (m_step_ok raw o H) as K. pose proof (m_step_sorted raw o H) as S.
  rewrite E in K, S. cbn [fst snd] in K, S. rewrite K. apply IH, S.
Qed.

Lemma model_ok ops : oracle [] ops (run_model [] ops) 0 = None.
Proof. apply model_ok_from. constructor. Qed.

(* ... so a case on which implementation and model agree satisfies the property oracle *)
Lemma obs_eqb_eq a b : obs_eqb a b = true <-> a = b.
Proof.
  assert (KV : forall x y : kv, kv_eqb x y = true <-> x = y).
  { intros [x1 x2] [y1 y2]. unfold kv_eqb, pair_eqb. cbn. rewrite andb_true_iff, !beqb_eq.
    split; [intros [-> ->]; reflexivity|intros E; injection E; auto]. }
  assert (KVS : forall x y, kvs_eqb x y = true <-> x = y) by (apply list_eqb_eq, KV).
  assert (AN : forall x y, ans_eqb x y = true <-> x = y).
  { intros [|[x|]|x|] [|[y|]|y|]; cbn; try (split; (reflexivity || discriminate)).
    - rewrite beqb_eq. split; congruence.
    - rewrite KVS. split; congruence. }
  destruct a as [a1 a2], b as [b1 b2]. unfold obs_eqb, pair_eqb. cbn. rewrite andb_true_iff, AN, KVS.
  split; [intros [-> ->]; reflexivity|intros E; injection E; auto].
Qed.

Lemma first_diff_none_eq {A} (eqb : A -> A -> bool) (H : forall a b, eqb a b = true <-> a = b) l1 :
  forall l2 i, first_diff eqb l1 l2 i = None -> l1 = l2.
Proof.
  induction l1 as [|x l1 IH]; intros [|y l2] i; cbn; try discriminate; [reflexivity|].
  destruct (eqb x y) eqn:E; [|discriminate]. apply H in E. subst y. intros F. f_equal. eapply IH, F.
Qed.

Lemma agree_sound ops observed : c07 ops observed = Agree ->
  observed = run_model [] ops /\ oracle [] ops observed 0 = None.
Proof.
  unfold c07. destruct (oracle [] ops observed 0) eqn:O; [discriminate|].
  destruct (first_diff obs_eqb (run_model [] ops) observed 0) eqn:F; [discriminate|].
  intros _. split; [|reflexivity]. symmetry. eapply first_diff_none_eq; [apply obs_eqb_eq|exact F].
Qed.

(* read-only views reject writes: whatever the path and key, the outcome is a panic and the raw
   store is the same value *)
Lemma readonly_step raw v k x :
  (exists ns, vprefix v = Some ns) ->
  m_step raw (VSet v false k x) = (APanic, raw) /\ m_step raw (VDel v false k) = (APanic, raw).
Proof. intros [ns E]. cbn [m_step]. rewrite E. auto. Qed.
