(* Chk07.v — C07: the operation language shared with the harness (operations through prefixed
   views obtained from App and raw access to App's storage), the mechanism model, the property
   oracle, and the per-case check. *)
From Verif Require Import Base OMap Tx Prefix.

From Coq Require Import Sorted.

Notation kv := (bytes * bytes)%type.

(* which constructor made the view: App::prefixed_storage(_mut)(seg) or
   App::prefixed_multilevel_storage(_mut)(path)  (app.rs:364-388) *)
Inductive vref := VSingle (seg : bytes) | VMulti (p : list bytes).

(* the namespace path a view stands for (SPEC side) *)
Definition vpath (v : vref) : list bytes := match v with VSingle s => [s] | VMulti p => p end.

(* the prefix the view is built with (MECHANISM side): PrefixedStorage::new / ::multilevel and the
   Readonly twins, mod.rs:46-61 and 97-112.  None = the constructor panics (segment > 65535 bytes). *)
Definition vprefix (v : vref) : option bytes :=
  match v with VSingle s => to_length_prefixed s | VMulti p => to_length_prefixed_nested p end.

(* [mu] = true: the view came from the `_mut` accessor (PrefixedStorage); false: read-only accessor
   (ReadonlyPrefixedStorage).  In the first pass of the harness every operation builds its view afresh
   from the App; in the second pass (long-lived views, end of this file) consecutive operations on
   one view go through ONE object.  A view object holds nothing but the base reference and its prefix
   (mod.rs:39-42, 91-94) and every method is a function of (base, prefix, arguments) (mod.rs:64-87,
   114-137): the mechanism model below is therefore the same for both passes. *)
Inductive op7 :=
| RawSet (k x : bytes)                                    (* app.storage_mut().set *)
| RawDel (k : bytes)                                      (* app.storage_mut().remove *)
| RawGet (k : bytes)                                      (* app.storage().get *)
| RawRange (s e : option bytes) (o : order)               (* app.storage().range *)
| VGet (v : vref) (mu : bool) (k : bytes)
| VRange (v : vref) (mu : bool) (s e : option bytes) (o : order)
| VSet (v : vref) (mu : bool) (k x : bytes)
| VDel (v : vref) (mu : bool) (k : bytes).

Inductive ans := AUnit | AGet (x : option bytes) | ARange (l : list kv) | APanic.

(* one observation = the answer of the operation and the full raw dump of App's storage after it *)
Definition obs7 := (ans * list kv)%type.

(* ---------- MECHANISM: what the code does, step by step ---------- *)
Definition m_step (raw : list kv) (o : op7) : obs7 :=
  match o with
  | RawSet k x => (AUnit, insert bcmp k x raw)
  | RawDel k => (AUnit, delete bcmp k raw)
  | RawGet k => (AGet (assoc bcmp k raw), raw)
  | RawRange s e o => (ARange (map_range bcmp raw s e o), raw)
  | VGet v _ k =>
      match vprefix v with
      | None => (APanic, raw)
      | Some ns => (AGet (v_get ns raw k), raw)
      end
  | VRange v _ s e o =>
      match vprefix v with
      | None => (APanic, raw)
      | Some ns => match v_range ns raw s e o with Ok l => (ARange l, raw) | _ => (APanic, raw) end
      end
  | VSet v mu k x =>
      match vprefix v with
      | None => (APanic, raw)
      | Some ns => if mu then (AUnit, v_set ns raw k x)
                   else (APanic, raw)                      (* ReadonlyPrefixedStorage::set = unimplemented!(), mod.rs:130-132 *)
      end
  | VDel v mu k =>
      match vprefix v with
      | None => (APanic, raw)
      | Some ns => if mu then (AUnit, v_remove ns raw k)
                   else (APanic, raw)                      (* ReadonlyPrefixedStorage::remove = unimplemented!(), mod.rs:134-136 *)
      end
  end.

Fixpoint run_model (raw : list kv) (ops : list op7) : list obs7 :=
  match ops with
  | [] => []
  | o :: ops' => let r := m_step raw o in r :: run_model (snd r) ops'
  end.

(* ---------- equality tests ---------- *)
Definition kv_eqb : kv -> kv -> bool := pair_eqb beqb beqb.
Definition kvs_eqb : list kv -> list kv -> bool := list_eqb kv_eqb.
Definition ans_eqb (a b : ans) : bool :=
  match a, b with
  | AUnit, AUnit => true
  | AGet x, AGet y => option_eqb beqb x y
  | ARange x, ARange y => kvs_eqb x y
  | APanic, APanic => true
  | _, _ => false
  end.
Definition obs_eqb : obs7 -> obs7 -> bool := pair_eqb ans_eqb kvs_eqb.

Lemma beqb_refl a : beqb a a = true. Proof. apply beqb_eq. reflexivity. Qed.
Lemma kv_eqb_refl a : kv_eqb a a = true.
Proof. unfold kv_eqb, pair_eqb. rewrite !beqb_refl. reflexivity. Qed.
Lemma kvs_eqb_refl l : kvs_eqb l l = true.
Proof. induction l as [|x l IH]; cbn; [reflexivity|]. rewrite kv_eqb_refl. exact IH. Qed.
Lemma ans_eqb_refl a : ans_eqb a a = true.
Proof. destruct a as [|[x|]|l|]; cbn; auto using beqb_refl, kvs_eqb_refl. Qed.

(* ---------- PROPERTY ORACLE on one observed step ----------
   [raw] = the raw store before the operation (as observed), [a] = the implementation's answer,
   [raw'] = the raw store after it (as observed).  Paths outside the property's quantifier (a
   segment above 65535 bytes) and direct access to the base are not constrained by C07. *)
Definition ok_step (raw : list kv) (o : op7) (a : ans) (raw' : list kv) : bool :=
  match o with
  | RawSet _ _ | RawDel _ | RawGet _ | RawRange _ _ _ => true
  | VGet v _ k =>
      match enc_path (vpath v) with
      | None => true
      | Some ns => ans_eqb a (AGet (assoc bcmp k (window ns raw))) && kvs_eqb raw' raw
      end
  | VRange v _ s e o =>
      match enc_path (vpath v) with
      | None => true
      | Some ns => ans_eqb a (ARange (spec_range bcmp (window ns raw) s e o)) && kvs_eqb raw' raw
      end
  | VSet v mu k x =>
      match enc_path (vpath v) with
      | None => true
      | Some ns =>
          if mu then ans_eqb a AUnit && kvs_eqb (window ns raw') (insert bcmp k x (window ns raw))
                     && kvs_eqb (outside ns raw') (outside ns raw)
          else ans_eqb a APanic && kvs_eqb raw' raw
      end
  | VDel v mu k =>
      match enc_path (vpath v) with
      | None => true
      | Some ns =>
          if mu then ans_eqb a AUnit && kvs_eqb (window ns raw') (delete bcmp k (window ns raw))
                     && kvs_eqb (outside ns raw') (outside ns raw)
          else ans_eqb a APanic && kvs_eqb raw' raw
      end
  end.

(* the oracle walks the IMPLEMENTATION's observations: each step is judged against the raw store
   the implementation itself showed before it *)
Fixpoint oracle (raw : list kv) (ops : list op7) (obs : list obs7) (i : N) : option N :=
  match ops, obs with
  | [], [] => None
  | o :: ops', (a, raw') :: obs' => if ok_step raw o a raw' then oracle raw' ops' obs' (N.succ i) else Some i
  | _, _ => Some i
  end.

(* The App's storage starts empty (the harness clears it).  First the property oracle on what the
   implementation did, then the correspondence with the mechanism model. *)
Definition c07 (ops : list op7) (observed : list obs7) : verdict :=
  match oracle [] ops observed 0 with
  | Some i => PropFail i
  | None =>
      match first_diff obs_eqb (run_model [] ops) observed 0 with
      | Some i => Disagree i
      | None => Agree
      end
  end.

(* ---------- the oracle accepts the model's own output, for all inputs ---------- *)
Lemma vprefix_enc v : vprefix v = enc_path (vpath v).
Proof. destruct v as [s|p]; cbn [vprefix vpath]; [apply single_eq|apply nested_eq]. Qed.

Lemma m_step_sorted raw o : srt raw -> srt (snd (m_step raw o)).
Proof.
  intros H. destruct o as [k x|k|k|s e o|v mu k|v mu s e o|v mu k x|v mu k]; cbn [m_step snd]; auto.
  - apply b_insert_sorted, H.
  - apply b_delete_sorted, H.
  - destruct (vprefix v); exact H.
  - destruct (vprefix v) as [ns|]; [|exact H]. destruct (v_range ns raw s e o); exact H.
  - destruct (vprefix v) as [ns|]; [|exact H]. destruct mu; [|exact H]. apply v_set_spec, H.
  - destruct (vprefix v) as [ns|]; [|exact H]. destruct mu; [|exact H]. apply v_remove_spec, H.
Qed.

Lemma m_step_ok raw o : srt raw -> ok_step raw o (fst (m_step raw o)) (snd (m_step raw o)) = true.
Proof.
  intros H. destruct o as [k x|k|k|s e o|v mu k|v mu s e o|v mu k x|v mu k]; cbn [m_step ok_step]; auto;
    rewrite <- vprefix_enc; destruct (vprefix v) as [ns|]; try reflexivity.
  - cbn [fst snd]. rewrite v_get_spec, ans_eqb_refl, kvs_eqb_refl. reflexivity.
  - rewrite v_range_spec. cbn [fst snd]. rewrite ans_eqb_refl, kvs_eqb_refl. reflexivity.
  - destruct mu; cbn [fst snd].
    + destruct (v_set_spec ns raw k x H) as (_ & -> & ->). rewrite !kvs_eqb_refl. reflexivity.
    + rewrite kvs_eqb_refl. reflexivity.
  - destruct mu; cbn [fst snd].
    + destruct (v_remove_spec ns raw k H) as (_ & -> & ->). rewrite !kvs_eqb_refl. reflexivity.
    + rewrite kvs_eqb_refl. reflexivity.
Qed.

Lemma model_ok_from raw ops i : srt raw -> oracle raw ops (run_model raw ops) i = None.
Proof.
  revert raw i. induction ops as [|o ops IH]; intros raw i H; cbn [run_model oracle]; [reflexivity|].
  destruct (m_step raw o) as [a raw'] eqn:E. cbn [snd].
  pose proof (m_step_ok raw o H) as K. pose proof (m_step_sorted raw o H) as S.
  rewrite E in K, S. cbn [fst snd] in K, S. rewrite K. apply IH, S.
Qed.

Lemma model_ok ops : oracle [] ops (run_model [] ops) 0 = None.
Proof. apply model_ok_from. constructor. Qed.

(* ... so a case on which implementation and model agree satisfies the property oracle *)
Lemma obs_eqb_eq a b : obs_eqb a b = true <-> a = b.
Proof.
  assert (KV : forall x y : kv, kv_eqb x y = true <-> x = y).
  { intros [x1 x2] [y1 y2]. unfold kv_eqb, pair_eqb. cbn. rewrite andb_true_iff, !beqb_eq.
    split; [intros [-> ->]; reflexivity|intros E; injection E; auto]. }
  assert (KVS : forall x y, kvs_eqb x y = true <-> x = y) by (apply list_eqb_eq, KV).
  assert (AN : forall x y, ans_eqb x y = true <-> x = y).
  { intros [|[x|]|x|] [|[y|]|y|]; cbn; try (split; (reflexivity || discriminate)).
    - rewrite beqb_eq. split; congruence.
    - rewrite KVS. split; congruence. }
  destruct a as [a1 a2], b as [b1 b2]. unfold obs_eqb, pair_eqb. cbn. rewrite andb_true_iff, AN, KVS.
  split; [intros [-> ->]; reflexivity|intros E; injection E; auto].
Qed.

Lemma first_diff_none_eq {A} (eqb : A -> A -> bool) (H : forall a b, eqb a b = true <-> a = b) l1 :
  forall l2 i, first_diff eqb l1 l2 i = None -> l1 = l2.
Proof.
  induction l1 as [|x l1 IH]; intros [|y l2] i; cbn; try discriminate; [reflexivity|].
  destruct (eqb x y) eqn:E; [|discriminate]. apply H in E. subst y. intros F. f_equal. eapply IH, F.
Qed.

Lemma agree_sound ops observed : c07 ops observed = Agree ->
  observed = run_model [] ops /\ oracle [] ops observed 0 = None.
Proof.
  unfold c07. destruct (oracle [] ops observed 0) eqn:O; [discriminate|].
  destruct (first_diff obs_eqb (run_model [] ops) observed 0) eqn:F; [discriminate|].
  intros _. split; [|reflexivity]. symmetry. eapply first_diff_none_eq; [apply obs_eqb_eq|exact F].
Qed.

(* read-only views reject writes: whatever the path and key, the outcome is a panic and the raw
   store is the same value *)
Lemma readonly_step raw v k x :
  (exists ns, vprefix v = Some ns) ->
  m_step raw (VSet v false k x) = (APanic, raw) /\ m_step raw (VDel v false k) = (APanic, raw).
Proof. intros [ns E]. cbn [m_step]. rewrite E. auto. Qed.

(* ====================================================================================================
   LONG-LIVED VIEW OBJECTS.  Second pass of the harness over the same script: every maximal run of
   consecutive operations on one view (same constructor, same path, same accessor) is performed
   through ONE `Box<dyn Storage>` obtained once from the App.  While a mutable view is alive the
   borrow rules forbid looking at `App::storage()`, so the raw dump is observed only where the object
   has been dropped: an observation of this pass is (answer, Some dump) or (answer, None).
   ==================================================================================================== *)
Definition obs7l := (ans * option (list kv))%type.

Definition vref_eqb (a b : vref) : bool :=
  match a, b with
  | VSingle s, VSingle t => beqb s t
  | VMulti p, VMulti q => list_eqb beqb p q
  | _, _ => false
  end.

Definition view_of (o : op7) : option (vref * bool) :=
  match o with
  | VGet v mu _ => Some (v, mu)
  | VRange v mu _ _ _ => Some (v, mu)
  | VSet v mu _ _ => Some (v, mu)
  | VDel v mu _ => Some (v, mu)
  | _ => None
  end.

Definition is_vop (o : op7) : bool := match view_of o with Some _ => true | None => false end.

Definition same_view (o o' : op7) : bool :=
  match view_of o, view_of o' with
  | Some (v, mu), Some (v', mu') => vref_eqb v v' && Bool.eqb mu mu'
  | _, _ => false
  end.

(* shape of a long-lived observation list: one observation per operation, and a dump may be withheld
   only between two consecutive operations on the same view *)
Fixpoint ll_shape (ops : list op7) (obs : list obs7l) : bool :=
  match ops, obs with
  | [], [] => true
  | o :: ops', (_, d) :: obs' =>
      match d with
      | Some _ => true
      | None => match ops' with o' :: _ => same_view o o' | [] => false end
      end && ll_shape ops' obs'
  | _, _ => false
  end.

(* what the PROPERTY demands of one operation through a view of an encodable path, as a function of
   the raw store before it: the answer, and the raw store afterwards — the base with its window
   replaced and its complement kept ([split_window]: for sorted stores this is the only raw' that
   [ok_step] accepts).  None: C07 does not constrain the operation. *)
Definition spec_step (raw : list kv) (o : op7) : option obs7 :=
  match o with
  | RawSet _ _ | RawDel _ | RawGet _ | RawRange _ _ _ => None
  | VGet v _ k =>
      match enc_path (vpath v) with
      | None => None
      | Some ns => Some (AGet (assoc bcmp k (window ns raw)), raw)
      end
  | VRange v _ s e o =>
      match enc_path (vpath v) with
      | None => None
      | Some ns => Some (ARange (spec_range bcmp (window ns raw) s e o), raw)
      end
  | VSet v mu k x =>
      match enc_path (vpath v) with
      | None => None
      | Some ns => Some (if mu then (AUnit, replace_window ns (insert bcmp k x (window ns raw)) raw) else (APanic, raw))
      end
  | VDel v mu k =>
      match enc_path (vpath v) with
      | None => None
      | Some ns => Some (if mu then (AUnit, replace_window ns (delete bcmp k (window ns raw)) raw) else (APanic, raw))
      end
  end.

(* the property oracle on a long-lived pass.  Where the dump is shown the step is judged by [ok_step],
   exactly as in the first pass, against the raw store carried so far, and the walk goes on from the
   dump the implementation showed.  Where it is withheld the answer must be the one the property
   demands and the walk goes on from the raw store the property demands, so that the next shown dump
   is judged against the composition of the hidden steps. *)
Fixpoint oracle_ll (raw : list kv) (ops : list op7) (obs : list obs7l) (i : N) : option N :=
  match ops, obs with
  | [], [] => None
  | o :: ops', (a, Some raw') :: obs' =>
      if ok_step raw o a raw' then oracle_ll raw' ops' obs' (N.succ i) else Some i
  | o :: ops', (a, None) :: obs' =>
      if is_vop o then
        match spec_step raw o with
        | Some (a0, r0) => if ans_eqb a a0 then oracle_ll r0 ops' obs' (N.succ i) else Some i
        | None => oracle_ll raw ops' obs' (N.succ i)      (* unencodable path: every step of the run is unconstrained *)
        end
      else Some i                                          (* a dump is never withheld after direct access to the base *)
  | _, _ => Some i
  end.

(* full observations (first pass, or the model) against long-lived ones: same answers, same dumps
   wherever a dump is shown *)
Definition obs_ll_eqb (m : obs7) (x : obs7l) : bool :=
  ans_eqb (fst m) (fst x) && match snd x with Some d => kvs_eqb (snd m) d | None => true end.

Fixpoint first_diff_ll (l1 : list obs7) (l2 : list obs7l) (i : N) : option N :=
  match l1, l2 with
  | [], [] => None
  | x :: l1', y :: l2' => if obs_ll_eqb x y then first_diff_ll l1' l2' (N.succ i) else Some i
  | _, _ => Some i
  end.

(* The case with both passes.  [observed] is judged by [c07].  The long-lived pass is then judged by
   the same oracle and the same model; indices of its observations are reported shifted by the
   number of operations.  When it shows nothing that the first pass did not show (same answers, same
   dumps) the verdict Agree of the first pass carries over: [agree_sound_ll] proves that the oracle
   and the model accept it — the evaluation of both is skipped only then. *)
Definition c07l (ops : list op7) (observed : list obs7) (observed_ll : list obs7l) : verdict :=
  match c07 ops observed with
  | Agree =>
      let n := N.of_nat (length ops) in
      if ll_shape ops observed_ll then
        match first_diff_ll observed observed_ll 0 with
        | None => Agree
        | Some _ =>
            match oracle_ll [] ops observed_ll 0 with
            | Some i => PropFail (n + i)
            | None =>
                match first_diff_ll (run_model [] ops) observed_ll 0 with
                | Some i => Disagree (n + i)
                | None => Agree
                end
            end
        end
      else Disagree (n + n)
  | v => v
  end.

(* ---------- the long-lived oracle accepts every well-shaped partial view of the model's output ---------- *)
Lemma ans_eqb_eq x y : ans_eqb x y = true <-> x = y.
Proof.
  split; [|intros ->; apply ans_eqb_refl].
  intros H. pose proof (proj1 (obs_eqb_eq (x, []) (y, []))) as K.
  unfold obs_eqb, pair_eqb in K. cbn [fst snd] in K. rewrite H in K. specialize (K eq_refl). congruence.
Qed.

Lemma kvs_eqb_eq x y : kvs_eqb x y = true <-> x = y.
Proof.
  split; [|intros ->; apply kvs_eqb_refl].
  intros H. pose proof (proj1 (obs_eqb_eq (AUnit, x) (AUnit, y))) as K.
  unfold obs_eqb, pair_eqb in K. cbn [fst snd ans_eqb andb] in K. specialize (K H). congruence.
Qed.

(* on sorted stores the mechanism does what the property demands, and leaves the store alone where
   the path cannot be encoded *)
Lemma spec_step_model raw o : srt raw ->
  match spec_step raw o with
  | Some r => m_step raw o = r
  | None => is_vop o = true -> snd (m_step raw o) = raw
  end.
Proof.
  intros H. destruct o as [k x|k|k|s e o|v mu k|v mu s e o|v mu k x|v mu k]; cbn [spec_step m_step is_vop view_of];
    try discriminate; rewrite <- vprefix_enc; destruct (vprefix v) as [ns|]; try reflexivity.
  - rewrite v_get_spec. reflexivity.
  - rewrite v_range_spec. reflexivity.
  - destruct mu; [|reflexivity]. f_equal.
    destruct (v_set_spec ns raw k x H) as (S & W & O). rewrite <- W. apply split_window; assumption.
  - destruct mu; [|reflexivity]. f_equal.
    destruct (v_remove_spec ns raw k H) as (S & W & O). rewrite <- W. apply split_window; assumption.
Qed.

Lemma same_view_vop o o' : same_view o o' = true -> is_vop o = true.
Proof. unfold same_view, is_vop. destruct (view_of o) as [[v mu]|]; [reflexivity|discriminate]. Qed.

Lemma model_ok_ll_from ops : forall raw obs i j, srt raw -> ll_shape ops obs = true ->
  first_diff_ll (run_model raw ops) obs j = None -> oracle_ll raw ops obs i = None.
Proof.
  induction ops as [|o ops IH]; intros raw [|[a d] obs] i j H S F; cbn [run_model first_diff_ll ll_shape] in *;
    try discriminate; [reflexivity|].
  destruct (obs_ll_eqb (m_step raw o) (a, d)) eqn:E; [|discriminate].
  unfold obs_ll_eqb in E. cbn [fst snd] in E. apply andb_true_iff in E as [Ea Ed]. apply ans_eqb_eq in Ea. subst a.
  apply andb_true_iff in S as [Sd S].
  pose proof (m_step_sorted raw o H) as Hs.
  destruct d as [raw'|]; cbn [oracle_ll].
  - apply kvs_eqb_eq in Ed. subst raw'. rewrite (m_step_ok raw o H). eapply IH; eassumption.
  - assert (V : is_vop o = true) by (destruct ops as [|o' ops']; [discriminate|eapply same_view_vop, Sd]).
    rewrite V. pose proof (spec_step_model raw o H) as M. destruct (spec_step raw o) as [[a0 r0]|].
    + rewrite M in *. cbn [fst snd] in *. rewrite ans_eqb_refl. eapply IH; eassumption.
    + rewrite (M V) in *. eapply IH; eassumption.
Qed.

Lemma model_ok_ll ops obs : ll_shape ops obs = true ->
  first_diff_ll (run_model [] ops) obs 0 = None -> oracle_ll [] ops obs 0 = None.
Proof. intros S F. eapply model_ok_ll_from; [constructor|exact S|exact F]. Qed.

(* the harness's own way of hiding: the dump after an operation is withheld exactly when the next
   operation is on the same view (maximal runs) *)
Fixpoint hide_runs (ops : list op7) (obs : list obs7) : list obs7l :=
  match ops, obs with
  | o :: ops', (a, d) :: obs' =>
      (a, match ops' with o' :: _ => if same_view o o' then None else Some d | [] => Some d end) :: hide_runs ops' obs'
  | _, _ => []
  end.

Lemma hide_runs_shape ops : forall raw, ll_shape ops (hide_runs ops (run_model raw ops)) = true.
Proof.
  induction ops as [|o ops IH]; intros raw; cbn [run_model hide_runs ll_shape]; [reflexivity|].
  destruct (m_step raw o) as [a d] eqn:E. cbn [snd ll_shape]. rewrite IH.
  destruct ops as [|o' ops']; [reflexivity|]. destruct (same_view o o'); reflexivity.
Qed.

Lemma hide_runs_match ops : forall raw j, first_diff_ll (run_model raw ops) (hide_runs ops (run_model raw ops)) j = None.
Proof.
  induction ops as [|o ops IH]; intros raw j; cbn [run_model hide_runs first_diff_ll]; [reflexivity|].
  destruct (m_step raw o) as [a d] eqn:E. cbn [snd first_diff_ll].
  assert (X : obs_ll_eqb (a, d) (a, match ops with o' :: _ => if same_view o o' then None else Some d | [] => Some d end) = true).
  { unfold obs_ll_eqb. cbn [fst snd]. rewrite ans_eqb_refl.
    destruct ops as [|o' ops']; [apply kvs_eqb_refl|]. destruct (same_view o o'); [reflexivity|apply kvs_eqb_refl]. }
  rewrite X. apply IH.
Qed.

Lemma model_ok_ll_runs ops : oracle_ll [] ops (hide_runs ops (run_model [] ops)) 0 = None.
Proof. apply model_ok_ll; [apply hide_runs_shape|apply hide_runs_match]. Qed.

(* a case with both passes that the check calls Agree: the first pass equals the model's output and
   satisfies the oracle, the long-lived pass is well-shaped, shows the model's answers and the model's
   dumps wherever it shows a dump, and satisfies the long-lived oracle *)
Lemma agree_sound_ll ops observed observed_ll : c07l ops observed observed_ll = Agree ->
  observed = run_model [] ops /\ oracle [] ops observed 0 = None /\
  ll_shape ops observed_ll = true /\ first_diff_ll (run_model [] ops) observed_ll 0 = None /\
  oracle_ll [] ops observed_ll 0 = None.
Proof.
  unfold c07l. destruct (c07 ops observed) eqn:C; try discriminate.
  apply agree_sound in C as [-> O]. cbn zeta.
  destruct (ll_shape ops observed_ll) eqn:S; [|discriminate].
  destruct (first_diff_ll (run_model [] ops) observed_ll 0) eqn:F.
  - destruct (oracle_ll [] ops observed_ll 0); discriminate.
  - intros _. repeat split; auto. apply model_ok_ll; assumption.
Qed.
