(* ExecFacts2.v — lemmas for C04, C05, C08, C10–C13 about the executor model. *)
From Verif Require Import Base OMap Text Proto Bank Exec ExecFacts.
Local Open Scope N_scope.

Definition node_of (p : prog) : N := match p with Prog n _ _ => n end.

(* the code currently serving contract c, if the entry point exists *)
Definition serving (e : env) (s : chain) (c : text) (entry : ep) : option code :=
  match lookup c (reg s) with
  | Some cd => match find_code (cd_code cd) (codes e) with
               | Some co => if ep_available co entry then Some co else None
               | None => None end
  | None => None
  end.

(* ---------- shape of one contract call (C04, C05, C13) ---------- *)

(* Either the call fails before the contract runs (nothing logged), or the FIRST thing logged is the
   header: callee = the address the call was routed to, sender / funds / reply exactly as handed in,
   the environment's block, and the tag of the code registered for that address right now. *)
Lemma run_prog_head e entry c sender funds rep cid rok p s :
  match serving e s c entry with
  | Some co => exists rest, trc (run_prog e entry c sender funds rep cid rok p s) =
                            RCall (node_of p) entry c sender funds (blk e) (c_tag co) rep :: rest
  | None => run_prog e entry c sender funds rep cid rok p s = ([], Err)
  end.
Proof.
  unfold serving. destruct p as [node acts out]. cbn [run_prog node_of].
  destruct (lookup c (reg s)) as [cd|]; [|reflexivity].
  destruct (find_code (cd_code cd) (codes e)) as [co|]; [|reflexivity].
  destruct (ep_available co entry); cbn [negb]; [|reflexivity].
  destruct (run_actions e s node (cstore_get s c) acts) as [tr_a own'].
  destruct out as [|attrs events data sbs]; [eexists; reflexivity|].
  destruct (verify_response attrs events); [eexists; reflexivity|].
  destruct (process_subs e c sbs data (cstore_set s c own')) as [tr_s [[[ev d] s2]| |]]; eexists; reflexivity.
Qed.

(* a malformed response makes the call fail, at EVERY entry point, whatever else the response holds;
   no state is handed on (the callee's writes die with the enclosing cache) *)
Lemma malformed_rejected e entry c sender funds rep cid rok node acts attrs events data sbs s r :
  verify_response attrs events = Some r ->
  outc (run_prog e entry c sender funds rep cid rok (Prog node acts (OResp attrs events data sbs)) s) = Err.
Proof.
  intros H. cbn [run_prog].
  destruct (lookup c (reg s)) as [cd|]; [|reflexivity].
  destruct (find_code (cd_code cd) (codes e)) as [co|]; [|reflexivity].
  destruct (negb (ep_available co entry)); [reflexivity|].
  destruct (run_actions e s node (cstore_get s c) acts) as [tr_a own']. rewrite H. reflexivity.
Qed.

(* ... and it is rejected BEFORE any sub-message is dispatched: the log holds the body only *)
Lemma malformed_no_dispatch e entry c sender funds rep cid rok node acts attrs events data sbs s r :
  verify_response attrs events = Some r ->
  trc (run_prog e entry c sender funds rep cid rok (Prog node acts (OResp attrs events data sbs)) s) =
  trc (run_prog e entry c sender funds rep cid rok (Prog node acts (OResp attrs events data SNil)) s).
Proof.
  intros H. cbn [run_prog].
  destruct (lookup c (reg s)) as [cd|]; [|reflexivity].
  destruct (find_code (cd_code cd) (codes e)) as [co|]; [|reflexivity].
  destruct (negb (ep_available co entry)); [reflexivity|].
  destruct (run_actions e s node (cstore_get s c) acts) as [tr_a own']. rewrite H. reflexivity.
Qed.

(* a successful call: the response was well-formed, the body's writes were flushed into the callee's own
   key space only, and events / data are composed as base events ++ sub-message events, fold of data *)
Lemma run_prog_ok_shape e entry c sender funds rep cid rok node acts attrs events data sbs s ev d s' :
  outc (run_prog e entry c sender funds rep cid rok (Prog node acts (OResp attrs events data sbs)) s) = Ok ((ev, d), s') ->
  verify_response attrs events = None /\
  exists ev_s, ev = base_events c (ep_event entry c cid rok) attrs events ++ ev_s /\
               subs_ok_spec e c sbs data (cstore_set s c (snd (run_actions e s node (cstore_get s c) acts))) ev_s d s'.
Proof.
  cbn [run_prog].
  destruct (lookup c (reg s)) as [cd|]; [|discriminate].
  destruct (find_code (cd_code cd) (codes e)) as [co|]; [|discriminate].
  destruct (negb (ep_available co entry)); [discriminate|].
  destruct (run_actions e s node (cstore_get s c) acts) as [tr_a own']. cbn [snd].
  destruct (verify_response attrs events); [discriminate|].
  destruct (process_subs e c sbs data (cstore_set s c own')) as [tr_s [[[ev2 d2] s2]| |]] eqn:E; cbn; intros H; try discriminate.
  injection H as <- <- <-. split; [reflexivity|]. exists ev2. split; [reflexivity|].
  apply process_subs_ok_spec. rewrite E. reflexivity.
Qed.

Lemma body_failure_fails e entry c sender funds rep cid rok node acts s :
  outc (run_prog e entry c sender funds rep cid rok (Prog node acts OFail) s) = Err.
Proof.
  cbn [run_prog].
  destruct (lookup c (reg s)) as [cd|]; [|reflexivity].
  destruct (find_code (cd_code cd) (codes e)) as [co|]; [|reflexivity].
  destruct (negb (ep_available co entry)); [reflexivity|].
  destruct (run_actions e s node (cstore_get s c) acts) as [tr_a own']. reflexivity.
Qed.

(* ---------- base events: every attribute and event surfaces verbatim (C04, C13) ---------- *)
Lemma base_events_spec c custom attrs events :
  base_events c custom attrs events =
  custom :: (match attrs with [] => [] | _ => [(t_wasm, (contract_attr, c) :: attrs)] end)
         ++ map (fun ev => (t_wasm_dash ++ fst ev, (contract_attr, c) :: snd ev)) events.
Proof. reflexivity. Qed.

(* ---------- C05: funds ---------- *)
Lemma exec_runs_after_funds e sender c p funds s :
  run_msg e sender (MExec c p funds) s =
  if negb (is_valid e c) then ([], Err) else
  match move_funds s sender c funds with
  | Ok s1 => let (tr, r) := run_prog e EExec c (Some sender) funds None 0 true p s1 in
             (tr, match r with Ok ((ev, d), s2) => Ok ((ev, option_map encode_exec_resp d), s2) | Err => Err | Panic => Panic end)
  | Err => ([], Err) | Panic => ([], Panic)
  end.
Proof.
  cbn [run_msg]. destruct (negb (is_valid e c)); [reflexivity|].
  destruct (move_funds s sender c funds); try reflexivity.
  destruct (run_prog e EExec c (Some sender) funds None 0 true p a) as [tr [[[ev d] s2]| |]]; reflexivity.
Qed.

(* attaching more than the sender owns (or a list without positive amount) fails without running the contract *)
Lemma overdraft_no_call e sender c p funds s :
  funds <> [] -> is_ok (bank_send (bank s) sender c funds) = false ->
  trc (run_msg e sender (MExec c p funds) s) = [] /\ is_ok (outc (run_msg e sender (MExec c p funds) s)) = false.
Proof.
  intros Hne Hb. rewrite exec_runs_after_funds. destruct (negb (is_valid e c)); [auto|].
  unfold move_funds. destruct funds as [|f fr]; [contradiction|].
  destruct (bank_send (bank s) sender c (f :: fr)); cbn in Hb; try discriminate; auto.
Qed.

Lemma move_funds_spec s from to funds s1 :
  move_funds s from to funds = Ok s1 ->
  reg s1 = reg s /\ cstore s1 = cstore s /\
  match funds with [] => bank s1 = bank s | _ => bank_send (bank s) from to funds = Ok (bank s1) end.
Proof.
  unfold move_funds. destruct funds as [|f fr].
  - intros H. injection H as <-. auto.
  - destruct (bank_send (bank s) from to (f :: fr)) as [b| |]; intros H; try discriminate.
    injection H as <-. auto.
Qed.

(* ---------- C08: a contract body touches its own key space only ---------- *)
Ltac blaws := first [apply bcmp_eq | apply bcmp_anti | apply bcmp_trans | assumption].
Lemma B_assoc_insert {A} k (a : A) l x : sorted bcmp l ->
  assoc bcmp x (insert bcmp k a l) = match bcmp x k with Eq => Some a | _ => assoc bcmp x l end.
Proof. intros H. apply assoc_insert; blaws. Qed.
Lemma B_assoc_delete {A} k (l : list (bytes * A)) x : sorted bcmp l ->
  assoc bcmp x (delete bcmp k l) = match bcmp x k with Eq => None | _ => assoc bcmp x l end.
Proof. intros H. apply assoc_delete; blaws. Qed.

Lemma cstore_set_frame s c m :
  bank (cstore_set s c m) = bank s /\ reg (cstore_set s c m) = reg s.
Proof. split; reflexivity. Qed.

Definition sorted_cstore (s : chain) : Prop := sorted bcmp (cstore s).

Lemma cstore_get_set_other s c m c' : sorted_cstore s -> c' <> c ->
  cstore_get (cstore_set s c m) c' = cstore_get s c'.
Proof.
  intros Hs Hne. unfold cstore_get, cstore_set, lookup, update. cbn [cstore].
  destruct m as [|kv m'].
  - rewrite B_assoc_delete by exact Hs.
    destruct (bcmp c' c) eqn:E; try reflexivity. apply bcmp_eq in E. contradiction.
  - rewrite B_assoc_insert by exact Hs.
    destruct (bcmp c' c) eqn:E; try reflexivity. apply bcmp_eq in E. contradiction.
Qed.

Lemma cstore_get_set_same s c m : sorted_cstore s -> cstore_get (cstore_set s c m) c = m.
Proof.
  intros Hs. unfold cstore_get, cstore_set, lookup, update. cbn [cstore].
  destruct m as [|kv m'].
  - rewrite B_assoc_delete by exact Hs.
    rewrite (proj2 (bcmp_eq c c) eq_refl). reflexivity.
  - rewrite B_assoc_insert by exact Hs.
    rewrite (proj2 (bcmp_eq c c) eq_refl). reflexivity.
Qed.

(* whatever the key bytes, the writes of a body end up in [own] and nowhere else; the state [s] the
   queries read is not changed by them *)
Lemma run_actions_own_only e s node : forall acts own,
  snd (run_actions e s node own acts) =
  fold_left (fun o a => match a with AWrite k v => insert bcmp k v o | ARemove k => delete bcmp k o | AQ _ => o end) acts own.
Proof.
  induction acts as [|a r IH]; intros own; cbn [run_actions fold_left snd]; [reflexivity|].
  destruct a as [k v|k|q]; try apply IH.
  specialize (IH own). destruct (run_actions e s node own r) as [tr' own']. exact IH.
Qed.

(* accessors agree: the contract's own read, a raw query, a dump — all denote cstore_get s c *)
Lemma raw_query_is_own_store e s node own c k : is_valid e c = true ->
  run_qact e s node own (QRaw c k) =
  [RObs node (VRaw (Some (match assoc bcmp k (cstore_get s c) with Some v => v | None => [] end)))].
Proof. intros H. cbn [run_qact]. rewrite H. reflexivity. Qed.

(* ---------- C10: queries that are not about the caller's own storage do not see its pending writes ---------- *)
Definition foreign_query (q : qact) : bool := match q with QRead _ | QDump => false | _ => true end.

Lemma foreign_query_ignores_own e s node own own' q : foreign_query q = true ->
  run_qact e s node own q = run_qact e s node own' q.
Proof. destruct q; cbn; intros H; try discriminate; reflexivity. Qed.

(* ---------- C11 / C12: registry ---------- *)
Lemma register_fresh e s code_id creator admin label salt a s1 :
  register_contract e s code_id creator admin label salt = Ok (a, s1) ->
  lookup a (reg s) = None /\ find_code code_id (codes e) <> None /\
  reg s1 = update a {| cd_code := code_id; cd_creator := creator; cd_admin := admin; cd_label := label;
                       cd_created := b_height (blk e) |} (reg s) /\
  bank s1 = bank s /\ cstore s1 = cstore s.
Proof.
  unfold register_contract. destruct (find_code code_id (codes e)) as [co|] eqn:Ec; [|discriminate].
  destruct (negb (salt_ok salt)); [discriminate|].
  destruct (new_address e s code_id creator salt) as [a0|]; [|discriminate].
  destruct (lookup a0 (reg s)) eqn:El; [discriminate|]. intros H. injection H as <- <-.
  repeat split; auto. discriminate.
Qed.

(* every stored code can be instantiated: the code-id check passes exactly for ids in the table *)
Lemma register_code_check e s code_id creator admin label salt :
  find_code code_id (codes e) = None -> register_contract e s code_id creator admin label salt = Err.
Proof. unfold register_contract. intros ->. reflexivity. Qed.

(* salted address: depends on checksum, creator and salt only *)
Lemma salted_address_function e s s' code_id code_id' creator salt co co' :
  find_code code_id (codes e) = Some co -> find_code code_id' (codes e) = Some co' ->
  c_checksum co = c_checksum co' ->
  new_address e s code_id creator (Some salt) = new_address e s' code_id' creator (Some salt).
Proof. unfold new_address. intros -> -> ->. reflexivity. Qed.

(* admin operations *)
Lemma update_admin_authorised e sender c a s r s' :
  outc (run_msg e sender (MUpdateAdmin c a) s) = Ok (r, s') ->
  exists cd, lookup c (reg s) = Some cd /\ cd_admin cd = Some sender /\
             reg s' = update c {| cd_code := cd_code cd; cd_creator := cd_creator cd; cd_admin := Some a;
                                  cd_label := cd_label cd; cd_created := cd_created cd |} (reg s) /\
             bank s' = bank s /\ cstore s' = cstore s.
Proof.
  cbn [run_msg]. destruct (negb (is_valid e c)); [discriminate|]. destruct (negb (is_valid e a)); [discriminate|].
  destruct (lookup c (reg s)) as [cd|]; [|discriminate].
  destruct (option_eqb beqb (cd_admin cd) (Some sender)) eqn:E; cbn [negb]; [|discriminate].
  cbn. intros H. injection H as <- <-. exists cd. repeat split; auto.
  destruct (cd_admin cd) as [x|]; cbn in E; [|discriminate]. apply beqb_eq in E. congruence.
Qed.

Lemma clear_admin_authorised e sender c s r s' :
  outc (run_msg e sender (MClearAdmin c) s) = Ok (r, s') ->
  exists cd, lookup c (reg s) = Some cd /\ cd_admin cd = Some sender /\
             reg s' = update c {| cd_code := cd_code cd; cd_creator := cd_creator cd; cd_admin := None;
                                  cd_label := cd_label cd; cd_created := cd_created cd |} (reg s) /\
             bank s' = bank s /\ cstore s' = cstore s.
Proof.
  cbn [run_msg]. destruct (negb (is_valid e c)); [discriminate|].
  destruct (lookup c (reg s)) as [cd|]; [|discriminate].
  destruct (option_eqb beqb (cd_admin cd) (Some sender)) eqn:E; cbn [negb]; [|discriminate].
  cbn. intros H. injection H as <- <-. exists cd. repeat split; auto.
  destruct (cd_admin cd) as [x|]; cbn in E; [|discriminate]. apply beqb_eq in E. congruence.
Qed.

(* migration: only by the current admin, only to a stored code; the migrate entry point of the NEW code
   runs at the SAME address on the existing storage (the registry already names the new code) *)
Lemma migrate_authorised e sender c new_code p s r s' :
  outc (run_msg e sender (MMigrate c new_code p) s) = Ok (r, s') ->
  exists cd, lookup c (reg s) = Some cd /\ cd_admin cd = Some sender /\ find_code new_code (codes e) <> None /\
    let s1 := set_reg s (update c {| cd_code := new_code; cd_creator := cd_creator cd; cd_admin := cd_admin cd;
                                     cd_label := cd_label cd; cd_created := cd_created cd |} (reg s)) in
    cstore s1 = cstore s /\ bank s1 = bank s /\
    exists ev d, outc (run_prog e EMigrate c None [] None new_code true p s1) = Ok ((ev, d), s') /\
                 r = (ev, option_map encode_exec_resp d).
Proof.
  cbn [run_msg]. destruct (negb (is_valid e c)); [discriminate|].
  destruct (find_code new_code (codes e)) eqn:Ec; [|discriminate].
  destruct (lookup c (reg s)) as [cd|]; [|discriminate].
  destruct (option_eqb beqb (cd_admin cd) (Some sender)) eqn:E; cbn [negb]; [|discriminate].
  match goal with |- context [run_prog e EMigrate c None [] None new_code true p ?s1] =>
    destruct (run_prog e EMigrate c None [] None new_code true p s1) as [tr [[[ev d] s2]| |]] eqn:Er end;
    cbn; intros H; try discriminate.
  injection H as <- <-. exists cd. split; [reflexivity|]. split.
  - destruct (cd_admin cd) as [x|]; cbn in E; [|discriminate]. apply beqb_eq in E. congruence.
  - split; [discriminate|]. cbn zeta. split; [reflexivity|]. split; [reflexivity|].
    exists ev, d. rewrite Er. auto.
Qed.

(* an unauthorised or otherwise failing admin operation returns no state: by C01/C02 the enclosing unit keeps its own *)
Lemma admin_op_unauthorised e sender c s cd :
  lookup c (reg s) = Some cd -> cd_admin cd <> Some sender ->
  (forall a, outc (run_msg e sender (MUpdateAdmin c a) s) = Err) /\
  outc (run_msg e sender (MClearAdmin c) s) = Err /\
  (forall n p, outc (run_msg e sender (MMigrate c n p) s) = Err /\ trc (run_msg e sender (MMigrate c n p) s) = []).
Proof.
  intros Hl Hn.
  assert (E : option_eqb beqb (cd_admin cd) (Some sender) = false).
  { destruct (cd_admin cd) as [x|]; cbn; [|reflexivity]. destruct (beqb x sender) eqn:B; [|reflexivity].
    apply beqb_eq in B. subst. contradiction. }
  repeat split; intros; cbn [run_msg].
  - destruct (negb (is_valid e c)); [reflexivity|]. destruct (negb (is_valid e a)); [reflexivity|]. rewrite Hl, E. reflexivity.
  - destruct (negb (is_valid e c)); [reflexivity|]. rewrite Hl, E. reflexivity.
  - destruct (negb (is_valid e c)); [reflexivity|]. destruct (find_code n (codes e)); [|reflexivity]. rewrite Hl, E. reflexivity.
  - destruct (negb (is_valid e c)); [reflexivity|]. destruct (find_code n (codes e)); [|reflexivity]. rewrite Hl, E. reflexivity.
Qed.
