(* Dec.v — the fixed-point arithmetic of cosmwasm-std 2.2.2 used by src/staking.rs:
   Decimal (18 decimals, a Uint128 of atomics) and Uint128, with the exact floors and the exact
   panic points.  Model + lemmas only (no pinned theorems).

   Sources (~/.cargo/registry/src/.../cosmwasm-std-2.2.2/src/math/):
     decimal.rs:174-201  from_ratio / checked_from_ratio = numerator.checked_multiply_ratio(10^18, denominator)
     uint128.rs:126-140  checked_multiply_ratio = full_mul (256 bit) / denominator, try_into Uint128
     decimal.rs:647-663  Mul   = full_mul(a, b) / 10^18, panic "attempt to multiply with overflow" above 2^128
     decimal.rs:674-687  Div   = checked_from_ratio(a.numerator, b.numerator): floor(a * 10^18 / b), panics on 0 / overflow
     decimal.rs:698-704  Div<Uint128> = atomics / rhs   (Uint128 `/` panics on 0)
     decimal.rs:615-645  Add / Sub = Uint128 `+` / `-` (strict: panic on overflow / underflow)
     fraction.rs:50-65   Uint128::mul_floor(fraction) = full_mul(self, numerator) / denominator, unwrap()
   Numbers are unbounded N; the 128-bit bound is explicit.

   Outcomes have FOUR classes here: SOk, SErr (the code returns an error), SPanic (an `expect` /
   `unwrap` / division by zero / time running backwards: a LOGIC panic) and SOvf (an arithmetic panic
   at the 64/128-bit bound).  The harness sees SPanic and SOvf as the same thing (a panic); the
   theorems separate them so that "no panic" can be stated with the explicit premise "no arithmetic
   overflow" (result <> SOvf). *)
From Verif Require Import Base Bank.
Local Open Scope N_scope.

Inductive sres (A : Type) := SOk (a : A) | SErr | SPanic | SOvf.
Arguments SOk {A} a. Arguments SErr {A}. Arguments SPanic {A}. Arguments SOvf {A}.

Definition sbind {A B} (x : sres A) (f : A -> sres B) : sres B :=
  match x with SOk a => f a | SErr => SErr | SPanic => SPanic | SOvf => SOvf end.
Notation "x <- e ;; f" := (sbind e (fun x => f)) (at level 61, e at next level, right associativity).

(* the bank model (Bank.v) panics only at the 128-bit bound: strict `+` of Uint128 *)
Definition of_bank {A} (o : outcome A) : sres A :=
  match o with Ok a => SOk a | Err => SErr | Panic => SOvf end.

Definition D18 : N := 1000000000000000000.       (* Decimal::DECIMAL_FRACTIONAL *)
Definition NS : N := 1000000000.                 (* nanoseconds per second *)
Definition YEAR : N := 31536000.                 (* staking.rs:21 *)
Definition U64 : N := 2 ^ 64.

Definition fit (x : N) : sres N := if x <? U128 then SOk x else SOvf.

Definition dec_of_uint (n : N) : sres N := fit (n * D18).          (* Decimal::from_ratio(n, 1u128) *)
Definition dec_mul (a b : N) : sres N := fit (a * b / D18).
Definition dec_div (a b : N) : sres N := if b =? 0 then SPanic else fit (a * D18 / b).
Definition dec_div_uint (a n : N) : sres N := if n =? 0 then SPanic else SOk (a / n).
Definition dec_add (a b : N) : sres N := fit (a + b).
Definition dec_sub (a b : N) : sres N := if b <=? a then SOk (a - b) else SOvf.
Definition mul_floor (n d : N) : sres N := fit (n * d / D18).       (* Uint128::mul_floor(Decimal) *)
(* `Uint128::new(1).mul_floor(d)`: 1 * d / 10^18 always fits *)
Definition to_uint_floor (d : N) : N := d / D18.

(* ---------- lemmas ---------- *)

Lemma D18_pos : 0 < D18. Proof. reflexivity. Qed.
Lemma D18_neq : D18 <> 0. Proof. discriminate. Qed.
Lemma U128_val : U128 = 340282366920938463463374607431768211456. Proof. reflexivity. Qed.
Lemma U128_pos : 0 < U128. Proof. reflexivity. Qed.

Lemma fit_ok x : x < U128 -> fit x = SOk x.
Proof. intros H. unfold fit. apply N.ltb_lt in H. rewrite H. reflexivity. Qed.

Lemma fit_inv x y : fit x = SOk y -> y = x /\ x < U128.
Proof. unfold fit. destruct (x <? U128) eqn:E; [|discriminate]. intros H. injection H as <-. split; [reflexivity|apply N.ltb_lt, E]. Qed.

Lemma fit_cases x : fit x = SOk x \/ fit x = SOvf.
Proof. unfold fit. destruct (x <? U128); auto. Qed.

Lemma fit_not_err x : fit x <> SErr. Proof. unfold fit. destruct (x <? U128); discriminate. Qed.
Lemma fit_not_panic x : fit x <> SPanic. Proof. unfold fit. destruct (x <? U128); discriminate. Qed.

Lemma sbind_ok {A B} (x : sres A) (f : A -> sres B) b :
  sbind x f = SOk b -> exists a, x = SOk a /\ f a = SOk b.
Proof. destruct x; cbn; try discriminate. intros H. eauto. Qed.

Lemma sbind_not_panic {A B} (x : sres A) (f : A -> sres B) :
  x <> SPanic -> (forall a, x = SOk a -> f a <> SPanic) -> sbind x f <> SPanic.
Proof. destruct x; cbn; intros H1 H2; try congruence. apply H2. reflexivity. Qed.

Lemma sbind_not_err {A B} (x : sres A) (f : A -> sres B) :
  x <> SErr -> (forall a, x = SOk a -> f a <> SErr) -> sbind x f <> SErr.
Proof. destruct x; cbn; intros H1 H2; try congruence. apply H2. reflexivity. Qed.

Lemma dec_of_uint_inv n y : dec_of_uint n = SOk y -> y = n * D18.
Proof. intros H. apply fit_inv in H. tauto. Qed.
Lemma dec_mul_inv a b y : dec_mul a b = SOk y -> y = a * b / D18.
Proof. intros H. apply fit_inv in H. tauto. Qed.
Lemma mul_floor_inv a b y : mul_floor a b = SOk y -> y = a * b / D18.
Proof. intros H. apply fit_inv in H. tauto. Qed.
Lemma dec_add_inv a b y : dec_add a b = SOk y -> y = a + b.
Proof. intros H. apply fit_inv in H. tauto. Qed.
Lemma dec_sub_inv a b y : dec_sub a b = SOk y -> y = a - b /\ b <= a.
Proof. unfold dec_sub. destruct (b <=? a) eqn:E; [|discriminate]. intros H. injection H as <-. split; [reflexivity|apply N.leb_le, E]. Qed.
Lemma dec_div_inv a b y : dec_div a b = SOk y -> y = a * D18 / b /\ b <> 0.
Proof.
  unfold dec_div. destruct (b =? 0) eqn:E; [discriminate|]. intros H. apply fit_inv in H.
  split; [tauto|apply N.eqb_neq, E].
Qed.
Lemma dec_div_uint_inv a n y : dec_div_uint a n = SOk y -> y = a / n /\ n <> 0.
Proof.
  unfold dec_div_uint. destruct (n =? 0) eqn:E; [discriminate|]. intros H. injection H as <-.
  split; [reflexivity|apply N.eqb_neq, E].
Qed.

(* multiplying by a factor <= 1 never increases *)
Lemma scale_le a r : r <= D18 -> a * r / D18 <= a.
Proof.
  intros H. apply N.div_le_upper_bound; [apply D18_neq|]. rewrite N.mul_comm. apply N.mul_le_mono_r. exact H.
Qed.

Lemma scale_mono a b r : a <= b -> a * r / D18 <= b * r / D18.
Proof. intros H. apply N.div_le_mono; [apply D18_neq|]. apply N.mul_le_mono_r. exact H. Qed.

Lemma scale_one a : a * D18 / D18 = a.
Proof. apply N.div_mul. apply D18_neq. Qed.

Lemma scale_zero a : a * 0 / D18 = 0.
Proof. rewrite N.mul_0_r. reflexivity. Qed.

(* whole tokens: floor((k * 10^18 + f) / 10^18) = k for f < 10^18 *)
Lemma floor_whole k : to_uint_floor (k * D18) = k.
Proof. unfold to_uint_floor. apply N.div_mul. apply D18_neq. Qed.

Lemma floor_add_whole x k : to_uint_floor (x + k * D18) = to_uint_floor x + k.
Proof. unfold to_uint_floor. apply N.div_add. apply D18_neq. Qed.

Lemma floor_sub_whole x k : k * D18 <= x -> to_uint_floor (x - k * D18) = to_uint_floor x - k.
Proof.
  intros H. unfold to_uint_floor. remember (x - k * D18) as y eqn:Hy.
  assert (E : x = y + k * D18) by lia.
  rewrite E. rewrite N.div_add by apply D18_neq. rewrite N.add_sub. reflexivity.
Qed.

Lemma floor_mono x y : x <= y -> to_uint_floor x <= to_uint_floor y.
Proof. intros H. unfold to_uint_floor. apply N.div_le_mono; [apply D18_neq|exact H]. Qed.

Lemma floor_lt x : x < (to_uint_floor x + 1) * D18.
Proof.
  unfold to_uint_floor. pose proof (N.div_mod x D18 D18_neq) as E.
  pose proof (N.mod_lt x D18 D18_neq) as L. lia.
Qed.

Lemma floor_le x : to_uint_floor x * D18 <= x.
Proof. unfold to_uint_floor. rewrite N.mul_comm. apply N.mul_div_le. apply D18_neq. Qed.
