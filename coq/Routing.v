(* Routing.v — C17: every message and query reaches exactly the module configured for it.

   Part 1  the finite kind sets (message, query, sudo kinds; router slots) and the hand-written SPEC of
           where each kind has to go (mslot / qslot / sslot, method names, payload fields).
   Part 2  interpretation of the match-arm tables that the translator REGENERATES from app.rs
           (Router::execute / query / sudo) and contracts.rs (customize_msg): first-match lookup of the
           arm for a kind (cfg gates evaluated against the harness feature set), and resolution of every
           call argument to a ROLE read off the parameter TYPES of the enclosing function
           (`&dyn Api` -> RApi, `Addr` -> RSender, ...; the variables bound by the arm's pattern ->
           RPayload <field>), so that "nothing rebuilt, nothing swapped" is an equation between role lists.
   Part 3  an executable L4 model of dispatch outcome: a router (parametrised by a routing function) over
           abstract scripted / recording modules, transactions that roll back on failure, sub-messages
           with or without reply, inline queries; and the theorems module_result_is_callers,
           failing_module_aborts, other_modules_untouched about it (for ALL configurations and programs,
           by induction over the program).
   Nothing in this file mentions the content of a concrete generated table, so it compiles whatever the
   translator produced; the table facts (closed computations on Generated.v) live in Inst17.v.
   Source anchors: src/app.rs:645-725 (Router), src/contracts.rs:431-467 (customize_response / _msg),
   src/app.rs execute_multi (one transactional per top-level call), src/wasm.rs execute_submsg
   (one nested transactional per sub-message; reply according to reply_on). *)
From Verif Require Import Base Generated Builder.
From Coq Require Import String.
Local Open Scope string_scope.

(* ------------------------------------------------------------------------------------------ *)
(* Part 1: kinds, slots, and the specification of the routing                                  *)
(* ------------------------------------------------------------------------------------------ *)
Inductive mkind := MWasm | MBank | MCustom | MStaking | MDistribution | MIbc | MGov | MStargate | MAny.
Inductive qkind := QWasm | QBank | QCustom | QStaking | QDistribution | QIbc | QStargate | QGrpc.
Inductive skind := SWasm | SBank | SStaking | SCustom.
(* the eight module fields of Router *)
Inductive slot := SlWasm | SlBank | SlCustom | SlStaking | SlDistribution | SlIbc | SlGov | SlStargate.

Definition all_mkinds := [MWasm; MBank; MCustom; MStaking; MDistribution; MIbc; MGov; MStargate; MAny].
Definition all_qkinds := [QWasm; QBank; QCustom; QStaking; QDistribution; QIbc; QStargate; QGrpc].
Definition all_skinds := [SWasm; SBank; SStaking; SCustom].
Definition all_slots := [SlWasm; SlBank; SlCustom; SlStaking; SlDistribution; SlIbc; SlGov; SlStargate].

Lemma all_mkinds_complete k : In k all_mkinds. Proof. destruct k; cbn; tauto. Qed.
Lemma all_qkinds_complete k : In k all_qkinds. Proof. destruct k; cbn; tauto. Qed.
Lemma all_skinds_complete k : In k all_skinds. Proof. destruct k; cbn; tauto. Qed.

(* the variant names of cosmwasm_std::CosmosMsg / QueryRequest and of cw_multi_test::SudoMsg *)
Definition mkind_name (k : mkind) : string :=
  match k with
  | MWasm => "Wasm" | MBank => "Bank" | MCustom => "Custom" | MStaking => "Staking"
  | MDistribution => "Distribution" | MIbc => "Ibc" | MGov => "Gov" | MStargate => "Stargate" | MAny => "Any"
  end.
Definition qkind_name (k : qkind) : string :=
  match k with
  | QWasm => "Wasm" | QBank => "Bank" | QCustom => "Custom" | QStaking => "Staking"
  | QDistribution => "Distribution" | QIbc => "Ibc" | QStargate => "Stargate" | QGrpc => "Grpc"
  end.
Definition skind_name (k : skind) : string :=
  match k with SWasm => "Wasm" | SBank => "Bank" | SStaking => "Staking" | SCustom => "Custom" end.

(* the fields of the variant = the whole payload ("0" = the single field of a tuple variant) *)
Definition mfields (k : mkind) : list string := match k with MStargate => ["type_url"; "value"] | _ => ["0"] end.
Definition qfields (k : qkind) : list string := match k with QStargate => ["path"; "data"] | _ => ["0"] end.
Definition sfields (k : skind) : list string := ["0"].

(* SPEC: the module slot configured for each kind *)
Definition mslot (k : mkind) : slot :=
  match k with
  | MWasm => SlWasm | MBank => SlBank | MCustom => SlCustom | MStaking => SlStaking
  | MDistribution => SlDistribution | MIbc => SlIbc | MGov => SlGov | MStargate => SlStargate | MAny => SlStargate
  end.
Definition qslot (k : qkind) : slot :=
  match k with
  | QWasm => SlWasm | QBank => SlBank | QCustom => SlCustom | QStaking => SlStaking
  | QDistribution => SlDistribution | QIbc => SlIbc | QStargate => SlStargate | QGrpc => SlStargate
  end.
Definition sslot (k : skind) : slot :=
  match k with SWasm => SlWasm | SBank => SlBank | SStaking => SlStaking | SCustom => SlCustom end.

(* the trait method the router has to call (Module / Wasm: execute, query, sudo; Stargate: four methods) *)
Definition mmethod (k : mkind) : string :=
  match k with MStargate => "execute_stargate" | MAny => "execute_any" | _ => "execute" end.
Definition qmethod (k : qkind) : string :=
  match k with QStargate => "query_stargate" | QGrpc => "query_grpc" | _ => "query" end.

(* the name of the Router field holding the module of a slot *)
Definition slot_field (s : slot) : string :=
  match s with
  | SlWasm => "wasm" | SlBank => "bank" | SlCustom => "custom" | SlStaking => "staking"
  | SlDistribution => "distribution" | SlIbc => "ibc" | SlGov => "gov" | SlStargate => "stargate"
  end.
Definition slot_id (s : slot) : N :=
  match s with
  | SlWasm => 0 | SlBank => 1 | SlCustom => 2 | SlStaking => 3
  | SlDistribution => 4 | SlIbc => 5 | SlGov => 6 | SlStargate => 7
  end%N.
Definition slot_of_field (f : string) : option slot := find (fun s => String.eqb (slot_field s) f) all_slots.
Definition mkind_of_name (s : string) : option mkind := find (fun k => String.eqb (mkind_name k) s) all_mkinds.

(* ------------------------------------------------------------------------------------------ *)
(* Part 2: reading the regenerated tables                                                      *)
(* ------------------------------------------------------------------------------------------ *)
(* Some true = compiled in, Some false = compiled out, None = a gate the translator did not understand *)
Definition cfg_on (feats : list string) (c : cfg) : option bool :=
  match c with CfgFeature f => Some (mem_s f feats) | CfgOpaque _ => None end.
Fixpoint cfgs_on (feats : list string) (l : list cfg) : option bool :=
  match l with
  | [] => Some true
  | c :: r => match cfg_on feats c, cfgs_on feats r with
              | Some a, Some b => Some (a && b)
              | _, _ => None
              end
  end.

Inductive found := FArm (a : arm) | FNone | FUnknown.

(* Rust `match`: the first arm, among those compiled in, whose pattern matches the variant [kind] of enum
   [en].  Fail closed: a guard, an unrecognised pattern or gate, or a pattern of another enum in front of
   the matching arm makes the answer FUnknown. *)
Fixpoint arm_for (en kind : string) (feats : list string) (arms : list arm) : found :=
  match arms with
  | [] => FNone
  | a :: r =>
      match cfgs_on feats (a_cfg a) with
      | None => FUnknown
      | Some false => arm_for en kind feats r
      | Some true =>
          if a_guard a then FUnknown
          else match a_pat a with
               | PVariant en' k' _ =>
                   if String.eqb en' en then (if String.eqb k' kind then FArm a else arm_for en kind feats r)
                   else FUnknown
               | PCatchAll => FArm a
               | POpaque _ => FUnknown
               end
      end
  end.

Definition pat_binds (p : pat) : list string := match p with PVariant _ _ b => b | _ => [] end.
Definition pat_kinds (arms : list arm) : list string :=
  flat_map (fun a => match a_pat a with PVariant _ k _ => [k] | _ => [] end) arms.

(* a kind that no arm names falls through to whatever a fresh name falls through to *)
Lemma arm_for_fresh en feats arms s s' :
  ~ In s (pat_kinds arms) -> ~ In s' (pat_kinds arms) -> arm_for en s feats arms = arm_for en s' feats arms.
Proof.
  induction arms as [|a r IH]; intros H H'; cbn [arm_for]; [reflexivity|].
  unfold pat_kinds in H, H'. cbn [flat_map] in H, H'. rewrite in_app_iff in H, H'.
  assert (Hr : arm_for en s feats r = arm_for en s' feats r) by (apply IH; unfold pat_kinds; tauto).
  destruct (cfgs_on feats (a_cfg a)) as [[|]|]; try reflexivity; [|exact Hr].
  destruct (a_guard a); [reflexivity|].
  destruct (a_pat a) as [en' k' b| |e]; try reflexivity.
  destruct (String.eqb en' en); [|reflexivity].
  destruct (String.eqb_spec k' s) as [->|_]; [exfalso; apply H; left; left; reflexivity|].
  destruct (String.eqb_spec k' s') as [->|_]; [exfalso; apply H'; left; left; reflexivity|].
  exact Hr.
Qed.

(* ---------- roles ---------- *)
Inductive role :=
| RApi | RStorage | RBlock | RSender | RMsg     (* the parameters of the router function, by TYPE *)
| RRouter                                      (* `self`: the router itself *)
| RQuerier                                     (* `&querier` where `let querier = self.querier(api, storage, block)` *)
| RPayload (f : string)                        (* the variable that the arm's pattern binds to field f *)
| RBad.                                        (* anything else (rebuilt, opaque, out of range) *)

Definition role_eqb (a b : role) : bool :=
  match a, b with
  | RApi, RApi | RStorage, RStorage | RBlock, RBlock | RSender, RSender | RMsg, RMsg
  | RRouter, RRouter | RQuerier, RQuerier | RBad, RBad => true
  | RPayload f, RPayload g => String.eqb f g
  | _, _ => false
  end.
Lemma role_eqb_eq a b : role_eqb a b = true <-> a = b.
Proof.
  destruct a, b; cbn; try (split; [discriminate|discriminate]); try (split; reflexivity).
  rewrite String.eqb_eq. split; [intros ->; reflexivity|intros E; injection E; auto].
Qed.

Definition role_of_type (t : string) : role :=
  if String.eqb t "&dyn Api" then RApi
  else if String.eqb t "&mut dyn Storage" || String.eqb t "&dyn Storage" then RStorage
  else if String.eqb t "&BlockInfo" then RBlock
  else if String.eqb t "Addr" then RSender
  else if prefix "CosmosMsg<" t || prefix "QueryRequest<" t || String.eqb t "SudoMsg" then RMsg
  else RBad.

Definition param_roles (fn : string) : list role :=
  match assoc_s fn router_param_types with Some ts => map role_of_type ts | None => [] end.

Definition resolve_param (pr : list role) (a : arg) : role :=
  match a with AParam i => nth i pr RBad | _ => RBad end.

Definition resolve (m : matchfn) (binds : list string) (a : arg) : role :=
  let pr := param_roles (m_name m) in
  match a with
  | AParam i => nth i pr RBad
  | ABind i => match nth_error binds i with Some f => RPayload f | None => RBad end
  | ASelf => RRouter
  | ARef (ALocal x) =>
      match assoc_s x (m_lets m) with
      | Some (BSelfCall meth args) =>
          if String.eqb meth "querier" && list_eqb role_eqb (map (resolve_param pr) args) [RApi; RStorage; RBlock]
          then RQuerier else RBad
      | _ => RBad
      end
  | _ => RBad
  end.

Record call := mk_call { c_field : string; c_method : string; c_args : list role }.
Inductive routed :=
| Call (c : call)      (* self.<field>.<method>(args) *)
| Bail                 (* bail!(..): an ordinary error, no module reached *)
| Unimpl               (* unimplemented!(): a panic, no module reached *)
| Unknown.             (* not recognised *)

Definition route_of (m : matchfn) (en kind : string) : routed :=
  if negb (m_ok m) then Unknown
  else if negb (role_eqb (resolve m [] (m_scrutinee m)) RMsg) then Unknown
  else match arm_for en kind harness_features (m_arms m) with
       | FArm a =>
           match a_body a with
           | BCall f meth args => Call (mk_call f meth (map (resolve m (pat_binds (a_pat a))) args))
           | BBail => Bail
           | BUnimplemented => Unimpl
           | _ => Unknown
           end
       | _ => Unknown
       end.

Lemma route_of_fresh m en s s' :
  ~ In s (pat_kinds (m_arms m)) -> ~ In s' (pat_kinds (m_arms m)) -> route_of m en s = route_of m en s'.
Proof. intros H H'. unfold route_of. rewrite (arm_for_fresh en harness_features (m_arms m) s s' H H'). reflexivity. Qed.

(* what Router::execute / query / sudo do with a kind: derived from the regenerated tables by lookup *)
Definition exec_route (k : mkind) : routed := route_of route_exec "CosmosMsg" (mkind_name k).
Definition query_route (k : qkind) : routed := route_of route_query "QueryRequest" (qkind_name k).
Definition sudo_route (k : skind) : routed := route_of route_sudo "SudoMsg" (skind_name k).

(* SPEC of the three calls: the like-named field, the trait method, and the arguments
   (api, storage, self | &querier, block, [sender,] payload) -- nothing rebuilt, nothing swapped *)
Definition exec_call_spec (k : mkind) : call :=
  mk_call (slot_field (mslot k)) (mmethod k) ([RApi; RStorage; RRouter; RBlock; RSender] ++ map RPayload (mfields k)).
Definition query_call_spec (k : qkind) : call :=
  mk_call (slot_field (qslot k)) (qmethod k) ([RApi; RStorage; RQuerier; RBlock] ++ map RPayload (qfields k)).
Definition sudo_call_spec (k : skind) : call :=
  mk_call (slot_field (sslot k)) "sudo" ([RApi; RStorage; RRouter; RBlock] ++ map RPayload (sfields k)).

Definition call_eqb (a b : call) : bool :=
  String.eqb (c_field a) (c_field b) && String.eqb (c_method a) (c_method b) && list_eqb role_eqb (c_args a) (c_args b).

(* ---------- customize_msg ---------- *)
Inductive lifted :=
| LVariant (kind : string) (fields : list (string * role))   (* CosmosMsg::<kind> { field := role } *)
| LUnreachable | LPanic | LUnknown.

Definition resolve_bind (binds : list string) (a : arg) : role :=
  match a with ABind i => match nth_error binds i with Some f => RPayload f | None => RBad end | _ => RBad end.

Definition lift_of (kind : string) : lifted :=
  if negb lift_ok then LUnknown
  else match arm_for "CosmosMsg" kind harness_features lift_arms with
       | FArm a =>
           match a_body a with
           | BVariant en k fs =>
               if String.eqb en "CosmosMsg" then LVariant k (map (fun fx => (fst fx, resolve_bind (pat_binds (a_pat a)) (snd fx))) fs)
               else LUnknown
           | BUnreachable => LUnreachable
           | BPanic => LPanic
           | _ => LUnknown
           end
       | _ => LUnknown
       end.

Lemma lift_of_fresh s s' :
  ~ In s (pat_kinds lift_arms) -> ~ In s' (pat_kinds lift_arms) -> lift_of s = lift_of s'.
Proof. intros H H'. unfold lift_of. rewrite (arm_for_fresh "CosmosMsg" harness_features lift_arms s s' H H'). reflexivity. Qed.

Definition lift_spec (k : mkind) : lifted := LVariant (mkind_name k) (map (fun f => (f, RPayload f)) (mfields k)).

Definition frole_eqb (a b : string * role) : bool := String.eqb (fst a) (fst b) && role_eqb (snd a) (snd b).
Definition lifted_eqb (a b : lifted) : bool :=
  match a, b with
  | LVariant k f, LVariant k' f' => String.eqb k k' && list_eqb frole_eqb f f'
  | LUnreachable, LUnreachable | LPanic, LPanic | LUnknown, LUnknown => true
  | _, _ => false
  end.

(* the envelope of the sub-message: every field of SubMsg other than `msg` is copied from the argument *)
Definition lift_envelope_ok : bool :=
  lift_ok && String.eqb lift_struct "SubMsg" && String.eqb lift_match_field "msg" && src_eqb lift_scrutinee (Old "msg") &&
  mem_s "msg" submsg_struct_fields &&
  forallb (fun f => if String.eqb f "msg" then true
                    else match assoc_s f lift_fields with Some x => src_eqb x (Old f) | None => false end) submsg_struct_fields.

Lemma src_eqb_eq a b : src_eqb a b = true -> a = b.
Proof.
  destruct a, b; cbn; try discriminate; try reflexivity.
  - intros H. apply String.eqb_eq in H. congruence.
  - intros H. apply andb_true_iff in H as [H1 H2]. apply Nat.eqb_eq in H1. apply String.eqb_eq in H2. congruence.
  - intros H. apply String.eqb_eq in H. congruence.
Qed.

Lemma lift_envelope_spec :
  lift_envelope_ok = true ->
  lift_ok = true /\ lift_struct = "SubMsg" /\ lift_match_field = "msg" /\ lift_scrutinee = Old "msg" /\
  In "msg" submsg_struct_fields /\
  forall f, In f submsg_struct_fields -> f <> "msg" -> assoc_s f lift_fields = Some (Old f).
Proof.
  unfold lift_envelope_ok. intros H.
  apply andb_true_iff in H as [H H6]. apply andb_true_iff in H as [H H5]. apply andb_true_iff in H as [H H4].
  apply andb_true_iff in H as [H H3]. apply andb_true_iff in H as [H1 H2].
  apply String.eqb_eq in H2, H3. apply src_eqb_eq in H4. apply mem_s_In in H5.
  split; [exact H1|]. split; [exact H2|]. split; [exact H3|]. split; [exact H4|]. split; [exact H5|].
  intros f Hf Hn. rewrite forallb_forall in H6. specialize (H6 f Hf).
  revert H6. destruct (String.eqb_spec f "msg") as [E|_]; [congruence|].
  destruct (assoc_s f lift_fields) as [x|]; [|discriminate]. intros H6. apply src_eqb_eq in H6. congruence.
Qed.

(* ---------- completeness of the kind sets against the enums the crate is compiled with ---------- *)
(* the variants of a cosmwasm-std enum that exist under the features the harness compiles it with *)
Definition active_variants (vs : list (string * list cfg * list string)) : list (string * list string) :=
  flat_map (fun v => match cfgs_on cwstd_features (snd (fst v)) with
                     | Some true => [(fst (fst v), snd v)]
                     | Some false => []
                     | None => [("<unrecognised cfg>", [])]
                     end) vs.

Definition vf_eqb (a b : string * list string) : bool := String.eqb (fst a) (fst b) && list_s_eqb (snd a) (snd b).
Lemma vf_eqb_eq a b : vf_eqb a b = true <-> a = b.
Proof.
  destruct a as [a1 a2], b as [b1 b2]. unfold vf_eqb, list_s_eqb. cbn [fst snd].
  rewrite andb_true_iff, String.eqb_eq, (list_eqb_eq String.eqb String.eqb_eq).
  split; [intros [-> ->]; reflexivity|intros E; injection E; auto].
Qed.

Definition incl_b {A} (eqb : A -> A -> bool) (l1 l2 : list A) : bool := forallb (fun x => existsb (eqb x) l2) l1.
Lemma incl_b_spec {A} (eqb : A -> A -> bool) (H : forall a b, eqb a b = true <-> a = b) l1 l2 :
  incl_b eqb l1 l2 = true -> forall x, In x l1 -> In x l2.
Proof.
  unfold incl_b. rewrite forallb_forall. intros Hall x Hx. specialize (Hall x Hx).
  apply existsb_exists in Hall as (y & Hy & E). apply H in E. subst. exact Hy.
Qed.
Definition same_b {A} (eqb : A -> A -> bool) (l1 l2 : list A) : bool := incl_b eqb l1 l2 && incl_b eqb l2 l1.

Definition mkinds_sig : list (string * list string) := map (fun k => (mkind_name k, mfields k)) all_mkinds.
Definition qkinds_sig : list (string * list string) := map (fun k => (qkind_name k, qfields k)) all_qkinds.

Lemma kinds_sig_spec {K} (all : list K) (name : K -> string) (fields : K -> list string) vs :
  (forall k, In k all) ->
  same_b vf_eqb (map (fun k => (name k, fields k)) all) (active_variants vs) = true ->
  forall s fs, In (s, fs) (active_variants vs) <-> exists k, s = name k /\ fs = fields k.
Proof.
  intros Hall H. apply andb_true_iff in H as [H1 H2]. intros s fs. split.
  - intros Hin. apply (incl_b_spec vf_eqb vf_eqb_eq _ _ H2) in Hin. apply in_map_iff in Hin as (k & E & _).
    exists k. injection E; auto.
  - intros (k & -> & ->). apply (incl_b_spec vf_eqb vf_eqb_eq _ _ H1). apply in_map_iff. exists k. split; [reflexivity|apply Hall].
Qed.

(* ------------------------------------------------------------------------------------------ *)
(* Part 3: the L4 model of dispatch outcome                                                    *)
(* ------------------------------------------------------------------------------------------ *)
Local Close Scope string_scope.
Local Open Scope N_scope.
Local Open Scope list_scope.

(* how the module plugged into a slot behaves: the crate's AcceptingModule / FailingModule (no record),
   a recording module that logs (slot, sender, payload, block height) out of band, writes a marker
   into the storage it is handed, and then answers Ok(data := payload digest) / Err; or, for the bank slot
   only, the crate's own BankKeeper (no record; see bank_result) *)
Inductive behaviour := Accepting | Failing | RecOk | RecErr | Keeper.
Inductive res := ROk (data : option N) | RErr | RPanic.

(* the entry point of the emitting contract that returns the probes: all five go through
   WasmKeeper::process_response with the CONTRACT's address (src/wasm.rs: Execute arm, Migrate arm,
   process_wasm_msg_instantiate, sudo, reply); the model treats them alike -- that IS the specification:
   whatever the entry point, the sender of a sub-message is the emitting contract *)
Inductive entrypoint := EExecute | EInstantiate | EMigrate | ESudo | EReply.

Inductive origin :=
| Top          (* App::execute_multi(sender, msgs): one transaction *)
| TopQuery     (* one query through the App's querier, no transaction *)
| SubCustom (e : entrypoint)   (* a contract written for the chain's custom message type: inline queries, then sub-messages *)
| SubEmpty (e : entrypoint).   (* the same contract written against Empty and lifted by ContractWrapper::new_with_empty / with_*_empty *)

(* the funds attached to a WasmMsg::Execute / Instantiate *)
Inductive fclass :=
| FEmpty       (* []            : the bank module is not asked *)
| FPos         (* [5 x]         *)
| FZero1       (* [0 x]         : non-empty: the bank module IS asked (src/wasm.rs send: `!amount.is_empty()`) *)
| FZero2       (* [0 x; 0 y]    *)
| FZeroPos.    (* [0 x; 3 y]    *)

(* the reply_on mode of a sub-message, and (hok) whether the contract's reply handler returns Ok.
   src/wasm.rs execute_submsg: reply is invoked iff (ok /\ mode in {Success, Always}) \/ (err /\ mode in
   {Error, Always}); a module error is absorbed iff a reply is due for it and the handler returns Ok; a module
   success continues iff no reply is due or the handler returns Ok *)
Inductive rmode := RNever | RSuccess | RError | RAlways.
Definition mode_due (m : rmode) (ok : bool) : bool :=
  match m with RNever => false | RSuccess => ok | RError => negb ok | RAlways => true end.

Inductive probe :=
| PMsg (k : mkind) (payload : N) (m : rmode) (hok : bool)
| PQuery (k : qkind) (payload : N) (catch : bool)    (* catch: the contract records the error instead of failing *)
(* WasmMsg::Execute (inst = false) / WasmMsg::Instantiate (inst = true) of a real callee with funds:
   send_payload = digest of BankMsg::Send { to_address: callee, amount: funds verbatim },
   callee_payload = digest of (nonce, info.funds) as the callee receives them *)
| PFunded (inst : bool) (fc : fclass) (send_payload callee_payload : N) (m : rmode) (hok : bool).

Record input := mk_input {
  i_cfg : list behaviour;     (* by slot_id *)
  i_origin : origin;
  i_pre : bool;               (* state is written in the same transaction before the first probe *)
  i_sender : N;               (* digest of the address that sends the messages: the user at top level,
                                 the EMITTING CONTRACT for every contract origin, whatever the entry point *)
  i_height : N;
  i_probes : list probe }.

Record entry := mk_entry { e_slot : N; e_sender : N; e_payload : N; e_height : N }.

Record obs := mk_obs {
  o_log : list entry;          (* module log, out of band: never rolled back *)
  o_tx : res;                  (* outcome of the whole call as the top-level caller sees it *)
  o_seen : list (N * res);     (* per probe index: what its caller saw (top level: the response; contract: reply / query result) *)
  o_pre : bool;                (* the earlier write is still there *)
  o_keys : list (N * N) }.     (* markers written by modules / callees that are still there: (slot, payload) *)

Definition unk : N := 999999.
(* pseudo-slot of the log entry / marker a funded callee makes when it runs: (8, info.sender, (nonce, info.funds), height) *)
Definition callee_slot : N := 8.
(* pseudo-slot of the out-of-band record the contract's reply entry point makes when it is INVOKED (whatever it
   returns): (9, the contract, 2 * SubMsg.payload + (1 if the result handed over is Ok), height); the emitter
   puts the probe's payload digest into SubMsg.payload *)
Definition reply_slot : N := 9.

Fixpoint nthN {A} (l : list A) (i : N) (d : A) : A :=
  match l with [] => d | x :: r => if i =? 0 then x else nthN r (N.pred i) d end.

Definition records (b : behaviour) : bool := match b with RecOk | RecErr => true | _ => false end.
(* (the keeper is only ever asked for the Send of a funded wasm message: see bank_result; plain probes are
   never sent to it by the harness, RErr is a placeholder) *)
Definition mod_result (b : behaviour) (payload : N) : res :=
  match b with Accepting => ROk None | RecOk => ROk (Some payload) | Failing | RecErr | Keeper => RErr end.
Definition is_ok (r : res) : bool := match r with ROk _ => true | _ => false end.

Definition f_nonempty (fc : fclass) : bool := match fc with FEmpty => false | _ => true end.
Definition f_positive (fc : fclass) : bool := match fc with FPos | FZeroPos => true | _ => false end.
(* the bank module's verdict on the Send of the funds: scripted, or BankKeeper's own (it drops zero coins,
   refuses "empty coins amount", and the harness gives the payer enough of every denom) *)
Definition bank_result (b : behaviour) (fc : fclass) (send_payload : N) : res :=
  match b with Keeper => if f_positive fc then ROk None else RErr | _ => mod_result b send_payload end.

(* where the router sends a kind: to a slot (intact = sender, payload, block, storage handed over
   unchanged), to an ordinary error, or to a panic *)
Inductive xroute := XTo (slot : N) (intact : bool) | XBail | XPanic.
(* what the contract wrapper does with a kind emitted by an Empty-typed contract *)
Inductive lroute := LTo (k : option mkind) (intact : bool) | LAbort.
Record routes := mk_routes { rx : mkind -> xroute; rq : qkind -> xroute; rl : mkind -> lroute }.

Inductive status := Running | Aborted | Panicked.
Record mstate := mk_ms { ms_status : status; ms_i : N; ms_log : list entry; ms_keys : list (N * N); ms_seen : list (N * res) }.

Definition is_top (o : origin) : bool := match o with Top | TopQuery => true | _ => false end.
Definition is_empty_typed (o : origin) : bool := match o with SubEmpty _ => true | _ => false end.
Definition p_payload (p : probe) : N := match p with PMsg _ x _ _ | PQuery _ x _ => x | PFunded _ _ x _ _ _ => x end.
Definition p_mode (p : probe) : rmode := match p with PMsg _ _ m _ | PFunded _ _ _ _ m _ => m | PQuery _ _ _ => RNever end.
Definition p_hok (p : probe) : bool := match p with PMsg _ _ _ h | PFunded _ _ _ _ _ h => h | PQuery _ _ _ => true end.
Definition p_is_msg (p : probe) : bool := match p with PQuery _ _ _ => false | _ => true end.
(* the message kind a probe is emitted as (a funded probe is a CosmosMsg::Wasm) *)
Definition p_mkind (p : probe) : option mkind := match p with PMsg k _ _ _ => Some k | PFunded _ _ _ _ _ _ => Some MWasm | PQuery _ _ _ => None end.
(* SPEC: the slot configured for the probe's kind *)
Definition pslot (p : probe) : N :=
  match p with PMsg k _ _ _ => slot_id (mslot k) | PQuery k _ _ => slot_id (qslot k) | PFunded _ _ _ _ _ _ => slot_id SlWasm end.

(* is the contract's reply entry point invoked for the probe, given whether its module succeeded?  (never at
   top level, never for a query) *)
Definition reply_due (o : origin) (p : probe) (ok : bool) : bool := negb (is_top o) && p_is_msg p && mode_due (p_mode p) ok.
(* a failure of the probe is absorbed: a reply is due for it and the handler returns Ok / the querying
   contract catches the error *)
Definition absorbs (o : origin) (p : probe) : bool :=
  match p with PQuery _ _ c => c | _ => reply_due o p false && p_hok p end.
(* a success of the probe lets the transaction continue: no reply is due, or the handler returns Ok *)
Definition continues (o : origin) (p : probe) : bool := negb (reply_due o p true) || p_hok p.
(* the probe ends the transaction, given whether its module succeeded *)
Definition halts (o : origin) (p : probe) (ok : bool) : bool := if ok then negb (continues o p) else negb (absorbs o p).

(* what dispatching one probe does: a panic, or log entries + the result its caller is given + the markers
   that stay if the result is Ok *)
Inductive effect := EPanic | EDone (es : list entry) (r : res) (ks : list (N * N)).

Section Run.
  Variable R : routes.
  Variable inp : input.

  (* customize_response lifts ALL sub-messages of the response before the first one is dispatched *)
  Definition lift_abort : bool :=
    is_empty_typed (i_origin inp) &&
    existsb (fun p => match p_mkind p with
                      | Some k => match rl R k with LAbort => true | _ => false end
                      | None => false
                      end) (i_probes inp).

  (* the route of a message of kind k emitted by this origin *)
  Definition route_msg (k : mkind) : xroute :=
    if is_empty_typed (i_origin inp)
    then match rl R k with
         | LAbort => XPanic
         | LTo (Some k') ok => match rx R k' with XTo s i => XTo s (i && ok) | r => r end
         | LTo None _ => XTo unk false
         end
    else rx R k.

  (* the caller is shown the result of a successful probe: always at top level and for queries; for a
     sub-message only if it asked for a reply *)
  Definition sees (p : probe) : bool :=
    match p with PQuery _ _ _ => true | _ => is_top (i_origin inp) || reply_due (i_origin inp) p true end.
  Definition reply_entry (p : probe) (ok : bool) : entry :=
    mk_entry reply_slot (i_sender inp) (2 * p_payload p + (if ok then 1 else 0)) (i_height inp).

  Definition mk_rec (sl : N) (intact : bool) (sender payload : N) : entry :=
    if intact then mk_entry sl sender payload (i_height inp) else mk_entry sl unk unk unk.

  (* a scripted / recording module in slot sl is handed the probe *)
  Definition module_effect (sl : N) (intact is_msg : bool) (sender payload : N) : effect :=
    let b := nthN (i_cfg inp) sl Failing in
    let pl := if intact then payload else unk in
    EDone (if records b then [mk_rec sl intact sender payload] else [])
          (mod_result b pl)
          (if is_msg && records b then [(sl, pl)] else []).

  (* the real WasmKeeper runs a funded Execute / Instantiate (src/wasm.rs:600-640, 740-800): FIRST the cash
     is moved by dispatching BankMsg::Send through the router -- iff the funds vector is non-empty -- and the
     bank's error is the message's error; THEN the callee runs with info = { sender, funds } *)
  Definition funded_effect (fc : fclass) (sp cp : N) : effect :=
    let callee := mk_entry callee_slot (i_sender inp) cp (i_height inp) in
    if f_nonempty fc then
      match rx R MBank with
      | XPanic => EPanic
      | XBail => EDone [] RErr []
      | XTo slb intactb =>
          let b := nthN (i_cfg inp) slb Failing in
          let pl := if intactb then sp else unk in
          let es := if records b then [mk_rec slb intactb (i_sender inp) sp] else [] in
          if is_ok (bank_result b fc pl)
          then EDone (es ++ [callee]) (ROk None) ((if records b then [(slb, pl)] else []) ++ [(callee_slot, cp)])
          else EDone es RErr []
      end
    else EDone [callee] (ROk None) [(callee_slot, cp)].

  Definition effect_of (p : probe) : effect :=
    match p with
    | PQuery k x _ =>
        match rq R k with
        | XPanic => EPanic
        | XBail => EDone [] RErr []
        | XTo sl intact => module_effect sl intact false 0 x
        end
    | PMsg k x _ _ =>
        match route_msg k with
        | XPanic => EPanic
        | XBail => EDone [] RErr []
        | XTo sl intact => module_effect sl intact true (i_sender inp) x
        end
    | PFunded _ fc sp cp _ _ =>
        match route_msg MWasm with
        | XPanic => EPanic
        | XBail => EDone [] RErr []
        | XTo sl intact =>
            if (sl =? slot_id SlWasm) && intact then funded_effect fc sp cp
            else EDone [mk_entry sl unk unk unk] RErr []      (* not handed to the wasm module as emitted *)
        end
    end.

  Definition stop (s : mstate) (st : status) : mstate := mk_ms st (ms_i s) (ms_log s) (ms_keys s) (ms_seen s).

  Definition step (s : mstate) (p : probe) : mstate :=
    match ms_status s with
    | Running =>
        if p_is_msg p && lift_abort then stop s Panicked
        else match effect_of p with
             | EPanic => stop s Panicked
             | EDone es r ks =>
                 let o := i_origin inp in
                 let log' := ms_log s ++ es ++ (if reply_due o p (is_ok r) then [reply_entry p (is_ok r)] else []) in
                 if halts o p (is_ok r) then mk_ms Aborted (ms_i s) log' (ms_keys s) (ms_seen s)
                 else match r with
                      | ROk d =>
                          mk_ms Running (N.succ (ms_i s)) log' (ms_keys s ++ ks)
                            (if sees p then ms_seen s ++ [(ms_i s, ROk d)] else ms_seen s)
                      | _ =>
                          (* whatever the probe wrote is rolled back with the sub-transaction *)
                          mk_ms Running (N.succ (ms_i s)) log' (ms_keys s) (ms_seen s ++ [(ms_i s, RErr)])
                      end
             end
    | _ => s
    end.

  Definition ms0 : mstate := mk_ms Running 0 [] [] [].

  (* a transaction that does not succeed leaves nothing behind: neither the earlier write, nor what the
     contract recorded, nor any module's marker; the out-of-band log is all that remains *)
  Definition finish (s : mstate) : obs :=
    match ms_status s with
    | Running => mk_obs (ms_log s) (ROk None) (ms_seen s) (i_pre inp) (ms_keys s)
    | Aborted => mk_obs (ms_log s) RErr [] false []
    | Panicked => mk_obs (ms_log s) RPanic [] false []
    end.

  Definition run : obs := finish (fold_left step (i_probes inp) ms0).
End Run.

(* ---------- the three routings ---------- *)
(* SPEC: every kind goes to its configured slot with everything intact; an Empty-typed contract has no
   custom message of the chain's type (CosmosMsg::<Empty>::Custom(Empty{}) cannot be translated): abort *)
Definition spec_routes : routes :=
  mk_routes (fun k => XTo (slot_id (mslot k)) true)
            (fun k => XTo (slot_id (qslot k)) true)
            (fun k => match k with MCustom => LAbort | _ => LTo (Some k) true end).

(* the known finding F11: as the spec, except that a Distribution query panics before reaching a module *)
Definition f11_routes : routes :=
  mk_routes (rx spec_routes) (fun k => match k with QDistribution => XPanic | _ => rq spec_routes k end) (rl spec_routes).

(* the routing read off the regenerated tables *)
Definition xroute_of (r : routed) (spec : call) : xroute :=
  match r with
  | Call c => match slot_of_field (c_field c) with
              | Some sl => XTo (slot_id sl) (String.eqb (c_method c) (c_method spec) && list_eqb role_eqb (c_args c) (c_args spec))
              | None => XTo unk false
              end
  | Bail => XBail
  | Unimpl => XPanic
  | Unknown => XTo unk false
  end.

Definition table_routes : routes :=
  mk_routes (fun k => xroute_of (exec_route k) (exec_call_spec k))
            (fun k => xroute_of (query_route k) (query_call_spec k))
            (fun k => match lift_of (mkind_name k) with
                      | LVariant k' fs => LTo (mkind_of_name k') (lift_envelope_ok && list_eqb frole_eqb fs (map (fun f => (f, RPayload f)) (mfields k)))
                      | LUnreachable | LPanic => LAbort
                      | LUnknown => LTo None false
                      end).

Definition spec_case (inp : input) : obs := run spec_routes inp.
Definition model_case (inp : input) : obs := run table_routes inp.

(* ---------- extensionality: the run only depends on the routes that are consulted ---------- *)
Definition routes_agree_on (R1 R2 : routes) (ps : list probe) : Prop :=
  (forall k, rx R1 k = rx R2 k) /\ (forall k, rl R1 k = rl R2 k) /\
  forall p, In p ps -> match p with PQuery k _ _ => rq R1 k = rq R2 k | _ => True end.

Lemma lift_abort_ext R1 R2 inp : routes_agree_on R1 R2 (i_probes inp) -> lift_abort R1 inp = lift_abort R2 inp.
Proof.
  intros (_ & Hl & _). unfold lift_abort. f_equal.
  induction (i_probes inp) as [|p ps IH]; [reflexivity|]. cbn [existsb]. rewrite IH.
  destruct (p_mkind p) as [k|]; [rewrite Hl|]; reflexivity.
Qed.

Lemma route_msg_ext R1 R2 inp k : routes_agree_on R1 R2 (i_probes inp) -> route_msg R1 inp k = route_msg R2 inp k.
Proof.
  intros (Hx & Hl & _). unfold route_msg. rewrite Hl, Hx.
  destruct (is_empty_typed (i_origin inp)); [|reflexivity].
  destruct (rl R2 k) as [[k'|] ok|]; try reflexivity. rewrite Hx. reflexivity.
Qed.

Lemma effect_ext R1 R2 inp p : routes_agree_on R1 R2 (i_probes inp) -> In p (i_probes inp) -> effect_of R1 inp p = effect_of R2 inp p.
Proof.
  intros H Hp. destruct p as [k x m h|k x c|ins fc sp cp m h]; cbn [effect_of].
  - rewrite (route_msg_ext R1 R2 inp k H). reflexivity.
  - destruct H as (_ & _ & Hq). specialize (Hq _ Hp). cbn in Hq. rewrite Hq. reflexivity.
  - rewrite (route_msg_ext R1 R2 inp MWasm H). unfold funded_effect. destruct H as (Hx & _ & _). rewrite Hx. reflexivity.
Qed.

Lemma run_ext R1 R2 inp : routes_agree_on R1 R2 (i_probes inp) -> run R1 inp = run R2 inp.
Proof.
  intros H. unfold run. f_equal.
  assert (G : forall ps s, (forall p, In p ps -> In p (i_probes inp)) ->
                           fold_left (step R1 inp) ps s = fold_left (step R2 inp) ps s).
  { induction ps as [|p ps IH]; intros s Hs; [reflexivity|]. cbn [fold_left].
    assert (E : step R1 inp s p = step R2 inp s p).
    { unfold step. rewrite (lift_abort_ext R1 R2 inp H), (effect_ext R1 R2 inp p H) by (apply Hs; left; reflexivity). reflexivity. }
    rewrite E. apply IH. intros q Hq. apply Hs. right. exact Hq. }
  apply G. auto.
Qed.

Lemma run_ext_all R1 R2 inp :
  (forall k, rx R1 k = rx R2 k) -> (forall k, rq R1 k = rq R2 k) -> (forall k, rl R1 k = rl R2 k) -> run R1 inp = run R2 inp.
Proof.
  intros Hx Hq Hl. apply run_ext. split; [exact Hx|]. split; [exact Hl|]. intros [k x m h|k x c|ins fc sp cp m h] _; auto.
Qed.

(* ------------------------------------------------------------------------------------------ *)
(* The L4 theorems, about the SPEC routing, for every configuration and every program          *)
(* ------------------------------------------------------------------------------------------ *)
Definition beh (inp : input) (p : probe) : behaviour := nthN (i_cfg inp) (pslot p) Failing.
Definition bank_beh (inp : input) : behaviour := nthN (i_cfg inp) (slot_id SlBank) Failing.
(* the address a module / a callee must be given as the sender of the probe *)
Definition p_sender (inp : input) (p : probe) : N := if p_is_msg p then i_sender inp else 0.

(* what the caller of the probe is answered: the configured module's answer; for a funded wasm message, the
   configured BANK module's verdict on the Send whenever the funds vector is non-empty *)
Definition answer (inp : input) (p : probe) : res :=
  match p with
  | PFunded _ fc sp _ _ _ => if f_nonempty fc && negb (is_ok (bank_result (bank_beh inp) fc sp)) then RErr else ROk None
  | _ => mod_result (beh inp p) (p_payload p)
  end.
(* the probe ends the transaction: its module fails and the failure is not absorbed (no reply is due for an
   error -- modes Never and Success --, or the reply handler fails; the querying contract does not catch), or
   its module succeeds and the reply handler that is due fails *)
Definition stops (inp : input) (p : probe) : bool := halts (i_origin inp) p (is_ok (answer inp p)).
(* the contract's reply entry point is invoked for the probe *)
Definition replied (inp : input) (p : probe) : bool := reply_due (i_origin inp) p (is_ok (answer inp p)).
(* the record the configured recording module makes of the probe: sender, payload, block intact *)
Definition entry_of (inp : input) (p : probe) : entry :=
  mk_entry (pslot p) (p_sender inp p) (p_payload p) (i_height inp).
(* all records a reached probe leaves: for a funded wasm message, exactly one Send record of the recording
   bank (sender = the payer, the coins verbatim) iff the funds are non-empty, and AFTER it the callee's own
   record iff the bank agreed *)
Definition mod_entries_of (inp : input) (p : probe) : list entry :=
  match p with
  | PFunded _ fc sp cp _ _ =>
      (if f_nonempty fc && records (bank_beh inp) then [mk_entry (slot_id SlBank) (i_sender inp) sp (i_height inp)] else []) ++
      (if is_ok (answer inp p) then [mk_entry callee_slot (i_sender inp) cp (i_height inp)] else [])
  | _ => if records (beh inp p) then [entry_of inp p] else []
  end.
(* ... followed by the record of the reply entry point iff a reply is due: (ok /\ mode in {Success, Always})
   \/ (err /\ mode in {Error, Always}) *)
Definition entries_of (inp : input) (p : probe) : list entry :=
  mod_entries_of inp p ++
  (if replied inp p then [reply_entry inp p (is_ok (answer inp p))] else []).
Definition keys_of (inp : input) (p : probe) : list (N * N) :=
  match p with
  | PFunded _ fc sp cp _ _ =>
      (if f_nonempty fc && records (bank_beh inp) then [(slot_id SlBank, sp)] else []) ++ [(callee_slot, cp)]
  | PMsg _ x _ _ => if records (beh inp p) then [(pslot p, x)] else []
  | PQuery _ _ _ => []
  end.

Definition aborts_lift (inp : input) (p : probe) : bool := p_is_msg p && lift_abort spec_routes inp.

(* the probes that are reached: up to and including the first one that stops the transaction; nothing
   from the first sub-message on if the contract wrapper refuses to lift the response *)
Fixpoint reached (inp : input) (ps : list probe) : list probe :=
  match ps with
  | [] => []
  | p :: r => if aborts_lift inp p then [] else p :: (if stops inp p then [] else reached inp r)
  end.

Lemma lift_abort_member inp p k :
  is_empty_typed (i_origin inp) = true -> In p (i_probes inp) -> p_mkind p = Some k -> rl spec_routes k = LAbort ->
  lift_abort spec_routes inp = true.
Proof.
  intros Eo Hin Hp Hk. unfold lift_abort. rewrite Eo. cbn [andb]. apply existsb_exists. exists p. split; [exact Hin|].
  rewrite Hp, Hk. reflexivity.
Qed.

Lemma spec_route_msg inp p k :
  In p (i_probes inp) -> p_mkind p = Some k -> aborts_lift inp p = false -> p_is_msg p = true ->
  route_msg spec_routes inp k = XTo (slot_id (mslot k)) true.
Proof.
  intros Hin Hp Ha Hm. unfold route_msg. destruct (is_empty_typed (i_origin inp)) eqn:Eo; [|reflexivity].
  unfold aborts_lift in Ha. rewrite Hm in Ha. cbn [andb] in Ha.
  destruct k; try reflexivity.
  rewrite (lift_abort_member inp p MCustom Eo Hin Hp eq_refl) in Ha. discriminate.
Qed.

Lemma answer_cases inp p : (exists d, answer inp p = ROk d) \/ answer inp p = RErr.
Proof.
  destruct p as [k x m h|k x c|ins fc sp cp m h]; cbn [answer]; try (unfold mod_result; destruct (beh inp _); eauto).
  destruct (f_nonempty fc && negb (is_ok (bank_result (bank_beh inp) fc sp))); eauto.
Qed.

(* the effect of a probe under the SPEC routing *)
Lemma spec_effect inp p :
  In p (i_probes inp) -> aborts_lift inp p = false ->
  exists ks, effect_of spec_routes inp p = EDone (mod_entries_of inp p) (answer inp p) ks /\
             (is_ok (answer inp p) = true -> ks = keys_of inp p).
Proof.
  intros Hin Ha. destruct p as [k x m h|k x c|ins fc sp cp m h]; cbn [effect_of].
  - rewrite (spec_route_msg inp (PMsg k x m h) k Hin eq_refl Ha eq_refl).
    unfold module_effect, mk_rec. eexists. split; [reflexivity|]. intros _. reflexivity.
  - cbn [spec_routes rq]. unfold module_effect, mk_rec. eexists. split; [reflexivity|]. intros _. reflexivity.
  - rewrite (spec_route_msg inp (PFunded ins fc sp cp m h) MWasm Hin eq_refl Ha eq_refl).
    cbn [mslot]. rewrite N.eqb_refl. cbn [andb]. unfold funded_effect. cbn [spec_routes rx mslot mod_entries_of answer keys_of].
    fold (bank_beh inp). unfold mk_rec.
    destruct (f_nonempty fc); cbn [andb].
    + destruct (is_ok (bank_result (bank_beh inp) fc sp)) eqn:Eb; cbn [negb is_ok].
      * eexists. split; [reflexivity|]. intros _. reflexivity.
      * eexists. split; [rewrite app_nil_r; reflexivity|]. discriminate.
    + eexists. split; [reflexivity|]. intros _. reflexivity.
Qed.

(* one step of the SPEC router, written out *)
Definition spec_step (inp : input) (s : mstate) (p : probe) : mstate :=
  if aborts_lift inp p then stop s Panicked
  else
    let log' := ms_log s ++ entries_of inp p in
    if stops inp p then mk_ms Aborted (ms_i s) log' (ms_keys s) (ms_seen s)
    else match answer inp p with
         | ROk d =>
             mk_ms Running (N.succ (ms_i s)) log' (ms_keys s ++ keys_of inp p)
               (if sees inp p then ms_seen s ++ [(ms_i s, ROk d)] else ms_seen s)
         | _ => mk_ms Running (N.succ (ms_i s)) log' (ms_keys s) (ms_seen s ++ [(ms_i s, RErr)])
         end.

Lemma step_spec_step inp s p :
  In p (i_probes inp) -> ms_status s = Running -> step spec_routes inp s p = spec_step inp s p.
Proof.
  intros Hin Hs. unfold step, spec_step. rewrite Hs. fold (aborts_lift inp p).
  destruct (aborts_lift inp p) eqn:Ea; [reflexivity|].
  destruct (spec_effect inp p Hin Ea) as (ks & -> & Hk).
  cbn zeta. unfold stops, entries_of, replied, reply_entry.
  destruct (halts (i_origin inp) p (is_ok (answer inp p))); [reflexivity|].
  destruct (answer inp p) as [d| |]; try reflexivity. rewrite (Hk eq_refl). reflexivity.
Qed.

Lemma fold_stopped R inp ps s : ms_status s <> Running -> fold_left (step R inp) ps s = s.
Proof.
  intros H. induction ps as [|p ps IH]; [reflexivity|]. cbn [fold_left].
  assert (E : step R inp s p = s) by (unfold step; destruct (ms_status s); congruence).
  rewrite E. exact IH.
Qed.

Definition log_of (inp : input) (ps : list probe) : list entry := flat_map (entries_of inp) ps.

(* what the callers of the probes are shown in a transaction that succeeds: the answer of the
   configured module, for every probe whose caller looks at it (and for every caught failure) *)
Fixpoint seen_list (inp : input) (i : N) (ps : list probe) : list (N * res) :=
  match ps with
  | [] => []
  | p :: r => (if sees inp p || negb (is_ok (answer inp p)) then [(i, answer inp p)] else []) ++ seen_list inp (N.succ i) r
  end.

Lemma fold_log inp ps : forall s,
  (forall p, In p ps -> In p (i_probes inp)) -> ms_status s = Running ->
  ms_log (fold_left (step spec_routes inp) ps s) = ms_log s ++ log_of inp (reached inp ps).
Proof.
  induction ps as [|p ps IH]; intros s Hps Hs; cbn [fold_left reached].
  - unfold log_of. cbn. rewrite app_nil_r. reflexivity.
  - rewrite (step_spec_step inp s p) by (auto; apply Hps; left; reflexivity).
    assert (Hps' : forall q, In q ps -> In q (i_probes inp)) by (intros q Hq; apply Hps; right; exact Hq).
    unfold spec_step. destruct (aborts_lift inp p) eqn:Ea.
    + rewrite fold_stopped by (cbn; discriminate). unfold log_of. cbn. rewrite app_nil_r. reflexivity.
    + unfold log_of at 1. cbn [flat_map]. fold (log_of inp (if stops inp p then [] else reached inp ps)).
      destruct (stops inp p).
      * rewrite fold_stopped by (cbn; discriminate). cbn [ms_log]. unfold log_of. cbn [flat_map]. rewrite app_nil_r. reflexivity.
      * destruct (answer inp p) as [d| |]; rewrite IH by (auto); cbn [ms_log]; rewrite <- app_assoc; reflexivity.
Qed.

Lemma fold_aborts inp ps : forall s,
  (forall p, In p ps -> In p (i_probes inp)) -> ms_status s = Running -> lift_abort spec_routes inp = false ->
  (exists p, In p ps /\ stops inp p = true) ->
  ms_status (fold_left (step spec_routes inp) ps s) = Aborted.
Proof.
  induction ps as [|p ps IH]; intros s Hps Hs Hl (q & Hq & Hstop); [destruct Hq|]. cbn [fold_left].
  rewrite (step_spec_step inp s p) by (auto; apply Hps; left; reflexivity).
  assert (Hps' : forall q, In q ps -> In q (i_probes inp)) by (intros r Hr; apply Hps; right; exact Hr).
  unfold spec_step. assert (Ea : aborts_lift inp p = false) by (unfold aborts_lift; rewrite Hl; apply andb_false_r). rewrite Ea.
  destruct (stops inp p) eqn:Es.
  - rewrite fold_stopped by (cbn; discriminate). reflexivity.
  - assert (Hex : exists r, In r ps /\ stops inp r = true).
    { destruct Hq as [<-|Hq]; [congruence|]. exists q. auto. }
    destruct (answer inp p) as [d| |]; apply IH; auto.
Qed.

Lemma fold_commits inp ps : forall s,
  (forall p, In p ps -> In p (i_probes inp)) -> ms_status s = Running -> lift_abort spec_routes inp = false ->
  (forall p, In p ps -> stops inp p = false) ->
  let s' := fold_left (step spec_routes inp) ps s in
  ms_status s' = Running /\ ms_seen s' = ms_seen s ++ seen_list inp (ms_i s) ps.
Proof.
  induction ps as [|p ps IH]; intros s Hps Hs Hl Hno; cbn [fold_left seen_list].
  - cbn zeta. rewrite app_nil_r. auto.
  - rewrite (step_spec_step inp s p) by (auto; apply Hps; left; reflexivity).
    assert (Hps' : forall q, In q ps -> In q (i_probes inp)) by (intros r Hr; apply Hps; right; exact Hr).
    assert (Hno' : forall q, In q ps -> stops inp q = false) by (intros r Hr; apply Hno; right; exact Hr).
    unfold spec_step. assert (Ea : aborts_lift inp p = false) by (unfold aborts_lift; rewrite Hl; apply andb_false_r). rewrite Ea.
    rewrite (Hno p (or_introl eq_refl)).
    destruct (answer_cases inp p) as [[d E]|E]; rewrite E; cbn [is_ok negb orb].
    + match goal with |- context [fold_left _ ps ?s1] => destruct (IH s1 Hps' eq_refl Hl Hno') as [I1 I2] end.
      cbn zeta. split; [exact I1|]. rewrite I2. cbn [ms_seen ms_i]. rewrite orb_false_r.
      destruct (sees inp p); [rewrite <- app_assoc|]; reflexivity.
    + match goal with |- context [fold_left _ ps ?s1] => destruct (IH s1 Hps' eq_refl Hl Hno') as [I1 I2] end.
      cbn zeta. split; [exact I1|]. rewrite I2. cbn [ms_seen ms_i]. rewrite orb_true_r, <- app_assoc. reflexivity.
Qed.

Lemma finish_log inp s : o_log (finish inp s) = ms_log s.
Proof. unfold finish. destruct (ms_status s); reflexivity. Qed.

(* other_modules_untouched: the module log of a run is exactly the records of the probes that were reached
   (entries_of: the CONFIGURED module's slot, with the sender, the payload and the block height of the
   probe; for a funded wasm message the bank's Send record, then the callee's) in program order, and
   nothing else *)
Lemma L4_other_modules_untouched inp :
  o_log (spec_case inp) = log_of inp (reached inp (i_probes inp)).
Proof.
  unfold spec_case, run. rewrite finish_log, fold_log; auto.
Qed.

(* the sender clause, spelled out: every record of a message probe carries i_sender -- the user at top
   level, the EMITTING contract for every contract origin and every entry point -- and a query none *)
Lemma L4_sender_is_emitter inp p e :
  In e (entries_of inp p) -> e_sender e = p_sender inp p /\ e_height e = i_height inp.
Proof.
  unfold entries_of. intros H. apply in_app_or in H as [H|H].
  - destruct p as [k x m h|k x c|ins fc sp cp m h]; cbn [mod_entries_of] in H.
    + destruct (records _); [|destruct H]. destruct H as [<-|[]]. auto.
    + destruct (records _); [|destruct H]. destruct H as [<-|[]]. auto.
    + apply in_app_or in H as [H|H].
      * destruct (_ && _); [|destruct H]. destruct H as [<-|[]]. auto.
      * destruct (is_ok _); [|destruct H]. destruct H as [<-|[]]. auto.
  - destruct (replied inp p) eqn:E; [|destruct H]. destruct H as [<-|[]]. cbn.
    unfold replied, reply_due in E. apply andb_true_iff in E as [E _]. apply andb_true_iff in E as [_ E].
    unfold p_sender. rewrite E. auto.
Qed.

(* the reply table, spelled out: the reply entry point is invoked iff (ok /\ mode in {Success, Always}) \/
   (err /\ mode in {Error, Always}) -- never at top level, never for a query; a probe ends the transaction iff
   its module fails and no Ok-returning reply is due for the error, or it succeeds and a due reply fails *)
Lemma L4_reply_table inp p :
  p_is_msg p = true -> is_top (i_origin inp) = false ->
  let ok := is_ok (answer inp p) in
  replied inp p = match p_mode p with RNever => false | RSuccess => ok | RError => negb ok | RAlways => true end /\
  stops inp p = (if ok then replied inp p && negb (p_hok p) else negb (replied inp p && p_hok p)).
Proof.
  intros Hm Ht. cbn zeta. unfold stops, replied, halts, continues, absorbs, reply_due. rewrite Hm, Ht. cbn [negb andb].
  split; [reflexivity|].
  destruct p as [k x m h|k x c|ins fc sp cp m h]; try discriminate;
    destruct (is_ok _); cbn [p_mode p_hok p_is_msg andb negb]; destruct (mode_due m _), h; reflexivity.
Qed.

(* funds: the recording bank logs exactly one Send (payer, coins verbatim) iff the vector is non-empty, before
   the callee; the callee runs iff the vector is empty or the bank agreed *)
Lemma L4_funds_go_through_the_bank inp ins fc sp cp m h :
  let p := PFunded ins fc sp cp m h in
  let send := mk_entry (slot_id SlBank) (i_sender inp) sp (i_height inp) in
  let callee := mk_entry callee_slot (i_sender inp) cp (i_height inp) in
  (f_nonempty fc = false -> mod_entries_of inp p = [callee] /\ answer inp p = ROk None) /\
  (f_nonempty fc = true -> records (bank_beh inp) = true ->
     mod_entries_of inp p = send :: (if is_ok (bank_result (bank_beh inp) fc sp) then [callee] else []) /\
     answer inp p = (if is_ok (bank_result (bank_beh inp) fc sp) then ROk None else RErr)).
Proof.
  cbn zeta. split.
  - intros E. cbn [mod_entries_of answer]. rewrite E. cbn. auto.
  - intros E Hr. cbn [mod_entries_of answer]. rewrite E, Hr. cbn [andb].
    destruct (is_ok (bank_result (bank_beh inp) fc sp)); cbn; auto.
Qed.

(* failing_module_aborts: if the module configured for some probe fails and nobody catches the failure,
   the whole call fails like any other error and nothing written in the transaction is kept *)
Lemma L4_failing_module_aborts inp :
  lift_abort spec_routes inp = false ->
  (exists p, In p (i_probes inp) /\ stops inp p = true) ->
  let o := spec_case inp in o_tx o = RErr /\ o_seen o = [] /\ o_pre o = false /\ o_keys o = [].
Proof.
  intros Hl Hex. cbn zeta. unfold spec_case, run, finish.
  rewrite (fold_aborts inp (i_probes inp) (ms0) (fun p H => H) eq_refl Hl Hex). cbn. auto.
Qed.

(* ... and whatever the outcome, a call that does not succeed keeps nothing *)
Lemma L4_unsuccessful_keeps_nothing inp :
  o_tx (spec_case inp) <> ROk None -> o_seen (spec_case inp) = [] /\ o_pre (spec_case inp) = false /\ o_keys (spec_case inp) = [].
Proof.
  unfold spec_case, run, finish. destruct (ms_status _); cbn; auto. congruence.
Qed.

(* module_result_is_callers: if no module fails uncaught, the call succeeds, the earlier write is kept, and
   the caller of every probe is shown exactly the answer of the module configured for the probe's kind *)
Lemma L4_module_result_is_callers inp :
  lift_abort spec_routes inp = false ->
  (forall p, In p (i_probes inp) -> stops inp p = false) ->
  let o := spec_case inp in
  o_tx o = ROk None /\ o_pre o = i_pre inp /\ o_seen o = seen_list inp 0 (i_probes inp).
Proof.
  intros Hl Hno. cbn zeta. unfold spec_case, run, finish.
  destruct (fold_commits inp (i_probes inp) ms0 (fun p H => H) eq_refl Hl Hno) as [I1 I2].
  cbn zeta in I1, I2. rewrite I1. cbn. rewrite I2. auto.
Qed.

(* the answers themselves: Ok iff the configured module accepts; a recording module hands back the digest
   of the payload it was given *)
Lemma answer_spec inp p :
  answer inp p =
  match p with
  | PFunded _ fc sp _ _ _ => if f_nonempty fc && negb (is_ok (bank_result (bank_beh inp) fc sp)) then RErr else ROk None
  | _ => match beh inp p with Accepting => ROk None | RecOk => ROk (Some (p_payload p)) | Failing | RecErr | Keeper => RErr end
  end.
Proof. destruct p; reflexivity. Qed.
