(* ChkReg.v — case format and checks for C11 / C12 (shared with harness/exec_common/src/reg.rs).
   A case is a HISTORY: code-table operations and public-API queries interleaved with ordinary top-level
   calls, each paired with what the IMPLEMENTATION did.  Each check evaluates FIRST the property oracle on the
   implementation's observations -> PropFail (code = hop_index * 32 + clause), THEN the correspondence with
   the model Registry.run_hist -> Disagree (code = hop_index * 8 + j; j = 1 result/trace, 2 outcome, 3 state,
   4 raw store, 5 kind of observation).

   The oracles keep their own SPECIFICATION-LEVEL bookkeeping, built only from the inputs and from what the
   implementation returned: the set of ids in use with the code each was stored with ("as specified": largest
   id + 1, explicit id honoured, zero / duplicate refused), and the decoded raw store after the previous call. *)
From Verif Require Import Base OMap Text Proto Bank Exec ExecFacts ExecInv ExecFacts2 ChkExec ChkX Registry ExecReg.
Local Open Scope N_scope.

Inductive hobs :=
| OId (r : outcome N) (raw_same : bool)
| OTop (tr : trace) (o : outcome (list resp)) (s : chain) (other : N) (raw_same : bool)
| OCodeInfo (r : option (N * text * bytes))
| OInfo (r : option (N * text * option text))
| OData (r : option cdata)
| ODump (l : list (bytes * bytes))
| OPanic.

Record hstep := { hs_hop : hop; hs_obs : hobs }.

Record reg_case_env := {
  rc_valid : list text;
  rc_classic : list ((N * N) * text);
  rc_salted : list ((bytes * text * bytes) * text);
  rc_dck : list (N * bytes)          (* default checksum per id (SimpleChecksumGenerator), recomputed by the harness *)
}.

Fixpoint find_dck (id : N) (l : list (N * bytes)) : bytes :=
  match l with [] => [] | (i, b) :: r => if i =? id then b else find_dck id r end.

Definition mk_renv (rc : reg_case_env) : renv :=
  {| re_valid := rc_valid rc; re_classic := rc_classic rc; re_salted := rc_salted rc;
     re_dck := fun _ id => find_dck id (rc_dck rc) |}.

(* ---------- correspondence ---------- *)
Definition info_eqb (a b : option (N * text * option text)) : bool := obsval_eqb (VInfo a) (VInfo b).
Definition cinfo_eqb (a b : option (N * text * bytes)) : bool := obsval_eqb (VCodeInfo a) (VCodeInfo b).

Definition hres_obs (r : hres) (s' : chain) (o : hobs) : option N :=
  match r, o with
  | RId a, OId b raw => if negb (outcome_eqb N.eqb a b) then Some 1 else if negb raw then Some 4 else None
  | RTop tr out, OTop tr' out' st other raw =>
      if negb (trace_eqb tr tr') then Some 1
      else if negb (out_eqb out out') then Some 2
      else if negb (chain_eqb s' st) then Some 3
      else if negb (other =? 0) then Some 4
      else None
  | RCodeInfo a, OCodeInfo b => if cinfo_eqb a b then None else Some 1
  | RInfo a, OInfo b => if info_eqb a b then None else Some 1
  | RData a, OData b => if option_eqb cdata_eqb a b then None else Some 1
  | RDump a, ODump b => if list_eqb kv_eqb a b then None else Some 1
  | _, _ => Some 5
  end.

Fixpoint corr_reg (re : renv) (steps : list hstep) (ts : hstate) (k : N) : option N :=
  match steps with
  | [] => None
  | st :: r =>
      let (x, ts') := run_hop re (hs_hop st) ts in
      match hres_obs x (snd ts') (hs_obs st) with
      | Some j => Some (k * 8 + j)
      | None => corr_reg re r ts' (k + 1)
      end
  end.

(* ---------- the oracles' bookkeeping ---------- *)
Record ost := { o_used : list (N * code); o_prev : chain }.
Definition ost0 : ost := {| o_used := []; o_prev := empty_chain |}.

(* what a code-table operation must return, and the code that is then in use under the returned id *)
Definition expected_id (dck : ckgen) (used : list (N * code)) (h : hop) : option (outcome N * option code) :=
  match h with
  | HStore cr src =>
      Some (if u64_max <=? tmax used then (Panic, None)
            else (Ok (tmax used + 1), Some (mk_code dck (tmax used + 1) cr src)))
  | HStoreWithId cr id src =>
      Some (if (id =? 0) || has_id id used then (Err, None) else (Ok id, Some (mk_code dck id cr src)))
  | HDuplicate id =>
      Some (match (if id =? 0 then None else find_code id used) with
            | Some c => if u64_max <=? tmax used then (Err, None) else (Ok (tmax used + 1), Some c)
            | None => (Err, None)
            end)
  | _ => None
  end.

Definition ost_step (dck : ckgen) (sg : ost) (st : hstep) : ost :=
  match hs_obs st with
  | OId (Ok id) _ =>
      match expected_id dck (o_used sg) (hs_hop st) with
      | Some (_, Some c) => {| o_used := tinsert id c (o_used sg); o_prev := o_prev sg |}
      | _ => sg
      end
  | OTop _ _ s _ _ => {| o_used := o_used sg; o_prev := s |}
  | _ => sg
  end.

Definition is_okb {A} (o : outcome A) : bool := match o with Ok _ => true | _ => false end.
Definition implb (a b : bool) : bool := negb a || b.
Definition is_none {A} (o : option A) : bool := match o with None => true | Some _ => false end.

Definition root_inst (op : topop) : option (text * N * prog * coins * text * option text * option bytes * bool) :=
  match op with
  | TExec s (MInst id p f l a sa) => Some (s, id, p, f, l, a, sa, false)
  | THelperInst s (MInst id p f l a sa) => Some (s, id, p, f, l, a, sa, true)
  | _ => None
  end.
Definition clean_prog (p : prog) : bool := prog_leaf p && negb (prog_malformed p).
Definition root_callee (p : prog) (tr : trace) : option text :=
  match find_call (node_of p) tr with Some en => Some (callee_of en) | None => None end.
Definition call_tag (en : rentry) : N := match en with RCall _ _ _ _ _ _ t _ => t | _ => 0 end.

Definition senv (rc : reg_case_env) (used : list (N * code)) (b : blockinfo) : env := henv (mk_renv rc) used b.

(* queries through the public API agree with the decoded raw store / the ids in use *)
Definition p_queries (rc : reg_case_env) (sg : ost) (st : hstep) : list (N * bool) :=
  match hs_hop st, hs_obs st with
  | HQueryCodeInfo id, OCodeInfo r =>
      [(4, cinfo_eqb r (match (if id =? 0 then None else find_code id (o_used sg)) with
                        | Some c => Some (id, c_creator c, c_checksum c) | None => None end))]
  | HQueryInfo c, OInfo r => [(5, info_eqb r (info_query (mk_renv rc) (o_prev sg) c))]
  | HContractData c, OData r => [(6, option_eqb cdata_eqb r (lookup c (reg (o_prev sg))))]
  | HDump c, ODump l => [(7, list_eqb kv_eqb l (cstore_get (o_prev sg) c))]
  | HQueryCodeInfo _, _ | HQueryInfo _, _ | HContractData _, _ | HDump _, _ => [(31, false)]
  | _, _ => []
  end.

(* ---------- C11 ---------- *)
Definition p11_ids (rc : reg_case_env) (sg : ost) (st : hstep) : list (N * bool) :=
  match expected_id (re_dck (mk_renv rc)) (o_used sg) (hs_hop st), hs_obs st with
  | Some (exp, _), OId r raw =>
      [(1, outcome_eqb N.eqb r exp);                                     (* as specified *)
       (2, match r with Ok id => negb (id =? 0) && negb (has_id id (o_used sg)) | _ => true end);   (* distinct from all others *)
       (3, raw)]                                                         (* the chain state is not touched *)
  | Some _, _ => [(31, false)]
  | None, _ => []
  end.

Definition stable_cd (cd cd' : cdata) : bool :=
  teqb (cd_creator cd) (cd_creator cd') && teqb (cd_label cd) (cd_label cd') && (cd_created cd =? cd_created cd').

Definition p11_top (rc : reg_case_env) (sg : ost) (b : blockinfo) (op : topop) (tr : trace)
           (o : outcome (list resp)) (s' : chain) (raw : bool) : list (N * bool) :=
  let prev := o_prev sg in
  let used := o_used sg in
  let ok := is_okb o in
  (match root_inst op with
   | Some (sender, id, p, funds, label, admin, salt, helper) =>
       let derived := new_address (senv rc used b) prev id sender salt in
       let oa := root_callee p tr in
       [(8, implb (match label with [] => true | _ => false end) (negb ok));           (* label required *)
        (9, implb ok (has_id id used));                                               (* only stored codes *)
        (10, implb ok (match oa with Some a => is_none (lookup a (reg prev)) | None => false end));   (* fresh address *)
        (11, implb ok (option_eqb teqb oa derived &&                                   (* = independent derivation *)
                       implb helper (match oa with Some a => out_eqb o (Ok [([], Some a)]) | None => false end)));
        (12, implb (ok && clean_prog p)                                                (* recorded data = supplied *)
                   (match oa with
                    | Some a => option_eqb cdata_eqb (lookup a (reg s'))
                                  (Some {| cd_code := id; cd_creator := sender; cd_admin := admin; cd_label := label;
                                           cd_created := b_height b |})
                    | None => false end));
        (13, implb (negb ok)                                                           (* every stored id is instantiable *)
                   (negb (has_id id used && negb (match label with [] => true | _ => false end)
                          && (match funds with [] => true | _ => false end) && clean_prog p && salt_ok salt
                          && match derived with Some a => is_none (lookup a (reg prev)) | None => false end)));
        (14, match salt, derived with                                                  (* repetition rejected, nothing changed *)
             | Some _, Some a => implb (negb (is_none (lookup a (reg prev)))) (negb ok && raw)
             | _, _ => true end);
        (18, implb (negb (salt_ok salt)) (negb ok && raw))]                            (* salt of 1..64 bytes, or refused *)
   | None => []
   end) ++
  (match op with
   | TExec sender (MMigrate c n p) =>                                                  (* every stored id can be migrated to *)
       [(15, implb (existsb (beqb c) (rc_valid rc)
                    && option_eqb (option_eqb teqb) (option_map cd_admin (lookup c (reg prev))) (Some (Some sender))
                    && (match find_code n used with Some co => has_migrate co | None => false end)
                    && clean_prog p) ok);
        (19, implb ok (match find_code n used with Some co => has_migrate co | None => false end))]   (* only to a code WITH a migrate entry point *)
   | _ => []
   end) ++
  [(16, forallb (fun en => match en with                                               (* fresh at every depth *)
                           | RCall _ EInst a _ _ _ _ _ => is_none (lookup a (reg prev))
                           | _ => true end) tr);
   (17, forallb (fun x => match lookup (fst x) (reg s') with                            (* contracts stay; creator, label, height fixed *)
                          | Some cd' => stable_cd (snd x) cd'
                          | None => false end) (reg prev))].

Definition p_c11_step (rc : reg_case_env) (sg : ost) (st : hstep) : option N :=
  first_fail (p11_ids rc sg st ++ p_queries rc sg st ++
              match hs_hop st, hs_obs st with
              | HTop b op, OTop tr o s' _ raw => p11_top rc sg b op tr o s' raw
              | HTop _ _, _ => [(31, false)]
              | _, _ => []
              end).

(* ---------- C12 ---------- *)
Definition admin_msg (m : msg) : option text :=
  match m with MMigrate c _ _ | MUpdateAdmin c _ | MClearAdmin c => Some c | _ => None end.
Definition admin_of (s : chain) (c : text) : option (option text) := option_map cd_admin (lookup c (reg s)).
Definition is_admin (s : chain) (c x : text) : bool := option_eqb (option_eqb teqb) (admin_of s c) (Some (Some x)).

Definition apply_writes (acts : list action) (own : omapb) : omapb :=
  fold_left (fun o a => match a with AWrite k v => insert bcmp k v o | ARemove k => delete bcmp k o | AQ _ => o end) acts own.

Definition valid_in (rc : reg_case_env) (a : text) : bool := existsb (beqb a) (rc_valid rc).

(* preconditions under which the current admin's operation must succeed *)
Definition admin_pre (rc : reg_case_env) (used : list (N * code)) (m : msg) : bool :=
  match m with
  | MUpdateAdmin c a => valid_in rc c && valid_in rc a
  | MClearAdmin c => valid_in rc c
  | MMigrate c n p => valid_in rc c && (match find_code n used with Some co => has_migrate co | None => false end) && clean_prog p
  | _ => false
  end.

(* the complete state after a successful operation *)
Definition admin_post (prev : chain) (m : msg) : option chain :=
  match m with
  | MUpdateAdmin c a =>
      match lookup c (reg prev) with Some cd => Some (set_reg prev (update c (with_admin cd (Some a)) (reg prev))) | None => None end
  | MClearAdmin c =>
      match lookup c (reg prev) with Some cd => Some (set_reg prev (update c (with_admin cd None) (reg prev))) | None => None end
  | MMigrate c n (Prog _ acts (OResp _ _ _ SNil)) =>
      match lookup c (reg prev) with
      | Some cd => Some (cstore_set (set_reg prev (update c (migrated cd n) (reg prev))) c (apply_writes acts (cstore_get prev c)))
      | None => None end
  | _ => None
  end.

Fixpoint count_calls (n : N) (tr : trace) : N :=
  match tr with
  | [] => 0
  | en :: r => (match call_node en with Some n' => if n' =? n then 1 else 0 | None => 0 end) + count_calls n r
  end.

Fixpoint find_reply (d : text) (id : N) (pl : bytes) (tr : trace) : option bool :=
  match tr with
  | [] => None
  | RCall _ EReply d' _ _ _ _ (Some (id', pl', res)) :: r =>
      if teqb d d' && (id =? id') && beqb pl pl' then Some (match res with RROk _ _ => true | RRErr => false end)
      else find_reply d id pl r
  | _ :: r => find_reply d id pl r
  end.

(* did the (only) sub-message succeed?  read off the reply delivered to the dispatcher, or, when no reply was
   due, off the fate of the whole call *)
Definition sub_result (tr : trace) (d : text) (id : N) (pl : bytes) (ro : reply_on) (ok : bool) : option bool :=
  match find_reply d id pl tr with
  | Some b => Some b
  | None => if ok then match ro with RNever | RError => Some true | _ => None end else None
  end.

Definition effect_visible (s' : chain) (m : msg) : bool :=
  match m with
  | MUpdateAdmin c a => option_eqb (option_eqb teqb) (admin_of s' c) (Some (Some a))
  | MClearAdmin c => option_eqb (option_eqb teqb) (admin_of s' c) (Some None)
  | MMigrate c n _ => option_eqb N.eqb (option_map cd_code (lookup c (reg s'))) (Some n)
  | _ => true
  end.

Definition served_tag (used : list (N * code)) (s : chain) (c : text) : option N :=
  match lookup c (reg s) with
  | Some cd => match find_code (cd_code cd) used with Some co => Some (c_tag co) | None => None end
  | None => None
  end.

(* the nested form the oracle reads: the admin operation itself dispatches nothing further *)
Definition simple_admin (m : msg) : bool :=
  match m with MMigrate _ _ p => clean_prog p | MUpdateAdmin _ _ | MClearAdmin _ => true | _ => false end.

(* a program whose body returns exactly one sub-message, an admin operation that dispatches nothing further, with
   reply programs that dispatch nothing further: (node, id, payload, reply_on, operation, target) *)
Definition single_admin_sub (p : prog) : option (N * N * bytes * reply_on * msg * text) :=
  match p with
  | Prog node _ (OResp _ _ _ (SCons (Sub id pl ro m' k1 k2) SNil)) =>
      if clean_prog k1 && clean_prog k2 && simple_admin m'
      then match admin_msg m' with Some c => Some (node, id, pl, ro, m', c) | None => None end
      else None
  | _ => None
  end.

(* the contract D that runs the root program of a top-level call, and what the registry holds for each contract
   when that program starts: the state before the call, except that a migration has already recorded the new code
   id of its target and an instantiation has already registered the new contract *)
Definition site_of_op (prev : chain) (b : blockinfo) (op : topop) (tr : trace)
  : option (text * (text -> option cdata) * prog) :=
  match op with
  | TExec _ (MExec d p _) | TWasmSudo d p => Some (d, fun c => lookup c (reg prev), p)
  | TExec _ (MMigrate x n p) =>
      Some (x, fun c => if teqb c x then option_map (fun cd => migrated cd n) (lookup x (reg prev))
                        else lookup c (reg prev), p)
  | TExec sender (MInst id p _ label adminp _) =>
      match root_callee p tr with
      | Some a => Some (a, fun c => if teqb c a
                                    then Some {| cd_code := id; cd_creator := sender; cd_admin := adminp;
                                                 cd_label := label; cd_created := b_height b |}
                                    else lookup c (reg prev), p)
      | None => None
      end
  | _ => None
  end.

Definition site_clauses (base : N) (prev : chain) (tr : trace) (ok : bool) (s' : chain) (D : text) (bcd : text -> option cdata)
           (site : N * N * bytes * reply_on * msg * text) : list (N * bool) :=
  let '(node, id, pl, ro, m', c) := site in
  let sr := sub_result tr D id pl ro ok in
  [(base, implb (match sr with Some true => true | _ => false end)                          (* the DISPATCHER must be the admin *)
             (option_eqb (option_eqb teqb) (option_map cd_admin (bcd c)) (Some (Some D))));
   (base + 1, implb (ok && match sr with Some false => true | _ => false end)            (* refused and caught: target untouched *)
             (option_eqb cdata_eqb (lookup c (reg s')) (bcd c)
              && (teqb c D || list_eqb kv_eqb (cstore_get s' c) (cstore_get prev c))));
   (base + 2, implb (ok && match sr with Some true => true | _ => false end) (effect_visible s' m'))].

(* messages that dispatch nothing, run no contract code and do not touch the registry *)
Definition quiet_msg (m : msg) : bool :=
  match m with MBankSend _ _ | MBankBurn _ | MCustom _ _ => true | _ => false end.

(* the same one level down: the root program (execute / sudo) of contract d returns one quiet sub-message (id1, pl1);
   the reply program K that answers it (want = true: the success branch, false: the failure branch) — known to
   have run because the log shows that reply being delivered — returns an admin operation as ITS only sub-message *)
Definition reply_site_clauses (prev : chain) (tr : trace) (ok : bool) (s' : chain) (d : text) (id1 : N) (pl1 : bytes)
           (K : prog) (want : bool) : list (N * bool) :=
  match single_admin_sub K with
  | Some (node, id, pl, ro, m', c) =>
      if option_eqb Bool.eqb (find_reply d id1 pl1 tr) (Some want) && negb ((id =? id1) && beqb pl pl1)
      then site_clauses 12 prev tr ok s' d (fun x => lookup x (reg prev)) (node, id, pl, ro, m', c)
      else []
  | None => []
  end.

Definition reply_sites (prev : chain) (op : topop) (tr : trace) (ok : bool) (s' : chain) : list (N * bool) :=
  match op with
  | TExec _ (MExec d (Prog _ _ (OResp _ _ _ (SCons (Sub id1 pl1 _ mo K1 K2) SNil))) _)
  | TWasmSudo d (Prog _ _ (OResp _ _ _ (SCons (Sub id1 pl1 _ mo K1 K2) SNil))) =>
      if quiet_msg mo
      then reply_site_clauses prev tr ok s' d id1 pl1 K1 true ++ reply_site_clauses prev tr ok s' d id1 pl1 K2 false
      else []
  | _ => []
  end.

(* a migration whose new code calls back into the SAME contract by Execute (nothing else dispatches): every call
   logged at that contract during the migration — the migrate entry point, the callback, the reply — is served by
   the NEW code *)
Definition callback_clause (used : list (N * code)) (op : topop) (tr : trace) : list (N * bool) :=
  match op with
  | TExec _ (MMigrate x n (Prog _ _ (OResp _ _ _ (SCons (Sub _ _ _ (MExec x' q _) k1 k2) SNil)))) =>
      if teqb x x' && clean_prog q && clean_prog k1 && clean_prog k2 then
        [(15, match find_code n used with
              | Some co => forallb (fun en => match en with
                                              | RCall _ _ c _ _ _ tag _ => implb (teqb c x) (tag =? c_tag co)
                                              | _ => true end) tr
              | None => true
              end)]
      else []
  | _ => []
  end.

Definition p12_top (rc : reg_case_env) (sg : ost) (b : blockinfo) (op : topop) (tr : trace)
           (o : outcome (list resp)) (s' : chain) (raw : bool) : list (N * bool) :=
  let prev := o_prev sg in
  let used := o_used sg in
  let ok := is_okb o in
  (match op with
   | TExec sender m =>
       match admin_msg m with
       | Some c =>
           [(1, implb ok (is_admin prev c sender));                                    (* only the current admin *)
            (2, implb (negb ok) (raw && chain_eqb s' prev));                           (* refused: nothing changed *)
            (3, implb (is_admin prev c sender && admin_pre rc used m) ok);             (* the current admin is accepted *)
            (4, implb ok (match admin_post prev m with                                 (* exactly the specified effect *)
                          | Some ex => chain_eqb s' ex
                          | None => match m with MMigrate _ _ _ => true | _ => false end end));
            (5, match m with                                                          (* migrate of the NEW code ran once, there *)
                | MMigrate _ n p =>
                    implb ok (match find_call (node_of p) tr, find_code n used with
                              | Some (RCall _ EMigrate c' None [] _ tag None), Some co =>
                                  teqb c c' && (tag =? c_tag co) && has_migrate co && implb (clean_prog p) (count_calls (node_of p) tr =? 1)
                              | _, _ => false end)
                | _ => true end)]
       | None => []
       end
   | _ => []
   end) ++
  (* an admin operation returned as the only sub-message by the body of the ROOT program of the call — whatever its
     entry point: execute, sudo, instantiate and in particular MIGRATE — acts in the name of the contract D that
     ran that body (never of the account that sent the call): it succeeds only if D is the admin recorded for its
     target just before; refused and caught, it leaves the target as it was; accepted, its effect is visible *)
  (match site_of_op prev b op tr with
   | Some (D, bcd, p) =>
       match single_admin_sub p with
       | Some site => site_clauses 6 prev tr ok s' D bcd site
       | None => []
       end
   | None => []
   end) ++
  reply_sites prev op tr ok s' ++
  callback_clause used op tr ++
  (match op with TExec _ _ | TWasmSudo _ _ => [(9, implb (negb ok) raw)] | _ => [] end) ++
  (* calls are served by the code the registry named before the call (after a migration: the new one) *)
  (match op with
   | TExec _ (MExec c p _) | THelperExec _ (MExec c p _) | TWasmSudo c p =>
       [(10, match find_call (node_of p) tr with
             | Some en => teqb (callee_of en) c && option_eqb N.eqb (Some (call_tag en)) (served_tag used prev c)
             | None => true end)]
   | _ => []
   end) ++
  [(11, forallb (fun x => match cd_admin (snd x) with                                  (* no admin: never gets one *)
                          | None => option_eqb (option_eqb teqb) (admin_of s' (fst x)) (Some None)
                          | Some _ => true end) (reg prev))].

Definition p_c12_step (rc : reg_case_env) (sg : ost) (st : hstep) : option N :=
  first_fail (p11_ids rc sg st ++ p_queries rc sg st ++
              match hs_hop st, hs_obs st with
              | HTop b op, OTop tr o s' _ raw => p12_top rc sg b op tr o s' raw
              | HTop _ _, _ => [(31, false)]
              | _, _ => []
              end).

(* ---------- drivers ---------- *)
Fixpoint oracle_hist (f : reg_case_env -> ost -> hstep -> option N) (rc : reg_case_env) (steps : list hstep)
         (sg : ost) (k : N) : option N :=
  match steps with
  | [] => None
  | st :: r =>
      match f rc sg st with
      | Some c => Some (k * 32 + c)
      | None => oracle_hist f rc r (ost_step (re_dck (mk_renv rc)) sg st) (k + 1)
      end
  end.

Definition check_reg (f : reg_case_env -> ost -> hstep -> option N) (rc : reg_case_env) (steps : list hstep) : verdict :=
  match oracle_hist f rc steps ost0 0 with
  | Some c => PropFail c
  | None => match corr_reg (mk_renv rc) steps ([], empty_chain) 0 with
            | Some k => Disagree k
            | None => Agree
            end
  end.

Definition c11 := check_reg p_c11_step.
Definition c12 := check_reg p_c12_step.

(* ====================================================================================================
   The oracles accept the model's own output, for ALL histories (the connection between "agrees with the
   model" and "satisfies the property").
   ==================================================================================================== *)

(* what the model "observes": the raw store is unchanged iff the typed state is *)
Definition model_obs (s : chain) (r : hres) (s' : chain) : hobs :=
  match r with
  | RId x => OId x true
  | RTop tr o => OTop tr o s' 0 (chain_eqb s' s)
  | RCodeInfo x => OCodeInfo x
  | RInfo x => OInfo x
  | RData x => OData x
  | RDump l => ODump l
  end.

Definition mstep (re : renv) (h : hop) (ts : hstate) : hstep :=
  {| hs_hop := h; hs_obs := model_obs (snd ts) (fst (run_hop re h ts)) (snd (snd (run_hop re h ts))) |}.

Fixpoint model_steps (re : renv) (hs : list hop) (ts : hstate) : list hstep :=
  match hs with
  | [] => []
  | h :: r => mstep re h ts :: model_steps re r (snd (run_hop re h ts))
  end.

(* the instantiate helpers parse the address back out of the protobuf response; that round trip is outside
   this model_ok (the oracle's clause about the helper's return value is checked on the implementation only) *)
Definition no_helper_inst (h : hop) : Prop := match h with HTop _ (THelperInst _ _) => False | _ => True end.

Definition minv (t : ctable) (s : chain) : Prop := tinv t /\ reg_sorted s.
Definition sg_of (ts : hstate) : ost := {| o_used := fst ts; o_prev := snd ts |}.

Definition all_ok (l : list (N * bool)) : Prop := Forall (fun x => snd x = true) l.
Lemma first_fail_none l : all_ok l -> first_fail l = None.
Proof.
  unfold first_fail, all_ok. induction l as [|[c b] l IH]; intros H; [reflexivity|].
  inversion H; subst. cbn in *. subst b. cbn. apply IH. assumption.
Qed.
Lemma all_ok_app a b : all_ok a -> all_ok b -> all_ok (a ++ b).
Proof. intros H1 H2. apply Forall_app. split; assumption. Qed.
Lemma all_ok_nil : all_ok []. Proof. constructor. Qed.
Lemma all_ok_cons c b l : b = true -> all_ok l -> all_ok ((c, b) :: l).
Proof. intros -> H. constructor; [reflexivity|exact H]. Qed.

Lemma implb_true_r a : implb a true = true. Proof. unfold implb. apply orb_true_r. Qed.
Lemma implb_false_l b : implb false b = true. Proof. reflexivity. Qed.
Lemma implb_intro a b : (a = true -> b = true) -> implb a b = true.
Proof. unfold implb. destruct a; cbn; auto. Qed.

Lemma ltb1_eqb0 id : (id <? 1) = (id =? 0).
Proof. destruct (N.ltb_spec id 1), (N.eqb_spec id 0); try reflexivity; lia. Qed.

(* ---------- code-table operations ---------- *)
Lemma expected_id_model dck h t r : tinv t -> id_op dck h t = Some r ->
  exists oc, expected_id dck t h = Some (match r with Ok (id, _) => Ok id | Err => Err | Panic => Panic end, oc) /\
             match r with Ok (id, t') => exists c, oc = Some c /\ t' = tinsert id c t | _ => True end.
Proof.
  intros [Hs _] Hop. destruct h as [creator src|creator id src|id| | | | |]; cbn [id_op] in Hop; try discriminate;
    injection Hop as <-; cbn [expected_id].
  - unfold store_code, next_code_id. rewrite (tlast_max t Hs). destruct (u64_max <=? tmax t).
    + eexists. split; [reflexivity|exact I].
    + eexists. split; [reflexivity|]. eexists. split; reflexivity.
  - unfold store_code_with_id. destruct (has_id id t); [rewrite orb_true_r; eexists; split; [reflexivity|exact I]|].
    rewrite orb_false_r. destruct (id =? 0).
    + eexists. split; [reflexivity|exact I].
    + eexists. split; [reflexivity|]. eexists. split; reflexivity.
  - unfold duplicate_code, code_data, next_code_id. rewrite (tlast_max t Hs), ltb1_eqb0.
    destruct (if id =? 0 then None else find_code id t) as [c|].
    + destruct (u64_max <=? tmax t).
      * eexists. split; [reflexivity|exact I].
      * eexists. split; [reflexivity|]. eexists. split; reflexivity.
    + eexists. split; [reflexivity|exact I].
Qed.

Lemma id_op_none_expected dck h t : id_op dck h t = None -> expected_id dck t h = None.
Proof. destruct h; cbn; congruence. Qed.

(* run_hop of a code-table operation in terms of id_op *)
Lemma run_hop_id_op re h t s r : id_op (re_dck re) h t = Some r ->
  run_hop re h (t, s) = (fst (id_result r t), (snd (id_result r t), s)).
Proof.
  destruct h as [creator src|creator id src|id| | | | |]; cbn [id_op]; intros H; try discriminate; injection H as <-;
    cbn [run_hop fst snd].
  - destruct (id_result (store_code (re_dck re) t creator src) t); reflexivity.
  - destruct (id_result (store_code_with_id (re_dck re) t creator id src) t); reflexivity.
  - destruct (id_result (duplicate_code t id) t); reflexivity.
Qed.

Lemma ids_model_ok rc h t s : tinv t -> all_ok (p11_ids rc (sg_of (t, s)) (mstep (mk_renv rc) h (t, s))).
Proof.
  intros Hi. unfold p11_ids. cbn [sg_of o_used fst snd mstep hs_hop hs_obs].
  destruct (id_op (re_dck (mk_renv rc)) h t) as [r|] eqn:Eop.
  - destruct (expected_id_model _ _ _ _ Hi Eop) as [oc [He Hoc]]. rewrite He.
    rewrite (run_hop_id_op _ _ _ s _ Eop). cbn [fst snd].
    pose proof (id_op_step _ _ _ _ Hi Eop) as Hstep.
    destruct r as [[id t']| |]; cbn [id_result fst snd model_obs].
    + destruct Hstep as [Hpos [Hn _]].
      apply all_ok_cons; [cbn; apply N.eqb_refl|]. apply all_ok_cons; [|apply all_ok_cons; [reflexivity|apply all_ok_nil]].
      destruct (N.eqb_spec id 0); [lia|]. cbn. destruct (has_id id t) eqn:E; [apply has_id_in in E; contradiction|reflexivity].
    + repeat (apply all_ok_cons; [reflexivity|]). apply all_ok_nil.
    + repeat (apply all_ok_cons; [reflexivity|]). apply all_ok_nil.
  - rewrite (id_op_none_expected _ _ _ Eop). apply all_ok_nil.
Qed.

(* the bookkeeping of the oracle follows the model state *)
Lemma ost_step_model rc h t s : tinv t ->
  ost_step (re_dck (mk_renv rc)) (sg_of (t, s)) (mstep (mk_renv rc) h (t, s)) = sg_of (snd (run_hop (mk_renv rc) h (t, s))).
Proof.
  intros Hi. unfold ost_step. cbn [mstep hs_hop hs_obs sg_of o_used o_prev fst snd].
  destruct (id_op (re_dck (mk_renv rc)) h t) as [r|] eqn:Eop.
  - destruct (expected_id_model _ _ _ _ Hi Eop) as [oc [He Hoc]].
    rewrite (run_hop_id_op _ _ _ s _ Eop). cbn [fst snd].
    destruct r as [[id t']| |]; cbn [id_result fst snd model_obs]; try reflexivity.
    rewrite He. destruct Hoc as [c [-> ->]]. reflexivity.
  - destruct h as [creator src|creator id src|id|b op|id|c|c|c]; cbn [id_op] in Eop; try discriminate;
      cbn [run_hop fst snd model_obs]; reflexivity.
Qed.

(* ---------- queries ---------- *)
Lemma queries_model_ok rc h t s : tinv t -> all_ok (p_queries rc (sg_of (t, s)) (mstep (mk_renv rc) h (t, s))).
Proof.
  intros Hi. unfold p_queries. cbn [sg_of o_used o_prev fst snd mstep hs_hop hs_obs].
  destruct h as [creator src|creator id src|id|b op|id|c|c|c]; cbn [run_hop fst snd model_obs].
  - destruct (id_result (store_code (re_dck (mk_renv rc)) t creator src) t) as [[x| | | | |] t']; apply all_ok_nil.
  - destruct (id_result (store_code_with_id (re_dck (mk_renv rc)) t creator id src) t) as [[x| | | | |] t']; apply all_ok_nil.
  - destruct (id_result (duplicate_code t id) t) as [[x| | | | |] t']; apply all_ok_nil.
  - apply all_ok_nil.
  - apply all_ok_cons; [|apply all_ok_nil]. unfold code_info_query, code_data. rewrite ltb1_eqb0.
    unfold cinfo_eqb. cbn [obsval_eqb].
    destruct (if id =? 0 then None else find_code id t) as [co|]; cbn; [|reflexivity].
    rewrite N.eqb_refl, teqb_refl, beqb_refl. reflexivity.
  - apply all_ok_cons; [|apply all_ok_nil]. unfold info_eqb. cbn [obsval_eqb].
    destruct (info_query (mk_renv rc) s c) as [[[a b0] [x|]]|]; cbn; rewrite ?N.eqb_refl, ?teqb_refl; reflexivity.
  - apply all_ok_cons; [|apply all_ok_nil]. apply option_eqb_refl, cdata_eqb_refl.
  - apply all_ok_cons; [|apply all_ok_nil]. apply kvs_eqb_refl.
Qed.

(* ---------- clauses about every top-level call ---------- *)
Lemma run_top_exec e sender m s :
  run_top e (TExec sender m) s =
  match run_msg e sender m s with
  | (tr, Ok (r, s1)) => (tr ++ [], Ok [r], s1)
  | (tr, Err) => (tr, Err, s)
  | (tr, Panic) => (tr, Panic, s)
  end.
Proof. cbn [run_top run_msgs]. destruct (run_msg e sender m s) as [tr [[r s1]| |]]; reflexivity. Qed.

Lemma fresh_clause_ok e op s :
  forallb (fun en => match en with
                     | RCall _ EInst a _ _ _ _ _ => is_none (lookup a (reg s))
                     | _ => true end) (top_trace (run_top e op s)) = true.
Proof.
  apply forallb_forall. intros en Hin. pose proof (top_calls_fresh e op s) as H. rewrite Forall_forall in H.
  specialize (H en Hin). destruct en as [n ep a sd f b t r| | |]; try reflexivity.
  destruct ep; try reflexivity. cbn in H. rewrite H. reflexivity.
Qed.

Lemma stable_clause_ok e op s : reg_sorted s ->
  forallb (fun x => match lookup (fst x) (reg (top_state (run_top e op s))) with
                    | Some cd' => stable_cd (snd x) cd'
                    | None => false end) (reg s) = true.
Proof.
  intros Hs. apply forallb_forall. intros [a cd] Hin. cbn [fst snd].
  apply (sorted_in_lookup _ _ _ Hs) in Hin.
  destruct (proj2 (proj2 (proj2 (proj2 (exec_reg_ext e)))) op s _ _ Hin) as [cd' [Hl [E1 [E2 [E3 _]]]]].
  rewrite Hl. unfold stable_cd. rewrite E1, E2, E3, !teqb_refl, N.eqb_refl. reflexivity.
Qed.

Lemma noadmin_clause_ok e op s : reg_sorted s ->
  forallb (fun x => match cd_admin (snd x) with
                    | None => option_eqb (option_eqb teqb) (admin_of (top_state (run_top e op s)) (fst x)) (Some None)
                    | Some _ => true end) (reg s) = true.
Proof.
  intros Hs. apply forallb_forall. intros [a cd] Hin. cbn [fst snd].
  apply (sorted_in_lookup _ _ _ Hs) in Hin. destruct (cd_admin cd) eqn:Ea; [reflexivity|].
  destruct (proj2 (proj2 (proj2 (proj2 (exec_reg_ext e)))) op s _ _ Hin) as [cd' [Hl [_ [_ [_ Hn]]]]].
  unfold admin_of. rewrite Hl. cbn. rewrite (Hn Ea). reflexivity.
Qed.

Lemma clean_prog_inv p : clean_prog p = true ->
  exists node acts attrs events data, p = Prog node acts (OResp attrs events data SNil) /\ verify_response attrs events = None.
Proof.
  unfold clean_prog, prog_leaf, prog_malformed. destruct p as [node acts [|attrs events data [|sb r]]]; cbn; try discriminate.
  destruct (verify_response attrs events) eqn:E; cbn; [discriminate|]. intros _. eauto 10.
Qed.

Lemma find_call_head n e c sd f b t r rest : find_call n (RCall n e c sd f b t r :: rest) = Some (RCall n e c sd f b t r).
Proof. cbn. rewrite N.eqb_refl. reflexivity. Qed.

Lemma count_calls_no_calls n tr : Forall not_call tr -> count_calls n tr = 0.
Proof.
  induction tr as [|en tr IH]; intros H; [reflexivity|]. inversion H; subst. cbn [count_calls].
  rewrite IH by assumption. destruct en; cbn in *; try contradiction; reflexivity.
Qed.

(* a clean instantiation of a stored code at a fresh address succeeds *)
Lemma clean_inst_succeeds e sender id p label admin salt s a :
  has_id id (codes e) = true -> label <> [] -> clean_prog p = true -> salt_ok salt = true ->
  new_address e s id sender salt = Some a -> lookup a (reg s) = None ->
  is_ok (outc (run_msg e sender (MInst id p [] label admin salt) s)) = true.
Proof.
  intros Hid Hlab Hcl Hsok Hna Hfresh. unfold has_id in Hid.
  destruct (find_code id (codes e)) as [co|] eqn:Ef; [|discriminate].
  destruct (clean_prog_inv p Hcl) as [node [acts [attrs [events [data [-> Hv]]]]]].
  cbn [run_msg]. destruct label as [|l0 lr]; [congruence|].
  unfold register_contract. rewrite Ef, Hsok. cbn [negb]. rewrite Hna, Hfresh. cbn [move_funds].
  match goal with |- context [run_prog e EInst a (Some sender) [] None id true _ ?x] => set (s1 := x) end.
  assert (Hl : lookup a (reg s1) = Some {| cd_code := id; cd_creator := sender; cd_admin := admin; cd_label := l0 :: lr;
                                           cd_created := b_height (blk e) |}).
  { unfold s1. cbn [reg set_reg]. apply lookup_update_same. }
  rewrite (run_prog_leaf e EInst a (Some sender) [] None id true node acts attrs events data s1 _ co Hl Ef eq_refl Hv).
  reflexivity.
Qed.

(* the current admin's operation, its preconditions met, succeeds *)
Lemma admin_accepted rc t b sender m c s :
  admin_msg m = Some c -> is_admin s c sender = true -> admin_pre rc t m = true ->
  is_ok (outc (run_msg (senv rc t b) sender m s)) = true.
Proof.
  intros Hm Had Hpre. unfold is_admin in Had. apply oo_teqb_eq in Had. unfold admin_of in Had.
  destruct (lookup c (reg s)) as [cd|] eqn:El; [|discriminate]. cbn in Had. injection Had as Had.
  assert (Ea : option_eqb beqb (cd_admin cd) (Some sender) = true) by (apply option_eqb_some; exact Had).
  destruct m as [| | | |c' n p|c' a|c'|]; cbn [admin_msg] in Hm; try discriminate; injection Hm as ->;
    cbn [admin_pre] in Hpre; cbn [run_msg].
  - apply andb_true_iff in Hpre. destruct Hpre as [Hpre Hcl]. apply andb_true_iff in Hpre. destruct Hpre as [Hv Hco].
    unfold valid_in in Hv. unfold is_valid. cbn [senv henv valid_addrs mk_renv re_valid codes]. rewrite Hv. cbn [negb].
    destruct (find_code n t) as [co|] eqn:Ef; [|discriminate]. rewrite El, Ea. cbn [negb].
    destruct (clean_prog_inv p Hcl) as [node [acts [attrs [events [data [-> Hvr]]]]]].
    match goal with |- context [run_prog ?y EMigrate c None [] None n true _ ?x] => set (s1 := x); set (e := y) end.
    assert (Hl : lookup c (reg s1) = Some (migrated cd n)) by (unfold s1; cbn [reg set_reg]; apply lookup_update_same).
    rewrite (run_prog_leaf e EMigrate c None [] None n true node acts attrs events data s1 _ co Hl Ef Hco Hvr).
    reflexivity.
  - apply andb_true_iff in Hpre. destruct Hpre as [Hv Hva]. unfold valid_in in *. unfold is_valid.
    cbn [senv henv valid_addrs mk_renv re_valid]. rewrite Hv, Hva. cbn [negb]. rewrite El, Ea. reflexivity.
  - unfold valid_in in Hpre. unfold is_valid. cbn [senv henv valid_addrs mk_renv re_valid]. rewrite Hpre. cbn [negb].
    rewrite El, Ea. reflexivity.
Qed.

Lemma inst_ok_facts e sender id p funds label admin salt s tr r s3 :
  run_msg e sender (MInst id p funds label admin salt) s = (tr, Ok (r, s3)) ->
  label <> [] /\
  exists a s1 tag rest, register_contract e s id sender admin label salt = Ok (a, s1) /\
    tr = RCall (node_of p) EInst a (Some sender) funds (blk e) tag None :: rest /\
    (clean_prog p = true -> reg s3 = reg s1).
Proof.
  intros H. assert (Hlab : label <> []) by (intros ->; discriminate H). split; [exact Hlab|].
  revert H. cbn [run_msg]. destruct label as [|l0 lr]; [congruence|].
  destruct (register_contract e s id sender admin (l0 :: lr) salt) as [[a s1]| |] eqn:Er; try discriminate.
  destruct (move_funds s1 sender a funds) as [s2| |] eqn:Em; try discriminate.
  pose proof (run_prog_head e EInst a (Some sender) funds None id true p s2) as Hh.
  pose proof (fun node acts attrs events data sbs ev d s' =>
                run_prog_ok_shape e EInst a (Some sender) funds None id true node acts attrs events data sbs s2 ev d s') as Hsh.
  destruct (run_prog e EInst a (Some sender) funds None id true p s2) as [tr2 [[[ev d] s3']| |]] eqn:Ep; intros H; try discriminate.
  injection H as <- _ <-. exists a, s1.
  destruct (serving e s2 a EInst) as [co|]; [|discriminate Hh].
  destruct Hh as [rest Hrest]. cbn [trc fst] in Hrest. exists (c_tag co), rest. split; [reflexivity|]. split; [exact Hrest|].
  intros Hcl. destruct (clean_prog_inv p Hcl) as [node [acts [attrs [events [data [-> Hv]]]]]].
  specialize (Hsh node acts attrs events data SNil ev d s3'). rewrite Ep in Hsh. specialize (Hsh eq_refl).
  destruct Hsh as [_ [ev_s [_ Hspec]]]. cbn [subs_ok_spec] in Hspec. destruct Hspec as [_ [_ ->]].
  apply move_funds_spec in Em. destruct Em as [E _]. cbn [reg cstore_set]. exact E.
Qed.

Lemma top11_model_ok rc t s b op : minv t s -> match op with THelperInst _ _ => False | _ => True end ->
  let x := run_top (senv rc t b) op s in
  all_ok (p11_top rc (sg_of (t, s)) b op (top_trace x) (top_outcome x) (top_state x) (chain_eqb (top_state x) s)).
Proof.
  intros [Hi Hsrt] Hnh. cbn zeta. unfold p11_top. cbn [sg_of o_used o_prev fst snd].
  apply all_ok_app; [|apply all_ok_app].
  - (* a root instantiation *)
    destruct op as [sender ms|sender m|c p|to amt|sender m|sender m]; cbn [root_inst]; try apply all_ok_nil; [|contradiction].
    destruct m as [| | |id p funds label admin salt| | | |]; try apply all_ok_nil.
    rewrite run_top_exec.
    destruct (run_msg (senv rc t b) sender (MInst id p funds label admin salt) s) as [tr [[r s3]| |]] eqn:Er;
      cbn [top_trace top_outcome top_state fst snd is_okb].
    + destruct (inst_ok_facts _ _ _ _ _ _ _ _ _ _ _ _ Er) as [Hlab [a [s1 [tag [rest [Hreg [-> Hclean]]]]]]].
      apply register_records in Hreg. destruct Hreg as [Hn [Hl [_ [_ [Hna [Hin [_ [_ Hsok]]]]]]]].
      assert (Hcallee : root_callee p ((RCall (node_of p) EInst a (Some sender) funds (blk (senv rc t b)) tag None :: rest) ++ []) = Some a).
      { unfold root_callee. cbn [app]. rewrite find_call_head. reflexivity. }
      rewrite Hcallee, Hna.
      apply all_ok_cons. { destruct label; [congruence|reflexivity]. }
      apply all_ok_cons. { cbn [implb negb orb]. apply has_id_in. exact Hin. }
      apply all_ok_cons. { cbn [implb negb orb]. rewrite Hn. reflexivity. }
      apply all_ok_cons. { cbn. rewrite teqb_refl. reflexivity. }
      apply all_ok_cons.
      { apply implb_intro. cbn [andb]. intros Hcl. rewrite (Hclean Hcl), Hl. cbn [option_eqb]. apply cdata_eqb_refl. }
      apply all_ok_cons. { reflexivity. }
      apply all_ok_cons. { destruct salt; [|reflexivity]. rewrite Hn. reflexivity. }
      apply all_ok_cons. { rewrite Hsok. reflexivity. }
      apply all_ok_nil.
    + rewrite chain_eqb_refl.
      apply all_ok_cons. { apply implb_true_r. }
      do 4 (apply all_ok_cons; [reflexivity|]).
      apply all_ok_cons.
      { cbn [implb negb orb]. destruct (has_id id t) eqn:Hid; [|reflexivity]. cbn [andb].
        destruct label as [|l0 lr]; [reflexivity|]. cbn [negb andb]. destruct funds; [|reflexivity]. cbn [andb].
        destruct (clean_prog p) eqn:Hcl; [|reflexivity]. cbn [andb].
        destruct (salt_ok salt) eqn:Hsok; [|reflexivity]. cbn [andb].
        destruct (new_address (senv rc t b) s id sender salt) as [a|] eqn:Hna; [|reflexivity].
        destruct (lookup a (reg s)) eqn:Hl; [reflexivity|]. exfalso.
        assert (Hne : l0 :: lr <> []) by discriminate.
        pose proof (clean_inst_succeeds (senv rc t b) sender id p (l0 :: lr) admin salt s a Hid Hne Hcl Hsok Hna Hl) as Hok.
        rewrite Er in Hok. discriminate Hok. }
      apply all_ok_cons. { destruct salt; [|reflexivity]. destruct (new_address (senv rc t b) s id sender (Some b0)); [|reflexivity]. apply implb_true_r. }
      apply all_ok_cons. { apply implb_true_r. }
      apply all_ok_nil.
    + rewrite chain_eqb_refl.
      apply all_ok_cons. { apply implb_true_r. }
      do 4 (apply all_ok_cons; [reflexivity|]).
      apply all_ok_cons.
      { cbn [implb negb orb]. destruct (has_id id t) eqn:Hid; [|reflexivity]. cbn [andb].
        destruct label as [|l0 lr]; [reflexivity|]. cbn [negb andb]. destruct funds; [|reflexivity]. cbn [andb].
        destruct (clean_prog p) eqn:Hcl; [|reflexivity]. cbn [andb].
        destruct (salt_ok salt) eqn:Hsok; [|reflexivity]. cbn [andb].
        destruct (new_address (senv rc t b) s id sender salt) as [a|] eqn:Hna; [|reflexivity].
        destruct (lookup a (reg s)) eqn:Hl; [reflexivity|]. exfalso.
        assert (Hne : l0 :: lr <> []) by discriminate.
        pose proof (clean_inst_succeeds (senv rc t b) sender id p (l0 :: lr) admin salt s a Hid Hne Hcl Hsok Hna Hl) as Hok.
        rewrite Er in Hok. discriminate Hok. }
      apply all_ok_cons. { destruct salt; [|reflexivity]. destruct (new_address (senv rc t b) s id sender (Some b0)); [|reflexivity]. apply implb_true_r. }
      apply all_ok_cons. { apply implb_true_r. }
      apply all_ok_nil.
  - (* migration to a stored id *)
    destruct op as [sender ms|sender m|c p|to amt|sender m|sender m]; try apply all_ok_nil.
    destruct m as [| | | |c n p| | |]; try apply all_ok_nil.
    apply all_ok_cons; [|apply all_ok_cons; [|apply all_ok_nil]].
    { apply implb_intro. intros Hc.
      apply andb_true_iff in Hc. destruct Hc as [Hc Hcl]. apply andb_true_iff in Hc. destruct Hc as [Hc Hco].
      apply andb_true_iff in Hc. destruct Hc as [Hv Had].
      assert (Hok : is_ok (outc (run_msg (senv rc t b) sender (MMigrate c n p) s)) = true).
      { apply (admin_accepted rc t b sender (MMigrate c n p) c s eq_refl Had). cbn [admin_pre]. unfold valid_in. rewrite Hv, Hco, Hcl. reflexivity. }
      rewrite run_top_exec. destruct (run_msg (senv rc t b) sender (MMigrate c n p) s) as [tr [[r s3]| |]]; cbn in Hok; try discriminate. reflexivity. }
    { rewrite run_top_exec.
      destruct (run_msg (senv rc t b) sender (MMigrate c n p) s) as [tr [[r s3]| |]] eqn:Er;
        cbn [top_outcome fst snd is_okb]; try reflexivity.
      assert (Hout : outc (run_msg (senv rc t b) sender (MMigrate c n p) s) = Ok (r, s3)) by (rewrite Er; reflexivity).
      destruct (Registry.migrate_effect _ _ _ _ _ _ _ _ Hout) as [cd0 [co [node [acts [attrs [events [data [sbs [_ [_ [_ [Hco [Hmig _]]]]]]]]]]]]].
      cbn [codes senv henv] in Hco. rewrite Hco. cbn [implb negb orb]. exact Hmig. }
  - apply all_ok_cons; [apply fresh_clause_ok|]. apply all_ok_cons; [apply stable_clause_ok; exact Hsrt|]. apply all_ok_nil.
Qed.

(* ---------- C12: a direct admin operation ---------- *)
Lemma admin_msg_on m c : admin_msg m = Some c -> admin_op_on m c.
Proof. destruct m; cbn; intros H; try discriminate; injection H as ->; reflexivity. Qed.

Lemma chain_eta s b r c : bank s = b -> reg s = r -> cstore s = c -> s = {| bank := b; reg := r; cstore := c |}.
Proof. destruct s. cbn. intros -> -> ->. reflexivity. Qed.

Lemma apply_writes_is e s node acts own : snd (run_actions e s node own acts) = apply_writes acts own.
Proof. apply run_actions_own_only. Qed.

Lemma direct12_model_ok rc t s b sender m c : admin_msg m = Some c ->
  let x := run_top (senv rc t b) (TExec sender m) s in
  let prev := s in let used := t in
  let tr := top_trace x in let o := top_outcome x in let s' := top_state x in let raw := chain_eqb s' s in
  let ok := is_okb o in
  all_ok
    [(1, implb ok (is_admin prev c sender));
     (2, implb (negb ok) (raw && chain_eqb s' prev));
     (3, implb (is_admin prev c sender && admin_pre rc used m) ok);
     (4, implb ok (match admin_post prev m with
                   | Some ex => chain_eqb s' ex
                   | None => match m with MMigrate _ _ _ => true | _ => false end end));
     (5, match m with
         | MMigrate _ n p =>
             implb ok (match find_call (node_of p) tr, find_code n used with
                       | Some (RCall _ EMigrate c' None [] _ tag None), Some co =>
                           teqb c c' && (tag =? c_tag co) && has_migrate co && implb (clean_prog p) (count_calls (node_of p) tr =? 1)
                       | _, _ => false end)
         | _ => true end)].
Proof.
  intros Hm. cbn zeta. rewrite run_top_exec.
  destruct (run_msg (senv rc t b) sender m s) as [tr [[r s1]| |]] eqn:Er;
    cbn [top_trace top_outcome top_state fst snd is_okb].
  - assert (Hout : outc (run_msg (senv rc t b) sender m s) = Ok (r, s1)) by (rewrite Er; reflexivity).
    destruct (admin_ops_need_admin _ _ _ _ _ _ _ (admin_msg_on _ _ Hm) Hout) as [cd [Hl Had]].
    apply all_ok_cons.
    { cbn [implb negb orb]. unfold is_admin, admin_of. rewrite Hl. cbn [option_map]. rewrite Had. apply oo_teqb_refl. }
    apply all_ok_cons; [reflexivity|]. apply all_ok_cons; [apply implb_true_r|].
    destruct m as [| | | |c' n p|c' a|c'|]; cbn [admin_msg] in Hm; try discriminate; injection Hm as ->.
    + (* migrate *)
      destruct (Registry.migrate_effect _ _ _ _ _ _ _ _ Hout) as
        [cd0 [co [node [acts [attrs [events [data [sbs [-> [Hl0 [_ [Hco [Hmig Hrest]]]]]]]]]]]]].
      rewrite Hl in Hl0. injection Hl0 as <-. cbn zeta in Hrest. destruct Hrest as [_ [_ [Htr [_ Hleaf]]]].
      rewrite Er in Htr. cbn [trc fst] in Htr.
      apply all_ok_cons.
      { cbn [implb negb orb admin_post]. destruct sbs as [|sb rs]; [|reflexivity]. rewrite Hl.
        destruct (Hleaf eq_refl) as [-> _]. rewrite apply_writes_is. apply chain_eqb_refl. }
      apply all_ok_cons; [|apply all_ok_nil].
      cbn [implb negb orb node_of]. rewrite Htr. cbn [app]. rewrite find_call_head. cbn [codes senv henv] in Hco. rewrite Hco.
      rewrite teqb_refl, N.eqb_refl, Hmig. cbn [andb]. apply implb_intro. intros Hcl.
      destruct (clean_prog_inv _ Hcl) as [n0 [a0 [at0 [ev0 [d0 [E _]]]]]]. injection E as _ _ _ _ _ ->.
      cbn [count_calls call_node]. rewrite N.eqb_refl. rewrite count_calls_no_calls; [reflexivity|].
      cbn [process_subs trc fst]. apply Forall_app. split; [|constructor].
      apply Forall_app. split; [apply actions_no_calls|constructor].
    + (* update admin *)
      apply update_admin_authorised in Hout. destruct Hout as [cd0 [Hl0 [_ [Hr [Hb Hc]]]]].
      rewrite Hl in Hl0. injection Hl0 as <-.
      apply all_ok_cons; [|apply all_ok_cons; [reflexivity|apply all_ok_nil]].
      cbn [implb negb orb admin_post]. rewrite Hl. rewrite (chain_eta s1 _ _ _ Hb Hr Hc). apply chain_eqb_refl.
    + apply clear_admin_authorised in Hout. destruct Hout as [cd0 [Hl0 [_ [Hr [Hb Hc]]]]].
      rewrite Hl in Hl0. injection Hl0 as <-.
      apply all_ok_cons; [|apply all_ok_cons; [reflexivity|apply all_ok_nil]].
      cbn [implb negb orb admin_post]. rewrite Hl. rewrite (chain_eta s1 _ _ _ Hb Hr Hc). apply chain_eqb_refl.
  - rewrite chain_eqb_refl. apply all_ok_cons; [reflexivity|]. apply all_ok_cons; [reflexivity|].
    apply all_ok_cons.
    { apply implb_intro. intros H. apply andb_true_iff in H. destruct H as [H1 H2].
      pose proof (admin_accepted rc t b sender m c s Hm H1 H2) as Hok. rewrite Er in Hok. discriminate Hok. }
    apply all_ok_cons; [reflexivity|]. apply all_ok_cons; [destruct m; reflexivity|apply all_ok_nil].
  - rewrite chain_eqb_refl. apply all_ok_cons; [reflexivity|]. apply all_ok_cons; [reflexivity|].
    apply all_ok_cons.
    { apply implb_intro. intros H. apply andb_true_iff in H. destruct H as [H1 H2].
      pose proof (admin_accepted rc t b sender m c s Hm H1 H2) as Hok. rewrite Er in Hok. discriminate Hok. }
    apply all_ok_cons; [reflexivity|]. apply all_ok_cons; [destruct m; reflexivity|apply all_ok_nil].
Qed.

(* ---------- C12: calls are served by the recorded code ---------- *)
Definition served_ok (used : list (N * code)) (s : chain) (c : text) (n : N) (tr : trace) : bool :=
  match find_call n tr with
  | Some en => teqb (callee_of en) c && option_eqb N.eqb (Some (call_tag en)) (served_tag used s c)
  | None => true end.

Lemma served_prog e entry c sender funds rep cid rok p s :
  served_ok (codes e) s c (node_of p) (trc (run_prog e entry c sender funds rep cid rok p s)) = true.
Proof.
  unfold served_ok. pose proof (run_prog_head e entry c sender funds rep cid rok p s) as H. unfold serving in H.
  unfold served_tag. destruct (lookup c (reg s)) as [cd|]; [|rewrite H; reflexivity].
  destruct (find_code (cd_code cd) (codes e)) as [co|]; [|rewrite H; reflexivity].
  destruct (ep_available co entry); [|rewrite H; reflexivity].
  destruct H as [rest ->]. rewrite find_call_head. cbn [callee_of call_tag option_eqb]. rewrite teqb_refl, N.eqb_refl. reflexivity.
Qed.

Lemma served_tag_same_reg used s s' c : reg s' = reg s -> served_tag used s' c = served_tag used s c.
Proof. unfold served_tag. intros ->. reflexivity. Qed.

Lemma served_exec e sender c p funds s :
  served_ok (codes e) s c (node_of p) (trc (run_msg e sender (MExec c p funds) s)) = true.
Proof.
  rewrite exec_runs_after_funds. destruct (negb (is_valid e c)); [reflexivity|].
  destruct (move_funds s sender c funds) as [s1| |] eqn:Em; try reflexivity.
  pose proof (served_prog e EExec c (Some sender) funds None 0 true p s1) as H.
  apply move_funds_spec in Em. destruct Em as [E _]. unfold served_ok in *. rewrite (served_tag_same_reg _ _ _ _ E) in H.
  destruct (run_prog e EExec c (Some sender) funds None 0 true p s1) as [tr r]. exact H.
Qed.

Lemma top_trace_exec e sender m s : top_trace (run_top e (TExec sender m) s) = trc (run_msg e sender m s).
Proof.
  rewrite run_top_exec. destruct (run_msg e sender m s) as [tr [[r s1]| |]]; cbn; try reflexivity. apply app_nil_r.
Qed.
Lemma top_trace_helper_exec e sender m s : top_trace (run_top e (THelperExec sender m) s) = trc (run_msg e sender m s).
Proof.
  cbn [run_top run_msgs]. destruct (run_msg e sender m s) as [tr [[r s1]| |]]; cbn; try reflexivity.
  destruct (helper_exec_data (snd r)); cbn; apply app_nil_r.
Qed.

Lemma served_model_ok rc t s b op :
  all_ok (match op with
          | TExec _ (MExec c p _) | THelperExec _ (MExec c p _) | TWasmSudo c p =>
              [(10, match find_call (node_of p) (top_trace (run_top (senv rc t b) op s)) with
                    | Some en => teqb (callee_of en) c && option_eqb N.eqb (Some (call_tag en)) (served_tag t s c)
                    | None => true end)]
          | _ => []
          end).
Proof.
  destruct op as [sender ms|sender m|c p|to amt|sender m|sender m]; try apply all_ok_nil.
  - destruct m as [| |c p funds| | | | |]; try apply all_ok_nil.
    apply all_ok_cons; [|apply all_ok_nil]. rewrite top_trace_exec. apply (served_exec (senv rc t b)).
  - apply all_ok_cons; [|apply all_ok_nil]. pose proof (served_prog (senv rc t b) ESudo c None [] None 0 true p s) as H.
    unfold top_trace. cbn [run_top]. destruct (run_prog (senv rc t b) ESudo c None [] None 0 true p s) as [tr [[rs s']| |]]; exact H.
  - destruct m as [| |c p funds| | | | |]; try apply all_ok_nil.
    apply all_ok_cons; [|apply all_ok_nil]. rewrite top_trace_helper_exec. apply (served_exec (senv rc t b)).
Qed.

(* ---------- C12: an admin operation dispatched by a contract as its only sub-message ---------- *)
Definition no_reply_entry (en : rentry) : Prop := match en with RCall _ EReply _ _ _ _ _ _ => False | _ => True end.

Lemma not_call_no_reply tr : Forall not_call tr -> Forall no_reply_entry tr.
Proof. apply Forall_impl. intros en H. destruct en; cbn in *; try exact I. contradiction. Qed.

Lemma find_reply_skip d id pl tr1 tr2 : Forall no_reply_entry tr1 -> find_reply d id pl (tr1 ++ tr2) = find_reply d id pl tr2.
Proof.
  induction tr1 as [|en tr1 IH]; intros H; [reflexivity|]. inversion H; subst. cbn [app find_reply].
  destruct en as [n ep c sd f b t r| | |]; try (apply IH; assumption).
  destruct ep; cbn in *; try contradiction; apply IH; assumption.
Qed.
Lemma find_reply_none d id pl tr : Forall no_reply_entry tr -> find_reply d id pl tr = None.
Proof. intros H. rewrite <- (app_nil_r tr). rewrite find_reply_skip by exact H. reflexivity. Qed.

Lemma clean_prog_run e entry c sender funds rep cid rok p s : clean_prog p = true ->
  run_prog e entry c sender funds rep cid rok p s = ([], Err) \/
  exists tag obs ev d own', Forall not_call obs /\
    run_prog e entry c sender funds rep cid rok p s =
    (RCall (node_of p) entry c sender funds (blk e) tag rep :: obs, Ok ((ev, d), cstore_set s c own')).
Proof.
  intros Hcl. destruct (clean_prog_inv p Hcl) as [node [acts [attrs [events [data [-> Hv]]]]]].
  destruct (lookup c (reg s)) as [cd|] eqn:El; [|left; cbn [run_prog]; rewrite El; reflexivity].
  destruct (find_code (cd_code cd) (codes e)) as [co|] eqn:Ef; [|left; cbn [run_prog]; rewrite El, Ef; reflexivity].
  destruct (ep_available co entry) eqn:Ea; [|left; cbn [run_prog]; rewrite El, Ef, Ea; reflexivity].
  right. rewrite (run_prog_leaf e entry c sender funds rep cid rok node acts attrs events data s cd co El Ef Ea Hv).
  eexists _, _, _, _, _. split; [|reflexivity]. apply Forall_app. split; [apply actions_no_calls|constructor].
Qed.

Lemma simple_admin_no_reply e d m s : simple_admin m = true -> Forall no_reply_entry (trc (run_msg e d m s)).
Proof.
  destruct m as [| | | |c n p|c a|c|]; cbn [simple_admin]; try discriminate; intros Hs; cbn [run_msg].
  - destruct (negb (is_valid e c)); [constructor|]. destruct (find_code n (codes e)); [|constructor].
    destruct (lookup c (reg s)) as [cd|]; [|constructor].
    destruct (negb (option_eqb beqb (cd_admin cd) (Some d))); [constructor|].
    match goal with |- context [run_prog e EMigrate c None [] None n true p ?x] =>
      destruct (clean_prog_run e EMigrate c None [] None n true p x Hs) as [->|[tag [obs [ev [dd [own' [Hobs ->]]]]]]] end.
    + constructor.
    + cbn [trc fst]. constructor; [exact I|apply not_call_no_reply; exact Hobs].
  - destruct (negb (is_valid e c)); [constructor|]. destruct (negb (is_valid e a)); [constructor|].
    destruct (lookup c (reg s)) as [cd|]; [|constructor].
    destruct (negb (option_eqb beqb (cd_admin cd) (Some d))); constructor.
  - destruct (negb (is_valid e c)); [constructor|].
    destruct (lookup c (reg s)) as [cd|]; [|constructor].
    destruct (negb (option_eqb beqb (cd_admin cd) (Some d))); constructor.
Qed.

Lemma lookup_delete_other {A} x k (l : list (text * A)) : x <> k -> lookup x (delete bcmp k l) = lookup x l.
Proof.
  intros Hne. unfold lookup. induction l as [|[k' a'] l IH]; cbn [delete assoc]; [reflexivity|].
  destruct (bcmp k k') eqn:E; cbn [assoc]; [|reflexivity|rewrite IH; reflexivity].
  apply bcmp_eq in E. subst k'. destruct (bcmp x k) eqn:E2; try reflexivity. apply bcmp_eq in E2. contradiction.
Qed.

Lemma cstore_get_set_other' s c m c' : c' <> c -> cstore_get (cstore_set s c m) c' = cstore_get s c'.
Proof.
  intros Hne. unfold cstore_get, cstore_set. cbn [cstore]. destruct m as [|kv m'].
  - rewrite lookup_delete_other by exact Hne. reflexivity.
  - rewrite lookup_update_other by exact Hne. reflexivity.
Qed.

(* one program whose body returns a single simple admin sub-message with clean reply programs: the complete run *)
Lemma single_sub_cases e entry D sender funds rep cid rok node acts attrs events data id pl ro m' k1 k2 s :
  clean_prog k1 = true -> clean_prog k2 = true -> simple_admin m' = true ->
  match run_prog e entry D sender funds rep cid rok
                 (Prog node acts (OResp attrs events data (SCons (Sub id pl ro m' k1 k2) SNil))) s with
  | (tr, Ok (_, s')) =>
      exists tag rest s2, tr = RCall node entry D sender funds (blk e) tag rep :: rest /\
        reg s2 = reg s /\ (forall c', c' <> D -> cstore_get s2 c' = cstore_get s c') /\
        match outc (run_msg e D m' s2) with
        | Ok (_, s3) => find_reply D id pl rest = (if wants_ok ro then Some true else None) /\ reg s' = reg s3
        | Err => wants_err ro = true /\ find_reply D id pl rest = Some false /\ reg s' = reg s2 /\
                 (forall c', c' <> D -> cstore_get s' c' = cstore_get s2 c')
        | Panic => False
        end
  | (tr, _) => tr = [] \/ exists tag rest, tr = RCall node entry D sender funds (blk e) tag rep :: rest /\
                                           find_reply D id pl rest = None
  end.
Proof.
  intros Hk1 Hk2 Hsm. cbn [run_prog]. destruct (lookup D (reg s)) as [cd|]; [|left; reflexivity].
  destruct (find_code (cd_code cd) (codes e)) as [co|]; [|left; reflexivity].
  destruct (negb (ep_available co entry)); [left; reflexivity|].
  pose proof (actions_no_calls e s node acts (cstore_get s D)) as Hobs.
  destruct (run_actions e s node (cstore_get s D) acts) as [tr_a own']. cbn [fst] in Hobs.
  apply not_call_no_reply in Hobs.
  destruct (verify_response attrs events).
  { right. exists (c_tag co), tr_a. split; [reflexivity|]. apply find_reply_none. exact Hobs. }
  set (s2 := cstore_set s D own').
  assert (Hr2 : reg s2 = reg s) by reflexivity.
  assert (Hc2 : forall c', c' <> D -> cstore_get s2 c' = cstore_get s c').
  { intros c' Hne. unfold s2. apply cstore_get_set_other'. exact Hne. }
  rewrite process_subs_cons, run_sub_spec. unfold reply_run.
  pose proof (simple_admin_no_reply e D m' s2 Hsm) as Hnr.
  destruct (run_msg e D m' s2) as [trm [[[evm dm] s3]| |]] eqn:Em'; cbn [trc fst] in Hnr.
  - destruct (wants_ok ro) eqn:Ew.
    + destruct (clean_prog_run e EReply D None [] (Some (id, pl, RROk evm dm)) 0 true k1 s3 Hk1)
        as [->|[tag [obs [ev2 [d2 [own2 [Hobs2 ->]]]]]]].
      * cbv beta iota zeta. right. exists (c_tag co), (tr_a ++ trm ++ []). split; [reflexivity|].
        apply find_reply_none. apply Forall_app. split; [exact Hobs|]. rewrite app_nil_r. exact Hnr.
      * cbv beta iota zeta. cbn [process_subs]. cbv beta iota zeta.
        exists (c_tag co), (tr_a ++ (trm ++ RCall (node_of k1) EReply D None [] (blk e) tag (Some (id, pl, RROk evm dm)) :: obs) ++ []), s2.
        split; [reflexivity|]. split; [exact Hr2|]. split; [exact Hc2|]. rewrite Em'. cbn [outc snd]. split; [|reflexivity].
        rewrite find_reply_skip by exact Hobs. rewrite <- app_assoc. rewrite find_reply_skip by exact Hnr.
        cbn [app find_reply]. rewrite teqb_refl, N.eqb_refl, beqb_refl. reflexivity.
    + cbv beta iota zeta. cbn [process_subs]. cbv beta iota zeta.
      exists (c_tag co), (tr_a ++ trm ++ []), s2.
      split; [reflexivity|]. split; [exact Hr2|]. split; [exact Hc2|]. rewrite Em'. cbn [outc snd]. split; [|reflexivity].
      apply find_reply_none. apply Forall_app. split; [exact Hobs|].
      apply Forall_app. split; [exact Hnr|constructor].
  - destruct (wants_err ro) eqn:Ew.
    + destruct (clean_prog_run e EReply D None [] (Some (id, pl, RRErr)) 0 false k2 s2 Hk2)
        as [->|[tag [obs [ev2 [d2 [own2 [Hobs2 ->]]]]]]].
      * cbv beta iota zeta. right. exists (c_tag co), (tr_a ++ trm ++ []). split; [reflexivity|].
        apply find_reply_none. apply Forall_app. split; [exact Hobs|]. rewrite app_nil_r. exact Hnr.
      * cbv beta iota zeta. cbn [process_subs]. cbv beta iota zeta.
        exists (c_tag co), (tr_a ++ (trm ++ RCall (node_of k2) EReply D None [] (blk e) tag (Some (id, pl, RRErr)) :: obs) ++ []), s2.
        split; [reflexivity|]. split; [exact Hr2|]. split; [exact Hc2|]. rewrite Em'. cbn [outc snd].
        split; [reflexivity|]. split; [|split; [reflexivity|intros c' Hne; apply cstore_get_set_other'; exact Hne]].
        rewrite find_reply_skip by exact Hobs. rewrite <- app_assoc. rewrite find_reply_skip by exact Hnr.
        cbn [app find_reply]. rewrite teqb_refl, N.eqb_refl, beqb_refl. reflexivity.
    + cbv beta iota zeta. right. exists (c_tag co), (tr_a ++ trm). split; [reflexivity|].
      apply find_reply_none. apply Forall_app. split; [exact Hobs|exact Hnr].
  - cbv beta iota zeta. right. exists (c_tag co), (tr_a ++ trm). split; [reflexivity|].
    apply find_reply_none. apply Forall_app. split; [exact Hobs|exact Hnr].
Qed.

Lemma admin_effect e d m' c s2 r s3 s' : admin_msg m' = Some c -> simple_admin m' = true ->
  outc (run_msg e d m' s2) = Ok (r, s3) -> reg s' = reg s3 -> effect_visible s' m' = true.
Proof.
  intros Hm Hs Hout Hreg. destruct m' as [| | | |c' n p|c' a|c'|]; cbn [admin_msg] in Hm; try discriminate; injection Hm as ->;
    cbn [effect_visible]; unfold admin_of; rewrite Hreg.
  - cbn [simple_admin] in Hs. destruct (clean_prog_inv p Hs) as [node [acts [attrs [events [data [-> _]]]]]].
    destruct (Registry.migrate_effect _ _ _ _ _ _ _ _ Hout) as
      [cd0 [co [node0 [acts0 [attrs0 [events0 [data0 [sbs [E [_ [_ [_ [_ Hrest]]]]]]]]]]]]].
    injection E as _ _ _ _ _ <-. cbn zeta in Hrest. destruct Hrest as [_ [_ [_ [_ Hleaf]]]].
    destruct (Hleaf eq_refl) as [-> _]. cbn [reg cstore_set set_reg]. rewrite lookup_update_same. cbn. apply N.eqb_refl.
  - apply update_admin_authorised in Hout. destruct Hout as [cd [_ [_ [Hr _]]]]. rewrite Hr, lookup_update_same. cbn. apply teqb_refl.
  - apply clear_admin_authorised in Hout. destruct Hout as [cd [_ [_ [Hr _]]]]. rewrite Hr, lookup_update_same. reflexivity.
Qed.

Lemma single_admin_sub_inv p site : single_admin_sub p = Some site ->
  exists node acts attrs events data id pl ro m' k1 k2 c,
    p = Prog node acts (OResp attrs events data (SCons (Sub id pl ro m' k1 k2) SNil)) /\ site = (node, id, pl, ro, m', c) /\
    clean_prog k1 = true /\ clean_prog k2 = true /\ simple_admin m' = true /\ admin_msg m' = Some c.
Proof.
  destruct p as [node acts [|attrs events data [|[id pl ro m' k1 k2] [|sb2 r2]]]]; cbn [single_admin_sub]; try discriminate.
  destruct (clean_prog k1 && clean_prog k2 && simple_admin m') eqn:Ec; [|discriminate].
  destruct (admin_msg m') as [c|] eqn:Em; [|discriminate]. intros H. injection H as <-.
  apply andb_true_iff in Ec. destruct Ec as [Ec Hsm]. apply andb_true_iff in Ec. destruct Ec as [Hk1 Hk2].
  exists node, acts, attrs, events, data, id, pl, ro, m', k1, k2, c. auto 10.
Qed.

Lemma find_reply_cons_other d id pl en rest : no_reply_entry en -> find_reply d id pl (en :: rest) = find_reply d id pl rest.
Proof. intros H. apply (find_reply_skip d id pl [en] rest). constructor; [exact H|constructor]. Qed.

(* the call never reached the root program, or the program failed before dispatching: nothing is claimed *)
Lemma site_trivial base prev tr s' D bcd site :
  (let '(node, id, pl, ro, m', c) := site in find_reply D id pl tr = None) ->
  all_ok (site_clauses base prev tr false s' D bcd site).
Proof.
  destruct site as [[[[[node id] pl] ro] m'] c]. intros H. unfold site_clauses.
  assert (Hsr : sub_result tr D id pl ro false = None) by (unfold sub_result; rewrite H; reflexivity).
  rewrite Hsr. repeat (apply all_ok_cons; [reflexivity|]). apply all_ok_nil.
Qed.

(* a program with a single admin sub-message, running as contract D at the END of a top-level call (its own log is
   the tail of the call's log; what precedes it holds no reply entry), whose header is not mistaken for the reply
   to its own sub-message; the call succeeds iff it does *)
Lemma site_model_ok base e entry D sender funds rep cid rok p s_p prev pre tr ok s' bcd site :
  single_admin_sub p = Some site ->
  (let '(node, id, pl, ro, m', c) := site in
   forall tag rest, find_reply D id pl (RCall node entry D sender funds (blk e) tag rep :: rest) = find_reply D id pl rest) ->
  Forall no_reply_entry pre ->
  (forall c, lookup c (reg s_p) = bcd c) -> (forall c, c <> D -> cstore_get s_p c = cstore_get prev c) ->
  match run_prog e entry D sender funds rep cid rok p s_p with
  | (trp, Ok (_, sp')) => tr = pre ++ trp /\ ok = true /\ s' = sp'
  | (trp, _) => tr = pre ++ trp /\ ok = false
  end ->
  all_ok (site_clauses base prev tr ok s' D bcd site).
Proof.
  intros Hsite Hskip Hpre Hbcd Hcst Htop.
  destruct (single_admin_sub_inv p site Hsite) as
    [node [acts [attrs [events [data [id [pl [ro [m' [k1 [k2 [c [-> [-> [Hk1 [Hk2 [Hsm Hm]]]]]]]]]]]]]]]]].
  pose proof (single_sub_cases e entry D sender funds rep cid rok node acts attrs events data id pl ro m' k1 k2 s_p Hk1 Hk2 Hsm) as Hn.
  destruct (run_prog e entry D sender funds rep cid rok
              (Prog node acts (OResp attrs events data (SCons (Sub id pl ro m' k1 k2) SNil))) s_p) as [trp [[r sp']| |]].
  - destruct Htop as [-> [-> ->]]. destruct Hn as [tag [rest [s2 [-> [Hr2 [Hc2 Hn]]]]]].
    unfold site_clauses, sub_result. rewrite (find_reply_skip D id pl pre _ Hpre), Hskip.
    destruct (outc (run_msg e D m' s2)) as [[r3 s3]| |] eqn:Eo; [| |contradiction].
    + destruct Hn as [Hfr Hreg]. rewrite Hfr.
      assert (Hsr : match (if wants_ok ro then Some true else None) with
                    | Some b => Some b
                    | None => match ro with RNever | RError => Some true | _ => None end end = Some true)
        by (destruct ro; reflexivity).
      cbv beta iota. rewrite Hsr.
      destruct (admin_ops_need_admin _ _ _ _ _ _ _ (admin_msg_on _ _ Hm) Eo) as [cd [Hl Had]].
      apply all_ok_cons.
      { cbn [implb negb orb]. rewrite <- Hbcd, <- Hr2, Hl. cbn [option_map]. rewrite Had. apply oo_teqb_refl. }
      apply all_ok_cons; [reflexivity|].
      apply all_ok_cons; [cbn [andb implb negb orb]; eapply admin_effect; eauto|]. apply all_ok_nil.
    + destruct Hn as [_ [Hfr [Hreg Hcs]]]. rewrite Hfr. cbv beta iota.
      apply all_ok_cons; [reflexivity|].
      apply all_ok_cons.
      { cbn [andb implb negb orb]. rewrite Hreg, Hr2, Hbcd. rewrite (option_eqb_refl cdata_eqb cdata_eqb_refl). cbn [andb].
        destruct (teqb c D) eqn:Ecd; [reflexivity|]. cbn [orb].
        assert (Hne : c <> D) by (intros ->; rewrite teqb_refl in Ecd; discriminate).
        rewrite (Hcs c Hne), (Hc2 c Hne), (Hcst c Hne). apply kvs_eqb_refl. }
      apply all_ok_cons; [reflexivity|apply all_ok_nil].
  - destruct Htop as [-> ->]. apply site_trivial. rewrite (find_reply_skip D id pl pre _ Hpre).
    destruct Hn as [->|[tag [rest [-> Hn]]]]; [reflexivity|]. rewrite Hskip. exact Hn.
  - destruct Htop as [-> ->]. apply site_trivial. rewrite (find_reply_skip D id pl pre _ Hpre).
    destruct Hn as [->|[tag [rest [-> Hn]]]]; [reflexivity|]. rewrite Hskip. exact Hn.
Qed.

Lemma root_skip e entry D sender funds rep (site : N * N * bytes * reply_on * msg * text) : entry <> EReply ->
  let '(node, id, pl, ro, m', c) := site in
  forall tag rest, find_reply D id pl (RCall node entry D sender funds (blk e) tag rep :: rest) = find_reply D id pl rest.
Proof.
  intros Hent. destruct site as [[[[[node id] pl] ro] m'] c]. intros tag rest. apply find_reply_cons_other.
  destruct entry; try exact I. congruence.
Qed.

Lemma root_site_model_ok e entry D sender funds rep cid rok p s_p prev tr ok s' bcd site :
  entry <> EReply -> single_admin_sub p = Some site ->
  (forall c, lookup c (reg s_p) = bcd c) -> (forall c, cstore_get s_p c = cstore_get prev c) ->
  match run_prog e entry D sender funds rep cid rok p s_p with
  | (trp, Ok (_, sp')) => tr = trp /\ ok = true /\ s' = sp'
  | (trp, _) => tr = trp /\ ok = false
  end ->
  all_ok (site_clauses 6 prev tr ok s' D bcd site).
Proof.
  intros Hent Hsite Hb Hc Htop.
  apply (site_model_ok 6 e entry D sender funds rep cid rok p s_p prev [] tr ok s' bcd site Hsite
           (root_skip e entry D sender funds rep site Hent) (Forall_nil _) Hb (fun c _ => Hc c)).
  exact Htop.
Qed.

Lemma site_trivial_nil base prev s' D bcd site : all_ok (site_clauses base prev [] false s' D bcd site).
Proof. apply site_trivial. destruct site as [[[[[node id] pl] ro] m'] c]. reflexivity. Qed.

Lemma sites_model_ok rc t s b op :
  let x := run_top (senv rc t b) op s in
  all_ok (match site_of_op s b op (top_trace x) with
          | Some (D, bcd, p) =>
              match single_admin_sub p with
              | Some site => site_clauses 6 s (top_trace x) (is_okb (top_outcome x)) (top_state x) D bcd site
              | None => []
              end
          | None => []
          end).
Proof.
  cbn zeta. set (e := senv rc t b).
  destruct op as [sender ms|sender m|d p|to amt|sender m|sender m]; cbn [site_of_op]; try apply all_ok_nil.
  - destruct m as [| |d p funds|id p funds label adminp salt|x n p| | |]; cbn [site_of_op]; try apply all_ok_nil.
    + (* execute *)
      destruct (single_admin_sub p) as [site|] eqn:Hsite; [|apply all_ok_nil].
      rewrite run_top_exec, exec_runs_after_funds.
      destruct (negb (is_valid e d)); [apply site_trivial_nil|].
      destruct (move_funds s sender d funds) as [s1| |] eqn:Emf; try apply site_trivial_nil.
      apply move_funds_spec in Emf. destruct Emf as [Ereg [Ecs _]].
      assert (Hb : forall c, lookup c (reg s1) = lookup c (reg s)) by (intros c; rewrite Ereg; reflexivity).
      assert (Hc : forall c, cstore_get s1 c = cstore_get s c) by (intros c; unfold cstore_get; rewrite Ecs; reflexivity).
      destruct (run_prog e EExec d (Some sender) funds None 0 true p s1) as [trp [[[ev dd] sp']| |]] eqn:Ep;
        cbn [top_trace top_outcome top_state fst snd is_okb];
        apply (root_site_model_ok e EExec d (Some sender) funds None 0 true p s1 s _ _ _ _ site); try assumption; try discriminate;
        rewrite Ep; repeat split; try reflexivity. apply app_nil_r.
    + (* instantiate *)
      rewrite run_top_exec. cbn [run_msg].
      destruct label as [|l0 lr]; [apply all_ok_nil|].
      destruct (register_contract e s id sender adminp (l0 :: lr) salt) as [[a s1]| |] eqn:Er; try apply all_ok_nil.
      destruct (move_funds s1 sender a funds) as [s2| |] eqn:Emf; try apply all_ok_nil.
      apply move_funds_spec in Emf. destruct Emf as [Ereg [Ecs _]].
      apply register_fresh in Er. destruct Er as [_ [_ [Hr1 [_ Hcs1]]]].
      assert (Hb : forall c, lookup c (reg s2) =
                             if teqb c a then Some {| cd_code := id; cd_creator := sender; cd_admin := adminp;
                                                      cd_label := l0 :: lr; cd_created := b_height b |}
                             else lookup c (reg s)).
      { intros c. rewrite Ereg, Hr1, lookup_update. reflexivity. }
      assert (Hc : forall c, cstore_get s2 c = cstore_get s c) by (intros c; unfold cstore_get; rewrite Ecs, Hcs1; reflexivity).
      pose proof (run_prog_head e EInst a (Some sender) funds None id true p s2) as Hh.
      destruct (serving e s2 a EInst) as [co|].
      * destruct Hh as [rest Hrest].
        destruct (run_prog e EInst a (Some sender) funds None id true p s2) as [trp [[[ev dd] sp']| |]] eqn:Ep;
          cbn [trc fst] in Hrest; subst trp; cbn [top_trace top_outcome top_state fst snd is_okb app];
          unfold root_callee; rewrite find_call_head; cbn [callee_of];
          (destruct (single_admin_sub p) as [site|] eqn:Hsite; [|apply all_ok_nil]);
          apply (root_site_model_ok e EInst a (Some sender) funds None id true p s2 s _ _ _ _ site); try assumption; try discriminate;
          rewrite Ep; repeat split; try reflexivity. rewrite app_nil_r. reflexivity.
      * rewrite Hh. apply all_ok_nil.
    + (* migrate *)
      destruct (single_admin_sub p) as [site|] eqn:Hsite; [|apply all_ok_nil].
      rewrite run_top_exec. cbn [run_msg].
      destruct (negb (is_valid e x)); [apply site_trivial_nil|].
      destruct (find_code n (codes e)) as [co0|]; [|apply site_trivial_nil].
      destruct (lookup x (reg s)) as [cd|] eqn:El; [|apply site_trivial_nil].
      destruct (negb (option_eqb beqb (cd_admin cd) (Some sender))); [apply site_trivial_nil|].
      fold (migrated cd n). set (s1 := set_reg s (update x (migrated cd n) (reg s))).
      assert (Hb : forall c, lookup c (reg s1) =
                             if teqb c x then option_map (fun cd0 => migrated cd0 n) (Some cd) else lookup c (reg s)).
      { intros c. unfold s1. cbn [reg set_reg]. rewrite lookup_update. reflexivity. }
      assert (Hc : forall c, cstore_get s1 c = cstore_get s c) by reflexivity.
      destruct (run_prog e EMigrate x None [] None n true p s1) as [trp [[[ev dd] sp']| |]] eqn:Ep;
        cbn [top_trace top_outcome top_state fst snd is_okb];
        apply (root_site_model_ok e EMigrate x None [] None n true p s1 s _ _ _ _ site); try assumption; try discriminate;
        rewrite Ep; repeat split; try reflexivity. apply app_nil_r.
  - (* sudo *)
    destruct (single_admin_sub p) as [site|] eqn:Hsite; [|apply all_ok_nil].
    unfold top_trace, top_outcome, top_state. cbn [run_top].
    assert (Hb : forall c, lookup c (reg s) = lookup c (reg s)) by reflexivity.
    assert (Hc : forall c, cstore_get s c = cstore_get s c) by reflexivity.
    destruct (run_prog e ESudo d None [] None 0 true p s) as [trp [[[ev dd] sp']| |]] eqn:Ep; cbn [fst snd is_okb];
      apply (root_site_model_ok e ESudo d None [] None 0 true p s s _ _ _ _ site); try assumption; try discriminate;
      rewrite Ep; repeat split; reflexivity.
Qed.

(* ---------- C12: the same one level down, in the reply program of a quiet sub-message ---------- *)
Lemma reply_site_none prev tr ok s' d id1 pl1 K want :
  find_reply d id1 pl1 tr = None -> reply_site_clauses prev tr ok s' d id1 pl1 K want = [].
Proof.
  intros H. unfold reply_site_clauses. destruct (single_admin_sub K) as [[[[[[node id] pl] ro] m'] c]|]; [|reflexivity].
  rewrite H. reflexivity.
Qed.

Lemma quiet_msg_run e d mo s : quiet_msg mo = true ->
  Forall no_reply_entry (trc (run_msg e d mo s)) /\
  match outc (run_msg e d mo s) with Ok (_, s1) => reg s1 = reg s /\ cstore s1 = cstore s | _ => True end.
Proof.
  destruct mo as [to amt|amt| | | | | |okb tag]; cbn [quiet_msg]; try discriminate; intros _; cbn [run_msg].
  - destruct (bank_send (bank s) d to amt); cbn; split; auto; constructor.
  - destruct (bank_burn (bank s) d amt); cbn; split; auto; constructor.
  - destruct okb; cbn; split; auto; repeat constructor.
Qed.

Lemma final_reply_sites e d id1 pl1 res rokK K Kother s_k prev pre tr ok s' :
  Forall no_reply_entry pre ->
  (forall c, lookup c (reg s_k) = lookup c (reg prev)) -> (forall c, c <> d -> cstore_get s_k c = cstore_get prev c) ->
  match run_prog e EReply d None [] (Some (id1, pl1, res)) 0 rokK K s_k with
  | (trK, Ok (_, sK)) => tr = pre ++ trK /\ ok = true /\ s' = sK
  | (trK, _) => tr = pre ++ trK /\ ok = false
  end ->
  let want := match res with RROk _ _ => true | RRErr => false end in
  all_ok (reply_site_clauses prev tr ok s' d id1 pl1 K want) /\
  reply_site_clauses prev tr ok s' d id1 pl1 Kother (negb want) = [].
Proof.
  intros Hpre Hb Hc Htop want. split.
  - unfold reply_site_clauses. destruct (single_admin_sub K) as [[[[[[node id] pl] ro] m'] c]|] eqn:Hs; [|apply all_ok_nil].
    destruct (option_eqb Bool.eqb (find_reply d id1 pl1 tr) (Some want) && negb ((id =? id1) && beqb pl pl1)) eqn:G; [|apply all_ok_nil].
    apply andb_true_iff in G. destruct G as [_ G2].
    apply (site_model_ok 12 e EReply d None [] (Some (id1, pl1, res)) 0 rokK K s_k prev pre tr ok s' _ _ Hs); try assumption.
    intros tag rest. cbn [find_reply]. rewrite teqb_refl. cbn [andb].
    destruct ((id =? id1) && beqb pl pl1); [discriminate G2|reflexivity].
  - assert (Htr : tr = pre ++ trc (run_prog e EReply d None [] (Some (id1, pl1, res)) 0 rokK K s_k)).
    { destruct (run_prog e EReply d None [] (Some (id1, pl1, res)) 0 rokK K s_k) as [trK [[r sK]| |]]; cbn [trc fst]; apply Htop. }
    pose proof (run_prog_head e EReply d None [] (Some (id1, pl1, res)) 0 rokK K s_k) as Hh.
    destruct (serving e s_k d EReply) as [co|].
    + destruct Hh as [rest Hrest]. rewrite Hrest in Htr.
      assert (Hf : find_reply d id1 pl1 tr = Some want).
      { rewrite Htr, (find_reply_skip d id1 pl1 pre _ Hpre). cbn [find_reply]. rewrite teqb_refl, N.eqb_refl, beqb_refl. reflexivity. }
      unfold reply_site_clauses. destruct (single_admin_sub Kother) as [[[[[[node id] pl] ro] m'] c]|]; [|reflexivity].
      rewrite Hf. destruct want; reflexivity.
    + rewrite Hh in Htr. cbn [trc fst] in Htr. apply reply_site_none. rewrite Htr, app_nil_r. apply find_reply_none. exact Hpre.
Qed.

Lemma reply_sites_prog e entry d sender funds rep cid rok n0 acts0 at0 ev0 d0 id1 pl1 ro1 mo K1 K2 s_p prev tr ok s' :
  entry <> EReply -> quiet_msg mo = true ->
  (forall c, lookup c (reg s_p) = lookup c (reg prev)) -> (forall c, cstore_get s_p c = cstore_get prev c) ->
  match run_prog e entry d sender funds rep cid rok
                 (Prog n0 acts0 (OResp at0 ev0 d0 (SCons (Sub id1 pl1 ro1 mo K1 K2) SNil))) s_p with
  | (trp, Ok (_, sp')) => tr = trp /\ ok = true /\ s' = sp'
  | (trp, _) => tr = trp /\ ok = false
  end ->
  all_ok (reply_site_clauses prev tr ok s' d id1 pl1 K1 true ++ reply_site_clauses prev tr ok s' d id1 pl1 K2 false).
Proof.
  intros Hent Hq Hb Hc.
  assert (Hnone : forall tr0, find_reply d id1 pl1 tr0 = None ->
            all_ok (reply_site_clauses prev tr0 ok s' d id1 pl1 K1 true ++ reply_site_clauses prev tr0 ok s' d id1 pl1 K2 false)).
  { intros tr0 H. rewrite !reply_site_none by exact H. apply all_ok_nil. }
  cbn [run_prog]. destruct (lookup d (reg s_p)) as [cd|]; [|intros [-> _]; apply Hnone; reflexivity].
  destruct (find_code (cd_code cd) (codes e)) as [co|]; [|intros [-> _]; apply Hnone; reflexivity].
  destruct (negb (ep_available co entry)); [intros [-> _]; apply Hnone; reflexivity|].
  pose proof (actions_no_calls e s_p n0 acts0 (cstore_get s_p d)) as Hobs.
  destruct (run_actions e s_p n0 (cstore_get s_p d) acts0) as [tr_a own']. cbn [fst] in Hobs.
  apply not_call_no_reply in Hobs.
  set (hdr := RCall n0 entry d sender funds (blk e) (c_tag co) rep).
  assert (Hhdr : no_reply_entry hdr) by (destruct entry; try exact I; congruence).
  destruct (verify_response at0 ev0).
  { intros [-> _]. apply Hnone. apply find_reply_none. constructor; assumption. }
  set (s2 := cstore_set s_p d own').
  assert (Hb2 : forall c, lookup c (reg s2) = lookup c (reg prev)) by exact Hb.
  assert (Hc2 : forall c, c <> d -> cstore_get s2 c = cstore_get prev c).
  { intros c Hne. unfold s2. rewrite cstore_get_set_other' by exact Hne. apply Hc. }
  rewrite process_subs_cons, run_sub_spec. unfold reply_run.
  destruct (quiet_msg_run e d mo s2 Hq) as [Hnr Hst].
  destruct (run_msg e d mo s2) as [trmo [[[evm dm] s3]| |]] eqn:Emo; cbn [trc outc fst snd] in Hnr, Hst.
  - destruct Hst as [Hr3 Hcs3].
    assert (Hb3 : forall c, lookup c (reg s3) = lookup c (reg prev)) by (intros c; rewrite Hr3; apply Hb2).
    assert (Hc3 : forall c, c <> d -> cstore_get s3 c = cstore_get prev c).
    { intros c Hne. unfold cstore_get. rewrite Hcs3. apply (Hc2 c Hne). }
    destruct (wants_ok ro1).
    + assert (Hpre : Forall no_reply_entry (hdr :: tr_a ++ trmo)).
      { constructor; [exact Hhdr|]. apply Forall_app. split; assumption. }
      pose proof (fun tr0 ok0 s0 => final_reply_sites e d id1 pl1 (RROk evm dm) true K1 K2 s3 prev (hdr :: tr_a ++ trmo) tr0 ok0 s0 Hpre Hb3 Hc3) as Hfin.
      destruct (run_prog e EReply d None [] (Some (id1, pl1, RROk evm dm)) 0 true K1 s3) as [trK [[[ev2 d2] sK]| |]];
        cbv beta iota zeta; cbn [process_subs]; cbv beta iota zeta.
      * intros [-> [-> ->]]. specialize (Hfin (hdr :: tr_a ++ (trmo ++ trK) ++ []) true sK).
        destruct Hfin as [H1 H2].
        { split; [|auto]. rewrite app_nil_r, app_assoc. reflexivity. }
        cbn zeta in H1, H2. cbn [negb] in H2. rewrite H2, app_nil_r. exact H1.
      * intros [-> ->]. specialize (Hfin (hdr :: tr_a ++ trmo ++ trK) false s').
        destruct Hfin as [H1 H2].
        { split; [|auto]. rewrite app_assoc. reflexivity. }
        cbn zeta in H1, H2. cbn [negb] in H2. rewrite H2, app_nil_r. exact H1.
      * intros [-> ->]. specialize (Hfin (hdr :: tr_a ++ trmo ++ trK) false s').
        destruct Hfin as [H1 H2].
        { split; [|auto]. rewrite app_assoc. reflexivity. }
        cbn zeta in H1, H2. cbn [negb] in H2. rewrite H2, app_nil_r. exact H1.
    + cbv beta iota zeta. cbn [process_subs]. cbv beta iota zeta. intros [-> _]. apply Hnone.
      apply find_reply_none. constructor; [exact Hhdr|]. apply Forall_app. split; [exact Hobs|].
      apply Forall_app. split; [exact Hnr|constructor].
  - destruct (wants_err ro1).
    + assert (Hpre : Forall no_reply_entry (hdr :: tr_a ++ trmo)).
      { constructor; [exact Hhdr|]. apply Forall_app. split; assumption. }
      pose proof (fun tr0 ok0 s0 => final_reply_sites e d id1 pl1 RRErr false K2 K1 s2 prev (hdr :: tr_a ++ trmo) tr0 ok0 s0 Hpre Hb2 Hc2) as Hfin.
      destruct (run_prog e EReply d None [] (Some (id1, pl1, RRErr)) 0 false K2 s2) as [trK [[[ev2 d2] sK]| |]];
        cbv beta iota zeta; cbn [process_subs]; cbv beta iota zeta.
      * intros [-> [-> ->]]. specialize (Hfin (hdr :: tr_a ++ (trmo ++ trK) ++ []) true sK).
        destruct Hfin as [H1 H2].
        { split; [|auto]. rewrite app_nil_r, app_assoc. reflexivity. }
        cbn zeta in H1, H2. cbn [negb] in H2. rewrite H2. exact H1.
      * intros [-> ->]. specialize (Hfin (hdr :: tr_a ++ trmo ++ trK) false s').
        destruct Hfin as [H1 H2].
        { split; [|auto]. rewrite app_assoc. reflexivity. }
        cbn zeta in H1, H2. cbn [negb] in H2. rewrite H2. exact H1.
      * intros [-> ->]. specialize (Hfin (hdr :: tr_a ++ trmo ++ trK) false s').
        destruct Hfin as [H1 H2].
        { split; [|auto]. rewrite app_assoc. reflexivity. }
        cbn zeta in H1, H2. cbn [negb] in H2. rewrite H2. exact H1.
    + cbv beta iota zeta. intros [-> _]. apply Hnone.
      apply find_reply_none. constructor; [exact Hhdr|]. apply Forall_app. split; assumption.
  - cbv beta iota zeta. intros [-> _]. apply Hnone.
    apply find_reply_none. constructor; [exact Hhdr|]. apply Forall_app. split; assumption.
Qed.

Lemma reply_sites_model_ok rc t s b op :
  let x := run_top (senv rc t b) op s in
  all_ok (reply_sites s op (top_trace x) (is_okb (top_outcome x)) (top_state x)).
Proof.
  cbn zeta. set (e := senv rc t b). unfold reply_sites.
  destruct op as [sender ms|sender m|d p|to amt|sender m|sender m]; try apply all_ok_nil.
  - destruct m as [| |d p funds| | | | |]; try apply all_ok_nil.
    destruct p as [n0 acts0 [|at0 ev0 d0 [|[id1 pl1 ro1 mo K1 K2] [|sb2 r2]]]]; try apply all_ok_nil.
    destruct (quiet_msg mo) eqn:Hq; [|apply all_ok_nil].
    assert (Hnil : all_ok (reply_site_clauses s [] false s d id1 pl1 K1 true ++ reply_site_clauses s [] false s d id1 pl1 K2 false)).
    { rewrite !reply_site_none by reflexivity. apply all_ok_nil. }
    rewrite run_top_exec, exec_runs_after_funds.
    destruct (negb (is_valid e d)); [exact Hnil|].
    destruct (move_funds s sender d funds) as [s1| |] eqn:Emf; try exact Hnil.
    apply move_funds_spec in Emf. destruct Emf as [Ereg [Ecs _]].
    assert (Hb : forall c, lookup c (reg s1) = lookup c (reg s)) by (intros c; rewrite Ereg; reflexivity).
    assert (Hc : forall c, cstore_get s1 c = cstore_get s c) by (intros c; unfold cstore_get; rewrite Ecs; reflexivity).
    pose proof (fun tr0 ok0 s0 => reply_sites_prog e EExec d (Some sender) funds None 0 true n0 acts0 at0 ev0 d0 id1 pl1 ro1 mo K1 K2
                  s1 s tr0 ok0 s0 ltac:(discriminate) Hq Hb Hc) as H.
    destruct (run_prog e EExec d (Some sender) funds None 0 true
                (Prog n0 acts0 (OResp at0 ev0 d0 (SCons (Sub id1 pl1 ro1 mo K1 K2) SNil))) s1) as [trp [[[ev dd] sp']| |]];
      cbn [top_trace top_outcome top_state fst snd is_okb]; apply H; repeat split; try reflexivity. apply app_nil_r.
  - destruct p as [n0 acts0 [|at0 ev0 d0 [|[id1 pl1 ro1 mo K1 K2] [|sb2 r2]]]]; try apply all_ok_nil.
    destruct (quiet_msg mo) eqn:Hq; [|apply all_ok_nil].
    unfold top_trace, top_outcome, top_state. cbn [run_top].
    pose proof (fun tr0 ok0 s0 => reply_sites_prog e ESudo d None [] None 0 true n0 acts0 at0 ev0 d0 id1 pl1 ro1 mo K1 K2
                  s s tr0 ok0 s0 ltac:(discriminate) Hq (fun c => eq_refl) (fun c => eq_refl)) as H.
    destruct (run_prog e ESudo d None [] None 0 true
                (Prog n0 acts0 (OResp at0 ev0 d0 (SCons (Sub id1 pl1 ro1 mo K1 K2) SNil))) s) as [trp [[[ev dd] sp']| |]];
      cbn [fst snd is_okb]; apply H; repeat split; reflexivity.
Qed.

(* ---------- C12: a migration that calls back into the migrated contract ---------- *)
Definition tagP (x : text) (co : code) (en : rentry) : Prop :=
  match en with RCall _ _ c _ _ _ tag _ => c = x -> tag = c_tag co | _ => True end.
Lemma not_call_tagP x co tr : Forall not_call tr -> Forall (tagP x co) tr.
Proof. apply Forall_impl. intros en H. destruct en; cbn in *; try exact I. contradiction. Qed.
Lemma code_at_same_reg e s s' c : reg s' = reg s -> code_at e s' c = code_at e s c.
Proof. unfold code_at. intros ->. reflexivity. Qed.

Lemma clean_prog_run_tag e entry x sender funds rep cid rok p s co : clean_prog p = true -> code_at e s x = Some co ->
  Forall (tagP x co) (trc (run_prog e entry x sender funds rep cid rok p s)) /\
  match outc (run_prog e entry x sender funds rep cid rok p s) with Ok (_, s') => reg s' = reg s | _ => True end.
Proof.
  intros Hcl Hca. destruct (clean_prog_inv p Hcl) as [node [acts [attrs [events [data [-> Hv]]]]]].
  unfold code_at in Hca. destruct (lookup x (reg s)) as [cd|] eqn:El; [|discriminate].
  destruct (ep_available co entry) eqn:Ea.
  - rewrite (run_prog_leaf e entry x sender funds rep cid rok node acts attrs events data s cd co El Hca Ea Hv).
    cbn [trc outc fst snd]. split; [|reflexivity]. constructor; [intros _; reflexivity|].
    apply not_call_tagP. apply Forall_app. split; [apply actions_no_calls|constructor].
  - cbn [run_prog]. rewrite El, Hca, Ea. cbn. split; [constructor|exact I].
Qed.

Lemma callback_model_ok rc t s b op :
  all_ok (callback_clause t op (top_trace (run_top (senv rc t b) op s))).
Proof.
  set (e := senv rc t b). unfold callback_clause.
  destruct op as [sender ms|sender m|d p|to amt|sender m|sender m]; try apply all_ok_nil.
  destruct m as [| | | |x n p| | |]; try apply all_ok_nil.
  destruct p as [node acts [|attrs events data [|[id pl ro m' k1 k2] [|sb2 r2]]]]; try apply all_ok_nil;
    try (destruct m'; apply all_ok_nil).
  destruct m' as [| |x' q f| | | | |]; try apply all_ok_nil.
  destruct (teqb x x' && clean_prog q && clean_prog k1 && clean_prog k2) eqn:G; [|apply all_ok_nil].
  apply andb_true_iff in G. destruct G as [G Hk2]. apply andb_true_iff in G. destruct G as [G Hk1].
  apply andb_true_iff in G. destruct G as [Hx Hq]. apply teqb_eq in Hx. subst x'.
  apply all_ok_cons; [|apply all_ok_nil]. destruct (find_code n t) as [co|] eqn:Ef; [|reflexivity].
  assert (HF : Forall (tagP x co) (top_trace (run_top e (TExec sender (MMigrate x n
                 (Prog node acts (OResp attrs events data (SCons (Sub id pl ro (MExec x q f) k1 k2) SNil))))) s))).
  { rewrite top_trace_exec. cbn [run_msg]. destruct (negb (is_valid e x)); [constructor|].
    cbn [codes senv henv e]. rewrite Ef. destruct (lookup x (reg s)) as [cd|] eqn:El; [|constructor].
    destruct (negb (option_eqb beqb (cd_admin cd) (Some sender))); [constructor|].
    fold (migrated cd n). set (s1 := set_reg s (update x (migrated cd n) (reg s))).
    assert (Hl1 : lookup x (reg s1) = Some (migrated cd n)) by (unfold s1; cbn [reg set_reg]; apply lookup_update_same).
    assert (Hca1 : code_at e s1 x = Some co) by (unfold code_at; rewrite Hl1; exact Ef).
    assert (Htr : Forall (tagP x co) (trc (run_prog e EMigrate x None [] None n true
                   (Prog node acts (OResp attrs events data (SCons (Sub id pl ro (MExec x q f) k1 k2) SNil))) s1))).
    { cbn [run_prog]. rewrite Hl1. cbn [cd_code migrated]. fold e. cbn [codes senv henv e]. rewrite Ef.
      destruct (negb (ep_available co EMigrate)); [constructor|].
      pose proof (actions_no_calls e s1 node acts (cstore_get s1 x)) as Hobs. apply (not_call_tagP x co) in Hobs.
      destruct (run_actions e s1 node (cstore_get s1 x) acts) as [tr_a own']. cbn [fst] in Hobs.
      assert (Hhdr : tagP x co (RCall node EMigrate x None [] (blk e) (c_tag co) None)) by (intros _; reflexivity).
      destruct (verify_response attrs events); [cbn [trc fst]; constructor; assumption|].
      set (s2 := cstore_set s1 x own').
      assert (Hca2 : code_at e s2 x = Some co) by (rewrite (code_at_same_reg e s1 s2 x eq_refl); exact Hca1).
      assert (Hsubs : Forall (tagP x co) (trc (process_subs e x (SCons (Sub id pl ro (MExec x q f) k1 k2) SNil) data s2))).
      { rewrite process_subs_trace. apply Forall_app. split.
        - rewrite run_sub_trace. unfold reply_run.
          (* the callback *)
          assert (Hex : Forall (tagP x co) (trc (run_msg e x (MExec x q f) s2)) /\
                        match outc (run_msg e x (MExec x q f) s2) with Ok (_, s4) => reg s4 = reg s2 | _ => True end).
          { rewrite exec_runs_after_funds. destruct (negb (is_valid e x)); [split; [constructor|exact I]|].
            destruct (move_funds s2 x x f) as [s3| |] eqn:Em; try (split; [constructor|exact I]).
            apply move_funds_spec in Em. destruct Em as [Er3 _].
            assert (Hca3 : code_at e s3 x = Some co) by (rewrite (code_at_same_reg e s2 s3 x Er3); exact Hca2).
            destruct (clean_prog_run_tag e EExec x (Some x) f None 0 true q s3 co Hq Hca3) as [H1 H2].
            destruct (run_prog e EExec x (Some x) f None 0 true q s3) as [trq [[[ev dd] s4]| |]]; cbn [trc outc fst snd] in *;
              split; try exact H1; try exact I. rewrite H2. exact Er3. }
          destruct Hex as [Hex1 Hex2]. apply Forall_app. split; [exact Hex1|].
          destruct (outc (run_msg e x (MExec x q f) s2)) as [[[ev dd] s4]| |].
          + destruct (wants_ok ro); [|constructor].
            apply (clean_prog_run_tag e EReply x None [] (Some (id, pl, RROk ev dd)) 0 true k1 s4 co Hk1).
            rewrite (code_at_same_reg e s2 s4 x Hex2). exact Hca2.
          + destruct (wants_err ro); [|constructor].
            apply (clean_prog_run_tag e EReply x None [] (Some (id, pl, RRErr)) 0 false k2 s2 co Hk2 Hca2).
          + constructor.
        - destruct (outc (run_sub e x (Sub id pl ro (MExec x q f) k1 k2) s2)) as [[[ev1 d1] s5]| |]; constructor. }
      destruct (process_subs e x (SCons (Sub id pl ro (MExec x q f) k1 k2) SNil) data s2) as [tr_s [[[ev d] s6]| |]];
        cbn [trc fst] in *; (constructor; [exact Hhdr|apply Forall_app; split; assumption]). }
    destruct (run_prog e EMigrate x None [] None n true
                (Prog node acts (OResp attrs events data (SCons (Sub id pl ro (MExec x q f) k1 k2) SNil))) s1) as [trp [[[ev d] s7]| |]];
      exact Htr. }
  apply forallb_forall. intros en Hin. rewrite Forall_forall in HF. specialize (HF en Hin).
  destruct en as [nn ep c sd ff bb tag rr| | |]; try reflexivity. cbn in HF. apply implb_intro. intros Hc.
  apply teqb_eq in Hc. rewrite (HF Hc). apply N.eqb_refl.
Qed.

Lemma failed_raw_model_ok rc t s b op :
  let x := run_top (senv rc t b) op s in
  all_ok (match op with
          | TExec _ _ | TWasmSudo _ _ => [(9, implb (negb (is_okb (top_outcome x))) (chain_eqb (top_state x) s))]
          | _ => [] end).
Proof.
  cbn zeta. destruct op as [sender ms|sender m|d p|to amt|sender m|sender m]; try apply all_ok_nil.
  - rewrite run_top_exec. destruct (run_msg (senv rc t b) sender m s) as [tr [[r s1]| |]];
      cbn [top_outcome top_state fst snd is_okb]; (apply all_ok_cons; [|apply all_ok_nil]); try reflexivity;
      rewrite chain_eqb_refl; reflexivity.
  - unfold top_outcome, top_state. cbn [run_top].
    destruct (run_prog (senv rc t b) ESudo d None [] None 0 true p s) as [tr [[r s1]| |]]; cbn [fst snd is_okb];
      (apply all_ok_cons; [|apply all_ok_nil]); try reflexivity; rewrite chain_eqb_refl; reflexivity.
Qed.

Lemma top12_model_ok rc t s b op : minv t s ->
  let x := run_top (senv rc t b) op s in
  all_ok (p12_top rc (sg_of (t, s)) b op (top_trace x) (top_outcome x) (top_state x) (chain_eqb (top_state x) s)).
Proof.
  intros [Hi Hsrt]. cbn zeta. unfold p12_top. cbn [sg_of o_used o_prev fst snd].
  apply all_ok_app; [|apply all_ok_app; [|apply all_ok_app; [|apply all_ok_app; [|apply all_ok_app; [|apply all_ok_app]]]]].
  - destruct op as [sender ms|sender m|c p|to amt|sender m|sender m]; try apply all_ok_nil.
    destruct (admin_msg m) as [c|] eqn:Em; [|apply all_ok_nil].
    exact (direct12_model_ok rc t s b sender m c Em).
  - apply sites_model_ok.
  - apply reply_sites_model_ok.
  - apply callback_model_ok.
  - apply failed_raw_model_ok.
  - apply served_model_ok.
  - apply all_ok_cons; [apply noadmin_clause_ok; exact Hsrt|apply all_ok_nil].
Qed.

(* ---------- assembling: one step, then the whole history ---------- *)
Lemma run_hop_minv re h t s : minv t s -> minv (fst (snd (run_hop re h (t, s)))) (snd (snd (run_hop re h (t, s)))).
Proof.
  intros [Hi Hs]. split; [apply (run_hop_inv re h t s Hi)|].
  destruct h as [creator src|creator id src|id|b op|id|c|c|c]; cbn [run_hop fst snd]; try exact Hs.
  - destruct (id_result (store_code (re_dck re) t creator src) t); exact Hs.
  - destruct (id_result (store_code_with_id (re_dck re) t creator id src) t); exact Hs.
  - destruct (id_result (duplicate_code t id) t); exact Hs.
  - apply (proj2 (exec_reg_sorted (henv re t b))). exact Hs.
Qed.

Lemma step11_model_ok rc h t s : minv t s -> no_helper_inst h ->
  p_c11_step rc (sg_of (t, s)) (mstep (mk_renv rc) h (t, s)) = None.
Proof.
  intros Hm Hnh. unfold p_c11_step. apply first_fail_none.
  apply all_ok_app; [apply ids_model_ok; apply Hm|]. apply all_ok_app; [apply queries_model_ok; apply Hm|].
  destruct h as [creator src|creator id src|id|b op|id|c|c|c]; cbn [mstep hs_hop hs_obs run_hop fst snd model_obs];
    try apply all_ok_nil;
    try (match goal with |- context [id_result ?r ?t0] => destruct (id_result r t0) as [[x| | | | |] t'] end; apply all_ok_nil).
  apply (top11_model_ok rc t s b op Hm). destruct op; try exact I. exact Hnh.
Qed.

Lemma step12_model_ok rc h t s : minv t s ->
  p_c12_step rc (sg_of (t, s)) (mstep (mk_renv rc) h (t, s)) = None.
Proof.
  intros Hm. unfold p_c12_step. apply first_fail_none.
  apply all_ok_app; [apply ids_model_ok; apply Hm|]. apply all_ok_app; [apply queries_model_ok; apply Hm|].
  destruct h as [creator src|creator id src|id|b op|id|c|c|c]; cbn [mstep hs_hop hs_obs run_hop fst snd model_obs];
    try apply all_ok_nil;
    try (match goal with |- context [id_result ?r ?t0] => destruct (id_result r t0) as [[x| | | | |] t'] end; apply all_ok_nil).
  apply (top12_model_ok rc t s b op Hm).
Qed.

Lemma oracle_model_ok (f : reg_case_env -> ost -> hstep -> option N) (P : hop -> Prop) rc :
  (forall h t s, minv t s -> P h -> f rc (sg_of (t, s)) (mstep (mk_renv rc) h (t, s)) = None) ->
  forall hs t s k, minv t s -> Forall P hs ->
    oracle_hist f rc (model_steps (mk_renv rc) hs (t, s)) (sg_of (t, s)) k = None.
Proof.
  intros Hf. induction hs as [|h hs IH]; intros t s k Hm HP; cbn [model_steps oracle_hist]; [reflexivity|].
  inversion HP; subst. rewrite (Hf h t s Hm) by assumption. rewrite ost_step_model by apply Hm.
  pose proof (run_hop_minv (mk_renv rc) h t s Hm) as Hm'.
  destruct (run_hop (mk_renv rc) h (t, s)) as [x [t' s']]. cbn [fst snd] in *. apply IH; assumption.
Qed.

Lemma minv_start : minv [] empty_chain.
Proof. split; [apply tinv_nil|]. unfold reg_sorted. cbn. constructor. Qed.

(* the oracles accept the model's own output, for ALL histories and ALL address / checksum books *)
Lemma c11_oracle_model_ok rc hs : Forall no_helper_inst hs ->
  oracle_hist p_c11_step rc (model_steps (mk_renv rc) hs ([], empty_chain)) ost0 0 = None.
Proof.
  intros H. exact (oracle_model_ok p_c11_step no_helper_inst rc (fun h t s Hm Hp => step11_model_ok rc h t s Hm Hp)
                     hs [] empty_chain 0 minv_start H).
Qed.

Lemma c12_oracle_model_ok rc hs :
  oracle_hist p_c12_step rc (model_steps (mk_renv rc) hs ([], empty_chain)) ost0 0 = None.
Proof.
  assert (H : Forall (fun _ : hop => True) hs) by (apply Forall_forall; intros; exact I).
  exact (oracle_model_ok p_c12_step (fun _ => True) rc (fun h t s Hm _ => step12_model_ok rc h t s Hm)
           hs [] empty_chain 0 minv_start H).
Qed.
