(* Layout.v — L2: WHICH byte windows of the root store the modules and the contracts use, built from the
   constants and storage-site table that the translator regenerates from /repo/src on every run
   (Generated.v), and the lemmas that these windows do not overlap.  Everything is an instance of the
   prefix-freeness of the length-prefixed encoding (Prefix.v, pinned in Properties/C07.v); the only facts
   about the concrete constants that are used are computed from the REGENERATED values
   (NAMESPACE_WASM <> NAMESPACE_BANK, "contract_data/" is not a prefix of CONTRACTS, ...), so a change of a
   namespace that makes two windows comparable breaks these proofs.

   Source anchors: wasm.rs:141-171 (contract_namespace, contract_storage, contract_storage_mut),
   wasm.rs:330-345 (contract_data, dump_wasm_raw), wasm.rs:541-545 (query_raw), wasm.rs:1167-1224
   (with_storage_readonly, with_storage), wasm.rs:1226-1248 (save_contract, instance_count),
   bank.rs:20-26,68,192,228,280, staking.rs:96-113,176-975. *)
From Verif Require Import Base OMap Tx Prefix Generated.
From Coq Require Import String.

(* ---------- what the translator found in the source (fail closed) ---------- *)
Local Open Scope string_scope.

Definition is_single_opener (c : string) : bool := (c =? "prefixed") || (c =? "prefixed_read").
Definition is_multi_opener (c : string) : bool :=
  (c =? "PrefixedStorage::multilevel") || (c =? "ReadonlyPrefixedStorage::multilevel").
Definition is_contract_accessor (c : string) : bool := (c =? "contract_storage") || (c =? "contract_storage_mut").
Definition addr_arg (a : string) : bool := (a =? "address") || (a =? "&address").

(* one place where non-test code opens a prefixed view: the namespace it passes is the module's own *)
Definition site_ok (s : string * string * string * string) : bool :=
  let '(file, fn, ctor, a) := s in
  if file =? "bank.rs" then is_single_opener ctor && (a =? "NAMESPACE_BANK")
  else if file =? "staking.rs" then
    is_single_opener ctor && ((a =? "NAMESPACE_STAKING") || (a =? "NAMESPACE_DISTRIBUTION"))
  else if file =? "wasm.rs" then
    (* the registry: the single-level "wasm" namespace *)
    (is_single_opener ctor && (a =? "NAMESPACE_WASM"))
    (* contract data: ONLY inside the two accessors, two levels, the second one computed by contract_namespace
       from the address the accessor was given *)
    || (is_contract_accessor fn && is_multi_opener ctor && (a =? "&[NAMESPACE_WASM,&namespace]"))
    || (is_contract_accessor fn && (ctor =? "contract_namespace") && (a =? "address"))
    (* everybody else goes through the accessors, with the address they serve *)
    || (negb (is_contract_accessor fn) && is_contract_accessor ctor && addr_arg a)
  else if file =? "app.rs" then
    (* App's public accessors: namespaces supplied by the test author, or forwarded to the wasm keeper *)
    (is_contract_accessor fn && is_contract_accessor ctor)
    || (fn =? "prefixed_storage") || (fn =? "prefixed_storage_mut")
    || (fn =? "prefixed_multilevel_storage") || (fn =? "prefixed_multilevel_storage_mut")
  else false.

Definition goes_through_accessor (fn : string) : bool :=
  existsb (fun s => let '(file, g, ctor, a) := s in (file =? "wasm.rs") && (g =? fn) && is_contract_accessor ctor)
          storage_sites.

(* contract_namespace = b"<literal>" ++ contract.as_bytes(), nothing else (wasm.rs:141-145) *)
Lemma contract_namespace_shape :
  contract_namespace_ok = true /\ contract_namespace_params = ["contract"] /\
  contract_namespace_appends = ["contract.as_bytes()"].
Proof. repeat split; vm_compute; reflexivity. Qed.

(* every view any module opens is under its own namespace; the contract's own read path (with_storage,
   with_storage_readonly), the raw query and the dump all obtain their view from the same two accessors *)
Lemma storage_sites_ok :
  forallb site_ok storage_sites = true /\
  forallb goes_through_accessor ["with_storage"; "with_storage_readonly"; "query_raw"; "dump_wasm_raw"] = true.
Proof. split; vm_compute; reflexivity. Qed.

Local Close Scope string_scope.
Local Open Scope N_scope.

(* ---------- the paths ---------- *)
Definition CONTRACT_DATA : bytes := contract_namespace_literal.          (* "contract_data/" *)
Definition contract_ns (a : bytes) : bytes := CONTRACT_DATA ++ a.        (* contract_namespace *)

Definition p_contract (a : bytes) : list bytes := [NAMESPACE_WASM; contract_ns a].   (* multilevel(storage, &[NAMESPACE_WASM, &namespace]) *)
Definition p_wasm : list bytes := [NAMESPACE_WASM].
Definition p_registry : list bytes := [NAMESPACE_WASM; CONTRACTS].       (* Map "contracts" inside prefixed(NAMESPACE_WASM) *)
Definition p_bank : list bytes := [NAMESPACE_BANK].                      (* everything the bank module can touch *)
Definition p_balances : list bytes := [NAMESPACE_BANK; BALANCES].
Definition p_staking : list bytes := [NAMESPACE_STAKING].
Definition p_distribution : list bytes := [NAMESPACE_DISTRIBUTION].

(* a cw-storage-plus Map with a single-component key stores `len(namespace) ++ namespace ++ key`
   (Path::new with no intermediate components): the entries of the map are the window of the path
   [module namespace; map namespace], the key is what follows — used by the harness decoder and here *)
Definition registry_key (nr a : bytes) : bytes := nr ++ a.

Definition disjoint (n1 n2 : bytes) : Prop := forall r, is_prefix n1 r = true -> is_prefix n2 r = true -> False.

(* ---------- facts computed from the regenerated constants ---------- *)
Lemma consts_distinct :
  beqb NAMESPACE_WASM NAMESPACE_BANK = false /\ beqb NAMESPACE_WASM NAMESPACE_STAKING = false /\
  beqb NAMESPACE_WASM NAMESPACE_DISTRIBUTION = false /\ is_prefix CONTRACT_DATA CONTRACTS = false.
Proof. repeat split; vm_compute; reflexivity. Qed.

Lemma contract_ns_inj a b : contract_ns a = contract_ns b -> a = b.
Proof. unfold contract_ns. apply app_inv_head. Qed.

Lemma contract_ns_not_registry a : contract_ns a <> CONTRACTS.
Proof.
  intros E. pose proof (is_prefix_app CONTRACT_DATA a) as P. fold (contract_ns a) in P. rewrite E in P.
  destruct consts_distinct as (_ & _ & _ & H). rewrite H in P. discriminate.
Qed.

Lemma beqb_false_ne a b : beqb a b = false -> a <> b.
Proof. intros H E. subst. rewrite (proj2 (beqb_eq b b) eq_refl) in H. discriminate. Qed.

Lemma not_prefix_2_2 (x y1 y2 : bytes) : y1 <> y2 -> ~ seg_prefix [x; y1] [x; y2].
Proof. intros N [r E]. cbn in E. injection E as E _. symmetry in E. contradiction. Qed.

Lemma not_prefix_head (x y : bytes) p q : x <> y -> ~ seg_prefix (x :: p) (y :: q).
Proof. intros N [r E]. cbn in E. injection E as E _. symmetry in E. contradiction. Qed.

(* ---------- disjointness of the windows ---------- *)
Section Windows.
Context {V : Type}.
Notation omap := (list (bytes * V)).

Definition frames (n1 n2 : bytes) : Prop :=
  disjoint n1 n2 /\ forall m m' : omap, outside n1 m' = outside n1 m -> window n2 m' = window n2 m.

Lemma frames_of p1 p2 n1 n2 :
  enc_path p1 = Some n1 -> enc_path p2 = Some n2 -> ~ seg_prefix p1 p2 -> ~ seg_prefix p2 p1 -> frames n1 n2.
Proof.
  intros E1 E2 N1 N2.
  assert (D : disjoint n1 n2) by (intros r; exact (no_common_key p1 p2 n1 n2 r E1 E2 N1 N2)).
  split; [exact D|]. intros m m'. apply disjoint_frame. exact D.
Qed.

(* two different contracts: no raw key lies in both windows; whatever is written through the view of a
   leaves the window of b exactly as it was — also when one address is a prefix of the other, when the
   addresses contain '/' or bytes that spell a length prefix, ... *)
Lemma contract_windows_disjoint_l a b na nb :
  a <> b -> enc_path (p_contract a) = Some na -> enc_path (p_contract b) = Some nb -> frames na nb.
Proof.
  intros N Ea Eb. apply (frames_of (p_contract a) (p_contract b)); auto; unfold p_contract;
    apply not_prefix_2_2; intros E; apply contract_ns_inj in E; congruence.
Qed.

Lemma contract_vs_registry_l a na nr :
  enc_path (p_contract a) = Some na -> enc_path p_registry = Some nr -> frames na nr /\ frames nr na.
Proof.
  intros Ea Er. pose proof (contract_ns_not_registry a) as N.
  split; [apply (frames_of (p_contract a) p_registry)|apply (frames_of p_registry (p_contract a))]; auto;
    unfold p_contract, p_registry; apply not_prefix_2_2; congruence.
Qed.

Lemma contract_vs_module_l (ns : bytes) a na nm :
  beqb NAMESPACE_WASM ns = false ->
  enc_path (p_contract a) = Some na -> enc_path [ns] = Some nm -> frames na nm /\ frames nm na.
Proof.
  intros B Ea Em. apply beqb_false_ne in B.
  split; [apply (frames_of (p_contract a) [ns])|apply (frames_of [ns] (p_contract a))]; auto;
    unfold p_contract; apply not_prefix_head; congruence.
Qed.

Lemma contract_vs_bank_l a na nb :
  enc_path (p_contract a) = Some na -> enc_path p_bank = Some nb -> frames na nb /\ frames nb na.
Proof. apply contract_vs_module_l. apply consts_distinct. Qed.
Lemma contract_vs_staking_l a na ns :
  enc_path (p_contract a) = Some na -> enc_path p_staking = Some ns -> frames na ns /\ frames ns na.
Proof. apply contract_vs_module_l. apply consts_distinct. Qed.
Lemma contract_vs_distribution_l a na nd :
  enc_path (p_contract a) = Some na -> enc_path p_distribution = Some nd -> frames na nd /\ frames nd na.
Proof. apply contract_vs_module_l. apply consts_distinct. Qed.

(* the balances map lives inside the bank window, the registry and every contract inside the wasm window *)
Lemma nested_paths a na nw :
  enc_path (p_contract a) = Some na -> enc_path p_wasm = Some nw ->
  exists nc, enc_path [contract_ns a] = Some nc /\ na = nw ++ nc /\
             forall m : omap, window na m = window nc (window nw m).
Proof.
  intros Ea Ew. unfold p_contract in Ea. change [NAMESPACE_WASM; contract_ns a] with (p_wasm ++ [contract_ns a]) in Ea.
  rewrite enc_path_app_lemma, Ew in Ea. destruct (enc_path [contract_ns a]) as [nc|] eqn:Ec; [|discriminate].
  cbn in Ea. injection Ea as <-. exists nc. split; [reflexivity|]. split; [reflexivity|]. intros m. apply window_app.
Qed.

End Windows.

(* ---------- crafted keys ---------- *)
(* Whatever bytes the key k spells — another module's length-prefixed prefix, another contract's full raw
   prefix, a registry key, the empty key, 0xFF runs — the raw key the view of contract a writes
   (set_with_prefix: concat(prefix, key), namespace_helpers.rs:12-19) is [na ++ k]: it lies in a's window,
   reads back as k, and lies in NO other contract's window, not in the registry's, the bank's, the staking
   or the distribution module's. *)
Lemma crafted_key_harmless_l {V} a na (k : bytes) :
  enc_path (p_contract a) = Some na ->
  (forall (m : list (bytes * V)) v, v_set na m k v = insert bcmp (na ++ k) v m) /\
  is_prefix na (na ++ k) = true /\ strip na (na ++ k) = Some k /\
  (forall b nb, b <> a -> enc_path (p_contract b) = Some nb -> is_prefix nb (na ++ k) = false) /\
  (forall nr, enc_path p_registry = Some nr -> is_prefix nr (na ++ k) = false) /\
  (forall nb, enc_path p_bank = Some nb -> is_prefix nb (na ++ k) = false) /\
  (forall ns, enc_path p_staking = Some ns -> is_prefix ns (na ++ k) = false) /\
  (forall nd, enc_path p_distribution = Some nd -> is_prefix nd (na ++ k) = false).
Proof.
  intros Ea.
  assert (In_a : is_prefix na (na ++ k) = true) by apply is_prefix_app.
  assert (Out : forall n2, disjoint na n2 -> is_prefix n2 (na ++ k) = false).
  { intros n2 D. destruct (is_prefix n2 (na ++ k)) eqn:P; [|reflexivity]. exfalso. exact (D _ In_a P). }
  split; [reflexivity|]. split; [exact In_a|]. split; [apply strip_app|].
  split; [|split; [|split; [|split]]].
  - intros b nb N Eb. apply Out. apply (@contract_windows_disjoint_l unit a b na nb); auto.
  - intros nr Er. apply Out. apply (@contract_vs_registry_l unit a na nr); auto.
  - intros nb Eb. apply Out. apply (@contract_vs_bank_l unit a na nb); auto.
  - intros ns Es. apply Out. apply (@contract_vs_staking_l unit a na ns); auto.
  - intros nd Ed. apply Out. apply (@contract_vs_distribution_l unit a na nd); auto.
Qed.

(* ---------- every client program of a contract ---------- *)
(* ANY program over the Storage API (gets, ranges, sets, removes, nested transactional blocks) that a
   contract runs through its view behaves exactly as the same program on the plain map [window na m]
   (what it reads is its own window and nothing else), and leaves the window [n2] of every other
   contract / module exactly as it was. *)
Lemma contract_program_isolated_l {V} E A (p : prog (K := bytes) (V := V) E A) na n2 outer (m : list (bytes * V)) :
  disjoint na n2 -> sorted bcmp m -> Forall (sorted bcmp) outer ->
  match run_flat bcmp (lift_view na p) outer m, run_flat bcmp p (map (window na) outer) (window na m) with
  | Done x m', Done x' w' => x = x' /\ window na m' = w' /\ window n2 m' = window n2 m /\ outside na m' = outside na m
  | Failed e, Failed e' => e = e'
  | _, _ => False
  end.
Proof.
  intros D Hm Ho. pose proof (lens E A p na outer m Hm Ho) as L.
  pose proof (disjoint_program p na n2 outer m D Hm Ho) as F.
  destruct (run_flat bcmp (lift_view na p) outer m) as [x m'|e];
    destruct (run_flat bcmp p (map (window na) outer) (window na m)) as [x' w'|e']; try exact L.
  destruct L as (L1 & _ & L3 & L4 & _). auto.
Qed.

(* ---------- the accessors at the level of raw bytes ---------- *)
(* All of them open the view with the SAME prefix na (storage_sites_ok): what the contract reads with
   deps.storage.get, what WasmQuery::Raw returns (absent = empty bytes, wasm.rs:541-545), what
   dump_wasm_raw / contract_storage(..).range list — denote the one map [window na m]. *)
Definition raw_own_get {V} (na : bytes) (m : list (bytes * V)) (k : bytes) : option V := v_get na m k.
Definition raw_query_raw (na : bytes) (m : list (bytes * bytes)) (k : bytes) : bytes :=
  match v_get na m k with Some v => v | None => [] end.
Definition raw_dump {V} (na : bytes) (m : list (bytes * V)) : outcome (list (bytes * V)) := v_range na m None None Asc.

Lemma frange_all {A} (m : list (bytes * A)) : frange bcmp m None None = m.
Proof.
  unfold frange. induction m as [|kv m IH]; [reflexivity|]. cbn [filter].
  replace (in_bounds bcmp None None (fst kv)) with true by reflexivity. f_equal. exact IH.
Qed.

Lemma accessors_agree_raw (na : bytes) (m : list (bytes * bytes)) (k : bytes) :
  raw_own_get na m k = assoc bcmp k (window na m) /\
  raw_query_raw na m k = match assoc bcmp k (window na m) with Some v => v | None => [] end /\
  raw_dump na m = Ok (window na m).
Proof.
  unfold raw_own_get, raw_query_raw, raw_dump. rewrite v_get_spec, v_range_spec.
  split; [reflexivity|]. split; [reflexivity|]. unfold spec_range. rewrite frange_all. reflexivity.
Qed.
