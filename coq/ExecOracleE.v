(* ExecOracleE.v — part 3: every entry-point call the model logs is the call of a program of the tree, with the
   entry point, callee, sender, funds and reply that the tree prescribes (C03 clause 6, C05 clause 6), and a
   reply with Ok carries the response of the sub-message it answers (C04 clause 8). *)
From Coq Require Import Sorted.
From Verif Require Import Base OMap Text Proto Bank Exec ExecFacts ExecInv ExecFacts2 ExecIso ChkExec ChkX Registry ExecReg ExecOracle ExecOracleM.
Local Open Scope N_scope.

Definition call_pair (en : rentry) : list (N * text) := match en with RCall n _ c _ _ _ _ _ => [(n, c)] | _ => [] end.
Definition calls (tr : trace) : list (N * text) := flat_map call_pair tr.
Lemma calls_app a b : calls (a ++ b) = calls a ++ calls b.
Proof. apply flat_map_app. Qed.

Definition res_ok (res : rres) (ro : reply_on) (okb : bool) : Prop :=
  match res with
  | RROk _ _ => okb = true /\ wants_ok ro = true
  | RRErr => okb = false /\ wants_err ro = true
  end.

(* what an Ok reply carries when it answers a sub-message made of a single program *)
Definition reply_content (infos : list pinfo) (cl : list (N * text)) (pi : pinfo) (res : rres) : Prop :=
  match res with
  | RROk ev dd =>
      forall n', pi_inside pi = [n'] ->
      exists pi' c', In pi' infos /\ pi_node pi' = n' /\ In (n', c') cl /\
        (prog_leaf (pi_prog pi') = true -> pi_ep pi' = EExec ->
         ev = leaf_events EExec c' 0 (pi_prog pi') /\ dd = option_map encode_exec_resp (own_data (pi_prog pi')))
  | RRErr => True
  end.

(* [d0], [s0]: the node and the address of the program that dispatched the tree (None at top level: [s0] is
   then the external sender); [cl]: the (node, callee) pairs of the calls logged *)
Definition entry_ok (d0 : option N) (s0 : option text) (infos : list pinfo) (cl : list (N * text)) (en : rentry) : Prop :=
  match en with
  | RCall n e c sender funds b tag rep =>
      exists pi, In pi infos /\ pi_node pi = n /\ pi_ep pi = e /\ (forall t, pi_target pi = Some t -> t = c) /\
        match e with
        | EReply =>
            sender = None /\ funds = [] /\
            (exists id pl res ro okb, rep = Some (id, pl, res) /\ pi_rep pi = Some (id, pl, ro, okb) /\ res_ok res ro okb /\
                                      reply_content infos cl pi res) /\
            (exists d, pi_disp pi = Some d /\ ((d0 = Some d /\ s0 = Some c) \/ In (d, c) cl))
        | EExec | EInst =>
            rep = None /\ funds = pi_funds pi /\
            exists x, sender = Some x /\ ((pi_disp pi = d0 /\ s0 = Some x) \/ (exists d, pi_disp pi = Some d /\ In (d, x) cl))
        | ESudo | EMigrate => rep = None /\ sender = None /\ funds = []
        end
  | _ => True
  end.

Lemma reply_content_mono infos infos' cl cl' pi res : incl infos infos' -> incl cl cl' ->
  reply_content infos cl pi res -> reply_content infos' cl' pi res.
Proof.
  intros I1 I2. destruct res as [ev dd|]; cbn; [|auto]. intros H n' Hn.
  destruct (H n' Hn) as (pi' & c' & A & B & C & D). exists pi', c'. auto.
Qed.

Lemma entry_ok_mono d0 s0 infos infos' cl cl' en : incl infos infos' -> incl cl cl' ->
  entry_ok d0 s0 infos cl en -> entry_ok d0 s0 infos' cl' en.
Proof.
  intros I1 I2. destruct en as [n e c sender funds b tag rep| | |]; cbn [entry_ok]; auto.
  intros (pi & Hi & Hn & He & Ht & Hm). exists pi. split; [auto|]. split; [exact Hn|]. split; [exact He|]. split; [exact Ht|].
  destruct e.
  - destruct Hm as (A & B & x & C & [D|(d & D & E)]); repeat (split; [assumption|]); exists x; split; auto. right. exists d. auto.
  - destruct Hm as (A & B & x & C & [D|(d & D & E)]); repeat (split; [assumption|]); exists x; split; auto. right. exists d. auto.
  - destruct Hm as (A & B & (id & pl & res & ro & okb & C1 & C2 & C3 & C4) & (d & D1 & D2)).
    split; [exact A|]. split; [exact B|]. split.
    + exists id, pl, res, ro, okb. repeat (split; [assumption|]). eapply reply_content_mono; eassumption.
    + exists d. split; [exact D1|]. destruct D2 as [D2|D2]; auto.
  - exact Hm.
  - exact Hm.
Qed.

(* the entries of a tree dispatched by node d at address c, seen from the enclosing tree *)
Lemma entry_ok_lift d c d0 s0 infos infos' cl cl' en : incl infos infos' -> incl cl cl' -> In (d, c) cl' ->
  entry_ok (Some d) (Some c) infos cl en -> entry_ok d0 s0 infos' cl' en.
Proof.
  intros I1 I2 Hd. destruct en as [n e c1 sender funds b tag rep| | |]; cbn [entry_ok]; auto.
  intros (pi & Hi & Hn & He & Ht & Hm). exists pi. split; [auto|]. split; [exact Hn|]. split; [exact He|]. split; [exact Ht|].
  destruct e.
  - destruct Hm as (A & B & x & C & [[D E]|(d' & D & E)]); repeat (split; [assumption|]); exists x; split; auto; right.
    + injection E as <-. exists d. auto.
    + exists d'. auto.
  - destruct Hm as (A & B & x & C & [[D E]|(d' & D & E)]); repeat (split; [assumption|]); exists x; split; auto; right.
    + injection E as <-. exists d. auto.
    + exists d'. auto.
  - destruct Hm as (A & B & (id & pl & res & ro & okb & C1 & C2 & C3 & C4) & (d' & D1 & D2)).
    split; [exact A|]. split; [exact B|]. split.
    + exists id, pl, res, ro, okb. repeat (split; [assumption|]). eapply reply_content_mono; eassumption.
    + exists d'. split; [exact D1|]. right. destruct D2 as [[D2 D3]|D2]; [|auto].
      injection D2 as <-. injection D3 as <-. exact Hd.
  - exact Hm.
  - exact Hm.
Qed.

Definition all_ok (d0 : option N) (s0 : option text) (infos : list pinfo) (tr : trace) : Prop :=
  Forall (entry_ok d0 s0 infos (calls tr)) tr.

Lemma all_ok_nil d0 s0 infos : all_ok d0 s0 infos [].
Proof. constructor. Qed.
Lemma all_ok_app d0 s0 i1 i2 infos a b : incl i1 infos -> incl i2 infos ->
  all_ok d0 s0 i1 a -> all_ok d0 s0 i2 b -> all_ok d0 s0 infos (a ++ b).
Proof.
  intros I1 I2 Ha Hb. unfold all_ok. rewrite calls_app. apply Forall_app. split.
  - eapply Forall_impl; [|exact Ha]. intros en. apply entry_ok_mono; [exact I1|apply incl_appl, incl_refl].
  - eapply Forall_impl; [|exact Hb]. intros en. apply entry_ok_mono; [exact I2|apply incl_appr, incl_refl].
Qed.
Lemma all_ok_no_calls d0 s0 infos cl tr : Forall not_call tr -> Forall (entry_ok d0 s0 infos cl) tr.
Proof. apply Forall_impl. intros en H. destruct en; cbn in *; auto. contradiction. Qed.

Lemma calls_no_calls tr : Forall not_call tr -> calls tr = [].
Proof.
  induction 1 as [|en tr H _ IH]; [reflexivity|]. cbn [calls flat_map]. fold (calls tr). rewrite IH.
  destruct en; cbn in *; try contradiction; reflexivity.
Qed.

(* the log of one contract call: nothing, or its header followed by a well-formed tail *)
Definition prog_shape (e : env) (entry : ep) (c : text) (sender : option text) (funds : coins)
           (rep : option (N * bytes * rres)) (p : prog) (tr : trace) : Prop :=
  tr = [] \/ exists co tail, tr = hdr e (node_of p) entry c sender funds co rep :: tail /\
                             all_ok (Some (node_of p)) (Some c) (tail_infos p) tail.

(* the response of a successful sub-message that is one program *)
Lemma sub_content e c m s tr ev dd s1 d : run_msg e c m s = (tr, Ok ((ev, dd), s1)) ->
  forall n', nodes_msg m = [n'] ->
  exists pi' c', In pi' (flat_msg d m) /\ pi_node pi' = n' /\ In (n', c') (calls tr) /\
    (prog_leaf (pi_prog pi') = true -> pi_ep pi' = EExec ->
     ev = leaf_events EExec c' 0 (pi_prog pi') /\ dd = option_map encode_exec_resp (own_data (pi_prog pi'))).
Proof.
  intros E n' Hn. destruct (msg_prog m) as [p|] eqn:Hp.
  2:{ rewrite (proj1 (proj2 (flat_msg_leaf m d Hp))) in Hn. discriminate. }
  destruct (flat_msg_prog m p d Hp) as (Ef & En & _). rewrite Ef, flat_prog_eq. rewrite En, nodes_prog_eq in Hn.
  injection Hn as Hn Hnil.
  destruct (run_msg_cases e c m s p Hp) as [[_ Hx]|(c' & s0 & _ & _ & _ & _ & E2)].
  { rewrite E in Hx. discriminate. }
  rewrite E in E2. destruct p as [node acts out]. cbn [node_of] in *. subst n'.
  destruct (run_prog_cases e (msg_entry m) c' (msg_sender m c) (msg_funds m) None (msg_cid m) true node acts out s0)
    as [[_ E3]|[(co & _ & _ & E3)|(co & attrs & events & data & sbs & _ & -> & Hv & E3)]]; rewrite E3 in E2; try discriminate.
  exists (root_info (msg_entry m) d None (msg_funds m) (msg_target m) [] (Prog node acts (OResp attrs events data sbs))), c'.
  split; [left; reflexivity|]. split; [reflexivity|].
  destruct (process_subs e c' sbs data (body_st e s0 node c' acts)) as [tr_s r] eqn:Es.
  injection E2 as -> E2. split; [cbn; left; reflexivity|].
  cbn [root_info pi_prog pi_ep prog_leaf]. intros Hl He. destruct sbs; [|discriminate].
  cbn in Es. injection Es as <- <-. injection E2 as -> -> _.
  destruct m; cbn in He; try discriminate. cbn [msg_data msg_cid leaf_events own_data]. rewrite app_nil_r. auto.
Qed.

(* a header followed by the tail of its program, seen from the enclosing tree *)
Lemma prog_shape_lift e d0 s0 infos p entry c sender funds rep tr :
  prog_shape e entry c sender funds rep p tr -> incl (tail_infos p) infos ->
  (forall co cl, entry_ok d0 s0 infos ((node_of p, c) :: cl) (hdr e (node_of p) entry c sender funds co rep)) ->
  all_ok d0 s0 infos tr.
Proof.
  intros [->|(co & tail & -> & Ht)] Hi Hh; [constructor|].
  unfold all_ok. cbn [calls flat_map hdr call_pair app]. fold (calls tail). constructor; [apply Hh|].
  eapply Forall_impl; [|exact Ht]. intros en. apply entry_ok_lift; [exact Hi|apply incl_tl, incl_refl|left; reflexivity].
Qed.

Lemma exec_entries e :
  (forall m sender s d0, all_ok d0 (Some sender) (flat_msg d0 m) (trc (run_msg e sender m s))) /\
  (forall p entry c sender funds rep cid rok s,
      prog_shape e entry c sender funds rep p (trc (run_prog e entry c sender funds rep cid rok p s))) /\
  (forall o : output, match o with OFail => True | OResp _ _ _ sbs =>
      forall c data s d, all_ok (Some d) (Some c) (flat_subs d sbs) (trc (process_subs e c sbs data s)) end) /\
  (forall l c data s d, all_ok (Some d) (Some c) (flat_subs d l) (trc (process_subs e c l data s))) /\
  (forall sb c s d, all_ok (Some d) (Some c) (flat_sub d sb) (trc (run_sub e c sb s))).
Proof.
  assert (Hleaf : forall m sender s d0, msg_prog m = None -> all_ok d0 (Some sender) (flat_msg d0 m) (trc (run_msg e sender m s))).
  { intros m sender s d0 H. apply all_ok_no_calls. exact (proj1 (run_msg_leaf e sender m s H)). }
  assert (Hcall : forall m p, msg_prog m = Some p ->
            (forall entry c sender funds rep cid rok s,
                prog_shape e entry c sender funds rep p (trc (run_prog e entry c sender funds rep cid rok p s))) ->
            forall sender s d0, all_ok d0 (Some sender) (flat_msg d0 m) (trc (run_msg e sender m s))).
  { intros m p Hp IH sender s d0. destruct (flat_msg_prog m p d0 Hp) as (-> & _ & _). rewrite flat_prog_eq.
    destruct (run_msg_cases e sender m s p Hp) as [[-> _]|(c & s1 & _ & _ & Ht & _ & ->)]; [constructor|].
    specialize (IH (msg_entry m) c (msg_sender m sender) (msg_funds m) None (msg_cid m) true s1).
    destruct (run_prog e (msg_entry m) c (msg_sender m sender) (msg_funds m) None (msg_cid m) true p s1) as [tr r]. cbn [trc fst] in *.
    eapply prog_shape_lift; [exact IH|apply incl_tl, incl_refl|].
    intros co cl. cbn [entry_ok hdr].
    exists (root_info (msg_entry m) d0 None (msg_funds m) (msg_target m) [] p). split; [left; reflexivity|].
    split; [reflexivity|]. split; [reflexivity|]. split; [exact Ht|]. cbn [root_info pi_funds pi_disp].
    destruct m; cbn in Hp; try discriminate; cbn [msg_entry msg_sender msg_funds].
    - split; [reflexivity|]. split; [reflexivity|]. exists sender. auto.
    - split; [reflexivity|]. split; [reflexivity|]. exists sender. auto.
    - auto. }
  apply exec_mutind; try (intros; exact I); try (intros; apply Hleaf; reflexivity);
    try (intros; eapply Hcall; [reflexivity|assumption]).
  - (* Prog *) intros node acts out IH entry c sender funds rep cid rok s. unfold prog_shape, tail_infos. cbn [node_of out_of].
    destruct (run_prog_cases e entry c sender funds rep cid rok node acts out s)
      as [[_ ->]|[(co & _ & _ & ->)|(co & attrs & events & data & sbs & _ & -> & _ & ->)]]; [left; reflexivity| |].
    + right. exists co, (body_tr e s node c acts). split; [reflexivity|]. apply all_ok_no_calls, actions_no_calls.
    + specialize (IH c data (body_st e s node c acts) node).
      destruct (process_subs e c sbs data (body_st e s node c acts)) as [tr_s r]. cbn [trc fst] in *.
      right. exists co, (body_tr e s node c acts ++ tr_s). split; [reflexivity|]. cbn [flat_out].
      eapply all_ok_app; [apply incl_nil_l|apply incl_refl| |exact IH]. apply all_ok_no_calls, actions_no_calls.
  - (* OResp *) intros attrs events data sbs IH. exact IH.
  - (* SNil *) intros c data s d. constructor.
  - (* SCons *) intros sb IHsb r IHr c data s d. rewrite process_subs_trace. cbn [flat_subs].
    eapply all_ok_app; [apply incl_appl, incl_refl|apply incl_appr, incl_refl|apply IHsb|].
    destruct (outc (run_sub e c sb s)) as [[[ev1 d1] s1]| |]; [apply IHr|constructor|constructor].
  - (* Sub *) intros id payload ro m IHm on_ok IHok on_err IHerr c s d. rewrite run_sub_trace. unfold reply_run.
    cbn [flat_sub]. rewrite !flat_prog_eq.
    set (infos := flat_msg (Some d) m ++
                  (root_info EReply (Some d) (Some (id, payload, ro, true)) [] None (nodes_msg m) on_ok :: tail_infos on_ok) ++
                  root_info EReply (Some d) (Some (id, payload, ro, false)) [] None (nodes_msg m) on_err :: tail_infos on_err).
    assert (I1 : incl (flat_msg (Some d) m) infos) by (apply incl_appl, incl_refl).
    destruct (run_msg e c m s) as [tr [[[ev dd] s1]| |]] eqn:Em; cbn [trc outc fst snd].
    + destruct (wants_ok ro) eqn:Ew.
      2:{ rewrite app_nil_r. specialize (IHm c s (Some d)). rewrite Em in IHm. cbn [trc fst] in IHm.
          eapply Forall_impl; [|exact IHm]. intros en. apply entry_ok_mono; [exact I1|apply incl_refl]. }
      unfold all_ok. rewrite calls_app. apply Forall_app. split.
      * specialize (IHm c s (Some d)). rewrite Em in IHm. cbn [trc fst] in IHm.
        eapply Forall_impl; [|exact IHm]. intros en. apply entry_ok_mono; [exact I1|apply incl_appl, incl_refl].
      * specialize (IHok EReply c None [] (Some (id, payload, RROk ev dd)) 0 true s1).
        destruct IHok as [->|(co & tail & -> & Ht)]; [constructor|]. cbn [calls flat_map hdr call_pair app]. fold (calls tail).
        constructor.
        -- cbn [entry_ok].
           exists (root_info EReply (Some d) (Some (id, payload, ro, true)) [] None (nodes_msg m) on_ok).
           split; [unfold infos; apply in_or_app; right; apply in_or_app; left; left; reflexivity|].
           split; [reflexivity|]. split; [reflexivity|]. split; [cbn; discriminate|].
           split; [reflexivity|]. split; [reflexivity|]. split.
           ++ exists id, payload, (RROk ev dd), ro, true. split; [reflexivity|]. split; [reflexivity|]. split; [cbn; auto|].
              cbn [reply_content root_info pi_inside]. intros n' Hn'.
              destruct (sub_content e c m s tr ev dd s1 (Some d) Em n' Hn') as (pi' & c' & A & B & C & D).
              exists pi', c'. split; [apply I1, A|]. split; [exact B|]. split; [apply in_or_app; left; exact C|exact D].
           ++ exists d. split; [reflexivity|]. left. auto.
        -- eapply Forall_impl; [|exact Ht]. intros en. apply entry_ok_lift.
           ++ unfold infos. intros x Hx. apply in_or_app. right. apply in_or_app. left. right. exact Hx.
           ++ intros x Hx. apply in_or_app. right. right. exact Hx.
           ++ apply in_or_app. right. left. reflexivity.
    + destruct (wants_err ro) eqn:Ew.
      2:{ rewrite app_nil_r. specialize (IHm c s (Some d)). rewrite Em in IHm. cbn [trc fst] in IHm.
          eapply Forall_impl; [|exact IHm]. intros en. apply entry_ok_mono; [exact I1|apply incl_refl]. }
      unfold all_ok. rewrite calls_app. apply Forall_app. split.
      * specialize (IHm c s (Some d)). rewrite Em in IHm. cbn [trc fst] in IHm.
        eapply Forall_impl; [|exact IHm]. intros en. apply entry_ok_mono; [exact I1|apply incl_appl, incl_refl].
      * specialize (IHerr EReply c None [] (Some (id, payload, RRErr)) 0 false s).
        destruct IHerr as [->|(co & tail & -> & Ht)]; [constructor|]. cbn [calls flat_map hdr call_pair app]. fold (calls tail).
        constructor.
        -- cbn [entry_ok].
           exists (root_info EReply (Some d) (Some (id, payload, ro, false)) [] None (nodes_msg m) on_err).
           split; [unfold infos; apply in_or_app; right; apply in_or_app; right; left; reflexivity|].
           split; [reflexivity|]. split; [reflexivity|]. split; [cbn; discriminate|].
           split; [reflexivity|]. split; [reflexivity|]. split.
           ++ exists id, payload, RRErr, ro, false. split; [reflexivity|]. split; [reflexivity|]. split; [cbn; auto|exact I].
           ++ exists d. split; [reflexivity|]. left. auto.
        -- eapply Forall_impl; [|exact Ht]. intros en. apply entry_ok_lift.
           ++ unfold infos. intros x Hx. apply in_or_app. right. apply in_or_app. right. right. exact Hx.
           ++ intros x Hx. apply in_or_app. right. right. exact Hx.
           ++ apply in_or_app. right. left. reflexivity.
    + rewrite app_nil_r. specialize (IHm c s (Some d)). rewrite Em in IHm. cbn [trc fst] in IHm.
      eapply Forall_impl; [|exact IHm]. intros en. apply entry_ok_mono; [exact I1|apply incl_refl].
Qed.

(* ---------- top level ---------- *)
Lemma msgs_entries e sender : forall ms s,
  all_ok None (Some sender) (flat_map (flat_msg None) ms) (trc (run_msgs e sender ms s)).
Proof.
  induction ms as [|m r IH]; intros s; [constructor|]. rewrite run_msgs_cons. cbn [flat_map].
  pose proof (proj1 (exec_entries e) m sender s None) as H1.
  destruct (run_msg e sender m s) as [tr1 [[rs s1]| |]]; cbn [trc fst] in *.
  - specialize (IH s1). destruct (run_msgs e sender r s1) as [tr2 r2]. cbn [trc fst] in *.
    eapply all_ok_app; [apply incl_appl, incl_refl|apply incl_appr, incl_refl|exact H1|exact IH].
  - eapply Forall_impl; [|exact H1]. intros en. apply entry_ok_mono; [apply incl_appl, incl_refl|apply incl_refl].
  - eapply Forall_impl; [|exact H1]. intros en. apply entry_ok_mono; [apply incl_appl, incl_refl|apply incl_refl].
Qed.

Lemma top_entries e op s : all_ok None (top_sender op) (flat_op op) (top_trace (run_top e op s)).
Proof.
  rewrite (proj1 (top_inner e op s)). destruct (op_msgs op) as [[sd ms]|] eqn:E.
  - destruct (inner_msgs e op s sd ms E) as (-> & _ & -> & -> & _). apply msgs_entries.
  - destruct op; try discriminate.
    + cbn [inner flat_op top_sender]. rewrite flat_prog_eq.
      pose proof (proj1 (proj2 (exec_entries e)) p ESudo c None [] None 0 true s) as H.
      destruct (run_prog e ESudo c None [] None 0 true p s) as [tr r]. cbn [trc fst] in *.
      eapply prog_shape_lift; [exact H|apply incl_tl, incl_refl|].
      intros co cl. cbn [entry_ok hdr]. exists (root_info ESudo None None [] (Some c) [] p).
      split; [left; reflexivity|]. split; [reflexivity|]. split; [reflexivity|].
      split; [cbn; intros t Ht; injection Ht as ->; reflexivity|auto].
    + rewrite inner_mint. constructor.
Qed.
