(* ExecOracleH.v — part 8: the Executor helpers (instantiate_contract, execute_contract) parse the protobuf response
   AFTER the transaction has been committed, so "not Ok => unchanged" (C01 clause 5, C02 clause 6) holds of them only
   if that parse cannot fail.  It cannot when the helper is used with the message kind its Rust signature builds, the
   addresses of the case's address book are non-empty, and lengths are below 2^70 (ten varint bytes). *)
From Coq Require Import Sorted.
From Verif Require Import Base OMap Text Proto Bank Exec ExecFacts ExecInv ExecFacts2 ExecIso ChkExec ChkX Registry ExecReg
  ExecOracle ExecOracleM ExecOracleE ExecOracleP ExecOracleF ExecOracleQ ExecOracleS.
Local Open Scope N_scope.

(* ---------- varint round trip ---------- *)
Lemma unvarint_S f x r shift acc :
  unvarint_fuel (S f) (x :: r) shift acc =
  if x <? 128 then Some (acc + x * 2 ^ shift, r) else unvarint_fuel f r (shift + 7) (acc + (x - 128) * 2 ^ shift).
Proof. reflexivity. Qed.
Lemma unvarint_varint : forall fu fv n r shift acc, n < 2 ^ (7 * N.of_nat (S fu)) -> (fu < fv)%nat ->
  unvarint_fuel (S fu) (varint_fuel fv n ++ r) shift acc = Some (acc + n * 2 ^ shift, r).
Proof.
  induction fu as [|fu IH]; intros fv n r shift acc Hn Hf; (destruct fv as [|fv]; [lia|]); cbn [varint_fuel].
  - change (7 * N.of_nat 1) with 7 in Hn. change (2 ^ 7) with 128 in Hn.
    destruct (n <? 128) eqn:E; [|apply N.ltb_ge in E; lia]. cbn [app]. rewrite unvarint_S, E. reflexivity.
  - destruct (n <? 128) eqn:E.
    + cbn [app]. rewrite unvarint_S, E. reflexivity.
    + apply N.ltb_ge in E. cbn [app]. rewrite unvarint_S.
      assert (E2 : n mod 128 + 128 <? 128 = false) by (apply N.ltb_ge; rewrite N.add_comm; apply N.le_add_r). rewrite E2.
      rewrite IH; [| |lia].
      * f_equal. f_equal. rewrite N.add_sub.
        rewrite N.pow_add_r. change (2 ^ 7) with 128.
        pose proof (N.div_mod n 128 ltac:(lia)) as D. set (q := n / 128) in *. set (m := n mod 128) in *. clearbody q m.
        set (t := 2 ^ shift). clearbody t. subst n. lia.
      * apply N.div_lt_upper_bound; [lia|]. replace (7 * N.of_nat (S (S fu))) with (7 + 7 * N.of_nat (S fu)) in Hn by lia.
        rewrite N.pow_add_r in Hn. change (2 ^ 7) with 128 in Hn. exact Hn.
Qed.

Definition short (x : bytes) : Prop := blen x < 2 ^ 70.

Lemma parse_field_own tag x rest : x <> [] -> short x ->
  parse_field tag (tag :: varint (blen x) ++ x ++ rest) = Ok (Some x, rest).
Proof.
  intros Hne Hs. cbn [parse_field]. rewrite N.eqb_refl. unfold unvarint, varint.
  rewrite (unvarint_varint 9 19 (blen x) (x ++ rest) 0 0); [|exact Hs|lia].
  rewrite N.mul_1_r, N.add_0_l. unfold blen. rewrite app_length, Nat2N.inj_add.
  destruct (N.of_nat (length x) + N.of_nat (length rest) <? N.of_nat (length x)) eqn:E; [apply N.ltb_lt in E; lia|].
  rewrite Nat2N.id. rewrite firstn_app, Nat.sub_diag, firstn_all. cbn [firstn]. rewrite app_nil_r.
  rewrite skipn_app, Nat.sub_diag, skipn_all. reflexivity.
Qed.

Lemma helper_exec_data_ok d : match d with Some x => short x | None => True end ->
  exists y, helper_exec_data (option_map encode_exec_resp d) = Ok y.
Proof.
  destruct d as [x|]; cbn [option_map helper_exec_data]; [|eexists; reflexivity]. intros Hs.
  unfold encode_exec_resp, field_bytes. destruct x as [|x0 xr]; [cbn; eexists; reflexivity|].
  pose proof (parse_field_own 10 (x0 :: xr) [] ltac:(discriminate) Hs) as P. rewrite app_nil_r in P. rewrite P.
  eexists. reflexivity.
Qed.

Lemma helper_inst_addr_ok a d : a <> [] -> short a -> exists y, helper_inst_addr (Some (encode_inst_resp a d)) = Ok y.
Proof.
  intros Hne Hs. unfold helper_inst_addr, encode_inst_resp. unfold field_bytes at 1.
  destruct a as [|a0 ar]; [contradiction|]. cbn [app]. rewrite <- app_assoc.
  rewrite (parse_field_own 10 (a0 :: ar) _ ltac:(discriminate) Hs). eexists. reflexivity.
Qed.

(* ---------- where returned data comes from ---------- *)
Definition odata_ok (d : option bytes) : Prop := match d with Some x => short x | None => True end.
Definition data_ok (p : prog) : Prop := odata_ok (own_data p).

Lemma exec_data_ok e :
  (forall m : msg, True) /\
  (forall p entry c sender funds rep cid rok s ev d s', Forall data_ok (progs_prog p) ->
     outc (run_prog e entry c sender funds rep cid rok p s) = Ok ((ev, d), s') -> odata_ok d) /\
  (forall o : output, match o with OFail => True | OResp _ _ _ sbs =>
     forall c data s ev d s', Forall data_ok (progs_subs sbs) -> odata_ok data ->
     outc (process_subs e c sbs data s) = Ok ((ev, d), s') -> odata_ok d end) /\
  (forall l c data s ev d s', Forall data_ok (progs_subs l) -> odata_ok data ->
     outc (process_subs e c l data s) = Ok ((ev, d), s') -> odata_ok d) /\
  (forall sb c s ev d s', Forall data_ok (progs_sub sb) -> outc (run_sub e c sb s) = Ok ((ev, d), s') -> odata_ok d).
Proof.
  apply exec_mutind; try (intros; exact I).
  - (* Prog *) intros node acts out IH entry c sender funds rep cid rok s ev d s' Hw. cbn [progs_prog] in Hw.
    fold (progs_out out) in Hw. inversion Hw as [|x l Hw1 Hw2]; subst.
    destruct (run_prog_cases e entry c sender funds rep cid rok node acts out s)
      as [[_ ->]|[(co & _ & _ & ->)|(co & attrs & events & data & sbs & _ & -> & _ & ->)]]; try discriminate.
    specialize (IH c data (body_st e s node c acts)).
    destruct (process_subs e c sbs data (body_st e s node c acts)) as [tr_s [[[ev1 d1] s2]| |]]; cbn [outc snd] in *;
      intros Ho; try discriminate. injection Ho as _ <- _. exact (IH _ _ _ Hw2 Hw1 eq_refl).
  - intros attrs events data sbs IH. exact IH.
  - intros c data s ev d s' _ Hd Ho. cbn in Ho. injection Ho as _ <- _. exact Hd.
  - (* SCons *) intros sb IHsb r IHr c data s ev d s' Hw Hd. cbn [progs_subs] in Hw. apply Forall_app_inv in Hw as [Hw1 Hw2].
    rewrite process_subs_cons. specialize (IHsb c s).
    destruct (run_sub e c sb s) as [tr1 [[[ev1 d1] s1]| |]]; cbn [outc snd] in *; try discriminate.
    specialize (IHsb _ _ _ Hw1 eq_refl). specialize (IHr c (or_data d1 data) s1).
    destruct (process_subs e c r (or_data d1 data) s1) as [tr2 [[[ev2 d2] s2]| |]]; cbn [outc snd] in *; intros Ho; try discriminate.
    injection Ho as _ <- _. refine (IHr ev2 d2 s2 Hw2 _ eq_refl). destruct d1; cbn; assumption.
  - (* Sub *) intros id payload ro m _ on_ok IHok on_err IHerr c s ev d s' Hw. cbn [progs_sub] in Hw.
    apply Forall_app_inv in Hw as [_ Hw23]. apply Forall_app_inv in Hw23 as [Hw2 Hw3].
    rewrite run_sub_spec. unfold reply_run.
    destruct (run_msg e c m s) as [tr [[[ev0 d0] s1]| |]]; cbn [outc snd]; try discriminate.
    + destruct (wants_ok ro).
      * specialize (IHok EReply c None [] (Some (id, payload, RROk ev0 d0)) 0 true s1).
        destruct (run_prog e EReply c None [] (Some (id, payload, RROk ev0 d0)) 0 true on_ok s1) as [tr2 [[[ev2 d2] s2]| |]];
          cbn [outc snd] in *; intros Ho; try discriminate. injection Ho as _ <- _. exact (IHok _ _ _ Hw2 eq_refl).
      * cbn [outc snd]. intros Ho. injection Ho as _ <- _. exact I.
    + destruct (wants_err ro); [|discriminate].
      specialize (IHerr EReply c None [] (Some (id, payload, RRErr)) 0 false s).
      destruct (run_prog e EReply c None [] (Some (id, payload, RRErr)) 0 false on_err s) as [tr2 r2]; cbn [outc snd] in *.
      intros Ho. exact (IHerr _ _ _ Hw3 Ho).
Qed.

(* ---------- the helpers ---------- *)
Definition books_ok (ce : case_env) : Prop :=
  Forall (fun x => snd x <> [] /\ short (snd x)) (ce_classic ce) /\ Forall (fun x => snd x <> [] /\ short (snd x)) (ce_salted ce).

Lemma find_classic_in k l a : find_classic k l = Some a -> exists x, In x l /\ snd x = a.
Proof.
  induction l as [|[[a0 b0] t] l IH]; cbn; [discriminate|].
  destruct ((a0 =? fst k) && (b0 =? snd k)).
  - intros H. injection H as <-. eexists. split; [left; reflexivity|reflexivity].
  - intros H. destruct (IH H) as (x & Hx & E). exists x. auto.
Qed.
Lemma find_salted_in cs cr sa l a : find_salted cs cr sa l = Some a -> exists x, In x l /\ snd x = a.
Proof.
  induction l as [|[[[a0 b0] c0] t] l IH]; cbn; [discriminate|].
  destruct (beqb a0 cs && beqb b0 cr && beqb c0 sa).
  - intros H. injection H as <-. eexists. split; [left; reflexivity|reflexivity].
  - intros H. destruct (IH H) as (x & Hx & E). exists x. auto.
Qed.

Lemma new_address_ok ce b s code_id creator salt a : books_ok ce ->
  new_address (mk_env ce b) s code_id creator salt = Some a -> a <> [] /\ short a.
Proof.
  intros [B1 B2]. unfold new_address. cbn [codes classic_book salted_book mk_env]. destruct salt as [sa|].
  - destruct (find_code code_id (ce_codes ce)) as [co|]; [|discriminate]. intros H.
    destruct (find_salted_in _ _ _ _ _ H) as (x & Hx & <-). rewrite Forall_forall in B2. exact (B2 x Hx).
  - intros H. destruct (find_classic_in _ _ _ H) as (x & Hx & <-). rewrite Forall_forall in B1. exact (B1 x Hx).
Qed.

(* a static condition under which the parse after the commit cannot fail *)
Definition helper_ok (ce : case_env) (op : topop) : Prop :=
  match op with
  | THelperInst _ (MInst _ _ _ _ _ _) => books_ok ce
  | THelperExec _ (MExec _ p _) => Forall data_ok (progs_prog p)
  | THelperInst _ _ | THelperExec _ _ => False
  | _ => True
  end.

Lemma helper_ok_safe ce op : helper_ok ce op -> helper_safe ce op.
Proof.
  intros H b s. destruct op as [sd ms|sd m|c p|to amt|sd m|sd m]; try (apply atomic_no_helper; exact I).
  - (* instantiate_contract *) destruct m; try contradiction. cbn [helper_ok] in H.
    unfold atomic_at, top_outcome, top_state. cbn [run_top]. rewrite run_msgs_cons.
    destruct (run_msg (mk_env ce b) sd (MInst code_id p funds label admin salt) s) as [t1 [[[ev dd] s1]| |]] eqn:E; cbn; auto.
    cbn [run_msg] in E. destruct label as [|l0 lr]; [discriminate|].
    destruct (register_contract (mk_env ce b) s code_id sd admin (l0 :: lr) salt) as [[a s0]| |] eqn:R; try discriminate.
    destruct (move_funds s0 sd a funds) as [s2| |]; try discriminate.
    destruct (run_prog (mk_env ce b) EInst a (Some sd) funds None code_id true p s2) as [t2 [[[ev2 d2] s3]| |]]; try discriminate.
    injection E as _ _ <- _.
    assert (Ha : a <> [] /\ short a).
    { unfold register_contract in R. destruct (find_code code_id (codes (mk_env ce b))); [|discriminate].
      destruct (negb (salt_ok salt)); [discriminate|].
      destruct (new_address (mk_env ce b) s code_id sd salt) as [a1|] eqn:Na; [|discriminate].
      destruct (lookup a1 (reg s)); [discriminate|]. injection R as <- _. eapply new_address_ok; eassumption. }
    destruct (helper_inst_addr_ok a (match d2 with Some x => x | None => [] end) (proj1 Ha) (proj2 Ha)) as [y ->]. cbn. discriminate.
  - (* execute_contract *) destruct m; try contradiction. cbn [helper_ok] in H.
    unfold atomic_at, top_outcome, top_state. cbn [run_top]. rewrite run_msgs_cons.
    destruct (run_msg (mk_env ce b) sd (MExec c p funds) s) as [t1 [[[ev dd] s1]| |]] eqn:E; cbn; auto.
    rewrite exec_runs_after_funds in E. destruct (negb (is_valid (mk_env ce b) c)); [discriminate|].
    destruct (move_funds s sd c funds) as [s0| |]; try discriminate.
    pose proof (proj1 (proj2 (exec_data_ok (mk_env ce b))) p EExec c (Some sd) funds None 0 true s0) as D.
    destruct (run_prog (mk_env ce b) EExec c (Some sd) funds None 0 true p s0) as [t2 [[[ev2 d2] s3]| |]]; try discriminate.
    injection E as _ _ <- _. destruct (helper_exec_data_ok d2 (D _ _ _ H eq_refl)) as [y ->]. cbn. discriminate.
Qed.

(* ---------- C01 / C02 with the static premise ---------- *)
Definition helpers_ok (ce : case_env) (steps : list step) : Prop := Forall (fun st => helper_ok ce (st_op st)) steps.

Lemma helpers_ok_safe ce steps : helpers_ok ce steps -> Forall (fun st => helper_safe ce (st_op st)) steps.
Proof. apply Forall_impl. intros st. apply helper_ok_safe. Qed.

Lemma c01_model_ok_h ce steps : wf_scenario steps -> helpers_ok ce steps ->
  check_with p_c01 ce (model_steps ce steps empty_chain) = Agree.
Proof. intros Hw Hh. apply c01_model_ok; [exact Hw|apply helpers_ok_safe, Hh]. Qed.
Lemma c02_model_ok_h ce steps : wf_scenario steps -> helpers_ok ce steps ->
  check_with p_c02 ce (model_steps ce steps empty_chain) = Agree.
Proof. intros Hw Hh. apply c02_model_ok; [exact Hw|apply helpers_ok_safe, Hh]. Qed.

(* a boolean sufficient condition: lengths below 128 *)
Definition shortb (x : bytes) : bool := Nat.ltb (length x) 128.
Definition data_okb (p : prog) : bool := match own_data p with Some x => shortb x | None => true end.
Definition books_okb (ce : case_env) : bool :=
  forallb (fun x => match snd x with [] => false | a => shortb a end) (ce_classic ce)
  && forallb (fun x => match snd x with [] => false | a => shortb a end) (ce_salted ce).
Definition helper_okb (ce : case_env) (op : topop) : bool :=
  match op with
  | THelperInst _ (MInst _ _ _ _ _ _) => books_okb ce
  | THelperExec _ (MExec _ p _) => forallb data_okb (progs_prog p)
  | THelperInst _ _ | THelperExec _ _ => false
  | _ => true
  end.
Lemma shortb_ok x : shortb x = true -> short x.
Proof.
  unfold shortb, short, blen. intros H. apply Nat.ltb_lt in H.
  apply N.lt_trans with 128; [|reflexivity]. change 128 with (N.of_nat 128). lia.
Qed.
Lemma helper_okb_ok ce op : helper_okb ce op = true -> helper_ok ce op.
Proof.
  assert (Hb : forall A (l : list (A * text)), forallb (fun x => match snd x with [] => false | a => shortb a end) l = true ->
            Forall (fun x => snd x <> [] /\ short (snd x)) l).
  { intros A l H. apply Forall_forall. intros x Hx. rewrite forallb_forall in H. specialize (H x Hx).
    destruct (snd x) as [|a0 ar] eqn:E; [discriminate|]. split; [discriminate|]. apply shortb_ok, H. }
  destruct op as [sd ms|sd m|c p|to amt|sd m|sd m]; cbn; auto.
  - destruct m; try discriminate. unfold books_okb, books_ok. intros H. apply andb_true_iff in H as [H1 H2]. split; apply Hb; assumption.
  - destruct m; try discriminate. intros H. apply Forall_forall. intros q Hq. rewrite forallb_forall in H. specialize (H q Hq).
    unfold data_okb, data_ok, odata_ok in *. destruct (own_data q); [apply shortb_ok, H|exact I].
Qed.

Example ex_scenario_helpers_ok : helpers_ok ex_ce ex_scenario.
Proof. apply Forall_forall. intros st Hs. apply helper_okb_ok. revert st Hs. apply Forall_forall. repeat constructor. Qed.

Example ex_scenario_checks_agree :
  c01 ex_ce (model_steps ex_ce ex_scenario empty_chain) = Agree /\ c02 ex_ce (model_steps ex_ce ex_scenario empty_chain) = Agree.
Proof.
  split; [apply c01_model_ok_h|apply c02_model_ok_h]; try apply ex_scenario_wf; apply ex_scenario_helpers_ok.
Qed.

(* ---------- the premise is needed (kept visible): the model itself is flagged by clause 5 of p_c01 and clause 6 of p_c02
   when a helper's response parse fails after the commit.  Neither input can come from the generator: (1) the address
   book yields an empty address, (2) instantiate_contract's helper is given a bank message. ---------- *)
Definition ex_ce_empty_addr : case_env :=
  {| ce_codes := [(1, Build_code 101 [99] [] true true true)]; ce_valid := [[97]]; ce_classic := [((1, 0), [])]; ce_salted := [] |}.
Example helper_premise_needed_1 :
  let st := ex_step (THelperInst [97] (MInst 1 (W 1 ok0) [] [76] None None)) in
  wf_scenario [st] /\ p_c01 (model_step ex_ce_empty_addr st empty_chain) = Some 5 /\
  p_c02 (model_step ex_ce_empty_addr st empty_chain) = Some 6.
Proof. split; [apply wf_scenario_b_ok; vm_compute; reflexivity|]. vm_compute. split; reflexivity. Qed.
Example helper_premise_needed_2 :
  let s := model_next ex_ce (ex_step (TMint [97] [([117], 50)])) empty_chain in
  let st := ex_step (THelperInst [97] (MBankSend [98] [([117], 1)])) in
  wf_scenario [st] /\ p_c01 (model_step ex_ce st s) = Some 5 /\ p_c02 (model_step ex_ce st s) = Some 6.
Proof. split; [apply wf_scenario_b_ok; vm_compute; reflexivity|]. vm_compute. split; reflexivity. Qed.
