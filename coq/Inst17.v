(* Inst17.v — C17: the statements of Routing.v INSTANTIATED at the tables that the translator regenerated
   from app.rs / contracts.rs (and from the cosmwasm-std source pinned by Cargo.lock) on this run.
   Every `vm_compute` below is a closed finite computation on Generated.v, over the COMPLETE finite kind
   set (case analysis on the inductive kind); these are the proof obligations that break when an arm of
   Router::execute / query / sudo or of customize_msg is re-routed, dropped, or passes something else.
   (Requires Chk17 so that the case evaluator is always built before a broken table stops make.) *)
From Verif Require Import Base Generated Builder Routing Chk17.
From Coq Require Import String.
Local Open Scope string_scope.

(* the translator recognised every shape it relies on, and found the enums of the pinned cosmwasm-std *)
Lemma translation_recognised_17 : translation_ok = true /\ cwstd_ok = true.
Proof. vm_compute. split; reflexivity. Qed.

(* ---------- the kind sets are the real enums ---------- *)
Lemma mkinds_are_cosmos_msg :
  forall s fs, In (s, fs) (active_variants cosmos_msg_variants) <-> exists k, s = mkind_name k /\ fs = mfields k.
Proof. apply (kinds_sig_spec all_mkinds mkind_name mfields); [exact all_mkinds_complete|]. vm_compute. reflexivity. Qed.

Lemma qkinds_are_query_request :
  forall s fs, In (s, fs) (active_variants query_request_variants) <-> exists k, s = qkind_name k /\ fs = qfields k.
Proof. apply (kinds_sig_spec all_qkinds qkind_name qfields); [exact all_qkinds_complete|]. vm_compute. reflexivity. Qed.

Lemma skinds_are_sudo_msg : forall s, In s sudo_msg_variants <-> exists k, s = skind_name k.
Proof.
  assert (H : same_b String.eqb (map skind_name all_skinds) sudo_msg_variants = true) by (vm_compute; reflexivity).
  apply andb_true_iff in H as [H1 H2]. intros s. split.
  - intros Hin. apply (incl_b_spec String.eqb String.eqb_eq _ _ H2) in Hin. apply in_map_iff in Hin as (k & E & _). eauto.
  - intros (k & ->). apply (incl_b_spec String.eqb String.eqb_eq _ _ H1). apply in_map_iff. exists k. split; [reflexivity|apply all_skinds_complete].
Qed.

(* the parameters of the three router functions, by type *)
Lemma router_params :
  param_roles "execute" = [RApi; RStorage; RBlock; RSender; RMsg] /\
  param_roles "query" = [RApi; RStorage; RBlock; RMsg] /\
  param_roles "sudo" = [RApi; RStorage; RBlock; RMsg].
Proof. vm_compute. repeat split; reflexivity. Qed.

(* ---------- Router::execute ---------- *)
Lemma T_route_exec_table : forall k : mkind, exec_route k = Call (exec_call_spec k).
Proof. intros k; destruct k; vm_compute; reflexivity. Qed.

Lemma exec_arm_kinds : forall s, In s (pat_kinds (m_arms route_exec)) -> In s (map mkind_name all_mkinds).
Proof. apply (incl_b_spec String.eqb String.eqb_eq). vm_compute. reflexivity. Qed.

Lemma T_route_exec_catch_all : forall s, ~ In s (map mkind_name all_mkinds) -> route_of route_exec "CosmosMsg" s = Bail.
Proof.
  intros s Hs. rewrite (route_of_fresh route_exec "CosmosMsg" s "<no such kind>").
  - vm_compute. reflexivity.
  - intros H. apply Hs, exec_arm_kinds, H.
  - vm_compute. intuition discriminate.
Qed.

(* ---------- Router::query ---------- *)
Lemma T_route_query_table : forall k : qkind, k <> QDistribution -> query_route k = Call (query_call_spec k).
Proof. intros k Hk; destruct k; try (vm_compute; reflexivity). congruence. Qed.

(* F11: QueryRequest::Distribution has no arm, the query ends in unimplemented!() *)
Lemma T_route_query_distribution_unrouted : query_route QDistribution = Unimpl.
Proof. vm_compute. reflexivity. Qed.

Lemma T_route_query_table_all_refuted : ~ (forall k : qkind, query_route k = Call (query_call_spec k)).
Proof. intros H. specialize (H QDistribution). rewrite T_route_query_distribution_unrouted in H. discriminate. Qed.

Lemma query_arm_kinds : forall s, In s (pat_kinds (m_arms route_query)) -> In s (map qkind_name all_qkinds).
Proof. apply (incl_b_spec String.eqb String.eqb_eq). vm_compute. reflexivity. Qed.

Lemma T_route_query_catch_all : forall s, ~ In s (map qkind_name all_qkinds) -> route_of route_query "QueryRequest" s = Unimpl.
Proof.
  intros s Hs. rewrite (route_of_fresh route_query "QueryRequest" s "<no such kind>").
  - vm_compute. reflexivity.
  - intros H. apply Hs, query_arm_kinds, H.
  - vm_compute. intuition discriminate.
Qed.

(* ---------- Router::sudo ---------- *)
Lemma T_route_sudo_table : forall k : skind, k <> SCustom -> sudo_route k = Call (sudo_call_spec k).
Proof. intros k Hk; destruct k; try (vm_compute; reflexivity). congruence. Qed.

(* SudoMsg::Custom(Empty) has no arm (C17 speaks of messages and queries; recorded, not a finding) *)
Lemma T_route_sudo_custom_unrouted : sudo_route SCustom = Unimpl.
Proof. vm_compute. reflexivity. Qed.

(* ---------- customize_msg / customize_response ---------- *)
Lemma T_lift_total_identity : forall k : mkind, k <> MCustom -> lift_of (mkind_name k) = lift_spec k.
Proof. intros k Hk; destruct k; try (vm_compute; reflexivity). congruence. Qed.

Lemma T_lift_custom_unreachable : lift_of (mkind_name MCustom) = LUnreachable.
Proof. vm_compute. reflexivity. Qed.

Lemma lift_arm_kinds : forall s, In s (pat_kinds lift_arms) -> In s (map mkind_name all_mkinds).
Proof. apply (incl_b_spec String.eqb String.eqb_eq). vm_compute. reflexivity. Qed.

Lemma T_lift_catch_all : forall s, ~ In s (map mkind_name all_mkinds) -> lift_of s = LPanic.
Proof.
  intros s Hs. rewrite (lift_of_fresh s "<no such kind>").
  - vm_compute. reflexivity.
  - intros H. apply Hs, lift_arm_kinds, H.
  - vm_compute. intuition discriminate.
Qed.

Lemma lift_envelope_checked : lift_envelope_ok = true.
Proof. vm_compute. reflexivity. Qed.

Lemma T_lift_keeps_envelope :
  lift_ok = true /\ lift_struct = "SubMsg" /\ lift_match_field = "msg" /\ lift_scrutinee = Old "msg" /\
  In "msg" submsg_struct_fields /\
  forall f, In f submsg_struct_fields -> f <> "msg" -> assoc_s f lift_fields = Some (Old f).
Proof. exact (lift_envelope_spec lift_envelope_checked). Qed.

(* customize_response hands over every field of Response and maps the sub-messages through customize_msg *)
Lemma T_response_lifted_whole :
  (forall f, In f response_struct_fields <-> In f response_reads) /\ response_calls = ["customize_msg"].
Proof.
  assert (H : same_b String.eqb response_struct_fields response_reads = true) by (vm_compute; reflexivity).
  apply andb_true_iff in H as [H1 H2]. split; [|vm_compute; reflexivity].
  intros f. split; apply (incl_b_spec String.eqb String.eqb_eq); assumption.
Qed.

(* ---------- the model run over the regenerated tables is the spec run, up to F11 ---------- *)
Lemma table_rx : forall k, rx table_routes k = rx f11_routes k.
Proof. intros k; destruct k; vm_compute; reflexivity. Qed.
Lemma table_rq : forall k, rq table_routes k = rq f11_routes k.
Proof. intros k; destruct k; vm_compute; reflexivity. Qed.
Lemma table_rl : forall k, rl table_routes k = rl f11_routes k.
Proof. intros k; destruct k; vm_compute; reflexivity. Qed.

Lemma T_C17_model_ok inp :
  c17 inp (model_case inp) = Agree \/
  (has_distribution_query inp = true /\ exists k, c17 inp (model_case inp) = KnownFail 1 k).
Proof. exact (c17_model_ok_gen table_rx table_rq table_rl inp). Qed.

Lemma T_C17_model_ok_no_dq inp : has_distribution_query inp = false -> c17 inp (model_case inp) = Agree.
Proof. exact (c17_model_ok_no_dq table_rx table_rq table_rl inp). Qed.

(* hence, outside the known finding, the model run over the regenerated tables IS the spec run *)
Lemma T_model_is_spec inp : has_distribution_query inp = false -> model_case inp = spec_case inp.
Proof.
  intros H. unfold model_case, spec_case. rewrite <- (no_dq_f11_is_spec inp H).
  apply run_ext_all; [exact table_rx|exact table_rq|exact table_rl].
Qed.
