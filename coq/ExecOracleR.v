(* ExecOracleR.v — part 6b: a reply that is due does happen (C03 clause 9).  In the model's log, for every sub-message
   that executes a program without sub-messages whose body ran, dispatched by a program served by a code with a reply
   entry point, the success handler (well-formed response, mode wants success) resp. the failure handler (the callee
   failed by itself, mode wants failure) was entered — provided no migration occurs in the call, so that the code
   serving the dispatcher cannot change between its own entry and the reply. *)
From Coq Require Import Sorted.
From Verif Require Import Base OMap Text Proto Bank Exec ExecFacts ExecInv ExecFacts2 ExecIso ChkExec ChkX Registry ExecReg
  ExecOracle ExecOracleM ExecOracleE ExecOracleP ExecOracleF ExecOracleG.
Local Open Scope N_scope.

(* ---------- the registry map, without sortedness ---------- *)
Lemma lookup_update_eq {A} k (v : A) l : lookup k (update k v l) = Some v.
Proof.
  unfold lookup, update. induction l as [|[k' v'] l IH]; cbn [insert assoc]; [rewrite bcmp_refl; reflexivity|].
  destruct (bcmp k k') eqn:E; cbn [assoc]; try (rewrite bcmp_refl; reflexivity). rewrite E. exact IH.
Qed.
Lemma lookup_update_ne {A} k x (v : A) l : x <> k -> lookup x (update k v l) = lookup x l.
Proof.
  intros Hne. assert (Hx : forall B (u w : B), match bcmp x k with Eq => u | _ => w end = w).
  { intros B u w. destruct (bcmp x k) eqn:E; try reflexivity. apply bcmp_eq in E. contradiction. }
  unfold lookup, update. induction l as [|[k' v'] l IH]; cbn [insert assoc].
  - destruct (bcmp x k) eqn:E; try reflexivity. apply bcmp_eq in E. contradiction.
  - destruct (bcmp k k') eqn:E; cbn [assoc].
    + apply bcmp_eq in E. subst k'. destruct (bcmp x k) eqn:E2; try reflexivity. apply bcmp_eq in E2. contradiction.
    + destruct (bcmp x k) eqn:E2; try reflexivity. apply bcmp_eq in E2. contradiction.
    + destruct (bcmp x k'); try reflexivity; exact IH.
Qed.

(* ---------- without a migration the code of a registered contract does not change ---------- *)
Definition cs (s s' : chain) : Prop :=
  forall a cd, lookup a (reg s) = Some cd -> exists cd', lookup a (reg s') = Some cd' /\ cd_code cd' = cd_code cd.
Lemma cs_refl s : cs s s. Proof. intros a cd H. exists cd. auto. Qed.
Lemma cs_trans a b c : cs a b -> cs b c -> cs a c.
Proof. intros H1 H2 x cd H. destruct (H1 x cd H) as (cd1 & A & B). destruct (H2 x cd1 A) as (cd2 & C & D). exists cd2. split; congruence. Qed.
Lemma cs_same_reg s s' : reg s' = reg s -> cs s s'.
Proof. intros E a cd H. exists cd. rewrite E. auto. Qed.
Lemma cs_update_code s s' c cd cd' : lookup c (reg s) = Some cd -> reg s' = update c cd' (reg s) -> cd_code cd' = cd_code cd -> cs s s'.
Proof.
  intros Hl Er Ec a cd0 H. rewrite Er. destruct (text_eq_dec a c) as [->|Hne].
  - exists cd'. rewrite lookup_update_eq. split; congruence.
  - exists cd0. rewrite lookup_update_ne by exact Hne. auto.
Qed.
Lemma cs_update_fresh s s' c cd' : lookup c (reg s) = None -> reg s' = update c cd' (reg s) -> cs s s'.
Proof.
  intros Hl Er a cd0 H. rewrite Er. exists cd0. split; [|reflexivity]. rewrite lookup_update_ne; [exact H|]. intros ->. congruence.
Qed.

Lemma exec_cs e :
  (forall m sender s r s', nomig_msg m = true -> outc (run_msg e sender m s) = Ok (r, s') -> cs s s') /\
  (forall p entry c sender funds rep cid rok s r s', nomig_prog p = true ->
     outc (run_prog e entry c sender funds rep cid rok p s) = Ok (r, s') -> cs s s') /\
  (forall o : output, match o with OFail => True | OResp _ _ _ sbs =>
     forall c data s r s', nomig_subs sbs = true -> outc (process_subs e c sbs data s) = Ok (r, s') -> cs s s' end) /\
  (forall l c data s r s', nomig_subs l = true -> outc (process_subs e c l data s) = Ok (r, s') -> cs s s') /\
  (forall sb c s r s', nomig_sub sb = true -> outc (run_sub e c sb s) = Ok (r, s') -> cs s s').
Proof.
  apply exec_mutind; try (intros; exact I).
  - intros to amt sender s r s' _. cbn [run_msg]. destruct (bank_send (bank s) sender to amt); cbn; intros H; try discriminate.
    injection H as _ <-. apply cs_same_reg. reflexivity.
  - intros amt sender s r s' _. cbn [run_msg]. destruct (bank_burn (bank s) sender amt); cbn; intros H; try discriminate.
    injection H as _ <-. apply cs_same_reg. reflexivity.
  - (* MExec *) intros c p IH funds sender s r s' Hm. rewrite exec_runs_after_funds.
    destruct (negb (is_valid e c)); [discriminate|].
    destruct (move_funds s sender c funds) as [s1| |] eqn:Em; try discriminate.
    specialize (IH EExec c (Some sender) funds None 0 true s1).
    destruct (run_prog e EExec c (Some sender) funds None 0 true p s1) as [tr [[[ev d] s2]| |]]; cbn [outc snd] in *; intros H; try discriminate.
    injection H as _ <-. eapply cs_trans; [apply cs_same_reg; exact (proj1 (move_funds_spec _ _ _ _ _ Em))|]. eapply IH; [exact Hm|reflexivity].
  - (* MInst *) intros code_id p IH funds label admin salt sender s r s' Hm. cbn [run_msg].
    destruct label as [|l0 lr]; [discriminate|].
    destruct (register_contract e s code_id sender admin (l0 :: lr) salt) as [[a s1]| |] eqn:Er; try discriminate.
    destruct (move_funds s1 sender a funds) as [s2| |] eqn:Em; try discriminate.
    specialize (IH EInst a (Some sender) funds None code_id true s2).
    destruct (run_prog e EInst a (Some sender) funds None code_id true p s2) as [tr [[[ev d] s3]| |]]; cbn [outc snd] in *; intros H; try discriminate.
    injection H as _ <-. destruct (register_fresh _ _ _ _ _ _ _ _ _ Er) as (Hf & _ & Hr & _).
    eapply cs_trans; [eapply cs_update_fresh; eassumption|].
    eapply cs_trans; [apply cs_same_reg; exact (proj1 (move_funds_spec _ _ _ _ _ Em))|]. eapply IH; [exact Hm|reflexivity].
  - (* MMigrate *) intros c nc p _ sender s r s' Hm. discriminate.
  - intros c a sender s r s' _ H. destruct (update_admin_authorised _ _ _ _ _ _ _ H) as (cd & Hl & _ & Hr & _).
    eapply cs_update_code; [exact Hl|exact Hr|reflexivity].
  - intros c sender s r s' _ H. destruct (clear_admin_authorised _ _ _ _ _ _ H) as (cd & Hl & _ & Hr & _).
    eapply cs_update_code; [exact Hl|exact Hr|reflexivity].
  - intros ok tag sender s r s' _. cbn [run_msg outc snd]. destruct ok; intros H; try discriminate. injection H as _ <-. apply cs_refl.
  - (* Prog *) intros node acts out IH entry c sender funds rep cid rok s r s' Hm.
    destruct (run_prog_cases e entry c sender funds rep cid rok node acts out s)
      as [[_ ->]|[(co & _ & _ & ->)|(co & attrs & events & data & sbs & _ & -> & _ & ->)]]; try discriminate.
    specialize (IH c data (body_st e s node c acts)).
    destruct (process_subs e c sbs data (body_st e s node c acts)) as [tr_s [[[ev d] s2]| |]]; cbn [outc snd] in *; intros H; try discriminate.
    injection H as _ <-. eapply cs_trans; [apply cs_same_reg; reflexivity|]. eapply IH; [exact Hm|reflexivity].
  - intros attrs events data sbs IH. exact IH.
  - intros c data s r s' _ H. cbn in H. injection H as _ <-. apply cs_refl.
  - (* SCons *) intros sb IHsb r IHr c data s res s' Hm. cbn [nomig_subs] in Hm. apply andb_true_iff in Hm as [Hm1 Hm2].
    rewrite process_subs_cons. specialize (IHsb c s).
    destruct (run_sub e c sb s) as [tr1 [[[ev1 d1] s1]| |]]; cbn [outc snd] in *; try discriminate.
    specialize (IHr c (or_data d1 data) s1).
    destruct (process_subs e c r (or_data d1 data) s1) as [tr2 [[[ev2 d2] s2]| |]]; cbn [outc snd] in *; intros H; try discriminate.
    injection H as _ <-. eapply cs_trans; [eapply IHsb; [exact Hm1|reflexivity]|eapply IHr; [exact Hm2|reflexivity]].
  - (* Sub *) intros id payload ro m IHm on_ok IHok on_err IHerr c s res s' Hm. cbn [nomig_sub] in Hm.
    apply andb_true_iff in Hm as [Hm12 Hm3]. apply andb_true_iff in Hm12 as [Hm1 Hm2].
    rewrite run_sub_spec. unfold reply_run. specialize (IHm c s).
    destruct (run_msg e c m s) as [tr [[[ev d] s1]| |]]; cbn [outc snd] in *; try discriminate.
    + destruct (wants_ok ro).
      * specialize (IHok EReply c None [] (Some (id, payload, RROk ev d)) 0 true s1).
        destruct (run_prog e EReply c None [] (Some (id, payload, RROk ev d)) 0 true on_ok s1) as [tr2 [[[ev2 d2] s2]| |]];
          cbn [outc snd] in *; intros H; try discriminate. injection H as _ <-.
        eapply cs_trans; [eapply IHm; [exact Hm1|reflexivity]|eapply IHok; [exact Hm2|reflexivity]].
      * cbn [outc snd]. intros H. injection H as _ <-. eapply IHm; [exact Hm1|reflexivity].
    + destruct (wants_err ro); [|discriminate].
      specialize (IHerr EReply c None [] (Some (id, payload, RRErr)) 0 false s).
      destruct (run_prog e EReply c None [] (Some (id, payload, RRErr)) 0 false on_err s) as [tr2 r2]; cbn [outc snd] in *.
      intros H. eapply IHerr; [exact Hm3|exact H].
Qed.

Lemma serving_cs e s s' c entry co : cs s s' -> serving e s c entry = Some co -> serving e s' c entry = Some co.
Proof.
  unfold serving. intros H. destruct (lookup c (reg s)) as [cd|] eqn:E; [|discriminate].
  destruct (H c cd E) as (cd' & -> & ->). auto.
Qed.

Lemma find_code_in id cl co : find_code id cl = Some co -> In (id, co) cl.
Proof.
  induction cl as [|[i c0] cl IH]; cbn; [discriminate|]. destruct (i =? id) eqn:E.
  - intros H. injection H as ->. apply N.eqb_eq in E. subst. left. reflexivity.
  - intros H. right. exact (IH H).
Qed.
Lemma serving_reply e s c entry co : serving e s c entry = Some co -> tag_replies (codes e) (c_tag co) = true ->
  serving e s c EReply = Some co.
Proof.
  unfold serving. destruct (lookup c (reg s)) as [cd|]; [|discriminate].
  destruct (find_code (cd_code cd) (codes e)) as [co'|] eqn:Ef; [|discriminate].
  destruct (ep_available co' entry); [|discriminate]. intros H. injection H as ->. intros Ht.
  unfold tag_replies in Ht. apply andb_true_iff in Ht as [_ Ht]. rewrite forallb_forall in Ht.
  specialize (Ht _ (find_code_in _ _ _ Ef)). cbn [snd] in Ht. rewrite N.eqb_refl in Ht. cbn in Ht. cbn [ep_available]. rewrite Ht. reflexivity.
Qed.

(* ---------- an execute of a program without sub-messages ---------- *)
Lemma exec_nosubs e sender c' p' f' s : prog_nosubs p' = true ->
  In (prog_node p') (call_nodes (trc (run_msg e sender (MExec c' p' f') s))) ->
  (prog_fails_itself p' = true /\ outc (run_msg e sender (MExec c' p' f') s) = Err) \/
  (prog_fails_itself p' = false /\ exists r s', outc (run_msg e sender (MExec c' p' f') s) = Ok (r, s') /\ reg s' = reg s).
Proof.
  intros Hn. rewrite exec_runs_after_funds. destruct (negb (is_valid e c')); [intros []|].
  destruct (move_funds s sender c' f') as [s1| |] eqn:Em; try (intros []).
  pose proof (proj1 (move_funds_spec _ _ _ _ _ Em)) as Er. destruct p' as [node acts out].
  destruct (run_prog_cases e EExec c' (Some sender) f' None 0 true node acts out s1)
    as [[_ ->]|[(co & _ & Hf & ->)|(co & attrs & events & data & sbs & _ & -> & Hv & ->)]].
  - intros [].
  - intros _. left. auto.
  - destruct sbs; [|discriminate]. cbn [process_subs]. intros _. right. split; [cbn; rewrite Hv; reflexivity|].
    eexists. eexists. split; [reflexivity|]. cbn. exact Er.
Qed.

Lemma reply_called e c rep rok p s co : serving e s c EReply = Some co ->
  In (prog_node p) (call_nodes (trc (run_prog e EReply c None [] rep 0 rok p s))).
Proof.
  intros H. pose proof (run_prog_head e EReply c None [] rep 0 rok p s) as A. rewrite H in A. destruct A as [rest ->].
  cbn. left. destruct p; reflexivity.
Qed.

(* ---------- the direct sub-messages of one program ---------- *)
Fixpoint In_subs (sb : sub) (l : subs) : Prop := match l with SNil => False | SCons x r => x = sb \/ In_subs sb r end.
Definition direct (P : prog) : subs := match out_of P with OFail => SNil | OResp _ _ _ sbs => sbs end.

Lemma In_subs_nodes sb l : In_subs sb l -> incl (nodes_sub sb) (nodes_subs l).
Proof.
  induction l as [|x r IH]; cbn [In_subs nodes_subs]; [intros []|]. intros [->|H]; [apply incl_appl, incl_refl|apply incl_appr, IH, H].
Qed.
Lemma direct_nodes P sb : In_subs sb (direct P) -> incl (nodes_sub sb) (nodes_out (out_of P)).
Proof. unfold direct. destruct (out_of P); cbn [nodes_out]; [intros []|apply In_subs_nodes]. Qed.

Definition due_local (tr : trace) (sb : sub) : Prop :=
  match sb with
  | Sub _ _ ro (MExec _ p' _) on_ok on_err =>
      prog_nosubs p' = true -> In (prog_node p') (call_nodes tr) ->
      if prog_fails_itself p' then wants_err ro = true -> In (prog_node on_err) (call_nodes tr)
      else wants_ok ro = true -> In (prog_node on_ok) (call_nodes tr)
  | _ => True
  end.

Lemma subs_due e c co : forall l data s, serving e s c EReply = Some co -> nomig_subs l = true -> NoDup (nodes_subs l) ->
  forall sb, In_subs sb l -> due_local (trc (process_subs e c l data s)) sb.
Proof.
  destruct (exec_call_nodes e) as (Cm & Cp & _ & Cs & Cb).
  induction l as [|x r IH]; intros data s Hsv Hm Hn sb Hi; [destruct Hi|].
  cbn [nomig_subs nodes_subs] in *. apply andb_true_iff in Hm as [Hm1 Hm2]. destruct (NoDup_app_inv _ _ Hn) as (Hn1 & Hn2 & Hd).
  rewrite process_subs_trace. destruct Hi as [->|Hi].
  - (* the first one *)
    destruct sb as [id pl ro m ok er]. destruct m as [| |c' p' f'| | | | |]; try exact I. cbn [due_local]. intros Hns Hin.
    cbn [nodes_sub nodes_msg] in Hn1, Hd. destruct (NoDup_app_inv _ _ Hn1) as (_ & Hn23 & Hd1). destruct (NoDup_app_inv _ _ Hn23) as (_ & _ & Hd2).
    assert (Np : In (prog_node p') (nodes_prog p')) by apply prog_node_in.
    rewrite call_nodes_app, in_app_iff in Hin. destruct Hin as [Hin|Hin].
    2:{ exfalso. apply (Hd (prog_node p')); [apply in_or_app; left; exact Np|].
        destruct (outc (run_sub e c (Sub id pl ro (MExec c' p' f') ok er) s)) as [[[ev1 d1] s1]| |]; [exact (subl_in _ _ _ (Cs _ _ _ _) Hin)|destruct Hin|destruct Hin]. }
    rewrite run_sub_trace in *. unfold reply_run in *. rewrite call_nodes_app, in_app_iff in Hin.
    assert (Hin' : In (prog_node p') (call_nodes (trc (run_msg e c (MExec c' p' f') s)))).
    { destruct Hin as [Hin|Hin]; [exact Hin|]. exfalso. apply (Hd1 (prog_node p') Np).
      destruct (outc (run_msg e c (MExec c' p' f') s)) as [[[ev0 d0] s1]| |]; [| |destruct Hin].
      - destruct (wants_ok ro); [|destruct Hin]. apply in_or_app. left. exact (subl_in _ _ _ (Cp _ _ _ _ _ _ _ _ _) Hin).
      - destruct (wants_err ro); [|destruct Hin]. apply in_or_app. right. exact (subl_in _ _ _ (Cp _ _ _ _ _ _ _ _ _) Hin). }
    destruct (exec_nosubs e c c' p' f' s Hns Hin') as [[Hf Ho]|[Hf (r0 & s1 & Ho & Er)]]; rewrite Hf, Ho.
    + intros Hw. rewrite Hw. rewrite !call_nodes_app, !in_app_iff. left. right. eapply reply_called. exact Hsv.
    + destruct r0 as [ev0 d0]. intros Hw. rewrite Hw. rewrite !call_nodes_app, !in_app_iff. left. right. eapply reply_called.
      eapply serving_cs; [apply cs_same_reg; exact Er|exact Hsv].
  - (* a later one *)
    pose proof (In_subs_nodes sb r Hi) as Nsb.
    assert (Hlift : forall t2, due_local t2 sb -> due_local (trc (run_sub e c x s) ++ t2) sb).
    { intros t2. destruct sb as [id pl ro m ok er]. destruct m as [| |c' p' f'| | | | |]; try (intros; exact I). cbn [due_local].
      intros H Hns Hin. rewrite call_nodes_app, in_app_iff in Hin. destruct Hin as [Hin|Hin].
      - exfalso. apply (Hd (prog_node p') (subl_in _ _ _ (Cb _ _ _) Hin)). apply Nsb. cbn [nodes_sub nodes_msg]. apply in_or_app. left. apply prog_node_in.
      - specialize (H Hns Hin). destruct (prog_fails_itself p'); intros Hw; rewrite call_nodes_app, in_app_iff; right; exact (H Hw). }
    pose proof (proj2 (proj2 (proj2 (proj2 (exec_cs e)))) x c s) as Hcs.
    destruct (outc (run_sub e c x s)) as [[[ev1 d1] s1]| |].
    + apply Hlift. apply IH; [eapply serving_cs; [eapply Hcs; [exact Hm1|reflexivity]|exact Hsv]|exact Hm2|exact Hn2|exact Hi].
    + apply Hlift. destruct sb as [id pl ro m ok er]. destruct m; try exact I. cbn. intros _ [].
    + apply Hlift. destruct sb as [id pl ro m ok er]. destruct m; try exact I. cbn. intros _ [].
Qed.

(* ---------- the boolean clause, program by program ---------- *)
Definition Hd (cl : list (N * code)) (P : prog) (tr : trace) : Prop :=
  forall sb, In_subs sb (direct P) -> due_ok cl tr (prog_node P) sb = true.
Definition allHd (cl : list (N * code)) (ps : list prog) (tr : trace) : Prop := forall P, In P ps -> Hd cl P tr.

Lemma memN_false n l : ~ In n l -> memN n l = false.
Proof. intros H. destruct (memN n l) eqn:E; [|reflexivity]. apply memN_in in E. contradiction. Qed.
Lemma memN_app_l x a b : ~ In x b -> memN x (a ++ b) = memN x a.
Proof.
  intros H. destruct (memN x a) eqn:E.
  - apply memN_in. apply in_or_app. left. apply memN_in. exact E.
  - apply memN_false. intros Hi. apply in_app_or in Hi as [Hi|Hi]; [|exact (H Hi)]. apply memN_in in Hi. congruence.
Qed.
Lemma memN_app_r x a b : ~ In x a -> memN x (a ++ b) = memN x b.
Proof.
  intros H. destruct (memN x b) eqn:E.
  - apply memN_in. apply in_or_app. right. apply memN_in. exact E.
  - apply memN_false. intros Hi. apply in_app_or in Hi as [Hi|Hi]; [exact (H Hi)|]. apply memN_in in Hi. congruence.
Qed.
Lemma find_call_app_l n a b : ~ In n (call_nodes b) -> find_call n (a ++ b) = find_call n a.
Proof. intros H. rewrite find_call_app. destruct (find_call n a); [reflexivity|apply find_call_none, H]. Qed.

Lemma sub_nodes_in id pl ro c' p' f' ok er :
  In (prog_node p') (nodes_sub (Sub id pl ro (MExec c' p' f') ok er)) /\
  In (prog_node ok) (nodes_sub (Sub id pl ro (MExec c' p' f') ok er)) /\
  In (prog_node er) (nodes_sub (Sub id pl ro (MExec c' p' f') ok er)).
Proof.
  cbn [nodes_sub nodes_msg]. repeat split.
  - apply in_or_app. left. apply prog_node_in.
  - apply in_or_app. right. apply in_or_app. left. apply prog_node_in.
  - apply in_or_app. right. apply in_or_app. right. apply prog_node_in.
Qed.

Lemma due_ok_app_l cl t t' d sb : ~ In d (call_nodes t') -> (forall x, In x (nodes_sub sb) -> ~ In x (call_nodes t')) ->
  due_ok cl (t ++ t') d sb = due_ok cl t d sb.
Proof.
  intros Dd D. destruct sb as [id pl ro m ok er]. destruct m as [| |c' p' f'| | | | |]; try reflexivity.
  destruct (sub_nodes_in id pl ro c' p' f' ok er) as (A & B & C). unfold due_ok.
  rewrite (find_call_app_l _ _ _ Dd), call_nodes_app, !memN_app_l by (apply D; assumption). reflexivity.
Qed.
Lemma due_ok_app_r cl t t' d sb : ~ In d (call_nodes t') -> (forall x, In x (nodes_sub sb) -> ~ In x (call_nodes t')) ->
  due_ok cl (t' ++ t) d sb = due_ok cl t d sb.
Proof.
  intros Dd D. destruct sb as [id pl ro m ok er]. destruct m as [| |c' p' f'| | | | |]; try reflexivity.
  destruct (sub_nodes_in id pl ro c' p' f' ok er) as (A & B & C). unfold due_ok.
  rewrite (find_call_app_none _ _ _ Dd), call_nodes_app, !memN_app_r by (apply D; assumption). reflexivity.
Qed.
Lemma due_ok_uncalled cl tr d sb : ~ In d (call_nodes tr) -> due_ok cl tr d sb = true.
Proof.
  intros H. destruct sb as [id pl ro m ok er]. destruct m; try reflexivity. unfold due_ok. rewrite (find_call_none _ _ H). reflexivity.
Qed.
Lemma due_ok_of_local cl tr d sb en_d : find_call d tr = Some en_d ->
  (tag_replies cl (call_tag en_d) = true -> due_local tr sb) -> due_ok cl tr d sb = true.
Proof.
  intros Hf H. destruct sb as [id pl ro m ok er]. destruct m as [| |c' p' f'| | | | |]; try reflexivity. unfold due_ok. rewrite Hf.
  destruct (tag_replies cl (call_tag en_d)) eqn:Et; [|reflexivity]. destruct (prog_nosubs p') eqn:Ens; [|reflexivity].
  destruct (memN (prog_node p') (call_nodes tr)) eqn:Em; [|reflexivity]. cbn [andb negb orb].
  apply memN_in in Em. specialize (H eq_refl Ens Em). destruct (prog_fails_itself p').
  - destruct (wants_err ro); [|reflexivity]. cbn. apply memN_in. exact (H eq_refl).
  - destruct (wants_ok ro); [|reflexivity]. cbn. apply memN_in. exact (H eq_refl).
Qed.

Lemma Hd_left cl P t t' : Hd cl P t -> (forall x, In x (nodes_prog P) -> ~ In x (call_nodes t')) -> Hd cl P (t ++ t').
Proof.
  intros H D sb Hi. rewrite due_ok_app_l; [exact (H sb Hi)|apply D, prog_node_in|].
  intros x Hx. apply D. rewrite nodes_prog_eq. right. exact (direct_nodes P sb Hi x Hx).
Qed.
Lemma Hd_right cl P t t' : Hd cl P t -> (forall x, In x (nodes_prog P) -> ~ In x (call_nodes t')) -> Hd cl P (t' ++ t).
Proof.
  intros H D sb Hi. rewrite due_ok_app_r; [exact (H sb Hi)|apply D, prog_node_in|].
  intros x Hx. apply D. rewrite nodes_prog_eq. right. exact (direct_nodes P sb Hi x Hx).
Qed.
Lemma Hd_uncalled cl P tr : ~ In (prog_node P) (call_nodes tr) -> Hd cl P tr.
Proof. intros H sb _. apply due_ok_uncalled, H. Qed.

Lemma exec_Hd e :
  (forall m sender s, nomig_msg m = true -> NoDup (nodes_msg m) -> allHd (codes e) (progs_msg m) (trc (run_msg e sender m s))) /\
  (forall p entry c sender funds rep cid rok s, nomig_prog p = true -> NoDup (nodes_prog p) ->
      allHd (codes e) (progs_prog p) (trc (run_prog e entry c sender funds rep cid rok p s))) /\
  (forall o c data s, match o with OFail => True | OResp _ _ _ sbs =>
      nomig_subs sbs = true -> NoDup (nodes_subs sbs) -> allHd (codes e) (progs_subs sbs) (trc (process_subs e c sbs data s)) end) /\
  (forall l c data s, nomig_subs l = true -> NoDup (nodes_subs l) -> allHd (codes e) (progs_subs l) (trc (process_subs e c l data s))) /\
  (forall sb c s, nomig_sub sb = true -> NoDup (nodes_sub sb) -> allHd (codes e) (progs_sub sb) (trc (run_sub e c sb s))).
Proof.
  destruct (exec_call_nodes e) as (Cm & Cp & _ & Cs & Cb).
  destruct progs_nodes_incl as (Nm & Np & No & Ns & Nb).
  assert (Hleaf : forall m sender s, msg_prog m = None -> allHd (codes e) (progs_msg m) (trc (run_msg e sender m s))).
  { intros m sender s H P Hi. rewrite (proj2 (proj2 (flat_msg_leaf m None H))) in Hi. contradiction. }
  assert (Hcall : forall m p, msg_prog m = Some p ->
            (forall entry c sender funds rep cid rok s, nomig_prog p = true -> NoDup (nodes_prog p) ->
                allHd (codes e) (progs_prog p) (trc (run_prog e entry c sender funds rep cid rok p s))) ->
            forall sender s, nomig_msg m = true -> NoDup (nodes_msg m) -> allHd (codes e) (progs_msg m) (trc (run_msg e sender m s))).
  { intros m p Hp IH sender s Hm. destruct (flat_msg_prog m p None Hp) as (_ & -> & ->). intros Hn.
    assert (Hm' : nomig_prog p = true) by (destruct m; cbn in Hp; try discriminate; injection Hp as <-; exact Hm).
    destruct (run_msg_cases e sender m s p Hp) as [[-> _]|(c & s1 & _ & _ & _ & _ & ->)].
    { intros P _. apply Hd_uncalled. intros []. }
    specialize (IH (msg_entry m) c (msg_sender m sender) (msg_funds m) None (msg_cid m) true s1 Hm' Hn).
    destruct (run_prog e (msg_entry m) c (msg_sender m sender) (msg_funds m) None (msg_cid m) true p s1) as [tr r]. exact IH. }
  apply exec_mutind; try (intros; exact I); try (intros; apply Hleaf; reflexivity);
    try (intros; eapply Hcall; [reflexivity|assumption|assumption|assumption]).
  - (* Prog *) intros d acts out IH entry c sender funds rep cid rok s Hm Hn.
    cbn [nodes_prog] in Hn. fold (nodes_out out) in Hn. inversion Hn as [|x l Hnot Hn']; subst.
    intros P Hi. cbn [progs_prog] in Hi. fold (progs_out out) in Hi. destruct Hi as [<-|Hi].
    + (* the program itself *)
      intros sb Hsb. unfold direct in Hsb. cbn [out_of prog_node] in *.
      pose proof (run_prog_cases e entry c sender funds rep cid rok d acts out s) as Cases.
      destruct Cases as [[_ E]|[(co & _ & _ & E)|(co & attrs & events & data & sbs & Hsv & -> & _ & E)]]; rewrite E; clear E.
      * apply due_ok_uncalled. intros [].
      * (* failed by itself: nothing was dispatched *)
        destruct sb as [id pl ro m ok er]. destruct m as [| |c' p' f'| | | | |]; try reflexivity. unfold due_ok.
        cbn [trc fst find_call hdr call_node]. rewrite N.eqb_refl.
        assert (Em : memN (prog_node p') (call_nodes (hdr e d entry c sender funds co rep :: body_tr e s d c acts)) = false).
        { apply memN_false. cbn [call_nodes hdr call_node]. rewrite body_tr_no_calls. intros [E|[]]. apply Hnot. rewrite E.
          destruct out; [destruct Hsb|]. apply (In_subs_nodes _ _ Hsb). apply (proj1 (sub_nodes_in id pl ro c' p' f' ok er)). }
        cbn [hdr] in Em. rewrite Em, !andb_false_r. reflexivity.
      * cbn [nomig_prog] in Hm. cbn [nodes_out] in *.
        destruct (process_subs e c sbs data (body_st e s d c acts)) as [tr_s r] eqn:Es. cbn [trc fst].
        eapply due_ok_of_local; [cbn [find_call hdr call_node]; rewrite N.eqb_refl; reflexivity|]. cbn [call_tag]. intros Ht.
        pose proof (serving_reply e s c entry co Hsv Ht) as Hsr.
        assert (Hsr' : serving e (body_st e s d c acts) c EReply = Some co) by (eapply serving_cs; [apply cs_same_reg; reflexivity|exact Hsr]).
        pose proof (subs_due e c co sbs data _ Hsr' Hm Hn' sb Hsb) as L. rewrite Es in L. cbn [trc fst] in L.
        destruct sb as [id pl ro m ok er]. destruct m as [| |c' p' f'| | | | |]; try exact I. cbn [due_local] in *.
        intros Hns Hin. cbn [call_nodes hdr call_node] in *. rewrite call_nodes_app, body_tr_no_calls in *. cbn [app] in *.
        assert (Hin' : In (prog_node p') (call_nodes tr_s)).
        { destruct Hin as [E|Hin]; [|exact Hin]. exfalso. apply Hnot. rewrite E. apply (In_subs_nodes _ _ Hsb).
          apply (proj1 (sub_nodes_in id pl ro c' p' f' ok er)). }
        specialize (L Hns Hin'). destruct (prog_fails_itself p'); intros Hw; right; exact (L Hw).
    + (* a program of a sub-message *)
      assert (Dn : forall x, In x (nodes_prog P) -> x <> d).
      { intros x Hx E. subst x. apply Hnot. exact (No out P Hi d Hx). }
      destruct (run_prog_cases e entry c sender funds rep cid rok d acts out s)
        as [[_ E]|[(co & _ & _ & E)|(co & attrs & events & data & sbs & _ & -> & _ & E)]]; rewrite E; clear E.
      * apply Hd_uncalled. intros [].
      * apply Hd_uncalled. cbn [trc fst call_nodes hdr call_node]. rewrite body_tr_no_calls. intros [E|[]].
        exact (Dn _ (prog_node_in P) (eq_sym E)).
      * cbn [nomig_prog] in Hm. specialize (IH c data (body_st e s d c acts) Hm Hn' P Hi).
        destruct (process_subs e c sbs data (body_st e s d c acts)) as [tr_s r]. cbn [trc fst] in *.
        change (hdr e d entry c sender funds co rep :: body_tr e s d c acts ++ tr_s)
          with ((hdr e d entry c sender funds co rep :: body_tr e s d c acts) ++ tr_s).
        apply Hd_right; [exact IH|]. intros x Hx. cbn [call_nodes hdr call_node]. rewrite body_tr_no_calls. intros [E|[]].
        exact (Dn x Hx (eq_sym E)).
  - (* OResp *) intros attrs events data sbs IH c data0 s. apply IH.
  - (* SNil *) intros c data s _ _ P [].
  - (* SCons *) intros sb IHsb r IHr c data s Hm Hn. cbn [progs_subs nodes_subs nomig_subs] in *.
    apply andb_true_iff in Hm as [Hm1 Hm2]. destruct (NoDup_app_inv _ _ Hn) as (Hn1 & Hn2 & Hd0).
    rewrite process_subs_trace. intros P Hi. apply in_app_or in Hi as [Hi|Hi].
    + apply Hd_left; [exact (IHsb c s Hm1 Hn1 P Hi)|]. intros x Hx Hc. apply (Hd0 x (Nb sb P Hi x Hx)).
      destruct (outc (run_sub e c sb s)) as [[[ev1 d1] s1]| |]; [exact (subl_in _ _ _ (Cs _ _ _ _) Hc)|destruct Hc|destruct Hc].
    + apply Hd_right.
      * destruct (outc (run_sub e c sb s)) as [[[ev1 d1] s1]| |]; [exact (IHr c _ s1 Hm2 Hn2 P Hi)| |]; apply Hd_uncalled; intros [].
      * intros x Hx Hc. exact (Hd0 x (subl_in _ _ _ (Cb _ _ _) Hc) (Ns r P Hi x Hx)).
  - (* Sub *) intros id payload ro m IHm on_ok IHok on_err IHerr c s Hm Hn. cbn [progs_sub nodes_sub nomig_sub] in *.
    apply andb_true_iff in Hm as [Hm12 Hm3]. apply andb_true_iff in Hm12 as [Hm1 Hm2].
    destruct (NoDup_app_inv _ _ Hn) as (Hn1 & Hn23 & Hd1). destruct (NoDup_app_inv _ _ Hn23) as (Hn2 & Hn3 & Hd2).
    rewrite run_sub_trace. unfold reply_run.
    match goal with |- allHd _ _ (_ ++ ?X) => set (R := X) end.
    assert (HR : (subl (call_nodes R) (nodes_prog on_ok) /\ allHd (codes e) (progs_prog on_ok) R) \/
                 (subl (call_nodes R) (nodes_prog on_err) /\ allHd (codes e) (progs_prog on_err) R)).
    { unfold R. destruct (outc (run_msg e c m s)) as [[[ev d] s1]| |].
      - left. destruct (wants_ok ro); [split; [apply Cp|apply IHok; assumption]|split; [apply subl_nil_l|intros P _; apply Hd_uncalled; intros []]].
      - right. destruct (wants_err ro); [split; [apply Cp|apply IHerr; assumption]|split; [apply subl_nil_l|intros P _; apply Hd_uncalled; intros []]].
      - left. split; [apply subl_nil_l|intros P _; apply Hd_uncalled; intros []]. }
    clearbody R. intros P Hi. apply in_app_or in Hi as [Hi|Hi]; [|apply in_app_or in Hi as [Hi|Hi]].
    + apply Hd_left; [exact (IHm c s Hm1 Hn1 P Hi)|]. intros x Hx Hc. apply (Hd1 x (Nm m P Hi x Hx)).
      destruct HR as [[S _]|[S _]]; apply in_or_app; [left|right]; exact (subl_in _ _ _ S Hc).
    + apply Hd_right.
      * destruct HR as [[_ A]|[S _]]; [exact (A P Hi)|]. apply Hd_uncalled. intros Hc.
        exact (Hd2 _ (Np on_ok P Hi _ (prog_node_in P)) (subl_in _ _ _ S Hc)).
      * intros x Hx Hc. apply (Hd1 x (subl_in _ _ _ (Cm _ _ _) Hc)). apply in_or_app. left. exact (Np on_ok P Hi x Hx).
    + apply Hd_right.
      * destruct HR as [[S _]|[_ A]]; [|exact (A P Hi)]. apply Hd_uncalled. intros Hc.
        exact (Hd2 _ (subl_in _ _ _ S Hc) (Np on_err P Hi _ (prog_node_in P))).
      * intros x Hx Hc. apply (Hd1 x (subl_in _ _ _ (Cm _ _ _) Hc)). apply in_or_app. right. exact (Np on_err P Hi x Hx).
Qed.

(* ---------- every listed (dispatcher, sub-message) pair is a direct sub-message of a program of the tree ---------- *)
Definition dsubs_out (d : N) (o : output) : list (N * sub) := match o with OFail => [] | OResp _ _ _ sbs => dsubs_subs d sbs end.
Definition of_prog (ps : list prog) (d : N) (sb : sub) : Prop := exists P, In P ps /\ prog_node P = d /\ In_subs sb (direct P).

Lemma of_prog_incl ps ps' d sb : incl ps ps' -> of_prog ps d sb -> of_prog ps' d sb.
Proof. intros I (P & A & B & C). exists P. auto. Qed.

Lemma dsubs_progs :
  (forall m d sb, In (d, sb) (dsubs_msg m) -> of_prog (progs_msg m) d sb) /\
  (forall p d sb, In (d, sb) (dsubs_prog p) -> of_prog (progs_prog p) d sb) /\
  (forall o d0 d sb, In (d, sb) (dsubs_out d0 o) -> (d = d0 /\ In_subs sb (match o with OFail => SNil | OResp _ _ _ sbs => sbs end)) \/ of_prog (progs_out o) d sb) /\
  (forall l d0 d sb, In (d, sb) (dsubs_subs d0 l) -> (d = d0 /\ In_subs sb l) \/ of_prog (progs_subs l) d sb) /\
  (forall x d0 d sb, In (d, sb) (dsubs_sub d0 x) -> (d = d0 /\ x = sb) \/ of_prog (progs_sub x) d sb).
Proof.
  apply exec_mutind; try (intros; cbn [dsubs_msg dsubs_out dsubs_subs In] in *; contradiction).
  - intros c p IH funds d sb Hi. exact (IH d sb Hi).
  - intros cid p IH funds label admin salt d sb Hi. exact (IH d sb Hi).
  - intros c nc p IH d sb Hi. exact (IH d sb Hi).
  - (* Prog *) intros node acts o IH d sb Hi. cbn [dsubs_prog] in Hi. fold (dsubs_out node o) in Hi.
    cbn [progs_prog]. fold (progs_out o). destruct (IH node d sb Hi) as [[-> Hs]|H].
    + exists (Prog node acts o). split; [left; reflexivity|]. split; [reflexivity|exact Hs].
    + eapply of_prog_incl; [|exact H]. apply incl_tl, incl_refl.
  - intros attrs events data sbs IH d0 d sb Hi. exact (IH d0 d sb Hi).
  - (* SCons *) intros x IHx r IHr d0 d sb Hi. cbn [dsubs_subs progs_subs In_subs] in *. apply in_app_or in Hi as [Hi|Hi].
    + destruct (IHx d0 d sb Hi) as [[-> ->]|H]; [left; auto|right]. eapply of_prog_incl; [|exact H]. apply incl_appl, incl_refl.
    + destruct (IHr d0 d sb Hi) as [[-> Hs]|H]; [left; auto|right]. eapply of_prog_incl; [|exact H]. apply incl_appr, incl_refl.
  - (* Sub *) intros id payload ro m IHm on_ok IHok on_err IHerr d0 d sb Hi. cbn [dsubs_sub progs_sub] in *. destruct Hi as [E|Hi].
    + injection E as <- <-. left. auto.
    + right. apply in_app_or in Hi as [Hi|Hi]; [|apply in_app_or in Hi as [Hi|Hi]].
      * eapply of_prog_incl; [|exact (IHm d sb Hi)]. apply incl_appl, incl_refl.
      * eapply of_prog_incl; [|exact (IHok d sb Hi)]. apply incl_appr, incl_appl, incl_refl.
      * eapply of_prog_incl; [|exact (IHerr d sb Hi)]. apply incl_appr, incl_appr, incl_refl.
Qed.

(* ---------- top level ---------- *)
Lemma msgs_Hd e sender : forall ms s, forallb nomig_msg ms = true -> NoDup (flat_map nodes_msg ms) ->
  allHd (codes e) (flat_map progs_msg ms) (trc (run_msgs e sender ms s)).
Proof.
  induction ms as [|m r IH]; intros s Hm Hn; [intros P []|]. rewrite run_msgs_cons. cbn [flat_map forallb] in *.
  apply andb_true_iff in Hm as [Hm1 Hm2]. destruct (NoDup_app_inv _ _ Hn) as (Hn1 & Hn2 & Hd0).
  pose proof (proj1 (exec_Hd e) m sender s Hm1 Hn1) as H1. pose proof (proj1 (exec_call_nodes e) m sender s) as C1.
  assert (Hright : forall P, In P (flat_map progs_msg r) -> forall x, In x (nodes_prog P) -> ~ In x (call_nodes (trc (run_msg e sender m s)))).
  { intros P Hi x Hx Hc. exact (Hd0 x (subl_in _ _ _ C1 Hc) (msgs_progs_incl r P Hi x Hx)). }
  destruct (run_msg e sender m s) as [tr1 [[rs s1]| |]]; cbn [trc fst] in *.
  - specialize (IH s1 Hm2 Hn2). pose proof (msgs_call_nodes e sender r s1) as C2.
    destruct (run_msgs e sender r s1) as [tr2 r2]. cbn [trc fst] in *. intros P Hi. apply in_app_or in Hi as [Hi|Hi].
    + apply Hd_left; [exact (H1 P Hi)|]. intros x Hx Hc. exact (Hd0 x (proj1 progs_nodes_incl m P Hi x Hx) (subl_in _ _ _ C2 Hc)).
    + apply Hd_right; [exact (IH P Hi)|exact (Hright P Hi)].
  - intros P Hi. apply in_app_or in Hi as [Hi|Hi]; [exact (H1 P Hi)|]. apply Hd_uncalled. exact (Hright P Hi _ (prog_node_in P)).
  - intros P Hi. apply in_app_or in Hi as [Hi|Hi]; [exact (H1 P Hi)|]. apply Hd_uncalled. exact (Hright P Hi _ (prog_node_in P)).
Qed.

Lemma top_Hd e op s : nomig_op op = true -> NoDup (nodes_op op) -> allHd (codes e) (progs_op op) (top_trace (run_top e op s)).
Proof.
  intros Hm Hn. rewrite (proj1 (top_inner e op s)). destruct (op_msgs op) as [[sd ms]|] eqn:E.
  - destruct (inner_msgs e op s sd ms E) as (-> & Et & _ & _ & En & Ep). rewrite En in Hn. rewrite Ep.
    assert (Hm' : forallb nomig_msg ms = true) by (destruct op; cbn in E; try discriminate; injection E as _ <-; exact Hm).
    apply msgs_Hd; assumption.
  - destruct op; try discriminate.
    + cbn [inner nodes_op progs_op nomig_op] in *. pose proof (proj1 (proj2 (exec_Hd e)) p ESudo c None [] None 0 true s Hm Hn) as H.
      destruct (run_prog e ESudo c None [] None 0 true p s) as [tr r]. exact H.
    + intros P [].
Qed.

Lemma dsubs_op_progs op d sb : In (d, sb) (dsubs_op op) -> of_prog (progs_op op) d sb.
Proof.
  destruct (op_msgs op) as [[sd ms]|] eqn:E.
  - assert (E1 : dsubs_op op = flat_map dsubs_msg ms /\ progs_op op = flat_map progs_msg ms)
      by (destruct op; cbn in E; try discriminate; injection E as _ <-; auto).
    destruct E1 as [-> ->]. intros H. apply in_flat_map in H as (m & Hm & H).
    destruct (proj1 dsubs_progs m d sb H) as (P & A & B & C). exists P. split; [apply in_flat_map; exists m; auto|auto].
  - destruct op; try discriminate; [|intros []]. cbn [dsubs_op progs_op]. apply (proj1 (proj2 dsubs_progs)).
Qed.

(* ---------- the step ---------- *)
Lemma c03_due ce st s : step_pre s (st_op st) ->
  negb (nomig_op (st_op st)) ||
  forallb (fun ds => due_ok (ce_codes ce) (top_trace (run_top (mk_env ce (st_blk st)) (st_op st) s)) (fst ds) (snd ds)) (dsubs_op (st_op st)) = true.
Proof.
  intros Hpre. destruct (nomig_op (st_op st)) eqn:Hm; [|reflexivity]. cbn [negb orb].
  apply forallb_forall. intros [d sb] Hi. cbn [fst snd].
  destruct (dsubs_op_progs _ d sb Hi) as (P & HP & <- & Hs).
  exact (top_Hd (mk_env ce (st_blk st)) (st_op st) s Hm (Hn st s Hpre) P HP sb Hs).
Qed.

Lemma p_c03_model ce st s : step_pre s (st_op st) -> p_c03 ce (model_step ce st s) = None.
Proof. intros Hpre. apply p_c03_model_with; [exact Hpre|]. exact (c03_due ce st s Hpre). Qed.
