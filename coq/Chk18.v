(* Chk18.v — C18: probe/observation types shared with the harness (harness/c18), the property
   oracle on the implementation's answers, the model's answers, and the per-case check. *)
From Verif Require Import Base Bech32.
Local Open Scope N_scope.

(* which Api implementation: MockApiBech32 / MockApiBech32m (api.rs) or cosmwasm_std's MockApi
   (what IntoAddr uses), each with a prefix *)
Inductive codec := CBech (c : variant) | CStd.

Definition api_canonicalize (cd : codec) (p s : text) : outcome bytes :=
  match cd with CBech c => canonicalize c p s | CStd => std_canonicalize p s end.
Definition api_humanize (cd : codec) (p : text) (b : bytes) : outcome text :=
  match cd with CBech c => humanize c p b | CStd => std_humanize p b end.
Definition api_validate (cd : codec) (p s : text) : outcome text :=
  match cd with CBech c => validate c p s | CStd => std_validate p s end.
Definition api_make (cd : codec) (p : text) (d : bytes) : outcome text :=
  match cd with CBech c => addr_make c p d | CStd => std_addr_make p d end.
(* the codec with the other checksum variant (for the default codec: MockApiBech32m) *)
Definition other (cd : codec) : codec :=
  match cd with CBech Bech32 => CBech Bech32m | CBech Bech32m => CBech Bech32 | CStd => CBech Bech32m end.

(* result of addr_validate relative to its input (keeps sweeps short) *)
Inductive vres := VErr | VSame | VOther (s : text) | VPanic.
Definition vres_of (input : text) (r : outcome text) : vres :=
  match r with
  | Ok s => if text_eqb s input then VSame else VOther s
  | Err => VErr
  | Panic => VPanic
  end.

Inductive foreign := FVariant | FPrefix (p2 : text).

Inductive probe :=
(* h = addr_humanize b; if h = Ok s then c = addr_canonicalize s, v = addr_validate s (else Err, Err) *)
| PRound (b : bytes) (h : outcome text) (c : outcome bytes) (v : outcome text)
(* v = addr_validate s; c = addr_canonicalize s; if c = Ok b then h = addr_humanize b (else Err) *)
| PString (s : text) (v : outcome text) (c : outcome bytes) (h : outcome text)
(* v0 = addr_validate s; rows[i][j] = (validate, canonicalize) of s with character i replaced by xs[j];
   flips[i] = the same for character i replaced by its other-case form *)
| PSweep (s : text) (v0 : outcome text) (xs : list N)
         (rows : list (list (vres * outcome bytes))) (flips : list (vres * outcome bytes))
(* t = addr_humanize b under the other checksum variant / under prefix p2 (same codec);
   if t = Ok s then v = addr_validate s, c = addr_canonicalize s under THIS codec and prefix (else Err, Err) *)
| PForeign (k : foreign) (b : bytes) (t : outcome text) (v : outcome text) (c : outcome bytes)
(* d = SHA-256(name), computed by the harness; m, m2 = addr_make(name) twice; helpers = the
   addresses.rs helper(s) for this codec and prefix; if m = Ok s then v = addr_validate s,
   c = addr_canonicalize s (else Err, Err) *)
| PMake (d : bytes) (m m2 : outcome text) (helpers : list (outcome text)) (v : outcome text) (c : outcome bytes)
(* m1 = addr_make(name1) under this prefix, m2 = addr_make(name2) under prefix p2 *)
| PDistinct (d1 d2 : bytes) (p2 : text) (m1 m2 : outcome text).

(* ---------- small helpers ---------- *)
Definition flip_case (c : N) : N := if is_upper c then c + 32 else if is_lower c then c - 32 else c.

Definition ot_eqb (a b : outcome text) : bool :=
  match a, b with Ok x, Ok y => text_eqb x y | Err, Err => true | Panic, Panic => true | _, _ => false end.
Definition ob_eqb (a b : outcome bytes) : bool :=
  match a, b with Ok x, Ok y => list_eqb N.eqb x y | Err, Err => true | Panic, Panic => true | _, _ => false end.
Definition vres_eqb (a b : vres) : bool :=
  match a, b with
  | VErr, VErr => true | VSame, VSame => true | VPanic, VPanic => true
  | VOther x, VOther y => text_eqb x y
  | _, _ => false
  end.
Definition cell_eqb : vres * outcome bytes -> vres * outcome bytes -> bool := pair_eqb vres_eqb ob_eqb.
Definition no_panic {A} (r : outcome A) : bool := match r with Panic => false | _ => true end.
Definition is_ok {A} (r : outcome A) : bool := match r with Ok _ => true | _ => false end.
Definition cell_no_panic (x : vres * outcome bytes) : bool :=
  match fst x with VPanic => false | _ => no_panic (snd x) end.

(* ---------- the model's answers ---------- *)
Definition api_validate_from (cd : codec) (p s : text) (cb : outcome bytes) : outcome text :=
  match cd with CBech c => validate_from c p s cb | CStd => std_validate_from p s cb end.
Definition cell (cd : codec) (p s' : text) : vres * outcome bytes :=
  let c := api_canonicalize cd p s' in (vres_of s' (api_validate_from cd p s' c), c).

Fixpoint sweep_rows (cd : codec) (p : text) (xs : list N) (pre post : text) : list (list (vres * outcome bytes)) :=
  match post with
  | [] => []
  | ch :: r => map (fun x => cell cd p (rev_append pre (x :: r))) xs :: sweep_rows cd p xs (ch :: pre) r
  end.
Fixpoint sweep_flips (cd : codec) (p : text) (pre post : text) : list (vres * outcome bytes) :=
  match post with
  | [] => []
  | ch :: r => cell cd p (rev_append pre (flip_case ch :: r)) :: sweep_flips cd p (ch :: pre) r
  end.

Definition model_probe (cd : codec) (p : text) (pr : probe) : probe :=
  match pr with
  | PRound b _ _ _ =>
      let h := api_humanize cd p b in
      match h with
      | Ok s => PRound b h (api_canonicalize cd p s) (api_validate cd p s)
      | _ => PRound b h Err Err
      end
  | PString s _ _ _ =>
      let c := api_canonicalize cd p s in
      PString s (api_validate cd p s) c (match c with Ok b => api_humanize cd p b | _ => Err end)
  | PSweep s _ xs _ _ =>
      PSweep s (api_validate cd p s) xs (sweep_rows cd p xs [] s) (sweep_flips cd p [] s)
  | PForeign k b _ _ _ =>
      let t := match k with FVariant => api_humanize (other cd) p b | FPrefix p2 => api_humanize cd p2 b end in
      match t with
      | Ok s => PForeign k b t (api_validate cd p s) (api_canonicalize cd p s)
      | _ => PForeign k b t Err Err
      end
  | PMake d _ _ hs _ _ =>
      let m := api_make cd p d in
      match m with
      | Ok s => PMake d m m (map (fun _ => m) hs) (api_validate cd p s) (api_canonicalize cd p s)
      | _ => PMake d m m (map (fun _ => m) hs) Err Err
      end
  | PDistinct d1 d2 p2 _ _ => PDistinct d1 d2 p2 (api_make cd p d1) (api_make cd p2 d2)
  end.

(* ---------- the property, as a predicate on the implementation's answers ---------- *)
Definition len_1_64 (b : bytes) : bool := (1 <=? nlen b) && (nlen b <=? 64).

(* row i of a sweep over valid address s: replacing character ch by x must be rejected unless x = ch *)
Definition row_ok (ch : N) (xs : list N) (row : list (vres * outcome bytes)) : bool :=
  Nat.eqb (length row) (length xs) &&
  forallb (fun xc => vres_eqb (fst (snd xc)) (if fst xc =? ch then VSame else VErr)) (combine xs row).
Fixpoint rows_ok (s : text) (xs : list N) (rows : list (list (vres * outcome bytes))) : bool :=
  match s, rows with
  | [], [] => true
  | ch :: s', row :: rows' => row_ok ch xs row && rows_ok s' xs rows'
  | _, _ => false
  end.
Fixpoint flips_ok (s : text) (flips : list (vres * outcome bytes)) : bool :=
  match s, flips with
  | [], [] => true
  | ch :: s', f :: flips' => vres_eqb (fst f) (if flip_case ch =? ch then VSame else VErr) && flips_ok s' flips'
  | _, _ => false
  end.

Definition oracle (cd : codec) (p : text) (pr : probe) : bool :=
  match pr with
  | PRound b h c v =>
      (* total; a canonical byte string of 1..64 bytes can be humanized under any valid prefix;
         and back gives the original bytes; the address is valid and returned unchanged *)
      no_panic h && no_panic c && no_panic v &&
      (if hrp_ok p && wf_bytes b && len_1_64 b then is_ok h else true) &&
      match h with Ok s => ob_eqb c (Ok b) && ot_eqb v (Ok s) | _ => true end
  | PString s v c h =>
      (* total; accepted => unchanged, decodes under this codec and prefix, and is the normal form;
         conversely a string that decodes and is the normal form is accepted; mixed case is rejected *)
      no_panic v && no_panic c && no_panic h &&
      match v with Ok s' => text_eqb s' s && is_ok c && ot_eqb h (Ok s) | _ => true end &&
      (if is_ok c && ot_eqb h (Ok s) then ot_eqb v (Ok s) else true) &&
      (if mixed_case s then ot_eqb v Err && ob_eqb c Err else true)
  | PSweep s v0 xs rows flips =>
      forallb (forallb cell_no_panic) rows && forallb cell_no_panic flips && no_panic v0 &&
      (if ot_eqb v0 (Ok s) then rows_ok s xs rows && flips_ok s flips else true)
  | PForeign k b t v c =>
      no_panic t && no_panic v && no_panic c &&
      match t with
      | Ok _ => match k with
                | FVariant => ot_eqb v Err && ob_eqb c Err
                | FPrefix p2 => if hrp_eqb p p2 then true else ot_eqb v Err && ob_eqb c Err
                end
      | _ => true
      end
  | PMake d m m2 hs v c =>
      (* under a valid prefix: never panics, deterministic, the helpers agree, valid under its own codec *)
      if hrp_ok p && wf_bytes d && (nlen d =? 32) then
        match m with
        | Ok s => ot_eqb m2 m && forallb (ot_eqb m) hs && ot_eqb v (Ok s) && is_ok c
        | _ => false
        end
      else true
  | PDistinct d1 d2 p2 m1 m2 =>
      match m1, m2 with
      | Ok s1, Ok s2 => if list_eqb N.eqb d1 d2 && hrp_eqb p p2 then true else negb (text_eqb s1 s2)
      | _, _ => true
      end
  end.

(* ---------- comparison of two filled probes ---------- *)
Definition probe_eqb (a b : probe) : bool :=
  match a, b with
  | PRound b1 h1 c1 v1, PRound b2 h2 c2 v2 => list_eqb N.eqb b1 b2 && ot_eqb h1 h2 && ob_eqb c1 c2 && ot_eqb v1 v2
  | PString s1 v1 c1 h1, PString s2 v2 c2 h2 => text_eqb s1 s2 && ot_eqb v1 v2 && ob_eqb c1 c2 && ot_eqb h1 h2
  | PSweep s1 v1 x1 r1 f1, PSweep s2 v2 x2 r2 f2 =>
      text_eqb s1 s2 && ot_eqb v1 v2 && list_eqb N.eqb x1 x2 && list_eqb (list_eqb cell_eqb) r1 r2 && list_eqb cell_eqb f1 f2
  | PForeign _ b1 t1 v1 c1, PForeign _ b2 t2 v2 c2 => list_eqb N.eqb b1 b2 && ot_eqb t1 t2 && ot_eqb v1 v2 && ob_eqb c1 c2
  | PMake d1 m1 n1 h1 v1 c1, PMake d2 m2 n2 h2 v2 c2 =>
      list_eqb N.eqb d1 d2 && ot_eqb m1 m2 && ot_eqb n1 n2 && list_eqb ot_eqb h1 h2 && ot_eqb v1 v2 && ob_eqb c1 c2
  | PDistinct a1 b1 p1 m1 n1, PDistinct a2 b2 p2 m2 n2 =>
      list_eqb N.eqb a1 a2 && list_eqb N.eqb b1 b2 && text_eqb p1 p2 && ot_eqb m1 m2 && ot_eqb n1 n2
  | _, _ => false
  end.

Fixpoint first_false {A} (f : A -> bool) (l : list A) (i : N) : option N :=
  match l with
  | [] => None
  | x :: l' => if f x then first_false f l' (N.succ i) else Some i
  end.

(* one case = one Api instance (codec, prefix) and the probes run against it.
   PropFail k: the property fails on what the implementation answered in probe k;
   Disagree k: the model answers probe k differently. *)
Definition c18 (cd : codec) (p : text) (observed : list probe) : verdict :=
  match first_false (oracle cd p) observed 0 with
  | Some k => PropFail k
  | None =>
      match first_false (fun pr => probe_eqb (model_probe cd p pr) pr) observed 0 with
      | Some k => Disagree k
      | None => Agree
      end
  end.

(* ====================================================================================== *)
(* the oracle accepts the model's own answers, for ALL inputs                              *)
(* ====================================================================================== *)
Lemma ot_eqb_refl a : ot_eqb a a = true.
Proof. destruct a; cbn; try reflexivity. apply text_eqb_refl. Qed.
Lemma ob_eqb_refl a : ob_eqb a a = true.
Proof. destruct a; cbn; try reflexivity. apply list_eqb_eq; [apply N.eqb_eq|reflexivity]. Qed.
Lemma ot_eqb_ok a s : ot_eqb a (Ok s) = true -> a = Ok s.
Proof. destruct a; cbn; try discriminate. intros H. apply text_eqb_eq in H. congruence. Qed.

Lemma api_validate_from_eq cd p s : api_validate_from cd p s (api_canonicalize cd p s) = api_validate cd p s.
Proof. destruct cd; reflexivity. Qed.

Lemma api_no_panic cd p : (forall s, api_validate cd p s <> Panic) /\ (forall s, api_canonicalize cd p s <> Panic) /\
  (forall b, api_humanize cd p b <> Panic).
Proof.
  destruct cd as [c|]; cbn [api_validate api_canonicalize api_humanize]; repeat split; intros;
    auto using validate_not_panic, canonicalize_not_panic, humanize_not_panic,
               std_validate_not_panic, std_canonicalize_not_panic, std_humanize_not_panic.
Qed.
Lemma no_panic_true {A} (r : outcome A) : r <> Panic -> no_panic r = true.
Proof. destruct r; cbn; congruence. Qed.

Lemma api_round cd p b s : wf_bytes b = true -> api_humanize cd p b = Ok s ->
  api_canonicalize cd p s = Ok b /\ api_validate cd p s = Ok s.
Proof.
  destruct cd as [c|]; cbn [api_validate api_canonicalize api_humanize]; intros W H; split;
    eauto using humanize_canonicalize_l, humanize_validate_l, std_humanize_canonicalize_l, std_humanize_validate_l.
Qed.

Lemma api_total cd p b : hrp_ok p = true -> len_1_64 b = true -> exists s, api_humanize cd p b = Ok s.
Proof.
  intros Hp L. unfold len_1_64 in L. apply andb_true_iff in L as [L1 L2]. apply N.leb_le in L1, L2.
  destruct cd as [c|]; cbn [api_humanize].
  - apply humanize_total_l; [exact Hp|lia].
  - apply std_humanize_total_l; [exact Hp|]. unfold len_ok. apply andb_true_iff. split; apply N.leb_le; lia.
Qed.

Lemma api_validate_shape cd p s s' : api_validate cd p s = Ok s' ->
  s' = s /\ exists b, api_canonicalize cd p s = Ok b /\ api_humanize cd p b = Ok s.
Proof.
  destruct cd as [c|]; cbn [api_validate api_canonicalize api_humanize]; intros V.
  - destruct (validate_shape _ _ _ _ V) as (-> & b & _ & C & H). eauto.
  - destruct (std_validate_shape _ _ _ V) as (-> & b & _ & C & H). eauto.
Qed.

Lemma api_validate_conv cd p s b : api_canonicalize cd p s = Ok b -> api_humanize cd p b = Ok s -> api_validate cd p s = Ok s.
Proof.
  destruct cd as [c|]; cbn [api_validate api_canonicalize api_humanize]; intros C H.
  - unfold validate, validate_from. rewrite C, H, text_eqb_refl. reflexivity.
  - unfold std_validate, std_validate_from. rewrite C, H, text_eqb_refl. reflexivity.
Qed.

Lemma api_mixed cd p s : mixed_case s = true -> api_canonicalize cd p s = Err /\ api_validate cd p s = Err.
Proof. destruct cd as [c|]; cbn [api_validate api_canonicalize]; [apply mixed_case_l|apply std_mixed_case_l]. Qed.

Lemma api_near cd p s s2 : api_validate cd p s = Ok s -> length s2 = length s -> (hamming s s2 <= 1)%nat -> s2 <> s ->
  api_validate cd p s2 = Err.
Proof. destruct cd as [c|]; cbn [api_validate]; [apply near_valid_rejected|apply std_near_valid_rejected]. Qed.

Lemma api_validate_err_or_ok cd p s : api_validate cd p s = Err \/ api_validate cd p s = Ok s.
Proof. destruct cd as [c|]; cbn [api_validate]; [apply validate_err_or_ok|apply std_validate_err_or_ok]. Qed.

Lemma api_humanize_bech cd p b s : api_humanize cd p b = Ok s -> humanize (match cd with CBech c => c | CStd => Bech32 end) p b = Ok s.
Proof. destruct cd as [c|]; cbn [api_humanize]; [auto|]. intros H. apply std_humanize_ok in H as [_ H]. exact H. Qed.

Lemma api_foreign_variant cd p b s : api_humanize (other cd) p b = Ok s ->
  api_canonicalize cd p s = Err /\ api_validate cd p s = Err.
Proof.
  destruct cd as [[|]|]; cbn [other api_humanize api_canonicalize api_validate]; intros H.
  - eapply other_variant_l; [|exact H]. discriminate.
  - eapply other_variant_l; [|exact H]. discriminate.
  - eapply std_other_variant_l; exact H.
Qed.

Lemma api_foreign_prefix cd p p2 b s : api_humanize cd p2 b = Ok s -> hrp_eqb p p2 = false ->
  api_canonicalize cd p s = Err /\ api_validate cd p s = Err.
Proof.
  intros H Hne. apply api_humanize_bech in H. destruct cd as [c|]; cbn [api_canonicalize api_validate].
  - eapply other_prefix_l; eassumption.
  - eapply std_other_prefix_l; eassumption.
Qed.

Lemma api_make_valid cd p d : hrp_ok p = true -> wf_bytes d = true -> nlen d = 32 ->
  exists s, api_make cd p d = Ok s /\ api_validate cd p s = Ok s /\ api_canonicalize cd p s = Ok d.
Proof.
  intros Hp W L. destruct (addr_make_valid_l (match cd with CBech c => c | CStd => Bech32 end) p d Hp W) as (s & M & V & C); [lia|].
  exists s. destruct cd as [c|]; cbn [api_make api_validate api_canonicalize]; [auto|].
  split; [exact M|]. apply addr_make_humanize in M.
  assert (H : std_humanize p d = Ok s).
  { apply std_humanize_ok. split; [|exact M]. unfold len_ok. rewrite L. reflexivity. }
  split; [eapply std_humanize_validate_l|eapply std_humanize_canonicalize_l]; eassumption.
Qed.

Lemma api_make_inj cd p p2 d1 d2 s : wf_bytes d1 = true -> wf_bytes d2 = true ->
  api_make cd p d1 = Ok s -> api_make cd p2 d2 = Ok s -> hrp_eqb p p2 = true /\ d1 = d2.
Proof. destruct cd as [c|]; cbn [api_make]; apply addr_make_injective_l. Qed.

(* the cells of a sweep *)
Lemma cell_fst cd p s2 : fst (cell cd p s2) = vres_of s2 (api_validate cd p s2).
Proof. unfold cell. cbn [fst]. rewrite api_validate_from_eq. reflexivity. Qed.

Lemma cell_ok cd p s2 : cell_no_panic (cell cd p s2) = true.
Proof.
  unfold cell_no_panic. rewrite cell_fst. destruct (api_no_panic cd p) as (V & C & _).
  unfold cell. cbn [snd]. specialize (V s2). specialize (C s2).
  destruct (api_validate cd p s2) as [x| |]; cbn [vres_of]; try congruence.
  - destruct (text_eqb x s2); apply no_panic_true, C.
  - apply no_panic_true, C.
Qed.

Lemma cell_expected cd p s pre ch x r : api_validate cd p s = Ok s -> s = rev pre ++ ch :: r ->
  vres_eqb (fst (cell cd p (rev_append pre (x :: r)))) (if x =? ch then VSame else VErr) = true.
Proof.
  intros V ->. rewrite cell_fst, rev_append_rev. destruct (N.eqb_spec x ch) as [->|Hne].
  - rewrite V. cbn [vres_of]. rewrite text_eqb_refl. reflexivity.
  - rewrite (api_near cd p _ _ V); [reflexivity| | |].
    + rewrite !app_length. reflexivity.
    + rewrite hamming_app. cbn [hamming]. rewrite hamming_refl. destruct (ch =? x); lia.
    + intros E. apply app_inv_head in E. congruence.
Qed.

Lemma sweep_rows_ok cd p xs s : api_validate cd p s = Ok s -> forall post pre, s = rev pre ++ post ->
  rows_ok post xs (sweep_rows cd p xs pre post) = true.
Proof.
  intros V. induction post as [|ch r IH]; intros pre E; [reflexivity|].
  cbn [sweep_rows rows_ok]. apply andb_true_iff. split.
  - unfold row_ok. rewrite map_length, Nat.eqb_refl. cbn [andb].
    apply forallb_forall. intros [x c] Hin.
    assert (Hc : c = cell cd p (rev_append pre (x :: r))).
    { clear -Hin. induction xs as [|y xs IHx]; [destruct Hin|]. cbn [map combine] in Hin. destruct Hin as [H|H]; [congruence|auto]. }
    subst c. cbn [fst snd]. eapply cell_expected; eassumption.
  - apply IH. rewrite E. cbn [rev]. rewrite <- app_assoc. reflexivity.
Qed.

Lemma sweep_flips_ok cd p s : api_validate cd p s = Ok s -> forall post pre, s = rev pre ++ post ->
  flips_ok post (sweep_flips cd p pre post) = true.
Proof.
  intros V. induction post as [|ch r IH]; intros pre E; [reflexivity|].
  cbn [sweep_flips flips_ok]. apply andb_true_iff. split.
  - eapply cell_expected; eassumption.
  - apply IH. rewrite E. cbn [rev]. rewrite <- app_assoc. reflexivity.
Qed.

Lemma sweep_rows_np cd p xs post : forall pre, forallb (forallb cell_no_panic) (sweep_rows cd p xs pre post) = true.
Proof.
  induction post as [|ch r IH]; intros pre; [reflexivity|]. cbn [sweep_rows forallb]. rewrite IH, andb_true_r.
  apply forallb_forall. intros c Hin. apply in_map_iff in Hin as (x & <- & _). apply cell_ok.
Qed.
Lemma sweep_flips_np cd p post : forall pre, forallb cell_no_panic (sweep_flips cd p pre post) = true.
Proof. induction post as [|ch r IH]; intros pre; [reflexivity|]. cbn [sweep_flips forallb]. rewrite IH, cell_ok. reflexivity. Qed.

(* inputs of a probe that must be byte strings *)
Definition probe_wf (pr : probe) : bool :=
  match pr with
  | PRound b _ _ _ => wf_bytes b
  | PForeign _ b _ _ _ => wf_bytes b
  | PDistinct d1 d2 _ _ _ => wf_bytes d1 && wf_bytes d2
  | _ => true
  end.

Lemma model_ok cd p pr : probe_wf pr = true -> oracle cd p (model_probe cd p pr) = true.
Proof.
  destruct (api_no_panic cd p) as (NV & NC & NH).
  destruct pr as [b h c v|s v c h|s v0 xs rows flips|k b t v c|d m m2 hs v c|d1 d2 p2 m1 m2]; cbn [probe_wf model_probe]; intros W.
  - (* PRound *)
    destruct (api_humanize cd p b) as [s| |] eqn:H; cbn [oracle].
    + destruct (api_round cd p b s W H) as [C V]. rewrite C, V. cbn [no_panic andb is_ok].
      rewrite ob_eqb_refl, ot_eqb_refl. destruct (hrp_ok p && wf_bytes b && len_1_64 b); reflexivity.
    + cbn [no_panic andb is_ok]. destruct (hrp_ok p && wf_bytes b && len_1_64 b) eqn:G; [|reflexivity].
      apply andb_true_iff in G as [G L]. apply andb_true_iff in G as [Hp _].
      destruct (api_total cd p b Hp L) as [s' H']. congruence.
    + exfalso. exact (NH b H).
  - (* PString *)
    cbn [oracle]. rewrite (no_panic_true _ (NV s)), (no_panic_true _ (NC s)). cbn [andb].
    destruct (api_canonicalize cd p s) as [b| |] eqn:C.
    + rewrite (no_panic_true _ (NH b)). cbn [andb is_ok].
      destruct (api_validate cd p s) as [s'| |] eqn:V.
      * destruct (api_validate_shape cd p s s' V) as (-> & b' & C' & H'). rewrite C in C'. injection C' as <-.
        rewrite H', text_eqb_refl, !ot_eqb_refl. cbn [andb].
        destruct (mixed_case s) eqn:M; [|reflexivity]. destruct (api_mixed cd p s M) as [_ V']. congruence.
      * cbn [andb]. destruct (ot_eqb (api_humanize cd p b) (Ok s)) eqn:E.
        -- apply ot_eqb_ok in E. rewrite (api_validate_conv cd p s b C E) in V. discriminate.
        -- cbn [andb]. destruct (mixed_case s) eqn:M; [|reflexivity]. destruct (api_mixed cd p s M) as [C' _]. congruence.
      * exfalso. exact (NV s V).
    + cbn [no_panic andb is_ok]. destruct (api_validate cd p s) as [s'| |] eqn:V.
      * destruct (api_validate_shape cd p s s' V) as (_ & b' & C' & _). congruence.
      * cbn [andb ot_eqb ob_eqb]. destruct (mixed_case s); reflexivity.
      * exfalso. exact (NV s V).
    + exfalso. exact (NC s C).
  - (* PSweep *)
    cbn [oracle]. rewrite sweep_rows_np, sweep_flips_np, (no_panic_true _ (NV s)). cbn [andb].
    destruct (ot_eqb (api_validate cd p s) (Ok s)) eqn:E; [|reflexivity]. apply ot_eqb_ok in E.
    rewrite (sweep_rows_ok cd p xs s E s []), (sweep_flips_ok cd p s E s []) by reflexivity. reflexivity.
  - (* PForeign *)
    destruct k as [|p2].
    + destruct (api_humanize (other cd) p b) as [s| |] eqn:H; cbn [oracle no_panic andb]; try reflexivity.
      * destruct (api_foreign_variant cd p b s H) as [C V]. rewrite C, V. reflexivity.
      * exfalso. destruct (api_no_panic (other cd) p) as (_ & _ & NH'). exact (NH' b H).
    + destruct (api_humanize cd p2 b) as [s| |] eqn:H; cbn [oracle no_panic andb]; try reflexivity.
      * rewrite (no_panic_true _ (NV s)), (no_panic_true _ (NC s)). cbn [andb].
        destruct (hrp_eqb p p2) eqn:E; [reflexivity|].
        destruct (api_foreign_prefix cd p p2 b s H E) as [C V]. rewrite C, V. reflexivity.
      * exfalso. destruct (api_no_panic cd p2) as (_ & _ & NH'). exact (NH' b H).
  - (* PMake *)
    destruct (hrp_ok p && wf_bytes d && (nlen d =? 32)) eqn:G.
    + apply andb_true_iff in G as [G L]. apply andb_true_iff in G as [Hp Wd]. apply N.eqb_eq in L.
      destruct (api_make_valid cd p d Hp Wd L) as (s & M & V & C). rewrite M. cbn [oracle].
      rewrite Hp, Wd, L. cbn [andb N.eqb Pos.eqb]. rewrite V, C, !ot_eqb_refl. cbn [andb is_ok].
      rewrite !andb_true_r. apply forallb_forall. intros x Hx. apply in_map_iff in Hx as (_ & <- & _). apply ot_eqb_refl.
    + destruct (api_make cd p d); cbn [oracle]; rewrite G; reflexivity.
  - (* PDistinct *)
    cbn [oracle]. apply andb_true_iff in W as [W1 W2].
    destruct (api_make cd p d1) as [s1| |] eqn:M1; try reflexivity. destruct (api_make cd p2 d2) as [s2| |] eqn:M2; try reflexivity.
    destruct (list_eqb N.eqb d1 d2 && hrp_eqb p p2) eqn:G; [reflexivity|].
    apply negb_true_iff. apply not_true_is_false. intros E. apply text_eqb_eq in E. subst s2.
    destruct (api_make_inj cd p p2 d1 d2 s1 W1 W2 M1 M2) as [Ep Ed]. rewrite Ep, Ed in G.
    assert (list_eqb N.eqb d2 d2 = true) by (apply list_eqb_eq; [apply N.eqb_eq|reflexivity]). rewrite H in G. discriminate.
Qed.
