(* OMap.v — finite ordered maps as strictly sorted association lists over any strict total
   order given as a three-way comparison.  This is the SPEC OBJECT "a plain ordered map" of
   C06/C07 and the model of cosmwasm-std's MemoryStorage (a BTreeMap).
   Also: the overlay merge of transactions.rs::MergeOverlay and its specification. *)
From Verif Require Import Base.
From Coq Require Import Sorted.

Inductive delta (V : Type) := DSet (v : V) | DDel.
Arguments DSet {V} v. Arguments DDel {V}.

Section OMap.
Context {K : Type} (cmp : K -> K -> comparison).
Hypothesis cmp_eq : forall a b, cmp a b = Eq <-> a = b.
Hypothesis cmp_anti : forall a b, cmp b a = CompOpp (cmp a b).
Hypothesis cmp_trans : forall a b c, cmp a b = Lt -> cmp b c = Lt -> cmp a c = Lt.

Definition lt a b := cmp a b = Lt.

Lemma cmp_refl a : cmp a a = Eq. Proof. apply cmp_eq; reflexivity. Qed.
Lemma lt_gt a b : cmp a b = Lt -> cmp b a = Gt.
Proof. intros H. rewrite cmp_anti, H. reflexivity. Qed.
Lemma gt_lt a b : cmp a b = Gt -> cmp b a = Lt.
Proof. intros H. rewrite cmp_anti, H. reflexivity. Qed.
Lemma lt_irrefl a : ~ lt a a. Proof. unfold lt. rewrite cmp_refl. discriminate. Qed.

Fixpoint assoc {A} (k : K) (l : list (K * A)) : option A :=
  match l with
  | [] => None
  | (k', a) :: l' => match cmp k k' with Eq => Some a | _ => assoc k l' end
  end.

Definition keys {A} (l : list (K * A)) := map fst l.
Definition sorted {A} (l : list (K * A)) := StronglySorted lt (keys l).

Fixpoint insert {A} (k : K) (a : A) (l : list (K * A)) : list (K * A) :=
  match l with
  | [] => [(k, a)]
  | (k', a') :: l' =>
      match cmp k k' with
      | Lt => (k, a) :: l
      | Eq => (k, a) :: l'
      | Gt => (k', a') :: insert k a l'
      end
  end.

Fixpoint delete {A} (k : K) (l : list (K * A)) : list (K * A) :=
  match l with
  | [] => []
  | (k', a') :: l' =>
      match cmp k k' with
      | Lt => l
      | Eq => l'
      | Gt => (k', a') :: delete k l'
      end
  end.

Lemma Forall_lt_trans a b (l : list K) : lt a b -> Forall (lt b) l -> Forall (lt a) l.
Proof. intros Hab H. eapply Forall_impl; [|exact H]. intros c Hbc. eapply cmp_trans; eassumption. Qed.

Lemma assoc_none_lt {A} k (l : list (K * A)) : Forall (lt k) (keys l) -> assoc k l = None.
Proof.
  induction l as [|[k' a] l IH]; cbn; intros H; [reflexivity|].
  inversion H as [|? ? Hk Hl]; subst. unfold lt in Hk. rewrite Hk. apply IH, Hl.
Qed.

Lemma sorted_inv {A} k (a : A) l : sorted ((k, a) :: l) -> sorted l /\ Forall (lt k) (keys l).
Proof. unfold sorted; cbn. intros H. apply StronglySorted_inv in H. exact H. Qed.

Lemma sorted_cons {A} k (a : A) l : sorted l -> Forall (lt k) (keys l) -> sorted ((k, a) :: l).
Proof. unfold sorted; cbn. intros. constructor; assumption. Qed.

Lemma sorted_nil {A} : sorted (@nil (K * A)). Proof. constructor. Qed.

Lemma insert_keys_bound {A} x k (a : A) l :
  lt x k -> Forall (lt x) (keys l) -> Forall (lt x) (keys (insert k a l)).
Proof.
  intros Hk. induction l as [|[k' a'] l IH]; cbn; intros H.
  - constructor; [exact Hk|constructor].
  - inversion H as [|? ? H1 H2]; subst. destruct (cmp k k'); cbn.
    + constructor; assumption.
    + constructor; [exact Hk|]. constructor; assumption.
    + constructor; [exact H1|]. apply IH, H2.
Qed.

Lemma insert_sorted {A} k (a : A) l : sorted l -> sorted (insert k a l).
Proof.
  induction l as [|[k' a'] l IH]; cbn; intros H.
  - apply sorted_cons; constructor.
  - destruct (sorted_inv _ _ _ H) as [Hs Hb]. destruct (cmp k k') eqn:E.
    + apply cmp_eq in E; subst. apply sorted_cons; assumption.
    + apply sorted_cons; [exact H|]. cbn. constructor; [exact E|]. eapply Forall_lt_trans; eassumption.
    + apply sorted_cons; [apply IH, Hs|]. apply insert_keys_bound; [apply gt_lt, E|exact Hb].
Qed.

Lemma delete_keys_bound {A} x k (l : list (K * A)) :
  Forall (lt x) (keys l) -> Forall (lt x) (keys (delete k l)).
Proof.
  induction l as [|[k' a'] l IH]; cbn; intros H; [constructor|].
  inversion H as [|? ? H1 H2]; subst. destruct (cmp k k'); cbn.
  - exact H2.
  - constructor; assumption.
  - constructor; [exact H1|apply IH, H2].
Qed.

Lemma delete_sorted {A} k (l : list (K * A)) : sorted l -> sorted (delete k l).
Proof.
  induction l as [|[k' a'] l IH]; cbn; intros H; [exact H|].
  destruct (sorted_inv _ _ _ H) as [Hs Hb]. destruct (cmp k k') eqn:E.
  - exact Hs.
  - exact H.
  - apply sorted_cons; [apply IH, Hs|apply delete_keys_bound, Hb].
Qed.

Lemma assoc_insert {A} k (a : A) l x : sorted l ->
  assoc x (insert k a l) = match cmp x k with Eq => Some a | _ => assoc x l end.
Proof.
  induction l as [|[k' a'] l IH]; cbn; intros H.
  - destruct (cmp x k); reflexivity.
  - destruct (sorted_inv _ _ _ H) as [Hs Hb]. destruct (cmp k k') eqn:E; cbn.
    + apply cmp_eq in E; subst k'. destruct (cmp x k); reflexivity.
    + destruct (cmp x k) eqn:E2; try reflexivity.
    + rewrite IH by exact Hs. destruct (cmp x k) eqn:E2; try reflexivity.
      apply cmp_eq in E2; subst x. rewrite E. reflexivity.
Qed.

Lemma assoc_delete {A} k (l : list (K * A)) x : sorted l ->
  assoc x (delete k l) = match cmp x k with Eq => None | _ => assoc x l end.
Proof.
  induction l as [|[k' a'] l IH]; cbn; intros H.
  - destruct (cmp x k); reflexivity.
  - destruct (sorted_inv _ _ _ H) as [Hs Hb]. destruct (cmp k k') eqn:E; cbn.
    + apply cmp_eq in E; subst k'. destruct (cmp x k) eqn:E2; try reflexivity.
      apply cmp_eq in E2; subst x. apply assoc_none_lt, Hb.
    + destruct (cmp x k) eqn:E2; try reflexivity.
      apply cmp_eq in E2; subst x. rewrite E. apply assoc_none_lt.
      eapply Forall_lt_trans; eassumption.
    + rewrite IH by exact Hs. destruct (cmp x k) eqn:E2; try reflexivity.
      apply cmp_eq in E2; subst x. rewrite E. reflexivity.
Qed.

(* extensionality: a strictly sorted list is determined by its lookup function *)
Lemma assoc_head {A} k (a : A) l : assoc k ((k, a) :: l) = Some a.
Proof. cbn. rewrite cmp_refl. reflexivity. Qed.

Lemma assoc_in_keys {A} k (l : list (K * A)) a : assoc k l = Some a -> In k (keys l).
Proof.
  induction l as [|[k' a'] l IH]; cbn; [discriminate|].
  destruct (cmp k k') eqn:E; intros H; try (right; apply IH, H).
  left. apply cmp_eq in E. congruence.
Qed.

Lemma sorted_ext {A} (l1 l2 : list (K * A)) :
  sorted l1 -> sorted l2 -> (forall k, assoc k l1 = assoc k l2) -> l1 = l2.
Proof.
  revert l2. induction l1 as [|[k1 a1] l1 IH]; intros [|[k2 a2] l2] H1 H2 E.
  - reflexivity.
  - specialize (E k2). rewrite assoc_head in E. discriminate.
  - specialize (E k1). rewrite assoc_head in E. discriminate.
  - destruct (sorted_inv _ _ _ H1) as [Hs1 Hb1]. destruct (sorted_inv _ _ _ H2) as [Hs2 Hb2].
    assert (Hk : k1 = k2).
    { destruct (cmp k1 k2) eqn:C.
      - apply cmp_eq, C.
      - exfalso. pose proof (E k1) as E1. rewrite assoc_head in E1. cbn in E1. rewrite C in E1.
        rewrite assoc_none_lt in E1; [discriminate|]. eapply Forall_lt_trans; eassumption.
      - exfalso. apply gt_lt in C. pose proof (E k2) as E2. rewrite assoc_head in E2.
        cbn in E2. rewrite C in E2.
        rewrite assoc_none_lt in E2; [discriminate|]. eapply Forall_lt_trans; eassumption. }
    subst k2. pose proof (E k1) as E1. rewrite !assoc_head in E1. injection E1 as ->.
    f_equal. apply IH; try assumption. intros k. specialize (E k). cbn in E.
    destruct (cmp k k1) eqn:C; try exact E.
    apply cmp_eq in C; subst k. rewrite !assoc_none_lt by assumption. reflexivity.
Qed.

(* ---------- bounds and ranges ---------- *)

Definition ge_start (s : option K) (k : K) : bool :=
  match s with None => true | Some s => match cmp s k with Gt => false | _ => true end end.
Definition lt_end (e : option K) (k : K) : bool :=
  match e with None => true | Some e => match cmp k e with Lt => true | _ => false end end.
Definition in_bounds (s e : option K) (k : K) : bool := ge_start s k && lt_end e k.

(* `start > end`: std's BTreeMap::range panics on it; MemoryStorage and StorageTransaction
   both test for it first and return an empty iterator *)
Definition inverted (s e : option K) : bool :=
  match s, e with Some s, Some e => match cmp s e with Gt => true | _ => false end | _, _ => false end.

Definition frange {A} (m : list (K * A)) (s e : option K) : list (K * A) :=
  filter (fun kv => in_bounds s e (fst kv)) m.

(* BTreeMap-backed range as both MemoryStorage::range and the cache's local range do it *)
Definition map_range {A} (m : list (K * A)) (s e : option K) (o : order) : list (K * A) :=
  if inverted s e then []
  else match o with Asc => frange m s e | Desc => rev (frange m s e) end.

(* the spec: what "a plain ordered map" answers *)
Definition spec_range {A} (m : list (K * A)) (s e : option K) (o : order) : list (K * A) :=
  match o with Asc => frange m s e | Desc => rev (frange m s e) end.

Lemma inverted_no_key s e k : inverted s e = true -> in_bounds s e k = false.
Proof.
  unfold inverted, in_bounds, ge_start, lt_end. destruct s as [s|], e as [e|]; try discriminate.
  destruct (cmp s e) eqn:E; try discriminate. intros _.
  destruct (cmp s k) eqn:E1; cbn; try reflexivity; destruct (cmp k e) eqn:E2; try reflexivity; exfalso.
  - apply cmp_eq in E1; subst k. apply gt_lt in E. rewrite cmp_anti, E in E2. discriminate.
  - pose proof (cmp_trans _ _ _ E1 E2) as T. rewrite T in E. discriminate.
Qed.

Lemma map_range_spec {A} (m : list (K * A)) s e o : map_range m s e o = spec_range m s e o.
Proof.
  unfold map_range, spec_range. destruct (inverted s e) eqn:I; [|reflexivity].
  assert (F : frange m s e = []).
  { unfold frange. induction m as [|[k a] m IH]; cbn; [reflexivity|].
    rewrite (inverted_no_key _ _ k I). exact IH. }
  rewrite F. destruct o; reflexivity.
Qed.

Lemma filter_keys_bound {A} x (f : K * A -> bool) l :
  Forall (lt x) (keys l) -> Forall (lt x) (keys (filter f l)).
Proof.
  induction l as [|[k a] l IH]; cbn; intros H; [constructor|].
  inversion H; subst. destruct (f (k, a)); cbn; [constructor|]; auto.
Qed.

Lemma frange_sorted {A} (m : list (K * A)) s e : sorted m -> sorted (frange m s e).
Proof.
  unfold frange. induction m as [|[k a] m IH]; cbn; intros H; [exact H|].
  destruct (sorted_inv _ _ _ H) as [Hs Hb]. destruct (in_bounds s e k).
  - apply sorted_cons; [apply IH, Hs|apply filter_keys_bound, Hb].
  - apply IH, Hs.
Qed.

Lemma assoc_frange {A} (m : list (K * A)) s e k : sorted m ->
  assoc k (frange m s e) = if in_bounds s e k then assoc k m else None.
Proof.
  unfold frange. induction m as [|[k' a] m IH]; cbn; intros H.
  - destruct (in_bounds s e k); reflexivity.
  - destruct (sorted_inv _ _ _ H) as [Hs Hb]. destruct (in_bounds s e k') eqn:B; cbn.
    + rewrite IH by exact Hs. destruct (cmp k k') eqn:C; try reflexivity.
      apply cmp_eq in C; subst k'. rewrite B. reflexivity.
    + rewrite IH by exact Hs. destruct (cmp k k') eqn:C; try reflexivity.
      apply cmp_eq in C; subst k'. rewrite B. reflexivity.
Qed.

(* ---------- the overlay merge (transactions.rs: MergeOverlay::next / pick_match / take_left) ---------- *)

Section Merge.
Context {V : Type}.

(* take_left: a Set is emitted, a Delete is skipped (self.next()) *)
Definition emit (k : K) (d : delta V) (rest : list (K * V)) :=
  match d with DSet v => (k, v) :: rest | DDel => rest end.

(* `cmp` here is the comparison of the iteration direction: for Descending the caller passes
   the flipped comparison, exactly as pick_match swaps its arguments. *)
Fixpoint merge (l : list (K * delta V)) : list (K * V) -> list (K * V) :=
  fix aux (r : list (K * V)) : list (K * V) :=
    match l with
    | [] => r                                         (* (None, Some) / (None, None) *)
    | (lk, ld) :: l' =>
        match r with
        | [] => emit lk ld (merge l' [])              (* (Some, None) => take_left *)
        | (rk, rv) :: r' =>
            match cmp lk rk with
            | Lt => emit lk ld (merge l' r)           (* Less => take_left *)
            | Eq => emit lk ld (merge l' r')          (* Equal => drop right, take_left *)
            | Gt => (rk, rv) :: aux r'                (* Greater => right.next() *)
            end
        end
    end.

Definition overlay (l : list (K * delta V)) (r : list (K * V)) (k : K) : option V :=
  match assoc k l with Some (DSet v) => Some v | Some DDel => None | None => assoc k r end.

Lemma emit_keys_bound x lk ld rest :
  lt x lk -> Forall (lt x) (keys rest) -> Forall (lt x) (keys (emit lk ld rest)).
Proof. intros H1 H2. destruct ld; cbn; [constructor; assumption|assumption]. Qed.

Lemma merge_keys_bound x : forall l r,
  Forall (lt x) (keys l) -> Forall (lt x) (keys r) -> Forall (lt x) (keys (merge l r)).
Proof.
  induction l as [|[lk ld] l IHl]; intros r Hl Hr.
  - destruct r; exact Hr.
  - inversion Hl as [|? ? Hlk Hl']; subst.
    induction r as [|[rk rv] r IHr].
    + cbn [merge]. apply emit_keys_bound; [exact Hlk|]. apply IHl; [exact Hl'|constructor].
    + inversion Hr as [|? ? Hrk Hr']; subst. cbn [merge].
      destruct (cmp lk rk) eqn:E.
      * apply emit_keys_bound; [exact Hlk|]. apply IHl; [exact Hl'|exact Hr'].
      * apply emit_keys_bound; [exact Hlk|]. apply IHl; [exact Hl'|exact Hr].
      * change (Forall (lt x) (rk :: keys (merge ((lk, ld) :: l) r))).
        constructor; [exact Hrk|]. apply IHr; exact Hr'.
Qed.

Lemma emit_sorted lk ld rest :
  sorted rest -> Forall (lt lk) (keys rest) -> sorted (emit lk ld rest).
Proof. unfold sorted. intros H1 H2. destruct ld; cbn; [constructor; assumption|assumption]. Qed.

Lemma merge_sorted : forall l r, sorted l -> sorted r -> sorted (merge l r).
Proof.
  induction l as [|[lk ld] l IHl]; intros r Hl Hr.
  - destruct r; exact Hr.
  - unfold sorted in Hl. cbn in Hl. apply StronglySorted_inv in Hl as [Hl' Hlk].
    induction r as [|[rk rv] r IHr].
    + cbn [merge]. apply emit_sorted; [apply IHl; [exact Hl'|constructor]|].
      apply merge_keys_bound; [exact Hlk|constructor].
    + pose proof Hr as Hr0. unfold sorted in Hr. cbn in Hr.
      apply StronglySorted_inv in Hr as [Hr' Hrk]. cbn [merge].
      destruct (cmp lk rk) eqn:E.
      * apply cmp_eq in E; subst rk.
        apply emit_sorted; [apply IHl; assumption|apply merge_keys_bound; assumption].
      * assert (Hb : Forall (lt lk) (keys ((rk, rv) :: r))).
        { cbn. constructor; [exact E|]. eapply Forall_lt_trans; eassumption. }
        apply emit_sorted; [apply IHl; assumption|apply merge_keys_bound; assumption].
      * change (StronglySorted lt (rk :: keys (merge ((lk, ld) :: l) r))).
        constructor; [apply IHr; exact Hr'|].
        apply gt_lt in E.
        apply merge_keys_bound; [|exact Hrk].
        cbn. constructor; [exact E|]. eapply Forall_lt_trans; eassumption.
Qed.

Lemma assoc_emit k lk ld rest :
  assoc k (emit lk ld rest) =
  match cmp k lk with
  | Eq => match ld with DSet v => Some v | DDel => assoc k rest end
  | _ => assoc k rest
  end.
Proof. destruct ld; cbn; destruct (cmp k lk); reflexivity. Qed.

Lemma merge_assoc : forall l r k, sorted l -> sorted r -> assoc k (merge l r) = overlay l r k.
Proof.
  unfold sorted, overlay.
  induction l as [|[lk ld] l IHl]; intros r k Hl Hr.
  - destruct r; reflexivity.
  - cbn in Hl. apply StronglySorted_inv in Hl as [Hl' Hlk].
    induction r as [|[rk rv] r IHr].
    + cbn [merge]. rewrite assoc_emit. cbn [assoc]. rewrite IHl by (auto; constructor).
      destruct (cmp k lk) eqn:E; try reflexivity.
      apply cmp_eq in E; subst k. rewrite (assoc_none_lt lk l Hlk). destruct ld; reflexivity.
    + cbn in Hr. pose proof Hr as Hr0. apply StronglySorted_inv in Hr as [Hr' Hrk].
      cbn [merge]. destruct (cmp lk rk) eqn:E.
      * apply cmp_eq in E; subst rk. rewrite assoc_emit. cbn [assoc]. rewrite IHl by auto.
        destruct (cmp k lk) eqn:E2; try reflexivity.
        apply cmp_eq in E2; subst k. rewrite (assoc_none_lt lk l Hlk), (assoc_none_lt lk r Hrk).
        destruct ld; reflexivity.
      * rewrite assoc_emit. cbn [assoc]. rewrite IHl by auto. cbn [assoc].
        destruct (cmp k lk) eqn:E2; try reflexivity.
        apply cmp_eq in E2; subst k. rewrite E. rewrite (assoc_none_lt lk l Hlk).
        rewrite (assoc_none_lt lk r) by (eapply Forall_lt_trans; eassumption).
        destruct ld; reflexivity.
      * change (assoc k ((rk, rv) :: merge ((lk, ld) :: l) r) =
                match assoc k ((lk, ld) :: l) with
                | Some (DSet v) => Some v | Some DDel => None | None => assoc k ((rk, rv) :: r) end).
        cbn [assoc] in *. rewrite IHr by exact Hr'.
        destruct (cmp k rk) eqn:E2; try reflexivity.
        apply cmp_eq in E2; subst k. apply gt_lt in E. unfold lt in *. rewrite E.
        rewrite (assoc_none_lt rk l) by (eapply Forall_lt_trans; eassumption). reflexivity.
Qed.

End Merge.
End OMap.

(* ---------- the flipped comparison (descending iteration) ---------- *)

Section Flip.
Context {K : Type} (cmp : K -> K -> comparison).
Hypothesis cmp_eq : forall a b, cmp a b = Eq <-> a = b.
Hypothesis cmp_anti : forall a b, cmp b a = CompOpp (cmp a b).
Hypothesis cmp_trans : forall a b c, cmp a b = Lt -> cmp b c = Lt -> cmp a c = Lt.

Definition flip_cmp (a b : K) := cmp b a.

Lemma flip_eq a b : flip_cmp a b = Eq <-> a = b.
Proof. unfold flip_cmp. rewrite cmp_eq. split; congruence. Qed.
Lemma flip_anti a b : flip_cmp b a = CompOpp (flip_cmp a b).
Proof. unfold flip_cmp. apply cmp_anti. Qed.
Lemma flip_trans a b c : flip_cmp a b = Lt -> flip_cmp b c = Lt -> flip_cmp a c = Lt.
Proof. unfold flip_cmp. intros H1 H2. eapply cmp_trans; eassumption. Qed.

Lemma assoc_flip {A} k (l : list (K * A)) : assoc flip_cmp k l = assoc cmp k l.
Proof.
  induction l as [|[k' a] l IH]; cbn; [reflexivity|]. unfold flip_cmp at 1.
  rewrite (cmp_anti k k'). destruct (cmp k k'); cbn; auto.
Qed.

Lemma Forall_rev_iff {A} (P : A -> Prop) l : Forall P (rev l) <-> Forall P l.
Proof. rewrite !Forall_forall. split; intros H x Hx; apply H; [apply -> in_rev|apply in_rev]; exact Hx. Qed.

Lemma StronglySorted_snoc {A} (R : A -> A -> Prop) l k :
  StronglySorted R l -> Forall (fun x => R x k) l -> StronglySorted R (l ++ [k]).
Proof.
  induction l as [|x l IH]; cbn; intros Hs Hb.
  - constructor; constructor.
  - inversion Hb; subst. apply StronglySorted_inv in Hs as [Hs Hx].
    constructor; [apply IH; assumption|].
    apply Forall_app. split; [exact Hx|]. constructor; [assumption|constructor].
Qed.

Lemma sorted_rev {A} (l : list (K * A)) : sorted cmp l -> sorted flip_cmp (rev l).
Proof.
  unfold sorted, keys. rewrite map_rev. generalize (map fst l) as ks. clear l.
  induction ks as [|k ks IH]; cbn; intros H; [constructor|].
  apply StronglySorted_inv in H as [Hs Hb].
  apply StronglySorted_snoc; [apply IH, Hs|].
  apply Forall_rev_iff. exact Hb.
Qed.

Lemma assoc_rev {A} k (l : list (K * A)) : sorted cmp l -> assoc cmp k (rev l) = assoc cmp k l.
Proof.
  induction l as [|[k' a] l IH]; cbn; intros H; [reflexivity|].
  destruct (sorted_inv cmp _ _ _ H) as [Hs Hb].
  assert (G : forall (l1 : list (K * A)) x y, assoc cmp x (l1 ++ [y]) =
              match assoc cmp x l1 with Some v => Some v | None => assoc cmp x [y] end).
  { induction l1 as [|[k1 a1] l1 IH1]; intros x y; cbn [app assoc]; [reflexivity|].
    destruct (cmp x k1); try apply IH1. reflexivity. }
  rewrite G, IH by exact Hs. cbn.
  destruct (cmp k k') eqn:C.
  - apply cmp_eq in C; subst k'. rewrite (assoc_none_lt cmp) by exact Hb. reflexivity.
  - destruct (assoc cmp k l); reflexivity.
  - destruct (assoc cmp k l); reflexivity.
Qed.

End Flip.
