(* StakingHist.v — the model's histories (Chk14.step / model_run): the invariant holds in every
   reachable world, no reachable world can panic (logic panics; arithmetic overflow is the explicit
   exception SOvf), no block update of a reachable world fails, and a block update pays exactly the
   matured entries.  No pinned theorems here. *)
From Verif Require Import Base OMap Bank Dec Staking StakingInv Chk14.
From Coq Require Import Sorted.
Local Open Scope N_scope.

Definition winv (su : setup) (w : world) : Prop := inv (params_of su) (w_now w) (w_st w).

(* worlds reachable from w by successful operations (a failed operation leaves the world as it was) *)
Inductive reach (su : setup) : world -> world -> Prop :=
| reach_refl w : reach su w w
| reach_step w w1 w2 o : reach su w w1 -> step su w1 o = SOk w2 -> reach su w w2.

Lemma init_world_inv su w0 : init_world su = SOk w0 -> winv su w0.
Proof.
  unfold init_world. intros H. inv_bind H as s Hs. injection H as <-. unfold winv. cbn [w_now w_st].
  apply (init_state_inv (su_unbond su) (su_apr su)) in Hs. exact Hs.
Qed.

Lemma step_inv su w o w' : winv su w -> step su w o = SOk w' -> winv su w'.
Proof.
  unfold winv. intros I H. destruct o as [d v a b|d v a b|d v1 v2 a b|d v|d wd|v p|dt]; cbn [step] in H.
  - inv_bind H as s' Hs. injection H as <-. cbn [w_now w_st]. eapply inv_delegate; eassumption.
  - inv_bind H as s' Hs. injection H as <-. cbn [w_now w_st]. eapply inv_undelegate; eassumption.
  - inv_bind H as s' Hs. injection H as <-. cbn [w_now w_st]. eapply inv_redelegate; eassumption.
  - inv_bind H as s' Hs. injection H as <-. cbn [w_now w_st]. eapply inv_withdraw; eassumption.
  - inv_bind H as s' Hs. injection H as <-. cbn [w_now w_st]. eapply inv_set_withdraw; eassumption.
  - inv_bind H as s' Hs. injection H as <-. cbn [w_now w_st]. eapply inv_slash; eassumption.
  - destruct (U64 <=? w_now w + dt); [discriminate|]. inv_bind H as s' Hs. injection H as <-. cbn [w_now w_st].
    eapply inv_process_queue; [exact I|lia|exact Hs].
Qed.

Lemma reach_inv su w w' : winv su w -> reach su w w' -> winv su w'.
Proof. intros I R. induction R as [|w w1 w2 o R IH S]; [exact I|]. eapply step_inv; [apply IH, I|exact S]. Qed.

Lemma sbind_mk_np {A B} (x : sres A) (f : A -> B) : x <> SPanic -> (y <- x ;; SOk (f y)) <> SPanic.
Proof. intros H. apply sbind_not_panic; [exact H|]. discriminate. Qed.

Lemma step_np su w o : winv su w -> step su w o <> SPanic.
Proof.
  unfold winv. intros I. pose proof (inv_stakers _ _ _ I) as Hs. pose proof (inv_last _ _ _ I) as Hl.
  destruct o as [d v a b|d v a b|d v1 v2 a b|d v|d wd|v p|dt]; cbn [step].
  - apply sbind_mk_np, exec_delegate_np; assumption.
  - apply sbind_mk_np, exec_undelegate_np; assumption.
  - apply sbind_mk_np, exec_redelegate_np; assumption.
  - apply sbind_mk_np, exec_withdraw_np; assumption.
  - apply sbind_mk_np, exec_set_withdraw_np.
  - apply sbind_mk_np, exec_slash_np; assumption.
  - destruct (U64 <=? w_now w + dt); [discriminate|]. apply sbind_mk_np, process_queue_np.
Qed.

Lemma advance_ne su w dt : winv su w -> step su w (Advance dt) <> SErr.
Proof.
  unfold winv. intros I. cbn [step]. destruct (U64 <=? w_now w + dt); [discriminate|].
  apply sbind_not_err; [|discriminate]. eapply process_queue_never_fails. exact I.
Qed.

(* the queries of a snapshot do not panic either *)
Lemma rewards_internal_np P now sh comm vi : vi_last vi <= now -> rewards_internal P now sh comm vi <> SPanic.
Proof.
  intros H. unfold rewards_internal. apply sbind_not_panic; [apply calculate_rewards_np, H|]. intros nr _.
  apply sbind_not_panic; [apply share_of_rewards_np|]. intros x _.
  apply sbind_not_panic; [apply dec_add_np|]. discriminate.
Qed.
Lemma q_delegation_np P now s d v : last_ok now s -> q_delegation P now s d v <> SPanic.
Proof.
  intros Hl. unfold q_delegation. destruct (get_val P v); [|discriminate]. destruct (get_vi v s) as [vi|] eqn:G; [|discriminate].
  apply sbind_not_panic; [apply rewards_internal_np, (Hl v vi G)|]. intros r _. destruct (_ =? 0); discriminate.
Qed.
Lemma q_rewards_np P now s d v : last_ok now s -> q_rewards P now s d v <> SPanic.
Proof.
  intros Hl. unfold q_rewards. destruct (get_val P v); [|discriminate]. destruct (get_stake d v s); [|discriminate].
  destruct (get_vi v s) as [vi|] eqn:G; [|discriminate].
  apply sbind_not_panic; [apply rewards_internal_np, (Hl v vi G)|]. discriminate.
Qed.
Lemma smap_np {A B} (f : A -> sres B) l : (forall x, f x <> SPanic) -> smap f l <> SPanic.
Proof.
  intros H. induction l as [|x l IH]; cbn [smap]; [discriminate|].
  apply sbind_not_panic; [apply H|]. intros y _. apply sbind_not_panic; [exact IH|]. discriminate.
Qed.
Lemma model_snap_np su w : winv su w -> model_snap su w <> SPanic.
Proof.
  intros I. pose proof (inv_last _ _ _ I) as Hl. unfold model_snap.
  apply sbind_not_panic; [apply smap_np; intros k; apply q_delegation_np, Hl|]. intros del _.
  apply sbind_not_panic; [apply smap_np; intros k; apply q_rewards_np, Hl|]. discriminate.
Qed.

(* ---------- all histories ---------- *)

Lemma history_no_panic su w0 w o : init_world su = SOk w0 -> reach su w0 w ->
  step su w o <> SPanic /\ model_snap su w <> SPanic.
Proof.
  intros H0 R. pose proof (reach_inv su w0 w (init_world_inv su w0 H0) R) as I.
  split; [apply step_np, I|apply model_snap_np, I].
Qed.

Lemma history_block_update_never_fails su w0 w dt : init_world su = SOk w0 -> reach su w0 w ->
  step su w (Advance dt) <> SErr.
Proof. intros H0 R. apply advance_ne. apply (reach_inv su w0 w (init_world_inv su w0 H0) R). Qed.

(* a block update pays exactly the matured entries: each to its delegator, from the pool, in full;
   nothing else moves; the entries that have not matured stay as they are *)
Lemma advance_pays_due su w dt w' : winv su w -> step su w (Advance dt) = SOk w' ->
  let now' := w_now w + dt in let q := s_queue (w_st w) in
  w_now w' = now' /\
  s_queue (w_st w') = not_due now' q /\
  (forall a, q_balance (w_st w') a = q_balance (w_st w) a + sum_for a (due now' q)) /\
  q_pool (w_st w') + sum_all (due now' q) = q_pool (w_st w) /\
  q_supply (w_st w') = q_supply (w_st w) /\
  (forall d v, disp (w_st w') d v = disp (w_st w) d v) /\
  (forall v, vstake (w_st w') v = vstake (w_st w) v) /\
  s_waddr (w_st w') = s_waddr (w_st w).
Proof.
  unfold winv. intros I H. cbn [step] in H. destruct (U64 <=? w_now w + dt); [discriminate|].
  inv_bind H as s' Hs. injection H as <-. cbn [w_now w_st]. cbn zeta.
  unfold process_queue in Hs. apply process_queue_from_spec in Hs as (Q & W & Dp & Vs & Hw' & Bl & Pl & Su); [|apply (inv_bank _ _ _ I)].
  destruct (sorted_matured (w_now w + dt) _ (inv_sorted _ _ _ I)) as [M1 M2]. rewrite M1 in *. rewrite M2 in *.
  repeat split; assumption.
Qed.

(* what the other operations do to the queue *)
Lemma queue_after su w o w' : winv su w -> step su w o = SOk w' ->
  s_queue (w_st w') =
    match o with
    | Undelegate d v a _ => s_queue (w_st w) ++ [mkUnb d v a (w_now w + su_unbond su * NS)]
    | Slash v p => scale_q v (D18 - p) (s_queue (w_st w))
    | Advance dt => not_due (w_now w + dt) (s_queue (w_st w))
    | _ => s_queue (w_st w)
    end.
Proof.
  intros I H. destruct o as [d v a b|d v a b|d v1 v2 a b|d v|d wd|v p|dt].
  - cbn [step] in H. inv_bind H as s' Hs. injection H as <-. cbn [w_st].
    apply delegate_exact_lemma in Hs; [|apply (inv_bank _ _ _ I)]. apply Hs.
  - cbn [step] in H. inv_bind H as s' Hs. injection H as <-. cbn [w_st].
    apply undelegate_lemma in Hs. apply Hs.
  - cbn [step] in H. inv_bind H as s' Hs. injection H as <-. cbn [w_st].
    apply redelegate_lemma in Hs. apply Hs.
  - cbn [step] in H. inv_bind H as s' Hs. injection H as <-. cbn [w_st].
    apply withdraw_lemma in Hs as (s1 & sh & _ & _ & Hs); [|apply (inv_bank _ _ _ I)]. apply Hs.
  - cbn [step] in H. inv_bind H as s' Hs. injection H as <-. cbn [w_st].
    unfold exec_set_withdraw in Hs. destruct wd as [w1|]; [|discriminate]. destruct (d =? w1); injection Hs as <-; reflexivity.
  - cbn [step] in H. inv_bind H as s' Hs. injection H as <-. cbn [w_st].
    apply slash_spec in Hs as (s1 & vi & _ & _ & _ & _ & Hs); [|apply (inv_stakers _ _ _ I)]. apply Hs.
  - apply advance_pays_due in H; [|exact I]. apply H.
Qed.

(* reachability by computation (for the non-vacuity examples) *)
Fixpoint run_all (su : setup) (w : world) (ops : list op) : option world :=
  match ops with
  | [] => Some w
  | o :: r => match step su w o with SOk w' => run_all su w' r | _ => None end
  end.
Lemma run_all_reach su : forall ops w w', run_all su w ops = Some w' -> reach su w w'.
Proof.
  induction ops as [|o r IH]; intros w w' H; cbn [run_all] in H.
  - injection H as <-. constructor.
  - destruct (step su w o) as [w1| | |] eqn:S; try discriminate.
    assert (G : forall a b, reach su a b -> forall c, reach su b c -> reach su a c).
    { intros a b R1 c R2. induction R2; [exact R1|]. eapply reach_step; [apply IHR2; exact R1|eassumption]. }
    eapply G; [eapply reach_step; [constructor|exact S]|apply IH, H].
Qed.

(* the invalid operations of the property, collected *)
Lemma invalid_ops_fail_lemma su w : winv su w ->
  let P := params_of su in let now := w_now w in let s := w_st w in
  (forall d v a b, a = 0 \/ b = false \/ get_val P v = None -> exec_delegate P now s d v a b = SErr) /\
  (forall d v a b, q_balance s d < a -> not_ok (exec_delegate P now s d v a b)) /\
  (forall d v a b, a = 0 \/ b = false \/ get_val P v = None -> exec_undelegate P now s d v a b = SErr) /\
  (forall d v a b, disp s d v < a -> not_ok (exec_undelegate P now s d v a b)) /\
  (forall d v1 v2 a b, b = false \/ get_val P v1 = None \/ get_val P v2 = None \/ disp s d v1 < a ->
                       not_ok (exec_redelegate P now s d v1 v2 a b)) /\
  (forall v p, D18 < p \/ get_val P v = None -> exec_slash P now s v p = SErr).
Proof.
  intros I. cbn zeta. split; [|split; [|split; [|split; [|split]]]].
  - intros d v a b [H|[H|H]]; [apply delegate_zero_or_foreign_err; auto|apply delegate_zero_or_foreign_err; auto|apply delegate_unknown_err, H].
  - intros d v a b H. apply delegate_invalid_fails; [apply (inv_bank _ _ _ I)|auto].
  - intros d v a b H. apply undelegate_simple_err, H.
  - intros d v a b H. apply undelegate_invalid_fails. auto.
  - intros d v1 v2 a b H. apply redelegate_invalid_fails, H.
  - intros v p H. apply slash_invalid_err, H.
Qed.
