(* ExecOracleQ.v — part 6: the oracles p_c05 and p_c04 (ChkX.v) return None on the model's own step records. *)
From Coq Require Import Sorted.
From Verif Require Import Base OMap Text Proto Bank Exec ExecFacts ExecInv ExecFacts2 ExecIso ChkExec ChkX Registry ExecReg
  ExecOracle ExecOracleM ExecOracleE ExecOracleP ExecOracleF ExecOracleG.
Local Open Scope N_scope.

(* ---------- a successful contract call, taken apart ---------- *)
Lemma run_prog_ok_inv e entry c sender funds rep cid rok p s tr0 ev d s2 :
  run_prog e entry c sender funds rep cid rok p s = (tr0, Ok ((ev, d), s2)) ->
  exists node acts attrs events data sbs co tr_s ev_s,
    p = Prog node acts (OResp attrs events data sbs) /\ verify_response attrs events = None /\
    process_subs e c sbs data (body_st e s node c acts) = (tr_s, Ok ((ev_s, d), s2)) /\
    tr0 = hdr e node entry c sender funds co rep :: body_tr e s node c acts ++ tr_s /\
    ev = base_events c (ep_event entry c cid rok) attrs events ++ ev_s.
Proof.
  destruct p as [node acts out]. intros E.
  destruct (run_prog_cases e entry c sender funds rep cid rok node acts out s)
    as [[_ E1]|[(co & _ & _ & E1)|(co & attrs & events & data & sbs & _ & -> & Hv & E1)]]; rewrite E1 in E; try discriminate.
  destruct (process_subs e c sbs data (body_st e s node c acts)) as [tr_s [[[ev1 d1] s3]| |]] eqn:Es; try discriminate.
  injection E as <- <- <- <-. exists node, acts, attrs, events, data, sbs, co, tr_s, ev1. auto.
Qed.

(* ---------- which sub-message set the data ---------- *)
Definition reply_witness (root : N) (infos : list pinfo) (tr : trace) : Prop :=
  exists en pi, In en tr /\ In pi infos /\ pi_disp pi = Some root /\
                exists c sd f b t rp, en = RCall (pi_node pi) EReply c sd f b t rp.

Lemma reply_witness_mono root i1 i2 t1 t2 : incl i1 i2 -> incl t1 t2 -> reply_witness root i1 t1 -> reply_witness root i2 t2.
Proof. intros I1 I2 (en & pi & A & B & C & D). exists en, pi. auto. Qed.

Lemma sub_reply_witness e c root sb s tr ev d s1 : run_sub e c sb s = (tr, Ok ((ev, d), s1)) ->
  d = None \/ reply_witness root (flat_sub root sb) tr.
Proof.
  destruct sb as [id payload ro m on_ok on_err]. rewrite run_sub_spec. unfold reply_run. cbn [flat_sub]. rewrite !flat_prog_eq.
  destruct (run_msg e c m s) as [t0 [[[ev0 d0] s0]| |]]; try discriminate.
  - destruct (wants_ok ro).
    + destruct (run_prog e EReply c None [] (Some (id, payload, RROk ev0 d0)) 0 true on_ok s0) as [t2 [[[ev2 d2] s2]| |]] eqn:Er;
        intros H; try discriminate. injection H as <- _ _ _.
      destruct (run_prog_ok_inv _ _ _ _ _ _ _ _ _ _ _ _ _ _ Er) as (node & acts & attrs & events & data & sbs & co & tr_s & ev_s & -> & _ & _ & -> & _).
      right. eexists. eexists. split; [apply in_or_app; right; left; reflexivity|].
      split; [apply in_or_app; right; apply in_or_app; left; left; reflexivity|]. split; [reflexivity|].
      cbn [root_info pi_node node_of hdr]. repeat eexists.
    + intros H. injection H as _ _ <- _. left. reflexivity.
  - destruct (wants_err ro); [|discriminate].
    destruct (run_prog e EReply c None [] (Some (id, payload, RRErr)) 0 false on_err s) as [t2 r2] eqn:Er.
    intros H. injection H as <- ->.
    destruct (run_prog_ok_inv _ _ _ _ _ _ _ _ _ _ _ _ _ _ Er) as (node & acts & attrs & events & data & sbs & co & tr_s & ev_s & -> & _ & _ & -> & _).
    right. eexists. eexists. split; [apply in_or_app; right; left; reflexivity|].
    split; [apply in_or_app; right; apply in_or_app; right; left; reflexivity|]. split; [reflexivity|].
    cbn [root_info pi_node node_of hdr]. repeat eexists.
Qed.

Lemma subs_data e c root : forall l data s tr ev d s', process_subs e c l data s = (tr, Ok ((ev, d), s')) ->
  d = data \/ reply_witness root (flat_subs root l) tr.
Proof.
  induction l as [|sb r IH]; intros data s tr ev d s'.
  - cbn. intros H. injection H as _ _ <- _. left. reflexivity.
  - rewrite process_subs_cons. cbn [flat_subs].
    destruct (run_sub e c sb s) as [tr1 [[[ev1 d1] s1]| |]] eqn:E1; try discriminate.
    destruct (process_subs e c r (or_data d1 data) s1) as [tr2 [[[ev2 d2] s2]| |]] eqn:E2; intros H; try discriminate.
    injection H as <- _ <- _.
    destruct (IH _ _ _ _ _ _ E2) as [->|W].
    + destruct (sub_reply_witness e c root sb s tr1 ev1 d1 s1 E1) as [->|W]; [left; reflexivity|].
      right. eapply reply_witness_mono; [apply incl_appl, incl_refl|apply incl_appl, incl_refl|exact W].
    + right. eapply reply_witness_mono; [apply incl_appr, incl_refl|apply incl_appr, incl_refl|exact W].
Qed.

(* ---------- the data fold (C04 clause 10) ---------- *)
Lemma flat_disp_in :
  (forall m dd pi, In pi (flat_msg dd m) ->
     (pi_disp pi = dd /\ pi_ep pi <> EReply) \/ exists d', pi_disp pi = Some d' /\ In d' (nodes_msg m)) /\
  (forall p e0 dd rep f t i pi, In pi (flat_prog e0 dd rep f t i p) ->
     (pi_disp pi = dd /\ pi_ep pi = e0) \/ exists d', pi_disp pi = Some d' /\ In d' (nodes_prog p)) /\
  (forall o0 d pi, In pi (flat_out d o0) -> exists d', pi_disp pi = Some d' /\ (d' = d \/ In d' (nodes_out o0))) /\
  (forall l d pi, In pi (flat_subs d l) -> exists d', pi_disp pi = Some d' /\ (d' = d \/ In d' (nodes_subs l))) /\
  (forall sb d pi, In pi (flat_sub d sb) -> exists d', pi_disp pi = Some d' /\ (d' = d \/ In d' (nodes_sub sb))).
Proof.
  apply exec_mutind; try (intros; cbn [flat_msg flat_out flat_subs In] in *; contradiction).
  - intros c p IH funds dd pi Hi. destruct (IH _ _ _ _ _ _ _ Hi) as [[A B]|H]; [left; split; [exact A|rewrite B; discriminate]|right; exact H].
  - intros cid p IH funds label admin salt dd pi Hi.
    destruct (IH _ _ _ _ _ _ _ Hi) as [[A B]|H]; [left; split; [exact A|rewrite B; discriminate]|right; exact H].
  - intros c nc p IH dd pi Hi. destruct (IH _ _ _ _ _ _ _ Hi) as [[A B]|H]; [left; split; [exact A|rewrite B; discriminate]|right; exact H].
  - intros node acts o0 IH e0 dd rep f t i pi Hi. cbn [flat_prog] in Hi. fold (flat_out node o0) in Hi.
    cbn [nodes_prog]. fold (nodes_out o0). destruct Hi as [<-|Hi]; [left; split; reflexivity|]. right.
    destruct (IH node pi Hi) as (d' & A & [B|B]); exists d'; (split; [exact A|]); [left; symmetry; exact B|right; exact B].
  - intros attrs events data sbs IH d pi Hi. exact (IH d pi Hi).
  - intros sb IH r IHr d pi Hi. cbn [flat_subs nodes_subs] in *. apply in_app_or in Hi as [Hi|Hi].
    + destruct (IH d pi Hi) as (d' & A & [B|B]); exists d'; (split; [exact A|]); [left; exact B|right; apply in_or_app; left; exact B].
    + destruct (IHr d pi Hi) as (d' & A & [B|B]); exists d'; (split; [exact A|]); [left; exact B|right; apply in_or_app; right; exact B].
  - intros id payload ro m IHm on_ok IHok on_err IHerr d pi Hi. cbn [flat_sub nodes_sub] in *.
    apply in_app_or in Hi as [Hi|Hi]; [|apply in_app_or in Hi as [Hi|Hi]].
    + destruct (IHm (Some d) pi Hi) as [[A _]|(d' & A & B)]; [exists d; auto|].
      exists d'. split; [exact A|]. right. apply in_or_app. left. exact B.
    + destruct (IHok _ _ _ _ _ _ _ Hi) as [[A _]|(d' & A & B)]; [exists d; auto|].
      exists d'. split; [exact A|]. right. apply in_or_app. right. apply in_or_app. left. exact B.
    + destruct (IHerr _ _ _ _ _ _ _ Hi) as [[A _]|(d' & A & B)]; [exists d; auto|].
      exists d'. split; [exact A|]. right. apply in_or_app. right. apply in_or_app. right. exact B.
Qed.

Lemma flat_map_nil {A B} (f : A -> list B) l : (forall x, In x l -> f x = []) -> flat_map f l = [].
Proof.
  induction l as [|x l IH]; intros H; [reflexivity|]. cbn [flat_map]. rewrite (H x (or_introl eq_refl)).
  apply IH. intros y Hy. apply H. right. exact Hy.
Qed.
Lemma dr_app infos root a b : direct_replies infos root (a ++ b) = direct_replies infos root a ++ direct_replies infos root b.
Proof. apply flat_map_app. Qed.
Lemma dr_no_calls infos root tr : Forall not_call tr -> direct_replies infos root tr = [].
Proof.
  intros H. apply flat_map_nil. intros en Hen. rewrite Forall_forall in H. specialize (H en Hen).
  destruct en; cbn in H; try contradiction; reflexivity.
Qed.

(* nothing logged inside a sub-message is a reply to a DIRECT sub-message of the dispatcher *)
Lemma msg_no_direct e infos root c m s : NoDup (map pi_node infos) -> incl (flat_msg (Some root) m) infos ->
  ~ In root (nodes_msg m) -> direct_replies infos root (trc (run_msg e c m s)) = [].
Proof.
  intros Hn Hi Hr. apply flat_map_nil. intros en Hen.
  pose proof (proj1 (exec_entries e) m c s (Some root)) as A. unfold all_ok in A. rewrite Forall_forall in A. specialize (A en Hen).
  destruct en as [n ep c1 sd f b t rp| | |]; try reflexivity. destruct ep; try reflexivity.
  cbn [entry_ok] in A. destruct A as (pi & Hpi & Hnode & Hep & _).
  pose proof (find_info_unique _ _ Hn (Hi pi Hpi)) as Fi. rewrite Hnode in Fi. rewrite Fi.
  destruct (proj1 flat_disp_in m (Some root) pi Hpi) as [[_ B]|(d' & A & B)]; [contradiction|].
  rewrite A. cbn. destruct (d' =? root) eqn:E; [|reflexivity]. apply N.eqb_eq in E. subst. contradiction.
Qed.

Definition dfold (reps : list prog) (acc : option bytes) : option bytes :=
  fold_left (fun acc q => or_data (own_data q) acc) reps acc.

(* a reply handler that ran to completion for a direct sub-message of [root] *)
Lemma reply_fold e c infos root pr rep' inside res rok s tr0 ev d s2 :
  NoDup (map pi_node infos) -> In (root_info EReply (Some root) rep' [] None inside pr) infos ->
  run_prog e EReply c None [] res 0 rok pr s = (tr0, Ok ((ev, d), s2)) ->
  forallb prog_leaf (direct_replies infos root tr0) = true ->
  forall acc, dfold (direct_replies infos root tr0) acc = or_data d acc.
Proof.
  intros Hn Hi E.
  destruct (run_prog_ok_inv _ _ _ _ _ _ _ _ _ _ _ _ _ _ E) as (node & acts & attrs & events & data & sbs & co & tr_s & ev_s & -> & _ & Es & -> & _).
  pose proof (find_info_unique _ _ Hn Hi) as Fi. cbn [root_info pi_node node_of] in Fi.
  assert (Eh : direct_replies infos root [hdr e node EReply c None [] co res] = [Prog node acts (OResp attrs events data sbs)]).
  { cbn [direct_replies flat_map hdr]. rewrite Fi. cbn [pi_disp pi_prog root_info option_eqb]. rewrite N.eqb_refl. reflexivity. }
  change (hdr e node EReply c None [] co res :: body_tr e s node c acts ++ tr_s)
    with ([hdr e node EReply c None [] co res] ++ body_tr e s node c acts ++ tr_s).
  rewrite !dr_app, Eh. rewrite (dr_no_calls infos root (body_tr e s node c acts)) by apply actions_no_calls.
  cbn [app forallb prog_leaf]. destruct sbs; [|discriminate]. cbn in Es. injection Es as <- _ <- _. intros _ acc. reflexivity.
Qed.

Lemma sub_fold e c infos root sb s tr ev d s1 : NoDup (map pi_node infos) -> incl (flat_sub root sb) infos ->
  ~ In root (nodes_sub sb) -> run_sub e c sb s = (tr, Ok ((ev, d), s1)) ->
  forallb prog_leaf (direct_replies infos root tr) = true ->
  forall acc, dfold (direct_replies infos root tr) acc = or_data d acc.
Proof.
  destruct sb as [id payload ro m on_ok on_err]. intros Hn Hi Hr. cbn [flat_sub nodes_sub] in *. rewrite !flat_prog_eq in Hi.
  assert (Hm : direct_replies infos root (trc (run_msg e c m s)) = []).
  { apply msg_no_direct; [exact Hn| |].
    - intros x Hx. apply Hi. apply in_or_app. left. exact Hx.
    - intros Hx. apply Hr. apply in_or_app. left. exact Hx. }
  rewrite run_sub_spec. unfold reply_run.
  destruct (run_msg e c m s) as [t0 [[[ev0 d0] s0]| |]]; cbn [trc fst] in Hm; try discriminate.
  - destruct (wants_ok ro).
    + destruct (run_prog e EReply c None [] (Some (id, payload, RROk ev0 d0)) 0 true on_ok s0) as [t2 [[[ev2 d2] s2]| |]] eqn:Er;
        intros H; try discriminate. injection H as <- _ <- _. rewrite dr_app, Hm. cbn [app].
      eapply reply_fold; [exact Hn| |exact Er]. apply Hi. apply in_or_app. right. apply in_or_app. left. left. reflexivity.
    + intros H. injection H as <- _ <- _. rewrite Hm. intros _ acc. reflexivity.
  - destruct (wants_err ro); [|discriminate].
    destruct (run_prog e EReply c None [] (Some (id, payload, RRErr)) 0 false on_err s) as [t2 r2] eqn:Er.
    intros H. injection H as <- ->. rewrite dr_app, Hm. cbn [app].
    eapply reply_fold; [exact Hn| |exact Er]. apply Hi. apply in_or_app. right. apply in_or_app. right. left. reflexivity.
Qed.

Lemma subs_fold e c infos root : forall l data s tr ev d s', NoDup (map pi_node infos) -> incl (flat_subs root l) infos ->
  ~ In root (nodes_subs l) -> process_subs e c l data s = (tr, Ok ((ev, d), s')) ->
  forallb prog_leaf (direct_replies infos root tr) = true -> d = dfold (direct_replies infos root tr) data.
Proof.
  induction l as [|sb r IH]; intros data s tr ev d s' Hn Hi Hr.
  - cbn. intros H. injection H as <- _ <- _. reflexivity.
  - rewrite process_subs_cons. cbn [flat_subs nodes_subs] in *.
    destruct (run_sub e c sb s) as [tr1 [[[ev1 d1] s1]| |]] eqn:E1; try discriminate.
    destruct (process_subs e c r (or_data d1 data) s1) as [tr2 [[[ev2 d2] s2]| |]] eqn:E2; intros H; try discriminate.
    injection H as <- _ <- _. rewrite dr_app, forallb_app. intros Hl. apply andb_true_iff in Hl as [Hl1 Hl2].
    unfold dfold. rewrite fold_left_app. fold (dfold (direct_replies infos root tr1) data).
    rewrite (sub_fold e c infos root sb s tr1 ev1 d1 s1 Hn); [| |intros Hx; apply Hr; apply in_or_app; left; exact Hx|exact E1|exact Hl1].
    + refine (IH _ _ _ _ _ _ Hn _ _ E2 Hl2); [|intros Hx; apply Hr; apply in_or_app; right; exact Hx].
      intros x Hx. apply Hi. apply in_or_app. right. exact Hx.
    + intros x Hx. apply Hi. apply in_or_app. left. exact Hx.
Qed.

Section Step.
Variable ce : case_env.
Variable st : step.
Variable s : chain.
Let e := mk_env ce (st_blk st).
Let op := st_op st.
Let tr := top_trace (run_top e op s).
Let o := top_outcome (run_top e op s).
Let s' := top_state (run_top e op s).
Hypothesis Hpre : step_pre s op.
Let Hw : wf_op op := proj1 (proj2 Hpre).

Lemma q_mse : model_step ce st s =
  {| st_blk := st_blk st; st_op := op; st_trace := tr; st_outcome := o; st_state := s'; st_other := 0; st_raw_same := chain_eqb s s' |}.
Proof. exact (model_step_eq ce st s). Qed.
Lemma q_fi : forall pi, In pi (flat_op op) -> find_info (pi_node pi) (flat_op op) = Some pi.
Proof. intros pi H. exact (find_info_unique _ _ (Hni st s Hpre) H). Qed.
Lemma q_hnc : NoDup (call_nodes tr).
Proof. exact (Hnc ce st s Hpre). Qed.
Lemma q_entry : forall en, In en tr -> entry_ok None (top_sender op) (flat_op op) (calls tr) en.
Proof. exact (entry_of ce st s). Qed.

(* ---------- C05 ---------- *)
Lemma c05_returned :
  forallb (fun en =>
     match en with
     | RCall n EReply c _ _ _ _ (Some (_, _, RRErr)) =>
         match find_info n (flat_op op) with
         | Some pi =>
             match pi_disp pi with
             | Some d =>
                 match find_info d (flat_op op) with
                 | Some pd =>
                     match first_sub_err (pi_prog pd), probe_of (pi_prog pd) with
                     | Some q, Some (a, den) =>
                         negb ((prog_node q =? n) && teqb a c &&
                               match probe_of q with Some (a', den') => teqb a' a && teqb den' den | None => false end)
                         || match first_amount d tr, first_amount n tr with
                            | Some b1, Some b2 => b1 =? b2
                            | _, _ => true end
                     | _, _ => true end
                 | None => true end
             | None => true end
         | None => true end
     | _ => true
     end) tr = true.
Proof.
  apply forallb_forall. intros en Hen. pose proof (q_entry en Hen) as A.
  destruct en as [n ep c sender funds b tag rep| | |]; try reflexivity. destruct ep; try reflexivity.
  destruct rep as [[[id pl] res]|]; try reflexivity. destruct res; try reflexivity.
  destruct (find_info n (flat_op op)) as [pi|] eqn:Fi; [|reflexivity]. destruct (pi_disp pi) as [d|] eqn:Ed; [|reflexivity].
  destruct (find_info d (flat_op op)) as [pd|] eqn:Fd; [|reflexivity].
  destruct (first_sub_err (pi_prog pd)) as [q|] eqn:Eq; [|reflexivity].
  destruct (probe_of (pi_prog pd)) as [[a den]|] eqn:Ep; [|reflexivity].
  destruct ((prog_node q =? n) && teqb a c &&
            match probe_of q with Some (a', den') => teqb a' a && teqb den' den | None => false end) eqn:Ec; [|reflexivity].
  cbn [negb orb]. apply andb_true_iff in Ec as [Ec Ec3]. apply andb_true_iff in Ec as [Ec1 Ec2].
  apply N.eqb_eq in Ec1. apply teqb_eq in Ec2. subst a.
  destruct (probe_of q) as [[a' den']|] eqn:Epq; [|discriminate]. apply andb_true_iff in Ec3 as [E3 E4].
  apply teqb_eq in E3. apply teqb_eq in E4. subst a' den'.
  destruct (first_amount d tr) as [b1|] eqn:E1; [|reflexivity]. destruct (first_amount n tr) as [b2|] eqn:E2; [|reflexivity].
  apply N.eqb_eq. destruct (first_amount_inv _ _ _ E1) as (rest1 & A1). destruct (first_amount_inv _ _ _ E2) as (rest2 & A2).
  (* the dispatcher ran at c *)
  cbn [entry_ok] in A. destruct A as (pi0 & Hi0 & Hn0 & _ & _ & _ & _ & _ & (d0 & Hd0 & Hdd)).
  pose proof (q_fi pi0 Hi0) as Fi0. rewrite Hn0, Fi in Fi0. injection Fi0 as <-. rewrite Ed in Hd0. injection Hd0 as <-.
  destruct Hdd as [[Hx _]|Hdd]; [discriminate|]. destruct (calls_find tr d c q_hnc Hdd) as (pen & Fpen & Ecal).
  destruct (find_info_in _ _ _ Fd) as [Hipd Hnpd].
  pose proof (top_G e op s Hw (Hn st s Hpre) (pi_prog pd) (flat_op_prog_in op pd Hipd)) as [_ HRp]. fold tr in HRp.
  pose proof (flat_op_node_of op pd Hipd) as Enode. rewrite Hnpd in Enode.
  assert (Hfn : find_call (prog_node q) tr = Some (RCall n EReply c sender funds b tag (Some (id, pl, RRErr)))).
  { rewrite Ec1. apply find_call_unique; [exact q_hnc|exact Hen|reflexivity]. }
  unfold Rp in HRp. rewrite Enode in HRp.
  destruct (HRp q den b1 rest1 pen Eq Fpen) with (en_n := RCall n EReply c sender funds b tag (Some (id, pl, RRErr))) as (r2 & A3);
    try (rewrite Ecal; assumption); try assumption; try exact I.
  rewrite Ec1, A2 in A3. injection A3 as ->. reflexivity.
Qed.

Lemma p_c05_model : bank_wf (bank s) -> p_c05 (model_step ce st s) = None.
Proof.
  intros Hb. rewrite model_step_eq. unfold p_c05. apply first_fail_all_true.
  cbn [st_op st_trace st_blk forallb snd].
  repeat (apply andb_true_iff; split); try reflexivity.
  - exact (c05_block ce st s).
  - exact (c05_entries ce st s Hpre).
  - apply forallb_forall. intros en Hen.
    destruct en as [n ep c sender funds b tag rep| | |]; try reflexivity. destruct ep; try reflexivity.
    destruct funds as [|f0 fr]; [reflexivity|].
    pose proof (after_call_suffix _ _ (proj1 (top_probe e op s Hw Hb)) (Hnc ce st s Hpre) _ n Hen eq_refl) as P.
    cbn [probe_ok] in P. destruct (P ltac:(discriminate)) as (pi & Hi & Hnode & Hp).
    pose proof (find_info_unique _ _ (Hni st s Hpre) Hi) as Fi. rewrite Hnode in Fi. rewrite Fi.
    destruct (probe_of (pi_prog pi)) as [[a d]|] eqn:Epr; [|reflexivity].
    destruct (teqb a c) eqn:Ea; [|reflexivity]. cbn [negb orb]. apply teqb_eq in Ea. subst a.
    destruct (Hp d eq_refl) as (b0 & rest & Eac & Hle). unfold e, op in Eac. rewrite Eac, N.eqb_refl. cbn [negb orb].
    apply N.leb_le. exact Hle.
  - exact c05_returned.
Qed.

(* ---------- C04 ---------- *)
Lemma p_c04_model : p_c04 (model_step ce st s) = None.
Proof.
  rewrite q_mse. unfold p_c04. apply first_fail_all_true.
  cbn [st_op st_trace st_outcome forallb snd].
  repeat (apply andb_true_iff; split); try reflexivity.
  - (* 5 *) destruct o as [rs| |] eqn:Eo; try reflexivity. destruct rs as [|[ev d] [|]]; try reflexivity.
    destruct op as [sd ms|sd m|c p|to amt|sd m|sd m] eqn:Eop; try reflexivity.
    + destruct m; try reflexivity.
      * destruct (texec_call_ok e sd (MExec c p funds) p s _ eq_refl Eo) as (c0 & ev0 & d0 & s1 & s2 & _ & Ht & Er & E1 & _).
        specialize (Ht c eq_refl). subst c0. injection E1 as -> _.
        destruct (run_prog_ok_inv _ _ _ _ _ _ _ _ _ _ _ _ _ _ Er) as (node & acts & attrs & events & data & sbs & co & tr_s & ev_s & -> & _ & _ & _ & ->).
        apply is_prefix_ev_app.
      * destruct (texec_call_ok e sd (MMigrate c new_code p) p s _ eq_refl Eo) as (c0 & ev0 & d0 & s1 & s2 & _ & Ht & Er & E1 & _).
        specialize (Ht c eq_refl). subst c0. injection E1 as -> _.
        destruct (run_prog_ok_inv _ _ _ _ _ _ _ _ _ _ _ _ _ _ Er) as (node & acts & attrs & events & data & sbs & co & tr_s & ev_s & -> & _ & _ & _ & ->).
        apply is_prefix_ev_app.
    + destruct (tsudo_ok e c p s _ Eo) as (ev0 & d0 & s2 & Er & E1 & _). injection E1 as -> _.
      destruct (run_prog_ok_inv _ _ _ _ _ _ _ _ _ _ _ _ _ _ Er) as (node & acts & attrs & events & data & sbs & co & tr_s & ev_s & -> & _ & _ & _ & ->).
      apply is_prefix_ev_app.
  - (* 6 *) destruct o as [rs| |] eqn:Eo; try reflexivity. destruct rs as [|[ev d] [|]]; try reflexivity.
    destruct op as [sd ms|sd m|c p|to amt|sd m|sd m] eqn:Eop; try reflexivity.
    + destruct m; try reflexivity.
      * destruct (texec_call_ok e sd (MExec c p funds) p s _ eq_refl Eo) as (c0 & ev0 & d0 & s1 & s2 & _ & Ht & Er & E1 & _).
        specialize (Ht c eq_refl). subst c0. injection E1 as -> ->.
        destruct (run_prog_ok_inv _ _ _ _ _ _ _ _ _ _ _ _ _ _ Er) as (node & acts & attrs & events & data & sbs & co & tr_s & ev_s & -> & _ & Es & _ & ->).
        destruct sbs; [|reflexivity]. cbn in Es. injection Es as _ <- <- _.
        cbn [prog_leaf negb orb leaf_events own_data msg_data]. rewrite app_nil_r, events_eqb_refl, obytes_eqb_refl. reflexivity.
      * destruct (texec_call_ok e sd (MMigrate c new_code p) p s _ eq_refl Eo) as (c0 & ev0 & d0 & s1 & s2 & _ & Ht & Er & E1 & _).
        specialize (Ht c eq_refl). subst c0. injection E1 as -> ->.
        destruct (run_prog_ok_inv _ _ _ _ _ _ _ _ _ _ _ _ _ _ Er) as (node & acts & attrs & events & data & sbs & co & tr_s & ev_s & -> & _ & Es & _ & ->).
        destruct sbs; [|reflexivity]. cbn in Es. injection Es as _ <- <- _.
        cbn [prog_leaf negb orb leaf_events own_data msg_data msg_entry msg_cid]. rewrite app_nil_r, events_eqb_refl, obytes_eqb_refl. reflexivity.
    + destruct (tsudo_ok e c p s _ Eo) as (ev0 & d0 & s2 & Er & E1 & _). injection E1 as -> ->.
      destruct (run_prog_ok_inv _ _ _ _ _ _ _ _ _ _ _ _ _ _ Er) as (node & acts & attrs & events & data & sbs & co & tr_s & ev_s & -> & _ & Es & _ & ->).
      destruct sbs; [|reflexivity]. cbn in Es. injection Es as _ <- <- _.
      cbn [prog_leaf negb orb leaf_events own_data]. rewrite app_nil_r, events_eqb_refl, obytes_eqb_refl. reflexivity.
  - (* 7 *) destruct o as [rs| |] eqn:Eo; try reflexivity. destruct rs as [|[ev d] [|]]; try reflexivity.
    destruct op as [sd ms|sd m|c p|to amt|sd m|sd m] eqn:Eop; try reflexivity. destruct m; try reflexivity.
    destruct (texec_call_ok e sd (MInst code_id p funds label admin salt) p s _ eq_refl Eo)
      as (a & ev0 & d0 & s1 & s2 & _ & _ & Er & E1 & _). injection E1 as -> ->.
    destruct (run_prog_ok_inv _ _ _ _ _ _ _ _ _ _ _ _ _ _ Er) as (node & acts & attrs & events & data & sbs & co & tr_s & ev_s & -> & _ & Es & Et & ->).
    destruct sbs; [|reflexivity]. cbn in Es. injection Es as _ <- <- _.
    cbn [prog_leaf negb orb]. fold tr in Et. rewrite Et. cbn [find_call hdr call_node]. rewrite N.eqb_refl. cbn [callee_of].
    cbn [leaf_events own_data msg_data msg_entry msg_cid]. rewrite app_nil_r, events_eqb_refl, obytes_eqb_refl. reflexivity.
  - (* 8 *) apply forallb_forall. intros en Hen. pose proof (q_entry en Hen) as A.
    destruct en as [n ep c sender funds b tag rep| | |]; try reflexivity.
    destruct ep; try reflexivity. destruct rep as [[[id pl] res]|]; try reflexivity. destruct res as [ev dd|]; try reflexivity.
    cbn [entry_ok] in A. destruct A as (pi & Hi & Hnode & Hep & Ht & Hmm).
    pose proof (q_fi pi Hi) as Fi. rewrite Hnode in Fi. rewrite Fi.
    destruct Hmm as (_ & _ & (id' & pl' & res' & ro & okb & Er & Hr & Hres & Hcont) & _).
    injection Er as <- <- <-. cbn [reply_content] in Hcont.
    destruct (pi_inside pi) as [|n' [|]] eqn:Ein; try reflexivity.
    destruct (Hcont n' eq_refl) as (pi' & c' & Hi' & Hn' & Hc' & Hl).
    pose proof (q_fi pi' Hi') as Fi'. rewrite Hn' in Fi'. rewrite Fi'.
    destruct (calls_find _ n' c' q_hnc Hc') as (pen & Fc & <-). rewrite Fc.
    destruct (prog_leaf (pi_prog pi')) eqn:El; [|reflexivity]. cbn [negb orb].
    destruct (pi_ep pi') eqn:Ee; try reflexivity. destruct (Hl eq_refl eq_refl) as [-> ->].
    rewrite events_eqb_refl, obytes_eqb_refl. reflexivity.
  - (* 9 *) destruct o as [rs| |] eqn:Eo; try reflexivity. destruct rs as [|[ev d] [|]]; try reflexivity.
    assert (Hwit : forall root infos, reply_witness root infos tr -> incl infos (flat_op op) ->
              direct_reply_ran (flat_op op) root tr = true).
    { intros root infos (en & pi & A & B & C & (c1 & sd1 & f1 & b1 & t1 & rp1 & ->)) I.
      apply existsb_exists. eexists. split; [exact A|].
      cbv beta iota. rewrite (q_fi pi (I pi B)), C. cbn. apply N.eqb_refl. }
    destruct op as [sd ms|sd m|c p|to amt|sd m|sd m] eqn:Eop; try reflexivity.
    + destruct m; try reflexivity.
      * destruct (texec_call_ok e sd (MExec c p funds) p s _ eq_refl Eo) as (c0 & ev0 & d0 & s1 & s2 & _ & Ht & Er & E1 & _).
        specialize (Ht c eq_refl). subst c0. injection E1 as -> ->.
        destruct (run_prog_ok_inv _ _ _ _ _ _ _ _ _ _ _ _ _ _ Er) as (node & acts & attrs & events & data & sbs & co & tr_s & ev_s & -> & _ & Es & Et & ->).
        destruct (subs_data e c node sbs data _ _ _ _ _ Es) as [->|W].
        -- cbn [own_data msg_data]. rewrite obytes_eqb_refl. apply orb_true_r.
        -- rewrite (Hwit node (flat_subs node sbs)); [reflexivity| |].
           ++ fold tr in Et. rewrite Et. eapply reply_witness_mono; [apply incl_refl| |exact W].
              intros x Hx. right. apply in_or_app. right. exact Hx.
           ++ cbn [flat_op top_msgs flat_map flat_msg flat_prog]. intros x Hx. apply in_or_app. left. right. exact Hx.
      * destruct (texec_call_ok e sd (MMigrate c new_code p) p s _ eq_refl Eo) as (c0 & ev0 & d0 & s1 & s2 & _ & Ht & Er & E1 & _).
        specialize (Ht c eq_refl). subst c0. injection E1 as -> ->.
        destruct (run_prog_ok_inv _ _ _ _ _ _ _ _ _ _ _ _ _ _ Er) as (node & acts & attrs & events & data & sbs & co & tr_s & ev_s & -> & _ & Es & Et & ->).
        destruct (subs_data e c node sbs data _ _ _ _ _ Es) as [->|W].
        -- cbn [own_data msg_data]. rewrite obytes_eqb_refl. apply orb_true_r.
        -- rewrite (Hwit node (flat_subs node sbs)); [reflexivity| |].
           ++ fold tr in Et. rewrite Et. eapply reply_witness_mono; [apply incl_refl| |exact W].
              intros x Hx. right. apply in_or_app. right. exact Hx.
           ++ cbn [flat_op top_msgs flat_map flat_msg flat_prog]. intros x Hx. apply in_or_app. left. right. exact Hx.
    + destruct (tsudo_ok e c p s _ Eo) as (ev0 & d0 & s2 & Er & E1 & _). injection E1 as -> ->.
      destruct (run_prog_ok_inv _ _ _ _ _ _ _ _ _ _ _ _ _ _ Er) as (node & acts & attrs & events & data & sbs & co & tr_s & ev_s & -> & _ & Es & Et & ->).
      destruct (subs_data e c node sbs data _ _ _ _ _ Es) as [->|W].
      * cbn [own_data]. rewrite obytes_eqb_refl. apply orb_true_r.
      * rewrite (Hwit node (flat_subs node sbs)); [reflexivity| |].
        -- fold tr in Et. rewrite Et. eapply reply_witness_mono; [apply incl_refl| |exact W].
           intros x Hx. right. apply in_or_app. right. exact Hx.
        -- cbn [flat_op flat_prog]. intros x Hx. right. exact Hx.
  - (* 10 *) destruct o as [rs| |] eqn:Eo; try reflexivity. destruct rs as [|[ev d] [|]]; try reflexivity.
    pose proof (Hni st s Hpre) as Hu. pose proof (Hn st s Hpre) as Hnn. fold op in Hu, Hnn.
    destruct op as [sd ms|sd m|c p|to amt|sd m|sd m] eqn:Eop; try reflexivity.
    + destruct m; try reflexivity.
      * destruct (texec_call_ok e sd (MExec c p funds) p s _ eq_refl Eo) as (c0 & ev0 & d0 & s1 & s2 & _ & Ht & Er & E1 & _).
        specialize (Ht c eq_refl). subst c0. injection E1 as -> ->.
        destruct (run_prog_ok_inv _ _ _ _ _ _ _ _ _ _ _ _ _ _ Er) as (node & acts & attrs & events & data & sbs & co & tr_s & ev_s & -> & _ & Es & Et & ->).
        fold tr in Et. rewrite Et.
        change (hdr e node (msg_entry (MExec c (Prog node acts (OResp attrs events data sbs)) funds)) c
                  (msg_sender (MExec c (Prog node acts (OResp attrs events data sbs)) funds) sd)
                  (msg_funds (MExec c (Prog node acts (OResp attrs events data sbs)) funds)) co None :: body_tr e s1 node c acts ++ tr_s)
          with ([hdr e node EExec c (Some sd) funds co None] ++ body_tr e s1 node c acts ++ tr_s).
        rewrite !dr_app. rewrite (dr_no_calls _ node (body_tr e s1 node c acts)) by apply actions_no_calls.
        cbn [direct_replies flat_map hdr app].
        destruct (forallb prog_leaf (direct_replies (flat_op (TExec sd (MExec c (Prog node acts (OResp attrs events data sbs)) funds))) node tr_s)) eqn:El;
          [|reflexivity]. cbn [negb orb].
        assert (HI : incl (flat_subs node sbs) (flat_op (TExec sd (MExec c (Prog node acts (OResp attrs events data sbs)) funds)))).
        { cbn [flat_op top_msgs flat_map flat_msg flat_prog]. intros x Hx. apply in_or_app. left. right. exact Hx. }
        assert (HR : ~ In node (nodes_subs sbs)).
        { cbn [nodes_op top_msgs flat_map nodes_msg nodes_prog] in Hnn. rewrite app_nil_r in Hnn. inversion Hnn; assumption. }
        rewrite (subs_fold e c _ node sbs data _ _ _ _ _ Hu HI HR Es El).
        cbn [own_data msg_data]. apply obytes_eqb_refl.
      * destruct (texec_call_ok e sd (MMigrate c new_code p) p s _ eq_refl Eo) as (c0 & ev0 & d0 & s1 & s2 & _ & Ht & Er & E1 & _).
        specialize (Ht c eq_refl). subst c0. injection E1 as -> ->.
        destruct (run_prog_ok_inv _ _ _ _ _ _ _ _ _ _ _ _ _ _ Er) as (node & acts & attrs & events & data & sbs & co & tr_s & ev_s & -> & _ & Es & Et & ->).
        fold tr in Et. rewrite Et.
        change (hdr e node (msg_entry (MMigrate c new_code (Prog node acts (OResp attrs events data sbs)))) c
                  (msg_sender (MMigrate c new_code (Prog node acts (OResp attrs events data sbs))) sd)
                  (msg_funds (MMigrate c new_code (Prog node acts (OResp attrs events data sbs)))) co None :: body_tr e s1 node c acts ++ tr_s)
          with ([hdr e node EMigrate c None [] co None] ++ body_tr e s1 node c acts ++ tr_s).
        rewrite !dr_app. rewrite (dr_no_calls _ node (body_tr e s1 node c acts)) by apply actions_no_calls.
        cbn [direct_replies flat_map hdr app].
        destruct (forallb prog_leaf (direct_replies (flat_op (TExec sd (MMigrate c new_code (Prog node acts (OResp attrs events data sbs))))) node tr_s)) eqn:El;
          [|reflexivity]. cbn [negb orb].
        assert (HI : incl (flat_subs node sbs) (flat_op (TExec sd (MMigrate c new_code (Prog node acts (OResp attrs events data sbs)))))).
        { cbn [flat_op top_msgs flat_map flat_msg flat_prog]. intros x Hx. apply in_or_app. left. right. exact Hx. }
        assert (HR : ~ In node (nodes_subs sbs)).
        { cbn [nodes_op top_msgs flat_map nodes_msg nodes_prog] in Hnn. rewrite app_nil_r in Hnn. inversion Hnn; assumption. }
        rewrite (subs_fold e c _ node sbs data _ _ _ _ _ Hu HI HR Es El).
        cbn [own_data msg_data]. apply obytes_eqb_refl.
    + destruct (tsudo_ok e c p s _ Eo) as (ev0 & d0 & s2 & Er & E1 & _). injection E1 as -> ->.
      destruct (run_prog_ok_inv _ _ _ _ _ _ _ _ _ _ _ _ _ _ Er) as (node & acts & attrs & events & data & sbs & co & tr_s & ev_s & -> & _ & Es & Et & ->).
      fold tr in Et. rewrite Et.
      change (hdr e node ESudo c None [] co None :: body_tr e s node c acts ++ tr_s)
        with ([hdr e node ESudo c None [] co None] ++ body_tr e s node c acts ++ tr_s).
      rewrite !dr_app. rewrite (dr_no_calls _ node (body_tr e s node c acts)) by apply actions_no_calls.
      cbn [direct_replies flat_map hdr app].
      destruct (forallb prog_leaf (direct_replies (flat_op (TWasmSudo c (Prog node acts (OResp attrs events data sbs)))) node tr_s)) eqn:El;
        [|reflexivity]. cbn [negb orb].
      assert (HI : incl (flat_subs node sbs) (flat_op (TWasmSudo c (Prog node acts (OResp attrs events data sbs))))).
      { cbn [flat_op flat_prog]. intros x Hx. right. exact Hx. }
      assert (HR : ~ In node (nodes_subs sbs)).
      { cbn [nodes_op nodes_prog] in Hnn. inversion Hnn; assumption. }
      rewrite (subs_fold e c _ node sbs data _ _ _ _ _ Hu HI HR Es El).
      cbn [own_data]. apply obytes_eqb_refl.
Qed.
End Step.
