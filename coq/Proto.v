(* Proto.v — the two protobuf messages of wasm.rs (ExecuteResponse, InstantiateResponse) as prost
   encodes them (default-valued fields are omitted), and decimal printing used in events. *)
From Verif Require Import Base.
Local Open Scope N_scope.

Fixpoint varint_fuel (fuel : nat) (n : N) : bytes :=
  match fuel with
  | O => []
  | S f => if n <? 128 then [n] else (n mod 128 + 128) :: varint_fuel f (n / 128)
  end.
Definition varint (n : N) : bytes := varint_fuel 19 n.

Definition blen (b : bytes) : N := N.of_nat (length b).

Definition field_bytes (tag : N) (b : bytes) : bytes :=
  match b with [] => [] | _ => tag :: varint (blen b) ++ b end.

(* wasm.rs:1333-1346 encode_response_data (on Some d) *)
Definition encode_exec_resp (d : bytes) : bytes := field_bytes 10 d.
(* wasm.rs:1312-1323 instantiate_response *)
Definition encode_inst_resp (addr : text) (d : bytes) : bytes := field_bytes 10 addr ++ field_bytes 18 d.

(* u64 / u128 `to_string()` *)
Fixpoint dec_fuel (fuel : nat) (n : N) (acc : text) : text :=
  match fuel with
  | O => acc
  | S f => let acc' := (48 + n mod 10) :: acc in
           if n <? 10 then acc' else dec_fuel f (n / 10) acc'
  end.
Definition dec (n : N) : text := dec_fuel 45 n [].

Example dec_examples : dec 0 = [48] /\ dec 10 = [49; 48] /\ dec 907 = [57; 48; 55].
Proof. vm_compute. auto. Qed.
Example varint_examples : varint 1 = [1] /\ varint 300 = [172; 2].
Proof. vm_compute. auto. Qed.

(* ---------- the cw-utils parsers used by the Executor helpers (parse_reply.rs) ---------- *)
Fixpoint unvarint_fuel (fuel : nat) (b : bytes) (shift : N) (acc : N) : option (N * bytes) :=
  match fuel with
  | O => None
  | S f =>
      match b with
      | [] => None
      | x :: r => if x <? 128 then Some (acc + x * 2 ^ shift, r)
                  else unvarint_fuel f r (shift + 7) (acc + (x - 128) * 2 ^ shift)
      end
  end.
Definition unvarint (b : bytes) : option (N * bytes) := unvarint_fuel 10 b 0 0.

(* parse_protobuf_bytes / parse_protobuf_string with the given field tag byte (wire type 2):
   absent field (input does not start with the tag) = None and the input is left alone *)
Definition parse_field (tag : N) (b : bytes) : outcome (option bytes * bytes) :=
  match b with
  | [] => Ok (None, [])
  | t :: r =>
      if t =? tag then
        match unvarint r with
        | Some (n, r') =>
            if N.of_nat (length r') <? n then Err
            else Ok (Some (firstn (N.to_nat n) r'), skipn (N.to_nat n) r')
        | None => Err
        end
      else Ok (None, b)
  end.

(* executor.rs:155-157: res.data.and_then(|d| parse_execute_response_data(d).unwrap().data) *)
Definition helper_exec_data (d : option bytes) : outcome (option bytes) :=
  match d with
  | None => Ok None
  | Some b => match parse_field 10 b with Ok (x, _) => Ok x | Err => Panic | Panic => Panic end
  end.

(* executor.rs:99-100: parse_instantiate_response_data(res.data.unwrap_or_default())?.contract_address;
   a missing address field is an error of parse_protobuf_string *)
Definition helper_inst_addr (d : option bytes) : outcome bytes :=
  match parse_field 10 (match d with Some b => b | None => [] end) with
  | Ok (Some a, _) => Ok a
  | _ => Err
  end.
